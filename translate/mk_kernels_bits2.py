"""writes translate/kernels_bits2.json (C14, second batch of translated kernels); the refused probes are listed in props/C14/NOTES.md"""
import json
CT = {"i8":"signed char","u8":"unsigned char","i16":"short","u16":"unsigned short","i32":"int","u32":"unsigned int","i64":"long","u64":"unsigned long"}
PAIRS=[("i32","u32"),("i8","u64"),("u32","i64"),("i64","u64"),("u8","i8"),("i16","i32"),("u32","i32")]
SAT=[("u8","i32"),("i8","i32"),("i32","u32"),("u32","i64"),("i64","u64"),("u64","i8")]  # (To, From)
inst=[]; ker=[]
for f in ["cmp_greater","cmp_less_equal","cmp_greater_equal","cmp_not_equal"]:
    for t,u in PAIRS:
        inst.append(f"(void)etl::{f}<{CT[t]},{CT[u]}>(1,1);")
        ker.append({"cxx_name":f,"gallina_name":f"{f}_{t}_{u}_g","signature_is":f"auto ({CT[t]}, {CT[u]}) noexcept -> bool"})
# in_range<R>(T t): R = U of the pair, T = T of the pair
for t,u in PAIRS:
    inst.append(f"(void)etl::in_range<{CT[u]},{CT[t]}>(1);")
    ker.append({"cxx_name":"in_range","gallina_name":f"in_range_{u}_of_{t}_g","template_args":[CT[u],CT[t]]})
for to,fr in SAT:
    inst.append(f"(void)etl::saturate_cast<{CT[to]},{CT[fr]}>(1);")
    ker.append({"cxx_name":"saturate_cast","gallina_name":f"saturate_cast_{to}_of_{fr}_g","template_args":[CT[to],CT[fr]]})

U={"u8":"unsigned char","u16":"unsigned short","u32":"unsigned int","u64":"unsigned long"}
# byteswap_fallback: operator() of the function object etl::detail::byteswap_fallback (uint16/32/64 overloads)
for w,ct in [(16,"unsigned short"),(32,"unsigned int"),(64,"unsigned long")]:
    ker.append({"cxx_name":"operator()","method_of":"byteswap_fallback","gallina_name":f"byteswap_fallback_u{w}_g","signature_is":f"auto (etl::uint{w}_t) const noexcept -> etl::uint{w}_t"})
for f in ["ntoh","hton"]:
    for w in (8,16,32):
        ker.append({"cxx_name":f,"gallina_name":f"{f}_u{w}_g","signature_is":f"auto (etl::uint{w}_t) noexcept -> etl::uint{w}_t"})
for t in ["i64","u64"]:
    inst.append(f"(void)etl::detail::add_sat_fallback<{CT[t]}>(1,1);")
    ker.append({"cxx_name":"add_sat_fallback","gallina_name":f"add_sat_fallback_{t}_g","template_args":[CT[t]]})
for t in ["i32","i64"]:
    ker.append({"cxx_name":"abs","gallina_name":f"abs_{t}_g","template_args":[CT[t]]})
    inst.append(f"(void)etl::abs<{CT[t]}>(1);")
for t,pos in [("u8",7),("u32",31)]:
    for f in ["set_bit","reset_bit","flip_bit","test_bit"]:
        inst.append(f"(void)etl::{f}<{pos}>(({CT[t]})1);")
        ker.append({"cxx_name":f,"gallina_name":f"{f}_tpl{pos}_{t}_g","template_args":[str(pos),CT[t]],"signature_contains":["("+CT[t]+")"]})
    inst.append(f"(void)etl::set_bit<{pos}>(({CT[t]})1, true);")
    ker.append({"cxx_name":"set_bit","gallina_name":f"set_bit_val_tpl{pos}_{t}_g","template_args":[str(pos),CT[t]],"signature_contains":["("+CT[t]+", bool)"]})
tu="#include <etl/experimental/net/byte_order.hpp>\n#include <etl/utility.hpp>\n#include <etl/cstdlib.hpp>\n#include <etl/bit.hpp>\n#include <etl/numeric.hpp>\ninline void verif_instantiate() {\n"+"\n".join(inst)+"\n}\n"
json.dump({"tu":tu,"records":{},"calls":{},"auto_callees":True,"lazy_short_circuit":True,"nttp_values":True,"kernels":ker},open("/verif/translate/kernels_bits2.json","w"),indent=1)
