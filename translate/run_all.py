#!/usr/bin/env python3
"""regenerates every coq/Gen/*.v listed in translate/targets.json from $VERIF_REPO (default /repo)"""
import json, os, subprocess, sys
ROOT = os.path.dirname(os.path.dirname(os.path.abspath(__file__)))
rc = 0
COQ_DIR = os.environ.get("VERIF_COQ_DIR")        # a run against another checkout works in its own copy of coq/
for cfg, out in json.load(open(os.path.join(ROOT, "translate", "targets.json"))):
    if COQ_DIR and out.startswith("coq/"):
        out = os.path.join(COQ_DIR, out[len("coq/"):])
    r = subprocess.run([sys.executable, os.path.join(ROOT, "translate", "cxx2gallina.py"), os.path.join(ROOT, cfg), os.path.join(ROOT, out)],
                       capture_output=True, text=True)
    print(out, r.stdout.strip(), r.stderr.strip()[-300:])
    rc = rc or r.returncode
sys.exit(rc)
