#!/usr/bin/env python3
"""cxx2gallina — regenerates Gallina definitions of straight-line integer kernels from clang's typed AST.

    cxx2gallina.py <kernels.json> <out.v>

For every kernel listed in kernels.json the translation unit is parsed by
    clang++ -std=c++20 -I$REPO/include -fsyntax-only -Xclang -ast-dump=json -Xclang -ast-dump-filter=<name>
and the selected declaration is translated expression by expression, using ONLY what the AST says:
the type of every sub-expression and every implicit cast (integral promotions, usual arithmetic
conversions, narrowing initialisations are not re-implemented here, they are copied from clang).

Semantics of the output (coq/Lib/Base.v): values are Z; a signed +,-,* and unary - is `chk ity (...)`
(None = signed overflow = undefined behaviour); unsigned +,-,* is `wrap_ty ity (...)`; / and % are
Z.quot / Z.rem (divisor must be a non-zero literal other than -1, else the kernel is REFUSED);
integral casts are modular (`wrap_ty`) unless the source range is contained in the target range;
bool -> int is `if b then 1 else 0`.

Anything outside the accepted subset makes the translator refuse the kernel (exception with the
offending node kind) — never guess.

Opt-in extensions (configuration keys, see translate/README.md): tu_file, template_args, clang_constants, record kinds
"ctor" / "array", call kinds "getter:" / "getter_copy:", auto_callees (C12); structs, method_of, ctor_of,
inline_carried_members (C11: plain records carried field by field, constructors from their definitions, inlined callees,
tracked effects of non-const member functions).
"""
import json
import os
import subprocess
import sys

REPO = os.environ.get("VERIF_REPO", "/repo")

ITY = {  # LP64, char signed
    "bool": ("bool", 1, False),
    "char": ("i8", 8, True), "signed char": ("i8", 8, True), "unsigned char": ("u8", 8, False),
    "short": ("i16", 16, True), "unsigned short": ("u16", 16, False),
    "int": ("i32", 32, True), "unsigned int": ("u32", 32, False),
    "long": ("i64", 64, True), "unsigned long": ("u64", 64, False),
    "long long": ("i64", 64, True), "unsigned long long": ("u64", 64, False),
    "wchar_t": ("i32", 32, True), "char8_t": ("u8", 8, False), "char16_t": ("u16", 16, False), "char32_t": ("u32", 32, False),
}


class Refuse(Exception):
    pass


def ast_dump(tu_text, name, extra=()):
    import threading
    tu = "/tmp/.cxx2gallina_%d_%d.cpp" % (os.getpid(), threading.get_ident())
    with open(tu, "w") as f:
        f.write(tu_text)
    try:
        r = subprocess.run(["clang++", "-std=c++20", f"-I{REPO}/include", "-fsyntax-only", "-Xclang", "-ast-dump=json",
                            "-Xclang", f"-ast-dump-filter={name}", *extra, tu], capture_output=True, text=True, timeout=300)
    finally:
        os.remove(tu)
    txt = r.stdout
    dec = json.JSONDecoder()
    i = 0
    objs = []
    while i < len(txt):
        while i < len(txt) and txt[i].isspace():
            i += 1
        if i >= len(txt):
            break
        o, j = dec.raw_decode(txt, i)
        objs.append(o)
        i = j
    if not objs:
        raise Refuse(f"clang produced no declaration for {name}: {r.stderr[-300:]}")
    return objs


class Forest:
    """every declaration of the translation unit whose qualified name contains the filter (default `etl::`), from ONE
    clang run, so that node ids are consistent: function definitions (also the instantiations nested in
    FunctionTemplateDecl / class template specialisations) and variable declarations by id (for constants)."""
    tu_text = ""                  # the translation unit of the current configuration
    use_clang_constants = False   # configuration key "clang_constants"

    def __init__(self, objs):
        self.funcs = []
        self.vars = {}
        self.func_by_id = {}
        self.ctors = []           # (class name, [template argument strings], CXXConstructorDecl) of class template specialisations
        self.owner = {}           # function id -> (class name, [template argument strings]) of the enclosing specialisation
        self.clang_values = None  # mangled name -> value of constexpr static data members, evaluated by clang (lazy)
        for o in objs:
            self.walk(o, None)
        # --- plain (non-template) records, for the configuration key "structs": fields, constructors, owners of member
        # functions (also of the out-of-line definitions), definitions by the id of their first declaration
        self.rec_name = {}        # CXXRecordDecl id -> name
        self.rec_fields = {}      # record name -> [(field name, printed type)]
        self.rec_ctors = []       # (record name, CXXConstructorDecl)
        self.rec_owner = {}       # id of a member function / constructor declaration -> record name
        self.def_by_decl = {}     # id of any declaration of a function -> its definition
        self._seen2 = set()
        for o in objs:
            self.walk_names(o)
        for o in objs:
            self.walk2(o, None)

    def walk_names(self, n):
        if not isinstance(n, dict):
            return
        if n.get("kind") == "CXXRecordDecl" and not n.get("isImplicit") and "id" in n and n.get("name"):
            self.rec_name.setdefault(n["id"], n["name"])
        for c in n.get("inner", []):
            self.walk_names(c)

    def walk2(self, n, rec):
        if not isinstance(n, dict):
            return
        k = n.get("kind")
        if k in ("ClassTemplateDecl", "ClassTemplateSpecializationDecl", "ClassTemplatePartialSpecializationDecl"):
            return
        if k == "CXXRecordDecl" and not n.get("isImplicit") and n.get("name") and n.get("completeDefinition"):
            rec = n["name"]
            if n.get("id") not in self._seen2:
                self._seen2.add(n.get("id"))
                self.rec_fields[rec] = [(c.get("name"), qt(c)) for c in n.get("inner", []) if isinstance(c, dict) and c.get("kind") == "FieldDecl"]
        if k in ("FunctionDecl", "CXXMethodDecl", "CXXConversionDecl", "CXXConstructorDecl") and "id" in n:
            owner = self.rec_name.get(n.get("parentDeclContextId")) if "parentDeclContextId" in n else rec
            if k != "FunctionDecl" and owner is not None:
                self.rec_owner[n["id"]] = owner
            if any(isinstance(x, dict) and x.get("kind") == "CompoundStmt" for x in n.get("inner", [])):
                self.def_by_decl.setdefault(n["id"], n)
                if "previousDecl" in n:
                    self.def_by_decl.setdefault(n["previousDecl"], n)
            if k == "CXXConstructorDecl" and owner is not None and n["id"] not in self._seen2:
                self._seen2.add(n["id"])
                self.rec_ctors.append((owner, n))
            return
        for c in n.get("inner", []):
            self.walk2(c, rec)

    def walk(self, n, cls):
        k = n.get("kind")
        if k in ("FunctionDecl", "CXXMethodDecl", "CXXConversionDecl") and any(x.get("kind") == "CompoundStmt" for x in n.get("inner", [])):
            self.funcs.append(n)
            if "id" in n:
                self.func_by_id[n["id"]] = n
                if cls is not None:
                    self.owner[n["id"]] = cls
            return
        if k == "CXXConstructorDecl" and cls is not None:
            self.ctors.append((cls[0], cls[1], n))
        if k == "VarDecl" and "id" in n:
            self.vars[n["id"]] = n
        if k == "ClassTemplateSpecializationDecl":
            args = []
            for c in n.get("inner", []):
                if isinstance(c, dict) and c.get("kind") == "TemplateArgument":
                    args.append(c.get("type", {}).get("qualType") if "type" in c else str(c.get("value", "?")))
            cls = (n.get("name"), args)
        for c in n.get("inner", []):
            if isinstance(c, dict):
                self.walk(c, cls)


SIZEOF = {"bool": 1, "char": 1, "signed char": 1, "unsigned char": 1, "short": 2, "unsigned short": 2, "int": 4, "unsigned int": 4,
          "long": 8, "unsigned long": 8, "long long": 8, "unsigned long long": 8, "wchar_t": 4, "char8_t": 1, "char16_t": 2, "char32_t": 4}


def clang_constants(forest):
    """values of the constexpr static data members of class template specialisations (ratio<N, D>::num / ::den and the
    like), evaluated BY CLANG: every such VarDecl of the forest carries its mangled name; the demangled qualified name
    is used as a non-type template argument in a second translation unit, whose AST shows the evaluated value."""
    if forest.clang_values is not None:
        return forest.clang_values
    names = sorted({v["mangledName"] for v in forest.vars.values()
                    if v.get("constexpr") and v.get("storageClass") == "static" and v.get("mangledName", "").startswith("_ZN")
                    and ity_ok(v)})
    forest.clang_values = {}
    if not names:
        return forest.clang_values
    r = subprocess.run(["c++filt"], input="\n".join(names), capture_output=True, text=True, timeout=60)
    dem = r.stdout.split("\n")[:len(names)]
    ok = [(m, d) for m, d in zip(names, dem) if d and d != m and "(" not in d and "{" not in d and "'" not in d]
    tu = Forest.tu_text + "\ntemplate <int VerifK, auto VerifV> struct verif_clang_value {};\n"
    for i, (m, d) in enumerate(ok):
        tu += f"verif_clang_value<{i}, ({d})> verif_clang_value_{i};\n"
    try:
        objs = ast_dump(tu, "verif_clang_value", extra=("-ferror-limit=0",))   # (a private member is an error of its own line only)
    except Refuse:
        return forest.clang_values

    def walk(n):
        if not isinstance(n, dict):
            return
        if n.get("kind") == "ClassTemplateSpecializationDecl" and n.get("name") == "verif_clang_value":
            a = [c for c in n.get("inner", []) if isinstance(c, dict) and c.get("kind") == "TemplateArgument"]
            if len(a) == 2 and "value" in a[0] and "value" in a[1]:
                forest.clang_values[ok[int(a[0]["value"])][0]] = int(a[1]["value"])
        for c in n.get("inner", []):
            walk(c)
    for o in objs:
        walk(o)
    return forest.clang_values


def ity_ok(node):
    try:
        ity_of(node)
        return True
    except Refuse:
        return False


def const_call(fn, forest):
    """value of a nullary constexpr function whose body is `return <constant>;` (numeric_limits<T>::min() / max())"""
    if any(p.get("kind") == "ParmVarDecl" for p in fn.get("inner", [])):
        raise Refuse(f"call to {fn.get('name')} with parameters")
    body = [x for x in fn["inner"] if x.get("kind") == "CompoundStmt"][0].get("inner", [])
    if len(body) != 1 or body[0].get("kind") != "ReturnStmt":
        raise Refuse(f"call to {fn.get('name')}: body is not a single return")
    v = const_eval(body[0]["inner"][0], forest)
    name, bits, sg = ity_of(body[0]["inner"][0])
    return v


def const_eval(n, forest, depth=0):
    """value of a constant initialiser (numeric_limits<T>::digits and the like), or Refuse.  Only literals, sizeof of a
    builtin type, casts between integer types that keep the value, + - * and references to other constants."""
    if depth > 20:
        raise Refuse("constant initialiser too deep")
    k = n.get("kind")
    inner = [c for c in n.get("inner", []) if isinstance(c, dict)]
    if k in ("IntegerLiteral", "CharacterLiteral"):
        return int(n["value"])
    if k == "CXXBoolLiteralExpr":
        return 1 if n["value"] else 0
    if k in ("ParenExpr", "ConstantExpr", "ExprWithCleanups", "ImplicitCastExpr", "CXXStaticCastExpr", "CXXFunctionalCastExpr", "CStyleCastExpr"):
        v = const_eval(inner[0], forest, depth + 1)
        if k.endswith("CastExpr") and n.get("castKind") == "IntegralCast":
            name, bits, sg = ity_of(n)
            lo = -(1 << (bits - 1)) if sg else 0
            hi = (1 << (bits - 1)) - 1 if sg else (1 << bits) - 1
            if not lo <= v <= hi:
                raise Refuse("constant initialiser: value-changing cast")
        return v
    if k in ("InitListExpr", "CXXScalarValueInitExpr") and not inner:
        ity_of(n)           # value-initialisation of an integer type: zero
        return 0
    if k == "UnaryExprOrTypeTraitExpr" and n.get("name") == "sizeof":
        t = strip_cv(n.get("argType", {}).get("desugaredQualType") or n.get("argType", {}).get("qualType") or "")
        if t in SIZEOF:
            return SIZEOF[t]
        raise Refuse(f"sizeof({t}) in a constant initialiser")
    if k == "BinaryOperator" and n.get("opcode") in ("+", "-", "*"):
        a, b = const_eval(inner[0], forest, depth + 1), const_eval(inner[1], forest, depth + 1)
        v = {"+": a + b, "-": a - b, "*": a * b}[n["opcode"]]
        name, bits, sg = ity_of(n)
        lo = -(1 << (bits - 1)) if sg else 0
        hi = (1 << (bits - 1)) - 1 if sg else (1 << bits) - 1
        if not lo <= v <= hi:
            raise Refuse("constant initialiser: arithmetic leaves the type's range")
        return v
    if k == "UnaryOperator" and n.get("opcode") in ("-", "+"):
        v = const_eval(inner[0], forest, depth + 1)
        return -v if n["opcode"] == "-" else v
    if k == "CallExpr" or k == "CXXMemberCallExpr":
        callee = inner[0]
        while callee.get("kind") in ("ImplicitCastExpr", "ParenExpr"):
            callee = callee["inner"][0]
        fid = callee.get("referencedDecl", {}).get("id") or callee.get("referencedMemberDecl")
        fn = forest.func_by_id.get(fid)
        if fn is not None and len(inner) == 1:
            return const_call(fn, forest)
        raise Refuse("call in a constant initialiser")
    if k == "ConditionalOperator":
        return const_eval(inner[1] if const_eval(inner[0], forest, depth + 1) else inner[2], forest, depth + 1)
    if k == "DeclRefExpr":
        v = forest.vars.get(n.get("referencedDecl", {}).get("id"))
        if v is not None:
            init = [c for c in v.get("inner", []) if isinstance(c, dict) and c.get("kind") not in ("FullComment",)]
            if init:
                try:
                    return const_eval(init[0], forest, depth + 1)
                except Refuse:
                    # not foldable here (calls gcd / abs ...): a constexpr static data member can be evaluated by clang
                    if Forest.use_clang_constants and v.get("mangledName") in clang_constants(forest):
                        return clang_constants(forest)[v["mangledName"]]
                    raise
        raise Refuse(f"constant {n.get('referencedDecl', {}).get('name')} has no visible initialiser")
    raise Refuse(f"constant initialiser kind {k}")


def qt(node):
    t = node.get("type", {})
    return t.get("desugaredQualType") or t.get("qualType") or ""


def strip_cv(t):
    t = t.replace("const ", "").replace("volatile ", "").strip()
    if t.endswith(" const"):
        t = t[:-6]
    return t.rstrip("&").strip()


def ity_of(node):
    t = strip_cv(qt(node))
    if t in ITY:
        return ITY[t]
    raise Refuse(f"non-integer type '{qt(node)}' at {node.get('kind')}")


import re

_TY_WORDS = sorted(ITY, key=len, reverse=True)


def type_key(t):
    """an identifier fragment for a printed C++ type (used only to NAME generated definitions)"""
    t = strip_cv(t)
    for w in ("etl::chrono::", "etl::", "typename ", "struct ", "class "):
        t = t.replace(w, "")
    for w in _TY_WORDS:
        t = re.sub(r"(?<![A-Za-z0-9_])" + re.escape(w) + r"(?![A-Za-z0-9_])", ITY[w][0], t)
    t = re.sub(r"[^A-Za-z0-9]+", "_", t).strip("_")
    return t


def record_canon(t):
    """canonical spelling of a printed class template specialisation (default template arguments of duration and
    ratio written out), so that `duration<int>` and `duration<int, etl::ratio<1, 1>>` compare equal"""
    t = strip_cv(t)
    for w in ("etl::chrono::", "etl::", "typename ", "struct ", "class "):
        t = t.replace(w, "")
    t = t.replace(" ", "")
    t = re.sub(r"ratio<(-?[0-9]+)>", r"ratio<\1,1>", t)
    t = re.sub(r"duration<([A-Za-z_]+)>", r"duration<\1,ratio<1,1>>", t)
    return t


OPNAMES = {"operator+": "op_plus", "operator-": "op_minus", "operator*": "op_mul", "operator/": "op_div", "operator%": "op_mod",
           "operator<": "op_lt", "operator>": "op_gt", "operator<=": "op_le", "operator>=": "op_ge", "operator==": "op_eq",
           "operator!=": "op_ne"}


def callee_name(fn, forest):
    """deterministic Gallina name of a function translated on demand: name, template arguments of the enclosing class
    specialisation, own template arguments, parameter types"""
    parts = [OPNAMES.get(fn.get("name"), re.sub(r"[^A-Za-z0-9]+", "_", fn.get("name", "fn")))]
    own = forest.owner.get(fn.get("id"))
    if own is not None:
        parts.append(own[0])
        parts += [type_key(a or "") for a in own[1]]
    for c in fn.get("inner", []):
        if c.get("kind") == "TemplateArgument":
            parts.append(type_key(c["type"]["qualType"]) if "type" in c else str(c.get("value", "x")))
    parts.append("of")
    for c in fn.get("inner", []):
        if c.get("kind") == "ParmVarDecl":
            parts.append(type_key(qt(c)))
    return "_".join(x for x in parts if x) + "_g"


class SV(list):
    """value of a record listed in the configuration key "structs": one term per field (a field of record type is an
    SV again); printed as a Gallina tuple, a record with one scalar field as the bare value"""

    def __str__(self):
        return str(self[0]) if len(self) == 1 else "(" + ", ".join(str(x) for x in self) + ")"


def sv_flat(v):
    if isinstance(v, SV):
        return [y for x in v for y in sv_flat(x)]
    return [v]


def rec_key(t):
    """name of the configured struct a printed type denotes, or None"""
    t = strip_cv(t)
    if t.startswith("struct "):
        t = t[7:]
    t = t.split("::")[-1] if "<" not in t else t
    return t if t in Tr.structs else None


def carried_key(t):
    return strip_cv(t).split("<")[0].split("::")[-1]


def is_const_method(fn):
    return bool(re.search(r"\) const( noexcept)?( ->.*)?$", fn.get("type", {}).get("qualType", "")))


def sv_names(rec, prefix):
    """an SV of fresh parameter names for a record: <prefix>_<field without leading underscore>, a one-field record of
    a scalar is the prefix itself"""
    fields = struct_fields(rec)
    out = SV()
    for (fname, ftype) in fields:
        sub = rec_key(ftype)
        nm = prefix if len(fields) == 1 else (prefix + "_" if prefix else "") + fname.lstrip("_")
        out.append(sv_names(sub, nm) if sub else nm)
    return out


def struct_fields(rec):
    """the fields of a configured struct, CHECKED against the record definition of the AST"""
    want = Tr.structs[rec]
    have = Tr.forest.rec_fields.get(rec) if Tr.forest is not None else None
    if have is None or [f for f, _ in have] != list(want):
        raise Refuse(f"struct {rec}: configured fields {want} are not the record's fields {have}")
    for (f, t) in have:
        if rec_key(t) is None:
            ity_of({"type": {"qualType": t}, "kind": "FieldDecl"})      # integer field or Refuse
    return have


def sv_pattern(rec, tr, base):
    """fresh names for every leaf of a record value (to take a tuple apart)"""
    fields = struct_fields(rec)
    out = SV()
    for (fname, ftype) in fields:
        sub = rec_key(ftype)
        out.append(sv_pattern(sub, tr, base) if sub else tr.fresh(base + fname.lstrip("_") + "_"))
    return out


class Tr:
    structs = {}          # configuration key "structs": record name -> field names (plain records carried field by field)
    forest = None         # all declarations of the translation unit (set per configuration)
    kernel_calls = {}     # C++ function name -> Gallina name of an already generated kernel (set per configuration)
    auto_callees = False  # configuration key "auto_callees": translate called functions on demand, resolved by declaration id
    kernel_ids = {}       # declaration id -> Gallina name of an already generated definition
    pending = []          # definitions generated on demand, to be emitted before the kernel being translated
    in_progress = set()   # declaration ids being translated (recursion is refused)
    cfg = {}
    nttp_values = False   # configuration key "nttp_values": integer non-type template parameters of an instantiation are their substituted literals
    lazy_logic = False    # configuration key "lazy_short_circuit": `a && b` / `a || b` with a checked right operand (as with "structs")

    def __init__(self, records, calls, members):
        self.binds = []       # list of (kind, name, rhs) ; kind in {"do", "let"}
        self.n = 0
        self.env = {}         # C++ variable id -> current Gallina name
        self.records = records
        self.calls = calls
        self.members = members
        self.this_val = None  # SV of the object a member function / constructor body works on (key "structs")
        self.this_rec = None
        self.this_carried = None   # (member name, value): *this of an inlined member function of a carried record
        self.may_mutate = False    # inside a member function / constructor body whose effects on *this are tracked

    def fresh(self, base="t"):
        self.n += 1
        return f"{base}{self.n}"

    # ---- expressions: returns a pure Gallina term; may append binds
    def expr(self, n):
        k = n["kind"]
        inner = n.get("inner", [])
        if Tr.structs:
            r = self.expr_struct(n, k, inner)
            if r is not NotImplemented:
                return r
        if k == "ConstantExpr" and "value" in n:
            # clang evaluated it (e.g. the condition of an `if constexpr` in an instantiation)
            v = n["value"]
            if strip_cv(qt(n)) == "bool":
                return "true" if str(v) in ("1", "true") else "false"
            return str(int(v)) if int(v) >= 0 else f"({int(v)})"
        if k in ("ParenExpr", "ExprWithCleanups", "MaterializeTemporaryExpr", "ConstantExpr", "CXXBindTemporaryExpr"):
            return self.expr(inner[0])
        if k == "IntegerLiteral":
            v = int(n["value"])
            return str(v) if v >= 0 else f"({v})"
        if k == "CharacterLiteral":
            v = int(n["value"])
            return str(v) if v >= 0 else f"({v})"
        if k == "CXXBoolLiteralExpr":
            return "true" if n["value"] else "false"
        if k == "DeclRefExpr":
            rid = n["referencedDecl"]["id"]
            if rid in self.env:
                return self.env[rid]
            if n["referencedDecl"].get("kind") == "VarDecl" and Tr.forest is not None and rid in Tr.forest.vars:
                v = const_eval(n, Tr.forest)
                return str(v) if v >= 0 else f"({v})"
            raise Refuse(f"reference to unknown declaration {n['referencedDecl'].get('name')}")
        if k == "MemberExpr":
            name = n.get("name")
            if name in self.members:
                return self.members[name]
            raise Refuse(f"member access {name}")
        if k in ("ImplicitCastExpr", "CXXStaticCastExpr", "CXXFunctionalCastExpr", "CStyleCastExpr"):
            ck = n.get("castKind")
            if ck in ("LValueToRValue", "NoOp", "ConstructorConversion", "UserDefinedConversion"):
                return self.expr(inner[0])
            if ck == "IntegralCast":
                return self.cast(inner[0], n)
            if ck == "IntegralToBoolean":
                return f"(negb ({self.expr(inner[0])} =? 0))"
            raise Refuse(f"cast kind {ck}")
        if k == "UnaryOperator":
            op = n["opcode"]
            if op == "-" and inner[0].get("kind") == "IntegerLiteral":
                return f"(-{int(inner[0]['value'])})"
            a = self.expr(inner[0])
            if op == "!":
                return f"(negb {a})"
            if op == "-":
                name, bits, sg = ity_of(n)
                if sg:
                    t = self.fresh()
                    self.binds.append(("do", t, f"chk {name} (0 - {a})"))
                    return t
                return f"(wrap_ty {name} (0 - {a}))"
            if op == "+":
                return a
            if op == "~":
                name, bits, sg = ity_of(n)
                return f"(not_ty {name} {a})"
            raise Refuse(f"unary operator {op}")
        if k == "BinaryOperator":
            return self.binop(n)
        if k == "ConditionalOperator":
            c = self.expr(inner[0])
            a_term, a_mon = self.branch(inner[1])
            b_term, b_mon = self.branch(inner[2])
            if a_mon is None and b_mon is None:
                return f"(if {c} then {a_term} else {b_term})"
            t = self.fresh()
            self.binds.append(("do", t, f"(if {c} then {a_mon or 'Some ' + a_term} else {b_mon or 'Some ' + b_term})"))
            return t
        if k in ("CXXTemporaryObjectExpr", "CXXConstructExpr"):
            t = strip_cv(qt(n))
            key = t.split("<")[0].split("::")[-1]
            if key in self.records and self.records[key]["kind"] != "ctor":
                spec = self.records[key]
                args = [self.expr(x) for x in inner]
                if spec["kind"] == "cast":
                    if len(args) != 1:
                        raise Refuse(f"constructor of {t} with {len(args)} arguments")
                    return f"(wrap_ty {spec['ity']} {args[0]})"
                if spec["kind"] == "tuple":
                    return "(" + ", ".join(args) + ")"
                if spec["kind"] == "id":
                    return args[0]
            if key in self.records and self.records[key]["kind"] == "ctor":
                return self.construct(n, key, self.records[key])
            raise Refuse(f"constructor of record type {t}")
        if k == "InitListExpr":
            # T x{e} with e a prvalue of the same record type: the (elided) copy
            t = strip_cv(qt(n))
            key = t.split("<")[0].split("::")[-1]
            if (key in self.records and self.records[key]["kind"] == "ctor" and len(inner) == 1
                    and record_canon(qt(inner[0])) == record_canon(qt(n))):
                return self.expr(inner[0])
            raise Refuse(f"initializer list of type {t}")
        if k in ("CXXMemberCallExpr", "CallExpr", "CXXOperatorCallExpr"):
            callee = inner[0]
            while callee.get("kind") in ("ImplicitCastExpr", "ParenExpr"):
                callee = callee["inner"][0]
            name = callee.get("name") or callee.get("referencedDecl", {}).get("name") or callee.get("referencedMemberDecl", "")
            if callee.get("kind") == "MemberExpr":
                # x.count(), static_cast<unsigned>(m) via conversion operator, ... : value-carrying accessors
                if name in self.calls and self.calls[name] == "id":
                    return self.expr(callee["inner"][0])
                if name in self.calls and self.calls[name].startswith("getter_copy:"):
                    # the same, the member being a record that the accessor returns by (defaulted) copy
                    check_getter(Tr.forest, callee.get("referencedMemberDecl"), self.calls[name][len("getter_copy:"):], copy=True)
                    return self.expr(callee["inner"][0])
                if name in self.calls and self.calls[name].startswith("getter:"):
                    # accessor of a record carried as its one data member: the body must be `return <member>;`
                    check_getter(Tr.forest, callee.get("referencedMemberDecl"), self.calls[name][len("getter:"):])
                    return self.expr(callee["inner"][0])
            if name in self.calls and self.calls[name] == "id":
                return self.expr(inner[1])
            if len(inner) == 1 and Tr.forest is not None:
                fid = callee.get("referencedDecl", {}).get("id") or callee.get("referencedMemberDecl")
                fn = Tr.forest.func_by_id.get(fid)
                if fn is not None:
                    try:
                        v = const_call(fn, Tr.forest)
                        return str(v) if v >= 0 else f"({v})"
                    except Refuse:
                        if not Tr.auto_callees:
                            raise
            if Tr.auto_callees and callee.get("kind") == "DeclRefExpr" and Tr.forest is not None:
                # a call resolved by DECLARATION ID (overloads / instantiations share a name): the callee is a kernel
                # translated earlier or is translated now, on demand, under a name derived from its types
                ref = callee.get("referencedDecl", {})
                fn = Tr.forest.func_by_id.get(ref.get("id"))
                if fn is None:
                    raise Refuse(f"call to {name}: no visible definition")
                if fn.get("kind") == "CXXMethodDecl" and (k == "CXXOperatorCallExpr" or fn.get("storageClass") != "static"):
                    raise Refuse(f"call to non-static member function {name}")
                if fn.get("kind") not in ("FunctionDecl", "CXXMethodDecl"):
                    raise Refuse(f"call to {fn.get('kind')} {name}")
                g = ensure_callee(fn)
                nparams = sum(1 for p in fn.get("inner", []) if p.get("kind") == "ParmVarDecl")
                if nparams != len(inner) - 1:
                    raise Refuse(f"call to {name}: {len(inner) - 1} arguments for {nparams} parameters")
                args = [self.expr(x) for x in inner[1:]]
                t = self.fresh()
                self.binds.append(("do", t, " ".join([g] + args)))
                return t
            if name in self.kernel_calls and callee.get("kind") == "DeclRefExpr":
                # a call to a kernel translated earlier in the same file: evaluate the arguments (left to right;
                # they are side-effect free in the accepted subset), then bind the callee's checked result
                args = [self.expr(x) for x in inner[1:]]
                t = self.fresh()
                self.binds.append(("do", t, f"{self.kernel_calls[name]} " + " ".join(args)))
                return t
            raise Refuse(f"call to {name}")
        if k == "SubstNonTypeTemplateParmExpr" and Tr.nttp_values:
            # configuration key "nttp_values": a non-type template parameter of integer type inside an INSTANTIATION is the
            # literal clang substituted for it (the kernel is selected by `template_args`, so the value is part of its identity)
            if (len(inner) == 2 and inner[0].get("kind") == "NonTypeTemplateParmDecl"
                    and inner[1].get("kind") in ("IntegerLiteral", "CXXBoolLiteralExpr", "CharacterLiteral")):
                ity_of(n)
                return self.expr(inner[1])
            raise Refuse("non-type template parameter that is not substituted by a literal")
        raise Refuse(f"expression kind {k}")

    # ---- configuration key "structs": plain records carried field by field, calls INLINED from the callee's definition
    def sub_tr(self):
        sub = Tr(self.records, self.calls, self.members)
        sub.binds = self.binds          # straight-line code is spliced into the caller's bindings
        sub.n = self.n
        sub.may_mutate = True           # (branches get fresh translators, where effects on objects are refused)
        return sub

    def expr_struct(self, n, k, inner):
        if k == "DeclRefExpr" and n["referencedDecl"]["id"] not in self.env and rec_key(qt(n)) is not None \
                and not struct_fields(rec_key(qt(n))):
            return SV()                         # an object of an empty record (the tag `last`): no value to carry
        if k == "CXXThisExpr":
            if self.this_val is None:
                raise Refuse("this outside a member function")
            return self.this_val
        if k == "UnaryOperator" and n.get("opcode") == "*" and inner[0].get("kind") == "CXXThisExpr":
            return self.expr(inner[0])
        if k == "UnaryOperator" and n.get("opcode") in ("++", "--") and self.member_slot(inner[0]) is not None:
            # ++m / m++ on an integer member of *this: narrower than int = computed in int and converted back (modular)
            i = self.member_slot(inner[0])
            old = self.this_val[i]
            name, bits, sg = ity_of(inner[0])
            op = "+" if n["opcode"] == "++" else "-"
            if bits < 32 or not sg:
                new = f"(wrap_ty {name} ({old} {op} 1))"
            else:
                new = self.fresh()
                self.binds.append(("do", new, f"chk {name} ({old} {op} 1)"))
            self.set_member(i, new)
            return old if n.get("isPostfix") else new
        if k == "CompoundAssignOperator" and self.member_slot(inner[0]) is not None:
            # m op= e on an integer member of *this: computed in the types clang names, converted back to the member's
            lhs, rhs = inner
            i = self.member_slot(lhs)
            lv = {"kind": "ImplicitCastExpr", "castKind": "LValueToRValue", "type": lhs["type"], "inner": [lhs]}
            lc = {"kind": "ImplicitCastExpr", "castKind": "IntegralCast", "type": n.get("computeLHSType", lhs["type"]), "inner": [lv]}
            fake = {"kind": "BinaryOperator", "opcode": n["opcode"][:-1], "type": n.get("computeResultType", n["type"]), "inner": [lc, rhs]}
            new = self.cast(fake, {"kind": "CompoundAssignOperator", "type": lhs["type"]})
            self.set_member(i, new)
            return new
        if k == "MemberExpr" and inner and inner[0].get("kind") == "CXXThisExpr" and self.this_carried is not None:
            if n.get("name") != self.this_carried[0]:
                raise Refuse(f"member {n.get('name')} of a carried record")
            return self.this_carried[1]
        if k == "InitListExpr" and self.records.get(carried_key(qt(n)), {}).get("kind") == "array":
            # aggregate initialisation of etl::array<T, N> with all N scalar elements written out
            if len(inner) != 1 or inner[0].get("kind") != "InitListExpr" or "array_filler" in inner[0]:
                raise Refuse("array initialiser that does not list every element")
            elems = [self.expr(x) for x in inner[0].get("inner", [])]
            m = re.search(r"array<[^,]*, *([0-9]+)", record_canon(qt(n)))
            if any(not isinstance(e, str) for e in elems) or not m or int(m.group(1)) != len(elems):
                raise Refuse("array initialiser: element count")
            return ("array", elems)
        if k == "MemberExpr" and inner and not qt(n).startswith("<bound member"):
            base = inner[0]
            rec = rec_key(qt(base).rstrip("*").strip()) if base.get("kind") == "CXXThisExpr" else rec_key(qt(base))
            if rec is None:
                return NotImplemented
            v = self.expr(base)
            names = [f for f, _ in struct_fields(rec)]
            if not isinstance(v, SV) or n.get("name") not in names or len(v) != len(names):
                raise Refuse(f"member access {n.get('name')} of {rec}")
            return v[names.index(n["name"])]
        if k in ("CXXConstructExpr", "CXXTemporaryObjectExpr"):
            rec = rec_key(qt(n))
            if rec is None:
                return NotImplemented
            return self.construct_struct(n, rec, inner)
        if k == "InitListExpr" and len(inner) == 1 and rec_key(qt(n)) is not None and rec_key(qt(inner[0])) == rec_key(qt(n)):
            v = self.expr(inner[0])             # T{e} with e a prvalue of the same struct: the (elided) copy
            if not isinstance(v, SV):
                raise Refuse(f"initializer list of struct {rec_key(qt(n))}")
            return v
        if k == "InitListExpr" and len(inner) == 1 and rec_key(qt(n)) is None and ity_ok(n) and ity_ok(inner[0]) \
                and ity_of(n) == ity_of(inner[0]):
            return self.expr(inner[0])          # int{e} with e of that very type (conversions are explicit cast nodes)
        if k == "ArraySubscriptExpr":
            a = inner[0]
            while a.get("kind") in ("ImplicitCastExpr", "ParenExpr"):
                a = a["inner"][0]
            arr = self.env.get(a.get("referencedDecl", {}).get("id")) if a.get("kind") == "DeclRefExpr" else None
            if arr is None and a.get("kind") == "MemberExpr" and self.this_carried is not None:
                arr = self.expr(a)
            if not (isinstance(arr, tuple) and arr[0] == "array"):
                raise Refuse("subscript of something that is not a local constant array")
            idx = self.expr(inner[1])
            t = self.fresh()
            self.binds.append(("do", t, "nth_chk [" + "; ".join(arr[1]) + f"] {idx}"))   # None = index outside the array
            return SV([t]) if rec_key(qt(n)) else t
        if k in ("CXXMemberCallExpr", "CallExpr", "CXXOperatorCallExpr"):
            callee = inner[0]
            while callee.get("kind") in ("ImplicitCastExpr", "ParenExpr"):
                callee = callee["inner"][0]
            name = callee.get("name") or callee.get("referencedDecl", {}).get("name") or ""
            if name in self.calls:
                return NotImplemented           # configured accessor of a carried record (duration::count ...)
            if callee.get("kind") == "MemberExpr":
                fid, obj, args = callee.get("referencedMemberDecl"), callee["inner"][0], inner[1:]
            elif callee.get("kind") == "DeclRefExpr":
                fid, obj, args = callee.get("referencedDecl", {}).get("id"), None, inner[1:]
            else:
                return NotImplemented
            fn = Tr.forest.def_by_decl.get(fid) if Tr.forest is not None else None
            if fn is None and Tr.forest is not None and Tr.cfg.get("inline_carried_members"):
                # a member function of a class template specialisation: only for carried records (checked below)
                fn = Tr.forest.func_by_id.get(fid)
                if fn is not None and not (fn.get("kind") in ("CXXMethodDecl", "CXXConversionDecl") and fn.get("storageClass") != "static"
                                           and fid in Tr.forest.owner):
                    fn = None
            if fn is None:
                return NotImplemented
            is_member = fn.get("kind") in ("CXXMethodDecl", "CXXConversionDecl") and fn.get("storageClass") != "static"
            if is_member and obj is None:
                obj, args = args[0], args[1:]       # member operator called with operator syntax
            if is_member and rec_key(qt(obj).rstrip("*").strip()) is None:
                spec = self.records.get(carried_key(qt(obj)), {})
                if Tr.cfg.get("inline_carried_members") and spec.get("kind") in ("ctor", "array"):
                    # a const member function of a carried record (duration::operator-, array::operator[]): inlined
                    # with `this->member` bound to the carried value
                    return self.call_struct(fn, obj, args, n, carried=spec["member"])
                return NotImplemented           # a member of a record that is not a configured struct (duration ...)
            if is_member and not is_const_method(fn):
                return self.call_mut(fn, obj, args, n)
            return self.call_struct(fn, obj if is_member else None, args, n)
        return NotImplemented

    def call_struct(self, fn, obj, args, n, carried=None):
        name = fn.get("name")
        if fn.get("id") in Tr.in_progress:
            raise Refuse(f"recursive call of {name}")
        if obj is not None and not is_const_method(fn):
            raise Refuse(f"call to non-const member function {name}")
        this_val = self.expr(obj) if obj is not None else None
        ps = [p for p in fn.get("inner", []) if p.get("kind") == "ParmVarDecl"]
        if len(ps) != len(args):
            raise Refuse(f"call to {name}: {len(args)} arguments for {len(ps)} parameters")
        vals = [self.expr(a) for a in args]             # left to right; side-effect free in the accepted subset
        ret_rec = rec_key(qt(n))
        g = Tr.kernel_ids.get(fn.get("id")) or Tr.kernel_ids.get(fn.get("previousDecl"))
        if g is not None:
            # a listed kernel marked "callable", generated earlier: bind its checked result
            flat = (sv_flat(this_val) if this_val is not None else []) + [y for v in vals for y in sv_flat(v)]
            t = self.fresh()
            self.binds.append(("do", t, " ".join([g] + [str(x) for x in flat])))
            return self.take_apart(t, ret_rec, name)
        body = [x for x in fn["inner"] if x.get("kind") == "CompoundStmt"][0].get("inner", [])
        sub = self.sub_tr()
        sub.this_val = this_val
        sub.this_rec = Tr.forest.rec_owner.get(fn.get("id"))
        if carried is not None:
            sub.this_val, sub.this_rec, sub.this_carried = None, None, (carried, this_val)
        for p, v in zip(ps, vals):
            sub.env[p["id"]] = v
        Tr.in_progress.add(fn.get("id"))
        try:
            if all(s.get("kind") in ("DeclStmt", "NullStmt") for s in body[:-1]) and body and body[-1].get("kind") == "ReturnStmt":
                # straight-line callee: its bindings are spliced in, the returned expression is the value
                saved = sub.binds
                r0 = sub.stmts(body[:-1])
                assert r0 is None and sub.binds is saved
                term = sub.expr(body[-1]["inner"][0])
                self.n = sub.n
                return term
            # a callee with branches: its whole body as one checked computation
            sub.binds = []
            r = sub.stmts(body)
            self.n = sub.n
            if r is None:
                raise Refuse(f"call to {name}: body without return")
        finally:
            Tr.in_progress.discard(fn.get("id"))
        t = self.fresh()
        self.binds.append(("do", t, "(" + r + ")"))
        return self.take_apart(t, ret_rec, name)

    def member_slot(self, e):
        """index of the integer member of *this that `e` names (only where effects on *this are tracked), else None"""
        while e.get("kind") == "ParenExpr":
            e = e["inner"][0]
        if not (e.get("kind") == "MemberExpr" and e.get("inner") and e["inner"][0].get("kind") == "CXXThisExpr"
                and self.this_val is not None and self.this_rec is not None):
            return None
        if not self.may_mutate:
            raise Refuse("effect on *this inside a branch")
        names = [f for f, _ in struct_fields(self.this_rec)]
        if e.get("name") not in names or isinstance(self.this_val[names.index(e["name"])], SV):
            raise Refuse(f"effect on member {e.get('name')}")
        return names.index(e["name"])

    def set_member(self, i, v):
        new = SV(self.this_val)
        new[i] = v
        self.this_val = new

    def call_mut(self, fn, obj, args, n):
        """call of a NON-const member function: the object must be *this or a local variable holding a configured
        struct; the callee's straight-line body runs on its current value and the value it leaves is written back"""
        name = fn.get("name")
        if not self.may_mutate:
            raise Refuse(f"call to non-const member function {name} inside a branch")
        if fn.get("id") in Tr.in_progress:
            raise Refuse(f"recursive call of {name}")
        o = obj
        while o.get("kind") == "ParenExpr":
            o = o["inner"][0]
        if (o.get("kind") == "UnaryOperator" and o.get("opcode") == "*" and o["inner"][0].get("kind") == "CXXThisExpr") \
                or o.get("kind") == "CXXThisExpr":
            slot, cur = None, self.this_val
        elif o.get("kind") == "DeclRefExpr" and o["referencedDecl"].get("kind") == "VarDecl" \
                and isinstance(self.env.get(o["referencedDecl"]["id"]), SV) and "const" not in qt(o):
            slot, cur = o["referencedDecl"]["id"], self.env[o["referencedDecl"]["id"]]
        else:
            raise Refuse(f"call to non-const member function {name} on something that is neither *this nor a local variable")
        if cur is None:
            raise Refuse(f"call to non-const member function {name} without an object")
        ps = [p for p in fn.get("inner", []) if p.get("kind") == "ParmVarDecl"]
        if len(ps) != len(args):
            raise Refuse(f"call to {name}: {len(args)} arguments for {len(ps)} parameters")
        vals = [self.expr(a) for a in args]
        body = [x for x in fn["inner"] if x.get("kind") == "CompoundStmt"][0].get("inner", [])
        if not body or body[-1].get("kind") != "ReturnStmt" or not body[-1].get("inner"):
            raise Refuse(f"call to {name}: body does not end in a return of a value")
        sub = self.sub_tr()
        sub.this_val, sub.this_rec = cur, Tr.forest.rec_owner.get(fn.get("id"))
        for p, v in zip(ps, vals):
            sub.env[p["id"]] = v
        Tr.in_progress.add(fn.get("id"))
        try:
            if sub.stmts(body[:-1]) is not None:
                raise Refuse(f"call to {name}: return before the end of the body")
            term = sub.expr(body[-1]["inner"][0])
        finally:
            Tr.in_progress.discard(fn.get("id"))
        self.n = sub.n
        if slot is None:
            self.this_val = sub.this_val
        else:
            self.env[slot] = sub.this_val
        return term

    def take_apart(self, t, rec, name):
        if rec is None:
            return t
        pat = sv_pattern(rec, self, re.sub(r"[^A-Za-z0-9]+", "", name or "r")[:6] + "_")
        if len(sv_flat(pat)) > 1:
            self.binds.append(("letp", str(pat), t))
            return pat
        return self.rewrap(pat, t)

    def rewrap(self, pat, t):
        return SV([self.rewrap(x, t) if isinstance(x, SV) else t for x in pat])

    def construct_struct(self, n, rec, inner):
        fields = struct_fields(rec)
        ct = n.get("ctorType", {}).get("qualType", "")
        args = [x for x in inner if isinstance(x, dict)]
        cands = [d for (o, d) in Tr.forest.rec_ctors if o == rec and d.get("type", {}).get("qualType") == ct]
        if not cands:
            raise Refuse(f"no constructor {ct} of {rec}")
        user = [d for d in cands if not d.get("isImplicit") and d.get("explicitlyDefaulted") != "default"]
        if not user:
            # implicit / defaulted special members
            if len(args) == 0:
                if not n.get("zeroing"):
                    raise Refuse(f"default-initialisation of {rec} without zeroing")
                return self.rewrap(sv_names(rec, "z"), "0")
            ps = [p for p in cands[0].get("inner", []) if p.get("kind") == "ParmVarDecl"]
            if len(args) == 1 and len(ps) == 1 and rec_key(qt(ps[0])) == rec:
                v = self.expr(args[0])
                if not isinstance(v, SV):
                    raise Refuse(f"copy of {rec} from a value that is not carried field by field")
                return v
            raise Refuse(f"defaulted constructor {ct} of {rec}")
        defs = [d for d in user if any(x.get("kind") == "CompoundStmt" for x in d.get("inner", []))]
        if len(defs) != 1:
            raise Refuse(f"{len(defs)} definitions of constructor {ct} of {rec}")
        vals = [self.expr(a) for a in args]
        return self.run_ctor(defs[0], rec, vals)

    def run_ctor(self, d, rec, vals):
        """the object a user-written constructor leaves behind: member initialisers in declaration order of the fields,
        then the assignments of the body"""
        fields = struct_fields(rec)
        if d.get("id") in Tr.in_progress and vals is not None:
            raise Refuse("recursive constructor")
        ps = [p for p in d.get("inner", []) if p.get("kind") == "ParmVarDecl"]
        if len(ps) != len(vals):
            raise Refuse(f"constructor of {rec}: {len(vals)} arguments for {len(ps)} parameters (default arguments)")
        sub = self.sub_tr()
        for p, v in zip(ps, vals):
            sub.env[p["id"]] = v
        inits = [x for x in d.get("inner", []) if x.get("kind") == "CXXCtorInitializer"]
        cur = {}
        if len(inits) == 1 and "anyInit" not in inits[0]:
            v = sub.expr([x for x in inits[0]["inner"] if isinstance(x, dict)][0])      # delegating constructor
            if not isinstance(v, SV) or len(v) != len(fields):
                raise Refuse(f"delegating constructor of {rec}")
            cur = {f: v[i] for i, (f, _) in enumerate(fields)}
        else:
            by_name = {}
            for x in inits:
                if "anyInit" not in x or x["anyInit"].get("name") in by_name:
                    raise Refuse(f"constructor of {rec}: unexpected initialiser")
                by_name[x["anyInit"]["name"]] = x
            for (f, ft) in fields:                 # initialisation order = declaration order
                if f not in by_name:
                    raise Refuse(f"constructor of {rec} leaves {f} uninitialised")
                e = [y for y in by_name[f]["inner"] if isinstance(y, dict)][0]
                if e.get("kind") == "InitListExpr" and rec_key(ft) is None and len(e.get("inner", [])) == 1:
                    e = e["inner"][0]
                v = sub.expr(e)
                if (rec_key(ft) is not None) != isinstance(v, SV):
                    raise Refuse(f"constructor of {rec}: initialiser of {f}")
                cur[f] = v
            if set(by_name) - {f for f, _ in fields}:
                raise Refuse(f"constructor of {rec}: initialiser of an unknown member")
        sub.this_val = SV([cur[f] for f, _ in fields])
        sub.this_rec = rec
        body = [x for x in d.get("inner", []) if x.get("kind") == "CompoundStmt"][0].get("inner", [])
        r = sub.stmts(body)
        if r is not None:
            raise Refuse(f"constructor of {rec}: return in the body")
        self.n = sub.n
        return sub.this_val

    def assign_member(self, s):
        """`<member> = e;` in a constructor body (defaulted copy / move assignment of a struct, or an integer member)"""
        k = s.get("kind")
        while k in ("ExprWithCleanups", "ParenExpr"):
            s = s["inner"][0]
            k = s.get("kind")
        if k == "CXXOperatorCallExpr":
            callee = s["inner"][0]
            while callee.get("kind") in ("ImplicitCastExpr", "ParenExpr"):
                callee = callee["inner"][0]
            ref = callee.get("referencedDecl", {})
            if ref.get("name") != "operator=":
                return False
            if ref.get("id") in Tr.forest.def_by_decl and not Tr.forest.def_by_decl[ref["id"]].get("isImplicit") \
                    and Tr.forest.def_by_decl[ref["id"]].get("explicitlyDefaulted") != "default":
                raise Refuse("assignment through a user-written operator=")
            lhs, rhs = s["inner"][1], s["inner"][2]
        elif k == "BinaryOperator" and s.get("opcode") == "=":
            lhs, rhs = s["inner"]
        else:
            return False
        if not self.may_mutate:
            raise Refuse("assignment inside a branch")
        while lhs.get("kind") == "ParenExpr":
            lhs = lhs["inner"][0]
        if lhs.get("kind") == "UnaryOperator" and lhs.get("opcode") == "*" and lhs["inner"][0].get("kind") == "CXXThisExpr" \
                and self.this_val is not None:
            v = self.expr(rhs)                  # *this = e (defaulted copy / move assignment)
            if not isinstance(v, SV) or len(sv_flat(v)) != len(sv_flat(self.this_val)):
                raise Refuse("assignment to *this: shape")
            self.this_val = v
            return True
        if not (lhs.get("kind") == "MemberExpr" and lhs["inner"][0].get("kind") == "CXXThisExpr" and self.this_val is not None):
            raise Refuse("assignment to something that is not a member of *this")
        names = [f for f, _ in struct_fields(self.this_rec)]
        if lhs.get("name") not in names:
            raise Refuse(f"assignment to unknown member {lhs.get('name')}")
        v = self.expr(rhs)
        i = names.index(lhs["name"])
        if isinstance(v, SV) != isinstance(self.this_val[i], SV):
            raise Refuse(f"assignment to member {lhs.get('name')}: shape")
        new = SV(self.this_val)
        new[i] = v
        self.this_val = new
        return True

    def construct(self, n, key, spec):
        """construction of a record carried as its single data member `spec["member"]`: the constructor DEFINITION selected
        by overload resolution is looked up (class specialisation + parameter type, exactly one candidate) and its member
        initialiser is translated with the parameter bound to the argument; a defaulted copy / move constructor copies."""
        if Tr.forest is None:
            raise Refuse("constructor without declarations")
        cls = record_canon(qt(n))
        ct = n.get("ctorType", {}).get("qualType", "")
        m = re.match(r"^void \((.*)\)( noexcept)?$", ct)
        args = [x for x in n.get("inner", []) if isinstance(x, dict)]
        if not m or len(args) != 1 or "," in re.sub(r"<[^()]*>", "", m.group(1)):
            raise Refuse(f"constructor {ct} of {cls} with {len(args)} arguments")
        want = record_canon(m.group(1))
        cands = []
        for (cname, cargs, d) in Tr.forest.ctors:
            if cname != key or record_canon(cname + "<" + ", ".join(a or "?" for a in cargs) + ">") != cls:
                continue
            ps = [p for p in d.get("inner", []) if p.get("kind") == "ParmVarDecl"]
            if len(ps) != 1 or record_canon(qt(ps[0])) != want:
                continue
            inits = [x for x in d.get("inner", []) if x.get("kind") == "CXXCtorInitializer"]
            if d.get("explicitlyDefaulted") == "default" or inits:
                cands.append((d, ps[0], inits))
        if len(cands) != 1:
            raise Refuse(f"{len(cands)} definitions of constructor {ct} of {cls}")
        d, p, inits = cands[0]
        arg = self.expr(args[0])
        if d.get("explicitlyDefaulted") == "default":
            if want != cls:
                raise Refuse(f"defaulted constructor {ct} of {cls}")
            return arg
        body = [x for x in d.get("inner", []) if x.get("kind") == "CompoundStmt"]
        if len(inits) != 1 or inits[0].get("anyInit", {}).get("name") != spec.get("member") or len(body) != 1 or body[0].get("inner"):
            raise Refuse(f"constructor {ct} of {cls}: not a single initialiser of {spec.get('member')} with an empty body")
        self.env[p["id"]] = arg
        return self.expr([x for x in inits[0].get("inner", []) if isinstance(x, dict)][0])

    def branch(self, n):
        """translate in a sub-context; returns (term, monadic-or-None)"""
        sub = Tr(self.records, self.calls, self.members)
        sub.env = dict(self.env)
        sub.this_val, sub.this_rec = self.this_val, self.this_rec
        sub.this_carried = self.this_carried
        sub.n = self.n
        term = sub.expr(n)
        self.n = sub.n
        if not sub.binds:
            return term, None
        # single bind whose variable is the result: the checked expression itself
        if len(sub.binds) == 1 and sub.binds[0][0] == "do" and sub.binds[0][1] == term:
            return term, sub.binds[0][2]
        return term, "(" + render(sub.binds, f"Some {term}") + ")"

    def cast(self, src, dst_node):
        dname, dbits, dsg = ity_of(dst_node)
        # literal that fits: keep the literal
        s = src
        while s.get("kind") in ("ParenExpr",):
            s = s["inner"][0]
        if s.get("kind") in ("IntegerLiteral", "CharacterLiteral"):
            v = int(s["value"])
            lo = -(1 << (dbits - 1)) if dsg else 0
            hi = (1 << (dbits - 1)) - 1 if dsg else (1 << dbits) - 1
            if lo <= v <= hi:
                return str(v)
        sname, sbits, ssg = ity_of(src)
        a = self.expr(src)
        if sname == "bool":
            return f"(if {a} then 1 else 0)"
        # source range contained in target range: value unchanged
        if (ssg == dsg and sbits <= dbits) or (not ssg and dsg and sbits < dbits):
            return a
        return f"(wrap_ty {dname} {a})"

    def binop(self, n):
        op = n["opcode"]
        l, r = n["inner"]
        if op in ("&&", "||"):
            a = self.expr(l)
            b_term, b_mon = self.branch(r)
            if b_mon is not None and (Tr.structs or Tr.lazy_logic):
                # the right operand can be undefined: it is evaluated only when the left one does not decide
                t = self.fresh()
                self.binds.append(("do", t, f"(if {a} then {b_mon} else Some false)" if op == "&&" else f"(if {a} then Some true else {b_mon})"))
                return t
            if b_mon is not None:
                raise Refuse("short-circuit operand with checked arithmetic")
            return f"({a} {op} {b_term})"
        a = self.expr(l)
        b = self.expr(r)
        if op in ("<", "<=", ">", ">=", "==", "!="):
            z = {"<": "<?", "<=": "<=?", ">": ">?", ">=": ">=?", "==": "=?"}.get(op)
            if op == "!=":
                return f"(negb ({a} =? {b}))"
            return f"({a} {z} {b})"
        name, bits, sg = ity_of(n)
        if op in ("/", "%"):
            d = r
            while d.get("kind") in ("ParenExpr", "ImplicitCastExpr"):
                d = d["inner"][0]
            if d.get("kind") != "IntegerLiteral" or int(d["value"]) in (0, -1):
                t = self.fresh()
                self.binds.append(("do", t, f"{'div_chk' if op == '/' else 'rem_chk'} {name} {a} {b}"))
                return t
            f = "Z.quot" if op == "/" else "Z.rem"
            return f"({f} {a} {b})"
        if op in ("<<", ">>"):
            t = self.fresh()
            self.binds.append(("do", t, f"{'shl_chk' if op == '<<' else 'shr_chk'} {name} {a} {b}"))
            return t
        if op in ("&", "|", "^"):
            f = {"&": "Z.land", "|": "Z.lor", "^": "Z.lxor"}[op]
            return f"({f} {a} {b})"
        if op in ("+", "-", "*"):
            if sg:
                t = self.fresh()
                self.binds.append(("do", t, f"chk {name} ({a} {op} {b})"))
                return t
            return f"(wrap_ty {name} ({a} {op} {b}))"
        raise Refuse(f"binary operator {op}")

    # ---- statements
    def stmts(self, nodes):
        """returns the final monadic term (string)"""
        for idx, s in enumerate(nodes):
            k = s["kind"]
            if k == "DeclStmt":
                for d in s.get("inner", []):
                    if d["kind"] in ("StaticAssertDecl", "TypeAliasDecl", "TypedefDecl", "UsingDecl"):
                        continue      # no run-time meaning; the types they name reach us through the typed AST
                    if d["kind"] != "VarDecl" or "inner" not in d:
                        raise Refuse(f"declaration {d['kind']}")
                    init = [x for x in d["inner"] if x.get("kind") not in ("FullComment",)][0]
                    if Tr.structs and re.search(r"\[[0-9]+\]$", strip_cv(qt(d))):
                        # a local constant array of scalars (or one-field records): its elements, for nth_chk
                        if init.get("kind") != "InitListExpr" or "const" not in qt(d):
                            raise Refuse("array declaration that is not a constant initialiser list")
                        elems = [sv_flat(self.expr(x)) for x in init.get("inner", [])]
                        if any(len(e) != 1 for e in elems):
                            raise Refuse("array of records with several fields")
                        self.env[d["id"]] = ("array", [str(e[0]) for e in elems])
                        continue
                    term = self.expr(init)
                    if isinstance(term, (SV, tuple)):
                        self.env[d["id"]] = term      # a record value: carried field by field, no binding of its own
                        continue
                    # narrowing to the declared type is already an IntegralCast node in the AST
                    nm = self.fresh(d["name"] + "_")
                    self.binds.append(("let", nm, term))
                    self.env[d["id"]] = nm
            elif k == "CompoundAssignOperator":
                lhs, rhs = s["inner"]
                if lhs["kind"] != "DeclRefExpr" and Tr.structs and self.may_mutate and self.member_slot(lhs) is not None:
                    self.expr(s)
                    continue
                if lhs["kind"] != "DeclRefExpr":
                    raise Refuse("compound assignment to a non-variable")
                op = s["opcode"][:-1]
                fake = {"kind": "BinaryOperator", "opcode": op, "type": s.get("computeResultType", s["type"]),
                        "inner": [{"kind": "ImplicitCastExpr", "castKind": "LValueToRValue", "type": lhs["type"], "inner": [lhs]}, rhs]}
                term = self.binop(fake)
                nm = self.fresh(lhs["referencedDecl"]["name"] + "_")
                self.binds.append(("let", nm, term))
                self.env[lhs["referencedDecl"]["id"]] = nm
            elif k == "ReturnStmt":
                term = self.expr(s["inner"][0])
                return render(self.binds, f"Some {term}")
            elif k == "IfStmt":
                parts = s["inner"]
                c = self.expr(parts[0])
                rest = nodes[idx + 1:]

                def body(n):
                    return (n.get("inner", []) if n["kind"] == "CompoundStmt" else [n])
                then_nodes = body(parts[1]) + rest          # a branch that does not return continues with the rest
                else_nodes = (body(parts[2]) if len(parts) > 2 else []) + rest
                if c in ("true", "false"):                  # `if constexpr` of an instantiation (or a folded constant)
                    live = then_nodes if c == "true" else else_nodes
                    sub = Tr(self.records, self.calls, self.members)
                    sub.env = dict(self.env); sub.n = self.n + 100
                    sub.this_val, sub.this_rec = self.this_val, self.this_rec
                    sub.this_carried = self.this_carried
                    r = sub.stmts(live)
                    if r is None:
                        raise Refuse("function body without return")
                    return render(self.binds, f"({r})", wrap_some=False)
                then_t = Tr(self.records, self.calls, self.members)
                then_t.env = dict(self.env); then_t.n = self.n + 100
                then_t.this_val, then_t.this_rec = self.this_val, self.this_rec
                then_t.this_carried = self.this_carried
                a = then_t.stmts(then_nodes)
                if a is None:
                    raise Refuse("if-branch without return")
                rest_t = Tr(self.records, self.calls, self.members)
                rest_t.env = dict(self.env); rest_t.n = self.n + 200
                rest_t.this_val, rest_t.this_rec = self.this_val, self.this_rec
                rest_t.this_carried = self.this_carried
                b = rest_t.stmts(else_nodes)
                if b is None:
                    raise Refuse("fall-through after if")
                return render(self.binds, f"(if {c} then ({a}) else ({b}))", wrap_some=False)
            elif k in ("NullStmt",):
                continue
            elif Tr.structs and self.this_val is not None and k in ("ExprWithCleanups", "CXXOperatorCallExpr", "BinaryOperator") \
                    and self.assign_member(s):
                continue
            elif Tr.structs and self.may_mutate and k in ("ExprWithCleanups", "CXXOperatorCallExpr", "CXXMemberCallExpr", "UnaryOperator",
                                                          "ParenExpr"):
                self.expr(s)                    # an expression statement: evaluated for its effect on *this / a local object
                continue
            elif k == "CompoundStmt":
                sub = Tr(self.records, self.calls, self.members)
                sub.env = dict(self.env); sub.n = self.n + 300
                sub.this_val, sub.this_rec = self.this_val, self.this_rec
                sub.this_carried = self.this_carried
                r = sub.stmts(s.get("inner", []) + nodes[idx + 1:])
                if r is None:
                    raise Refuse("function body without return")
                return render(self.binds, f"({r})", wrap_some=False)
            else:
                raise Refuse(f"statement kind {k}")
        return None


def render(binds, final, wrap_some=True):
    out = ""
    for kind, name, rhs in binds:
        if kind == "do":
            out += f"do {name} <- {rhs};\n  "
        elif kind == "letp":
            out += f"let '{name} := {rhs} in\n  "
        else:
            out += f"let {name} := {rhs} in\n  "
    return out + final


def select(forest, k):
    if "ctor_of" in k:
        # a constructor DEFINITION of a configured struct, chosen by its printed type
        cands = [d for (o, d) in forest.rec_ctors if o == k["ctor_of"] and d.get("type", {}).get("qualType") == k.get("signature_is")
                 and any(x.get("kind") == "CompoundStmt" for x in d.get("inner", []))]
        if len(cands) != 1:
            raise Refuse(f"{len(cands)} definitions of constructor {k['ctor_of']} {k.get('signature_is')}")
        return cands[0]
    cands = [o for o in forest.funcs if o.get("name") == k["cxx_name"]]
    if "method_of" in k:
        cands = [o for o in cands if forest.rec_owner.get(o.get("id")) == k["method_of"]]
    if "signature_contains" in k:
        cands = [o for o in cands if all(x in o.get("type", {}).get("qualType", "") for x in k["signature_contains"])]
    if "signature_is" in k:
        cands = [o for o in cands if o.get("type", {}).get("qualType", "") == k["signature_is"]]
    if "template_args" in k:
        # the instantiation with exactly these template arguments (compared in canonical spelling, see record_canon)
        def targs(o):
            return [record_canon(c["type"]["qualType"]) if "type" in c else str(c.get("value"))
                    for c in o.get("inner", []) if c.get("kind") == "TemplateArgument"]
        cands = [o for o in cands if targs(o) == [record_canon(a) for a in k["template_args"]]]
    if len(cands) != 1:
        raise Refuse(f"{len(cands)} candidate definitions for {k['cxx_name']} {k.get('signature_contains', k.get('signature_is', ''))}")
    return cands[0]


def check_getter(forest, mid, member, copy=False):
    fn = forest.func_by_id.get(mid) if forest is not None else None
    if fn is None:
        raise Refuse("accessor without visible definition")
    body = [x for x in fn["inner"] if x.get("kind") == "CompoundStmt"][0].get("inner", [])
    if len(body) == 1 and body[0].get("kind") == "ReturnStmt":
        e = body[0]["inner"][0]
        if copy and e.get("kind") == "CXXConstructExpr" and len(e.get("inner", [])) == 1:
            # `return _d;` of a record member: the copy constructor of the member's own type, which must be a record
            # carried as its single member (kind "ctor", whose defaulted copy is the identity)
            ct = e.get("ctorType", {}).get("qualType", "")
            m = re.match(r"^void \((.*)\)( noexcept)?$", ct)
            key = strip_cv(qt(e)).split("<")[0].split("::")[-1]
            if not m or record_canon(m.group(1)) != record_canon(qt(e)) or Tr.cfg.get("records", {}).get(key, {}).get("kind") != "ctor":
                raise Refuse(f"accessor {fn.get('name')}: returned copy {ct} of {qt(e)}")
            e = e["inner"][0]
        while e.get("kind") in ("ImplicitCastExpr", "ParenExpr") and e.get("castKind", "LValueToRValue") in ("LValueToRValue", "NoOp"):
            e = e["inner"][0]
        if e.get("kind") == "MemberExpr" and e.get("name") == member and e["inner"][0].get("kind") == "CXXThisExpr":
            return
    raise Refuse(f"accessor {fn.get('name')} is not `return {member};`")


def ensure_callee(fn):
    fid = fn["id"]
    if fid in Tr.kernel_ids:
        return Tr.kernel_ids[fid]
    if fid in Tr.in_progress:
        raise Refuse(f"recursive call of {fn.get('name')}")
    g = callee_name(fn, Tr.forest)
    if g in Tr.kernel_ids.values():
        raise Refuse(f"generated name {g} is not unique")
    Tr.in_progress.add(fid)
    try:
        text = translate_fn(fn, {"gallina_name": g}, Tr.cfg)
    finally:
        Tr.in_progress.discard(fid)
    Tr.pending.append(text)
    Tr.kernel_ids[fid] = g
    return g


def translate_kernel(k, cfg, forest):
    fn = select(forest, k)
    if Tr.auto_callees and fn.get("id") in Tr.kernel_ids:
        # already generated as the callee of an earlier kernel: the listed name is an alias of that definition
        return f"Definition {k['gallina_name']} := {Tr.kernel_ids[fn['id']]}.\n"
    Tr.in_progress.add(fn.get("id"))
    try:
        text = translate_fn(fn, k, cfg)
    finally:
        Tr.in_progress.discard(fn.get("id"))
    if Tr.auto_callees and "id" in fn:
        Tr.kernel_ids[fn["id"]] = k["gallina_name"]
    if Tr.structs and k.get("callable") and "id" in fn:
        Tr.kernel_ids[fn["id"]] = k["gallina_name"]     # later calls of this definition bind its result instead of inlining
    return text


def translate_fn(fn, k, cfg):
    tr = Tr(cfg.get("records", {}), cfg.get("calls", {}), k.get("members", {}))
    params = []
    ptypes = {}
    own = Tr.forest.rec_owner.get(fn.get("id")) if Tr.structs and Tr.forest is not None else None
    is_ctor = fn.get("kind") == "CXXConstructorDecl"
    mutating = False
    tr.may_mutate = bool(Tr.structs)
    if own is not None and own in Tr.structs and not is_ctor and fn.get("storageClass") != "static":
        # a non-static member function of a configured struct: the fields of *this come first
        mutating = not is_const_method(fn)
        tr.this_val = sv_names(own, "" if len(struct_fields(own)) > 1 else struct_fields(own)[0][0].lstrip("_"))
        tr.this_rec = own
        params += sv_flat(tr.this_val)
    for p in fn.get("inner", []):
        if p["kind"] == "ParmVarDecl" and Tr.structs and rec_key(qt(p)) is not None:
            pname = k.get("param_names", {}).get(p.get("name"), p.get("name"))
            v = sv_names(rec_key(qt(p)), pname)
            tr.env[p["id"]] = v
            params += sv_flat(v)
        elif p["kind"] == "ParmVarDecl":
            pname = k.get("param_names", {}).get(p.get("name"), p.get("name"))
            if pname is None and Tr.structs:
                pname = "unnamed%d" % len(params)       # `operator++(int)`
            tr.env[p["id"]] = pname
            params.append(pname)
            try:
                ptypes[pname] = "bool" if ity_of(p)[0] == "bool" else "Z"
            except Refuse:
                ptypes[pname] = "Z"       # record types carried as their integer representation (configuration `records`)
    for m in k.get("members", {}).values():
        params.append(m)
    if len(set(params)) != len(params):
        raise Refuse(f"parameter names are not distinct: {params}")
    if is_ctor:
        # a constructor of a configured struct as a kernel: the object it leaves behind
        if own not in Tr.structs:
            raise Refuse(f"constructor of {own}: not a configured struct")
        ps = [p for p in fn.get("inner", []) if p.get("kind") == "ParmVarDecl"]
        Tr.in_progress.discard(fn.get("id"))
        v = tr.run_ctor(fn, own, [tr.env[p["id"]] for p in ps])
        sig = " ".join(f"({p} : {ptypes.get(p, 'Z')})" for p in params)
        return f"Definition {k['gallina_name']} {sig} :=\n  {render(tr.binds, f'Some {v}')}.\n"
    body = [x for x in fn["inner"] if x["kind"] == "CompoundStmt"][0]
    if mutating:
        # a non-const member function as a kernel: (returned value, value left in *this); straight-line bodies only
        bs = body.get("inner", [])
        if not bs or bs[-1].get("kind") != "ReturnStmt" or not bs[-1].get("inner"):
            raise Refuse("non-const member function: body does not end in a return of a value")
        if tr.stmts(bs[:-1]) is not None:
            raise Refuse("non-const member function: return before the end of the body")
        v = tr.expr(bs[-1]["inner"][0])
        sig = " ".join(f"({p} : {ptypes.get(p, 'Z')})" for p in params)
        return f"Definition {k['gallina_name']} {sig} :=\n  {render(tr.binds, f'Some ({v}, {tr.this_val})')}.\n"
    term = tr.stmts(body.get("inner", []))
    if term is None:
        raise Refuse("function body without return")
    sig = " ".join(f"({p} : {ptypes.get(p, 'Z')})" for p in params)
    return f"Definition {k['gallina_name']} {sig} :=\n  {term}.\n"


def preprocessed_key(cfg):
    """sha256 of the preprocessed translation unit + this translator + the configuration: the generated file is a
    function of exactly these, so an unchanged key means an unchanged output (the AST dumps are skipped)"""
    import hashlib
    tu = "/tmp/.cxx2gallina_pp_%d.cpp" % os.getpid()
    with open(tu, "w") as f:
        f.write(cfg["tu"])
    try:
        r = subprocess.run(["clang++", "-std=c++20", f"-I{REPO}/include", "-E", "-P", tu], capture_output=True, text=True, timeout=300)
    finally:
        os.remove(tu)
    if r.returncode != 0:
        return None
    h = hashlib.sha256()
    h.update(r.stdout.encode())
    h.update(open(os.path.abspath(__file__), "rb").read())
    h.update(json.dumps(cfg, sort_keys=True).encode())
    return h.hexdigest()


def main():
    cfg = json.load(open(sys.argv[1]))
    if "tu_file" in cfg:      # the translation unit as a file next to the configuration
        cfg["tu"] = open(os.path.join(os.path.dirname(os.path.abspath(sys.argv[1])), cfg["tu_file"])).read()
    outp = sys.argv[2]
    keyp = os.path.join(os.path.dirname(outp), "." + os.path.basename(outp) + ".key")
    key = preprocessed_key(cfg)
    if key is not None and os.path.exists(outp) and os.path.exists(keyp):
        try:
            old = json.load(open(keyp))
            if old.get("key") == key:
                print(json.dumps({"refused": old.get("refused", {}), "kernels": [k["gallina_name"] for k in cfg["kernels"]],
                                  "changed": False, "cached": True}))
                return 1 if old.get("refused") else 0
        except (OSError, ValueError):
            pass
    out = ["(* GENERATED by translate/cxx2gallina.py from %s/include — do not edit.  Regenerated on every run. *)" % "REPO",
           "From Tetl Require Import Lib.Base Lib.MachOps.", *(["From Coq Require Import List.", "Import ListNotations."] if cfg.get("structs") else []), "Local Open Scope Z_scope.",
           "Notation \"'do' x <- a ; b\" := (obind a (fun x => b)) (at level 200, x name, a at level 100, b at level 200).", ""]
    if cfg.get("structs"):
        out += ["(* element of a local constant array; None = index outside the array (undefined behaviour) *)",
                "Definition nth_chk (l : list Z) (i : Z) : option Z :=",
                "  if (0 <=? i) && (i <? Z.of_nat (length l)) then Some (nth (Z.to_nat i) l 0) else None.", ""]
    refused = {}
    Tr.kernel_calls = {}
    Tr.kernel_ids = {}
    Tr.in_progress = set()
    Tr.cfg = cfg
    Tr.auto_callees = bool(cfg.get("auto_callees"))
    Tr.structs = cfg.get("structs", {})
    Tr.lazy_logic = bool(cfg.get("lazy_short_circuit"))
    Tr.nttp_values = bool(cfg.get("nttp_values"))
    Forest.tu_text = cfg["tu"]
    Forest.use_clang_constants = bool(cfg.get("clang_constants"))
    try:
        forest = Forest(ast_dump(cfg["tu"], cfg.get("filter", "etl::")))
    except Refuse as e:
        forest = e
    Tr.forest = forest if isinstance(forest, Forest) else None
    for k in cfg["kernels"]:
        try:
            if isinstance(forest, Refuse):
                raise forest
            Tr.pending = []
            text = translate_kernel(k, cfg, forest)
            out.extend(Tr.pending)
            out.append(text)
            if k.get("callable"):
                Tr.kernel_calls[k["cxx_name"]] = k["gallina_name"]
        except Refuse as e:
            refused[k["gallina_name"]] = str(e)
            out.append(f"(* REFUSED {k['gallina_name']}: {e} *)\n")
    text = "\n".join(out)
    old = open(outp).read() if os.path.exists(outp) else None
    if old != text:
        os.makedirs(os.path.dirname(outp), exist_ok=True)
        with open(outp, "w") as f:
            f.write(text)
    if key is not None:
        with open(keyp, "w") as f:
            json.dump({"key": key, "refused": refused}, f)
    print(json.dumps({"refused": refused, "kernels": [k["gallina_name"] for k in cfg["kernels"]], "changed": old != text}))
    return 1 if refused else 0


if __name__ == "__main__":
    sys.exit(main())
