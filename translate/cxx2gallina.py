#!/usr/bin/env python3
"""cxx2gallina — regenerates Gallina definitions of straight-line integer kernels from clang's typed AST.

    cxx2gallina.py <kernels.json> <out.v>

For every kernel listed in kernels.json the translation unit is parsed by
    clang++ -std=c++20 -I$REPO/include -fsyntax-only -Xclang -ast-dump=json -Xclang -ast-dump-filter=<name>
and the selected declaration is translated expression by expression, using ONLY what the AST says:
the type of every sub-expression and every implicit cast (integral promotions, usual arithmetic
conversions, narrowing initialisations are not re-implemented here, they are copied from clang).

Semantics of the output (coq/Lib/Base.v): values are Z; a signed +,-,* and unary - is `chk ity (...)`
(None = signed overflow = undefined behaviour); unsigned +,-,* is `wrap_ty ity (...)`; / and % are
Z.quot / Z.rem (divisor must be a non-zero literal other than -1, else the kernel is REFUSED);
integral casts are modular (`wrap_ty`) unless the source range is contained in the target range;
bool -> int is `if b then 1 else 0`.

Anything outside the accepted subset makes the translator refuse the kernel (exception with the
offending node kind) — never guess.
"""
import json
import os
import subprocess
import sys

REPO = os.environ.get("VERIF_REPO", "/repo")

ITY = {  # LP64, char signed
    "bool": ("bool", 1, False),
    "char": ("i8", 8, True), "signed char": ("i8", 8, True), "unsigned char": ("u8", 8, False),
    "short": ("i16", 16, True), "unsigned short": ("u16", 16, False),
    "int": ("i32", 32, True), "unsigned int": ("u32", 32, False),
    "long": ("i64", 64, True), "unsigned long": ("u64", 64, False),
    "long long": ("i64", 64, True), "unsigned long long": ("u64", 64, False),
    "wchar_t": ("i32", 32, True), "char8_t": ("u8", 8, False), "char16_t": ("u16", 16, False), "char32_t": ("u32", 32, False),
}


class Refuse(Exception):
    pass


def ast_dump(tu_text, name):
    import threading
    tu = "/tmp/.cxx2gallina_%d_%d.cpp" % (os.getpid(), threading.get_ident())
    with open(tu, "w") as f:
        f.write(tu_text)
    try:
        r = subprocess.run(["clang++", "-std=c++20", f"-I{REPO}/include", "-fsyntax-only", "-Xclang", "-ast-dump=json",
                            "-Xclang", f"-ast-dump-filter={name}", tu], capture_output=True, text=True, timeout=300)
    finally:
        os.remove(tu)
    txt = r.stdout
    dec = json.JSONDecoder()
    i = 0
    objs = []
    while i < len(txt):
        while i < len(txt) and txt[i].isspace():
            i += 1
        if i >= len(txt):
            break
        o, j = dec.raw_decode(txt, i)
        objs.append(o)
        i = j
    if not objs:
        raise Refuse(f"clang produced no declaration for {name}: {r.stderr[-300:]}")
    return objs


class Forest:
    """every declaration of the translation unit whose qualified name contains the filter (default `etl::`), from ONE
    clang run, so that node ids are consistent: function definitions (also the instantiations nested in
    FunctionTemplateDecl / class template specialisations) and variable declarations by id (for constants)."""

    def __init__(self, objs):
        self.funcs = []
        self.vars = {}
        self.func_by_id = {}
        for o in objs:
            self.walk(o)

    def walk(self, n):
        k = n.get("kind")
        if k in ("FunctionDecl", "CXXMethodDecl", "CXXConversionDecl") and any(x.get("kind") == "CompoundStmt" for x in n.get("inner", [])):
            self.funcs.append(n)
            if "id" in n:
                self.func_by_id[n["id"]] = n
            return
        if k == "VarDecl" and "id" in n:
            self.vars[n["id"]] = n
        for c in n.get("inner", []):
            if isinstance(c, dict):
                self.walk(c)


SIZEOF = {"bool": 1, "char": 1, "signed char": 1, "unsigned char": 1, "short": 2, "unsigned short": 2, "int": 4, "unsigned int": 4,
          "long": 8, "unsigned long": 8, "long long": 8, "unsigned long long": 8, "wchar_t": 4, "char8_t": 1, "char16_t": 2, "char32_t": 4}


def const_call(fn, forest):
    """value of a nullary constexpr function whose body is `return <constant>;` (numeric_limits<T>::min() / max())"""
    if any(p.get("kind") == "ParmVarDecl" for p in fn.get("inner", [])):
        raise Refuse(f"call to {fn.get('name')} with parameters")
    body = [x for x in fn["inner"] if x.get("kind") == "CompoundStmt"][0].get("inner", [])
    if len(body) != 1 or body[0].get("kind") != "ReturnStmt":
        raise Refuse(f"call to {fn.get('name')}: body is not a single return")
    v = const_eval(body[0]["inner"][0], forest)
    name, bits, sg = ity_of(body[0]["inner"][0])
    return v


def const_eval(n, forest, depth=0):
    """value of a constant initialiser (numeric_limits<T>::digits and the like), or Refuse.  Only literals, sizeof of a
    builtin type, casts between integer types that keep the value, + - * and references to other constants."""
    if depth > 20:
        raise Refuse("constant initialiser too deep")
    k = n.get("kind")
    inner = [c for c in n.get("inner", []) if isinstance(c, dict)]
    if k in ("IntegerLiteral", "CharacterLiteral"):
        return int(n["value"])
    if k == "CXXBoolLiteralExpr":
        return 1 if n["value"] else 0
    if k in ("ParenExpr", "ConstantExpr", "ExprWithCleanups", "ImplicitCastExpr", "CXXStaticCastExpr", "CXXFunctionalCastExpr", "CStyleCastExpr"):
        v = const_eval(inner[0], forest, depth + 1)
        if k.endswith("CastExpr") and n.get("castKind") == "IntegralCast":
            name, bits, sg = ity_of(n)
            lo = -(1 << (bits - 1)) if sg else 0
            hi = (1 << (bits - 1)) - 1 if sg else (1 << bits) - 1
            if not lo <= v <= hi:
                raise Refuse("constant initialiser: value-changing cast")
        return v
    if k == "UnaryExprOrTypeTraitExpr" and n.get("name") == "sizeof":
        t = strip_cv(n.get("argType", {}).get("desugaredQualType") or n.get("argType", {}).get("qualType") or "")
        if t in SIZEOF:
            return SIZEOF[t]
        raise Refuse(f"sizeof({t}) in a constant initialiser")
    if k == "BinaryOperator" and n.get("opcode") in ("+", "-", "*"):
        a, b = const_eval(inner[0], forest, depth + 1), const_eval(inner[1], forest, depth + 1)
        v = {"+": a + b, "-": a - b, "*": a * b}[n["opcode"]]
        name, bits, sg = ity_of(n)
        lo = -(1 << (bits - 1)) if sg else 0
        hi = (1 << (bits - 1)) - 1 if sg else (1 << bits) - 1
        if not lo <= v <= hi:
            raise Refuse("constant initialiser: arithmetic leaves the type's range")
        return v
    if k == "UnaryOperator" and n.get("opcode") in ("-", "+"):
        v = const_eval(inner[0], forest, depth + 1)
        return -v if n["opcode"] == "-" else v
    if k == "CallExpr" or k == "CXXMemberCallExpr":
        callee = inner[0]
        while callee.get("kind") in ("ImplicitCastExpr", "ParenExpr"):
            callee = callee["inner"][0]
        fid = callee.get("referencedDecl", {}).get("id") or callee.get("referencedMemberDecl")
        fn = forest.func_by_id.get(fid)
        if fn is not None and len(inner) == 1:
            return const_call(fn, forest)
        raise Refuse("call in a constant initialiser")
    if k == "ConditionalOperator":
        return const_eval(inner[1] if const_eval(inner[0], forest, depth + 1) else inner[2], forest, depth + 1)
    if k == "DeclRefExpr":
        v = forest.vars.get(n.get("referencedDecl", {}).get("id"))
        if v is not None:
            init = [c for c in v.get("inner", []) if isinstance(c, dict) and c.get("kind") not in ("FullComment",)]
            if init:
                return const_eval(init[0], forest, depth + 1)
        raise Refuse(f"constant {n.get('referencedDecl', {}).get('name')} has no visible initialiser")
    raise Refuse(f"constant initialiser kind {k}")


def qt(node):
    t = node.get("type", {})
    return t.get("desugaredQualType") or t.get("qualType") or ""


def strip_cv(t):
    t = t.replace("const ", "").replace("volatile ", "").strip()
    if t.endswith(" const"):
        t = t[:-6]
    return t.rstrip("&").strip()


def ity_of(node):
    t = strip_cv(qt(node))
    if t in ITY:
        return ITY[t]
    raise Refuse(f"non-integer type '{qt(node)}' at {node.get('kind')}")


class Tr:
    forest = None         # all declarations of the translation unit (set per configuration)
    kernel_calls = {}     # C++ function name -> Gallina name of an already generated kernel (set per configuration)

    def __init__(self, records, calls, members):
        self.binds = []       # list of (kind, name, rhs) ; kind in {"do", "let"}
        self.n = 0
        self.env = {}         # C++ variable id -> current Gallina name
        self.records = records
        self.calls = calls
        self.members = members

    def fresh(self, base="t"):
        self.n += 1
        return f"{base}{self.n}"

    # ---- expressions: returns a pure Gallina term; may append binds
    def expr(self, n):
        k = n["kind"]
        inner = n.get("inner", [])
        if k == "ConstantExpr" and "value" in n:
            # clang evaluated it (e.g. the condition of an `if constexpr` in an instantiation)
            v = n["value"]
            if strip_cv(qt(n)) == "bool":
                return "true" if str(v) in ("1", "true") else "false"
            return str(int(v)) if int(v) >= 0 else f"({int(v)})"
        if k in ("ParenExpr", "ExprWithCleanups", "MaterializeTemporaryExpr", "ConstantExpr", "CXXBindTemporaryExpr"):
            return self.expr(inner[0])
        if k == "IntegerLiteral":
            v = int(n["value"])
            return str(v) if v >= 0 else f"({v})"
        if k == "CharacterLiteral":
            v = int(n["value"])
            return str(v) if v >= 0 else f"({v})"
        if k == "CXXBoolLiteralExpr":
            return "true" if n["value"] else "false"
        if k == "DeclRefExpr":
            rid = n["referencedDecl"]["id"]
            if rid in self.env:
                return self.env[rid]
            if n["referencedDecl"].get("kind") == "VarDecl" and Tr.forest is not None and rid in Tr.forest.vars:
                v = const_eval(n, Tr.forest)
                return str(v) if v >= 0 else f"({v})"
            raise Refuse(f"reference to unknown declaration {n['referencedDecl'].get('name')}")
        if k == "MemberExpr":
            name = n.get("name")
            if name in self.members:
                return self.members[name]
            raise Refuse(f"member access {name}")
        if k in ("ImplicitCastExpr", "CXXStaticCastExpr", "CXXFunctionalCastExpr", "CStyleCastExpr"):
            ck = n.get("castKind")
            if ck in ("LValueToRValue", "NoOp", "ConstructorConversion", "UserDefinedConversion"):
                return self.expr(inner[0])
            if ck == "IntegralCast":
                return self.cast(inner[0], n)
            if ck == "IntegralToBoolean":
                return f"(negb ({self.expr(inner[0])} =? 0))"
            raise Refuse(f"cast kind {ck}")
        if k == "UnaryOperator":
            op = n["opcode"]
            if op == "-" and inner[0].get("kind") == "IntegerLiteral":
                return f"(-{int(inner[0]['value'])})"
            a = self.expr(inner[0])
            if op == "!":
                return f"(negb {a})"
            if op == "-":
                name, bits, sg = ity_of(n)
                if sg:
                    t = self.fresh()
                    self.binds.append(("do", t, f"chk {name} (0 - {a})"))
                    return t
                return f"(wrap_ty {name} (0 - {a}))"
            if op == "+":
                return a
            if op == "~":
                name, bits, sg = ity_of(n)
                return f"(not_ty {name} {a})"
            raise Refuse(f"unary operator {op}")
        if k == "BinaryOperator":
            return self.binop(n)
        if k == "ConditionalOperator":
            c = self.expr(inner[0])
            a_term, a_mon = self.branch(inner[1])
            b_term, b_mon = self.branch(inner[2])
            if a_mon is None and b_mon is None:
                return f"(if {c} then {a_term} else {b_term})"
            t = self.fresh()
            self.binds.append(("do", t, f"(if {c} then {a_mon or 'Some ' + a_term} else {b_mon or 'Some ' + b_term})"))
            return t
        if k in ("CXXTemporaryObjectExpr", "CXXConstructExpr"):
            t = strip_cv(qt(n))
            key = t.split("<")[0].split("::")[-1]
            if key in self.records:
                spec = self.records[key]
                args = [self.expr(x) for x in inner]
                if spec["kind"] == "cast":
                    if len(args) != 1:
                        raise Refuse(f"constructor of {t} with {len(args)} arguments")
                    return f"(wrap_ty {spec['ity']} {args[0]})"
                if spec["kind"] == "tuple":
                    return "(" + ", ".join(args) + ")"
                if spec["kind"] == "id":
                    return args[0]
            raise Refuse(f"constructor of record type {t}")
        if k in ("CXXMemberCallExpr", "CallExpr", "CXXOperatorCallExpr"):
            callee = inner[0]
            while callee.get("kind") in ("ImplicitCastExpr", "ParenExpr"):
                callee = callee["inner"][0]
            name = callee.get("name") or callee.get("referencedDecl", {}).get("name") or callee.get("referencedMemberDecl", "")
            if callee.get("kind") == "MemberExpr":
                # x.count(), static_cast<unsigned>(m) via conversion operator, ... : value-carrying accessors
                if name in self.calls and self.calls[name] == "id":
                    return self.expr(callee["inner"][0])
            if name in self.calls and self.calls[name] == "id":
                return self.expr(inner[1])
            if len(inner) == 1 and Tr.forest is not None:
                fid = callee.get("referencedDecl", {}).get("id") or callee.get("referencedMemberDecl")
                fn = Tr.forest.func_by_id.get(fid)
                if fn is not None:
                    v = const_call(fn, Tr.forest)
                    return str(v) if v >= 0 else f"({v})"
            if name in self.kernel_calls and callee.get("kind") == "DeclRefExpr":
                # a call to a kernel translated earlier in the same file: evaluate the arguments (left to right;
                # they are side-effect free in the accepted subset), then bind the callee's checked result
                args = [self.expr(x) for x in inner[1:]]
                t = self.fresh()
                self.binds.append(("do", t, f"{self.kernel_calls[name]} " + " ".join(args)))
                return t
            raise Refuse(f"call to {name}")
        raise Refuse(f"expression kind {k}")

    def branch(self, n):
        """translate in a sub-context; returns (term, monadic-or-None)"""
        sub = Tr(self.records, self.calls, self.members)
        sub.env = dict(self.env)
        sub.n = self.n
        term = sub.expr(n)
        self.n = sub.n
        if not sub.binds:
            return term, None
        # single bind whose variable is the result: the checked expression itself
        if len(sub.binds) == 1 and sub.binds[0][0] == "do" and sub.binds[0][1] == term:
            return term, sub.binds[0][2]
        return term, "(" + render(sub.binds, f"Some {term}") + ")"

    def cast(self, src, dst_node):
        dname, dbits, dsg = ity_of(dst_node)
        # literal that fits: keep the literal
        s = src
        while s.get("kind") in ("ParenExpr",):
            s = s["inner"][0]
        if s.get("kind") in ("IntegerLiteral", "CharacterLiteral"):
            v = int(s["value"])
            lo = -(1 << (dbits - 1)) if dsg else 0
            hi = (1 << (dbits - 1)) - 1 if dsg else (1 << dbits) - 1
            if lo <= v <= hi:
                return str(v)
        sname, sbits, ssg = ity_of(src)
        a = self.expr(src)
        if sname == "bool":
            return f"(if {a} then 1 else 0)"
        # source range contained in target range: value unchanged
        if (ssg == dsg and sbits <= dbits) or (not ssg and dsg and sbits < dbits):
            return a
        return f"(wrap_ty {dname} {a})"

    def binop(self, n):
        op = n["opcode"]
        l, r = n["inner"]
        if op in ("&&", "||"):
            a = self.expr(l)
            b_term, b_mon = self.branch(r)
            if b_mon is not None:
                raise Refuse("short-circuit operand with checked arithmetic")
            return f"({a} {op} {b_term})"
        a = self.expr(l)
        b = self.expr(r)
        if op in ("<", "<=", ">", ">=", "==", "!="):
            z = {"<": "<?", "<=": "<=?", ">": ">?", ">=": ">=?", "==": "=?"}.get(op)
            if op == "!=":
                return f"(negb ({a} =? {b}))"
            return f"({a} {z} {b})"
        name, bits, sg = ity_of(n)
        if op in ("/", "%"):
            d = r
            while d.get("kind") in ("ParenExpr", "ImplicitCastExpr"):
                d = d["inner"][0]
            if d.get("kind") != "IntegerLiteral" or int(d["value"]) in (0, -1):
                t = self.fresh()
                self.binds.append(("do", t, f"{'div_chk' if op == '/' else 'rem_chk'} {name} {a} {b}"))
                return t
            f = "Z.quot" if op == "/" else "Z.rem"
            return f"({f} {a} {b})"
        if op in ("<<", ">>"):
            t = self.fresh()
            self.binds.append(("do", t, f"{'shl_chk' if op == '<<' else 'shr_chk'} {name} {a} {b}"))
            return t
        if op in ("&", "|", "^"):
            f = {"&": "Z.land", "|": "Z.lor", "^": "Z.lxor"}[op]
            return f"({f} {a} {b})"
        if op in ("+", "-", "*"):
            if sg:
                t = self.fresh()
                self.binds.append(("do", t, f"chk {name} ({a} {op} {b})"))
                return t
            return f"(wrap_ty {name} ({a} {op} {b}))"
        raise Refuse(f"binary operator {op}")

    # ---- statements
    def stmts(self, nodes):
        """returns the final monadic term (string)"""
        for idx, s in enumerate(nodes):
            k = s["kind"]
            if k == "DeclStmt":
                for d in s.get("inner", []):
                    if d["kind"] in ("StaticAssertDecl", "TypeAliasDecl", "TypedefDecl"):
                        continue      # no run-time meaning; the types they name reach us through the typed AST
                    if d["kind"] != "VarDecl" or "inner" not in d:
                        raise Refuse(f"declaration {d['kind']}")
                    init = [x for x in d["inner"] if x.get("kind") not in ("FullComment",)][0]
                    term = self.expr(init)
                    # narrowing to the declared type is already an IntegralCast node in the AST
                    nm = self.fresh(d["name"] + "_")
                    self.binds.append(("let", nm, term))
                    self.env[d["id"]] = nm
            elif k == "CompoundAssignOperator":
                lhs, rhs = s["inner"]
                if lhs["kind"] != "DeclRefExpr":
                    raise Refuse("compound assignment to a non-variable")
                op = s["opcode"][:-1]
                fake = {"kind": "BinaryOperator", "opcode": op, "type": s.get("computeResultType", s["type"]),
                        "inner": [{"kind": "ImplicitCastExpr", "castKind": "LValueToRValue", "type": lhs["type"], "inner": [lhs]}, rhs]}
                term = self.binop(fake)
                nm = self.fresh(lhs["referencedDecl"]["name"] + "_")
                self.binds.append(("let", nm, term))
                self.env[lhs["referencedDecl"]["id"]] = nm
            elif k == "ReturnStmt":
                term = self.expr(s["inner"][0])
                return render(self.binds, f"Some {term}")
            elif k == "IfStmt":
                parts = s["inner"]
                c = self.expr(parts[0])
                rest = nodes[idx + 1:]

                def body(n):
                    return (n.get("inner", []) if n["kind"] == "CompoundStmt" else [n])
                then_nodes = body(parts[1]) + rest          # a branch that does not return continues with the rest
                else_nodes = (body(parts[2]) if len(parts) > 2 else []) + rest
                if c in ("true", "false"):                  # `if constexpr` of an instantiation (or a folded constant)
                    live = then_nodes if c == "true" else else_nodes
                    sub = Tr(self.records, self.calls, self.members)
                    sub.env = dict(self.env); sub.n = self.n + 100
                    r = sub.stmts(live)
                    if r is None:
                        raise Refuse("function body without return")
                    return render(self.binds, f"({r})", wrap_some=False)
                then_t = Tr(self.records, self.calls, self.members)
                then_t.env = dict(self.env); then_t.n = self.n + 100
                a = then_t.stmts(then_nodes)
                if a is None:
                    raise Refuse("if-branch without return")
                rest_t = Tr(self.records, self.calls, self.members)
                rest_t.env = dict(self.env); rest_t.n = self.n + 200
                b = rest_t.stmts(else_nodes)
                if b is None:
                    raise Refuse("fall-through after if")
                return render(self.binds, f"(if {c} then ({a}) else ({b}))", wrap_some=False)
            elif k in ("NullStmt",):
                continue
            elif k == "CompoundStmt":
                sub = Tr(self.records, self.calls, self.members)
                sub.env = dict(self.env); sub.n = self.n + 300
                r = sub.stmts(s.get("inner", []) + nodes[idx + 1:])
                if r is None:
                    raise Refuse("function body without return")
                return render(self.binds, f"({r})", wrap_some=False)
            else:
                raise Refuse(f"statement kind {k}")
        return None


def render(binds, final, wrap_some=True):
    out = ""
    for kind, name, rhs in binds:
        if kind == "do":
            out += f"do {name} <- {rhs};\n  "
        else:
            out += f"let {name} := {rhs} in\n  "
    return out + final


def select(forest, k):
    cands = [o for o in forest.funcs if o.get("name") == k["cxx_name"]]
    if "signature_contains" in k:
        cands = [o for o in cands if all(x in o.get("type", {}).get("qualType", "") for x in k["signature_contains"])]
    if "signature_is" in k:
        cands = [o for o in cands if o.get("type", {}).get("qualType", "") == k["signature_is"]]
    if len(cands) != 1:
        raise Refuse(f"{len(cands)} candidate definitions for {k['cxx_name']} {k.get('signature_contains', k.get('signature_is', ''))}")
    return cands[0]


def translate_kernel(k, cfg, forest):
    fn = select(forest, k)
    tr = Tr(cfg.get("records", {}), cfg.get("calls", {}), k.get("members", {}))
    params = []
    ptypes = {}
    for p in fn.get("inner", []):
        if p["kind"] == "ParmVarDecl":
            pname = k.get("param_names", {}).get(p.get("name"), p.get("name"))
            tr.env[p["id"]] = pname
            params.append(pname)
            try:
                ptypes[pname] = "bool" if ity_of(p)[0] == "bool" else "Z"
            except Refuse:
                ptypes[pname] = "Z"       # record types carried as their integer representation (configuration `records`)
    for m in k.get("members", {}).values():
        params.append(m)
    body = [x for x in fn["inner"] if x["kind"] == "CompoundStmt"][0]
    term = tr.stmts(body.get("inner", []))
    if term is None:
        raise Refuse("function body without return")
    sig = " ".join(f"({p} : {ptypes.get(p, 'Z')})" for p in params)
    return f"Definition {k['gallina_name']} {sig} :=\n  {term}.\n"


def preprocessed_key(cfg):
    """sha256 of the preprocessed translation unit + this translator + the configuration: the generated file is a
    function of exactly these, so an unchanged key means an unchanged output (the AST dumps are skipped)"""
    import hashlib
    tu = "/tmp/.cxx2gallina_pp_%d.cpp" % os.getpid()
    with open(tu, "w") as f:
        f.write(cfg["tu"])
    try:
        r = subprocess.run(["clang++", "-std=c++20", f"-I{REPO}/include", "-E", "-P", tu], capture_output=True, text=True, timeout=300)
    finally:
        os.remove(tu)
    if r.returncode != 0:
        return None
    h = hashlib.sha256()
    h.update(r.stdout.encode())
    h.update(open(os.path.abspath(__file__), "rb").read())
    h.update(json.dumps(cfg, sort_keys=True).encode())
    return h.hexdigest()


def main():
    cfg = json.load(open(sys.argv[1]))
    outp = sys.argv[2]
    keyp = os.path.join(os.path.dirname(outp), "." + os.path.basename(outp) + ".key")
    key = preprocessed_key(cfg)
    if key is not None and os.path.exists(outp) and os.path.exists(keyp):
        try:
            old = json.load(open(keyp))
            if old.get("key") == key:
                print(json.dumps({"refused": old.get("refused", {}), "kernels": [k["gallina_name"] for k in cfg["kernels"]],
                                  "changed": False, "cached": True}))
                return 1 if old.get("refused") else 0
        except (OSError, ValueError):
            pass
    out = ["(* GENERATED by translate/cxx2gallina.py from %s/include — do not edit.  Regenerated on every run. *)" % "REPO",
           "From Tetl Require Import Lib.Base Lib.MachOps.", "Local Open Scope Z_scope.",
           "Notation \"'do' x <- a ; b\" := (obind a (fun x => b)) (at level 200, x name, a at level 100, b at level 200).", ""]
    refused = {}
    Tr.kernel_calls = {}
    try:
        forest = Forest(ast_dump(cfg["tu"], cfg.get("filter", "etl::")))
    except Refuse as e:
        forest = e
    Tr.forest = forest if isinstance(forest, Forest) else None
    for k in cfg["kernels"]:
        try:
            if isinstance(forest, Refuse):
                raise forest
            out.append(translate_kernel(k, cfg, forest))
            if k.get("callable"):
                Tr.kernel_calls[k["cxx_name"]] = k["gallina_name"]
        except Refuse as e:
            refused[k["gallina_name"]] = str(e)
            out.append(f"(* REFUSED {k['gallina_name']}: {e} *)\n")
    text = "\n".join(out)
    old = open(outp).read() if os.path.exists(outp) else None
    if old != text:
        os.makedirs(os.path.dirname(outp), exist_ok=True)
        with open(outp, "w") as f:
            f.write(text)
    if key is not None:
        with open(keyp, "w") as f:
            json.dump({"key": key, "refused": refused}, f)
    print(json.dumps({"refused": refused, "kernels": [k["gallina_name"] for k in cfg["kernels"]], "changed": old != text}))
    return 1 if refused else 0


if __name__ == "__main__":
    sys.exit(main())
