#!/usr/bin/env python3
"""cxx2gallina — regenerates Gallina definitions of straight-line integer kernels from clang's typed AST.

    cxx2gallina.py <kernels.json> <out.v>

For every kernel listed in kernels.json the translation unit is parsed by
    clang++ -std=c++20 -I$REPO/include -fsyntax-only -Xclang -ast-dump=json -Xclang -ast-dump-filter=<name>
and the selected declaration is translated expression by expression, using ONLY what the AST says:
the type of every sub-expression and every implicit cast (integral promotions, usual arithmetic
conversions, narrowing initialisations are not re-implemented here, they are copied from clang).

Semantics of the output (coq/Lib/Base.v): values are Z; a signed +,-,* and unary - is `chk ity (...)`
(None = signed overflow = undefined behaviour); unsigned +,-,* is `wrap_ty ity (...)`; / and % are
Z.quot / Z.rem (divisor must be a non-zero literal other than -1, else the kernel is REFUSED);
integral casts are modular (`wrap_ty`) unless the source range is contained in the target range;
bool -> int is `if b then 1 else 0`.

Anything outside the accepted subset makes the translator refuse the kernel (exception with the
offending node kind) — never guess.
"""
import json
import os
import subprocess
import sys

REPO = os.environ.get("VERIF_REPO", "/repo")

ITY = {  # LP64, char signed
    "bool": ("bool", 1, False),
    "char": ("i8", 8, True), "signed char": ("i8", 8, True), "unsigned char": ("u8", 8, False),
    "short": ("i16", 16, True), "unsigned short": ("u16", 16, False),
    "int": ("i32", 32, True), "unsigned int": ("u32", 32, False),
    "long": ("i64", 64, True), "unsigned long": ("u64", 64, False),
    "long long": ("i64", 64, True), "unsigned long long": ("u64", 64, False),
    "wchar_t": ("i32", 32, True), "char8_t": ("u8", 8, False), "char16_t": ("u16", 16, False), "char32_t": ("u32", 32, False),
}


class Refuse(Exception):
    pass


def ast_dump(tu_text, name, extra=()):
    import threading
    tu = "/tmp/.cxx2gallina_%d_%d.cpp" % (os.getpid(), threading.get_ident())
    with open(tu, "w") as f:
        f.write(tu_text)
    try:
        r = subprocess.run(["clang++", "-std=c++20", f"-I{REPO}/include", "-fsyntax-only", "-Xclang", "-ast-dump=json",
                            "-Xclang", f"-ast-dump-filter={name}", *extra, tu], capture_output=True, text=True, timeout=300)
    finally:
        os.remove(tu)
    txt = r.stdout
    dec = json.JSONDecoder()
    i = 0
    objs = []
    while i < len(txt):
        while i < len(txt) and txt[i].isspace():
            i += 1
        if i >= len(txt):
            break
        o, j = dec.raw_decode(txt, i)
        objs.append(o)
        i = j
    if not objs:
        raise Refuse(f"clang produced no declaration for {name}: {r.stderr[-300:]}")
    return objs


class Forest:
    """every declaration of the translation unit whose qualified name contains the filter (default `etl::`), from ONE
    clang run, so that node ids are consistent: function definitions (also the instantiations nested in
    FunctionTemplateDecl / class template specialisations) and variable declarations by id (for constants)."""
    tu_text = ""                  # the translation unit of the current configuration
    use_clang_constants = False   # configuration key "clang_constants"

    def __init__(self, objs):
        self.funcs = []
        self.vars = {}
        self.func_by_id = {}
        self.ctors = []           # (class name, [template argument strings], CXXConstructorDecl) of class template specialisations
        self.owner = {}           # function id -> (class name, [template argument strings]) of the enclosing specialisation
        self.clang_values = None  # mangled name -> value of constexpr static data members, evaluated by clang (lazy)
        for o in objs:
            self.walk(o, None)

    def walk(self, n, cls):
        k = n.get("kind")
        if k in ("FunctionDecl", "CXXMethodDecl", "CXXConversionDecl") and any(x.get("kind") == "CompoundStmt" for x in n.get("inner", [])):
            self.funcs.append(n)
            if "id" in n:
                self.func_by_id[n["id"]] = n
                if cls is not None:
                    self.owner[n["id"]] = cls
            return
        if k == "CXXConstructorDecl" and cls is not None:
            self.ctors.append((cls[0], cls[1], n))
        if k == "VarDecl" and "id" in n:
            self.vars[n["id"]] = n
        if k == "ClassTemplateSpecializationDecl":
            args = []
            for c in n.get("inner", []):
                if isinstance(c, dict) and c.get("kind") == "TemplateArgument":
                    args.append(c.get("type", {}).get("qualType") if "type" in c else str(c.get("value", "?")))
            cls = (n.get("name"), args)
        for c in n.get("inner", []):
            if isinstance(c, dict):
                self.walk(c, cls)


SIZEOF = {"bool": 1, "char": 1, "signed char": 1, "unsigned char": 1, "short": 2, "unsigned short": 2, "int": 4, "unsigned int": 4,
          "long": 8, "unsigned long": 8, "long long": 8, "unsigned long long": 8, "wchar_t": 4, "char8_t": 1, "char16_t": 2, "char32_t": 4}


def clang_constants(forest):
    """values of the constexpr static data members of class template specialisations (ratio<N, D>::num / ::den and the
    like), evaluated BY CLANG: every such VarDecl of the forest carries its mangled name; the demangled qualified name
    is used as a non-type template argument in a second translation unit, whose AST shows the evaluated value."""
    if forest.clang_values is not None:
        return forest.clang_values
    names = sorted({v["mangledName"] for v in forest.vars.values()
                    if v.get("constexpr") and v.get("storageClass") == "static" and v.get("mangledName", "").startswith("_ZN")
                    and ity_ok(v)})
    forest.clang_values = {}
    if not names:
        return forest.clang_values
    r = subprocess.run(["c++filt"], input="\n".join(names), capture_output=True, text=True, timeout=60)
    dem = r.stdout.split("\n")[:len(names)]
    ok = [(m, d) for m, d in zip(names, dem) if d and d != m and "(" not in d and "{" not in d and "'" not in d]
    tu = Forest.tu_text + "\ntemplate <int VerifK, auto VerifV> struct verif_clang_value {};\n"
    for i, (m, d) in enumerate(ok):
        tu += f"verif_clang_value<{i}, ({d})> verif_clang_value_{i};\n"
    try:
        objs = ast_dump(tu, "verif_clang_value", extra=("-ferror-limit=0",))   # (a private member is an error of its own line only)
    except Refuse:
        return forest.clang_values

    def walk(n):
        if not isinstance(n, dict):
            return
        if n.get("kind") == "ClassTemplateSpecializationDecl" and n.get("name") == "verif_clang_value":
            a = [c for c in n.get("inner", []) if isinstance(c, dict) and c.get("kind") == "TemplateArgument"]
            if len(a) == 2 and "value" in a[0] and "value" in a[1]:
                forest.clang_values[ok[int(a[0]["value"])][0]] = int(a[1]["value"])
        for c in n.get("inner", []):
            walk(c)
    for o in objs:
        walk(o)
    return forest.clang_values


def ity_ok(node):
    try:
        ity_of(node)
        return True
    except Refuse:
        return False


def const_call(fn, forest):
    """value of a nullary constexpr function whose body is `return <constant>;` (numeric_limits<T>::min() / max())"""
    if any(p.get("kind") == "ParmVarDecl" for p in fn.get("inner", [])):
        raise Refuse(f"call to {fn.get('name')} with parameters")
    body = [x for x in fn["inner"] if x.get("kind") == "CompoundStmt"][0].get("inner", [])
    if len(body) != 1 or body[0].get("kind") != "ReturnStmt":
        raise Refuse(f"call to {fn.get('name')}: body is not a single return")
    v = const_eval(body[0]["inner"][0], forest)
    name, bits, sg = ity_of(body[0]["inner"][0])
    return v


def const_eval(n, forest, depth=0):
    """value of a constant initialiser (numeric_limits<T>::digits and the like), or Refuse.  Only literals, sizeof of a
    builtin type, casts between integer types that keep the value, + - * and references to other constants."""
    if depth > 20:
        raise Refuse("constant initialiser too deep")
    k = n.get("kind")
    inner = [c for c in n.get("inner", []) if isinstance(c, dict)]
    if k in ("IntegerLiteral", "CharacterLiteral"):
        return int(n["value"])
    if k == "CXXBoolLiteralExpr":
        return 1 if n["value"] else 0
    if k in ("ParenExpr", "ConstantExpr", "ExprWithCleanups", "ImplicitCastExpr", "CXXStaticCastExpr", "CXXFunctionalCastExpr", "CStyleCastExpr"):
        v = const_eval(inner[0], forest, depth + 1)
        if k.endswith("CastExpr") and n.get("castKind") == "IntegralCast":
            name, bits, sg = ity_of(n)
            lo = -(1 << (bits - 1)) if sg else 0
            hi = (1 << (bits - 1)) - 1 if sg else (1 << bits) - 1
            if not lo <= v <= hi:
                raise Refuse("constant initialiser: value-changing cast")
        return v
    if k in ("InitListExpr", "CXXScalarValueInitExpr") and not inner:
        ity_of(n)           # value-initialisation of an integer type: zero
        return 0
    if k == "UnaryExprOrTypeTraitExpr" and n.get("name") == "sizeof":
        t = strip_cv(n.get("argType", {}).get("desugaredQualType") or n.get("argType", {}).get("qualType") or "")
        if t in SIZEOF:
            return SIZEOF[t]
        raise Refuse(f"sizeof({t}) in a constant initialiser")
    if k == "BinaryOperator" and n.get("opcode") in ("+", "-", "*"):
        a, b = const_eval(inner[0], forest, depth + 1), const_eval(inner[1], forest, depth + 1)
        v = {"+": a + b, "-": a - b, "*": a * b}[n["opcode"]]
        name, bits, sg = ity_of(n)
        lo = -(1 << (bits - 1)) if sg else 0
        hi = (1 << (bits - 1)) - 1 if sg else (1 << bits) - 1
        if not lo <= v <= hi:
            raise Refuse("constant initialiser: arithmetic leaves the type's range")
        return v
    if k == "UnaryOperator" and n.get("opcode") in ("-", "+"):
        v = const_eval(inner[0], forest, depth + 1)
        return -v if n["opcode"] == "-" else v
    if k == "CallExpr" or k == "CXXMemberCallExpr":
        callee = inner[0]
        while callee.get("kind") in ("ImplicitCastExpr", "ParenExpr"):
            callee = callee["inner"][0]
        fid = callee.get("referencedDecl", {}).get("id") or callee.get("referencedMemberDecl")
        fn = forest.func_by_id.get(fid)
        if fn is not None and len(inner) == 1:
            return const_call(fn, forest)
        raise Refuse("call in a constant initialiser")
    if k == "ConditionalOperator":
        return const_eval(inner[1] if const_eval(inner[0], forest, depth + 1) else inner[2], forest, depth + 1)
    if k == "DeclRefExpr":
        v = forest.vars.get(n.get("referencedDecl", {}).get("id"))
        if v is not None:
            init = [c for c in v.get("inner", []) if isinstance(c, dict) and c.get("kind") not in ("FullComment",)]
            if init:
                try:
                    return const_eval(init[0], forest, depth + 1)
                except Refuse:
                    # not foldable here (calls gcd / abs ...): a constexpr static data member can be evaluated by clang
                    if Forest.use_clang_constants and v.get("mangledName") in clang_constants(forest):
                        return clang_constants(forest)[v["mangledName"]]
                    raise
        raise Refuse(f"constant {n.get('referencedDecl', {}).get('name')} has no visible initialiser")
    raise Refuse(f"constant initialiser kind {k}")


def qt(node):
    t = node.get("type", {})
    return t.get("desugaredQualType") or t.get("qualType") or ""


def strip_cv(t):
    t = t.replace("const ", "").replace("volatile ", "").strip()
    if t.endswith(" const"):
        t = t[:-6]
    return t.rstrip("&").strip()


def ity_of(node):
    t = strip_cv(qt(node))
    if t in ITY:
        return ITY[t]
    raise Refuse(f"non-integer type '{qt(node)}' at {node.get('kind')}")


import re

_TY_WORDS = sorted(ITY, key=len, reverse=True)


def type_key(t):
    """an identifier fragment for a printed C++ type (used only to NAME generated definitions)"""
    t = strip_cv(t)
    for w in ("etl::chrono::", "etl::", "typename ", "struct ", "class "):
        t = t.replace(w, "")
    for w in _TY_WORDS:
        t = re.sub(r"(?<![A-Za-z0-9_])" + re.escape(w) + r"(?![A-Za-z0-9_])", ITY[w][0], t)
    t = re.sub(r"[^A-Za-z0-9]+", "_", t).strip("_")
    return t


def record_canon(t):
    """canonical spelling of a printed class template specialisation (default template arguments of duration and
    ratio written out), so that `duration<int>` and `duration<int, etl::ratio<1, 1>>` compare equal"""
    t = strip_cv(t)
    for w in ("etl::chrono::", "etl::", "typename ", "struct ", "class "):
        t = t.replace(w, "")
    t = t.replace(" ", "")
    t = re.sub(r"ratio<(-?[0-9]+)>", r"ratio<\1,1>", t)
    t = re.sub(r"duration<([A-Za-z_]+)>", r"duration<\1,ratio<1,1>>", t)
    return t


OPNAMES = {"operator+": "op_plus", "operator-": "op_minus", "operator*": "op_mul", "operator/": "op_div", "operator%": "op_mod",
           "operator<": "op_lt", "operator>": "op_gt", "operator<=": "op_le", "operator>=": "op_ge", "operator==": "op_eq",
           "operator!=": "op_ne"}


def callee_name(fn, forest):
    """deterministic Gallina name of a function translated on demand: name, template arguments of the enclosing class
    specialisation, own template arguments, parameter types"""
    parts = [OPNAMES.get(fn.get("name"), re.sub(r"[^A-Za-z0-9]+", "_", fn.get("name", "fn")))]
    own = forest.owner.get(fn.get("id"))
    if own is not None:
        parts.append(own[0])
        parts += [type_key(a or "") for a in own[1]]
    for c in fn.get("inner", []):
        if c.get("kind") == "TemplateArgument":
            parts.append(type_key(c["type"]["qualType"]) if "type" in c else str(c.get("value", "x")))
    parts.append("of")
    for c in fn.get("inner", []):
        if c.get("kind") == "ParmVarDecl":
            parts.append(type_key(qt(c)))
    return "_".join(x for x in parts if x) + "_g"


class Tr:
    forest = None         # all declarations of the translation unit (set per configuration)
    kernel_calls = {}     # C++ function name -> Gallina name of an already generated kernel (set per configuration)
    auto_callees = False  # configuration key "auto_callees": translate called functions on demand, resolved by declaration id
    kernel_ids = {}       # declaration id -> Gallina name of an already generated definition
    pending = []          # definitions generated on demand, to be emitted before the kernel being translated
    in_progress = set()   # declaration ids being translated (recursion is refused)
    cfg = {}

    def __init__(self, records, calls, members):
        self.binds = []       # list of (kind, name, rhs) ; kind in {"do", "let"}
        self.n = 0
        self.env = {}         # C++ variable id -> current Gallina name
        self.records = records
        self.calls = calls
        self.members = members

    def fresh(self, base="t"):
        self.n += 1
        return f"{base}{self.n}"

    # ---- expressions: returns a pure Gallina term; may append binds
    def expr(self, n):
        k = n["kind"]
        inner = n.get("inner", [])
        if k == "ConstantExpr" and "value" in n:
            # clang evaluated it (e.g. the condition of an `if constexpr` in an instantiation)
            v = n["value"]
            if strip_cv(qt(n)) == "bool":
                return "true" if str(v) in ("1", "true") else "false"
            return str(int(v)) if int(v) >= 0 else f"({int(v)})"
        if k in ("ParenExpr", "ExprWithCleanups", "MaterializeTemporaryExpr", "ConstantExpr", "CXXBindTemporaryExpr"):
            return self.expr(inner[0])
        if k == "IntegerLiteral":
            v = int(n["value"])
            return str(v) if v >= 0 else f"({v})"
        if k == "CharacterLiteral":
            v = int(n["value"])
            return str(v) if v >= 0 else f"({v})"
        if k == "CXXBoolLiteralExpr":
            return "true" if n["value"] else "false"
        if k == "DeclRefExpr":
            rid = n["referencedDecl"]["id"]
            if rid in self.env:
                return self.env[rid]
            if n["referencedDecl"].get("kind") == "VarDecl" and Tr.forest is not None and rid in Tr.forest.vars:
                v = const_eval(n, Tr.forest)
                return str(v) if v >= 0 else f"({v})"
            raise Refuse(f"reference to unknown declaration {n['referencedDecl'].get('name')}")
        if k == "MemberExpr":
            name = n.get("name")
            if name in self.members:
                return self.members[name]
            raise Refuse(f"member access {name}")
        if k in ("ImplicitCastExpr", "CXXStaticCastExpr", "CXXFunctionalCastExpr", "CStyleCastExpr"):
            ck = n.get("castKind")
            if ck in ("LValueToRValue", "NoOp", "ConstructorConversion", "UserDefinedConversion"):
                return self.expr(inner[0])
            if ck == "IntegralCast":
                return self.cast(inner[0], n)
            if ck == "IntegralToBoolean":
                return f"(negb ({self.expr(inner[0])} =? 0))"
            raise Refuse(f"cast kind {ck}")
        if k == "UnaryOperator":
            op = n["opcode"]
            if op == "-" and inner[0].get("kind") == "IntegerLiteral":
                return f"(-{int(inner[0]['value'])})"
            a = self.expr(inner[0])
            if op == "!":
                return f"(negb {a})"
            if op == "-":
                name, bits, sg = ity_of(n)
                if sg:
                    t = self.fresh()
                    self.binds.append(("do", t, f"chk {name} (0 - {a})"))
                    return t
                return f"(wrap_ty {name} (0 - {a}))"
            if op == "+":
                return a
            if op == "~":
                name, bits, sg = ity_of(n)
                return f"(not_ty {name} {a})"
            raise Refuse(f"unary operator {op}")
        if k == "BinaryOperator":
            return self.binop(n)
        if k == "ConditionalOperator":
            c = self.expr(inner[0])
            a_term, a_mon = self.branch(inner[1])
            b_term, b_mon = self.branch(inner[2])
            if a_mon is None and b_mon is None:
                return f"(if {c} then {a_term} else {b_term})"
            t = self.fresh()
            self.binds.append(("do", t, f"(if {c} then {a_mon or 'Some ' + a_term} else {b_mon or 'Some ' + b_term})"))
            return t
        if k in ("CXXTemporaryObjectExpr", "CXXConstructExpr"):
            t = strip_cv(qt(n))
            key = t.split("<")[0].split("::")[-1]
            if key in self.records and self.records[key]["kind"] != "ctor":
                spec = self.records[key]
                args = [self.expr(x) for x in inner]
                if spec["kind"] == "cast":
                    if len(args) != 1:
                        raise Refuse(f"constructor of {t} with {len(args)} arguments")
                    return f"(wrap_ty {spec['ity']} {args[0]})"
                if spec["kind"] == "tuple":
                    return "(" + ", ".join(args) + ")"
                if spec["kind"] == "id":
                    return args[0]
            if key in self.records and self.records[key]["kind"] == "ctor":
                return self.construct(n, key, self.records[key])
            raise Refuse(f"constructor of record type {t}")
        if k == "InitListExpr":
            # T x{e} with e a prvalue of the same record type: the (elided) copy
            t = strip_cv(qt(n))
            key = t.split("<")[0].split("::")[-1]
            if (key in self.records and self.records[key]["kind"] == "ctor" and len(inner) == 1
                    and record_canon(qt(inner[0])) == record_canon(qt(n))):
                return self.expr(inner[0])
            raise Refuse(f"initializer list of type {t}")
        if k in ("CXXMemberCallExpr", "CallExpr", "CXXOperatorCallExpr"):
            callee = inner[0]
            while callee.get("kind") in ("ImplicitCastExpr", "ParenExpr"):
                callee = callee["inner"][0]
            name = callee.get("name") or callee.get("referencedDecl", {}).get("name") or callee.get("referencedMemberDecl", "")
            if callee.get("kind") == "MemberExpr":
                # x.count(), static_cast<unsigned>(m) via conversion operator, ... : value-carrying accessors
                if name in self.calls and self.calls[name] == "id":
                    return self.expr(callee["inner"][0])
                if name in self.calls and self.calls[name].startswith("getter:"):
                    # accessor of a record carried as its one data member: the body must be `return <member>;`
                    check_getter(Tr.forest, callee.get("referencedMemberDecl"), self.calls[name][len("getter:"):])
                    return self.expr(callee["inner"][0])
            if name in self.calls and self.calls[name] == "id":
                return self.expr(inner[1])
            if len(inner) == 1 and Tr.forest is not None:
                fid = callee.get("referencedDecl", {}).get("id") or callee.get("referencedMemberDecl")
                fn = Tr.forest.func_by_id.get(fid)
                if fn is not None:
                    try:
                        v = const_call(fn, Tr.forest)
                        return str(v) if v >= 0 else f"({v})"
                    except Refuse:
                        if not Tr.auto_callees:
                            raise
            if Tr.auto_callees and callee.get("kind") == "DeclRefExpr" and Tr.forest is not None:
                # a call resolved by DECLARATION ID (overloads / instantiations share a name): the callee is a kernel
                # translated earlier or is translated now, on demand, under a name derived from its types
                ref = callee.get("referencedDecl", {})
                fn = Tr.forest.func_by_id.get(ref.get("id"))
                if fn is None:
                    raise Refuse(f"call to {name}: no visible definition")
                if fn.get("kind") == "CXXMethodDecl" and (k == "CXXOperatorCallExpr" or fn.get("storageClass") != "static"):
                    raise Refuse(f"call to non-static member function {name}")
                if fn.get("kind") not in ("FunctionDecl", "CXXMethodDecl"):
                    raise Refuse(f"call to {fn.get('kind')} {name}")
                g = ensure_callee(fn)
                nparams = sum(1 for p in fn.get("inner", []) if p.get("kind") == "ParmVarDecl")
                if nparams != len(inner) - 1:
                    raise Refuse(f"call to {name}: {len(inner) - 1} arguments for {nparams} parameters")
                args = [self.expr(x) for x in inner[1:]]
                t = self.fresh()
                self.binds.append(("do", t, " ".join([g] + args)))
                return t
            if name in self.kernel_calls and callee.get("kind") == "DeclRefExpr":
                # a call to a kernel translated earlier in the same file: evaluate the arguments (left to right;
                # they are side-effect free in the accepted subset), then bind the callee's checked result
                args = [self.expr(x) for x in inner[1:]]
                t = self.fresh()
                self.binds.append(("do", t, f"{self.kernel_calls[name]} " + " ".join(args)))
                return t
            raise Refuse(f"call to {name}")
        raise Refuse(f"expression kind {k}")

    def construct(self, n, key, spec):
        """construction of a record carried as its single data member `spec["member"]`: the constructor DEFINITION selected
        by overload resolution is looked up (class specialisation + parameter type, exactly one candidate) and its member
        initialiser is translated with the parameter bound to the argument; a defaulted copy / move constructor copies."""
        if Tr.forest is None:
            raise Refuse("constructor without declarations")
        cls = record_canon(qt(n))
        ct = n.get("ctorType", {}).get("qualType", "")
        m = re.match(r"^void \((.*)\)( noexcept)?$", ct)
        args = [x for x in n.get("inner", []) if isinstance(x, dict)]
        if not m or len(args) != 1 or "," in re.sub(r"<[^()]*>", "", m.group(1)):
            raise Refuse(f"constructor {ct} of {cls} with {len(args)} arguments")
        want = record_canon(m.group(1))
        cands = []
        for (cname, cargs, d) in Tr.forest.ctors:
            if cname != key or record_canon(cname + "<" + ", ".join(a or "?" for a in cargs) + ">") != cls:
                continue
            ps = [p for p in d.get("inner", []) if p.get("kind") == "ParmVarDecl"]
            if len(ps) != 1 or record_canon(qt(ps[0])) != want:
                continue
            inits = [x for x in d.get("inner", []) if x.get("kind") == "CXXCtorInitializer"]
            if d.get("explicitlyDefaulted") == "default" or inits:
                cands.append((d, ps[0], inits))
        if len(cands) != 1:
            raise Refuse(f"{len(cands)} definitions of constructor {ct} of {cls}")
        d, p, inits = cands[0]
        arg = self.expr(args[0])
        if d.get("explicitlyDefaulted") == "default":
            if want != cls:
                raise Refuse(f"defaulted constructor {ct} of {cls}")
            return arg
        body = [x for x in d.get("inner", []) if x.get("kind") == "CompoundStmt"]
        if len(inits) != 1 or inits[0].get("anyInit", {}).get("name") != spec.get("member") or len(body) != 1 or body[0].get("inner"):
            raise Refuse(f"constructor {ct} of {cls}: not a single initialiser of {spec.get('member')} with an empty body")
        self.env[p["id"]] = arg
        return self.expr([x for x in inits[0].get("inner", []) if isinstance(x, dict)][0])

    def branch(self, n):
        """translate in a sub-context; returns (term, monadic-or-None)"""
        sub = Tr(self.records, self.calls, self.members)
        sub.env = dict(self.env)
        sub.n = self.n
        term = sub.expr(n)
        self.n = sub.n
        if not sub.binds:
            return term, None
        # single bind whose variable is the result: the checked expression itself
        if len(sub.binds) == 1 and sub.binds[0][0] == "do" and sub.binds[0][1] == term:
            return term, sub.binds[0][2]
        return term, "(" + render(sub.binds, f"Some {term}") + ")"

    def cast(self, src, dst_node):
        dname, dbits, dsg = ity_of(dst_node)
        # literal that fits: keep the literal
        s = src
        while s.get("kind") in ("ParenExpr",):
            s = s["inner"][0]
        if s.get("kind") in ("IntegerLiteral", "CharacterLiteral"):
            v = int(s["value"])
            lo = -(1 << (dbits - 1)) if dsg else 0
            hi = (1 << (dbits - 1)) - 1 if dsg else (1 << dbits) - 1
            if lo <= v <= hi:
                return str(v)
        sname, sbits, ssg = ity_of(src)
        a = self.expr(src)
        if sname == "bool":
            return f"(if {a} then 1 else 0)"
        # source range contained in target range: value unchanged
        if (ssg == dsg and sbits <= dbits) or (not ssg and dsg and sbits < dbits):
            return a
        return f"(wrap_ty {dname} {a})"

    def binop(self, n):
        op = n["opcode"]
        l, r = n["inner"]
        if op in ("&&", "||"):
            a = self.expr(l)
            b_term, b_mon = self.branch(r)
            if b_mon is not None:
                raise Refuse("short-circuit operand with checked arithmetic")
            return f"({a} {op} {b_term})"
        a = self.expr(l)
        b = self.expr(r)
        if op in ("<", "<=", ">", ">=", "==", "!="):
            z = {"<": "<?", "<=": "<=?", ">": ">?", ">=": ">=?", "==": "=?"}.get(op)
            if op == "!=":
                return f"(negb ({a} =? {b}))"
            return f"({a} {z} {b})"
        name, bits, sg = ity_of(n)
        if op in ("/", "%"):
            d = r
            while d.get("kind") in ("ParenExpr", "ImplicitCastExpr"):
                d = d["inner"][0]
            if d.get("kind") != "IntegerLiteral" or int(d["value"]) in (0, -1):
                t = self.fresh()
                self.binds.append(("do", t, f"{'div_chk' if op == '/' else 'rem_chk'} {name} {a} {b}"))
                return t
            f = "Z.quot" if op == "/" else "Z.rem"
            return f"({f} {a} {b})"
        if op in ("<<", ">>"):
            t = self.fresh()
            self.binds.append(("do", t, f"{'shl_chk' if op == '<<' else 'shr_chk'} {name} {a} {b}"))
            return t
        if op in ("&", "|", "^"):
            f = {"&": "Z.land", "|": "Z.lor", "^": "Z.lxor"}[op]
            return f"({f} {a} {b})"
        if op in ("+", "-", "*"):
            if sg:
                t = self.fresh()
                self.binds.append(("do", t, f"chk {name} ({a} {op} {b})"))
                return t
            return f"(wrap_ty {name} ({a} {op} {b}))"
        raise Refuse(f"binary operator {op}")

    # ---- statements
    def stmts(self, nodes):
        """returns the final monadic term (string)"""
        for idx, s in enumerate(nodes):
            k = s["kind"]
            if k == "DeclStmt":
                for d in s.get("inner", []):
                    if d["kind"] in ("StaticAssertDecl", "TypeAliasDecl", "TypedefDecl", "UsingDecl"):
                        continue      # no run-time meaning; the types they name reach us through the typed AST
                    if d["kind"] != "VarDecl" or "inner" not in d:
                        raise Refuse(f"declaration {d['kind']}")
                    init = [x for x in d["inner"] if x.get("kind") not in ("FullComment",)][0]
                    term = self.expr(init)
                    # narrowing to the declared type is already an IntegralCast node in the AST
                    nm = self.fresh(d["name"] + "_")
                    self.binds.append(("let", nm, term))
                    self.env[d["id"]] = nm
            elif k == "CompoundAssignOperator":
                lhs, rhs = s["inner"]
                if lhs["kind"] != "DeclRefExpr":
                    raise Refuse("compound assignment to a non-variable")
                op = s["opcode"][:-1]
                fake = {"kind": "BinaryOperator", "opcode": op, "type": s.get("computeResultType", s["type"]),
                        "inner": [{"kind": "ImplicitCastExpr", "castKind": "LValueToRValue", "type": lhs["type"], "inner": [lhs]}, rhs]}
                term = self.binop(fake)
                nm = self.fresh(lhs["referencedDecl"]["name"] + "_")
                self.binds.append(("let", nm, term))
                self.env[lhs["referencedDecl"]["id"]] = nm
            elif k == "ReturnStmt":
                term = self.expr(s["inner"][0])
                return render(self.binds, f"Some {term}")
            elif k == "IfStmt":
                parts = s["inner"]
                c = self.expr(parts[0])
                rest = nodes[idx + 1:]

                def body(n):
                    return (n.get("inner", []) if n["kind"] == "CompoundStmt" else [n])
                then_nodes = body(parts[1]) + rest          # a branch that does not return continues with the rest
                else_nodes = (body(parts[2]) if len(parts) > 2 else []) + rest
                if c in ("true", "false"):                  # `if constexpr` of an instantiation (or a folded constant)
                    live = then_nodes if c == "true" else else_nodes
                    sub = Tr(self.records, self.calls, self.members)
                    sub.env = dict(self.env); sub.n = self.n + 100
                    r = sub.stmts(live)
                    if r is None:
                        raise Refuse("function body without return")
                    return render(self.binds, f"({r})", wrap_some=False)
                then_t = Tr(self.records, self.calls, self.members)
                then_t.env = dict(self.env); then_t.n = self.n + 100
                a = then_t.stmts(then_nodes)
                if a is None:
                    raise Refuse("if-branch without return")
                rest_t = Tr(self.records, self.calls, self.members)
                rest_t.env = dict(self.env); rest_t.n = self.n + 200
                b = rest_t.stmts(else_nodes)
                if b is None:
                    raise Refuse("fall-through after if")
                return render(self.binds, f"(if {c} then ({a}) else ({b}))", wrap_some=False)
            elif k in ("NullStmt",):
                continue
            elif k == "CompoundStmt":
                sub = Tr(self.records, self.calls, self.members)
                sub.env = dict(self.env); sub.n = self.n + 300
                r = sub.stmts(s.get("inner", []) + nodes[idx + 1:])
                if r is None:
                    raise Refuse("function body without return")
                return render(self.binds, f"({r})", wrap_some=False)
            else:
                raise Refuse(f"statement kind {k}")
        return None


def render(binds, final, wrap_some=True):
    out = ""
    for kind, name, rhs in binds:
        if kind == "do":
            out += f"do {name} <- {rhs};\n  "
        else:
            out += f"let {name} := {rhs} in\n  "
    return out + final


def select(forest, k):
    cands = [o for o in forest.funcs if o.get("name") == k["cxx_name"]]
    if "signature_contains" in k:
        cands = [o for o in cands if all(x in o.get("type", {}).get("qualType", "") for x in k["signature_contains"])]
    if "signature_is" in k:
        cands = [o for o in cands if o.get("type", {}).get("qualType", "") == k["signature_is"]]
    if "template_args" in k:
        # the instantiation with exactly these template arguments (compared in canonical spelling, see record_canon)
        def targs(o):
            return [record_canon(c["type"]["qualType"]) if "type" in c else str(c.get("value"))
                    for c in o.get("inner", []) if c.get("kind") == "TemplateArgument"]
        cands = [o for o in cands if targs(o) == [record_canon(a) for a in k["template_args"]]]
    if len(cands) != 1:
        raise Refuse(f"{len(cands)} candidate definitions for {k['cxx_name']} {k.get('signature_contains', k.get('signature_is', ''))}")
    return cands[0]


def check_getter(forest, mid, member):
    fn = forest.func_by_id.get(mid) if forest is not None else None
    if fn is None:
        raise Refuse("accessor without visible definition")
    body = [x for x in fn["inner"] if x.get("kind") == "CompoundStmt"][0].get("inner", [])
    if len(body) == 1 and body[0].get("kind") == "ReturnStmt":
        e = body[0]["inner"][0]
        while e.get("kind") in ("ImplicitCastExpr", "ParenExpr") and e.get("castKind", "LValueToRValue") in ("LValueToRValue", "NoOp"):
            e = e["inner"][0]
        if e.get("kind") == "MemberExpr" and e.get("name") == member and e["inner"][0].get("kind") == "CXXThisExpr":
            return
    raise Refuse(f"accessor {fn.get('name')} is not `return {member};`")


def ensure_callee(fn):
    fid = fn["id"]
    if fid in Tr.kernel_ids:
        return Tr.kernel_ids[fid]
    if fid in Tr.in_progress:
        raise Refuse(f"recursive call of {fn.get('name')}")
    g = callee_name(fn, Tr.forest)
    if g in Tr.kernel_ids.values():
        raise Refuse(f"generated name {g} is not unique")
    Tr.in_progress.add(fid)
    try:
        text = translate_fn(fn, {"gallina_name": g}, Tr.cfg)
    finally:
        Tr.in_progress.discard(fid)
    Tr.pending.append(text)
    Tr.kernel_ids[fid] = g
    return g


def translate_kernel(k, cfg, forest):
    fn = select(forest, k)
    if Tr.auto_callees and fn.get("id") in Tr.kernel_ids:
        # already generated as the callee of an earlier kernel: the listed name is an alias of that definition
        return f"Definition {k['gallina_name']} := {Tr.kernel_ids[fn['id']]}.\n"
    Tr.in_progress.add(fn.get("id"))
    try:
        text = translate_fn(fn, k, cfg)
    finally:
        Tr.in_progress.discard(fn.get("id"))
    if Tr.auto_callees and "id" in fn:
        Tr.kernel_ids[fn["id"]] = k["gallina_name"]
    return text


def translate_fn(fn, k, cfg):
    tr = Tr(cfg.get("records", {}), cfg.get("calls", {}), k.get("members", {}))
    params = []
    ptypes = {}
    for p in fn.get("inner", []):
        if p["kind"] == "ParmVarDecl":
            pname = k.get("param_names", {}).get(p.get("name"), p.get("name"))
            tr.env[p["id"]] = pname
            params.append(pname)
            try:
                ptypes[pname] = "bool" if ity_of(p)[0] == "bool" else "Z"
            except Refuse:
                ptypes[pname] = "Z"       # record types carried as their integer representation (configuration `records`)
    for m in k.get("members", {}).values():
        params.append(m)
    body = [x for x in fn["inner"] if x["kind"] == "CompoundStmt"][0]
    term = tr.stmts(body.get("inner", []))
    if term is None:
        raise Refuse("function body without return")
    sig = " ".join(f"({p} : {ptypes.get(p, 'Z')})" for p in params)
    return f"Definition {k['gallina_name']} {sig} :=\n  {term}.\n"


def preprocessed_key(cfg):
    """sha256 of the preprocessed translation unit + this translator + the configuration: the generated file is a
    function of exactly these, so an unchanged key means an unchanged output (the AST dumps are skipped)"""
    import hashlib
    tu = "/tmp/.cxx2gallina_pp_%d.cpp" % os.getpid()
    with open(tu, "w") as f:
        f.write(cfg["tu"])
    try:
        r = subprocess.run(["clang++", "-std=c++20", f"-I{REPO}/include", "-E", "-P", tu], capture_output=True, text=True, timeout=300)
    finally:
        os.remove(tu)
    if r.returncode != 0:
        return None
    h = hashlib.sha256()
    h.update(r.stdout.encode())
    h.update(open(os.path.abspath(__file__), "rb").read())
    h.update(json.dumps(cfg, sort_keys=True).encode())
    return h.hexdigest()


def main():
    cfg = json.load(open(sys.argv[1]))
    if "tu_file" in cfg:      # the translation unit as a file next to the configuration
        cfg["tu"] = open(os.path.join(os.path.dirname(os.path.abspath(sys.argv[1])), cfg["tu_file"])).read()
    outp = sys.argv[2]
    keyp = os.path.join(os.path.dirname(outp), "." + os.path.basename(outp) + ".key")
    key = preprocessed_key(cfg)
    if key is not None and os.path.exists(outp) and os.path.exists(keyp):
        try:
            old = json.load(open(keyp))
            if old.get("key") == key:
                print(json.dumps({"refused": old.get("refused", {}), "kernels": [k["gallina_name"] for k in cfg["kernels"]],
                                  "changed": False, "cached": True}))
                return 1 if old.get("refused") else 0
        except (OSError, ValueError):
            pass
    out = ["(* GENERATED by translate/cxx2gallina.py from %s/include — do not edit.  Regenerated on every run. *)" % "REPO",
           "From Tetl Require Import Lib.Base Lib.MachOps.", "Local Open Scope Z_scope.",
           "Notation \"'do' x <- a ; b\" := (obind a (fun x => b)) (at level 200, x name, a at level 100, b at level 200).", ""]
    refused = {}
    Tr.kernel_calls = {}
    Tr.kernel_ids = {}
    Tr.in_progress = set()
    Tr.cfg = cfg
    Tr.auto_callees = bool(cfg.get("auto_callees"))
    Forest.tu_text = cfg["tu"]
    Forest.use_clang_constants = bool(cfg.get("clang_constants"))
    try:
        forest = Forest(ast_dump(cfg["tu"], cfg.get("filter", "etl::")))
    except Refuse as e:
        forest = e
    Tr.forest = forest if isinstance(forest, Forest) else None
    for k in cfg["kernels"]:
        try:
            if isinstance(forest, Refuse):
                raise forest
            Tr.pending = []
            text = translate_kernel(k, cfg, forest)
            out.extend(Tr.pending)
            out.append(text)
            if k.get("callable"):
                Tr.kernel_calls[k["cxx_name"]] = k["gallina_name"]
        except Refuse as e:
            refused[k["gallina_name"]] = str(e)
            out.append(f"(* REFUSED {k['gallina_name']}: {e} *)\n")
    text = "\n".join(out)
    old = open(outp).read() if os.path.exists(outp) else None
    if old != text:
        os.makedirs(os.path.dirname(outp), exist_ok=True)
        with open(outp, "w") as f:
            f.write(text)
    if key is not None:
        with open(keyp, "w") as f:
            json.dump({"key": key, "refused": refused}, f)
    print(json.dumps({"refused": refused, "kernels": [k["gallina_name"] for k in cfg["kernels"]], "changed": old != text}))
    return 1 if refused else 0


if __name__ == "__main__":
    sys.exit(main())
