// translation unit of translate/kernels_duration.json: USES the instantiations of the C12 kernels that are regenerated
// into coq/Gen/Gen_duration.v (nothing here is translated; the kernels are the library's own template instantiations)
#include <etl/chrono.hpp>

namespace verif_c12 {
namespace ec = etl::chrono;
using s32   = ec::duration<int, etl::ratio<1, 1>>;
using s64   = ec::duration<long, etl::ratio<1, 1>>;
using ms32  = ec::duration<int, etl::ratio<1, 1000>>;
using ms64  = ec::duration<long, etl::ratio<1, 1000>>;
using min32 = ec::duration<int, etl::ratio<60, 1>>;
using f32   = ec::duration<int, etl::ratio<1001, 30000>>;
using f64   = ec::duration<long, etl::ratio<1001, 30000>>;
using t32   = ec::duration<int, etl::ratio<1, 3>>;
using t64   = ec::duration<long, etl::ratio<1, 3>>;
using ums32 = ec::duration<unsigned int, etl::ratio<1, 1000>>;
using us64  = ec::duration<unsigned long, etl::ratio<1, 1>>;

inline void verif_instantiate()
{
    // duration_cast: num == 1 && den == 1
    (void)ec::duration_cast<s64>(s32{});
    (void)ec::duration_cast<s32>(s64{});
    // num == 1
    (void)ec::duration_cast<s32>(ms64{});
    (void)ec::duration_cast<s64>(ms32{});
    (void)ec::duration_cast<us64>(ums32{});
    // den == 1
    (void)ec::duration_cast<ms64>(s32{});
    (void)ec::duration_cast<ms32>(s64{});
    (void)ec::duration_cast<s64>(min32{});
    // general
    (void)ec::duration_cast<t64>(f64{});
    (void)ec::duration_cast<f32>(t32{});
    // floor / ceil / round
    (void)ec::floor<s64>(ms64{});
    (void)ec::ceil<s64>(ms64{});
    (void)ec::round<s64>(ms64{});
    (void)ec::floor<t64>(f64{});
    (void)ec::ceil<t64>(f64{});
    (void)ec::round<t64>(f64{});
    (void)ec::floor<min32>(s32{});
    (void)ec::ceil<min32>(s32{});
    (void)ec::round<min32>(s32{});
    // abs
    (void)ec::abs(s32{});
    (void)ec::abs(ms64{});
    // + - % / on mixed periods (conversion to the common type)
    (void)(ms64{} + s32{});
    (void)(ms64{} - s32{});
    (void)(ms64{} % s32{1});
    (void)(ms64{} / s32{1});
    (void)(min32{} + t64{});
    (void)(min32{} - t64{});
    (void)(min32{} % t64{1});
    (void)(min32{} / t64{1});
}
} // namespace verif_c12
