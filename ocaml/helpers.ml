(* helpers: placed AFTER the extracted model.  Conversions between the extracted
   inductive numbers (positive, z, n, nat) and Zarith integers, the token reader and
   the output builder shared by all drivers.  Parsing/printing only. *)
let rec big_of_pos = function
  | XH -> Big.one
  | XO p -> Big.shift_left (big_of_pos p) 1
  | XI p -> Big.succ (Big.shift_left (big_of_pos p) 1)
let big_of_z = function Z0 -> Big.zero | Zpos p -> big_of_pos p | Zneg p -> Big.neg (big_of_pos p)
let big_of_n = function N0 -> Big.zero | Npos p -> big_of_pos p
let rec pos_of_big b =
  if Big.equal b Big.one then XH
  else let h = pos_of_big (Big.shift_right b 1) in if Big.testbit b 0 then XI h else XO h
let z_of_big b =
  let s = Big.sign b in
  if s = 0 then Z0 else if s > 0 then Zpos (pos_of_big b) else Zneg (pos_of_big (Big.neg b))
let n_of_big b = if Big.sign b = 0 then N0 else Npos (pos_of_big b)
let rec nat_of_int i = if i <= 0 then O else S (nat_of_int (i - 1))
let rec int_of_nat = function O -> 0 | S k -> 1 + int_of_nat k
let z_of_int i = z_of_big (Big.of_int i)
let int_of_z z = Big.to_int (big_of_z z)
let str_of_z z = Big.to_string (big_of_z z)
let str_of_n n = Big.to_string (big_of_n n)

(* token reader *)
type toks = { mutable rest : string list }
let toks_of_line (l : string) : toks =
  { rest = List.filter (fun s -> s <> "") (String.split_on_char ' ' l) }
let next_str t = match t.rest with [] -> "" | x :: r -> t.rest <- r; x
let more t = t.rest <> []
let next_big t = let s = next_str t in try Big.of_string s with _ -> Big.zero
let next_z t = z_of_big (next_big t)
let next_n t = n_of_big (next_big t)
let next_int t = Big.to_int (next_big t)
let next_nat t = nat_of_int (next_int t)
let next_bool t = next_int t <> 0
let next_zlist t = let n = next_int t in List.init n (fun _ -> next_z t)
let next_nlist t = let n = next_int t in List.init n (fun _ -> next_n t)
let next_intlist t = let n = next_int t in List.init n (fun _ -> next_int t)

(* output builder *)
let b2s b = if b then "1" else "0"
let join (l : string list) = String.concat " " l
let zlist_s (l : z list) = join (string_of_int (List.length l) :: List.map str_of_z l)
let intlist_s (l : int list) = join (string_of_int (List.length l) :: List.map string_of_int l)

(* main loop: run_case op toks -> (model leg, spec leg) *)
let main (run_case : string -> toks -> string * string) =
  let out = Buffer.create (1 lsl 16) in
  (try
     while true do
       let line = input_line stdin in
       let t = toks_of_line line in
       let op = next_str t in
       if op = "" || op.[0] = '#' then Buffer.add_string out "skip | na\n"
       else begin
         let (m, p) = try run_case op t with Not_found -> ("unknown-op", "na") in
         Buffer.add_string out (if m = "" then "void" else m);
         Buffer.add_string out " | ";
         Buffer.add_string out (if p = "" then "na" else p);
         Buffer.add_char out '\n'
       end;
       if Buffer.length out > (1 lsl 15) then (print_string (Buffer.contents out); Buffer.clear out)
     done
   with End_of_file -> ());
  print_string (Buffer.contents out)
