(* prelude: placed BEFORE the extracted model in the single compilation unit.
   The extraction defines its own modules called Z, N, Nat, Pos ..., so the Zarith
   library is re-bound here under another name first. *)
module Big = Z
