#!/usr/bin/env python3
"""second-round mutation brief: launch_mut2.py <ID> <tag> [N] — like launch_mut.py plus the list of changes already seeded
for that property (summaries only) which must not be repeated, and a push towards harder triggers"""
import json, subprocess, sys, glob
pid, k = sys.argv[1], sys.argv[2]
n = sys.argv[3] if len(sys.argv) > 3 else "3"
wt = f"/root/scratch/mut-{pid}-{k}"
subprocess.run(["git", "-C", "/repo", "worktree", "add", "-q", wt, "HEAD"], check=False)
p = [json.loads(l) for l in open('/verif/properties.jsonl') if json.loads(l)['id'] == pid][0]
t = open('/verif/tools/mut_brief.md').read()
txt = t.format(WT=wt, ID=pid, TITLE=p['title'], STATEMENT=p['statement'], QUANT=p['quantifier']['text'],
               WHY=p['why_tests_cant'], FILES=", ".join(p['anchors']['files']), N=n)
done = []
for m in sorted(glob.glob(f'/verif/seeded/{pid}-*/meta.json')):
    j = json.load(open(m)); done.append("  - " + " ".join(j.get('summary', '').split())[:260])
extra = ("\nFURTHER ROUND. Earlier rounds already seeded the following changes for this property; do NOT repeat them nor close variants "
         "(choose other functions / overloads / files of the anchored code and other KINDS of trigger):\n" + "\n".join(done) +
         "\nPrefer this time: changes that need a MULTI-STEP history or a particular prior state to manifest; two cooperating sites that each "
         "look fine alone; a boundary reached only with an unusual configuration (capacity, width, type pair, iterator category, comparator, "
         "character type, build mode such as constant evaluation or contract checks on/off); a wrong result that is visible only through ONE "
         "observer (a returned iterator/count/flag, a relation, a value category, the state of a moved-from or second object) while every other "
         "observer stays right. Avoid changes that any differential test over small inputs would obviously expose at once.\n")
print(txt.replace("FINAL REPORT:", extra + "FINAL REPORT:"))
