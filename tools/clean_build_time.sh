#!/bin/bash
# clean_build_time.sh <ID> [jobs]  — builds the theorem files of one package (or ALL) from a cache-less, .vo-less copy
# of /verif/coq (no .lia.cache/.nia.cache, which make lia/nia replay instantly in the working tree but not in a
# clean checkout) and prints the slowest files.  The copy lives under /tmp and is removed afterwards.
set -u
ID="$1"; J="${2:-4}"
D=$(mktemp -d /tmp/cb-${ID}-XXXX)
(cd /verif && tar -cf - --exclude='*.vo' --exclude='*.vos' --exclude='*.vok' --exclude='*.glob' --exclude='*.aux' \
   --exclude='.lia.cache' --exclude='.nia.cache' --exclude='.Makefile.d' coq) | tar -xf - -C "$D"
cd "$D/coq" || exit 2
coq_makefile -f _CoqProject -o Makefile >/dev/null 2>&1
if [ "$ID" = ALL ]; then T=""; else T=$(ls $ID/Properties*.v $ID/Extract.v 2>/dev/null | sed 's/\.v$/.vo/' | tr '\n' ' '); fi
S=$(date +%s)
timeout 3000 make -k -j"$J" TIMED=1 $T > build.log 2>&1
RC=$?
echo "exit $RC wall $(( $(date +%s) - S )) s"
grep -E "^(File|Error)|rror:" build.log | head -20
echo "slowest files (real s):"
grep -E "\(real: " build.log | sed -E 's/^(.*) \(real: ([0-9.]+).*/\2 \1/' | sort -rn | head -12
echo "total CPU s: $(grep -E '\(real: ' build.log | sed -E 's/.*user: ([0-9.]+).*/\1/' | paste -sd+ | bc)"
cd /; rm -rf "$D"
