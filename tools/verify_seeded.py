#!/usr/bin/env python3
"""verify_seeded.py <candidate_dir> <PROP> <name> [--also PROP2,PROP3]
Confirms a seeded mutation independently and runs the check(s) against it:
  1. fresh scratch worktree of /repo HEAD, apply patch.diff
  2. full pinned test suite must still pass (261/261)
  3. demo.cpp must FAIL with the patch and PASS without it
  4. VERIF_REPO=<scratch> ./check <PROP> must exit 1 with a VIOLATION line
Writes /verif/seeded/<PROP>-<name>/{patch.diff,demo.cpp,meta.json}; removes the scratch worktree."""
import json, os, shutil, subprocess, sys, time
from pathlib import Path

cand = Path(sys.argv[1]); prop = sys.argv[2]; name = sys.argv[3]
also = []
if "--also" in sys.argv:
    also = sys.argv[sys.argv.index("--also") + 1].split(",")
wt = Path(f"/tmp/vs-{prop}-{name}")
out = Path(f"/verif/seeded/{prop}-{name}")
rec = {"property": prop, "candidate": str(cand), "verified_at_repo_head": subprocess.run(["git", "-C", "/repo", "rev-parse", "--short", "HEAD"], capture_output=True, text=True).stdout.strip()}

def sh(cmd, **kw):
    r = subprocess.run(cmd, shell=isinstance(cmd, str), capture_output=True, text=True, **kw)
    return r.returncode, r.stdout + r.stderr

try:
    meta = json.loads((cand / "meta.json").read_text())
except Exception as e:
    meta = {"summary": f"(meta.json unreadable: {e})"}
sh(["git", "-C", "/repo", "worktree", "remove", "--force", str(wt)])
rc, o = sh(["git", "-C", "/repo", "worktree", "add", "-q", str(wt), "HEAD"])
ok = True
try:
    rc, o = sh(["git", "-C", str(wt), "apply", str(cand / "patch.diff")])
    rec["patch_applies"] = rc == 0
    if rc != 0:
        rec["error"] = o[-500:]; ok = False
    if ok:
        rc, o = sh(["/verif/tools/mut_build_test.sh", str(wt)])
        rec["tests"] = o.strip().splitlines()[-1] if o.strip() else "?"
        rec["tests_pass"] = rc == 0
        ok = ok and rc == 0
    if ok:
        flags = meta.get("demo_flags", "") or ""
        demo = cand / "demo.cpp"
        rc1, o1 = sh(f"g++ -std=c++20 {flags} -I{wt}/include {demo} -o /tmp/vs-demo-mut-{prop}-{name} && /tmp/vs-demo-mut-{prop}-{name}", timeout=600)
        rc2, o2 = sh(f"g++ -std=c++20 {flags} -I/repo/include {demo} -o /tmp/vs-demo-clean-{prop}-{name} && /tmp/vs-demo-clean-{prop}-{name}", timeout=600)
        rec["demo_with_mutation_rc"] = rc1
        rec["demo_without_mutation_rc"] = rc2
        rec["demo_output_with_mutation"] = o1[-600:]
        rec["demo_ok"] = (rc1 != 0 and rc2 == 0)
        for f in (f"/tmp/vs-demo-mut-{prop}-{name}", f"/tmp/vs-demo-clean-{prop}-{name}"):
            try: os.remove(f)
            except OSError: pass
        ok = ok and rec["demo_ok"]
    rec["confirmed"] = ok
    if ok:
        rec["checks"] = {}
        for p in [prop] + also:
            env = dict(os.environ, VERIF_REPO=str(wt), VERIF_EVIDENCE_DIR=f"/tmp/vs-evid-{prop}-{name}", VERIF_REPLAY_DIR=f"/tmp/vs-replay-{prop}-{name}")
            t0 = time.time()
            r = subprocess.run(["./check", p, "--tier", "quick"], cwd="/verif", capture_output=True, text=True, env=env, timeout=3600)
            lines = [l for l in r.stdout.splitlines() if l.startswith("VIOLATION")]
            replay = None
            if lines:
                try:
                    path = lines[0].split("replay=")[1].split()[0]
                    replay = json.loads(Path(path).read_text())
                    replay = {k: replay.get(k) for k in ("case", "impl", "reference", "model", "spec", "kind", "variant", "package") if k in replay}
                except Exception:
                    pass
            rec["checks"][p] = {"exit": r.returncode, "violation_lines": lines[:4], "first_replay": replay, "wall_s": round(time.time() - t0, 1),
                                "detected": r.returncode == 1 and bool(lines)}
        rec["detected_by"] = [p for p, c in rec["checks"].items() if c["detected"]]
        shutil.rmtree(f"/tmp/vs-evid-{prop}-{name}", ignore_errors=True)
        shutil.rmtree(f"/tmp/vs-replay-{prop}-{name}", ignore_errors=True)
        out.mkdir(parents=True, exist_ok=True)
        shutil.copy(cand / "patch.diff", out / "patch.diff")
        shutil.copy(cand / "demo.cpp", out / "demo.cpp")
        meta_out = dict(meta)
        meta_out.update({"breaks_property": prop, "what_i_ran": rec})
        (out / "meta.json").write_text(json.dumps(meta_out, indent=1))
finally:
    sh(["git", "-C", "/repo", "worktree", "remove", "--force", str(wt)])
    import hashlib
    shutil.rmtree(f"/verif/build/alt-{hashlib.md5(str(wt).encode()).hexdigest()[:8]}", ignore_errors=True)
print(json.dumps({k: rec.get(k) for k in ("patch_applies", "tests", "demo_ok", "confirmed", "detected_by", "error")}, indent=0))
if rec.get("checks"):
    for p, c in rec["checks"].items():
        print(p, "exit", c["exit"], c["violation_lines"][:1], c["first_replay"])
