#!/bin/bash
# reverify_seeded.sh <list of seeded dir names...> — re-runs tools/verify_seeded.py for kept seeded changes against /repo's
# current HEAD (patch must still apply; suite must still pass with it; demo must still fail with / pass without; the check
# must still detect it). Results overwrite seeded/<name>/meta.json; a summary line per seed goes to stdout.
for name in "$@"; do
  d=/verif/seeded/$name
  [ -f $d/patch.diff ] || continue
  prop=$(python3 -c "import json;print(json.load(open('$d/meta.json')).get('breaks_property') or json.load(open('$d/meta.json'))['property'])")
  tag=${name#*-}
  tmp=$(mktemp -d /root/scratch/rv-XXXX); cp $d/patch.diff $d/demo.cpp $tmp/
  python3 - "$d/meta.json" "$tmp/meta.json" <<'PY'
import json,sys
m=json.load(open(sys.argv[1])); m.pop('what_i_ran',None); json.dump(m,open(sys.argv[2],'w'),indent=1)
PY
  if ! git -C /repo apply --check $tmp/patch.diff 2>/dev/null; then echo "$name NO-LONGER-APPLIES"; rm -rf $tmp; continue; fi
  out=$(timeout 3600 python3 /verif/tools/verify_seeded.py $tmp $prop $tag 2>&1 | tr '\n' ' ' | cut -c1-200)
  echo "$name $out"
  rm -rf $tmp
done
