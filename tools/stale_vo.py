#!/usr/bin/env python3
"""Removes every compiled coq/**/*.vo whose recorded source digest (first line of the .glob file coqc writes:
`DIGEST <md5 of the .v>`) differs from the md5 of the .v file as it is now, so that `make` rebuilds it even when
file times lie (restored snapshot, a regenerated Gen/*.v written back with identical size within one tick, a run
against another checkout that regenerated Gen/ meanwhile).  Prints the files it invalidated."""
import hashlib, sys
from pathlib import Path
import os
coq = Path(os.environ.get("VERIF_COQ_DIR") or (Path(__file__).resolve().parent.parent / "coq"))
n = 0
for v in coq.rglob("*.v"):
    vo, glob = v.with_suffix(".vo"), v.with_suffix(".glob")
    if not vo.exists():
        continue
    ok = False
    if glob.exists():
        try:
            first = glob.open().readline().split()
            ok = len(first) == 2 and first[0] == "DIGEST" and first[1] == hashlib.md5(v.read_bytes()).hexdigest()
        except OSError:
            ok = False
    if not ok:
        for suf in (".vo", ".vos", ".vok", ".glob"):
            try:
                v.with_suffix(suf).unlink()
            except OSError:
                pass
        print("stale:", v.relative_to(coq))
        n += 1
sys.exit(0)
