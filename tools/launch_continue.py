#!/usr/bin/env python3
"""prints the filled-in continuation brief: launch_continue.py <ID> <deadline> <state> [extra]"""
import sys
pid, deadline, state = sys.argv[1], sys.argv[2], sys.argv[3]
extra = sys.argv[4] if len(sys.argv) > 4 else ""
t = open('/verif/tools/brief_continue.md').read()
print(t.replace("{ID}", pid).replace("{DEADLINE}", deadline).replace("{STATE}", state).replace("{EXTRA}", extra))
