#!/usr/bin/env python3
"""Shows the difference between /repo's current TETL_PRECONDITION sites and props/C05/sites.json and, with --write,
rewrites the table (ONLY after reviewing the printed difference: the table is the committed inventory that
./check C05 compares the tree with)."""
import importlib.util, json, sys
from collections import Counter
from pathlib import Path
ROOT = Path(__file__).resolve().parent.parent
sys.path.insert(0, str(ROOT))
spec = importlib.util.spec_from_file_location('c05', ROOT / 'props/C05/prop.py'); m = importlib.util.module_from_spec(spec); spec.loader.exec_module(m)
now = [tuple(x) for x in m.normalise_sites('/repo/include')]
p = ROOT / 'props/C05/sites.json'
t = json.loads(p.read_text()); want = [tuple(x) for x in t['sites']]
cw, ch = Counter(want), Counter(now)
print('removed:', sorted((cw - ch).elements())); print('added:', sorted((ch - cw).elements()))
if '--write' in sys.argv:
    t['sites'] = sorted([list(x) for x in now])
    for f in list(t['inventoried_only']):
        if f.startswith('etl/') and ' ' not in f:
            t['inventoried_only'][f] = sum(1 for x in now if x[0] == f)
    if len(sys.argv) > sys.argv.index('--write') + 1:
        t['_comment'] += '; ' + sys.argv[sys.argv.index('--write') + 1]
    p.write_text(json.dumps(t, indent=1) + "\n")
    print('written')
