#!/usr/bin/env python3
"""prints the filled-in mutation brief for a property id: launch_mut.py <ID> <k> [N]; creates the worktree"""
import json, subprocess, sys
pid, k = sys.argv[1], sys.argv[2]
n = sys.argv[3] if len(sys.argv) > 3 else "3"
wt = f"/root/scratch/mut-{pid}-{k}"
subprocess.run(["git", "-C", "/repo", "worktree", "add", "-q", wt, "HEAD"], check=False)
p = [json.loads(l) for l in open('/verif/properties.jsonl') if json.loads(l)['id'] == pid][0]
t = open('/verif/tools/mut_brief.md').read()
print(t.format(WT=wt, ID=pid, TITLE=p['title'], STATEMENT=p['statement'], QUANT=p['quantifier']['text'],
               WHY=p['why_tests_cant'], FILES=", ".join(p['anchors']['files']), N=n))
