#!/bin/bash
# mut_build_test.sh <worktree>  — configure (once), build and run the pinned test suite of a scratch checkout.
# Prints "TESTS <passed>/<total>" and exits 0 only if every test passed.
set -u
WT="$1"
B="$WT/_build"
if [ ! -f "$B/build.ninja" ]; then
  cmake -S "$WT" -B "$B" -G Ninja -DCMAKE_BUILD_TYPE=RelWithDebInfo -DCMAKE_CXX_FLAGS=-Wno-error \
        -DTETL_BUILD_CONTRACT_CHECKS=ON >/dev/null 2>&1 || { echo "CONFIGURE FAILED"; exit 2; }
fi
LOG=$(mktemp)
if ! nice cmake --build "$B" -j8 >"$LOG" 2>&1; then echo "BUILD FAILED"; grep -E "error|FAILED" "$LOG" | head -20; rm -f "$LOG"; exit 1; fi
ctest --test-dir "$B" -j8 --timeout 900 >"$LOG" 2>&1
RC=$?
grep -E "tests passed|tests failed" "$LOG"
[ $RC -ne 0 ] && grep -E "Failed|\*\*\*" "$LOG" | head -20
TOTAL=$(grep -Eo "out of [0-9]+" "$LOG" | grep -Eo "[0-9]+")
FAILED=$(grep -Eo "[0-9]+ tests failed" "$LOG" | grep -Eo "^[0-9]+")
echo "TESTS $((TOTAL-FAILED))/$TOTAL"
rm -f "$LOG"
exit $RC
