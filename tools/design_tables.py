#!/usr/bin/env python3
"""Regenerates the generated tables of DESIGN.md (between `<!-- BEGIN GENERATED:<name> -->` / `<!-- END GENERATED:<name> -->`
markers) from what the machinery itself recorded: evidence/<ID>.json (last run of each check), known_findings.json,
seeded/<id>/meta.json (which check caught which seeded change) and `git -C /repo log` (fix commits)."""
import json
import re
import subprocess
from pathlib import Path

ROOT = Path(__file__).resolve().parent.parent
props = [json.loads(l) for l in (ROOT / "properties.jsonl").read_text().splitlines() if l.strip()]
kf = json.loads((ROOT / "known_findings.json").read_text())


def results():
    rows = ["| id | theorems (closed) | axioms used | quick-tier cases (distinct non-trivial) | harness variants | known findings | fix commits | quick wall s |",
            "|---|---|---|---|---|---|---|---|"]
    for p in props:
        pid = p["id"]
        ev = ROOT / "evidence" / f"{pid}.json"
        if not ev.exists():
            rows.append(f"| {pid} | – | – | – | – | – | – | – |")
            continue
        d = json.loads(ev.read_text())
        c = d["coverage"]
        thms = c.get("theorems", [])
        ax = sorted({a.split(".")[-1] for t in thms for a in (t.get("axioms") or [])})
        variants = sorted({s.get("variant") for s in c.get("samples", []) if isinstance(s, dict) and s.get("variant")})
        nk = sum(1 for k in kf["findings"] if k["property"] == pid or k["property"].startswith(pid))
        nf = sum(1 for f in kf["fixed"] if f"property={pid}" in f)
        rows.append(f"| {pid} | {c.get('discharged', '?')}/{c.get('obligations', '?')} | {', '.join(ax) if ax else 'none'} | "
                    f"{c.get('evaluations', '?')} ({c.get('distinct_nontrivial', '?')}) | {', '.join(variants) if variants else '–'} | {nk} | {nf} | {d.get('wall_s')} |")
    return "\n".join(rows)


def seeded():
    rows = ["| seeded change | property | what was changed (needs …) | suite | caught by | first failing input reported (impl / expected) |",
            "|---|---|---|---|---|---|"]
    for d in sorted((ROOT / "seeded").iterdir()):
        m = d / "meta.json"
        if not m.exists():
            continue
        j = json.loads(m.read_text())
        w = j.get("what_i_ran", {})
        det = w.get("detected_by", [])
        first = ""
        for pid, c in (w.get("checks") or {}).items():
            r = c.get("first_replay")
            if c.get("detected") and r:
                first = f"`{str(r.get('case'))[:70]}` ({str(r.get('impl'))[:30]} / {str(r.get('reference') if r.get('reference') not in (None, 'na') else r.get('spec'))[:30]})"
                break
        if not first and det:
            first = "(replay names the broken obligation)"
        summ = re.sub(r"\s+", " ", j.get("summary", ""))[:230].replace("|", "\\|")
        needs = re.sub(r"\s+", " ", j.get("needs", ""))[:160].replace("|", "\\|")
        rows.append(f"| {d.name} | {j.get('breaks_property', j.get('property'))} | {summ} (needs: {needs}) | {w.get('tests', '?').replace('TESTS ', '')} | "
                    f"{', '.join(det) if det else '**MISSED**'} | {first.replace('|', '/')} |")
    return "\n".join(rows)


def fixes():
    out = subprocess.run(["git", "-C", "/repo", "log", "--format=%h %s", "--grep=^fix:"], capture_output=True, text=True).stdout.strip().splitlines()
    rows = ["| commit | subject | recorded under |", "|---|---|---|"]
    for line in reversed(out):
        h, subj = line.split(" ", 1)
        owner = sorted({re.search(r"property=(\w+)", f).group(1) for f in kf["fixed"] if h[:7] in f and re.search(r"property=(\w+)", f)})
        rows.append(f"| {h} | {subj.replace('|', '/')} | {', '.join(owner) if owner else '–'} |")
    return "\n".join(rows)


def findings():
    rows = ["| id | property | what fails (witness) |", "|---|---|---|"]
    for k in kf["findings"]:
        what = re.sub(r"\s+", " ", k.get("what", ""))[:300].replace("|", "/")
        rows.append(f"| {k['id']} | {k['property']} | {what} (`{str(k.get('witness', ''))[:60]}`) |")
    return "\n".join(rows)


def asbuilt():
    out = []
    for p in props:
        pid = p["id"]
        f = ROOT / "props" / pid / "manifest.json"
        if not f.exists():
            out.append(f"**{pid}** — not claimed.\n")
            continue
        m = json.loads(f.read_text())
        out.append(f"**{pid} — {p['title']}**  (technique: {m.get('technique', '')})\n\n"
                   f"*Claim.* {m['level_claimed']['text']}\n\n*Trusted / not covered.* {m['level_note']}\n\n"
                   f"Model inventory, theorem list, mutations tried: `props/{pid}/NOTES.md`.\n")
    return "\n".join(out)


GEN = {"results": results, "seeded": seeded, "fixes": fixes, "findings": findings, "asbuilt": asbuilt}
p = ROOT / "DESIGN.md"
s = p.read_text()
for name, fn in GEN.items():
    b, e = f"<!-- BEGIN GENERATED:{name} -->", f"<!-- END GENERATED:{name} -->"
    if b in s and e in s:
        s = s[:s.index(b) + len(b)] + "\n" + fn() + "\n" + s[s.index(e):]
p.write_text(s)
print("ok")
