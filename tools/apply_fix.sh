#!/bin/bash
# apply_fix.sh <patch.diff> "<subject starting with fix:>" ["<body>"]
# Serialised (global lock): applies the patch to /repo, rebuilds and runs the whole pinned test
# suite, commits only when all tests pass; otherwise rolls back.
set -u
PATCH="$1"; SUBJ="$2"; BODY="${3:-}"
case "$SUBJ" in fix:*) ;; *) echo "subject must start with 'fix:'"; exit 2;; esac
exec 9>/tmp/.tetl_repo.lock
flock 9
cd /repo || exit 2
if [ -n "$(git status --porcelain --untracked-files=no)" ]; then echo "/repo has uncommitted tracked changes; refusing"; git status --short | head; exit 2; fi
if ! git apply --check "$PATCH"; then echo "patch does not apply to /repo HEAD"; exit 2; fi
git apply "$PATCH"
LOG=$(mktemp)
if ! cmake --build _build -j16 >"$LOG" 2>&1; then echo "BUILD FAILED"; grep -E "error|FAILED" "$LOG" | head -40; git checkout -- .; cmake --build _build -j16 >/dev/null 2>&1; rm -f "$LOG"; exit 1; fi
if ! ctest --test-dir _build -j8 --timeout 900 >"$LOG" 2>&1; then echo "TESTS FAILED"; grep -E "Failed|\*\*\*" "$LOG" | head -40; git checkout -- .; cmake --build _build -j16 >/dev/null 2>&1; rm -f "$LOG"; exit 1; fi
N=$(grep -Eo "[0-9]+ tests failed out of [0-9]+" "$LOG")
rm -f "$LOG"
git add -A include && if [ -n "$BODY" ]; then git commit -q -m "$SUBJ" -m "$BODY"; else git commit -q -m "$SUBJ"; fi
echo "committed $(git rev-parse --short HEAD): $SUBJ ($N)"
