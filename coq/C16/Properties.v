(* C16 — cmath exact set: property theorems.  Each is closed by [exact] of a lemma proved in
   Proofs*.v and followed by Print Assumptions.  Floating-point values are Flocq's
   BinarySingleNaN.binary_float (all NaNs identified); b32 = binary32, b64 = binary64.
   [g_*] = vendored gcem code, [e_*] = etl code, [spec_*] = ISO C Annex F / IEC 60559 via Flocq.
   Theorems are stated for every format (prec, emax) when the proof is generic, and for the two
   interchange formats otherwise. *)
From Coq Require Import ZArith Bool.
From Flocq Require Import Core BinarySingleNaN.
From Tetl Require Import Lib.Base C16.Model C16.Spec C16.ProofsBasic C16.ProofsRefuted.
Local Open Scope Z_scope.

Section AnyFormat.
Variables prec emax : Z.
Context (Hp : Prec_gt_0 prec) (Hpe : Prec_lt_emax prec emax).
Notation fl := (binary_float prec emax).

(* fmin / fmax (detail::fmin, detail::fmax after 9128fcd): a NaN is missing data, ties return the
   first operand *)
Theorem C16_fmin_exact : forall x y : fl, e_fmin prec emax x y = spec_fmin prec emax x y.
Proof. exact (e_fmin_exact prec emax). Qed.
Theorem C16_fmax_exact : forall x y : fl, e_fmax prec emax x y = spec_fmax prec emax x y.
Proof. exact (e_fmax_exact prec emax). Qed.

(* fdim (detail::fdim after bd086ad) *)
Theorem C16_fdim_exact : forall x y : fl, e_fdim prec emax Hp Hpe x y = spec_fdim prec emax Hp Hpe x y.
Proof. exact (e_fdim_exact prec emax Hp Hpe). Qed.

(* abs / fabs (abs_impl after a3c791a) *)
Theorem C16_fabs_exact : forall x : fl, e_abs prec emax Hp Hpe x = spec_fabs prec emax x.
Proof. exact (e_abs_exact prec emax Hp Hpe). Qed.

(* copysign_fallback (constant evaluation, long double) *)
Theorem C16_copysign_fallback_exact : forall x y : fl,
  e_copysign_fb prec emax x y = spec_copysign prec emax x y.
Proof. exact (e_copysign_fb_exact prec emax). Qed.

(* classification: isfinite = !isnan && !isinf, and gcem's comparison-based tests *)
Theorem C16_isfinite_exact : forall x : fl, e_isfinite prec emax x = spec_isfinite prec emax x.
Proof. exact (e_isfinite_exact prec emax). Qed.
Theorem C16_gcem_is_nan_exact : forall x : fl, g_is_nan prec emax x = spec_isnan prec emax x.
Proof. exact (g_is_nan_exact prec emax). Qed.
Theorem C16_gcem_is_inf_exact : forall x : fl, g_is_inf prec emax x = spec_isinf prec emax x.
Proof. exact (g_is_inf_exact prec emax). Qed.
Theorem C16_gcem_is_finite_exact : forall x : fl, g_is_finite prec emax x = spec_isfinite prec emax x.
Proof. exact (g_is_finite_exact prec emax). Qed.
Theorem C16_gcem_abs_exact : forall x : fl, g_abs prec emax Hp Hpe x = spec_fabs prec emax x.
Proof. exact (g_abs_exact prec emax Hp Hpe). Qed.

(* hypot: the ladder in front of the square root follows F.10.4.3 (infinity wins over NaN);
   None on both sides = no special case, the (approximate) sqrt kernel is reached *)
Theorem C16_hypot_special_exact : forall x y : fl,
  e_hypot_ladder prec emax x y = spec_hypot_special prec emax x y.
Proof. exact (e_hypot_ladder_exact prec emax). Qed.
Theorem C16_hypot3_special_exact : forall x y z : fl,
  e_hypot3_ladder prec emax x y z = spec_hypot3_special prec emax x y z.
Proof. exact (e_hypot3_ladder_exact prec emax). Qed.

End AnyFormat.
Print Assumptions C16_fmin_exact.
Print Assumptions C16_fmax_exact.
Print Assumptions C16_fdim_exact.
Print Assumptions C16_fabs_exact.
Print Assumptions C16_copysign_fallback_exact.
Print Assumptions C16_isfinite_exact.
Print Assumptions C16_gcem_is_nan_exact.
Print Assumptions C16_gcem_is_inf_exact.
Print Assumptions C16_gcem_is_finite_exact.
Print Assumptions C16_gcem_abs_exact.
Print Assumptions C16_hypot_special_exact.
Print Assumptions C16_hypot3_special_exact.

(* signbit_fallback: the top bit of the bit pattern is the IEEE sign *)
Theorem C16_signbit_fallback_exact_b32 : forall x : b32, signbit_fb32 x = spec_signbit 24 128 x.
Proof. exact signbit_fb32_exact. Qed.
Print Assumptions C16_signbit_fallback_exact_b32.
Theorem C16_signbit_fallback_exact_b64 : forall x : b64, signbit_fb64 x = spec_signbit 53 1024 x.
Proof. exact signbit_fb64_exact. Qed.
Print Assumptions C16_signbit_fallback_exact_b64.

(* recorded defects of the vendored gcem fall-back (known findings KF-C16-gcem-...): the
   constant-evaluation path of fmod / remainder *)
Theorem C16_gcem_fmod_refuted : exists x y : b32,
  g_fmod 24 128 p32 pe32 x y <> Ok (spec_fmod 24 128 p32 pe32 x y).
Proof. exact g_fmod_refuted. Qed.
Print Assumptions C16_gcem_fmod_refuted.
Theorem C16_gcem_remainder_refuted : exists x y : b32,
  g_fmod 24 128 p32 pe32 x y <> Ok (spec_remainder 24 128 p32 pe32 x y).
Proof. exact g_remainder_refuted. Qed.
Print Assumptions C16_gcem_remainder_refuted.
(* why fmin/fmax no longer use gcem min/max *)
Theorem C16_gcem_min_refuted : exists x y : b32, g_min 24 128 x y <> spec_fmin 24 128 x y.
Proof. exact g_min_refuted. Qed.
Print Assumptions C16_gcem_min_refuted.

Example C16_nonvacuous : enc32 (e_fmin 24 128 (dec32 1065353216) B754_nan) = 1065353216.
Proof. vm_compute. reflexivity. Qed.
Print Assumptions C16_nonvacuous.
