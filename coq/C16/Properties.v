(* C16 — cmath exact set: property theorems, part 1 (sign, classification, min/max/dim, ladders,
   examples).  Each is closed by [exact] of lemmas proved in Proofs*.v and followed by
   Print Assumptions.  Floating-point values are Flocq's BinarySingleNaN.binary_float (all NaNs
   identified); b32 = binary32, b64 = binary64.  [g_*] = vendored gcem code, [e_*] = etl code,
   [spec_*] = ISO C Annex F / IEC 60559 via Flocq.  The theorems of this file hold for EVERY
   format (prec, emax) and EVERY value of it; conjunctions keep the number of Print Assumptions
   (each costs ~1 s) small.  Part 2 (rounding kernels, nextafter) is Properties_rounding.v. *)
From Coq Require Import ZArith Bool.
From Flocq Require Import Core BinarySingleNaN.
From Tetl Require Import Lib.Base C16.Model C16.Spec C16.ProofsBasic C16.ProofsBits C16.ProofsRefuted.
Local Open Scope Z_scope.

Section AnyFormat.
Variables prec emax : Z.
Context (Hp : Prec_gt_0 prec) (Hpe : Prec_lt_emax prec emax).
Notation fl := (binary_float prec emax).

(* fmin / fmax (detail::fmin, detail::fmax after 9128fcd): a NaN is missing data, operands that
   compare equal return the first; fdim (detail::fdim after bd086ad) *)
Theorem C16_fmin_fmax_fdim_exact : forall x y : fl,
  e_fmin prec emax x y = spec_fmin prec emax x y /\
  e_fmax prec emax x y = spec_fmax prec emax x y /\
  e_fdim prec emax Hp Hpe x y = spec_fdim prec emax Hp Hpe x y.
Proof.
  intros x y. exact (conj (e_fmin_exact prec emax x y) (conj (e_fmax_exact prec emax x y)
                                                              (e_fdim_exact prec emax Hp Hpe x y))).
Qed.

(* abs / fabs (abs_impl after a3c791a), gcem abs, copysign_fallback (after 869bd40; constant
   evaluation and long double) *)
Theorem C16_fabs_copysign_exact : forall x y : fl,
  e_abs prec emax x = spec_fabs prec emax x /\
  g_abs prec emax Hp Hpe x = spec_fabs prec emax x /\
  e_copysign_fb prec emax x y = spec_copysign prec emax x y.
Proof.
  intros x y. exact (conj (e_abs_exact prec emax x) (conj (g_abs_exact prec emax Hp Hpe x)
                                                                  (e_copysign_fb_exact prec emax x y))).
Qed.

(* classification: isfinite = !isnan && !isinf, gcem's comparison-based tests, gcem sgn *)
Theorem C16_classification_exact : forall x : fl,
  e_isfinite prec emax x = spec_isfinite prec emax x /\
  g_is_nan prec emax x = spec_isnan prec emax x /\
  g_is_inf prec emax x = spec_isinf prec emax x /\
  g_is_finite prec emax x = spec_isfinite prec emax x /\
  g_sgn prec emax Hp Hpe x = spec_sgn prec emax x.
Proof.
  intros x. exact (conj (e_isfinite_exact prec emax x) (conj (g_is_nan_exact prec emax x)
    (conj (g_is_inf_exact prec emax x) (conj (g_is_finite_exact prec emax x) (g_sgn_exact prec emax Hp Hpe x))))).
Qed.

(* hypot: the ladder in front of the square root follows F.10.4.3 (infinity wins over NaN);
   None on both sides = no special case, the (approximate) sqrt kernel is reached *)
Theorem C16_hypot_special_exact : forall x y z : fl,
  e_hypot_ladder prec emax x y = spec_hypot_special prec emax x y /\
  e_hypot3_ladder prec emax x y z = spec_hypot3_special prec emax x y z.
Proof.
  intros x y z. exact (conj (e_hypot_ladder_exact prec emax x y) (e_hypot3_ladder_exact prec emax x y z)).
Qed.

End AnyFormat.
Print Assumptions C16_fmin_fmax_fdim_exact.
Print Assumptions C16_fabs_copysign_exact.
Print Assumptions C16_classification_exact.
Print Assumptions C16_hypot_special_exact.

(* the sign-bit operations on the RAW encoding of any width w (binary32: 32, binary64: 64, x87: 80):
   abs_impl (abs / fabs after 5451ca8), copysign_fallback and signbit_fallback set / copy / read
   bit w-1 and nothing else for EVERY bit pattern - NaNs of either sign and any payload included
   (IEC 60559 5.5.1: abs and copySign are sign-bit operations also on NaNs; the theorems above
   identify all NaNs and cannot see this) *)
Theorem C16_sign_ops_raw_exact : forall w, 1 <= w -> forall x y, 0 <= x < 2 ^ w -> 0 <= y < 2 ^ w ->
  raw_e_abs w x = spec_raw_fabs w x /\
  raw_e_copysign_fb w x y = spec_raw_copysign w x y /\
  raw_signbit w x = spec_raw_signbit w x /\
  raw_e_signbit_fb w x = spec_raw_signbit w x.
Proof.
  intros w Hw x y Hx Hy.
  exact (conj (proj1 (raw_e_abs_exact w Hw x Hx)) (conj (raw_e_copysign_fb_exact w Hw x y Hx Hy)
              (raw_signbit_exact w Hw x Hx))).
Qed.
Print Assumptions C16_sign_ops_raw_exact.
(* ... and the raw model is consistent with the value-level model of C16_fabs_copysign_exact: bit_cast of the raw result is
   abs_impl / copysign_fallback of the bit_cast operands, for every binary32 / binary64 pattern (copysign: second operand
   not a NaN - the value level has no NaN sign) *)
Theorem C16_sign_ops_raw_consistent :
  (forall b, 0 <= b < 2 ^ 32 -> dec32 (raw_e_abs 32 b) = e_abs 24 128 (dec32 b)) /\
  (forall b, 0 <= b < 2 ^ 64 -> dec64 (raw_e_abs 64 b) = e_abs 53 1024 (dec64 b)) /\
  (forall x y, 0 <= x < 2 ^ 32 -> 0 <= y < 2 ^ 32 -> is_nan (dec32 y) = false ->
     dec32 (raw_e_copysign_fb 32 x y) = e_copysign_fb 24 128 (dec32 x) (dec32 y)) /\
  (forall x y, 0 <= x < 2 ^ 64 -> 0 <= y < 2 ^ 64 -> is_nan (dec64 y) = false ->
     dec64 (raw_e_copysign_fb 64 x y) = e_copysign_fb 53 1024 (dec64 x) (dec64 y)).
Proof.
  exact (conj (dec_raw_e_abs 23 8 eq_refl eq_refl eq_refl) (conj (dec_raw_e_abs 52 11 eq_refl eq_refl eq_refl)
        (conj (dec_raw_e_copysign_fb 23 8 eq_refl eq_refl eq_refl) (dec_raw_e_copysign_fb 52 11 eq_refl eq_refl eq_refl)))).
Qed.
Print Assumptions C16_sign_ops_raw_consistent.
(* non-vacuity: fabs of the positive and of the negative binary32 quiet NaN is the positive one;
   copysign(+NaN, -1.0f) is the negative NaN *)
Example C16_sign_ops_raw_nonvacuous :
  raw_e_abs 32 2143289344 = 2143289344 /\ raw_e_abs 32 4290772992 = 2143289344 /\
  raw_e_copysign_fb 32 2143289344 3212836864 = 4290772992.
Proof. vm_compute. repeat split. Qed.

(* signbit_fallback (after a32acd7): the top bit of the bit pattern is the IEEE sign *)
Theorem C16_signbit_fallback_exact :
  (forall x : b32, signbit_fb32 x = spec_signbit 24 128 x) /\
  (forall x : b64, signbit_fb64 x = spec_signbit 53 1024 x).
Proof. exact (conj signbit_fb32_exact signbit_fb64_exact). Qed.
Print Assumptions C16_signbit_fallback_exact.

(* gcem fmod / remainder, the constant-evaluation path of etl::fmod / etl::remainder (exact binary
   long division since the rewrite; the five former known findings KF-C16-gcem-fmod-*,
   KF-C16-gcem-remainder-is-fmod are now kernel-evaluated regression examples) *)
Theorem C16_gcem_fmod_examples :
  encr (g_fmod 24 128 p32 pe32 (dec32 1343554297) (dec32 1077936128)) = 1065353216 /\
  encr (g_fmod 24 128 p32 pe32 (dec32 1084227584) (dec32 2139095040)) = 1084227584 /\
  encr (g_fmod 24 128 p32 pe32 (dec32 3225419776) (dec32 1077936128)) = 2147483648 /\
  encr (g_fmod 24 128 p32 pe32 (dec32 1065353216) (dec32 1)) = 0 /\
  encr (g_remainder 24 128 p32 pe32 (dec32 1084227584) (dec32 1077936128)) = 3212836864.
Proof.
  exact (conj (proj1 g_fmod_ex_large) (conj (proj1 g_fmod_ex_inf_divisor) (conj (proj1 g_fmod_ex_zero_sign)
        (conj (proj1 g_fmod_ex_tiny_divisor) (proj1 g_remainder_ex))))).
Qed.
Print Assumptions C16_gcem_fmod_examples.
(* why fmin/fmax no longer use gcem min/max *)
Theorem C16_gcem_min_max_refuted :
  (exists x y : b32, g_min 24 128 x y <> spec_fmin 24 128 x y) /\
  (exists x y : b32, g_max 24 128 x y <> spec_fmax 24 128 x y).
Proof. exact (conj g_min_refuted g_max_refuted). Qed.
Print Assumptions C16_gcem_min_max_refuted.

Example C16_nonvacuous : enc32 (e_fmin 24 128 (dec32 1065353216) B754_nan) = 1065353216.
Proof. vm_compute. reflexivity. Qed.
