(* C16 — property theorems (only [exact] of lemmas proved in Proofs*.v + Print Assumptions) *)
From Coq Require Import ZArith Bool.
From Flocq Require Import Core BinarySingleNaN.
From Tetl Require Import Lib.Base C16.Model C16.Spec.
Local Open Scope Z_scope.

Example C16_nonvacuous : enc32 (dec32 1065353216) = 1065353216.
Proof. vm_compute. reflexivity. Qed.
Print Assumptions C16_nonvacuous.
