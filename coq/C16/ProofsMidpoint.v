(* C16 — etl::midpoint(Float, Float) (Model.e_midpoint) never overflows: for finite operands the
   result is finite ([numeric.ops.midpoint]: "no overflow occurs"), for EVERY format with
   2 <= prec and every pair of finite values.  (That the result is the correctly rounded
   (a + b) / 2 is only tested against Spec.spec_midpoint and std::midpoint.) *)
From Coq Require Import ZArith Bool Lia Lra Reals.
From Flocq Require Import Core BinarySingleNaN Mult_error Plus_error.
From Tetl Require Import Lib.Base C16.Model C16.Spec C16.ProofsRound.
From Tetl Require C16.ProofsBasic.
Local Open Scope R_scope.

Section Fmt.
Variables prec emax : Z.
Context (Hp : Prec_gt_0 prec) (Hpe : Prec_lt_emax prec emax).
Hypothesis Hprec2 : (2 <= prec)%Z.
Notation fl := (binary_float prec emax).
Notation emin := (SpecFloat.emin prec emax).
Notation fexp := (SpecFloat.fexp prec emax).
Notation format := (generic_format radix2 fexp).
Notation fadd := (Model.fadd prec emax Hp Hpe).
Notation fdiv := (Model.fdiv prec emax Hp Hpe).
Notation fmul := (Model.fmul prec emax Hp Hpe).
Notation two := (of_Z prec emax Hp Hpe 2).
Notation fmax := (f_max prec emax Hp Hpe).
Notation fmin := (f_min prec emax Hp Hpe).
Notation eabs := (e_abs prec emax).

Let Hpe' : (prec < emax)%Z := Hpe.
Let Hp' : (0 < prec)%Z := Hp.

(* the largest finite value *)
Definition Mx : R := bpow radix2 emax - bpow radix2 (emax - prec).

Lemma Mx_ge : bpow radix2 (emax - 1) <= Mx.
Proof.
  unfold Mx.
  assert (E : bpow radix2 emax = 2 * bpow radix2 (emax - 1)).
  { replace emax with (emax - 1 + 1)%Z at 1 by ring. rewrite bpow_plus_1. reflexivity. }
  assert (bpow radix2 (emax - prec) <= bpow radix2 (emax - 1)) by (apply bpow_le; lia).
  lra.
Qed.

Lemma Mx_lt : Mx < bpow radix2 emax.
Proof. unfold Mx. generalize (bpow_gt_0 radix2 (emax - prec)). lra. Qed.

Lemma Mx_pos : 0 < Mx.
Proof. apply Rlt_le_trans with (2 := Mx_ge). apply bpow_gt_0. Qed.

Lemma fmax_correct : B2R fmax = Mx /\ is_finite fmax = true.
Proof.
  unfold f_max, Bmax_float. rewrite B2R_SF2B, is_finite_SF2B. split; [|reflexivity].
  cbn [SF2R cond_Zopp]. unfold F2R. cbn [Fnum Fexp].
  rewrite Pos2Z.inj_sub.
  - rewrite shift_pos_correct, Z.mul_1_r, Z.pow_pos_fold, Z2Pos.id by lia.
    rewrite minus_IZR. change 2%Z with (radix_val radix2). rewrite IZR_Zpower by lia.
    unfold Mx. replace emax with (prec + (emax - prec))%Z at 2 by ring. rewrite bpow_plus. cbn [IZR IPR]. ring.
  - change (Zpos 1 < Zpos (shift_pos (Z.to_pos prec) 1))%Z.
    rewrite shift_pos_correct, Z.mul_1_r, Z.pow_pos_fold, Z2Pos.id by lia.
    apply (Z.pow_gt_1 2); lia.
Qed.

Lemma format_Mx : format Mx.
Proof. destruct fmax_correct as [E _]. rewrite <- E. apply generic_format_B2R. Qed.

Lemma mag_Mx : mag radix2 Mx = emax :> Z.
Proof.
  apply mag_unique. rewrite Rabs_pos_eq by (apply Rlt_le, Mx_pos). split; [apply Mx_ge|apply Mx_lt].
Qed.

Lemma format_half_Mx : format (Mx / 2).
Proof.
  replace (Mx / 2) with (Mx * bpow radix2 (-1)) by (cbn; lra).
  apply mult_bpow_exact_FLT; [exact format_Mx|]. rewrite mag_Mx. unfold SpecFloat.emin. lia.
Qed.

Lemma two_correct : B2R two = 2 /\ is_finite two = true.
Proof.
  destruct (of_Z_correct prec emax Hp Hpe Hprec2 2) as (T1 & T2 & _).
  - change (Z.abs 2) with (2 ^ 1)%Z. apply Z.pow_lt_mono_r; lia.
  - split; assumption.
Qed.

Lemma fin_le_Mx : forall x : fl, Rabs (B2R x) <= Mx.
Proof. intros x. apply abs_B2R_le_emax_minus_prec. exact Hp. Qed.

(* x / 2 is finite and at most max / 2 *)
Lemma fdiv2_correct :
  forall x : fl, is_finite x = true ->
  is_finite (fdiv x two) = true /\ Rabs (B2R (fdiv x two)) <= Mx / 2.
Proof.
  intros x Fx. destruct two_correct as [T1 T2].
  assert (Hb : Rabs (round radix2 fexp (round_mode mode_NE) (B2R x / B2R two)) <= Mx / 2).
  { apply abs_round_le_generic; try typeclasses eauto; [exact format_half_Mx|].
    rewrite T1. unfold Rdiv. rewrite Rabs_mult, (Rabs_pos_eq (/ 2)) by lra.
    generalize (fin_le_Mx x). lra. }
  generalize (Bdiv_correct prec emax Hp Hpe mode_NE x two). rewrite T1.
  intros H. specialize (H ltac:(lra)). rewrite T1 in Hb.
  rewrite Rlt_bool_true in H.
  - destruct H as (H1 & H2 & _). unfold Model.fdiv. split; [rewrite H2; exact Fx|]. rewrite H1. exact Hb.
  - generalize Mx_lt Mx_pos. lra.
Qed.

(* a sum whose exact value is at most max does not overflow *)
Lemma fadd_bounded_finite :
  forall x y : fl, is_finite x = true -> is_finite y = true ->
  Rabs (B2R x + B2R y) <= Mx -> is_finite (fadd x y) = true.
Proof.
  intros x y Fx Fy Hb.
  generalize (Bplus_correct prec emax Hp Hpe mode_NE x y Fx Fy).
  rewrite Rlt_bool_true.
  - intros (_ & H2 & _). exact H2.
  - apply Rle_lt_trans with (2 := Mx_lt).
    apply abs_round_le_generic; try typeclasses eauto; [exact format_Mx|exact Hb].
Qed.

Lemma eabs_correct :
  forall x : fl, is_finite x = true -> B2R (eabs x) = Rabs (B2R x) /\ is_finite (eabs x) = true.
Proof.
  intros x Fx. rewrite ProofsBasic.e_abs_exact. unfold spec_fabs. split; [apply B2R_Babs|].
  destruct x; try discriminate; reflexivity.
Qed.

(* hi = max / 2 exactly,  lo = 2 min = 2^(3 - emax) *)
Lemma hi_correct : B2R (fdiv fmax two) = Mx / 2 /\ is_finite (fdiv fmax two) = true.
Proof.
  destruct fmax_correct as [M1 M2]. destruct two_correct as [T1 T2].
  generalize (Bdiv_correct prec emax Hp Hpe mode_NE fmax two). rewrite T1, M1.
  intros H. specialize (H ltac:(lra)).
  rewrite round_generic in H by (try apply valid_rnd_round_mode; exact format_half_Mx).
  rewrite Rlt_bool_true in H.
  - destruct H as (H1 & H2 & _). unfold Model.fdiv. split; [exact H1|rewrite H2; exact M2].
  - rewrite Rabs_pos_eq by (generalize Mx_pos; lra). generalize Mx_lt Mx_pos. lra.
Qed.

Lemma lo_correct : B2R (fmul fmin two) = bpow radix2 (3 - emax) /\ is_finite (fmul fmin two) = true.
Proof.
  destruct two_correct as [T1 T2].
  destruct (pow2_correct prec emax Hp Hpe (2 - emax)) as (P1 & P2 & _); [unfold SpecFloat.emin; lia|].
  assert (E : bpow radix2 (2 - emax) * 2 = bpow radix2 (3 - emax)).
  { replace (3 - emax)%Z with (2 - emax + 1)%Z by ring. rewrite bpow_plus_1. change (IZR radix2) with 2. ring. }
  destruct (fmul_exact prec emax Hp Hpe fmin two P2 T2) as (M1 & M2 & _).
  - unfold f_min. rewrite P1, T1, E. apply format_bpow; [exact Hp|]. unfold SpecFloat.emin. lia.
  - unfold f_min. rewrite P1, T1, E, Rabs_pos_eq by (apply bpow_ge_0). apply bpow_lt. lia.
  - split; [|exact M2]. rewrite M1. unfold f_min. rewrite P1, T1. exact E.
Qed.

Lemma lo_le_half_Mx : bpow radix2 (3 - emax) <= Mx / 2.
Proof.
  apply Rle_trans with (bpow radix2 (emax - 2)); [apply bpow_le; lia|].
  generalize Mx_ge. replace (emax - 1)%Z with (emax - 2 + 1)%Z by ring. rewrite bpow_plus_1.
  change (IZR radix2) with 2. lra.
Qed.

(** * the theorem *)
Theorem e_midpoint_finite :
  forall a b : fl, is_finite a = true -> is_finite b = true ->
  is_finite (e_midpoint prec emax Hp Hpe a b) = true.
Proof.
  intros a b Fa Fb. unfold e_midpoint. cbv zeta.
  destruct hi_correct as [H1 H2]. destruct lo_correct as [L1 L2].
  destruct (eabs_correct a Fa) as [A1 A2]. destruct (eabs_correct b Fb) as [B1 B2].
  destruct (fdiv2_correct a Fa) as [Da1 Da2]. destruct (fdiv2_correct b Fb) as [Db1 Db2].
  unfold fle, flt.
  rewrite (Bleb_correct _ _ (eabs a) _ A2 H2), (Bleb_correct _ _ (eabs b) _ B2 H2), A1, B1, H1.
  rewrite (Bltb_correct _ _ (eabs a) _ A2 L2), (Bltb_correct _ _ (eabs b) _ B2 L2), A1, B1, L1.
  generalize lo_le_half_Mx. intros LH.
  destruct (Rle_bool_spec (Rabs (B2R a)) (Mx / 2)) as [Ha|Ha];
  [destruct (Rle_bool_spec (Rabs (B2R b)) (Mx / 2)) as [Hb|Hb]|]; cbn [andb].
  - (* (a + b) / 2 *)
    apply fdiv2_correct. apply fadd_bounded_finite; [exact Fa|exact Fb|].
    eapply Rle_trans; [apply Rabs_triang|]. lra.
  - destruct (Rlt_bool_spec (Rabs (B2R a)) (bpow radix2 (3 - emax))) as [Sa|Sa].
    + apply fadd_bounded_finite; [exact Fa|exact Db1|]. eapply Rle_trans; [apply Rabs_triang|]. lra.
    + destruct (Rlt_bool_spec (Rabs (B2R b)) (bpow radix2 (3 - emax))) as [Sb|Sb].
      * exfalso. lra.
      * apply fadd_bounded_finite; [exact Da1|exact Db1|]. eapply Rle_trans; [apply Rabs_triang|]. lra.
  - destruct (Rlt_bool_spec (Rabs (B2R a)) (bpow radix2 (3 - emax))) as [Sa|Sa].
    + exfalso. lra.
    + destruct (Rlt_bool_spec (Rabs (B2R b)) (bpow radix2 (3 - emax))) as [Sb|Sb].
      * apply fadd_bounded_finite; [exact Da1|exact Fb|]. eapply Rle_trans; [apply Rabs_triang|]. lra.
      * apply fadd_bounded_finite; [exact Da1|exact Db1|]. eapply Rle_trans; [apply Rabs_triang|]. lra.
Qed.

(** * correct rounding: midpoint(a, b) is the correctly rounded (a + b) / 2 with the IEEE sign of a
    zero sum — outside the corner where one operand exceeds max/2 and the other is below 2 min
    (there the code adds the small operand unhalved to half of the large one; the result is again
    half of the large one, which is only tested) *)
Notation rnd := (round radix2 fexp ZnearestE).

Definition mid_sign (a b : fl) : bool :=
  match Rcompare ((B2R a + B2R b) / 2) 0 with Eq => Bsign a && Bsign b | Lt => true | Gt => false end.
Definition mid_of (a b z : fl) : Prop :=
  is_finite z = true /\ B2R z = rnd ((B2R a + B2R b) / 2) /\ Bsign z = mid_sign a b.

Lemma mid_of_unique : forall a b z z' : fl, mid_of a b z -> mid_of a b z' -> z = z'.
Proof.
  intros a b z z' (F1 & R1 & S1) (F2 & R2 & S2).
  apply B2R_Bsign_inj; congruence.
Qed.

Lemma Rcompare_half : forall x, Rcompare (x / 2) 0 = Rcompare x 0.
Proof.
  intros x. destruct (Rcompare_spec x 0) as [H|H|H].
  - apply Rcompare_Lt. lra.
  - apply Rcompare_Eq. lra.
  - apply Rcompare_Gt. lra.
Qed.

Lemma half_sum_bound : forall a b : fl, Rabs ((B2R a + B2R b) / 2) <= Mx.
Proof.
  intros a b. unfold Rdiv. rewrite Rabs_mult, (Rabs_pos_eq (/ 2)) by lra.
  generalize (fin_le_Mx a) (fin_le_Mx b) (Rabs_triang (B2R a) (B2R b)). lra.
Qed.

Lemma rnd_half_sum_lt : forall a b : fl, Rabs (rnd ((B2R a + B2R b) / 2)) < bpow radix2 emax.
Proof.
  intros a b. apply Rle_lt_trans with (2 := Mx_lt).
  apply abs_round_le_generic; try typeclasses eauto; [exact format_Mx|apply half_sum_bound].
Qed.

(* halving commutes with rounding above the subnormal range *)
Lemma rnd_half : forall x, (emin + prec + 1 <= mag radix2 x)%Z -> rnd (x / 2) = rnd x / 2.
Proof.
  intros x Hm. destruct (Req_dec x 0) as [->|Nx].
  { unfold Rdiv. rewrite Rmult_0_l, round_0 by typeclasses eauto. lra. }
  replace (x / 2) with (x * bpow radix2 (-1)) by (cbn; lra).
  unfold round, scaled_mantissa, cexp. rewrite mag_mult_bpow by exact Nx.
  assert (E : fexp (mag radix2 x + -1) = (fexp (mag radix2 x) - 1)%Z).
  { unfold SpecFloat.fexp. unfold SpecFloat.emin in Hm |- *. lia. }
  rewrite E. set (c := fexp (mag radix2 x)).
  replace (x * bpow radix2 (-1) * bpow radix2 (- (c - 1))) with (x * bpow radix2 (- c)).
  2:{ rewrite Rmult_assoc, <- bpow_plus. f_equal. f_equal. ring. }
  unfold F2R. cbn [Fnum Fexp]. unfold Zminus. rewrite bpow_plus. cbn. lra.
Qed.

Lemma format_half : forall x, format x -> (emin + prec + 1 <= mag radix2 x)%Z -> format (x / 2).
Proof.
  intros x Fx Hm. replace (x / 2) with (x * bpow radix2 (-1)) by (cbn; lra).
  apply mult_bpow_exact_FLT; [exact Fx|]. lia.
Qed.

Lemma mag_ge_lo : forall x, bpow radix2 (3 - emax) <= Rabs x -> (emin + prec + 1 <= mag radix2 x)%Z.
Proof.
  intros x Hx. generalize (mag_gt_bpow radix2 x (3 - emax) Hx). unfold SpecFloat.emin. lia.
Qed.

(** ** the specification side *)
Lemma F2R_align : forall (s : bool) (m : positive) (ex e : Z), (e <= ex)%Z ->
  IZR ((if s then -1 else 1) * Zpos m * 2 ^ (ex - e)) * bpow radix2 e =
  F2R (Float radix2 (cond_Zopp s (Zpos m)) ex).
Proof.
  intros s m ex e He. unfold F2R. cbn [Fnum Fexp].
  rewrite !mult_IZR. change 2%Z with (radix_val radix2). rewrite IZR_Zpower by lia.
  replace ex with (ex - e + e)%Z at 2 by ring. rewrite bpow_plus.
  destruct s; cbn [cond_Zopp]; [rewrite opp_IZR|]; cbn [IZR IPR]; ring.
Qed.

Lemma spec_midpoint_mid_of :
  forall a b : fl, is_finite a = true -> is_finite b = true ->
  exists z, spec_midpoint prec emax Hp Hpe a b = Some z /\ mid_of a b z.
Proof.
  intros a b Fa Fb.
  assert (Hnorm : forall mx ex szero, F2R (Float radix2 mx ex) = (B2R a + B2R b) / 2 ->
            (B2R a + B2R b = 0 -> szero = (Bsign a && Bsign b)%bool) ->
            mid_of a b (binary_normalize prec emax Hp Hpe mode_NE mx ex szero)).
  { intros mx ex szero HF Hz.
    generalize (binary_normalize_correct prec emax Hp Hpe mode_NE mx ex szero). cbv zeta.
    rewrite HF. cbn [round_mode]. rewrite Rlt_bool_true by apply rnd_half_sum_lt.
    intros (H1 & H2 & H3). split; [exact H2|]. split; [exact H1|].
    rewrite H3. unfold mid_sign. destruct (Rcompare_spec ((B2R a + B2R b) / 2) 0) as [H|H|H]; try reflexivity.
    apply Hz. lra. }
  destruct a as [sa|sa| |sa ma ea Ha]; try discriminate Fa;
  destruct b as [sb|sb| |sb mb eb Hb]; try discriminate Fb; cbn [spec_midpoint].
  - exists (B754_zero (sa && sb)). split; [reflexivity|]. split; [reflexivity|]. split.
    + cbn [B2R]. rewrite Rplus_0_l. unfold Rdiv. rewrite Rmult_0_l, round_0 by typeclasses eauto. reflexivity.
    + unfold mid_sign. cbn [B2R Bsign]. rewrite Rcompare_Eq by lra. reflexivity.
  - eexists. split; [reflexivity|]. apply Hnorm.
    + cbn [B2R]. rewrite Rplus_0_l. unfold F2R. cbn [Fnum Fexp]. unfold Zminus. rewrite bpow_plus.
      destruct sb; cbn; lra.
    + cbn [B2R]. rewrite Rplus_0_l. intros H. exfalso. revert H. destruct sb.
      * apply Rlt_not_eq. apply F2R_lt_0. reflexivity.
      * apply Rgt_not_eq. apply F2R_gt_0. reflexivity.
  - eexists. split; [reflexivity|]. apply Hnorm.
    + cbn [B2R]. rewrite Rplus_0_r. unfold F2R. cbn [Fnum Fexp]. unfold Zminus. rewrite bpow_plus.
      destruct sa; cbn; lra.
    + cbn [B2R]. rewrite Rplus_0_r. intros H. exfalso. revert H. destruct sa.
      * apply Rlt_not_eq. apply F2R_lt_0. reflexivity.
      * apply Rgt_not_eq. apply F2R_gt_0. reflexivity.
  - eexists. split; [reflexivity|]. apply Hnorm.
    + cbn [B2R]. rewrite <- (F2R_align sa ma ea (Z.min ea eb)), <- (F2R_align sb mb eb (Z.min ea eb)) by lia.
      unfold F2R. cbn [Fnum Fexp]. rewrite plus_IZR. unfold Zminus. rewrite bpow_plus. cbn. lra.
    + (* the operands cancel: their signs differ *)
      intros H0.
      assert (Sa := Bsign_finite prec emax (B754_finite sa ma ea Ha) eq_refl).
      assert (Sb := Bsign_finite prec emax (B754_finite sb mb eb Hb) eq_refl).
      assert (Na : B2R (B754_finite sa ma ea Ha) <> 0).
      { cbn [B2R]. destruct sa; [apply Rlt_not_eq, F2R_lt_0|apply Rgt_not_eq, F2R_gt_0]; reflexivity. }
      assert (Nb : B2R (B754_finite sb mb eb Hb) <> 0).
      { cbn [B2R]. destruct sb; [apply Rlt_not_eq, F2R_lt_0|apply Rgt_not_eq, F2R_gt_0]; reflexivity. }
      rewrite (Sa Na), (Sb Nb).
      destruct (Rlt_bool_spec (B2R (B754_finite sa ma ea Ha)) 0), (Rlt_bool_spec (B2R (B754_finite sb mb eb Hb)) 0);
        try reflexivity; exfalso; lra.
Qed.

(** ** the code side *)
Lemma fdiv2_sign :
  forall x : fl, is_finite x = true ->
  B2R (fdiv x two) = rnd (B2R x / 2) /\ is_finite (fdiv x two) = true /\ Bsign (fdiv x two) = Bsign x.
Proof.
  intros x Fx. destruct two_correct as [T1 T2].
  destruct (of_Z_correct prec emax Hp Hpe Hprec2 2) as (_ & _ & T3).
  { change (Z.abs 2) with (2 ^ 1)%Z. apply Z.pow_lt_mono_r; lia. }
  rewrite Rlt_bool_false in T3 by lra.
  destruct (fdiv2_correct x Fx) as [D1 D2].
  generalize (Bdiv_correct prec emax Hp Hpe mode_NE x two). rewrite T1.
  intros H. specialize (H ltac:(lra)). cbn [round_mode] in H.
  rewrite Rlt_bool_true in H.
  - destruct H as (H1 & H2 & H3). unfold Model.fdiv. split; [exact H1|]. split; [exact D1|].
    rewrite H3, T3, xorb_false_r; [reflexivity|]. 
    change (Bdiv mode_NE x two) with (fdiv x two). destruct (fdiv x two); try discriminate D1; reflexivity.
  - apply Rle_lt_trans with (2 := Mx_lt).
    apply abs_round_le_generic; try typeclasses eauto; [exact format_Mx|].
    unfold Rdiv. rewrite Rabs_mult, (Rabs_pos_eq (/ 2)) by lra. generalize (fin_le_Mx x) Mx_pos. lra.
Qed.

(* both operands at most max / 2: (a + b) / 2 *)
Lemma mid_branch_sum :
  forall a b : fl, is_finite a = true -> is_finite b = true ->
  Rabs (B2R a) <= Mx / 2 -> Rabs (B2R b) <= Mx / 2 ->
  mid_of a b (fdiv (fadd a b) two).
Proof.
  intros a b Fa Fb Ha Hb. set (s := B2R a + B2R b).
  assert (Hs : Rabs s <= Mx) by (unfold s; eapply Rle_trans; [apply Rabs_triang|lra]).
  generalize (Bplus_correct prec emax Hp Hpe mode_NE a b Fa Fb). fold s. cbn [round_mode].
  rewrite Rlt_bool_true.
  2:{ apply Rle_lt_trans with (2 := Mx_lt). apply abs_round_le_generic; try typeclasses eauto; [exact format_Mx|exact Hs]. }
  intros (P1 & P2 & P3). change (Bplus mode_NE a b) with (fadd a b) in P1, P2, P3.
  destruct (fdiv2_sign (fadd a b) P2) as (D1 & D2 & D3).
  split; [exact D2|]. split.
  - rewrite D1, P1. fold s.
    destruct (Rle_dec (Rabs s) (bpow radix2 (prec + emin))) as [Small|Big].
    + rewrite (round_generic radix2 fexp ZnearestE s); [reflexivity|].
      unfold s. apply (FLT_format_plus_small radix2 emin prec); try exact Hp; try apply generic_format_B2R.
      exact Small.
    + assert (Hm : (emin + prec + 1 <= mag radix2 s)%Z).
      { assert (bpow radix2 (prec + emin) <= Rabs s) by lra.
        generalize (mag_gt_bpow radix2 s (prec + emin) H). lia. }
      rewrite (rnd_half s Hm). apply round_generic; [typeclasses eauto|].
      rewrite <- (rnd_half s Hm). apply generic_format_round; typeclasses eauto.
  - rewrite D3, P3. unfold mid_sign. fold s. rewrite Rcompare_half. reflexivity.
Qed.

(* both operands at least 2 min: a / 2 + b / 2, the halves are exact *)
Lemma mid_branch_halves :
  forall a b : fl, is_finite a = true -> is_finite b = true ->
  bpow radix2 (3 - emax) <= Rabs (B2R a) -> bpow radix2 (3 - emax) <= Rabs (B2R b) ->
  mid_of a b (fadd (fdiv a two) (fdiv b two)).
Proof.
  intros a b Fa Fb Ha Hb.
  destruct (fdiv2_sign a Fa) as (A1 & A2 & A3). destruct (fdiv2_sign b Fb) as (B1 & B2 & B3).
  rewrite round_generic in A1 by (first [typeclasses eauto | apply format_half; [apply generic_format_B2R|apply mag_ge_lo; exact Ha]]).
  rewrite round_generic in B1 by (first [typeclasses eauto | apply format_half; [apply generic_format_B2R|apply mag_ge_lo; exact Hb]]).
  generalize (Bplus_correct prec emax Hp Hpe mode_NE _ _ A2 B2). rewrite A1, B1. cbn [round_mode].
  replace (B2R a / 2 + B2R b / 2) with ((B2R a + B2R b) / 2) by lra.
  rewrite Rlt_bool_true by apply rnd_half_sum_lt.
  intros (P1 & P2 & P3). split; [exact P2|]. split; [exact P1|].
  unfold Model.fadd. rewrite P3, A3, B3. reflexivity.
Qed.

(** ** the corner: one operand above max / 2, the other below 2 min.  In every format with
    prec + 7 <= 2 emax (all IEEE formats) the small operand is far below a quarter ulp of half the
    large one, so both a + b/2 and (a + b)/2 round to b/2. *)
Section Corner.
Hypothesis Hwide : (prec + 7 <= 2 * emax)%Z.

Lemma rnd_absorb_pos :
  forall x d, format x -> bpow radix2 (emax - 3) <= x -> Rabs d < bpow radix2 (3 - emax) -> rnd (x + d) = x.
Proof.
  intros x d Fx Hx Hd.
  assert (Px : 0 < x) by (apply Rlt_le_trans with (2 := Hx); apply bpow_gt_0).
  assert (Hmag : (emax - 2 <= mag radix2 x)%Z).
  { apply mag_ge_bpow. rewrite Rabs_pos_eq by lra. replace (emax - 2 - 1)%Z with (emax - 3)%Z by ring. exact Hx. }
  (* every gap around x is at least 2^(mag x - 1 - prec) > 2 |d| *)
  set (g := bpow radix2 (mag radix2 x - 1 - prec)).
  assert (Hg : 2 * Rabs d < g).
  { apply Rlt_le_trans with (2 * bpow radix2 (3 - emax)); [lra|].
    change 2 with (bpow radix2 1) at 1. rewrite <- bpow_plus. apply bpow_le. lia. }
  assert (Hfexp : forall e, (e - prec <= fexp e)%Z) by (intros e; unfold SpecFloat.fexp; lia).
  assert (Hulp : g <= ulp radix2 fexp x).
  { rewrite ulp_neq_0 by lra. apply bpow_le. unfold cexp. generalize (Hfexp (mag radix2 x)). lia. }
  assert (Hd' : - Rabs d <= d <= Rabs d) by (split; [generalize (Rle_abs (- d)); rewrite Rabs_Ropp; lra|apply Rle_abs]).
  assert (Gpos : 0 < g) by apply bpow_gt_0.
  apply Rle_antisym.
  - apply round_N_le_midp; [typeclasses eauto|exact Fx|].
    rewrite succ_eq_pos by lra. lra.
  - apply round_N_ge_midp; [typeclasses eauto|exact Fx|].
    rewrite pred_eq_pos by lra. unfold pred_pos.
    destruct (Req_bool x (bpow radix2 (mag radix2 x - 1))).
    + assert (g <= bpow radix2 (fexp (mag radix2 x - 1))).
      { apply bpow_le. generalize (Hfexp (mag radix2 x - 1)%Z). lia. }
      lra.
    + lra.
Qed.

Lemma rnd_absorb :
  forall x d, format x -> bpow radix2 (emax - 3) <= Rabs x -> Rabs d < bpow radix2 (3 - emax) -> rnd (x + d) = x.
Proof.
  intros x d Fx Hx Hd. destruct (Rle_dec 0 x) as [P|N].
  - rewrite Rabs_pos_eq in Hx by exact P. apply rnd_absorb_pos; assumption.
  - rewrite Rabs_left in Hx by lra.
    replace (x + d) with (- (- x + - d)) by ring. rewrite round_NE_opp.
    rewrite rnd_absorb_pos; [ring|apply generic_format_opp; exact Fx|exact Hx|rewrite Rabs_Ropp; exact Hd].
Qed.

Lemma half_Mx_ge : bpow radix2 (emax - 2) <= Mx / 2.
Proof.
  generalize Mx_ge. replace (emax - 1)%Z with (emax - 2 + 1)%Z by ring. rewrite bpow_plus_1.
  change (IZR radix2) with 2. lra.
Qed.

(* a below 2 min, b above max / 2:  a + b / 2 *)
Lemma mid_branch_corner :
  forall a b : fl, is_finite a = true -> is_finite b = true ->
  Rabs (B2R a) < bpow radix2 (3 - emax) -> Mx / 2 < Rabs (B2R b) ->
  mid_of a b (fadd a (fdiv b two)) /\ mid_of b a (fadd (fdiv b two) a).
Proof.
  intros a b Fa Fb Ha Hb.
  generalize half_Mx_ge. intros HM.
  assert (Hmb : (emin + prec + 1 <= mag radix2 (B2R b))%Z).
  { apply mag_ge_lo. apply Rle_trans with (bpow radix2 (emax - 2)); [apply bpow_le; lia|lra]. }
  assert (Fh : format (B2R b / 2)) by (apply format_half; [apply generic_format_B2R|exact Hmb]).
  destruct (fdiv2_sign b Fb) as (B1 & B2 & B3).
  rewrite round_generic in B1 by (first [typeclasses eauto|exact Fh]).
  assert (Hbig : bpow radix2 (emax - 3) <= Rabs (B2R b / 2)).
  { unfold Rdiv. rewrite Rabs_mult, (Rabs_pos_eq (/ 2)) by lra.
    replace (emax - 2)%Z with (emax - 3 + 1)%Z in HM by ring. rewrite bpow_plus_1 in HM.
    change (IZR radix2) with 2 in HM. lra. }
  (* the code's value and the specification's value are both b / 2 *)
  assert (E1 : rnd (B2R a + B2R b / 2) = B2R b / 2).
  { rewrite Rplus_comm. apply rnd_absorb; assumption. }
  assert (E2 : rnd ((B2R a + B2R b) / 2) = B2R b / 2).
  { replace ((B2R a + B2R b) / 2) with (B2R b / 2 + B2R a / 2) by lra. apply rnd_absorb; [exact Fh|exact Hbig|].
    unfold Rdiv. rewrite Rabs_mult, (Rabs_pos_eq (/ 2)) by lra. generalize (Rabs_pos (B2R a)). lra. }
  assert (Nb : B2R b / 2 <> 0).
  { intros Z. rewrite Z, Rabs_R0 in Hbig. generalize (bpow_gt_0 radix2 (emax - 3)). lra. }
  (* signs: the sum has the sign of b *)
  assert (Hsgn : Rcompare (B2R a + B2R b / 2) 0 = Rcompare ((B2R a + B2R b) / 2) 0).
  { assert (Rabs (B2R a) < Rabs (B2R b / 2)).
    { apply Rlt_le_trans with (2 := Hbig). apply Rlt_le_trans with (1 := Ha). apply bpow_le. lia. }
    destruct (Rle_dec 0 (B2R b)) as [Pb|Nb'].
    - rewrite (Rabs_pos_eq (B2R b / 2)) in H by lra.
      assert (- Rabs (B2R a) <= B2R a) by (generalize (Rle_abs (- B2R a)); rewrite Rabs_Ropp; lra).
      rewrite !Rcompare_Gt by lra. reflexivity.
    - rewrite (Rabs_left (B2R b / 2)) in H by lra.
      assert (B2R a <= Rabs (B2R a)) by apply Rle_abs.
      rewrite !Rcompare_Lt by lra. reflexivity. }
  assert (Hlt : Rabs (rnd (B2R a + B2R b / 2)) < bpow radix2 emax).
  { rewrite E1, <- E2. apply rnd_half_sum_lt. }
  split.
  - generalize (Bplus_correct prec emax Hp Hpe mode_NE a (fdiv b two) Fa B2). rewrite B1. cbn [round_mode].
    rewrite Rlt_bool_true by exact Hlt.
    intros (P1 & P2 & P3). split; [exact P2|]. split; [rewrite E2, <- E1; exact P1|].
    unfold Model.fadd. rewrite P3. unfold mid_sign. rewrite Hsgn.
    destruct (Rcompare_spec ((B2R a + B2R b) / 2) 0) as [H|H|H]; try reflexivity.
    exfalso. rewrite <- E2 in Nb. apply Nb. rewrite H. apply round_0. typeclasses eauto.
  - generalize (Bplus_correct prec emax Hp Hpe mode_NE (fdiv b two) a B2 Fa). rewrite B1. cbn [round_mode].
    rewrite (Rplus_comm (B2R b / 2) (B2R a)).
    rewrite Rlt_bool_true by exact Hlt.
    intros (P1 & P2 & P3). split; [exact P2|]. split.
    + rewrite (Rplus_comm (B2R b) (B2R a)), E2, <- E1. exact P1.
    + unfold Model.fadd. rewrite P3. unfold mid_sign. rewrite (Rplus_comm (B2R b) (B2R a)), Hsgn.
      destruct (Rcompare_spec ((B2R a + B2R b) / 2) 0) as [H|H|H]; try reflexivity.
      exfalso. rewrite <- E2 in Nb. apply Nb. rewrite H. apply round_0. typeclasses eauto.
Qed.

(* the full statement: for every pair of finite operands midpoint is the correctly rounded (a + b) / 2 *)
Theorem e_midpoint_exact :
  forall a b : fl, is_finite a = true -> is_finite b = true ->
  spec_midpoint prec emax Hp Hpe a b = Some (e_midpoint prec emax Hp Hpe a b).
Proof.
  intros a b Fa Fb.
  destruct (spec_midpoint_mid_of a b Fa Fb) as (z & Hz & Mz). rewrite Hz. f_equal.
  apply (mid_of_unique a b _ _ Mz).
  unfold e_midpoint. cbv zeta.
  destruct hi_correct as [H1 H2]. destruct lo_correct as [L1 L2].
  destruct (eabs_correct a Fa) as [A1 A2]. destruct (eabs_correct b Fb) as [B1 B2].
  unfold fle, flt.
  rewrite (Bleb_correct _ _ (eabs a) _ A2 H2), (Bleb_correct _ _ (eabs b) _ B2 H2), A1, B1, H1.
  rewrite (Bltb_correct _ _ (eabs a) _ A2 L2), (Bltb_correct _ _ (eabs b) _ B2 L2), A1, B1, L1.
  generalize lo_le_half_Mx. intros LH.
  destruct (Rle_bool_spec (Rabs (B2R a)) (Mx / 2)) as [Ha|Ha];
  [destruct (Rle_bool_spec (Rabs (B2R b)) (Mx / 2)) as [Hb|Hb]|]; cbn [andb].
  - apply mid_branch_sum; assumption.
  - destruct (Rlt_bool_spec (Rabs (B2R a)) (bpow radix2 (3 - emax))) as [Sa|Sa].
    + apply (mid_branch_corner a b Fa Fb Sa Hb).
    + rewrite Rlt_bool_false by lra. apply mid_branch_halves; try assumption. lra.
  - rewrite Rlt_bool_false by lra.
    destruct (Rlt_bool_spec (Rabs (B2R b)) (bpow radix2 (3 - emax))) as [Sb|Sb].
    + apply (mid_branch_corner b a Fb Fa Sb Ha).
    + apply mid_branch_halves; try assumption. lra.
Qed.

End Corner.

Theorem e_midpoint_exact_partial :
  forall a b : fl, is_finite a = true -> is_finite b = true ->
  (Rabs (B2R a) <= Mx / 2 /\ Rabs (B2R b) <= Mx / 2) \/
  (bpow radix2 (3 - emax) <= Rabs (B2R a) /\ bpow radix2 (3 - emax) <= Rabs (B2R b)) ->
  spec_midpoint prec emax Hp Hpe a b = Some (e_midpoint prec emax Hp Hpe a b).
Proof.
  intros a b Fa Fb Hdom.
  destruct (spec_midpoint_mid_of a b Fa Fb) as (z & Hz & Mz). rewrite Hz. f_equal.
  apply (mid_of_unique a b _ _ Mz).
  unfold e_midpoint. cbv zeta.
  destruct hi_correct as [H1 H2]. destruct lo_correct as [L1 L2].
  destruct (eabs_correct a Fa) as [A1 A2]. destruct (eabs_correct b Fb) as [B1 B2].
  unfold fle, flt.
  rewrite (Bleb_correct _ _ (eabs a) _ A2 H2), (Bleb_correct _ _ (eabs b) _ B2 H2), A1, B1, H1.
  rewrite (Bltb_correct _ _ (eabs a) _ A2 L2), (Bltb_correct _ _ (eabs b) _ B2 L2), A1, B1, L1.
  destruct (Rle_bool_spec (Rabs (B2R a)) (Mx / 2)) as [Ha|Ha];
  [destruct (Rle_bool_spec (Rabs (B2R b)) (Mx / 2)) as [Hb|Hb]|]; cbn [andb].
  - apply mid_branch_sum; assumption.
  - destruct Hdom as [[_ Hb']|[La Lb]]; [exfalso; lra|].
    rewrite Rlt_bool_false by exact La. rewrite Rlt_bool_false by exact Lb.
    apply mid_branch_halves; assumption.
  - destruct Hdom as [[Ha' _]|[La Lb]]; [exfalso; lra|].
    rewrite Rlt_bool_false by exact La. rewrite Rlt_bool_false by exact Lb.
    apply mid_branch_halves; assumption.
Qed.

End Fmt.
