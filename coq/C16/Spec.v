(* C16 — specification: what ISO C (7.12, Annex F) / IEC 60559 say, through Flocq.
   All NaNs are identified (BinarySingleNaN).  Nothing here mentions how etl computes. *)
From Coq Require Import ZArith Bool Lia.
From Flocq Require Import Core BinarySingleNaN.
From Tetl Require Import Lib.Base.
Local Open Scope Z_scope.

Section Fmt.
Variables prec emax : Z.
Context (prec_gt_0_ : Prec_gt_0 prec) (prec_lt_emax_ : Prec_lt_emax prec emax).
Notation fl := (binary_float prec emax).

(** * rounding to an integral value in floating-point format (F.10.6) *)
Definition spec_floor (x : fl) : fl := Bnearbyint mode_DN x.
Definition spec_ceil (x : fl) : fl := Bnearbyint mode_UP x.
Definition spec_trunc (x : fl) : fl := Bnearbyint mode_ZR x.
Definition spec_round (x : fl) : fl := Bnearbyint mode_NA x.    (* halfway cases away from zero *)
Definition spec_rint (x : fl) : fl := Bnearbyint mode_NE x.     (* default rounding direction *)

(* lrint / llrint (7.12.9.5): the rounded value if it is representable in a w-bit signed
   integer; otherwise (also NaN, infinity) the result is unspecified: None *)
Definition spec_lrint (w : Z) (x : fl) : option Z :=
  match x with
  | B754_nan | B754_infinity _ => None
  | _ => let z := Btrunc (Bnearbyint mode_NE x) in if in_s w z then Some z else None
  end.

(** * sign and classification *)
Definition spec_signbit (x : fl) : bool := Bsign x.
Definition spec_fabs (x : fl) : fl := Babs x.
Definition with_sign (s : bool) (x : fl) : fl :=
  match x with
  | B754_zero _ => B754_zero s
  | B754_infinity _ => B754_infinity s
  | B754_nan => B754_nan
  | B754_finite _ m e H => B754_finite s m e H
  end.
Definition spec_copysign (x y : fl) : fl := with_sign (Bsign y) x.
Definition spec_isnan (x : fl) : bool := is_nan x.
Definition spec_isinf (x : fl) : bool := match x with B754_infinity _ => true | _ => false end.
Definition spec_isfinite (x : fl) : bool := is_finite x.

(** * fmin / fmax (F.10.9.2-3): a NaN is missing data.  For operands that compare equal (only
    +0 / -0 differ) C allows either; the first operand is chosen. *)
Definition spec_fmin (x y : fl) : fl :=
  if is_nan y then x else if is_nan x then y
  else match Bcompare x y with Some Gt => y | _ => x end.
Definition spec_fmax (x y : fl) : fl :=
  if is_nan y then x else if is_nan x then y
  else match Bcompare x y with Some Lt => y | _ => x end.

(** * fdim (7.12.12.1, F.10.9.1): x - y if x > y, +0 if x <= y, NaN if unordered *)
Definition spec_fdim (x y : fl) : fl :=
  match Bcompare x y with
  | None => B754_nan
  | Some Gt => Bminus mode_NE x y
  | Some _ => B754_zero false
  end.

(** * nextafter (7.12.11.3, F.10.8.3) *)
Definition spec_nextafter (x y : fl) : fl :=
  match Bcompare x y with
  | None => B754_nan
  | Some Eq => y
  | Some Lt => Bsucc x
  | Some Gt => Bpred x
  end.

(** * fmod and remainder (F.10.7.1-2): exact, computed on the integer significands.
    x = (-1)^sx mx 2^ex, y = my 2^ey;  with e = min ex ey,  X = mx 2^(ex-e), Y = my 2^(ey-e). *)
Definition of_exact (s : bool) (m e : Z) : fl :=
  if m =? 0 then B754_zero s
  else binary_normalize prec emax _ _ mode_NE (if s then - m else m) e s.

Definition spec_fmod (x y : fl) : fl :=
  match x, y with
  | B754_nan, _ | _, B754_nan => B754_nan
  | B754_infinity _, _ => B754_nan
  | _, B754_zero _ => B754_nan
  | _, B754_infinity _ => x
  | B754_zero _, _ => x
  | B754_finite sx mx ex _, B754_finite _ my ey _ =>
      let e := Z.min ex ey in
      let X := Zpos mx * 2 ^ (ex - e) in
      let Y := Zpos my * 2 ^ (ey - e) in
      of_exact sx (X mod Y) e
  end.

(* IEC 60559 remainder: x - n y, n the integer nearest to x/y, ties to even; a zero result has
   the sign of x *)
Definition spec_remainder (x y : fl) : fl :=
  match x, y with
  | B754_nan, _ | _, B754_nan => B754_nan
  | B754_infinity _, _ => B754_nan
  | _, B754_zero _ => B754_nan
  | _, B754_infinity _ => x
  | B754_zero _, _ => x
  | B754_finite sx mx ex _, B754_finite _ my ey _ =>
      let e := Z.min ex ey in
      let X := Zpos mx * 2 ^ (ex - e) in
      let Y := Zpos my * 2 ^ (ey - e) in
      let q := X / Y in
      let r := X mod Y in
      let r' := if (Y <? 2 * r) || ((Y =? 2 * r) && Z.odd q) then r - Y else r in
      (* the magnitude |r'| <= Y/2 with the sign of x when r' >= 0, the opposite sign otherwise *)
      if r' =? 0 then B754_zero sx
      else of_exact (xorb sx (r' <? 0)) (Z.abs r') e
  end.

(** * midpoint ([numeric.ops.midpoint]): half the sum, no overflow; for finite operands the
    correctly rounded value of the exact (a + b) / 2 *)
Definition spec_midpoint (a b : fl) : option fl :=
  match a, b with
  | B754_zero sa, B754_zero sb => Some (B754_zero (sa && sb))
  | B754_zero _, B754_finite s m e _ | B754_finite s m e _, B754_zero _ =>
      Some (binary_normalize prec emax _ _ mode_NE (if s then Zneg m else Zpos m) (e - 1) s)
  | B754_finite sa ma ea _, B754_finite sb mb eb _ =>
      let e := Z.min ea eb in
      let A := (if sa then -1 else 1) * Zpos ma * 2 ^ (ea - e) in
      let B := (if sb then -1 else 1) * Zpos mb * 2 ^ (eb - e) in
      Some (binary_normalize prec emax _ _ mode_NE (A + B) (e - 1) false)
  | _, _ => None
  end.

(** * lerp ([c.math.lerp]): for finite a, b:  lerp(a,b,0) == a,  lerp(a,b,1) == b;
    for finite t and a == b: lerp(a,b,t) == a.  Only these exactness cases are specified
    here (as a value up to the sign of zero: the standard states them with ==). *)
Definition spec_lerp_exact (a b t : fl) : option fl :=
  if is_finite a && is_finite b then
    if Beqb t (B754_zero false) then Some a
    else if Beqb t (binary_normalize prec emax _ _ mode_NE 1 0 false) then Some b
    else if is_finite t && Beqb a b then Some a
    else None
  else None.

(** * hypot (F.10.4.3): +inf if an argument is infinite (even if the other is a NaN), else NaN if
    an argument is a NaN.  None = no special case applies. *)
Definition spec_hypot_special (x y : fl) : option fl :=
  match x, y with
  | B754_infinity _, _ | _, B754_infinity _ => Some (B754_infinity false)
  | B754_nan, _ | _, B754_nan => Some B754_nan
  | _, _ => None
  end.
Definition spec_hypot3_special (x y z : fl) : option fl :=
  match x, y, z with
  | B754_infinity _, _, _ | _, B754_infinity _, _ | _, _, B754_infinity _ => Some (B754_infinity false)
  | B754_nan, _, _ | _, B754_nan, _ | _, _, B754_nan => Some B754_nan
  | _, _, _ => None
  end.

(** * rint / lrint in the CURRENT rounding direction (7.12.9.4-5, F.10.6.4: "rounds according to the
    current rounding direction"); md is the fegetround() class: 1 = FE_DOWNWARD, 2 = FE_UPWARD,
    3 = FE_TOWARDZERO, anything else = FE_TONEAREST (ties to even) *)
Definition mode_of_fe (md : Z) : mode :=
  if md =? 1 then mode_DN else if md =? 2 then mode_UP else if md =? 3 then mode_ZR else mode_NE.
Definition spec_rint_rm (md : Z) (x : fl) : fl := Bnearbyint (mode_of_fe md) x.
Definition spec_lrint_rm (w md : Z) (x : fl) : option Z :=
  match x with
  | B754_nan | B754_infinity _ => None
  | _ => let z := Btrunc (Bnearbyint (mode_of_fe md) x) in if in_s w z then Some z else None
  end.

End Fmt.

(** * IEC 60559 5.5.1 sign-bit operations on the encoding: abs sets the sign bit to 0, copySign takes
    it from the second operand, for EVERY operand (NaNs of either sign and any payload included);
    isSignMinus / C signbit reads it.  [w] = width of the encoding, bit w-1 = sign. *)
Definition spec_raw_fabs (w b : Z) : Z := b mod 2 ^ (w - 1).
Definition spec_raw_copysign (w x y : Z) : Z := x mod 2 ^ (w - 1) + 2 ^ (w - 1) * (y / 2 ^ (w - 1)).
Definition spec_raw_signbit (w b : Z) : bool := 2 ^ (w - 1) <=? b.
