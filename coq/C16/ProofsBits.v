(* C16 — the sign-bit operations on the raw encoding (NaN sign and payload included):
   abs_impl, copysign_fallback, signbit_fallback against IEC 60559 5.5.1 / C signbit. *)
From Coq Require Import ZArith Bool Lia.
From Tetl Require Import Lib.Base C16.Model C16.Spec.
Local Open Scope Z_scope.
Ltac Zify.zify_post_hook ::= Z.to_euclidean_division_equations.

Section Raw.
Variable w : Z.
Hypothesis Hw : 1 <= w.
Let p := 2 ^ (w - 1).

Lemma p_pos : 0 < p.
Proof. unfold p. apply Z.pow_pos_nonneg; lia. Qed.

Lemma pow_w : 2 ^ w = 2 * p.
Proof. unfold p. replace w with (1 + (w - 1)) at 1 by lia. rewrite Z.pow_add_r by lia. reflexivity. Qed.

(* the top bit of a w-bit pattern *)
Lemma testbit_top : forall b, 0 <= b < 2 ^ w -> Z.testbit b (w - 1) = (p <=? b).
Proof.
  intros b Hb. rewrite pow_w in Hb. pose proof p_pos as Hp.
  rewrite Z.testbit_eqb by lia. fold p.
  destruct (p <=? b) eqn:E; [apply Z.leb_le in E|apply Z.leb_gt in E].
  - assert (b / p = 1) by (symmetry; apply Z.div_unique with (b - p); lia).
    rewrite H. reflexivity.
  - rewrite Z.div_small by lia. reflexivity.
Qed.

Theorem raw_signbit_exact : forall b, 0 <= b < 2 ^ w ->
  raw_signbit w b = spec_raw_signbit w b /\ raw_e_signbit_fb w b = spec_raw_signbit w b.
Proof.
  intros b Hb. unfold raw_signbit, raw_e_signbit_fb, e_signbit_bits, spec_raw_signbit. fold p.
  split; [apply testbit_top; exact Hb|].
  rewrite pow_w in Hb. pose proof p_pos as Hp.
  rewrite Z.shiftr_div_pow2 by lia. fold p.
  destruct (p <=? b) eqn:E; [apply Z.leb_le in E|apply Z.leb_gt in E].
  - assert (b / p = 1) by (symmetry; apply Z.div_unique with (b - p); lia). rewrite H. reflexivity.
  - rewrite Z.div_small by lia. reflexivity.
Qed.

Theorem raw_e_abs_exact : forall b, 0 <= b < 2 ^ w ->
  raw_e_abs w b = spec_raw_fabs w b /\ 0 <= raw_e_abs w b < p.
Proof.
  intros b Hb. unfold raw_e_abs, raw_neg, raw_signbit, spec_raw_fabs. fold p.
  rewrite testbit_top by exact Hb. rewrite pow_w in Hb. pose proof p_pos as Hp.
  destruct (p <=? b) eqn:E; [apply Z.leb_le in E|apply Z.leb_gt in E].
  - assert (b mod p = b - p) by (symmetry; apply Z.mod_unique with 1; lia). lia.
  - rewrite Z.mod_small by lia. lia.
Qed.

Theorem raw_e_copysign_fb_exact : forall x y, 0 <= x < 2 ^ w -> 0 <= y < 2 ^ w ->
  raw_e_copysign_fb w x y = spec_raw_copysign w x y.
Proof.
  intros x y Hx Hy. unfold raw_e_copysign_fb, raw_neg, raw_signbit, spec_raw_copysign. fold p.
  rewrite !testbit_top by assumption. rewrite pow_w in Hx, Hy. pose proof p_pos as Hp.
  destruct (p <=? x) eqn:Ex; [apply Z.leb_le in Ex|apply Z.leb_gt in Ex];
  destruct (p <=? y) eqn:Ey; [apply Z.leb_le in Ey|apply Z.leb_gt in Ey| |]; cbn [eqb negb].
  - assert (x mod p = x - p) by (symmetry; apply Z.mod_unique with 1; lia).
    assert (y / p = 1) by (symmetry; apply Z.div_unique with (y - p); lia). lia.
  - assert (x mod p = x - p) by (symmetry; apply Z.mod_unique with 1; lia).
    rewrite (Z.div_small y) by lia. lia.
  - apply Z.leb_le in Ey. rewrite (Z.mod_small x) by lia.
    assert (y / p = 1) by (symmetry; apply Z.div_unique with (y - p); lia). lia.
  - apply Z.leb_gt in Ey. rewrite (Z.mod_small x) by lia. rewrite (Z.div_small y) by lia. lia.
Qed.

End Raw.

(** * the raw model agrees with the value-level model: decoding the result of [raw_e_abs] / [raw_e_copysign_fb] gives
    [e_abs] / [e_copysign_fb] of the decoded operands (interchange formats: binary32, binary64). *)
From Flocq Require Import Core BinarySingleNaN.
From Flocq Require Binary Bits.

Section Tie.
Variables mw ew : Z.
Hypothesis Hmw : 0 < mw.
Hypothesis Hew : 0 < ew.
Let cemax := 2 ^ (ew - 1).
Let cprec := mw + 1.
Hypothesis Hmax : cprec < cemax.
Let w := mw + ew + 1.
Notation fl := (binary_float cprec cemax).
Notation decw := (dec mw ew Hmw Hew Hmax).

(* the same value with another sign, on Flocq's structural floats *)
Definition sf_with_sign (s : bool) (x : SpecFloat.spec_float) : SpecFloat.spec_float :=
  match x with
  | SpecFloat.S754_zero _ => SpecFloat.S754_zero s
  | SpecFloat.S754_infinity _ => SpecFloat.S754_infinity s
  | SpecFloat.S754_nan => SpecFloat.S754_nan
  | SpecFloat.S754_finite _ m e => SpecFloat.S754_finite s m e
  end.

Lemma B2SF_dec : forall z, B2SF (decw z) = Binary.FF2SF (Bits.binary_float_of_bits_aux mw ew z).
Proof.
  intros z. unfold dec. rewrite Binary.B2SF_B2BSN. unfold Bits.binary_float_of_bits.
  apply Binary.B2SF_FF2B.
Qed.

(* the decoded value depends on the sign field only through the sign *)
Lemma aux_join : forall s m e, 0 <= m < 2 ^ mw -> 0 <= e < 2 ^ ew ->
  Binary.FF2SF (Bits.binary_float_of_bits_aux mw ew (Bits.join_bits mw ew s m e)) =
  sf_with_sign s (Binary.FF2SF (Bits.binary_float_of_bits_aux mw ew (Bits.join_bits mw ew false m e))).
Proof.
  intros s m e Hm He. unfold Bits.binary_float_of_bits_aux.
  rewrite !Bits.split_join_bits by (try assumption; lia).
  destruct (Zeq_bool e 0).
  - destruct m; reflexivity.
  - destruct (Zeq_bool e (2 ^ ew - 1)).
    + destruct m; reflexivity.
    + destruct (m + 2 ^ mw); reflexivity.
Qed.

Lemma w_pos : 1 <= w. Proof. unfold w. lia. Qed.

Lemma pow_split : 2 ^ (w - 1) = 2 ^ mw * 2 ^ ew.
Proof. unfold w. replace (mw + ew + 1 - 1) with (mw + ew) by lia. apply Z.pow_add_r; lia. Qed.

(* a pattern is its three fields; the sign field is the top bit *)
Lemma pattern_fields : forall b, 0 <= b < 2 ^ w ->
  exists m e, 0 <= m < 2 ^ mw /\ 0 <= e < 2 ^ ew /\
    b = Bits.join_bits mw ew (raw_signbit w b) m e /\
    b mod 2 ^ (w - 1) = Bits.join_bits mw ew false m e.
Proof.
  intros b Hb.
  pose proof (Bits.join_split_bits mw ew Hmw Hew b Hb) as J.
  unfold Bits.split_bits in J.
  set (m := b mod 2 ^ mw) in *. set (e := (b / 2 ^ mw) mod 2 ^ ew) in *.
  assert (Pm : 0 < 2 ^ mw) by (apply Z.pow_pos_nonneg; lia).
  assert (Pe : 0 < 2 ^ ew) by (apply Z.pow_pos_nonneg; lia).
  assert (Hm : 0 <= m < 2 ^ mw) by (apply Z.mod_pos_bound; exact Pm).
  assert (He : 0 <= e < 2 ^ ew) by (apply Z.mod_pos_bound; exact Pe).
  exists m, e. split; [exact Hm|]. split; [exact He|].
  assert (Hs : raw_signbit w b = (2 ^ mw * 2 ^ ew <=? b)).
  { unfold raw_signbit. rewrite (testbit_top w w_pos b Hb). rewrite pow_split. reflexivity. }
  rewrite Hs. split; [symmetry; exact J|].
  (* clearing the top bit *)
  pose proof (Bits.join_bits_range mw ew false m e Hm He) as R.
  unfold Bits.join_bits in *. rewrite !Z.shiftl_mul_pow2 in * by lia.
  rewrite pow_split.
  destruct (2 ^ mw * 2 ^ ew <=? b) eqn:E.
  - apply Z.leb_le in E. symmetry. apply Z.mod_unique with 1; [nia|]. rewrite <- J. ring.
  - apply Z.leb_gt in E. rewrite <- J at 1. apply Z.mod_small. nia.
Qed.

Lemma e_abs_sf : forall x : fl, B2SF (e_abs cprec cemax x) = sf_with_sign false (B2SF x).
Proof. intros [s|s| |s m e H]; try (destruct s; reflexivity). reflexivity. Qed.

Lemma sf_with_sign_idem : forall s t x, sf_with_sign s (sf_with_sign t x) = sf_with_sign s x.
Proof. now intros s t [ | | | ]. Qed.

Lemma sf_with_sign_false_join : forall m e, 0 <= m < 2 ^ mw -> 0 <= e < 2 ^ ew ->
  sf_with_sign false (Binary.FF2SF (Bits.binary_float_of_bits_aux mw ew (Bits.join_bits mw ew false m e))) =
  Binary.FF2SF (Bits.binary_float_of_bits_aux mw ew (Bits.join_bits mw ew false m e)).
Proof.
  intros m e Hm He. unfold Bits.binary_float_of_bits_aux.
  rewrite !Bits.split_join_bits by (try assumption; lia).
  destruct (Zeq_bool e 0).
  - destruct m; reflexivity.
  - destruct (Zeq_bool e (2 ^ ew - 1)).
    + destruct m; reflexivity.
    + destruct (m + 2 ^ mw); reflexivity.
Qed.

(* bit_cast of the raw result = abs_impl of the bit_cast operand *)
Theorem dec_raw_e_abs : forall b, 0 <= b < 2 ^ w ->
  decw (raw_e_abs w b) = e_abs cprec cemax (decw b).
Proof.
  intros b Hb. apply B2SF_inj. rewrite e_abs_sf, !B2SF_dec.
  destruct (raw_e_abs_exact w w_pos b Hb) as [Ha _]. rewrite Ha. unfold spec_raw_fabs.
  destruct (pattern_fields b Hb) as (m & e & Hm & He & Jb & Ja).
  rewrite Ja. set (s := raw_signbit w b) in Jb. clearbody s. rewrite Jb. rewrite (aux_join s m e Hm He).
  rewrite sf_with_sign_idem. symmetry. apply sf_with_sign_false_join; assumption.
Qed.

(* ... and copysign_fallback, for every operand pair whose second operand is not a NaN (the value-level model gives the
   single NaN the sign "false"; the raw model reads the sign bit of a NaN too, which is what the code does) *)
Definition sf_sign (x : SpecFloat.spec_float) : bool :=
  match x with
  | SpecFloat.S754_zero s | SpecFloat.S754_infinity s | SpecFloat.S754_finite s _ _ => s
  | SpecFloat.S754_nan => false
  end.
Lemma Bsign_sf : forall x : fl, Bsign x = sf_sign (B2SF x).
Proof. now intros [ | | | ]. Qed.
Lemma is_nan_sf : forall x : fl, is_nan x = match B2SF x with SpecFloat.S754_nan => true | _ => false end.
Proof. now intros [ | | | ]. Qed.
Lemma sf_sign_with : forall s x, x <> SpecFloat.S754_nan -> sf_sign (sf_with_sign s x) = s.
Proof. intros s [ | | | ] H; try reflexivity. now elim H. Qed.
Lemma sf_with_sign_nan : forall s x, sf_with_sign s x = SpecFloat.S754_nan -> x = SpecFloat.S754_nan.
Proof. now intros s [ | | | ]. Qed.

Lemma e_copysign_fb_sf : forall x y : fl,
  B2SF (e_copysign_fb cprec cemax x y) = sf_with_sign (Bsign y) (B2SF x).
Proof.
  intros x y. unfold e_copysign_fb. destruct x as [s|s| |s m e H]; cbn [Bsign]; destruct (Bsign y);
    try destruct s; reflexivity.
Qed.

Lemma Bsign_dec : forall b, 0 <= b < 2 ^ w -> is_nan (decw b) = false -> Bsign (decw b) = raw_signbit w b.
Proof.
  intros b Hb Hn. rewrite Bsign_sf. rewrite is_nan_sf in Hn. rewrite B2SF_dec in *.
  destruct (pattern_fields b Hb) as (m & e & Hm & He & Jb & _).
  set (s := raw_signbit w b) in *. clearbody s. rewrite Jb in *. rewrite (aux_join s m e Hm He) in *.
  apply sf_sign_with. intros E. rewrite E in Hn. discriminate.
Qed.

Theorem dec_raw_e_copysign_fb : forall x y, 0 <= x < 2 ^ w -> 0 <= y < 2 ^ w -> is_nan (decw y) = false ->
  decw (raw_e_copysign_fb w x y) = e_copysign_fb cprec cemax (decw x) (decw y).
Proof.
  intros x y Hx Hy Hn. apply B2SF_inj. rewrite e_copysign_fb_sf, !B2SF_dec.
  pose proof (Bsign_dec y Hy Hn) as Hs. unfold cprec, cemax in Hs |- *. rewrite Hs. clear Hs.
  rewrite (raw_e_copysign_fb_exact w w_pos x y Hx Hy). unfold spec_raw_copysign.
  destruct (pattern_fields x Hx) as (m & e & Hm & He & Jx & Ja).
  (* x mod p + p * (y / p) is x with the sign field of y *)
  assert (Hj : x mod 2 ^ (w - 1) + 2 ^ (w - 1) * (y / 2 ^ (w - 1)) = Bits.join_bits mw ew (raw_signbit w y) m e).
  { rewrite Ja. unfold raw_signbit. rewrite (testbit_top w w_pos y Hy).
    assert (Pp : 0 < 2 ^ (w - 1)) by (apply Z.pow_pos_nonneg; pose proof w_pos; lia).
    assert (Hy2 : 0 <= y < 2 * 2 ^ (w - 1)) by (rewrite <- (pow_w w w_pos); exact Hy).
    unfold Bits.join_bits. rewrite !Z.shiftl_mul_pow2 by lia. rewrite pow_split in *.
    destruct (2 ^ mw * 2 ^ ew <=? y) eqn:E.
    - apply Z.leb_le in E.
      assert (y / (2 ^ mw * 2 ^ ew) = 1) by (symmetry; apply Z.div_unique with (y - 2 ^ mw * 2 ^ ew); lia).
      rewrite H. ring.
    - apply Z.leb_gt in E. rewrite Z.div_small by lia. ring. }
  rewrite Hj. set (sx := raw_signbit w x) in Jx. clearbody sx. rewrite Jx.
  rewrite (aux_join (raw_signbit w y) m e Hm He), (aux_join sx m e Hm He).
  symmetry. apply sf_with_sign_idem.
Qed.

End Tie.
