(* C16 — the sign-bit operations on the raw encoding (NaN sign and payload included):
   abs_impl, copysign_fallback, signbit_fallback against IEC 60559 5.5.1 / C signbit. *)
From Coq Require Import ZArith Bool Lia.
From Tetl Require Import Lib.Base C16.Model C16.Spec.
Local Open Scope Z_scope.
Ltac Zify.zify_post_hook ::= Z.to_euclidean_division_equations.

Section Raw.
Variable w : Z.
Hypothesis Hw : 1 <= w.
Let p := 2 ^ (w - 1).

Lemma p_pos : 0 < p.
Proof. unfold p. apply Z.pow_pos_nonneg; lia. Qed.

Lemma pow_w : 2 ^ w = 2 * p.
Proof. unfold p. replace w with (1 + (w - 1)) at 1 by lia. rewrite Z.pow_add_r by lia. reflexivity. Qed.

(* the top bit of a w-bit pattern *)
Lemma testbit_top : forall b, 0 <= b < 2 ^ w -> Z.testbit b (w - 1) = (p <=? b).
Proof.
  intros b Hb. rewrite pow_w in Hb. pose proof p_pos as Hp.
  rewrite Z.testbit_eqb by lia. fold p.
  destruct (p <=? b) eqn:E; [apply Z.leb_le in E|apply Z.leb_gt in E].
  - assert (b / p = 1) by (symmetry; apply Z.div_unique with (b - p); lia).
    rewrite H. reflexivity.
  - rewrite Z.div_small by lia. reflexivity.
Qed.

Theorem raw_signbit_exact : forall b, 0 <= b < 2 ^ w ->
  raw_signbit w b = spec_raw_signbit w b /\ raw_e_signbit_fb w b = spec_raw_signbit w b.
Proof.
  intros b Hb. unfold raw_signbit, raw_e_signbit_fb, e_signbit_bits, spec_raw_signbit. fold p.
  split; [apply testbit_top; exact Hb|].
  rewrite pow_w in Hb. pose proof p_pos as Hp.
  rewrite Z.shiftr_div_pow2 by lia. fold p.
  destruct (p <=? b) eqn:E; [apply Z.leb_le in E|apply Z.leb_gt in E].
  - assert (b / p = 1) by (symmetry; apply Z.div_unique with (b - p); lia). rewrite H. reflexivity.
  - rewrite Z.div_small by lia. reflexivity.
Qed.

Theorem raw_e_abs_exact : forall b, 0 <= b < 2 ^ w ->
  raw_e_abs w b = spec_raw_fabs w b /\ 0 <= raw_e_abs w b < p.
Proof.
  intros b Hb. unfold raw_e_abs, raw_neg, raw_signbit, spec_raw_fabs. fold p.
  rewrite testbit_top by exact Hb. rewrite pow_w in Hb. pose proof p_pos as Hp.
  destruct (p <=? b) eqn:E; [apply Z.leb_le in E|apply Z.leb_gt in E].
  - assert (b mod p = b - p) by (symmetry; apply Z.mod_unique with 1; lia). lia.
  - rewrite Z.mod_small by lia. lia.
Qed.

Theorem raw_e_copysign_fb_exact : forall x y, 0 <= x < 2 ^ w -> 0 <= y < 2 ^ w ->
  raw_e_copysign_fb w x y = spec_raw_copysign w x y.
Proof.
  intros x y Hx Hy. unfold raw_e_copysign_fb, raw_neg, raw_signbit, spec_raw_copysign. fold p.
  rewrite !testbit_top by assumption. rewrite pow_w in Hx, Hy. pose proof p_pos as Hp.
  destruct (p <=? x) eqn:Ex; [apply Z.leb_le in Ex|apply Z.leb_gt in Ex];
  destruct (p <=? y) eqn:Ey; [apply Z.leb_le in Ey|apply Z.leb_gt in Ey| |]; cbn [eqb negb].
  - assert (x mod p = x - p) by (symmetry; apply Z.mod_unique with 1; lia).
    assert (y / p = 1) by (symmetry; apply Z.div_unique with (y - p); lia). lia.
  - assert (x mod p = x - p) by (symmetry; apply Z.mod_unique with 1; lia).
    rewrite (Z.div_small y) by lia. lia.
  - apply Z.leb_le in Ey. rewrite (Z.mod_small x) by lia.
    assert (y / p = 1) by (symmetry; apply Z.div_unique with (y - p); lia). lia.
  - apply Z.leb_gt in Ey. rewrite (Z.mod_small x) by lia. rewrite (Z.div_small y) by lia. lia.
Qed.

End Raw.
