(* C16 — recorded defects of the vendored gcem fall-back code (known findings): concrete
   binary32 witnesses, evaluated by the kernel's VM.  Bit patterns: 1343554297 = 1e10f,
   1077936128 = 3.0f, 1084227584 = 5.0f, 2139095040 = +inf, 3225419776 = -3.0f,
   1065353216 = 1.0f, 1 = smallest subnormal. *)
From Coq Require Import ZArith Bool.
From Flocq Require Import Core BinarySingleNaN.
From Tetl Require Import Lib.Base C16.Model C16.Spec.
Local Open Scope Z_scope.

Notation gfmod32 := (g_fmod 24 128 p32 pe32).
Notation sfmod32 := (spec_fmod 24 128 p32 pe32).
Notation srem32 := (spec_remainder 24 128 p32 pe32).

(* results are compared through their encodings (two equal floats may carry different proofs
   of validity) *)
Definition encr (r : res b32) : Z := match r with Ok v => enc32 v | _ => -1 end.

(* two roundings: fmod(1e10f, 3) is 0 instead of 1 *)
Lemma g_fmod_inexact :
  encr (gfmod32 (dec32 1343554297) (dec32 1077936128)) = 0
  /\ enc32 (sfmod32 (dec32 1343554297) (dec32 1077936128)) = 1065353216.
Proof. split; vm_compute; reflexivity. Qed.

Lemma g_fmod_refuted : exists x y : b32, gfmod32 x y <> Ok (sfmod32 x y).
Proof.
  exists (dec32 1343554297), (dec32 1077936128). intros H.
  apply (f_equal encr) in H. vm_compute in H. discriminate.
Qed.

(* fmod(5, +inf) is NaN instead of 5 *)
Lemma g_fmod_inf_divisor :
  encr (gfmod32 (dec32 1084227584) (dec32 2139095040)) = 2143289344
  /\ enc32 (sfmod32 (dec32 1084227584) (dec32 2139095040)) = 1084227584.
Proof. split; vm_compute; reflexivity. Qed.

(* fmod(-3, 3) is +0 instead of -0 *)
Lemma g_fmod_zero_sign :
  encr (gfmod32 (dec32 3225419776) (dec32 1077936128)) = 0
  /\ enc32 (sfmod32 (dec32 3225419776) (dec32 1077936128)) = 2147483648.
Proof. split; vm_compute; reflexivity. Qed.

(* fmod(1, denorm_min) is -inf instead of +0: the quotient overflows *)
Lemma g_fmod_overflow :
  encr (gfmod32 (dec32 1065353216) (dec32 1)) = 4286578688
  /\ enc32 (sfmod32 (dec32 1065353216) (dec32 1)) = 0.
Proof. split; vm_compute; reflexivity. Qed.

(* the constant-evaluation fall-back of remainder is gcem fmod: remainder(5, 3) is 2, not -1 *)
Lemma g_remainder_is_fmod :
  encr (gfmod32 (dec32 1084227584) (dec32 1077936128)) = 1073741824
  /\ enc32 (srem32 (dec32 1084227584) (dec32 1077936128)) = 3212836864.
Proof. split; vm_compute; reflexivity. Qed.

Lemma g_remainder_refuted : exists x y : b32, gfmod32 x y <> Ok (srem32 x y).
Proof.
  exists (dec32 1084227584), (dec32 1077936128). intros H.
  apply (f_equal encr) in H. vm_compute in H. discriminate.
Qed.

(* gcem min/max (used by fmin/fmax before commit 9128fcd) return a NaN second operand *)
Lemma g_min_refuted : exists x y : b32, g_min 24 128 x y <> spec_fmin 24 128 x y.
Proof. exists (dec32 1065353216), B754_nan. vm_compute. discriminate. Qed.
Lemma g_max_refuted : exists x y : b32, g_max 24 128 x y <> spec_fmax 24 128 x y.
Proof. exists (dec32 1065353216), B754_nan. vm_compute. discriminate. Qed.
