(* C16 — concrete binary32 evaluations by the kernel's VM.
   (1) Former defects of the vendored gcem fmod (x - trunc(x/y)*y, known findings
       KF-C16-gcem-fmod-* until the exact rewrite): the witnesses now evaluate to the C results;
       they stay as regression examples of the fuelled model.
   (2) gcem min/max return a NaN second operand (why etl::fmin/fmax no longer use them).
   Bit patterns: 1343554297 = 1e10f, 1077936128 = 3.0f, 1084227584 = 5.0f, 2139095040 = +inf,
   3225419776 = -3.0f, 1065353216 = 1.0f, 1 = smallest subnormal. *)
From Coq Require Import ZArith Bool.
From Flocq Require Import Core BinarySingleNaN.
From Tetl Require Import Lib.Base C16.Model C16.Spec.
Local Open Scope Z_scope.

Notation gfmod32 := (g_fmod 24 128 p32 pe32).
Notation grem32 := (g_remainder 24 128 p32 pe32).
Notation sfmod32 := (spec_fmod 24 128 p32 pe32).
Notation srem32 := (spec_remainder 24 128 p32 pe32).

(* results are compared through their encodings (two equal floats may carry different proofs
   of validity) *)
Definition encr (r : res b32) : Z := match r with Ok v => enc32 v | _ => -1 end.

(* fmod(1e10f, 3) = 1 (was 0: two roundings) *)
Lemma g_fmod_ex_large :
  encr (gfmod32 (dec32 1343554297) (dec32 1077936128)) = 1065353216
  /\ enc32 (sfmod32 (dec32 1343554297) (dec32 1077936128)) = 1065353216.
Proof. split; vm_compute; reflexivity. Qed.

(* fmod(5, +inf) = 5 (was NaN) *)
Lemma g_fmod_ex_inf_divisor :
  encr (gfmod32 (dec32 1084227584) (dec32 2139095040)) = 1084227584
  /\ enc32 (sfmod32 (dec32 1084227584) (dec32 2139095040)) = 1084227584.
Proof. split; vm_compute; reflexivity. Qed.

(* fmod(-3, 3) = -0 (was +0) *)
Lemma g_fmod_ex_zero_sign :
  encr (gfmod32 (dec32 3225419776) (dec32 1077936128)) = 2147483648
  /\ enc32 (sfmod32 (dec32 3225419776) (dec32 1077936128)) = 2147483648.
Proof. split; vm_compute; reflexivity. Qed.

(* fmod(1, denorm_min) = +0 (was -inf: the quotient overflowed); 127 + 22 doublings *)
Lemma g_fmod_ex_tiny_divisor :
  encr (gfmod32 (dec32 1065353216) (dec32 1)) = 0
  /\ enc32 (sfmod32 (dec32 1065353216) (dec32 1)) = 0.
Proof. split; vm_compute; reflexivity. Qed.

(* remainder(5, 3) = -1 (the fall-back was fmod: 2) *)
Lemma g_remainder_ex :
  encr (grem32 (dec32 1084227584) (dec32 1077936128)) = 3212836864
  /\ enc32 (srem32 (dec32 1084227584) (dec32 1077936128)) = 3212836864.
Proof. split; vm_compute; reflexivity. Qed.

(* gcem min/max (used by fmin/fmax before commit 9128fcd) return a NaN second operand *)
Lemma g_min_refuted : exists x y : b32, g_min 24 128 x y <> spec_fmin 24 128 x y.
Proof. exists (dec32 1065353216), B754_nan. vm_compute. discriminate. Qed.
Lemma g_max_refuted : exists x y : b32, g_max 24 128 x y <> spec_fmax 24 128 x y.
Proof. exists (dec32 1065353216), B754_nan. vm_compute. discriminate. Qed.
