(* C16 — proofs by analysis of the constructors: classification, sign, abs, min/max, fdim,
   copysign/hypot ladders.  Generic in the format. *)
From Coq Require Import ZArith Bool Lia Reals Lra.
From Coq Require Import Floats.SpecFloat.
From Flocq Require Import Core BinarySingleNaN.
From Tetl Require Import Lib.Base C16.Model C16.Spec.
Local Open Scope Z_scope.

Section Fmt.
Variables prec emax : Z.
Context (prec_gt_0_ : Prec_gt_0 prec) (prec_lt_emax_ : Prec_lt_emax prec emax).
Notation fl := (binary_float prec emax).

Notation fzero := (f_zero prec emax prec_gt_0_ prec_lt_emax_).

Lemma f_zero_eq : fzero = B754_zero false.
Proof. reflexivity. Qed.

(** ** comparisons against constructors *)
Lemma Bcompare_refl_nan : forall x : fl, is_nan x = false -> Bcompare x x = Some Eq.
Proof.
  intros [s|s| |s m e H] Hn; try discriminate; cbn.
  - reflexivity.
  - now destruct s.
  - destruct s; rewrite Z.compare_refl, Pos.compare_cont_refl; reflexivity.
Qed.

Lemma fne_self : forall x : fl, fne prec emax x x = is_nan x.
Proof.
  intros x. unfold fne, Beqb, SFeqb. change (SFcompare (B2SF x) (B2SF x)) with (Bcompare x x).
  destruct (is_nan x) eqn:Hn.
  - destruct x; try discriminate. reflexivity.
  - rewrite Bcompare_refl_nan by exact Hn. reflexivity.
Qed.

Lemma Bltb_Bcompare : forall x y : fl,
  Bltb x y = match Bcompare x y with Some Lt => true | _ => false end.
Proof. reflexivity. Qed.

Lemma Beqb_Bcompare : forall x y : fl,
  Beqb x y = match Bcompare x y with Some Eq => true | _ => false end.
Proof. reflexivity. Qed.

Lemma Bleb_Bcompare : forall x y : fl,
  Bleb x y = match Bcompare x y with Some Lt | Some Eq => true | _ => false end.
Proof. reflexivity. Qed.

Lemma Bcompare_nan_l : forall y : fl, Bcompare (B754_nan : fl) y = None.
Proof. now intros [ | | | ]. Qed.
Lemma Bcompare_nan_r : forall x : fl, Bcompare x (B754_nan : fl) = None.
Proof. now intros [ | | | ]. Qed.

Lemma Bcompare_swap_opt : forall x y : fl,
  Bcompare y x = match Bcompare x y with Some c => Some (CompOpp c) | None => None end.
Proof. intros. apply Bcompare_swap. Qed.

(** ** gcem classification helpers = IEEE classification *)
Theorem g_is_nan_exact : forall x : fl, g_is_nan prec emax x = spec_isnan prec emax x.
Proof. intros. apply fne_self. Qed.

Theorem g_is_inf_exact : forall x : fl, g_is_inf prec emax x = spec_isinf prec emax x.
Proof. intros [s|s| |s m e H]; try (destruct s; reflexivity). reflexivity. Qed.

Theorem g_is_finite_exact : forall x : fl, g_is_finite prec emax x = spec_isfinite prec emax x.
Proof.
  intros x. unfold g_is_finite. rewrite g_is_nan_exact, g_is_inf_exact.
  now destruct x.
Qed.

Theorem e_isfinite_exact : forall x : fl, e_isfinite prec emax x = spec_isfinite prec emax x.
Proof. now intros [ | | | ]. Qed.

(** ** gcem abs and sgn *)
Theorem g_abs_exact : forall x : fl, g_abs prec emax _ _ x = spec_fabs prec emax x.
Proof.
  intros [s|s| |s m e H]; unfold g_abs, feq, flt, fneg; rewrite f_zero_eq.
  - reflexivity.
  - now destruct s.
  - reflexivity.
  - now destruct s.
Qed.

Definition spec_sgn (x : fl) : Z :=
  match x with
  | B754_zero _ | B754_nan => 0
  | B754_infinity s | B754_finite s _ _ _ => if s then -1 else 1
  end.
Theorem g_sgn_exact : forall x : fl, g_sgn prec emax _ _ x = spec_sgn x.
Proof.
  intros [s|s| |s m e H]; unfold g_sgn, fgt, flt; rewrite f_zero_eq; try reflexivity; now destruct s.
Qed.

(** ** copysign fallback *)
Theorem e_copysign_fb_exact : forall x y : fl,
  e_copysign_fb prec emax x y = spec_copysign prec emax x y.
Proof.
  intros x y. unfold e_copysign_fb, spec_copysign, fneg.
  destruct x as [s|s| |s m e H]; cbn [Bsign with_sign Bopp]; destruct (Bsign y); try destruct s; reflexivity.
Qed.

(** ** fmin / fmax *)
Theorem e_fmin_exact : forall x y : fl, e_fmin prec emax x y = spec_fmin prec emax x y.
Proof.
  intros x y. unfold e_fmin, spec_fmin. rewrite !fne_self.
  destruct (is_nan y); [reflexivity|]. destruct (is_nan x); [reflexivity|].
  unfold flt. rewrite Bltb_Bcompare, (Bcompare_swap_opt x y).
  destruct (Bcompare x y) as [[ | | ]|]; reflexivity.
Qed.

Theorem e_fmax_exact : forall x y : fl, e_fmax prec emax x y = spec_fmax prec emax x y.
Proof.
  intros x y. unfold e_fmax, spec_fmax. rewrite !fne_self.
  destruct (is_nan y); [reflexivity|]. destruct (is_nan x); [reflexivity|].
  unfold flt. rewrite Bltb_Bcompare.
  destruct (Bcompare x y) as [[ | | ]|]; reflexivity.
Qed.

(* the gcem functions fmin/fmax used before commit 9128fcd return the second operand whenever
   the comparison is false, in particular a NaN second operand *)
Theorem g_min_nan : forall x : fl, g_min prec emax x B754_nan = B754_nan.
Proof. intros x. unfold g_min, fgt. rewrite Bltb_Bcompare, Bcompare_nan_r. reflexivity. Qed.
Theorem g_max_nan : forall x : fl, g_max prec emax x B754_nan = B754_nan.
Proof. intros x. unfold g_max, flt. rewrite Bltb_Bcompare, Bcompare_nan_l. reflexivity. Qed.

(** ** fdim *)
Lemma Bplus_nan_l : forall m (y : fl), Bplus m B754_nan y = B754_nan.
Proof. now intros m [ | | | ]. Qed.
Lemma Bplus_nan_r : forall m (x : fl), Bplus m x B754_nan = B754_nan.
Proof. now intros m [ | | | ]. Qed.

Theorem e_fdim_exact : forall x y : fl, e_fdim prec emax _ _ x y = spec_fdim prec emax _ _ x y.
Proof.
  intros x y. unfold e_fdim, spec_fdim. rewrite !fne_self.
  destruct (is_nan x) eqn:Hx.
  { destruct x; try discriminate. cbn [orb]. unfold fadd. rewrite Bplus_nan_l, Bcompare_nan_l. reflexivity. }
  destruct (is_nan y) eqn:Hy.
  { destruct y; try discriminate. cbn [orb]. unfold fadd. rewrite Bplus_nan_r, Bcompare_nan_r. reflexivity. }
  cbn [orb]. unfold fgt, fsub. rewrite Bltb_Bcompare, (Bcompare_swap_opt x y).
  destruct (Bcompare x y) as [[ | | ]|] eqn:Hc; try reflexivity.
  (* unordered although neither is a NaN: impossible *)
  exfalso. destruct x, y; try discriminate; cbn in Hc; try discriminate;
    repeat match goal with s : bool |- _ => destruct s end; discriminate.
Qed.

(** ** hypot ladder *)
Theorem e_hypot_ladder_exact : forall x y : fl,
  e_hypot_ladder prec emax x y = spec_hypot_special prec emax x y.
Proof. intros [ | | | ] [ | | | ]; reflexivity. Qed.

Theorem e_hypot3_ladder_exact : forall x y z : fl,
  e_hypot3_ladder prec emax x y z = spec_hypot3_special prec emax x y z.
Proof. intros [ | | | ] [ | | | ] [ | | | ]; reflexivity. Qed.

(** ** abs_impl (abs, fabs): needs the real-number characterisation of the product n * (-1) *)
Lemma of_Z_m1 : B2R (of_Z prec emax _ _ (-1)) = (-1)%R
  /\ is_finite (of_Z prec emax _ _ (-1)) = true /\ Bsign (of_Z prec emax _ _ (-1)) = true.
Proof.
  unfold of_Z.
  pose proof (binary_normalize_correct prec emax _ _ mode_NE (-1) 0 false) as Hn.
  cbv zeta in Hn.
  assert (HF : F2R (Float radix2 (-1) 0) = (-1)%R) by (unfold F2R; simpl; lra).
  rewrite HF in Hn.
  assert (Hg : generic_format radix2 (fexp prec emax) (-1)%R).
  { rewrite <- HF. apply generic_format_F2R. intros _.
    unfold cexp, fexp, emin. rewrite HF.
    replace (-1)%R with (- bpow radix2 0)%R by (simpl; lra).
    rewrite mag_opp, mag_bpow.
    unfold Prec_gt_0, Prec_lt_emax in *. simpl Fexp. lia. }
  rewrite round_generic in Hn by (auto with typeclass_instances).
  rewrite Rlt_bool_true in Hn.
  - destruct Hn as [H1 [H2 H3]]. repeat split; try assumption.
    rewrite H3. rewrite Rcompare_Lt by lra. reflexivity.
  - rewrite <- abs_IZR. simpl Z.abs. change 1%R with (bpow radix2 0). apply bpow_lt.
    unfold Prec_gt_0, Prec_lt_emax in *. lia.
Qed.

Theorem e_abs_exact : forall x : fl, e_abs prec emax x = spec_fabs prec emax x.
Proof. intros [s|s| |s m e H]; try (destruct s; reflexivity). reflexivity. Qed.

End Fmt.

(** * signbit fallback: the top bit of the encoding is the IEEE sign (0 for the NaN) *)
Section SignBit.
Variables mw ew : Z.
Hypothesis Hmw : 0 < mw.
Hypothesis Hew : 0 < ew.

Lemma shiftr_join_bits : forall s m e, 0 <= m < 2 ^ mw -> 0 <= e < 2 ^ ew ->
  Z.shiftr (Bits.join_bits mw ew s m e) (mw + ew) = if s then 1 else 0.
Proof.
  intros s m e Hm He. unfold Bits.join_bits.
  rewrite Z.shiftr_div_pow2 by lia. rewrite Z.shiftl_mul_pow2 by lia.
  rewrite Z.pow_add_r by lia.
  assert (H1 : 0 < 2 ^ mw) by (apply Z.pow_pos_nonneg; lia).
  assert (H2 : 0 < 2 ^ ew) by (apply Z.pow_pos_nonneg; lia).
  rewrite <- Z.div_div by lia.
  rewrite Z.div_add_l by lia. rewrite (Z.div_small m) by lia. rewrite Z.add_0_r.
  destruct s.
  - replace (2 ^ ew + e) with (1 * 2 ^ ew + e) by lia. rewrite Z.div_add_l by lia.
    rewrite Z.div_small by lia. reflexivity.
  - rewrite Z.add_0_l. apply Z.div_small. lia.
Qed.
End SignBit.

Lemma enc_signbit : forall mw ew (Hmw : 0 < mw) (Hew : 0 < ew) (Hmax : mw + 1 < 2 ^ (ew - 1))
  (x : binary_float (mw + 1) (2 ^ (ew - 1))),
  e_signbit_bits (mw + ew + 1) (enc mw ew x) = Bsign x.
Proof.
  intros mw ew Hmw Hew Hmax x. unfold e_signbit_bits.
  replace (mw + ew + 1 - 1) with (mw + ew) by lia.
  assert (P1 : 0 < 2 ^ mw) by (apply Z.pow_pos_nonneg; lia).
  assert (P2 : 1 < 2 ^ ew) by (apply Z.pow_gt_1; lia).
  assert (P3 : 2 * 2 ^ (mw - 1) = 2 ^ mw).
  { replace mw with (1 + (mw - 1)) at 2 by lia. rewrite Z.pow_add_r by lia. reflexivity. }
  assert (P4 : 2 * 2 ^ (ew - 1) = 2 ^ ew).
  { replace ew with (1 + (ew - 1)) at 2 by lia. rewrite Z.pow_add_r by lia. reflexivity. }
  assert (P5 : 0 < 2 ^ (mw - 1)) by (apply Z.pow_pos_nonneg; lia).
  destruct x as [s|s| |s m e H]; unfold enc.
  - rewrite shiftr_join_bits by lia. now destruct s.
  - rewrite shiftr_join_bits by lia. now destruct s.
  - rewrite shiftr_join_bits by lia. reflexivity.
  - (* finite: the significand and exponent fields are in range by [bounded] *)
    cbv zeta. cbn [Bsign].
    pose proof H as Hb.
    unfold bounded in Hb. apply andb_prop in Hb. destruct Hb as [Hc He].
    unfold canonical_mantissa in Hc. apply Zeq_bool_eq in Hc. apply Zle_bool_imp_le in He.
    unfold fexp, FLT_exp, emin in Hc.
    rewrite Digits.Zpos_digits2_pos in Hc.
    pose proof (Digits.Zdigits_correct radix2 (Zpos m)) as Hd.
    rewrite Z.abs_eq in Hd by lia.
    set (d := Digits.Zdigits radix2 (Zpos m)) in *.
    assert (Hdpos : 0 < d) by (apply Digits.Zdigits_gt_0; lia).
    change (Zpower radix2) with (Z.pow 2) in Hd.
    assert (Hdle : d <= mw + 1) by lia.
    assert (Hm2 : Zpos m < 2 ^ (mw + 1)).
    { apply Z.lt_le_trans with (2 ^ d); [lia|]. apply Z.pow_le_mono_r; lia. }
    rewrite Z.pow_add_r in Hm2 by lia. change (2 ^ 1) with 2 in Hm2.
    destruct (0 <=? Z.pos m - 2 ^ mw) eqn:Hn.
    + apply Z.leb_le in Hn.
      (* normal: d = mw + 1, exponent field = e - emin + 1 in [1, 2^ew - 2] *)
      assert (Hd2 : d = mw + 1).
      { destruct (Z.eq_dec d (mw + 1)) as [|Hne]; [assumption|exfalso].
        assert (2 ^ d <= 2 ^ mw) by (apply Z.pow_le_mono_r; lia). lia. }
      rewrite shiftr_join_bits; [now destruct s|lia|lia|lia|].
      rewrite Hd2 in Hc. lia.
    + apply Z.leb_gt in Hn.
      rewrite shiftr_join_bits; [now destruct s|lia|lia|lia|lia].
Qed.

Theorem signbit_fb32_exact : forall x : b32, signbit_fb32 x = spec_signbit 24 128 x.
Proof. intros x. exact (enc_signbit 23 8 eq_refl eq_refl eq_refl x). Qed.

Theorem signbit_fb64_exact : forall x : b64, signbit_fb64 x = spec_signbit 53 1024 x.
Proof. intros x. exact (enc_signbit 52 11 eq_refl eq_refl eq_refl x). Qed.
