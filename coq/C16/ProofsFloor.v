(* C16 — the gcem floor / ceil / trunc fall-back kernels (Model.g_floor, g_ceil, g_trunc)
   compute exactly Flocq's Bnearbyint mode_DN / mode_UP / mode_ZR (Spec.spec_floor,
   spec_ceil, spec_trunc) on EVERY value (zeros with their sign, infinities, NaN, all
   finite values) of every format with 2 <= prec <= 64; in particular the partial
   conversion to a 64-bit signed integer is never undefined.  The upper bound on prec is
   tight (the conversion is to 64 bits and the guard is |x| >= 2^(prec-1)); the lower
   bound is not essential (the file also compiles with 1 <= prec).
   Instances: binary32, binary64, x87 extended.
   Only the standard real-number axioms are used (Print Assumptions: Properties_rounding.v). *)
From Coq Require Import ZArith Reals Bool Lia Lra Psatz.
From Flocq Require Import Core BinarySingleNaN.
From Tetl Require Import Lib.Base C16.Model C16.Spec.
Local Open Scope Z_scope.

Section Fmt.
Variables prec emax : Z.
Context (Hp : Prec_gt_0 prec) (Hpe : Prec_lt_emax prec emax).
Hypothesis Hprec : 2 <= prec <= 64.

Notation fl := (binary_float prec emax).
Notation femin := (SpecFloat.emin prec emax).
Notation ffexp := (SpecFloat.fexp prec emax).

Local Notation of_Z := (of_Z prec emax Hp Hpe).
Local Notation f_zero := (f_zero prec emax Hp Hpe).
Local Notation f_one := (f_one prec emax Hp Hpe).
Local Notation f_eps := (f_eps prec emax Hp Hpe).
Local Notation g_limit := (g_limit prec emax Hp Hpe).
Local Notation pow2 := (pow2 prec emax Hp Hpe).
Local Notation g_abs := (g_abs prec emax Hp Hpe).

Lemma prec_lt_emax : prec < emax.
Proof. exact Hpe. Qed.

Lemma emin_le_0 : femin <= 0.
Proof. unfold SpecFloat.emin. pose proof prec_lt_emax. lia. Qed.

(** * integers of small magnitude are in the format *)
Lemma format_IZR : forall n : Z, Z.abs n < 2 ^ prec -> generic_format radix2 ffexp (IZR n).
Proof.
  intros n Hn.
  apply generic_format_FLT.
  apply FLT_spec with (f := Float radix2 n 0).
  - unfold F2R; cbn [Fnum Fexp bpow]. now rewrite Rmult_1_r.
  - exact Hn.
  - cbn [Fexp]. apply emin_le_0.
Qed.

Lemma IZR_lt_bpow_emax : forall n : Z, Z.abs n < 2 ^ prec -> (Rabs (IZR n) < bpow radix2 emax)%R.
Proof.
  intros n Hn.
  rewrite <- abs_IZR.
  apply Rlt_le_trans with (IZR (2 ^ prec)).
  - now apply IZR_lt.
  - change 2 with (radix_val radix2). rewrite IZR_Zpower by lia.
    apply bpow_le. pose proof prec_lt_emax. lia.
Qed.

Lemma f_zero_eq : f_zero = B754_zero false.
Proof. reflexivity. Qed.

(** [T(n)] for a small integer [n] is exact *)
Lemma of_Z_correct : forall n : Z, Z.abs n < 2 ^ prec ->
  B2R (of_Z n) = IZR n /\ is_finite (of_Z n) = true /\ Bsign (of_Z n) = (n <? 0).
Proof.
  intros n Hn.
  unfold Model.of_Z.
  generalize (binary_normalize_correct prec emax Hp Hpe mode_NE n 0 false).
  cbn zeta.
  assert (HF : F2R (Float radix2 n 0) = IZR n).
  { unfold F2R; cbn [Fnum Fexp bpow]. now rewrite Rmult_1_r. }
  rewrite HF.
  rewrite round_generic by (try apply valid_rnd_round_mode; now apply format_IZR).
  rewrite Rlt_bool_true by now apply IZR_lt_bpow_emax.
  intros (H1 & H2 & H3). repeat split; trivial.
  rewrite H3.
  destruct (Rcompare_spec (IZR n) 0) as [H|H|H].
  - apply lt_IZR in H. symmetry. apply Z.ltb_lt. exact H.
  - apply eq_IZR in H. subst n. reflexivity.
  - apply lt_IZR in H. symmetry. apply Z.ltb_ge. lia.
Qed.

(** * the literals *)
Lemma pow2_correct : forall e : Z, femin <= e < emax ->
  B2R (pow2 e) = bpow radix2 e /\ is_finite (pow2 e) = true /\ Bsign (pow2 e) = false.
Proof.
  intros e He.
  unfold Model.pow2.
  generalize (binary_normalize_correct prec emax Hp Hpe mode_NE 1 e false).
  cbn zeta.
  assert (HF : F2R (Float radix2 1 e) = bpow radix2 e).
  { unfold F2R; cbn [Fnum Fexp]. now rewrite Rmult_1_l. }
  rewrite HF.
  rewrite round_generic.
  2: apply valid_rnd_round_mode.
  2:{ apply generic_format_bpow. unfold SpecFloat.fexp. pose proof Hp as Hp'. red in Hp'. lia. }
  rewrite Rabs_pos_eq by apply bpow_ge_0.
  rewrite Rlt_bool_true by (apply bpow_lt; lia).
  intros (H1 & H2 & H3). repeat split; trivial.
  rewrite H3. rewrite Rcompare_Gt; trivial. apply bpow_gt_0.
Qed.

Lemma pow_prec_gt_1 : 1 < 2 ^ prec.
Proof. apply Z.pow_gt_1; lia. Qed.

Lemma f_one_correct : B2R f_one = 1%R /\ is_finite f_one = true /\ Bsign f_one = false.
Proof.
  unfold Model.f_one. apply (of_Z_correct 1). pose proof pow_prec_gt_1. lia.
Qed.

Lemma g_limit_correct :
  B2R g_limit = bpow radix2 (prec - 1) /\ is_finite g_limit = true.
Proof.
  unfold Model.g_limit, fdiv.
  pose proof prec_lt_emax as Hlt.
  destruct f_one_correct as (O1 & O2 & O3).
  destruct (pow2_correct (1 - prec)) as (E1 & E2 & E3).
  { unfold SpecFloat.emin. lia. }
  fold f_eps in E1, E2, E3.
  generalize (Bdiv_correct prec emax Hp Hpe mode_NE f_one f_eps).
  rewrite O1, E1, O2.
  replace (1 / bpow radix2 (1 - prec))%R with (bpow radix2 (prec - 1)).
  2:{ unfold Rdiv. rewrite Rmult_1_l, <- bpow_opp. f_equal. lia. }
  rewrite round_generic.
  2: apply valid_rnd_round_mode.
  2:{ apply generic_format_bpow. unfold SpecFloat.fexp, SpecFloat.emin. lia. }
  rewrite Rabs_pos_eq by apply bpow_ge_0.
  rewrite Rlt_bool_true by (apply bpow_lt; lia).
  intros H. destruct H as (H1 & H2 & _).
  { apply Rgt_not_eq, bpow_gt_0. }
  split; assumption.
Qed.

(** * exact subtraction / addition of small integers *)
Lemma fsub_int : forall (a b : fl) (za zb : Z),
  is_finite a = true -> is_finite b = true ->
  B2R a = IZR za -> B2R b = IZR zb -> Z.abs (za - zb) < 2 ^ prec ->
  B2R (fsub prec emax Hp Hpe a b) = IZR (za - zb) /\
  is_finite (fsub prec emax Hp Hpe a b) = true /\
  Bsign (fsub prec emax Hp Hpe a b) =
    match za - zb ?= 0 with Eq => Bsign a && negb (Bsign b) | Lt => true | Gt => false end.
Proof.
  intros a b za zb Fa Fb Va Vb Hab.
  unfold fsub.
  generalize (Bminus_correct prec emax Hp Hpe mode_NE a b Fa Fb).
  rewrite Va, Vb, <- minus_IZR.
  rewrite round_generic by (try apply valid_rnd_round_mode; now apply format_IZR).
  rewrite Rlt_bool_true by now apply IZR_lt_bpow_emax.
  rewrite Rcompare_IZR.
  intros (H1 & H2 & H3). now repeat split.
Qed.

Lemma fadd_int : forall (a b : fl) (za zb : Z),
  is_finite a = true -> is_finite b = true ->
  B2R a = IZR za -> B2R b = IZR zb -> Z.abs (za + zb) < 2 ^ prec ->
  B2R (fadd prec emax Hp Hpe a b) = IZR (za + zb) /\
  is_finite (fadd prec emax Hp Hpe a b) = true /\
  Bsign (fadd prec emax Hp Hpe a b) =
    match za + zb ?= 0 with Eq => Bsign a && Bsign b | Lt => true | Gt => false end.
Proof.
  intros a b za zb Fa Fb Va Vb Hab.
  unfold fadd.
  generalize (Bplus_correct prec emax Hp Hpe mode_NE a b Fa Fb).
  rewrite Va, Vb, <- plus_IZR.
  rewrite round_generic by (try apply valid_rnd_round_mode; now apply format_IZR).
  rewrite Rlt_bool_true by now apply IZR_lt_bpow_emax.
  rewrite Rcompare_IZR.
  intros (H1 & H2 & H3). now repeat split.
Qed.

(** * floor and ceiling from each other *)
Lemma floor_from_ceil : forall t : R,
  Zfloor t = Zceil t - (if Rlt_bool t (IZR (Zceil t)) then 1 else 0).
Proof.
  intros t. destruct (Rlt_bool_spec t (IZR (Zceil t))) as [Hlt|Hge].
  - rewrite (Zceil_floor_neq t); [lia|].
    intros Heq. rewrite <- Heq in Hlt at 2. rewrite Zceil_IZR in Hlt. lra.
  - pose proof (Zceil_ub t) as Hub.
    assert (Heq : t = IZR (Zceil t)) by lra.
    rewrite Heq at 1. rewrite Zfloor_IZR. lia.
Qed.

Lemma ceil_from_floor : forall t : R,
  Zceil t = Zfloor t + (if Rlt_bool (IZR (Zfloor t)) t then 1 else 0).
Proof.
  intros t. destruct (Rlt_bool_spec (IZR (Zfloor t)) t) as [Hlt|Hge].
  - apply Zceil_floor_neq. lra.
  - pose proof (Zfloor_lb t) as Hlb.
    assert (Heq : t = IZR (Zfloor t)) by lra.
    rewrite Heq at 1. rewrite Zceil_IZR. lia.
Qed.

(** * the guards of the ladder on a finite non-zero [x] *)
Section Finite.
Variables (s : bool) (m : positive) (e : Z) (H : SpecFloat.bounded prec emax m e = true).
Let x : fl := B754_finite s m e H.
Let r : R := B2R x.

Lemma fin_sign : if s then (r < 0)%R else (0 < r)%R.
Proof.
  unfold r, x, B2R. destruct s; cbn [cond_Zopp].
  - now apply F2R_lt_0.
  - now apply F2R_gt_0.
Qed.

Lemma fin_neq_0 : r <> 0%R.
Proof. pose proof fin_sign as Hs. destruct s; lra. Qed.

Lemma fin_lt0 : Rlt_bool r 0 = s.
Proof.
  pose proof fin_sign as Hs. destruct s.
  - now apply Rlt_bool_true.
  - apply Rlt_bool_false; lra.
Qed.

Lemma fin_gt0 : Rlt_bool 0 r = negb s.
Proof.
  pose proof fin_sign as Hs. destruct s.
  - apply Rlt_bool_false; lra.
  - now apply Rlt_bool_true.
Qed.

Lemma fin_is_nan : g_is_nan prec emax x = false.
Proof. unfold g_is_nan, fne. now rewrite Beqb_refl. Qed.

Lemma fin_is_finite : g_is_finite prec emax x = true.
Proof.
  unfold g_is_finite. rewrite fin_is_nan.
  unfold g_is_inf, g_is_neginf, g_is_posinf, feq, fneg, f_inf, x.
  destruct s; reflexivity.
Qed.

Lemma fin_eq0 : feq prec emax x f_zero = false.
Proof. unfold x. destruct s; reflexivity. Qed.

Lemma fin_flt0 : flt prec emax x f_zero = s.
Proof. unfold x. destruct s; reflexivity. Qed.

Lemma fin_fgt0 : fgt prec emax x f_zero = negb s.
Proof. unfold x. destruct s; reflexivity. Qed.

Lemma fin_abs : B2R (g_abs x) = Rabs r /\ is_finite (g_abs x) = true.
Proof.
  unfold Model.g_abs. rewrite fin_eq0, fin_flt0.
  pose proof fin_sign as Hs. fold r.
  destruct s.
  - unfold fneg. rewrite B2R_Bopp, is_finite_Bopp. fold r.
    rewrite Rabs_left by assumption. now split.
  - fold r. rewrite Rabs_pos_eq by lra. now split.
Qed.

Lemma fin_limit : fge prec emax (g_abs x) g_limit = Rle_bool (bpow radix2 (prec - 1)) (Rabs r).
Proof.
  destruct fin_abs as (A1 & A2). destruct g_limit_correct as (L1 & L2).
  unfold fge. rewrite Bleb_correct by assumption. now rewrite A1, L1.
Qed.

Lemma finite_not_nan : forall y : fl, is_finite y = true -> is_nan y = false.
Proof. now intros [ | | | ]. Qed.

(** a finite float with the right integer value and the sign of [x] is the spec value *)
Lemma nearbyint_char : forall md (y : fl),
  is_finite y = true ->
  B2R y = IZR (round_mode md r) ->
  Bsign y = s ->
  y = Bnearbyint md x.
Proof.
  intros md y Fy Vy Sy.
  destruct (Bnearbyint_correct prec emax Hpe md x) as (N1 & N2 & N3).
  change (is_finite x) with true in N2.
  apply B2R_Bsign_inj; trivial.
  - rewrite N1, round_FIX_IZR. exact Vy.
  - rewrite N3 by now apply finite_not_nan. exact Sy.
Qed.

(** large magnitude: [x] is an integer, the spec returns [x] *)
Lemma big_nearbyint : forall md, (bpow radix2 (prec - 1) <= Rabs r)%R -> Bnearbyint md x = x.
Proof.
  intros md Hbig. symmetry.
  apply nearbyint_char; trivial.
  rewrite <- round_FIX_IZR. symmetry.
  apply round_generic. apply valid_rnd_round_mode.
  apply generic_inclusion_ge with (fexp1 := ffexp) (e1 := prec - 1).
  - intros e' He'. unfold FIX_exp, SpecFloat.fexp. lia.
  - exact Hbig.
  - apply generic_format_B2R.
Qed.

(** small magnitude: the conversion to a 64-bit integer is defined *)
Lemma small_trunc : (Rabs r < bpow radix2 (prec - 1))%R -> Z.abs (Ztrunc r) < 2 ^ (prec - 1).
Proof.
  intros Hsmall.
  rewrite <- Ztrunc_abs. rewrite Ztrunc_floor by apply Rabs_pos.
  apply lt_IZR. apply Rle_lt_trans with (1 := Zfloor_lb _).
  change 2 with (radix_val radix2). rewrite IZR_Zpower by lia. exact Hsmall.
Qed.

Lemma Btrunc_fin : Btrunc x = Ztrunc r.
Proof.
  apply eq_IZR. rewrite Btrunc_correct by exact Hpe. now rewrite round_FIX_IZR.
Qed.

Lemma pow_prec_half : 2 ^ prec = 2 * 2 ^ (prec - 1).
Proof. rewrite <- Z.pow_succ_r by lia. f_equal. lia. Qed.

Lemma pow_half_le_63 : 2 ^ (prec - 1) <= 2 ^ 63.
Proof. apply Z.pow_le_mono_r; lia. Qed.

Lemma small_to_sint : (Rabs r < bpow radix2 (prec - 1))%R -> to_sint prec emax 64 x = Ok (Ztrunc r).
Proof.
  intros Hsmall. apply small_trunc in Hsmall.
  unfold to_sint, x. fold x. cbv zeta. rewrite Btrunc_fin.
  pose proof pow_half_le_63 as H63.
  unfold in_s. change (64 - 1) with 63.
  replace (- 2 ^ 63 <=? Ztrunc r) with true by (symmetry; apply Z.leb_le; lia).
  replace (Ztrunc r <? 2 ^ 63) with true by (symmetry; apply Z.ltb_lt; lia).
  reflexivity.
Qed.

(** * the integer branch *)
Section Small.
Hypothesis Hsmall : (Rabs r < bpow radix2 (prec - 1))%R.
Let z : Z := Ztrunc r.

Lemma z_small : Z.abs z < 2 ^ (prec - 1).
Proof. now apply small_trunc. Qed.

Lemma w_correct : B2R (of_Z z) = IZR z /\ is_finite (of_Z z) = true /\ Bsign (of_Z z) = (z <? 0).
Proof. apply of_Z_correct. pose proof z_small. pose proof pow_prec_half. lia. Qed.

Lemma bit_correct : forall b : bool, let n := if b then 1 else 0 in
  B2R (of_Z n) = IZR n /\ is_finite (of_Z n) = true /\ Bsign (of_Z n) = false.
Proof.
  intros b n. pose proof pow_prec_gt_1.
  destruct (of_Z_correct n) as (B1 & B2 & B3).
  { unfold n; destruct b; cbn; lia. }
  repeat split; trivial. rewrite B3. unfold n; now destruct b.
Qed.

Lemma z_neg : s = true -> z = Zceil r.
Proof. intros Hs. pose proof fin_sign as Hr. rewrite Hs in Hr. apply Ztrunc_ceil. lra. Qed.

Lemma z_pos : s = false -> z = Zfloor r.
Proof. intros Hs. pose proof fin_sign as Hr. rewrite Hs in Hr. apply Ztrunc_floor. lra. Qed.

Lemma small_floor : g_floor_int prec emax Hp Hpe x (of_Z z) = Bnearbyint mode_DN x.
Proof.
  destruct w_correct as (W1 & W2 & W3).
  pose proof z_small as Hz. pose proof pow_prec_half as Hhalf. pose proof pow_prec_gt_1 as Hgt1.
  unfold g_floor_int, g_floor_resid.
  rewrite fin_flt0.
  unfold flt at 1. rewrite Bltb_correct by trivial. rewrite W1. fold r.
  set (b := s && Rlt_bool r (IZR z)).
  destruct (bit_correct b) as (B1 & B2 & B3). cbv zeta in B1, B2, B3.
  set (n := if b then 1 else 0) in *.
  assert (Hn : 0 <= n <= 1) by (unfold n; destruct b; lia).
  destruct (fsub_int (of_Z z) (of_Z n) z n W2 B2 W1 B1) as (S1 & S2 & S3); [lia|].
  assert (Hfl : z - n = Zfloor r).
  { unfold n, b. destruct (Bool.bool_dec s true) as [Es|Es%Bool.not_true_is_false]; rewrite Es; cbn [andb].
    - rewrite (z_neg Es). symmetry. apply floor_from_ceil.
    - rewrite (z_pos Es). lia. }
  apply nearbyint_char; trivial.
  - cbn [round_mode]. now rewrite <- Hfl.
  - rewrite S3, Hfl, W3, B3.
    pose proof (Zfloor_lb r) as Hlb. pose proof (Zfloor_ub r) as Hub.
    pose proof fin_sign as Hr.
    destruct (Z.compare_spec (Zfloor r) 0) as [He|Hl|Hg].
    + rewrite He in Hlb, Hub.
      destruct (Bool.bool_dec s true) as [Es|Es%Bool.not_true_is_false]; rewrite Es in Hr |- *.
      * lra.
      * rewrite (z_pos Es), He. reflexivity.
    + assert (Hl' : (IZR (Zfloor r) + 1 <= 0)%R).
      { rewrite <- (plus_IZR _ 1). apply IZR_le. lia. }
      destruct (Bool.bool_dec s true) as [Es|Es%Bool.not_true_is_false]; rewrite Es in Hr |- *.
      * reflexivity.
      * lra.
    + apply IZR_lt in Hg.
      destruct (Bool.bool_dec s true) as [Es|Es%Bool.not_true_is_false]; rewrite Es in Hr |- *.
      * lra.
      * reflexivity.
Qed.

Lemma z_neg_le : s = true -> z <= 0.
Proof.
  intros Es. rewrite (z_neg Es). pose proof fin_sign as Hr. rewrite Es in Hr.
  apply Zceil_glb. simpl. lra.
Qed.

Lemma z_pos_ge : s = false -> 0 <= z.
Proof.
  intros Es. rewrite (z_pos Es). pose proof fin_sign as Hr. rewrite Es in Hr.
  apply Zfloor_lub. simpl. lra.
Qed.

Lemma small_ceil : g_ceil_int prec emax Hp Hpe x (of_Z z) = Bnearbyint mode_UP x.
Proof.
  destruct w_correct as (W1 & W2 & W3).
  pose proof z_small as Hz. pose proof pow_prec_half as Hhalf. pose proof pow_prec_gt_1 as Hgt1.
  pose proof fin_sign as Hr.
  pose proof (Zceil_ub r) as Hub. pose proof (Zceil_lb r) as Hlb.
  unfold g_ceil_int, g_ceil_resid.
  rewrite fin_flt0, fin_fgt0.
  unfold feq. rewrite Beqb_correct by trivial. rewrite W1.
  unfold fgt at 1. rewrite Bltb_correct by trivial. rewrite W1. fold r.
  change (B2R f_zero) with 0%R.
  destruct (Bool.bool_dec s true) as [Es|Es%Bool.not_true_is_false]; rewrite Es in Hr |- *; cbn [andb negb].
  - (* x < 0 *)
    pose proof (z_neg Es) as Hzc.
    destruct (Req_bool_spec (IZR z) 0) as [Hz0|Hz0].
    + apply eq_IZR in Hz0. rewrite Hz0.
      apply nearbyint_char; trivial.
      * cbn [round_mode]. rewrite <- Hzc, Hz0. reflexivity.
      * now rewrite Es.
    + destruct (bit_correct false) as (B1 & B2 & B3). cbv zeta iota in B1, B2, B3.
      destruct (fadd_int (of_Z z) (of_Z 0) z 0 W2 B2 W1 B1) as (S1 & S2 & S3); [lia|].
      rewrite Z.add_0_r in S1, S3.
      apply nearbyint_char; trivial.
      * cbn [round_mode]. now rewrite <- Hzc.
      * rewrite S3, Es. pose proof (z_neg_le Es) as Hle.
        destruct (Z.compare_spec z 0) as [He|Hl|Hg]; trivial.
        -- elim Hz0. now rewrite He.
        -- lia.
  - (* 0 < x *)
    pose proof (z_pos Es) as Hzf.
    set (b := Rlt_bool (IZR z) r).
    destruct (bit_correct b) as (B1 & B2 & B3). cbv zeta in B1, B2, B3.
    set (n := if b then 1 else 0) in *.
    assert (Hn : 0 <= n <= 1) by (unfold n; destruct b; lia).
    destruct (fadd_int (of_Z z) (of_Z n) z n W2 B2 W1 B1) as (S1 & S2 & S3); [lia|].
    assert (Hce : z + n = Zceil r).
    { unfold n, b. rewrite Hzf. symmetry. apply ceil_from_floor. }
    apply nearbyint_char; trivial.
    + cbn [round_mode]. now rewrite <- Hce.
    + rewrite S3, Hce, Es.
      destruct (Z.compare_spec (Zceil r) 0) as [He|Hl|Hg]; trivial.
      * rewrite He in Hub. lra.
      * apply IZR_lt in Hl. lra.
Qed.

Lemma small_to_sint_opp : to_sint prec emax 64 (fneg prec emax x) = Ok (- z).
Proof.
  pose proof z_small as Hz. pose proof pow_half_le_63 as H63.
  assert (Hb : Btrunc (Bopp x) = - z).
  { apply eq_IZR. rewrite Btrunc_correct by exact Hpe.
    rewrite round_FIX_IZR, B2R_Bopp. fold r. now rewrite Ztrunc_opp. }
  unfold to_sint, fneg. unfold x at 1. cbn [Bopp]. cbv zeta.
  change (B754_finite (negb s) m e H) with (Bopp x). rewrite Hb.
  unfold in_s. change (64 - 1) with 63.
  replace (- 2 ^ 63 <=? - z) with true by (symmetry; apply Z.leb_le; lia).
  replace (- z <? 2 ^ 63) with true by (symmetry; apply Z.ltb_lt; lia).
  reflexivity.
Qed.

Lemma small_trunc_int : g_trunc_int prec emax Hp Hpe x = Ok (Bnearbyint mode_ZR x).
Proof.
  pose proof z_small as Hz. pose proof pow_prec_half as Hhalf.
  unfold g_trunc_int. rewrite fin_flt0.
  destruct (Bool.bool_dec s true) as [Es|Es%Bool.not_true_is_false]; rewrite Es.
  - rewrite small_to_sint_opp. cbn [rbind]. f_equal.
    destruct (of_Z_correct (- z)) as (W1 & W2 & W3); [lia|].
    unfold fneg.
    apply nearbyint_char.
    + now rewrite is_finite_Bopp.
    + rewrite B2R_Bopp, W1, opp_IZR. cbn [round_mode]. fold z. ring.
    + rewrite Bsign_Bopp by now apply finite_not_nan.
      rewrite W3, Es. pose proof (z_neg_le Es).
      replace (- z <? 0) with false by (symmetry; apply Z.ltb_ge; lia). reflexivity.
  - rewrite small_to_sint by exact Hsmall. cbn [rbind]. f_equal. fold z.
    destruct w_correct as (W1 & W2 & W3).
    apply nearbyint_char.
    + exact W2.
    + exact W1.
    + fold z. rewrite W3, Es. pose proof (z_pos_ge Es). apply Z.ltb_ge. lia.
Qed.

End Small.

End Finite.

(** * the three kernels *)
Theorem g_floor_exact : forall x : fl,
  g_floor prec emax Hp Hpe x = Ok (spec_floor prec emax Hpe x).
Proof.
  intros [sx|sx| |s m e H]; unfold spec_floor.
  - destruct sx; reflexivity.
  - destruct sx; reflexivity.
  - reflexivity.
  - unfold g_floor.
    rewrite fin_is_nan, fin_is_finite, fin_eq0, fin_limit. cbn [negb].
    destruct (Rle_bool_spec (bpow radix2 (prec - 1)) (Rabs (B2R (B754_finite s m e H)))) as [Hbig|Hsmall].
    + now rewrite big_nearbyint.
    + rewrite small_to_sint by exact Hsmall. cbn [rbind]. f_equal.
      now apply small_floor.
Qed.

Theorem g_ceil_exact : forall x : fl,
  g_ceil prec emax Hp Hpe x = Ok (spec_ceil prec emax Hpe x).
Proof.
  intros [sx|sx| |s m e H]; unfold spec_ceil.
  - destruct sx; reflexivity.
  - destruct sx; reflexivity.
  - reflexivity.
  - unfold g_ceil.
    rewrite fin_is_nan, fin_is_finite, fin_eq0, fin_limit. cbn [negb].
    destruct (Rle_bool_spec (bpow radix2 (prec - 1)) (Rabs (B2R (B754_finite s m e H)))) as [Hbig|Hsmall].
    + now rewrite big_nearbyint.
    + rewrite small_to_sint by exact Hsmall. cbn [rbind]. f_equal.
      now apply small_ceil.
Qed.

Theorem g_trunc_exact : forall x : fl,
  g_trunc prec emax Hp Hpe x = Ok (spec_trunc prec emax Hpe x).
Proof.
  intros [sx|sx| |s m e H]; unfold spec_trunc.
  - destruct sx; reflexivity.
  - destruct sx; reflexivity.
  - reflexivity.
  - unfold g_trunc.
    rewrite fin_is_nan, fin_is_finite, fin_eq0, fin_limit. cbn [negb].
    destruct (Rle_bool_spec (bpow radix2 (prec - 1)) (Rabs (B2R (B754_finite s m e H)))) as [Hbig|Hsmall].
    + now rewrite big_nearbyint.
    + now apply small_trunc_int.
Qed.

End Fmt.

(** * the concrete formats *)
Corollary g_floor_exact_b32 : forall x : binary_float 24 128,
  g_floor 24 128 p32 pe32 x = Ok (spec_floor 24 128 pe32 x).
Proof. apply g_floor_exact. lia. Qed.
Corollary g_floor_exact_b64 : forall x : binary_float 53 1024,
  g_floor 53 1024 p64 pe64 x = Ok (spec_floor 53 1024 pe64 x).
Proof. apply g_floor_exact. lia. Qed.
Corollary g_ceil_exact_b32 : forall x : binary_float 24 128,
  g_ceil 24 128 p32 pe32 x = Ok (spec_ceil 24 128 pe32 x).
Proof. apply g_ceil_exact. lia. Qed.
Corollary g_ceil_exact_b64 : forall x : binary_float 53 1024,
  g_ceil 53 1024 p64 pe64 x = Ok (spec_ceil 53 1024 pe64 x).
Proof. apply g_ceil_exact. lia. Qed.
Corollary g_trunc_exact_b32 : forall x : binary_float 24 128,
  g_trunc 24 128 p32 pe32 x = Ok (spec_trunc 24 128 pe32 x).
Proof. apply g_trunc_exact. lia. Qed.
Corollary g_trunc_exact_b64 : forall x : binary_float 53 1024,
  g_trunc 53 1024 p64 pe64 x = Ok (spec_trunc 53 1024 pe64 x).
Proof. apply g_trunc_exact. lia. Qed.
(* x87 extended: prec = 64 is the largest precision the 64-bit conversion supports *)
Corollary g_floor_exact_b80 : forall x : binary_float 64 16384,
  g_floor 64 16384 p80 pe80 x = Ok (spec_floor 64 16384 pe80 x).
Proof. apply g_floor_exact. lia. Qed.
Corollary g_ceil_exact_b80 : forall x : binary_float 64 16384,
  g_ceil 64 16384 p80 pe80 x = Ok (spec_ceil 64 16384 pe80 x).
Proof. apply g_ceil_exact. lia. Qed.
Corollary g_trunc_exact_b80 : forall x : binary_float 64 16384,
  g_trunc 64 16384 p80 pe80 x = Ok (spec_trunc 64 16384 pe80 x).
Proof. apply g_trunc_exact. lia. Qed.

