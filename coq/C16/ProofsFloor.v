(* C16 — the gcem floor / ceil / trunc fall-back kernels compute exactly Flocq's
   Bnearbyint mode_DN / mode_UP / mode_ZR, for every value of every format with
   2 <= prec <= 64 (the integer conversion is to a 64-bit signed integer), and in
   particular never reach the undefined conversion. *)
From Coq Require Import ZArith Reals Bool Lia Lra Psatz.
From Flocq Require Import Core BinarySingleNaN.
From Tetl Require Import Lib.Base C16.Model C16.Spec.
Local Open Scope Z_scope.

Section Fmt.
Variables prec emax : Z.
Context (Hp : Prec_gt_0 prec) (Hpe : Prec_lt_emax prec emax).
Hypothesis Hprec : 2 <= prec <= 64.

Notation fl := (binary_float prec emax).
Notation femin := (SpecFloat.emin prec emax).
Notation ffexp := (SpecFloat.fexp prec emax).
Notation rnd := (round radix2 ffexp ZnearestE).

Local Notation of_Z := (of_Z prec emax Hp Hpe).
Local Notation f_zero := (f_zero prec emax Hp Hpe).
Local Notation f_one := (f_one prec emax Hp Hpe).
Local Notation f_eps := (f_eps prec emax Hp Hpe).
Local Notation g_limit := (g_limit prec emax Hp Hpe).
Local Notation pow2 := (pow2 prec emax Hp Hpe).
Local Notation g_abs := (g_abs prec emax Hp Hpe).

Lemma prec_lt_emax : prec < emax.
Proof. exact Hpe. Qed.

Lemma emin_le_0 : femin <= 0.
Proof. unfold SpecFloat.emin. pose proof prec_lt_emax. lia. Qed.

Instance valid_fexp : Valid_exp ffexp := fexp_correct prec emax Hp.

(** * integers of small magnitude are in the format *)
Lemma format_IZR : forall n : Z, Z.abs n < 2 ^ prec -> generic_format radix2 ffexp (IZR n).
Proof.
  intros n Hn.
  apply generic_format_FLT.
  apply FLT_spec with (f := Float radix2 n 0).
  - unfold F2R; cbn [Fnum Fexp bpow]. now rewrite Rmult_1_r.
  - exact Hn.
  - cbn [Fexp]. apply emin_le_0.
Qed.

Lemma IZR_lt_bpow_emax : forall n : Z, Z.abs n < 2 ^ prec -> (Rabs (IZR n) < bpow radix2 emax)%R.
Proof.
  intros n Hn.
  rewrite <- abs_IZR.
  apply Rlt_le_trans with (IZR (2 ^ prec)).
  - now apply IZR_lt.
  - change 2 with (radix_val radix2). rewrite IZR_Zpower by lia.
    apply bpow_le. pose proof prec_lt_emax. lia.
Qed.

Lemma f_zero_eq : f_zero = B754_zero false.
Proof. reflexivity. Qed.

(** [T(n)] for a small integer [n] is exact *)
Lemma of_Z_correct : forall n : Z, Z.abs n < 2 ^ prec ->
  B2R (of_Z n) = IZR n /\ is_finite (of_Z n) = true /\ Bsign (of_Z n) = (n <? 0).
Proof.
  intros n Hn.
  unfold Model.of_Z.
  generalize (binary_normalize_correct prec emax Hp Hpe mode_NE n 0 false).
  cbn zeta.
  assert (HF : F2R (Float radix2 n 0) = IZR n).
  { unfold F2R; cbn [Fnum Fexp bpow]. now rewrite Rmult_1_r. }
  rewrite HF.
  rewrite round_generic by (try apply valid_rnd_round_mode; now apply format_IZR).
  rewrite Rlt_bool_true by now apply IZR_lt_bpow_emax.
  intros (H1 & H2 & H3). repeat split; trivial.
  rewrite H3.
  destruct (Rcompare_spec (IZR n) 0) as [H|H|H].
  - apply lt_IZR in H. symmetry. apply Z.ltb_lt. exact H.
  - apply eq_IZR in H. subst n. reflexivity.
  - apply lt_IZR in H. symmetry. apply Z.ltb_ge. lia.
Qed.

(** * the literals *)
Lemma pow2_correct : forall e : Z, femin <= e < emax ->
  B2R (pow2 e) = bpow radix2 e /\ is_finite (pow2 e) = true /\ Bsign (pow2 e) = false.
Proof.
  intros e He.
  unfold Model.pow2.
  generalize (binary_normalize_correct prec emax Hp Hpe mode_NE 1 e false).
  cbn zeta.
  assert (HF : F2R (Float radix2 1 e) = bpow radix2 e).
  { unfold F2R; cbn [Fnum Fexp]. now rewrite Rmult_1_l. }
  rewrite HF.
  rewrite round_generic.
  2: apply valid_rnd_round_mode.
  2:{ apply generic_format_bpow. unfold SpecFloat.fexp. pose proof Hp as Hp'. red in Hp'. lia. }
  rewrite Rabs_pos_eq by apply bpow_ge_0.
  rewrite Rlt_bool_true by (apply bpow_lt; lia).
  intros (H1 & H2 & H3). repeat split; trivial.
  rewrite H3. rewrite Rcompare_Gt; trivial. apply bpow_gt_0.
Qed.

Lemma pow_prec_gt_1 : 1 < 2 ^ prec.
Proof. apply Z.pow_gt_1; lia. Qed.

Lemma f_one_correct : B2R f_one = 1%R /\ is_finite f_one = true /\ Bsign f_one = false.
Proof.
  unfold Model.f_one. apply (of_Z_correct 1). pose proof pow_prec_gt_1. lia.
Qed.

Lemma g_limit_correct :
  B2R g_limit = bpow radix2 (prec - 1) /\ is_finite g_limit = true.
Proof.
  unfold Model.g_limit, fdiv.
  pose proof prec_lt_emax as Hlt.
  destruct f_one_correct as (O1 & O2 & O3).
  destruct (pow2_correct (1 - prec)) as (E1 & E2 & E3).
  { unfold SpecFloat.emin. lia. }
  fold f_eps in E1, E2, E3.
  generalize (Bdiv_correct prec emax Hp Hpe mode_NE f_one f_eps).
  rewrite O1, E1, O2.
  replace (1 / bpow radix2 (1 - prec))%R with (bpow radix2 (prec - 1)).
  2:{ unfold Rdiv. rewrite Rmult_1_l, <- bpow_opp. f_equal. lia. }
  rewrite round_generic.
  2: apply valid_rnd_round_mode.
  2:{ apply generic_format_bpow. unfold SpecFloat.fexp, SpecFloat.emin. lia. }
  rewrite Rabs_pos_eq by apply bpow_ge_0.
  rewrite Rlt_bool_true by (apply bpow_lt; lia).
  intros H. destruct H as (H1 & H2 & _).
  { apply Rgt_not_eq, bpow_gt_0. }
  split; assumption.
Qed.

(** * the guards of the ladder on a finite non-zero [x] *)
Section Finite.
Variables (s : bool) (m : positive) (e : Z) (H : SpecFloat.bounded prec emax m e = true).
Let x : fl := B754_finite s m e H.
Let r : R := B2R x.

Lemma fin_sign : if s then (r < 0)%R else (0 < r)%R.
Proof.
  unfold r, x, B2R. destruct s; cbn [cond_Zopp].
  - now apply F2R_lt_0.
  - now apply F2R_gt_0.
Qed.

Lemma fin_neq_0 : r <> 0%R.
Proof. pose proof fin_sign as Hs. destruct s; lra. Qed.

Lemma fin_lt0 : Rlt_bool r 0 = s.
Proof.
  pose proof fin_sign as Hs. destruct s.
  - now apply Rlt_bool_true.
  - apply Rlt_bool_false; lra.
Qed.

Lemma fin_gt0 : Rlt_bool 0 r = negb s.
Proof.
  pose proof fin_sign as Hs. destruct s.
  - apply Rlt_bool_false; lra.
  - now apply Rlt_bool_true.
Qed.

Lemma fin_is_nan : g_is_nan prec emax x = false.
Proof. unfold g_is_nan, fne. now rewrite Beqb_refl. Qed.

Lemma fin_is_finite : g_is_finite prec emax x = true.
Proof.
  unfold g_is_finite. rewrite fin_is_nan.
  unfold g_is_inf, g_is_neginf, g_is_posinf, feq, fneg, f_inf, x.
  destruct s; reflexivity.
Qed.

Lemma fin_eq0 : feq prec emax x f_zero = false.
Proof. unfold x. destruct s; reflexivity. Qed.

Lemma fin_flt0 : flt prec emax x f_zero = s.
Proof. unfold x. destruct s; reflexivity. Qed.

Lemma fin_fgt0 : fgt prec emax x f_zero = negb s.
Proof. unfold x. destruct s; reflexivity. Qed.

Lemma fin_abs : B2R (g_abs x) = Rabs r /\ is_finite (g_abs x) = true.
Proof.
  unfold Model.g_abs. rewrite fin_eq0, fin_flt0.
  pose proof fin_sign as Hs. fold r.
  destruct s.
  - unfold fneg. rewrite B2R_Bopp, is_finite_Bopp. fold r.
    rewrite Rabs_left by assumption. now split.
  - fold r. rewrite Rabs_pos_eq by lra. now split.
Qed.

Lemma fin_limit : fge prec emax (g_abs x) g_limit = Rle_bool (bpow radix2 (prec - 1)) (Rabs r).
Proof.
  destruct fin_abs as (A1 & A2). destruct g_limit_correct as (L1 & L2).
  unfold fge. rewrite Bleb_correct by assumption. now rewrite A1, L1.
Qed.

End Finite.

End Fmt.
