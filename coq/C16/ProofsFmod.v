(* C16 — gcem fmod (after the exact rewrite): the fuelled long-division model (Model.g_fmod)
   returns exactly the C / IEC 60559 fmod (Spec.spec_fmod) on EVERY pair of values of every format
   with 2 <= prec, whenever it does not run out of fuel: every doubling, halving and subtraction of
   the loop is exact (Sterbenz), the partial remainder stays congruent to |x| modulo |y|, and ends
   below |y|. *)
From Coq Require Import ZArith Bool Lia Lra Reals.
From Flocq Require Import Core BinarySingleNaN Sterbenz Mult_error.
From Tetl Require Import Lib.Base C16.Model C16.Spec C16.ProofsRound C16.ProofsMidpoint.
From Tetl Require C16.ProofsBasic.
Local Open Scope R_scope.

Section Fmt.
Variables prec emax : Z.
Context (Hp : Prec_gt_0 prec) (Hpe : Prec_lt_emax prec emax).
Hypothesis Hprec2 : (2 <= prec)%Z.
Notation fl := (binary_float prec emax).
Notation emin := (SpecFloat.emin prec emax).
Notation fexp := (SpecFloat.fexp prec emax).
Notation format := (generic_format radix2 fexp).
Notation rnd := (round radix2 fexp ZnearestE).
Notation fadd := (Model.fadd prec emax Hp Hpe).
Notation fsub := (Model.fsub prec emax Hp Hpe).
Notation fmul := (Model.fmul prec emax Hp Hpe).
Notation half := (f_half prec emax Hp Hpe).
Notation zero := (f_zero prec emax Hp Hpe).
Notation Mx := (ProofsMidpoint.Mx prec emax).

Let Hpe' : (prec < emax)%Z := Hpe.
Let Hp' : (0 < prec)%Z := Hp.

(* x is finite and its value is r *)
Definition isv (x : fl) (r : R) : Prop := is_finite x = true /\ B2R x = r.

Lemma isv_format : forall x r, isv x r -> format r.
Proof. intros x r [_ <-]. apply generic_format_B2R. Qed.

Lemma isv_lt_emax : forall x r, isv x r -> Rabs r < bpow radix2 emax.
Proof. intros x r [_ <-]. apply abs_B2R_lt_emax. Qed.

Lemma isv_le_Mx : forall x r, isv x r -> Rabs r <= Mx.
Proof. intros x r [_ <-]. apply (ProofsMidpoint.fin_le_Mx prec emax Hp). Qed.

Lemma isv_half : isv half (/ 2).
Proof. destruct (half_correct prec emax Hp Hpe Hprec2) as (H1 & H2 & _). split; assumption. Qed.

(** * the exact steps of the loop *)
Lemma step_double : forall a A, isv a A -> 0 < A -> 2 * A <= Mx -> isv (fadd a a) (2 * A).
Proof.
  intros a A [Fa Ra] PA Hb.
  destruct (fadd_exact prec emax Hp Hpe a a Fa Fa) as (S1 & S2 & _).
  - rewrite Ra. replace (A + A) with (A * bpow radix2 1) by (cbn; lra).
    apply mult_bpow_pos_exact_FLT; [rewrite <- Ra; apply generic_format_B2R|lia].
  - rewrite Ra. rewrite Rabs_pos_eq by lra. generalize (ProofsMidpoint.Mx_lt prec emax). lra.
  - split; [exact S2|]. rewrite S1, Ra. ring.
Qed.

Lemma step_halve : forall a Y k, isv a (Y * bpow radix2 k) -> (1 <= k)%Z -> format Y ->
  isv (fmul a half) (Y * bpow radix2 (k - 1)).
Proof.
  intros a Y k [Fa Ra] Hk FY. destruct isv_half as [Fh Rh].
  assert (E : Y * bpow radix2 k * / 2 = Y * bpow radix2 (k - 1)).
  { unfold Zminus. rewrite bpow_plus. cbn. lra. }
  destruct (fmul_exact prec emax Hp Hpe a half Fa Fh) as (M1 & M2 & _).
  - rewrite Ra, Rh, E. apply mult_bpow_pos_exact_FLT; [exact FY|lia].
  - rewrite Ra, Rh, E. apply Rle_lt_trans with (Rabs (Y * bpow radix2 k)); [|rewrite <- Ra; apply abs_B2R_lt_emax].
    rewrite !Rabs_mult. apply Rmult_le_compat_l; [apply Rabs_pos|].
    rewrite !Rabs_pos_eq by apply bpow_ge_0. apply bpow_le. lia.
  - split; [exact M2|]. rewrite M1, Ra, Rh. exact E.
Qed.

Lemma step_sub : forall r a R A, isv r R -> Bsign r = false -> isv a A -> 0 < A -> A <= R < 2 * A ->
  isv (fsub r a) (R - A) /\ Bsign (fsub r a) = false.
Proof.
  intros r a R A [Fr Rr] Sr [Fa Ra] PA HR.
  assert (Ff : format (R - A)).
  { apply sterbenz; try typeclasses eauto.
    - rewrite <- Rr. apply generic_format_B2R.
    - rewrite <- Ra. apply generic_format_B2R.
    - lra. }
  generalize (Bminus_correct prec emax Hp Hpe mode_NE r a Fr Fa). rewrite Rr, Ra. cbn [round_mode].
  rewrite round_generic by (try typeclasses eauto; exact Ff).
  rewrite Rlt_bool_true.
  - intros (H1 & H2 & H3). unfold Model.fsub. split; [split; assumption|].
    rewrite H3, Sr. destruct (Rcompare_spec (R - A) 0); try reflexivity. exfalso. lra.
  - rewrite Rabs_pos_eq by lra. apply Rle_lt_trans with R; [lra|].
    rewrite <- Rr. apply Rle_lt_trans with (Rabs (B2R r)); [apply Rle_abs|apply abs_B2R_lt_emax].
Qed.

Lemma half_mul : forall r R, isv r R -> isv (fmul r half) (rnd (R / 2)) /\ Rabs (rnd (R / 2)) <= Mx / 2.
Proof.
  intros r R [Fr Rr]. destruct isv_half as [Fh Rh].
  assert (Hb : Rabs (rnd (R / 2)) <= Mx / 2).
  { apply abs_round_le_generic; try typeclasses eauto; [apply (ProofsMidpoint.format_half_Mx prec emax Hp Hpe Hprec2)|].
    unfold Rdiv. rewrite Rabs_mult, (Rabs_pos_eq (/ 2)) by lra.
    generalize (isv_le_Mx r R (conj Fr Rr)). lra. }
  split; [|exact Hb].
  generalize (Bmult_correct prec emax Hp Hpe mode_NE r half). rewrite Rr, Rh. cbn [round_mode].
  change (R * / 2) with (R / 2).
  rewrite Rlt_bool_true.
  - intros (H1 & H2 & _). unfold Model.fmul. split; [rewrite H2, Fr, Fh; reflexivity|exact H1].
  - generalize (ProofsMidpoint.Mx_lt prec emax) (ProofsMidpoint.Mx_pos prec emax Hprec2). lra.
Qed.

(** * the doubling loop *)
Lemma up_spec :
  forall fuel (r : fl) X Y, isv r X -> 0 < Y -> format Y ->
  forall (a a' : fl) k, isv a (Y * bpow radix2 k) -> (0 <= k)%Z ->
  g_fmod_up prec emax Hp Hpe fuel r a = Ok a' ->
  exists k', (0 <= k')%Z /\ isv a' (Y * bpow radix2 k') /\ X < 2 * (Y * bpow radix2 k').
Proof.
  induction fuel as [|fuel IH]; intros r X Y Vr PY FY a a' k Va Hk H; [discriminate H|].
  cbn [g_fmod_up] in H.
  destruct (half_mul r X Vr) as [[Fm Rm] Hm].
  assert (PA : 0 < Y * bpow radix2 k) by (apply Rmult_lt_0_compat; [exact PY|apply bpow_gt_0]).
  unfold fle in H. rewrite (Bleb_correct _ _ a _ (proj1 Va) Fm), (proj2 Va), Rm in H.
  destruct (Rle_bool_spec (Y * bpow radix2 k) (rnd (X / 2))) as [L|L].
  - (* a <= r/2: double *)
    apply (IH r X Y Vr PY FY (fadd a a) a' (k + 1)%Z); [|lia|exact H].
    replace (Y * bpow radix2 (k + 1)) with (2 * (Y * bpow radix2 k)) by (rewrite bpow_plus_1; cbn; ring).
    apply step_double; [exact Va|exact PA|].
    assert (rnd (X / 2) <= Rabs (rnd (X / 2))) by apply Rle_abs. lra.
  - (* exit: r/2 < a, also before rounding *)
    injection H as <-. exists k. split; [exact Hk|]. split; [exact Va|].
    destruct (Rle_dec (Y * bpow radix2 k) (X / 2)) as [C|C]; [|lra].
    exfalso. apply (Rlt_not_le _ _ L).
    rewrite <- (round_generic radix2 fexp ZnearestE (Y * bpow radix2 k)) by (apply (isv_format a); exact Va).
    apply round_le; try typeclasses eauto. exact C.
Qed.

(** * the subtraction loop *)
Lemma bpow_eq_1 : forall k, (0 <= k)%Z -> bpow radix2 k = 1 -> k = 0%Z.
Proof.
  intros k Hk H. destruct (Z.eq_dec k 0) as [E|E]; [exact E|exfalso].
  assert (bpow radix2 1 <= bpow radix2 k) by (apply bpow_le; lia). cbn in H0. lra.
Qed.

Lemma down_spec :
  forall fuel (ay : fl) X Y, isv ay Y -> 0 < Y ->
  forall (r a r' : fl) (sub : bool) R k m,
  isv r R -> Bsign r = false -> 0 <= R -> isv a (Y * bpow radix2 k) -> (0 <= k)%Z ->
  R < 2 * (Y * bpow radix2 k) -> X - R = IZR m * (2 * (Y * bpow radix2 k)) ->
  g_fmod_down prec emax Hp Hpe fuel ay r a = Ok (r', sub) ->
  exists R' q, isv r' R' /\ Bsign r' = false /\ 0 <= R' < Y /\ X - R' = IZR q * Y /\ Z.odd q = sub.
Proof.
  induction fuel as [|fuel IH]; intros ay X Y Vy PY r a r' sub R k m Vr Sr PR Va Hk Hlt Hcong H; [discriminate H|].
  cbn [g_fmod_down] in H.
  set (A := Y * bpow radix2 k) in *.
  assert (PA : 0 < A) by (apply Rmult_lt_0_compat; [exact PY|apply bpow_gt_0]).
  unfold fge in H. rewrite (Bleb_correct _ _ a r (proj1 Va) (proj1 Vr)), (proj2 Va), (proj2 Vr) in H.
  (* the new remainder *)
  set (s := Rle_bool A R) in *.
  set (rn := if s then fsub r a else r) in *.
  assert (Hrn : exists Rn, isv rn Rn /\ Bsign rn = false /\ 0 <= Rn < A /\ X - Rn = IZR (2 * m + (if s then 1 else 0)) * A).
  { unfold rn, s. destruct (Rle_bool_spec A R) as [L|L].
    - destruct (step_sub r a R A Vr Sr Va PA (conj L Hlt)) as [V S].
      exists (R - A). split; [exact V|]. split; [exact S|]. split; [lra|].
      rewrite plus_IZR, mult_IZR. cbn [IZR IPR]. lra.
    - exists R. split; [exact Vr|]. split; [exact Sr|]. split; [lra|].
      rewrite plus_IZR, mult_IZR. cbn [IZR IPR]. lra. }
  destruct Hrn as (Rn & Vn & Sn & Bn & Cn).
  unfold feq in H. rewrite (Beqb_correct _ _ a ay (proj1 Va) (proj1 Vy)), (proj2 Va), (proj2 Vy) in H.
  destruct (Req_bool_spec A Y) as [E|E].
  - (* a == ay: done *)
    injection H as <- <-.
    assert (k = 0%Z).
    { apply bpow_eq_1; [exact Hk|]. unfold A in E. apply (Rmult_eq_reg_l Y); lra. }
    exists Rn, (2 * m + (if s then 1 else 0))%Z. split; [exact Vn|]. split; [exact Sn|].
    split; [rewrite <- E; exact Bn|]. split; [rewrite <- E; exact Cn|].
    rewrite Z.add_comm, Z.odd_add_mul_2. destruct s; reflexivity.
  - (* halve a and continue *)
    assert (Hk1 : (1 <= k)%Z).
    { destruct (Z.eq_dec k 0) as [K0|K0]; [|lia]. exfalso. apply E. unfold A. rewrite K0. cbn. ring. }
    assert (FY : format Y) by (apply (isv_format ay); exact Vy).
    assert (EA : A = 2 * (Y * bpow radix2 (k - 1))).
    { unfold A. replace k with (k - 1 + 1)%Z at 1 by ring. rewrite bpow_plus_1. cbn. ring. }
    apply (IH ay X Y Vy PY rn (fmul a half) r' sub Rn (k - 1)%Z (2 * m + (if s then 1 else 0))%Z);
      [exact Vn|exact Sn|lra|apply step_halve; [exact Va|exact Hk1|exact FY]|lia| | |exact H].
    + rewrite <- EA. lra.
    + rewrite <- EA. exact Cn.
Qed.

(** * the whole division *)
Lemma fmod_exact_spec :
  forall fuel (ax ay r' : fl) (sub : bool) X Y,
  isv ax X -> Bsign ax = false -> isv ay Y -> 0 < Y -> Y <= X ->
  g_fmod_exact prec emax Hp Hpe fuel ax ay = Ok (r', sub) ->
  exists R' q, isv r' R' /\ Bsign r' = false /\ 0 <= R' < Y /\ X - R' = IZR q * Y /\ Z.odd q = sub.
Proof.
  intros fuel ax ay r' sub X Y Vx Sx Vy PY HXY H. unfold g_fmod_exact in H.
  destruct (g_fmod_up prec emax Hp Hpe fuel ax ay) as [a| | |] eqn:U; try discriminate H. cbn [rbind] in H.
  assert (FY : format Y) by (apply (isv_format ay); exact Vy).
  destruct (up_spec fuel ax X Y Vx PY FY ay a 0%Z) as (k & Hk & Va & Hlt); [cbn; rewrite Rmult_1_r; exact Vy|lia|exact U|].
  apply (down_spec fuel ay X Y Vy PY ax a r' sub X k 0%Z Vx Sx); try assumption; [lra|cbn; lra].
Qed.

(** * the specification side: X mod Y on aligned significands *)
Lemma abs_align : forall (s : bool) (m : positive) (ex : Z) (H : SpecFloat.bounded prec emax m ex = true) (e : Z),
  (e <= ex)%Z ->
  Rabs (B2R (B754_finite s m ex H : fl)) = IZR (Zpos m * 2 ^ (ex - e)) * bpow radix2 e.
Proof.
  intros s m ex H e He. cbn [B2R]. rewrite <- F2R_Zabs, abs_cond_Zopp. cbn [Z.abs].
  unfold F2R. cbn [Fnum Fexp]. rewrite mult_IZR. change 2%Z with (radix_val radix2).
  rewrite IZR_Zpower by lia. replace ex with (ex - e + e)%Z at 1 by ring. rewrite bpow_plus. ring.
Qed.

Lemma rem_unique : forall X Y r1 r2 q1 q2, 0 < Y -> 0 <= r1 < Y -> 0 <= r2 < Y ->
  X - r1 = IZR q1 * Y -> X - r2 = IZR q2 * Y -> r1 = r2 /\ q1 = q2.
Proof.
  intros X Y r1 r2 q1 q2 PY H1 H2 E1 E2.
  assert (E : r2 - r1 = IZR (q1 - q2) * Y) by (rewrite minus_IZR; lra).
  assert (Hq : (q1 - q2 = 0)%Z).
  { assert (-1 < IZR (q1 - q2) < 1).
    { split.
      - apply Rmult_lt_reg_r with Y; [exact PY|]. rewrite <- E. lra.
      - apply Rmult_lt_reg_r with Y; [exact PY|]. rewrite <- E. lra. }
    destruct H as [Ha Hb]. apply lt_IZR in Ha. apply lt_IZR in Hb. lia. }
  rewrite Hq in E. cbn in E. split; [lra|lia].
Qed.

Lemma isv_zero_pos_inv : forall x : fl, isv x 0 -> Bsign x = false -> x = B754_zero false.
Proof.
  intros [s|s| |s m e H] [Fx Rx] Sx; try discriminate.
  - cbn in Sx. subst s. reflexivity.
  - exfalso. cbn [B2R] in Rx. destruct s.
    + assert (F2R (Float radix2 (cond_Zopp true (Zpos m)) e) < 0) by (apply F2R_lt_0; reflexivity). lra.
    + assert (0 < F2R (Float radix2 (cond_Zopp false (Zpos m)) e)) by (apply F2R_gt_0; reflexivity). lra.
Qed.

(* the value of [of_exact]: a signed multiple of 2^e that is a value of the format *)
Lemma of_exact_correct : forall (s : bool) (m e : Z) (v : fl),
  (0 < m)%Z -> isv v (IZR m * bpow radix2 e) ->
  let z := of_exact prec emax Hp Hpe s m e in
  is_finite z = true /\ B2R z = (if s then - (IZR m * bpow radix2 e) else IZR m * bpow radix2 e) /\ Bsign z = s.
Proof.
  intros s m e v Pm Vv z. unfold z, of_exact.
  replace (m =? 0)%Z with false by (symmetry; apply Z.eqb_neq; lia).
  assert (Pv : 0 < IZR m * bpow radix2 e).
  { apply Rmult_lt_0_compat; [apply IZR_lt; exact Pm|apply bpow_gt_0]. }
  generalize (binary_normalize_correct prec emax Hp Hpe mode_NE (if s then (- m)%Z else m) e s). cbv zeta.
  assert (EF : F2R (Float radix2 (if s then (- m)%Z else m) e) = if s then - (IZR m * bpow radix2 e) else IZR m * bpow radix2 e).
  { unfold F2R. cbn [Fnum Fexp]. destruct s; [rewrite opp_IZR; ring|reflexivity]. }
  rewrite EF. cbn [round_mode].
  assert (Ff : format (if s then - (IZR m * bpow radix2 e) else IZR m * bpow radix2 e)).
  { destruct s; [apply generic_format_opp|]; apply (isv_format v); exact Vv. }
  rewrite round_generic by (try typeclasses eauto; exact Ff).
  rewrite Rlt_bool_true.
  - intros (H1 & H2 & H3). split; [exact H2|]. split; [exact H1|]. rewrite H3.
    destruct s; [rewrite Rcompare_Lt by lra|rewrite Rcompare_Gt by lra]; reflexivity.
  - destruct s; [rewrite Rabs_Ropp|]; apply (isv_lt_emax v); exact Vv.
Qed.

(** * the theorem *)
Notation gabs := (g_abs prec emax Hp Hpe).

Lemma gabs_isv : forall x : fl, is_finite x = true -> isv (gabs x) (Rabs (B2R x)) /\ Bsign (gabs x) = false.
Proof.
  intros x Fx. destruct (g_abs_correct prec emax Hp Hpe x Fx) as [A1 A2]. split; [split; assumption|].
  rewrite (ProofsBasic.g_abs_exact prec emax Hp Hpe x). unfold spec_fabs. destruct x; try discriminate; reflexivity.
Qed.

Theorem g_fmod_exact_thm :
  forall (x y v : fl), g_fmod prec emax Hp Hpe x y = Ok v -> v = spec_fmod prec emax Hp Hpe x y.
Proof.
  intros x y v. unfold g_fmod, g_fmod_invalid.
  rewrite (ProofsBasic.g_is_nan_exact prec emax x), (ProofsBasic.g_is_nan_exact prec emax y),
          (ProofsBasic.g_is_finite_exact prec emax x).
  unfold spec_isnan, spec_isfinite, feq. rewrite (zero_eq prec emax Hp Hpe).
  destruct x as [sx|sx| |sx mx ex Hx]; cbn [is_nan is_finite negb orb];
  destruct y as [sy|sy| |sy my ey Hy]; cbn [is_nan is_finite negb orb];
  try (intros H; injection H as <-; reflexivity);
  try (replace (Beqb (B754_zero sy : fl) (B754_zero false)) with true by (destruct sy; reflexivity);
       intros H; injection H as <-; reflexivity).
  - (* zero, infinity *)
    replace (Beqb (B754_infinity sy : fl) (B754_zero false)) with false by (destruct sy; reflexivity).
    cbv zeta. replace (fge prec emax (gabs (B754_zero sx)) (gabs (B754_infinity sy))) with false
      by (destruct sx, sy; reflexivity).
    cbn [negb]. intros H; injection H as <-; reflexivity.
  - (* zero, finite *)
    replace (Beqb (B754_finite sy my ey Hy : fl) (B754_zero false)) with false by (destruct sy; reflexivity).
    cbv zeta. replace (fge prec emax (gabs (B754_zero sx)) (gabs (B754_finite sy my ey Hy))) with false
      by (destruct sx, sy; reflexivity).
    cbn [negb]. intros H; injection H as <-; reflexivity.
  - (* finite, infinity *)
    replace (Beqb (B754_infinity sy : fl) (B754_zero false)) with false by (destruct sy; reflexivity).
    cbv zeta. replace (fge prec emax (gabs (B754_finite sx mx ex Hx)) (gabs (B754_infinity sy))) with false
      by (destruct sx, sy; reflexivity).
    cbn [negb]. intros H; injection H as <-; reflexivity.
  - (* finite, finite *)
    replace (Beqb (B754_finite sy my ey Hy : fl) (B754_zero false)) with false by (destruct sy; reflexivity).
    cbv zeta.
    set (x := B754_finite sx mx ex Hx : fl). set (y := B754_finite sy my ey Hy : fl).
    destruct (gabs_isv x eq_refl) as [Vx Sx]. destruct (gabs_isv y eq_refl) as [Vy Sy].
    set (e := Z.min ex ey).
    set (Xi := (Zpos mx * 2 ^ (ex - e))%Z). set (Yi := (Zpos my * 2 ^ (ey - e))%Z).
    assert (EX : Rabs (B2R x) = IZR Xi * bpow radix2 e) by (apply abs_align; unfold e; lia).
    assert (EY : Rabs (B2R y) = IZR Yi * bpow radix2 e) by (apply abs_align; unfold e; lia).
    assert (PXi : (0 < Xi)%Z) by (unfold Xi; apply Z.mul_pos_pos; [lia|apply Z.pow_pos_nonneg; unfold e; lia]).
    assert (PYi : (0 < Yi)%Z) by (unfold Yi; apply Z.mul_pos_pos; [lia|apply Z.pow_pos_nonneg; unfold e; lia]).
    assert (PY : 0 < Rabs (B2R y)).
    { rewrite EY. apply Rmult_lt_0_compat; [apply IZR_lt; exact PYi|apply bpow_gt_0]. }
    assert (PE : 0 < bpow radix2 e) by apply bpow_gt_0.
    (* the specification's remainder *)
    assert (Hmod := Z.mod_pos_bound Xi Yi PYi). assert (Hdm := Z.div_mod Xi Yi ltac:(lia)).
    set (Rs := IZR (Xi mod Yi) * bpow radix2 e).
    assert (BRs : 0 <= Rs < Rabs (B2R y)).
    { unfold Rs. rewrite EY. split.
      - apply Rmult_le_pos; [apply IZR_le; lia|lra].
      - apply Rmult_lt_compat_r; [exact PE|apply IZR_lt; lia]. }
    assert (CRs : Rabs (B2R x) - Rs = IZR (Xi / Yi) * Rabs (B2R y)).
    { unfold Rs. rewrite EX, EY. rewrite Hdm at 1. rewrite plus_IZR, mult_IZR. ring. }
    (* the sign test of the code *)
    assert (Nx : B2R x <> 0).
    { unfold x. cbn [B2R]. destruct sx; [apply Rlt_not_eq, F2R_lt_0|apply Rgt_not_eq, F2R_gt_0]; reflexivity. }
    assert (Hsx : flt prec emax x (B754_zero false) = sx).
    { rewrite <- (zero_eq prec emax Hp Hpe), (fin_lt0 prec emax Hp Hpe x eq_refl).
      rewrite <- (Bsign_finite prec emax x eq_refl Nx). reflexivity. }
    change (spec_fmod prec emax Hp Hpe x y) with (of_exact prec emax Hp Hpe sx (Xi mod Yi) e).
    unfold fge. rewrite (Bleb_correct _ _ (gabs y) (gabs x) (proj1 Vy) (proj1 Vx)), (proj2 Vy), (proj2 Vx).
    destruct (Rle_bool_spec (Rabs (B2R y)) (Rabs (B2R x))) as [L|L]; cbn [negb].
    + (* long division *)
      destruct (g_fmod_exact prec emax Hp Hpe (g_fuel prec emax) (gabs x) (gabs y)) as [[r' sub]| | |] eqn:G;
        cbn [rbind]; try discriminate.
      intros H; injection H as <-. cbn [fst]. rewrite Hsx.
      destruct (fmod_exact_spec _ _ _ _ _ _ _ Vx Sx Vy PY L G) as (R' & q & Vr & Sr & BR & CR & _).
      destruct (rem_unique _ _ R' Rs q (Xi / Yi)%Z PY BR BRs CR CRs) as [ER _].
      destruct (Z.eq_dec (Xi mod Yi) 0) as [M0|M0].
      * (* zero remainder: sign of x *)
        unfold of_exact. rewrite M0. cbn [Z.eqb].
        assert (R0 : R' = 0) by (rewrite ER; unfold Rs; rewrite M0; cbn; ring).
        rewrite R0 in Vr. rewrite (isv_zero_pos_inv r' Vr Sr). destruct sx; reflexivity.
      * assert (Pm : (0 < Xi mod Yi)%Z) by lia.
        rewrite ER in Vr. fold Rs in Vr.
        destruct (of_exact_correct sx (Xi mod Yi) e r' Pm Vr) as (Z1 & Z2 & Z3).
        fold Rs in Z2.
        destruct Vr as [Fr Rr].
        apply B2R_Bsign_inj.
        -- destruct sx; [unfold fneg; rewrite is_finite_Bopp|]; exact Fr.
        -- exact Z1.
        -- rewrite Z2. destruct sx; [unfold fneg; rewrite B2R_Bopp, Rr|rewrite Rr]; reflexivity.
        -- rewrite Z3. destruct sx; [unfold fneg; rewrite Bsign_Bopp, Sr by (destruct r'; try discriminate; reflexivity)|rewrite Sr]; reflexivity.
    + (* |x| < |y|: x itself *)
      intros H; injection H as <-.
      assert (Hlt : (Xi < Yi)%Z).
      { apply lt_IZR. apply Rmult_lt_reg_r with (bpow radix2 e); [exact PE|]. rewrite <- EX, <- EY. exact L. }
      rewrite Z.mod_small by lia.
      assert (Vax : isv (gabs x) (IZR Xi * bpow radix2 e)) by (rewrite <- EX; exact Vx).
      destruct (of_exact_correct sx Xi e (gabs x) PXi Vax) as (Z1 & Z2 & Z3).
      symmetry. apply B2R_Bsign_inj; [exact Z1|reflexivity| |exact Z3].
      rewrite Z2, <- EX. unfold x. cbn [B2R].
      destruct sx.
      * rewrite Rabs_left by (apply F2R_lt_0; reflexivity). ring.
      * rewrite Rabs_pos_eq by (apply F2R_ge_0; cbn; lia). reflexivity.
Qed.

(** * remainder: the comparison of r with the rounded |y| - r decides like 2r against |y| *)
Lemma cmp_sub : forall R Y, format R -> format Y -> 0 <= R < Y ->
  Rlt_bool (rnd (Y - R)) R = Rlt_bool (Y - R) R /\ Req_bool R (rnd (Y - R)) = Req_bool R (Y - R).
Proof.
  intros R Y FR FY HR.
  destruct (Rtotal_order (Y - R) R) as [L|[E|G]].
  - (* R > Y/2: the difference is exact *)
    rewrite (round_generic radix2 fexp ZnearestE (Y - R)); [split; reflexivity|].
    apply sterbenz; try typeclasses eauto; [exact FY|exact FR|lra].
  - rewrite E. rewrite (round_generic radix2 fexp ZnearestE R) by (first [typeclasses eauto|exact FR]). split; reflexivity.
  - (* R < Y/2: the rounded difference stays above R *)
    assert (Hu : R < rnd (Y - R)).
    { destruct (Req_dec R 0) as [R0|R0].
      - rewrite R0, Rminus_0_r. rewrite round_generic by (first [typeclasses eauto|exact FY]). lra.
      - assert (F2 : format (2 * R)).
        { replace (2 * R) with (R * bpow radix2 1) by (cbn; lra). apply mult_bpow_pos_exact_FLT; [exact FR|lia]. }
        assert (S2 : succ radix2 fexp (2 * R) <= Y) by (apply succ_le_lt; try typeclasses eauto; [exact F2|exact FY|lra]).
        rewrite succ_eq_pos in S2 by lra.
        assert (U : ulp radix2 fexp R <= ulp radix2 fexp (2 * R)) by (apply ulp_le_pos; try typeclasses eauto; lra).
        assert (SR : succ radix2 fexp R <= Y - R) by (rewrite succ_eq_pos by lra; lra).
        apply Rlt_le_trans with (succ radix2 fexp R); [apply succ_gt_id; exact R0|].
        rewrite <- (round_generic radix2 fexp ZnearestE (succ radix2 fexp R)) by (first [typeclasses eauto|apply generic_format_succ; [typeclasses eauto|exact FR]]).
        apply round_le; try typeclasses eauto. exact SR. }
    split.
    + rewrite !Rlt_bool_false by lra. reflexivity.
    + rewrite !Req_bool_false by lra. reflexivity.
Qed.

Theorem g_remainder_exact_thm :
  forall (x y v : fl), g_remainder prec emax Hp Hpe x y = Ok v -> v = spec_remainder prec emax Hp Hpe x y.
Proof.
  intros x y v. unfold g_remainder, g_fmod_invalid.
  rewrite (ProofsBasic.g_is_nan_exact prec emax x), (ProofsBasic.g_is_nan_exact prec emax y),
          (ProofsBasic.g_is_finite_exact prec emax x), (ProofsBasic.g_is_finite_exact prec emax y).
  unfold spec_isnan, spec_isfinite, feq. rewrite (zero_eq prec emax Hp Hpe).
  destruct x as [sx|sx| |sx mx ex Hx]; cbn [is_nan is_finite negb orb];
  destruct y as [sy|sy| |sy my ey Hy]; cbn [is_nan is_finite negb orb];
  try (intros H; injection H as <-; reflexivity);
  try (replace (Beqb (B754_zero sy : fl) (B754_zero false)) with true by (destruct sy; reflexivity);
       intros H; injection H as <-; reflexivity);
  try (replace (Beqb (B754_infinity sy : fl) (B754_zero false)) with false by (destruct sy; reflexivity);
       intros H; injection H as <-; reflexivity).
  - (* zero, finite *)
    replace (Beqb (B754_finite sy my ey Hy : fl) (B754_zero false)) with false by (destruct sy; reflexivity).
    replace (Beqb (B754_zero sx : fl) (B754_zero false)) with true by (destruct sx; reflexivity).
    intros H; injection H as <-; reflexivity.
  - (* finite, finite *)
    replace (Beqb (B754_finite sy my ey Hy : fl) (B754_zero false)) with false by (destruct sy; reflexivity).
    replace (Beqb (B754_finite sx mx ex Hx : fl) (B754_zero false)) with false by (destruct sx; reflexivity).
    cbv zeta.
    set (x := B754_finite sx mx ex Hx : fl). set (y := B754_finite sy my ey Hy : fl).
    destruct (gabs_isv x eq_refl) as [Vx Sx]. destruct (gabs_isv y eq_refl) as [Vy Sy].
    set (e := Z.min ex ey).
    set (Xi := (Zpos mx * 2 ^ (ex - e))%Z). set (Yi := (Zpos my * 2 ^ (ey - e))%Z).
    assert (EX : Rabs (B2R x) = IZR Xi * bpow radix2 e) by (apply abs_align; unfold e; lia).
    assert (EY : Rabs (B2R y) = IZR Yi * bpow radix2 e) by (apply abs_align; unfold e; lia).
    assert (PXi : (0 < Xi)%Z) by (unfold Xi; apply Z.mul_pos_pos; [lia|apply Z.pow_pos_nonneg; unfold e; lia]).
    assert (PYi : (0 < Yi)%Z) by (unfold Yi; apply Z.mul_pos_pos; [lia|apply Z.pow_pos_nonneg; unfold e; lia]).
    assert (PE : 0 < bpow radix2 e) by apply bpow_gt_0.
    assert (PY : 0 < Rabs (B2R y)).
    { rewrite EY. apply Rmult_lt_0_compat; [apply IZR_lt; exact PYi|exact PE]. }
    assert (Hmod := Z.mod_pos_bound Xi Yi PYi). assert (Hdm := Z.div_mod Xi Yi ltac:(lia)).
    set (ri := (Xi mod Yi)%Z) in *. set (qi := (Xi / Yi)%Z) in *.
    set (Rs := IZR ri * bpow radix2 e).
    assert (BRs : 0 <= Rs < Rabs (B2R y)).
    { unfold Rs. rewrite EY. split.
      - apply Rmult_le_pos; [apply IZR_le; lia|lra].
      - apply Rmult_lt_compat_r; [exact PE|apply IZR_lt; lia]. }
    assert (CRs : Rabs (B2R x) - Rs = IZR qi * Rabs (B2R y)).
    { unfold Rs. rewrite EX, EY. rewrite Hdm at 1. rewrite plus_IZR, mult_IZR. ring. }
    assert (Nx : B2R x <> 0).
    { unfold x. cbn [B2R]. destruct sx; [apply Rlt_not_eq, F2R_lt_0|apply Rgt_not_eq, F2R_gt_0]; reflexivity. }
    assert (Hsx : flt prec emax x (B754_zero false) = sx).
    { rewrite <- (zero_eq prec emax Hp Hpe), (fin_lt0 prec emax Hp Hpe x eq_refl).
      rewrite <- (Bsign_finite prec emax x eq_refl Nx). reflexivity. }
    change (spec_remainder prec emax Hp Hpe x y) with
      (let r' := if (Yi <? 2 * ri)%Z || ((Yi =? 2 * ri)%Z && Z.odd qi) then (ri - Yi)%Z else ri in
       if (r' =? 0)%Z then (B754_zero sx : fl) else of_exact prec emax Hp Hpe (xorb sx (r' <? 0)%Z) (Z.abs r') e).
    (* the remainder of the division and the parity of the quotient, from the code *)
    set (D := if fge prec emax (gabs x) (gabs y) then g_fmod_exact prec emax Hp Hpe (g_fuel prec emax) (gabs x) (gabs y)
              else Ok (gabs x, false)).
    destruct D as [[r sub]| | |] eqn:ED; cbn [rbind]; try discriminate.
    assert (HD : isv r Rs /\ Bsign r = false /\ Z.odd qi = sub).
    { unfold D in ED. unfold fge in ED.
      rewrite (Bleb_correct _ _ (gabs y) (gabs x) (proj1 Vy) (proj1 Vx)), (proj2 Vy), (proj2 Vx) in ED.
      destruct (Rle_bool_spec (Rabs (B2R y)) (Rabs (B2R x))) as [L|L].
      - destruct (fmod_exact_spec _ _ _ _ _ _ _ Vx Sx Vy PY L ED) as (R' & q & Vr & Sr & BR & CR & Oq).
        destruct (rem_unique _ _ R' Rs q qi PY BR BRs CR CRs) as [ER EQ].
        rewrite <- ER, <- EQ. tauto.
      - injection ED as <- <-.
        assert (Hlt : (Xi < Yi)%Z).
        { apply lt_IZR. apply Rmult_lt_reg_r with (bpow radix2 e); [exact PE|]. rewrite <- EX, <- EY. exact L. }
        assert (ri = Xi) by (unfold ri; apply Z.mod_small; lia).
        assert (qi = 0%Z) by (unfold qi; apply Z.div_small; lia).
        split; [|split; [exact Sx|rewrite H0; reflexivity]].
        unfold Rs. rewrite H, <- EX. exact Vx. }
    destruct HD as (Vr & Sr & Oq). cbn [fst snd].
    intros H; injection H as <-. rewrite Hsx.
    (* the decision *)
    assert (FRs : format Rs) by (apply (isv_format r); exact Vr).
    assert (FY : format (Rabs (B2R y))) by (apply (isv_format (gabs y)); exact Vy).
    destruct (cmp_sub Rs (Rabs (B2R y)) FRs FY BRs) as [C1 C2].
    generalize (Bminus_correct prec emax Hp Hpe mode_NE (gabs y) r (proj1 Vy) (proj1 Vr)).
    rewrite (proj2 Vy), (proj2 Vr). cbn [round_mode].
    rewrite Rlt_bool_true.
    2:{ apply Rle_lt_trans with (Rabs (B2R y)); [|apply abs_B2R_lt_emax].
        apply abs_round_le_generic; try typeclasses eauto; [exact FY|]. rewrite Rabs_pos_eq; lra. }
    intros (U1 & U2 & _). change (Bminus mode_NE (gabs y) r) with (fsub (gabs y) r) in U1, U2.
    unfold fgt, feq. rewrite (Bltb_correct _ _ _ r U2 (proj1 Vr)), (Beqb_correct _ _ r _ (proj1 Vr) U2), U1, (proj2 Vr), C1, C2.
    (* the same decision on the integers *)
    assert (D1 : Rlt_bool (Rabs (B2R y) - Rs) Rs = (Yi <? 2 * ri)%Z).
    { unfold Rs. rewrite EY. destruct (Z.ltb_spec Yi (2 * ri)) as [Z1|Z1].
      - apply Rlt_bool_true. apply IZR_lt in Z1. rewrite mult_IZR in Z1. cbn [IZR IPR] in Z1. nra.
      - apply Rlt_bool_false. apply IZR_le in Z1. rewrite mult_IZR in Z1. cbn [IZR IPR] in Z1. nra. }
    assert (D2 : Req_bool Rs (Rabs (B2R y) - Rs) = (Yi =? 2 * ri)%Z).
    { unfold Rs. rewrite EY. destruct (Z.eqb_spec Yi (2 * ri)) as [Z1|Z1].
      - apply Req_bool_true. rewrite Z1, mult_IZR. cbn [IZR IPR]. ring.
      - apply Req_bool_false. intros Hc. apply Z1. apply eq_IZR. rewrite mult_IZR. cbn [IZR IPR].
        apply (Rmult_eq_reg_r (bpow radix2 e)); lra. }
    rewrite D1, D2, <- Oq.
    destruct ((Yi <? 2 * ri)%Z || ((Yi =? 2 * ri)%Z && Z.odd qi)) eqn:Dec; cbv zeta.
    + (* one more subtraction: r - |y|, negative, exact *)
      assert (Hhalf : (Yi <= 2 * ri)%Z).
      { apply orb_prop in Dec. destruct Dec as [Dc|Dc]; [apply Z.ltb_lt in Dc; lia|].
        apply andb_prop in Dc. destruct Dc as [Dc _]. apply Z.eqb_eq in Dc. lia. }
      assert (HhalfR : Rabs (B2R y) / 2 <= Rs).
      { unfold Rs. rewrite EY. apply IZR_le in Hhalf. rewrite mult_IZR in Hhalf. cbn [IZR IPR] in Hhalf. nra. }
      assert (Fd : format (Rs - Rabs (B2R y))) by (apply sterbenz; try typeclasses eauto; [exact FRs|exact FY|lra]).
      generalize (Bminus_correct prec emax Hp Hpe mode_NE r (gabs y) (proj1 Vr) (proj1 Vy)).
      rewrite (proj2 Vy), (proj2 Vr). cbn [round_mode]. rewrite round_generic by (try typeclasses eauto; exact Fd).
      rewrite Rlt_bool_true.
      2:{ rewrite Rabs_left1 by lra. apply Rle_lt_trans with (Rabs (B2R y)); [lra|apply abs_B2R_lt_emax]. }
      rewrite Rcompare_Lt by lra.
      intros (V1 & V2 & V3). change (Bminus mode_NE r (gabs y)) with (fsub r (gabs y)) in V1, V2, V3.
      replace ((ri - Yi =? 0)%Z) with false by (symmetry; apply Z.eqb_neq; lia).
      replace ((ri - Yi <? 0)%Z) with true by (symmetry; apply Z.ltb_lt; lia).
      replace (Z.abs (ri - Yi)) with (Yi - ri)%Z by lia.
      assert (Vn : isv (fneg prec emax (fsub r (gabs y))) (IZR (Yi - ri) * bpow radix2 e)).
      { split; [unfold fneg; rewrite is_finite_Bopp; exact V2|].
        unfold fneg. rewrite B2R_Bopp, V1. unfold Rs. rewrite EY, minus_IZR. ring. }
      destruct (of_exact_correct (xorb sx true) (Yi - ri) e _ ltac:(lia) Vn) as (Z1 & Z2 & Z3).
      assert (NN : is_nan (fsub r (gabs y)) = false) by (destruct (fsub r (gabs y)); try discriminate V2; reflexivity).
      apply B2R_Bsign_inj.
      * destruct sx; [unfold fneg; rewrite is_finite_Bopp|]; exact V2.
      * exact Z1.
      * rewrite Z2. destruct sx; cbn [xorb negb].
        -- unfold fneg. rewrite B2R_Bopp, V1. unfold Rs. rewrite EY, minus_IZR. ring.
        -- rewrite V1. unfold Rs. rewrite EY, minus_IZR. ring.
      * rewrite Z3. destruct sx; cbn [xorb negb].
        -- unfold fneg. rewrite Bsign_Bopp, V3 by exact NN. reflexivity.
        -- exact V3.
    + (* no further subtraction: as for fmod *)
      destruct (Z.eq_dec ri 0) as [M0|M0].
      * rewrite M0. cbn [Z.eqb].
        assert (R0 : Rs = 0) by (unfold Rs; rewrite M0; cbn; ring).
        rewrite R0 in Vr. rewrite (isv_zero_pos_inv r Vr Sr). destruct sx; reflexivity.
      * assert (Pm : (0 < ri)%Z) by lia.
        replace ((ri =? 0)%Z) with false by (symmetry; apply Z.eqb_neq; lia).
        replace ((ri <? 0)%Z) with false by (symmetry; apply Z.ltb_ge; lia).
        rewrite xorb_false_r, Z.abs_eq by lia.
        destruct (of_exact_correct sx ri e r Pm Vr) as (Z1 & Z2 & Z3). fold Rs in Z2.
        destruct Vr as [Fr Rr].
        apply B2R_Bsign_inj.
        -- destruct sx; [unfold fneg; rewrite is_finite_Bopp|]; exact Fr.
        -- exact Z1.
        -- rewrite Z2. destruct sx; [unfold fneg; rewrite B2R_Bopp, Rr|rewrite Rr]; reflexivity.
        -- rewrite Z3. destruct sx; [unfold fneg; rewrite Bsign_Bopp, Sr by (destruct r; try discriminate; reflexivity)|rewrite Sr]; reflexivity.
Qed.

(** * the fuel is sufficient: the loops run at most once per binade *)
Definition Kmax : Z := (emax - 1 - emin)%Z.

Lemma pos_ge_emin : forall Y, 0 < Y -> format Y -> bpow radix2 emin <= Y.
Proof.
  intros Y PY FY. apply (generic_format_ge_bpow radix2 fexp emin); [|exact PY|exact FY].
  intros e. unfold SpecFloat.fexp. lia.
Qed.

(* a finite Y 2^k has k <= Kmax *)
Lemma scale_bound : forall (a : fl) Y k, isv a (Y * bpow radix2 k) -> 0 < Y -> format Y -> (k <= Kmax)%Z.
Proof.
  intros a Y k Va PY FY. destruct (Z_le_gt_dec k Kmax) as [L|G]; [exact L|exfalso].
  assert (bpow radix2 emax <= Y * bpow radix2 k).
  { replace emax with (emin + (Kmax + 1))%Z at 1 by (unfold Kmax; ring). rewrite bpow_plus.
    apply Rmult_le_compat; try apply bpow_ge_0; [apply pos_ge_emin; assumption|apply bpow_le; lia]. }
  generalize (isv_lt_emax a _ Va). rewrite Rabs_pos_eq; [lra|].
  apply Rmult_le_pos; [lra|apply bpow_ge_0].
Qed.

Lemma up_total :
  forall fuel (r : fl) X Y, isv r X -> 0 < Y -> format Y ->
  forall (a : fl) k, isv a (Y * bpow radix2 k) -> (0 <= k)%Z -> (Kmax - k < Z.of_nat fuel)%Z ->
  exists a', g_fmod_up prec emax Hp Hpe fuel r a = Ok a'.
Proof.
  induction fuel as [|fuel IH]; intros r X Y Vr PY FY a k Va Hk Hf.
  - exfalso. generalize (scale_bound a Y k Va PY FY). cbn in Hf. lia.
  - cbn [g_fmod_up].
    destruct (half_mul r X Vr) as [[Fm Rm] Hm].
    assert (PA : 0 < Y * bpow radix2 k) by (apply Rmult_lt_0_compat; [exact PY|apply bpow_gt_0]).
    unfold fle. rewrite (Bleb_correct _ _ a _ (proj1 Va) Fm), (proj2 Va), Rm.
    destruct (Rle_bool_spec (Y * bpow radix2 k) (rnd (X / 2))) as [L|L]; [|eexists; reflexivity].
    apply (IH r X Y Vr PY FY (fadd a a) (k + 1)%Z); [|lia|lia].
    replace (Y * bpow radix2 (k + 1)) with (2 * (Y * bpow radix2 k)) by (rewrite bpow_plus_1; cbn; ring).
    apply step_double; [exact Va|exact PA|].
    assert (rnd (X / 2) <= Rabs (rnd (X / 2))) by apply Rle_abs. lra.
Qed.

Lemma down_total :
  forall fuel (ay : fl) Y, isv ay Y -> 0 < Y ->
  forall (r a : fl) k, is_finite r = true -> isv a (Y * bpow radix2 k) -> (0 <= k)%Z -> (k < Z.of_nat fuel)%Z ->
  exists res, g_fmod_down prec emax Hp Hpe fuel ay r a = Ok res.
Proof.
  induction fuel as [|fuel IH]; intros ay Y Vy PY r a k Fr Va Hk Hf; [exfalso; cbn in Hf; lia|].
  cbn [g_fmod_down]. unfold feq.
  rewrite (Beqb_correct _ _ a ay (proj1 Va) (proj1 Vy)), (proj2 Va), (proj2 Vy).
  destruct (Req_bool_spec (Y * bpow radix2 k) Y) as [E|E]; [eexists; reflexivity|].
  assert (Hk1 : (1 <= k)%Z).
  { destruct (Z.eq_dec k 0) as [K0|K0]; [|lia]. exfalso. apply E. rewrite K0. cbn. ring. }
  assert (FY : format Y) by (apply (isv_format ay); exact Vy).
  apply (IH ay Y Vy PY _ (fmul a half) (k - 1)%Z); [|apply step_halve; [exact Va|exact Hk1|exact FY]|lia|lia].
  (* the partial remainder stays finite: r, or r - a with both finite and the difference bounded by r *)
  destruct (fge prec emax r a) eqn:G; [|exact Fr].
  unfold fge in G. rewrite (Bleb_correct _ _ a r (proj1 Va) Fr), (proj2 Va) in G.
  destruct (Rle_bool_spec (Y * bpow radix2 k) (B2R r)) as [L|L]; [|discriminate G].
  assert (PA : 0 < Y * bpow radix2 k) by (apply Rmult_lt_0_compat; [exact PY|apply bpow_gt_0]).
  generalize (Bminus_correct prec emax Hp Hpe mode_NE r a Fr (proj1 Va)). rewrite (proj2 Va).
  rewrite Rlt_bool_true.
  - intros (_ & H2 & _). exact H2.
  - apply Rle_lt_trans with (Rabs (B2R r)); [|apply abs_B2R_lt_emax].
    apply abs_round_le_generic; try typeclasses eauto; [apply generic_format_abs, generic_format_B2R|].
    rewrite (Rabs_pos_eq (B2R r)) by lra. rewrite Rabs_pos_eq by lra. lra.
Qed.

Lemma fuel_enough : (Kmax < Z.of_nat (g_fuel prec emax))%Z.
Proof. unfold g_fuel, Kmax, SpecFloat.emin. rewrite Z2Nat.id by lia. lia. Qed.

Lemma fmod_exact_total :
  forall (ax ay : fl) X Y, isv ax X -> isv ay Y -> 0 < Y ->
  exists res, g_fmod_exact prec emax Hp Hpe (g_fuel prec emax) ax ay = Ok res.
Proof.
  intros ax ay X Y Vx Vy PY. unfold g_fmod_exact.
  assert (FY : format Y) by (apply (isv_format ay); exact Vy).
  generalize fuel_enough. intros Hfuel.
  destruct (up_total (g_fuel prec emax) ax X Y Vx PY FY ay 0%Z) as [a U]; [cbn; rewrite Rmult_1_r; exact Vy|lia|lia|].
  rewrite U. cbn [rbind].
  destruct (up_spec (g_fuel prec emax) ax X Y Vx PY FY ay a 0%Z) as (k & Hk & Va & _); [cbn; rewrite Rmult_1_r; exact Vy|lia|exact U|].
  apply (down_total (g_fuel prec emax) ay Y Vy PY ax a k (proj1 Vx) Va Hk).
  generalize (scale_bound a Y k Va PY FY). lia.
Qed.

(* the total statements: no fuel hypothesis *)
Theorem g_fmod_total :
  forall x y : fl, g_fmod prec emax Hp Hpe x y = Ok (spec_fmod prec emax Hp Hpe x y).
Proof.
  intros x y.
  assert (H : exists v, g_fmod prec emax Hp Hpe x y = Ok v).
  { unfold g_fmod. destruct (g_fmod_invalid prec emax Hp Hpe x y) eqn:I; [eexists; reflexivity|]. cbv zeta.
    destruct (negb (fge prec emax (gabs x) (gabs y))) eqn:G; [eexists; reflexivity|].
    (* both finite, y non-zero *)
    unfold g_fmod_invalid in I.
    rewrite (ProofsBasic.g_is_nan_exact prec emax x), (ProofsBasic.g_is_nan_exact prec emax y),
            (ProofsBasic.g_is_finite_exact prec emax x) in I.
    apply orb_false_elim in I. destruct I as [I Iz]. apply orb_false_elim in I. destruct I as [I If].
    apply orb_false_elim in I. destruct I as [Inx Iny].
    apply negb_false_iff in If. unfold spec_isfinite in If.
    apply negb_false_iff in G.
    assert (Fy : is_finite y = true).
    { destruct y as [sy|sy| |sy my ey Hy]; try reflexivity; try discriminate Iny.
      exfalso. destruct x as [sx|sx| |sx mx ex Hx]; try discriminate If; destruct sx, sy; discriminate G. }
    destruct (gabs_isv x If) as [Vx _]. destruct (gabs_isv y Fy) as [Vy _].
    assert (PY : 0 < Rabs (B2R y)).
    { apply Rabs_pos_lt. intros Z0. unfold feq in Iz. rewrite (zero_eq prec emax Hp Hpe) in Iz.
      rewrite (Beqb_correct _ _ y (B754_zero false) Fy eq_refl), Z0 in Iz. cbn [B2R] in Iz.
      rewrite Req_bool_true in Iz by reflexivity. discriminate Iz. }
    destruct (fmod_exact_total _ _ _ _ Vx Vy PY) as [res E]. rewrite E. cbn [rbind]. eexists; reflexivity. }
  destruct H as [v Hv]. rewrite Hv. f_equal. apply g_fmod_exact_thm. exact Hv.
Qed.

Theorem g_remainder_total :
  forall x y : fl, g_remainder prec emax Hp Hpe x y = Ok (spec_remainder prec emax Hp Hpe x y).
Proof.
  intros x y.
  assert (H : exists v, g_remainder prec emax Hp Hpe x y = Ok v).
  { unfold g_remainder. destruct (g_fmod_invalid prec emax Hp Hpe x y) eqn:I; [eexists; reflexivity|].
    destruct (negb (g_is_finite prec emax y) || feq prec emax x zero) eqn:J; [eexists; reflexivity|]. cbv zeta.
    destruct (fge prec emax (gabs x) (gabs y)) eqn:G; [|cbn [rbind]; eexists; reflexivity].
    unfold g_fmod_invalid in I.
    rewrite (ProofsBasic.g_is_nan_exact prec emax x), (ProofsBasic.g_is_nan_exact prec emax y),
            (ProofsBasic.g_is_finite_exact prec emax x) in I.
    apply orb_false_elim in I. destruct I as [I Iz]. apply orb_false_elim in I. destruct I as [I If].
    apply negb_false_iff in If. unfold spec_isfinite in If.
    apply orb_false_elim in J. destruct J as [Jy _]. apply negb_false_iff in Jy.
    rewrite (ProofsBasic.g_is_finite_exact prec emax y) in Jy. unfold spec_isfinite in Jy.
    destruct (gabs_isv x If) as [Vx _]. destruct (gabs_isv y Jy) as [Vy _].
    assert (PY : 0 < Rabs (B2R y)).
    { apply Rabs_pos_lt. intros Z0. unfold feq in Iz. rewrite (zero_eq prec emax Hp Hpe) in Iz.
      rewrite (Beqb_correct _ _ y (B754_zero false) Jy eq_refl), Z0 in Iz. cbn [B2R] in Iz.
      rewrite Req_bool_true in Iz by reflexivity. discriminate Iz. }
    destruct (fmod_exact_total _ _ _ _ Vx Vy PY) as [res E]. rewrite E. cbn [rbind]. eexists; reflexivity. }
  destruct H as [v Hv]. rewrite Hv. f_equal. apply g_remainder_exact_thm. exact Hv.
Qed.

End Fmt.
