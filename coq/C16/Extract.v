From Tetl Require Import Lib.Base C16.Model C16.Spec.
From Flocq Require Import Core BinarySingleNaN.
Require Extraction.
Require Import ExtrOcamlBasic.
Extraction Language OCaml.
Extraction "C16_model.ml" wire_anchor
  dec32 enc32 dec64 enc64 dec80 enc80 nextafter32 nextafter64
  flt fgt fle fge feq fne fneg fadd fsub fmul fdiv of_Z pow2 to_sint
  g_is_nan g_is_inf g_is_finite g_abs g_sgn g_min g_max
  g_floor g_ceil g_trunc g_round g_fmod g_remainder
  e_abs signbit_fb32 signbit_fb64 e_copysign_fb e_rint_fb e_lrint_fb e_fmin e_fmax e_fdim e_isfinite
  e_lerp e_hypot_ladder e_hypot3_ladder e_midpoint
  spec_floor spec_ceil spec_trunc spec_round spec_rint spec_lrint
  spec_signbit spec_fabs spec_copysign spec_isnan spec_isinf spec_isfinite
  spec_fmin spec_fmax spec_fdim spec_nextafter spec_fmod spec_remainder spec_midpoint
  spec_lerp_exact spec_hypot_special spec_hypot3_special
  raw_signbit raw_neg raw_e_abs raw_e_copysign_fb raw_e_signbit_fb
  spec_raw_fabs spec_raw_copysign spec_raw_signbit spec_rint_rm spec_lrint_rm
  Bsqrt Bfma Bsign is_nan is_finite.
