From Coq Require Import ZArith Bool Lia Reals Lra.
From Flocq Require Import Core Operations BinarySingleNaN.
From Flocq Require Binary Bits.
From Tetl Require Import Lib.Base C16.Model C16.Spec C16.ProofsBasic.
Local Open Scope Z_scope.

Section Codec.
Variables mw ew : Z.
Hypothesis Hmw : 0 < mw.
Hypothesis Hew : 0 < ew.
Hypothesis Hmax : mw + 1 < 2 ^ (ew - 1).
Context (p : Prec_gt_0 (mw + 1)) (pe : Prec_lt_emax (mw + 1) (2 ^ (ew - 1))).

Notation prec := (mw + 1).
Notation emax := (2 ^ (ew - 1)).
Notation emin := (SpecFloat.emin prec emax).
Notation fl := (binary_float prec emax).
Notation D := (dec mw ew Hmw Hew Hmax).
Notation EN := (enc mw ew).

Lemma M_ge2 : 2 <= 2 ^ mw.
Proof. change 2 with (2 ^ 1) at 1. apply Z.pow_le_mono_r; lia. Qed.

Lemma E_eq : 2 ^ ew = 2 * 2 ^ (ew - 1).
Proof. replace ew with (1 + (ew - 1)) at 1 by ring. rewrite Z.pow_add_r by lia. reflexivity. Qed.

Lemma P_eq : 2 ^ (mw + 1) = 2 * 2 ^ mw.
Proof. rewrite Z.pow_add_r by lia. change (2 ^ 1) with 2. ring. Qed.

Lemma W_eq : 2 ^ (mw + ew + 1) = 2 * (2 ^ ew * 2 ^ mw).
Proof. rewrite !Z.pow_add_r by lia. change (2 ^ 1) with 2. ring. Qed.

Lemma join_eq s m e :
  Bits.join_bits mw ew s m e = ((if s then 2 ^ ew else 0) + e) * 2 ^ mw + m.
Proof. unfold Bits.join_bits. rewrite Z.shiftl_mul_pow2 by lia. reflexivity. Qed.

Lemma dec_SF z : B2SF (D z) = Binary.FF2SF (Bits.binary_float_of_bits_aux mw ew z).
Proof.
unfold dec. rewrite Binary.B2SF_B2BSN. unfold Bits.binary_float_of_bits.
apply Binary.B2SF_FF2B.
Qed.

Lemma aux_join s m e :
  0 <= m < 2 ^ mw -> 0 <= e < 2 ^ ew ->
  Bits.binary_float_of_bits_aux mw ew (Bits.join_bits mw ew s m e) =
  if Zeq_bool e 0 then
    match m with
    | Z0 => Binary.F754_zero s
    | Zpos px => Binary.F754_finite s px emin
    | Zneg _ => Binary.F754_nan false xH
    end
  else if Zeq_bool e (2 ^ ew - 1) then
    match m with
    | Z0 => Binary.F754_infinity s
    | Zpos plx => Binary.F754_nan s plx
    | Zneg _ => Binary.F754_nan false xH
    end
  else
    match m + 2 ^ mw with
    | Zpos px => Binary.F754_finite s px (e + emin - 1)
    | _ => Binary.F754_nan false xH
    end.
Proof.
intros Hm He. unfold Bits.binary_float_of_bits_aux.
rewrite Bits.split_join_bits by assumption. reflexivity.
Qed.

Lemma dec_join_zero s : B2SF (D (Bits.join_bits mw ew s 0 0)) = SpecFloat.S754_zero s.
Proof.
rewrite dec_SF, aux_join. reflexivity.
pose proof M_ge2; lia. pose proof E_eq. pose proof Hmax. lia.
Qed.


Lemma E_ge : 6 <= 2 ^ ew.
Proof. pose proof E_eq. pose proof Hmax. lia. Qed.

Lemma dec_join_sub s m q :
  0 < m < 2 ^ mw -> Zpos q = m ->
  B2SF (D (Bits.join_bits mw ew s m 0)) = SpecFloat.S754_finite s q emin.
Proof.
intros Hm Hq. rewrite dec_SF, aux_join; [|lia|pose proof E_ge; lia].
rewrite <- Hq. reflexivity.
Qed.

Lemma dec_join_norm s m e q :
  0 <= m < 2 ^ mw -> 0 < e < 2 ^ ew - 1 -> Zpos q = m + 2 ^ mw ->
  B2SF (D (Bits.join_bits mw ew s m e)) = SpecFloat.S754_finite s q (e + emin - 1).
Proof.
intros Hm He Hq. rewrite dec_SF, aux_join; [|lia|lia].
rewrite Zeq_bool_false by lia. rewrite Zeq_bool_false by lia.
rewrite <- Hq. reflexivity.
Qed.

Lemma dec_join_inf s :
  B2SF (D (Bits.join_bits mw ew s 0 (2 ^ ew - 1))) = SpecFloat.S754_infinity s.
Proof.
pose proof E_ge. pose proof M_ge2.
rewrite dec_SF, aux_join; [|lia|lia].
rewrite Zeq_bool_false by lia. rewrite Zeq_bool_true by reflexivity. reflexivity.
Qed.

(* what [bounded] says, in integer terms *)
Lemma bounded_facts mx ex :
  SpecFloat.bounded prec emax mx ex = true ->
  emin <= ex <= emax - prec /\ Zpos mx < 2 * 2 ^ mw /\ (Zpos mx < 2 ^ mw -> ex = emin).
Proof.
intros Bx. apply andb_prop in Bx. destruct Bx as [Cx Ex].
apply Zle_bool_imp_le in Ex.
unfold SpecFloat.canonical_mantissa in Cx. apply Zeq_bool_eq in Cx.
rewrite Digits.Zpos_digits2_pos in Cx.
unfold SpecFloat.fexp in Cx.
set (d := Zdigits radix2 (Zpos mx)) in *.
assert (Hd : d <= prec) by lia.
split; [lia|]. split.
- rewrite <- P_eq. apply Z.lt_le_trans with (2 ^ d).
  + apply (Zpower_gt_Zdigits radix2 d (Zpos mx)). unfold d. lia.
  + apply Z.pow_le_mono_r; lia.
- intros Hlt. assert (d <= mw).
  { apply (Zdigits_le_Zpower radix2). exact Hlt. }
  lia.
Qed.


(** * [Bsucc] of a positive finite float, characterised through the reals *)
Lemma succ_F2R mx ex :
  SpecFloat.bounded prec emax mx ex = true ->
  succ radix2 (SpecFloat.fexp prec emax) (F2R (Float radix2 (Zpos mx) ex)) =
  F2R (Float radix2 (Zpos mx + 1) ex).
Proof.
intros Bx.
assert (Cx := canonical_bounded prec emax false mx ex Bx).
unfold succ.
rewrite Rle_bool_true by now apply F2R_ge_0.
cbn [SpecFloat.cond_Zopp] in Cx.
rewrite ulp_canonical by easy.
rewrite <- F2R_bpow.
rewrite <- F2R_plus.
now rewrite Fplus_same_exp.
Qed.

Lemma Bsucc_fin mx ex Bx m' e' B' :
  F2R (Float radix2 (Zpos m') e') = F2R (Float radix2 (Zpos mx + 1) ex) ->
  @Bsucc prec emax p pe (B754_finite false mx ex Bx) = B754_finite false m' e' B'.
Proof.
intros HF.
generalize (Bsucc_correct prec emax p pe (B754_finite false mx ex Bx) eq_refl).
change (B2R (B754_finite false mx ex Bx)) with (F2R (Float radix2 (Zpos mx) ex)).
rewrite succ_F2R by exact Bx. rewrite <- HF.
rewrite Rlt_bool_true by (apply bounded_lt_emax with (1 := B')).
intros [H1 [H2 H3]].
apply B2R_Bsign_inj.
- exact H2.
- reflexivity.
- rewrite H1. reflexivity.
- rewrite H3. reflexivity.
Qed.

Lemma Bsucc_inf mx ex Bx :
  Zpos mx + 1 = 2 * 2 ^ mw -> ex = emax - prec ->
  @Bsucc prec emax p pe (B754_finite false mx ex Bx) = B754_infinity false.
Proof.
intros Hm He.
generalize (Bsucc_correct prec emax p pe (B754_finite false mx ex Bx) eq_refl).
change (B2R (B754_finite false mx ex Bx)) with (F2R (Float radix2 (Zpos mx) ex)).
rewrite succ_F2R by exact Bx.
rewrite Rlt_bool_false.
- intros H. apply B2SF_inj. exact H.
- rewrite Hm, <- P_eq, He. unfold F2R. cbn [Fnum Fexp].
  change 2 with (radix_val radix2) at 2.
  rewrite IZR_Zpower by lia. rewrite <- bpow_plus.
  replace (prec + (emax - prec)) with emax by ring. apply Rle_refl.
Qed.

Lemma F2R_shift1 m e :
  F2R (Float radix2 m (e + 1)) = F2R (Float radix2 (2 * m) e).
Proof.
unfold F2R. cbn [Fnum Fexp]. rewrite bpow_plus_1, mult_IZR. cbn [radix_val radix2]. ring.
Qed.


Lemma enc_fin s mx ex Bx :
  EN (B754_finite s mx ex Bx) =
  if 0 <=? Zpos mx - 2 ^ mw
  then Bits.join_bits mw ew s (Zpos mx - 2 ^ mw) (ex - emin + 1)
  else Bits.join_bits mw ew s (Zpos mx) 0.
Proof. reflexivity. Qed.


Lemma dec_finite_elim z s q e :
  B2SF (D z) = SpecFloat.S754_finite s q e -> exists B, D z = B754_finite s q e B.
Proof.
destruct (D z) as [s0|s0| |s0 m0 e0 B0]; cbn [B2SF]; intros H; try discriminate H.
inversion H; subst. eexists; reflexivity.
Qed.

Lemma step_fin mx ex Bx z q e :
  B2SF (D z) = SpecFloat.S754_finite false q e ->
  F2R (Float radix2 (Zpos q) e) = F2R (Float radix2 (Zpos mx + 1) ex) ->
  D z = @Bsucc prec emax p pe (B754_finite false mx ex Bx).
Proof.
intros H HF. destruct (dec_finite_elim _ _ _ _ H) as [B' HB']. rewrite HB'.
symmetry. now apply Bsucc_fin.
Qed.

Lemma pos_of_Z z : 0 < z -> exists q, Zpos q = z.
Proof. intros H. exists (Z.to_pos z). now apply Z2Pos.id. Qed.

(** the core step: one up on the pattern of a positive finite float is its successor *)
Lemma dec_succ_fin mx ex Bx :
  D (EN (B754_finite false mx ex Bx) + 1) = @Bsucc prec emax p pe (B754_finite false mx ex Bx).
Proof.
destruct (bounded_facts mx ex Bx) as [He [Hm Hsub]].
pose proof M_ge2 as HM. pose proof E_eq as HE. pose proof Hmax as Hmx.
unfold SpecFloat.emin in He, Hsub.
rewrite enc_fin. case Z.leb_spec; intros Hc.
- (* normal *)
  destruct (Z.eq_dec (Zpos mx + 1) (2 * 2 ^ mw)) as [Hfull|Hnf].
  + replace (Bits.join_bits mw ew false (Zpos mx - 2 ^ mw) (ex - emin + 1) + 1)
      with (Bits.join_bits mw ew false 0 (ex - emin + 2)) by (rewrite !join_eq; lia).
    destruct (Z.eq_dec ex (emax - prec)) as [Hov|Hnov].
    * rewrite Bsucc_inf by assumption. apply B2SF_inj.
      replace (ex - emin + 2) with (2 ^ ew - 1) by (unfold SpecFloat.emin; lia).
      apply dec_join_inf.
    * destruct (pos_of_Z (0 + 2 ^ mw)) as [q Hq]; [lia|].
      eapply step_fin.
      -- apply dec_join_norm with (q := q); [lia|unfold SpecFloat.emin; lia|exact Hq].
      -- replace (ex - emin + 2 + emin - 1) with (ex + 1) by ring.
         rewrite F2R_shift1. replace (2 * Zpos q) with (Zpos mx + 1) by lia. reflexivity.
  + replace (Bits.join_bits mw ew false (Zpos mx - 2 ^ mw) (ex - emin + 1) + 1)
      with (Bits.join_bits mw ew false (Zpos (mx + 1) - 2 ^ mw) (ex - emin + 1))
      by (rewrite !join_eq; lia).
    eapply step_fin.
    * apply dec_join_norm with (q := (mx + 1)%positive); [lia|unfold SpecFloat.emin; lia|lia].
    * replace (ex - emin + 1 + emin - 1) with ex by ring.
      rewrite Pos2Z.inj_add. reflexivity.
- (* subnormal *)
  assert (Hex : ex = 3 - emax - prec) by (apply Hsub; lia).
  destruct (Z.eq_dec (Zpos mx + 1) (2 ^ mw)) as [Hfull|Hnf].
  + replace (Bits.join_bits mw ew false (Zpos mx) 0 + 1)
      with (Bits.join_bits mw ew false 0 1) by (rewrite !join_eq; lia).
    destruct (pos_of_Z (0 + 2 ^ mw)) as [q Hq]; [lia|].
    eapply step_fin.
    * apply dec_join_norm with (q := q); [lia|lia|exact Hq].
    * replace (1 + emin - 1) with ex by (unfold SpecFloat.emin; lia).
      replace (Zpos q) with (Zpos mx + 1) by lia. reflexivity.
  + replace (Bits.join_bits mw ew false (Zpos mx) 0 + 1)
      with (Bits.join_bits mw ew false (Zpos (mx + 1)) 0) by (rewrite !join_eq; lia).
    eapply step_fin.
    * apply dec_join_sub with (q := (mx + 1)%positive); lia.
    * replace emin with ex by (unfold SpecFloat.emin; lia).
      rewrite Pos2Z.inj_add. reflexivity.
Qed.


Lemma dec_one : D 1 = @Bsucc prec emax p pe (B754_zero false).
Proof.
pose proof M_ge2 as HM.
apply B2SF_inj. cbn [Bsucc B2SF].
assert (H1 : 1 = Bits.join_bits mw ew false 1 0) by (rewrite join_eq; lia).
transitivity (B2SF (D (Bits.join_bits mw ew false 1 0))).
- rewrite <- H1. reflexivity.
- apply dec_join_sub; lia.
Qed.

(** * enc / dec are inverse of each other away from NaN *)
Lemma enc_B2BSN (f : Binary.binary_float prec emax) :
  Binary.is_nan prec emax f = false -> EN (Binary.B2BSN prec emax f) = Bits.bits_of_binary_float mw ew f.
Proof. destruct f as [s|s|s pl Hpl|s m e B]; intros H; try discriminate H; reflexivity. Qed.

Lemma dec_enc (x : fl) : is_nan x = false -> D (EN x) = x.
Proof.
intros Nx.
assert (Hx : x = Binary.B2BSN prec emax (Binary.BSN2B' prec emax x Nx))
  by (symmetry; apply Binary.B2BSN_BSN2B').
assert (Nf := Binary.is_nan_BSN2B' prec emax x Nx).
revert Hx Nf. generalize (Binary.BSN2B' prec emax x Nx). intros f Hx Nf. subst x.
rewrite enc_B2BSN by exact Nf.
unfold dec. rewrite Bits.binary_float_of_bits_of_binary_float. reflexivity.
Qed.

Lemma is_nan_B2BSN (f : Binary.binary_float prec emax) :
  is_nan (Binary.B2BSN prec emax f) = Binary.is_nan prec emax f.
Proof. now destruct f. Qed.

Lemma enc_dec z : 0 <= z < 2 ^ (mw + ew + 1) -> is_nan (D z) = false -> EN (D z) = z.
Proof.
intros Hz Nz. unfold dec in *. rewrite is_nan_B2BSN in Nz.
rewrite enc_B2BSN by exact Nz.
now apply Bits.bits_of_binary_float_of_bits.
Qed.


(** * positive finite patterns *)
Definition posfin (x : fl) : Prop :=
  match x with B754_zero false | B754_finite false _ _ _ => True | _ => False end.

Lemma enc_fin_range mx ex Bx :
  1 <= EN (B754_finite false mx ex Bx) < (2 ^ ew - 1) * 2 ^ mw.
Proof.
destruct (bounded_facts mx ex Bx) as [He [Hm Hsub]].
pose proof M_ge2 as HM. pose proof E_eq as HE. pose proof Hmax as Hmx.
unfold SpecFloat.emin in He, Hsub.
rewrite enc_fin. case Z.leb_spec; intros Hc; rewrite join_eq; unfold SpecFloat.emin.
- assert (1 * 2 ^ mw <= (ex - (3 - emax - prec) + 1) * 2 ^ mw)
    by (apply Z.mul_le_mono_nonneg_r; lia).
  assert ((ex - (3 - emax - prec) + 1) * 2 ^ mw <= (2 ^ ew - 2) * 2 ^ mw)
    by (apply Z.mul_le_mono_nonneg_r; lia).
  lia.
- assert (1 * 2 ^ mw <= (2 ^ ew - 1) * 2 ^ mw) by (apply Z.mul_le_mono_nonneg_r; lia).
  lia.
Qed.

Lemma dec_pos_shape z : 0 <= z < (2 ^ ew - 1) * 2 ^ mw -> posfin (D z).
Proof.
intros Hz. pose proof M_ge2 as HM. pose proof E_ge as HE.
assert (Hm : 0 <= z mod 2 ^ mw < 2 ^ mw) by (apply Z.mod_pos_bound; lia).
assert (He : 0 <= z / 2 ^ mw < 2 ^ ew - 1).
{ split. apply Z.div_pos; lia. apply Z.div_lt_upper_bound; lia. }
assert (Hj : z = Bits.join_bits mw ew false (z mod 2 ^ mw) (z / 2 ^ mw)).
{ rewrite join_eq. rewrite (Z.div_mod z (2 ^ mw)) at 1 by lia. ring. }
revert Hm He Hj. generalize (z mod 2 ^ mw) (z / 2 ^ mw). intros m e Hm He Hj.
assert (HS : B2SF (D z) = SpecFloat.S754_zero false \/
             exists q e', B2SF (D z) = SpecFloat.S754_finite false q e').
{ rewrite Hj. destruct (Z.eq_dec e 0) as [->|He0].
  - destruct (Z.eq_dec m 0) as [->|Hm0].
    + left. apply dec_join_zero.
    + right. destruct (pos_of_Z m) as [q Hq]; [lia|]. exists q, emin.
      apply dec_join_sub; [lia|exact Hq].
  - right. destruct (pos_of_Z (m + 2 ^ mw)) as [q Hq]; [lia|]. exists q, (e + emin - 1).
    apply dec_join_norm; [lia|lia|exact Hq]. }
unfold posfin. destruct (D z) as [s|s| |s m0 e0 B0]; cbn [B2SF] in HS.
- destruct HS as [H|[q [e' H]]]; inversion H; exact I.
- destruct HS as [H|[q [e' H]]]; inversion H.
- destruct HS as [H|[q [e' H]]]; inversion H.
- destruct HS as [H|[q [e' H]]]; inversion H; exact I.
Qed.

Lemma dec_succ_posfin (y : fl) : posfin y -> D (EN y + 1) = @Bsucc prec emax p pe y.
Proof.
destruct y as [[|]|[|]| |[|] my ey By]; cbn [posfin]; intros Py; try contradiction.
- assert (H0 : EN (B754_zero false) = 0) by (cbn [enc]; rewrite join_eq; lia).
  rewrite H0. apply dec_one.
- apply dec_succ_fin.
Qed.

Lemma Bpred_of_Bsucc (y x : fl) :
  posfin y -> @Bsucc prec emax p pe y = x -> is_finite_strict x = true ->
  @Bpred prec emax p pe x = y.
Proof.
intros Py Hs Fx.
assert (Fy : is_finite y = true) by (destruct y as [[|]|[|]| |[|] my ey By]; easy).
assert (Sy : Bsign y = false) by (destruct y as [[|]|[|]| |[|] my ey By]; easy).
assert (Ry : (0 <= B2R y)%R).
{ destruct y as [[|]|[|]| |[|] my ey By]; try contradiction; cbn [B2R]; try apply Rle_refl.
  now apply F2R_ge_0. }
generalize (Bsucc_correct prec emax p pe y Fy). rewrite Hs.
case Rlt_bool_spec; intros Hlt.
2: { intros H. destruct x; discriminate. }
intros [H1 [H2 H3]].
generalize (Bpred_correct prec emax p pe x H2).
rewrite H1, pred_succ.
2: apply fexp_correct; exact p.
2: apply generic_format_B2R.
rewrite Rlt_bool_true.
2: { apply Rlt_le_trans with 0%R; [|exact Ry].
     generalize (bpow_gt_0 radix2 emax). lra. }
intros [G1 [G2 G3]].
apply B2R_Bsign_inj; auto.
rewrite G3, H3, Sy, Fx. reflexivity.
Qed.


Lemma posfin_not_nan (y : fl) : posfin y -> is_nan y = false.
Proof. destruct y as [[|]|[|]| |[|] my ey By]; easy. Qed.

(** one down on the pattern of a positive finite float is its predecessor *)
Lemma dec_pred_fin mx ex Bx :
  D (EN (B754_finite false mx ex Bx) - 1) = @Bpred prec emax p pe (B754_finite false mx ex Bx).
Proof.
pose proof (enc_fin_range mx ex Bx) as Hr.
pose proof M_ge2 as HM. pose proof E_ge as HE. pose proof W_eq as HW.
set (x := B754_finite false mx ex Bx) in *.
set (z := EN x - 1).
assert (Hz : 0 <= z < (2 ^ ew - 1) * 2 ^ mw) by (unfold z; lia).
assert (Py := dec_pos_shape z Hz).
assert (Hzw : 0 <= z < 2 ^ (mw + ew + 1)) by nia.
assert (Ez := enc_dec z Hzw (posfin_not_nan _ Py)).
symmetry. apply Bpred_of_Bsucc; [exact Py| |reflexivity].
rewrite <- dec_succ_posfin by exact Py.
rewrite Ez. unfold z. replace (EN x - 1 + 1) with (EN x) by ring.
apply dec_enc. reflexivity.
Qed.

Lemma dec_pred_inf :
  D (EN (B754_infinity false) - 1) = @Bpred prec emax p pe (B754_infinity false).
Proof.
pose proof M_ge2 as HM. pose proof E_eq as HE. pose proof Hmax as Hmx.
unfold Bpred. cbn [Bopp Bsucc negb]. rewrite Bopp_involutive.
apply B2SF_inj. unfold Bmax_float. rewrite B2SF_SF2B.
change (EN (B754_infinity false)) with (Bits.join_bits mw ew false 0 (2 ^ ew - 1)).
replace (Bits.join_bits mw ew false 0 (2 ^ ew - 1) - 1)
  with (Bits.join_bits mw ew false (2 ^ mw - 1) (2 ^ ew - 2)) by (rewrite !join_eq; lia).
replace (emax - prec) with (2 ^ ew - 2 + emin - 1) by (unfold SpecFloat.emin; lia).
apply dec_join_norm; [lia|lia|].
rewrite Pos2Z.inj_sub.
- rewrite shift_pos_correct, Z.mul_1_r, Z.pow_pos_fold, Z2Pos.id by lia.
  rewrite P_eq. lia.
- change (Zpos 1 < Zpos (shift_pos (Z.to_pos prec) 1)).
  rewrite shift_pos_correct, Z.mul_1_r, Z.pow_pos_fold, Z2Pos.id by lia.
  rewrite P_eq. lia.
Qed.


(** * the sign bit *)
Lemma Bopp_SF (v : fl) : B2SF (Bopp v) = SpecFloat.SFopp (B2SF v).
Proof. now destruct v. Qed.

Lemma dec_sign z :
  0 <= z < 2 ^ ew * 2 ^ mw -> D (z + 2 ^ ew * 2 ^ mw) = Bopp (D z).
Proof.
intros Hz. pose proof M_ge2 as HM. pose proof E_ge as HE.
assert (Hm : 0 <= z mod 2 ^ mw < 2 ^ mw) by (apply Z.mod_pos_bound; lia).
assert (He : 0 <= z / 2 ^ mw < 2 ^ ew).
{ split. apply Z.div_pos; lia. apply Z.div_lt_upper_bound; lia. }
assert (Hj : z = Bits.join_bits mw ew false (z mod 2 ^ mw) (z / 2 ^ mw)).
{ rewrite join_eq. rewrite (Z.div_mod z (2 ^ mw)) at 1 by lia. ring. }
assert (Hj' : z + 2 ^ ew * 2 ^ mw = Bits.join_bits mw ew true (z mod 2 ^ mw) (z / 2 ^ mw)).
{ rewrite join_eq. rewrite (Z.div_mod z (2 ^ mw)) at 1 by lia. ring. }
revert Hm He Hj Hj'. generalize (z mod 2 ^ mw) (z / 2 ^ mw). intros m e Hm He Hj Hj'.
apply B2SF_inj. rewrite Bopp_SF, !dec_SF, Hj', Hj.
rewrite !aux_join by assumption.
destruct (Zeq_bool e 0).
- destruct m; reflexivity.
- destruct (Zeq_bool e (2 ^ ew - 1)).
  + destruct m; reflexivity.
  + destruct (m + 2 ^ mw); reflexivity.
Qed.

Lemma enc_sign (x : fl) :
  is_nan x = false -> Bsign x = true -> EN x = EN (Bopp x) + 2 ^ ew * 2 ^ mw.
Proof.
destruct x as [[|]|[|]| |[|] mx ex Bx]; intros Nx Sx; try discriminate.
- cbn [enc Bopp negb]. rewrite !join_eq. ring.
- cbn [enc Bopp negb]. rewrite !join_eq. ring.
- cbn [Bopp negb]. rewrite !enc_fin. case Z.leb_spec; intros _; rewrite !join_eq; ring.
Qed.

Lemma enc_pos_range (x : fl) :
  Bsign x = false -> is_nan x = false ->
  0 <= EN x <= (2 ^ ew - 1) * 2 ^ mw /\
  (is_finite x = true -> EN x < (2 ^ ew - 1) * 2 ^ mw) /\
  ((match x with B754_zero _ => false | _ => true end) = true -> 1 <= EN x).
Proof.
pose proof M_ge2 as HM. pose proof E_ge as HE.
destruct x as [[|]|[|]| |[|] mx ex Bx]; intros Sx Nx; try discriminate.
- cbn [enc]. rewrite join_eq. repeat split; try easy; nia.
- cbn [enc]. rewrite join_eq. repeat split; try easy; nia.
- pose proof (enc_fin_range mx ex Bx). repeat split; lia.
Qed.


(** * the two integer steps of the implementation *)
Definition steppable (x : fl) : bool :=
  match x with B754_finite _ _ _ _ | B754_infinity _ => true | _ => false end.

Lemma step_up (x : fl) :
  is_finite_strict x = true ->
  D (wrapu (mw + ew + 1) (EN x + 1)) =
  if Bsign x then @Bpred prec emax p pe x else @Bsucc prec emax p pe x.
Proof.
pose proof M_ge2 as HM. pose proof E_ge as HE. pose proof W_eq as HW.
assert (HEM : 0 < 2 ^ ew * 2 ^ mw) by (apply Z.mul_pos_pos; lia).
destruct x as [s|s| |[|] mx ex Bx]; intros Fx; try discriminate Fx; cbn [Bsign].
- pose proof (enc_fin_range mx ex Bx) as Hr.
  rewrite enc_sign by reflexivity. cbn [Bopp negb].
  unfold wrapu.
  assert (0 <= EN (B754_finite false mx ex Bx) + 2 ^ ew * 2 ^ mw + 1). lia.
  assert (EN (B754_finite false mx ex Bx) + 2 ^ ew * 2 ^ mw + 1 < 2 * (2 ^ ew * 2 ^ mw)). lia.
  assert (EN (B754_finite false mx ex Bx) + 2 ^ ew * 2 ^ mw + 1 < 2 ^ (mw + ew + 1)). lia.
  rewrite Z.mod_small by lia.
  replace (EN (B754_finite false mx ex Bx) + 2 ^ ew * 2 ^ mw + 1)
    with (EN (B754_finite false mx ex Bx) + 1 + 2 ^ ew * 2 ^ mw) by ring.
  rewrite dec_sign by lia. rewrite dec_succ_fin. reflexivity.
- pose proof (enc_fin_range mx ex Bx) as Hr.
  unfold wrapu. rewrite Z.mod_small by lia. apply dec_succ_fin.
Qed.

Lemma step_down (x : fl) :
  steppable x = true ->
  D (wrapu (mw + ew + 1) (EN x - 1)) =
  if Bsign x then @Bsucc prec emax p pe x else @Bpred prec emax p pe x.
Proof.
pose proof M_ge2 as HM. pose proof E_ge as HE. pose proof W_eq as HW.
assert (HEM : 0 < 2 ^ ew * 2 ^ mw) by (apply Z.mul_pos_pos; lia).
assert (Hi : EN (B754_infinity false) = (2 ^ ew - 1) * 2 ^ mw)
  by (cbn [enc]; rewrite join_eq; ring).
assert (HP : 2 * 2 ^ mw <= 2 ^ ew * 2 ^ mw) by nia.
destruct x as [s|[|]| |[|] mx ex Bx]; intros Fx; try discriminate Fx; cbn [Bsign].
- rewrite enc_sign by reflexivity. cbn [Bopp negb].
  unfold wrapu. rewrite Z.mod_small by lia.
  replace (EN (B754_infinity false) + 2 ^ ew * 2 ^ mw - 1)
    with (EN (B754_infinity false) - 1 + 2 ^ ew * 2 ^ mw) by ring.
  rewrite dec_sign by lia. rewrite dec_pred_inf.
  unfold Bpred. rewrite Bopp_involutive. reflexivity.
- unfold wrapu. rewrite Z.mod_small by lia. apply dec_pred_inf.
- pose proof (enc_fin_range mx ex Bx) as Hr.
  rewrite enc_sign by reflexivity. cbn [Bopp negb].
  unfold wrapu. rewrite Z.mod_small by lia.
  replace (EN (B754_finite false mx ex Bx) + 2 ^ ew * 2 ^ mw - 1)
    with (EN (B754_finite false mx ex Bx) - 1 + 2 ^ ew * 2 ^ mw) by ring.
  rewrite dec_sign by lia. rewrite dec_pred_fin.
  unfold Bpred. rewrite Bopp_involutive. reflexivity.
- pose proof (enc_fin_range mx ex Bx) as Hr.
  unfold wrapu. rewrite Z.mod_small by lia. apply dec_pred_fin.
Qed.


(** * nextafter: the integer step on the bit pattern is IEEE nextUp / nextDown towards the target *)
Lemma Bcompare_not_nan (x y : fl) : is_nan x = false -> is_nan y = false -> Bcompare x y <> None.
Proof.
intros Nx Ny Hc.
destruct x, y; try discriminate; cbn in Hc; try discriminate;
  repeat match goal with s : bool |- _ => destruct s end; discriminate.
Qed.

Lemma eq0_zero s : Beqb (B754_zero s : fl) (B754_zero false : fl) = true.
Proof. destruct s; reflexivity. Qed.
Lemma eq0_inf s : Beqb (B754_infinity s : fl) (B754_zero false : fl) = false.
Proof. destruct s; reflexivity. Qed.
Lemma eq0_fin s m e B : Beqb (B754_finite s m e B : fl) (B754_zero false : fl) = false.
Proof. destruct s; reflexivity. Qed.
Lemma gt0_inf s : Bltb (B754_zero false : fl) (B754_infinity s : fl) = negb s.
Proof. destruct s; reflexivity. Qed.
Lemma gt0_fin s m e B : Bltb (B754_zero false : fl) (B754_finite s m e B : fl) = negb s.
Proof. destruct s; reflexivity. Qed.
Lemma lt0_of_cmp s (y : fl) c : is_nan y = false -> Bcompare (B754_zero s : fl) y = Some c ->
  Bltb y (B754_zero false : fl) = match c with Gt => true | _ => false end.
Proof.
intros Ny Hc.
destruct y as [sy|sy| |sy my ey By]; try discriminate Ny; destruct sy; cbn in Hc;
  inversion Hc; subst; reflexivity.
Qed.
Lemma inf_cmp s (y : fl) c : is_nan y = false -> Bcompare (B754_infinity s : fl) y = Some c ->
  c = Eq \/ c = (if s then Lt else Gt).
Proof.
intros Ny Hc.
destruct y as [sy|sy| |sy my ey By]; try discriminate Ny; destruct s; try destruct sy; cbn in Hc;
  inversion Hc; subst; auto.
Qed.

Theorem e_nextafter_exact (x y : fl) :
  e_nextafter prec emax p pe (mw + ew + 1) EN D x y = spec_nextafter prec emax p pe x y.
Proof.
unfold e_nextafter, spec_nextafter.
rewrite !fne_self.
destruct (is_nan x) eqn:Nx.
{ destruct x; try discriminate. cbn [orb]. unfold fadd. rewrite Bplus_nan_l, Bcompare_nan_l. reflexivity. }
destruct (is_nan y) eqn:Ny.
{ destruct y; try discriminate. cbn [orb]. unfold fadd. rewrite Bplus_nan_r, Bcompare_nan_r. reflexivity. }
cbn [orb]. unfold feq, flt, fgt, fneg. rewrite (f_zero_eq prec emax p pe).
rewrite (Beqb_Bcompare _ _ x y), (Bltb_Bcompare _ _ x y).
pose proof (Bcompare_not_nan x y Nx Ny) as Hnn.
destruct x as [sx|sx| |sx mx ex Bx]; try discriminate Nx.
- (* from is a zero *)
  rewrite eq0_zero.
  destruct (Bcompare (B754_zero sx) y) as [[| |]|] eqn:Hc; [reflexivity| | |now elim Hnn];
    rewrite (lt0_of_cmp _ _ _ Ny Hc), dec_one.
  + reflexivity.
  + destruct sx; reflexivity.
- (* from is an infinity *)
  rewrite eq0_inf, gt0_inf.
  destruct (Bcompare (B754_infinity sx) y) as [[| |]|] eqn:Hc; [reflexivity| | |now elim Hnn];
    destruct (inf_cmp _ _ _ Ny Hc) as [Hd|Hd]; try discriminate Hd;
    destruct sx; try discriminate Hd; cbn [negb Bool.eqb];
    rewrite step_down by reflexivity; reflexivity.
- (* from is finite and not zero *)
  rewrite eq0_fin, gt0_fin.
  destruct (Bcompare (B754_finite sx mx ex Bx) y) as [[| |]|] eqn:Hc; [reflexivity| | |now elim Hnn].
  + destruct sx; cbn [negb Bool.eqb].
    * rewrite step_down by reflexivity. reflexivity.
    * rewrite step_up by reflexivity. reflexivity.
  + destruct sx; cbn [negb Bool.eqb].
    * rewrite step_up by reflexivity. reflexivity.
    * rewrite step_down by reflexivity. reflexivity.
Qed.

End Codec.

(** * the two interchange formats *)
Theorem nextafter32_exact : forall x y : b32, nextafter32 x y = spec_nextafter 24 128 p32 pe32 x y.
Proof. exact (e_nextafter_exact 23 8 eq_refl eq_refl eq_refl p32 pe32). Qed.

Theorem nextafter64_exact : forall x y : b64, nextafter64 x y = spec_nextafter 53 1024 p64 pe64 x y.
Proof. exact (e_nextafter_exact 52 11 eq_refl eq_refl eq_refl p64 pe64). Qed.
