(* C16 — executable model of the library-written floating-point code of etl <cmath>
   (what the code DOES), over Flocq's IEEE-754 values with a single NaN
   (BinarySingleNaN.binary_float prec emax; binary32 = (24,128), binary64 = (53,1024),
   x87 extended = (64,16384)).  Every C++ floating-point operator is the correctly rounded
   (round-to-nearest-even) Flocq operation; conversions to an integer type are PARTIAL
   (UB outside the range, [conv.fpint]).  No proofs here.

   Modelled code (file : function):
     _3rd_party/gcem/gcem_incl/{is_nan,is_inf,is_finite,abs,sgn,min,max}.hpp
     _3rd_party/gcem/gcem_incl/{floor,ceil,trunc,round,find_whole,fmod}.hpp   (fmod.hpp: fmod and remainder; the fall-back
        kernels: constant evaluation of float/double, every long double call)
     _cmath/rint.hpp : rint_fallback      _cmath/lrint.hpp : lrint_fallback
     _cmath/signbit.hpp : signbit_fallback   _cmath/copysign.hpp : copysign_fallback
     _math/abs.hpp : abs_impl (abs, fabs)
     _cmath/fmin.hpp, fmax.hpp : detail::fmin, detail::fmax      _cmath/fdim.hpp : detail::fdim
     _cmath/nextafter.hpp : detail::nextafter (integer step on the bit pattern)
     _cmath/isfinite.hpp, _cmath/lerp.hpp, _cmath/hypot.hpp (ladder), _numeric/midpoint.hpp
   The run-time builtins (__builtin_floorf, __builtin_fmodf, ...) are compiler/libm code, not
   library code: the run-time path of such a function is the Spec function (see Spec.v, [rt_*]). *)
From Coq Require Import ZArith Bool Lia.
From Flocq Require Import Core BinarySingleNaN.
From Flocq Require Binary Bits.
From Tetl Require Import Lib.Base.
Local Open Scope Z_scope.

Section Fmt.
Variables prec emax : Z.
Context (prec_gt_0_ : Prec_gt_0 prec) (prec_lt_emax_ : Prec_lt_emax prec emax).
Notation fl := (binary_float prec emax).

(** * C++ operators on the floating type T *)
Definition flt (x y : fl) : bool := Bltb x y.           (* x < y  *)
Definition fgt (x y : fl) : bool := Bltb y x.           (* x > y  *)
Definition fle (x y : fl) : bool := Bleb x y.           (* x <= y *)
Definition fge (x y : fl) : bool := Bleb y x.           (* x >= y *)
Definition feq (x y : fl) : bool := Beqb x y.           (* x == y *)
Definition fne (x y : fl) : bool := negb (Beqb x y).    (* x != y *)
Definition fneg (x : fl) : fl := Bopp x.                (* -x *)
Definition fadd (x y : fl) : fl := Bplus mode_NE x y.
Definition fsub (x y : fl) : fl := Bminus mode_NE x y.
Definition fmul (x y : fl) : fl := Bmult mode_NE x y.
Definition fdiv (x y : fl) : fl := Bdiv mode_NE x y.

(* T(n) for an integer n; T(0) is +0 *)
Definition of_Z (n : Z) : fl := binary_normalize prec emax _ _ mode_NE n 0 false.
(* the literal 2^e *)
Definition pow2 (e : Z) : fl := binary_normalize prec emax _ _ mode_NE 1 e false.
Definition f_zero : fl := of_Z 0.
Definition f_one : fl := of_Z 1.
Definition f_half : fl := pow2 (-1).                     (* T(0.5) *)
Definition f_inf : fl := B754_infinity false.            (* numeric_limits<T>::infinity() *)
Definition f_nan : fl := B754_nan.                       (* numeric_limits<T>::quiet_NaN() *)
Definition f_eps : fl := pow2 (1 - prec).                (* numeric_limits<T>::epsilon() *)
Definition f_min : fl := pow2 (2 - emax).                (* numeric_limits<T>::min() *)
Definition f_max : fl := Bmax_float.                     (* numeric_limits<T>::max() *)

(* static_cast<Int>(x), Int signed of width w: truncation, undefined unless the value fits *)
Definition to_sint (w : Z) (x : fl) : res Z :=
  match x with
  | B754_nan | B754_infinity _ => UB SignedOverflow
  | _ => let z := Btrunc x in if in_s w z then Ok z else UB SignedOverflow
  end.

(** * gcem helpers *)
Definition g_is_nan (x : fl) : bool := fne x x.
Definition g_is_neginf (x : fl) : bool := feq x (fneg f_inf).
Definition g_is_posinf (x : fl) : bool := feq x f_inf.
Definition g_is_inf (x : fl) : bool := g_is_neginf x || g_is_posinf x.
Definition g_is_finite (x : fl) : bool := negb (g_is_nan x) && negb (g_is_inf x).
Definition g_abs (x : fl) : fl :=
  if feq x f_zero then f_zero else if flt x f_zero then fneg x else x.
Definition g_sgn (x : fl) : Z :=
  if fgt x f_zero then 1 else if flt x f_zero then -1 else 0.
Definition g_min (x y : fl) : fl := if fgt y x then x else y.
Definition g_max (x y : fl) : fl := if flt y x then x else y.

(* T(1) / numeric_limits<T>::epsilon(): every value of this magnitude is an integer *)
Definition g_limit : fl := fdiv f_one f_eps.

(** * gcem floor / ceil / trunc / round (fall-back kernels) *)
Definition g_floor_resid (x w : fl) : Z := if flt x f_zero && flt x w then 1 else 0.
Definition g_floor_int (x w : fl) : fl := fsub w (of_Z (g_floor_resid x w)).
Definition g_floor (x : fl) : res fl :=
  if g_is_nan x then Ok f_nan
  else if negb (g_is_finite x) then Ok x
  else if feq x f_zero then Ok x
  else if fge (g_abs x) g_limit then Ok x
  else rbind (to_sint 64 x) (fun w => Ok (g_floor_int x (of_Z w))).

Definition g_ceil_resid (x w : fl) : Z := if fgt x f_zero && fgt x w then 1 else 0.
Definition g_ceil_int (x w : fl) : fl :=
  if flt x f_zero && feq w f_zero then fneg w else fadd w (of_Z (g_ceil_resid x w)).
Definition g_ceil (x : fl) : res fl :=
  if g_is_nan x then Ok f_nan
  else if negb (g_is_finite x) then Ok x
  else if feq x f_zero then Ok x
  else if fge (g_abs x) g_limit then Ok x
  else rbind (to_sint 64 x) (fun w => Ok (g_ceil_int x (of_Z w))).

Definition g_trunc_int (x : fl) : res fl :=
  if flt x f_zero then rbind (to_sint 64 (fneg x)) (fun w => Ok (fneg (of_Z w)))
  else rbind (to_sint 64 x) (fun w => Ok (of_Z w)).
Definition g_trunc (x : fl) : res fl :=
  if g_is_nan x then Ok f_nan
  else if negb (g_is_finite x) then Ok x
  else if feq x f_zero then Ok x
  else if fge (g_abs x) g_limit then Ok x
  else g_trunc_int x.

(* find_whole: llint; floor_check(x) is evaluated up to three times with the same result
   (no longer used by round; still used by gcem tgamma / pow, outside the exact set) *)
Definition g_find_whole (x : fl) : res Z :=
  rbind (g_floor x) (fun f =>
    if fge (g_abs (fsub x f)) f_half then to_sint 64 (fadd f (of_Z (g_sgn x)))
    else to_sint 64 f).
(* round_int (after 1802224): floor(x) + sgn(x) is computed in T, no conversion to llint *)
Definition g_round_int (x : fl) : res fl :=
  rbind (g_floor x) (fun f =>
    Ok (if fge (g_abs (fsub x f)) f_half then fadd f (of_Z (g_sgn x)) else f)).
Definition g_round (x : fl) : res fl :=
  if g_is_nan x then Ok f_nan
  else if negb (g_is_finite x) then Ok x
  else if feq x f_zero then Ok x
  else if fge (g_abs x) g_limit then Ok x
  else rbind (g_round_int (g_abs x)) (fun r => Ok (fmul (of_Z (g_sgn x)) r)).

(** * gcem fmod / remainder (after the exact rewrite): binary long division.
    fmod_exact(ax, ay, odd): a = ay doubled while a <= r/2, then for a going back down to ay:
    subtract a from r whenever r >= a.  Loops are fuelled; [g_fuel] exceeds the number of binades
    of the format, so OutOfFuel is never reached on real inputs (the theorems exclude it). *)
Fixpoint g_fmod_up (fuel : nat) (r a : fl) : res fl :=
  match fuel with
  | O => OutOfFuel
  | S f => if fle a (fmul r f_half) then g_fmod_up f r (fadd a a) else Ok a
  end.
Fixpoint g_fmod_down (fuel : nat) (ay r a : fl) : res (fl * bool) :=
  match fuel with
  | O => OutOfFuel
  | S f =>
      let sub := fge r a in
      let r' := if sub then fsub r a else r in
      if feq a ay then Ok (r', sub) else g_fmod_down f ay r' (fmul a f_half)
  end.
Definition g_fmod_exact (fuel : nat) (ax ay : fl) : res (fl * bool) :=
  rbind (g_fmod_up fuel ax ay) (fun a => g_fmod_down fuel ay ax a).
Definition g_fuel : nat := Z.to_nat (2 * emax + 2 * prec + 8).

Definition g_fmod_invalid (x y : fl) : bool :=
  g_is_nan x || g_is_nan y || negb (g_is_finite x) || feq y f_zero.

Definition g_fmod (x y : fl) : res fl :=
  if g_fmod_invalid x y then Ok f_nan
  else
    let ax := g_abs x in
    let ay := g_abs y in
    if negb (fge ax ay) then Ok x
    else rbind (g_fmod_exact g_fuel ax ay) (fun ro =>
           Ok (if flt x f_zero then fneg (fst ro) else fst ro)).

(* constant-evaluation path of remainder *)
Definition g_remainder (x y : fl) : res fl :=
  if g_fmod_invalid x y then Ok f_nan
  else if negb (g_is_finite y) || feq x f_zero then Ok x
  else
    let ax := g_abs x in
    let ay := g_abs y in
    rbind (if fge ax ay then g_fmod_exact g_fuel ax ay else Ok (ax, false)) (fun ro =>
      let r := fst ro in
      let u := fsub ay r in
      let r' := if fgt r u || (feq r u && snd ro) then fsub r ay else r in
      Ok (if flt x f_zero then fneg r' else r')).

(** * etl fall-backs and library-written functions *)
(* _math/abs.hpp abs_impl for floating-point types: abs(float), fabs:  signbit(n) ? -n : n
   (the sign of a NaN is not visible at this level, see [raw_e_abs] below) *)
Definition e_abs (n : fl) : fl := if Bsign n then fneg n else n.

(* copysign_fallback: if (signbit(x) != signbit(y)) return -x; return x; *)
Definition e_copysign_fb (x y : fl) : fl :=
  if negb (Bool.eqb (Bsign x) (Bsign y)) then fneg x else x.

(* rint_fallback (round to nearest, ties to even) *)
Definition e_rint_fb (arg : fl) : res fl :=
  let limit := fdiv f_one f_eps in
  if negb (fgt arg (fneg limit) && flt arg limit) then Ok arg
  else rbind (to_sint 64 arg) (fun whole =>
    let result := of_Z whole in
    let frac := fsub arg result in
    let odd := negb (Z.rem whole 2 =? 0) in
    let result' :=
      if fgt frac f_half || (feq frac f_half && odd) then fadd result f_one
      else if flt frac (fneg f_half) || (feq frac (fneg f_half) && odd) then fsub result f_one
      else result in
    Ok (e_copysign_fb result' arg)).
(* lrint_fallback<long> / <long long>: both 64 bits (LP64) *)
Definition e_lrint_fb (arg : fl) : res Z := rbind (e_rint_fb arg) (to_sint 64).

(* detail::fmin / detail::fmax / detail::fdim *)
Definition e_fmin (x y : fl) : fl :=
  if fne y y then x else if fne x x then y else if flt y x then y else x.
Definition e_fmax (x y : fl) : fl :=
  if fne y y then x else if fne x x then y else if flt x y then y else x.
Definition e_fdim (x y : fl) : fl :=
  if fne x x || fne y y then fadd x y
  else if fgt x y then fsub x y else f_zero.

(* isfinite = not isnan and not isinf (both builtins) *)
Definition e_isfinite (x : fl) : bool := negb (is_nan x) && negb (match x with B754_infinity _ => true | _ => false end).

(* lerp *)
Definition e_lerp (a b t : fl) : fl :=
  if (fle a f_zero && fge b f_zero) || (fge a f_zero && fle b f_zero) then
    fadd (fmul t b) (fmul (fsub f_one t) a)
  else if feq t f_one then b
  else
    let x := fadd a (fmul t (fsub b a)) in
    if Bool.eqb (fgt t f_one) (fgt b a) then (if flt b x then x else b)
    else (if flt x b then x else b).

(* hypot: only the ladder in front of sqrt is modelled; None = the sqrt kernel is reached *)
Definition e_isinf (x : fl) : bool := match x with B754_infinity _ => true | _ => false end.
Definition e_hypot_ladder (x y : fl) : option fl :=
  if e_isinf x || e_isinf y then Some f_inf
  else if is_nan x || is_nan y then Some f_nan
  else None.
Definition e_hypot3_ladder (x y z : fl) : option fl :=
  if e_isinf x || e_isinf y || e_isinf z then Some f_inf
  else if is_nan x || is_nan y || is_nan z then Some f_nan
  else None.

(* midpoint(Float, Float) *)
Definition e_midpoint (a b : fl) : fl :=
  let two := of_Z 2 in
  let lo := fmul f_min two in
  let hi := fdiv f_max two in
  if fle (e_abs a) hi && fle (e_abs b) hi then fdiv (fadd a b) two
  else if flt (e_abs a) lo then fadd a (fdiv b two)
  else if flt (e_abs b) lo then fadd (fdiv a two) b
  else fadd (fdiv a two) (fdiv b two).

(** * nextafter: integer step on the bit pattern.
    [enc]/[dec] are the bit_cast in both directions, [w] the width of the pattern. *)
Section NextAfter.
Variable w : Z.
Variable enc : fl -> Z.
Variable dec : Z -> fl.
Definition e_nextafter (from to : fl) : fl :=
  if fne from from || fne to to then fadd from to
  else if feq from to then to
  else if feq from f_zero then
    let smallest := dec 1 in
    if flt to f_zero then fneg smallest else smallest
  else
    let fromBits := enc from in
    if Bool.eqb (flt from to) (fgt from f_zero) then dec (wrapu w (fromBits + 1))
    else dec (wrapu w (fromBits - 1)).
End NextAfter.

End Fmt.

(** * bit_cast for the two interchange formats *)
Section Codec.
Variables mw ew : Z.
Hypothesis Hmw : 0 < mw.
Hypothesis Hew : 0 < ew.
Let cemax := 2 ^ (ew - 1).
Let cprec := mw + 1.
Let cemin := 3 - cemax - cprec.
Hypothesis Hmax : cprec < cemax.

(* bit_cast<T>(bits): Flocq's decoder, NaN payload and sign dropped *)
Definition dec (z : Z) : binary_float cprec cemax :=
  Binary.B2BSN cprec cemax (Bits.binary_float_of_bits mw ew Hmw Hew Hmax z).

(* bit_cast<U>(x): the IEEE interchange encoding; the single NaN becomes the quiet NaN with
   zero payload and clear sign *)
Definition enc (x : binary_float cprec cemax) : Z :=
  match x with
  | B754_zero s => Bits.join_bits mw ew s 0 0
  | B754_infinity s => Bits.join_bits mw ew s 0 (2 ^ ew - 1)
  | B754_nan => Bits.join_bits mw ew false (2 ^ (mw - 1)) (2 ^ ew - 1)
  | B754_finite s m e _ =>
      let m' := Zpos m - 2 ^ mw in
      if 0 <=? m' then Bits.join_bits mw ew s m' (e - cemin + 1)
      else Bits.join_bits mw ew s (Zpos m) 0
  end.
End Codec.

(** * the concrete formats *)
Definition p32 : Prec_gt_0 24 := eq_refl.
Definition pe32 : Prec_lt_emax 24 128 := eq_refl.
Definition p64 : Prec_gt_0 53 := eq_refl.
Definition pe64 : Prec_lt_emax 53 1024 := eq_refl.
Definition p80 : Prec_gt_0 64 := eq_refl.
Definition pe80 : Prec_lt_emax 64 16384 := eq_refl.

Notation b32 := (binary_float 24 128).
Notation b64 := (binary_float 53 1024).
Notation b80 := (binary_float 64 16384).

Definition dec32 : Z -> b32 := dec 23 8 eq_refl eq_refl eq_refl.
Definition enc32 : b32 -> Z := enc 23 8.
Definition dec64 : Z -> b64 := dec 52 11 eq_refl eq_refl eq_refl.
Definition enc64 : b64 -> Z := enc 52 11.

(* signbit_fallback: (bit_cast<uintN_t>(arg) >> (N-1)) != 0; all NaNs are identified with the
   canonical quiet NaN (sign bit clear), like everywhere in this model *)
Definition e_signbit_bits (w bits : Z) : bool := negb (Z.shiftr bits (w - 1) =? 0).
Definition signbit_fb32 (x : b32) : bool := e_signbit_bits 32 (enc32 x).
Definition signbit_fb64 (x : b64) : bool := e_signbit_bits 64 (enc64 x).

Definition nextafter32 : b32 -> b32 -> b32 := e_nextafter 24 128 p32 pe32 32 enc32 dec32.
Definition nextafter64 : b64 -> b64 -> b64 := e_nextafter 53 1024 p64 pe64 64 enc64 dec64.

(* x87 extended values travel as (sign, 64-bit significand with explicit integer bit, biased
   exponent); only canonical encodings are produced by the harness *)
Definition dec80 (s : bool) (m : Z) (e : Z) : b80 :=
  if e =? 32767 then (if m =? 2 ^ 63 then B754_infinity s else B754_nan)
  else if m =? 0 then B754_zero s
  else binary_normalize 64 16384 p80 pe80 mode_NE (if s then - m else m)
         ((if e =? 0 then 1 else e) - 16383 - 63) s.
(* bit_cast of an x87 extended value back to (sign, significand, biased exponent); the single NaN
   becomes the default quiet NaN (positive, significand 0xC000000000000000) *)
Definition enc80 (x : b80) : bool * (Z * Z) :=
  match x with
  | B754_zero s => (s, (0, 0))
  | B754_infinity s => (s, (2 ^ 63, 32767))
  | B754_nan => (false, (2 ^ 63 + 2 ^ 62, 32767))
  | B754_finite s m e _ =>
      if Zpos m <? 2 ^ 63 then (s, (Zpos m, 0)) else (s, (Zpos m, e + 16383 + 63))
  end.

(** * sign-bit operations on the RAW encoding (sign and payload of a NaN included).
    A value of a format of width w is its bit pattern 0 <= b < 2^w, bit w-1 is the IEEE sign
    (binary32: w = 32, binary64: w = 64, x87 extended: w = 80 = sign, 15-bit exponent, 64-bit
    significand).  Unary minus flips the sign bit of EVERY value (NaNs included, no quieting);
    __builtin_signbit reads it. *)
Definition raw_signbit (w b : Z) : bool := Z.testbit b (w - 1).
Definition raw_neg (w b : Z) : Z := if Z.testbit b (w - 1) then b - 2 ^ (w - 1) else b + 2 ^ (w - 1).
(* abs_impl (floating-point types): signbit(n) ? -n : n *)
Definition raw_e_abs (w b : Z) : Z := if raw_signbit w b then raw_neg w b else b.
(* copysign_fallback: signbit(x) != signbit(y) ? -x : x *)
Definition raw_e_copysign_fb (w x y : Z) : Z :=
  if negb (Bool.eqb (raw_signbit w x) (raw_signbit w y)) then raw_neg w x else x.
(* signbit_fallback: (bit_cast<uintN_t>(arg) >> (N - 1)) != 0 *)
Definition raw_e_signbit_fb (w b : Z) : bool := e_signbit_bits w b.
