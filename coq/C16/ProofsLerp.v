(* C16 — etl::lerp (Model.e_lerp) honours the exactness guarantees of [c.math.lerp]
   (Spec.spec_lerp_exact): for finite a, b:  lerp(a,b,0) == a,  lerp(a,b,1) == b,  and for finite t
   and a == b:  lerp(a,a,t) == a  — for EVERY format with 2 <= prec and every such triple of values
   (== is the C++ comparison: the sign of a zero result is left open, as in the standard). *)
From Coq Require Import ZArith Bool Lia Lra Reals.
From Flocq Require Import Core BinarySingleNaN.
From Tetl Require Import Lib.Base C16.Model C16.Spec C16.ProofsRound.
Local Open Scope R_scope.

Section Fmt.
Variables prec emax : Z.
Context (Hp : Prec_gt_0 prec) (Hpe : Prec_lt_emax prec emax).
Hypothesis Hprec2 : (2 <= prec)%Z.
Notation fl := (binary_float prec emax).
Notation fexp := (SpecFloat.fexp prec emax).
Notation format := (generic_format radix2 fexp).
Notation fadd := (Model.fadd prec emax Hp Hpe).
Notation fsub := (Model.fsub prec emax Hp Hpe).
Notation fmul := (Model.fmul prec emax Hp Hpe).
Notation one := (f_one prec emax Hp Hpe).
Notation zero := (f_zero prec emax Hp Hpe).

(* x is finite and its value is r *)
Definition isv (x : fl) (r : R) : Prop := is_finite x = true /\ B2R x = r.

Lemma isv_self : forall x : fl, is_finite x = true -> isv x (B2R x).
Proof. intros x Fx. split; [exact Fx|reflexivity]. Qed.

Lemma isv_zero_inv : forall x : fl, isv x 0 -> exists s, x = B754_zero s.
Proof.
  intros [s|s| |s m e H] [Fx Rx]; try discriminate.
  - exists s. reflexivity.
  - exfalso. cbn [B2R] in Rx. destruct s.
    + assert (F2R (Float radix2 (cond_Zopp true (Zpos m)) e) < 0) by (apply F2R_lt_0; reflexivity). lra.
    + assert (0 < F2R (Float radix2 (cond_Zopp false (Zpos m)) e)) by (apply F2R_gt_0; reflexivity). lra.
Qed.

Lemma isv_one : isv one 1.
Proof. destruct (one_correct prec emax Hp Hpe Hprec2) as (O1 & O2 & _). split; assumption. Qed.

Lemma isv_zero : isv zero 0.
Proof. rewrite zero_eq. split; reflexivity. Qed.

Lemma fmul_zero_l : forall (z y : fl) r, isv z 0 -> isv y r -> isv (fmul z y) 0.
Proof.
  intros z y r Hz [Fy _]. destruct (isv_zero_inv z Hz) as [s ->].
  destruct y as [sy|sy| |sy my ey Hy]; try discriminate; split; reflexivity.
Qed.

Lemma fmul_zero_r : forall (y z : fl) r, isv y r -> isv z 0 -> isv (fmul y z) 0.
Proof.
  intros y z r [Fy _] Hz. destruct (isv_zero_inv z Hz) as [s ->].
  destruct y as [sy|sy| |sy my ey Hy]; try discriminate; split; reflexivity.
Qed.

Lemma fadd_zero_l : forall (z a : fl) r, isv z 0 -> isv a r -> isv (fadd z a) r.
Proof.
  intros z a r Hz [Fa Ra]. destruct (isv_zero_inv z Hz) as [s ->].
  destruct a as [sa|sa| |sa ma ea Ha]; try discriminate.
  - split; [|rewrite <- Ra]; unfold Model.fadd; cbn [Bplus]; destruct (Bool.eqb s sa); reflexivity.
  - split; [reflexivity|exact Ra].
Qed.

Lemma fadd_zero_r : forall (a z : fl) r, isv a r -> isv z 0 -> isv (fadd a z) r.
Proof.
  intros a z r [Fa Ra] Hz. destruct (isv_zero_inv z Hz) as [s ->].
  destruct a as [sa|sa| |sa ma ea Ha]; try discriminate.
  - split; [|rewrite <- Ra]; unfold Model.fadd; cbn [Bplus]; destruct (Bool.eqb sa s); reflexivity.
  - split; [reflexivity|exact Ra].
Qed.

Lemma fmul_1_l : forall (t a : fl) r, isv t 1 -> isv a r -> isv (fmul t a) r.
Proof.
  intros t a r [Ft Rt] [Fa Ra].
  destruct (fmul_exact prec emax Hp Hpe t a Ft Fa) as (M1 & M2 & _).
  - rewrite Rt, Rmult_1_l. apply generic_format_B2R.
  - rewrite Rt, Rmult_1_l. apply abs_B2R_lt_emax.
  - split; [exact M2|]. rewrite M1, Rt, Ra. ring.
Qed.

Lemma fsub_eq : forall (x y : fl) r, isv x r -> isv y r -> isv (fsub x y) 0.
Proof.
  intros x y r [Fx Rx] [Fy Ry].
  destruct (fsub_exact prec emax Hp Hpe x y Fx Fy) as (S1 & S2 & _).
  - rewrite Rx, Ry, Rminus_diag_eq by reflexivity. apply generic_format_0.
  - rewrite Rx, Ry, Rminus_diag_eq, Rabs_R0 by reflexivity. apply bpow_gt_0.
  - split; [exact S2|]. rewrite S1, Rx, Ry. ring.
Qed.

Lemma fsub_zero_r : forall (x z : fl) r, isv x r -> isv z 0 -> isv (fsub x z) r.
Proof.
  intros x z r [Fx Rx] [Fz Rz].
  destruct (fsub_exact prec emax Hp Hpe x z Fx Fz) as (S1 & S2 & _).
  - rewrite Rz, Rminus_0_r. apply generic_format_B2R.
  - rewrite Rz, Rminus_0_r. apply abs_B2R_lt_emax.
  - split; [exact S2|]. rewrite S1, Rx, Rz. ring.
Qed.

(* the largest finite value bounds every finite value: a difference of two finite values of the
   same sign, and 1 - t for finite t, do not overflow *)
Lemma fsub_finite_bounded :
  forall (x y : fl) (w : fl), is_finite x = true -> is_finite y = true -> is_finite w = true ->
  Rabs (B2R x - B2R y) <= Rabs (B2R w) -> is_finite (fsub x y) = true.
Proof.
  intros x y w Fx Fy Fw Hb.
  generalize (Bminus_correct prec emax Hp Hpe mode_NE x y Fx Fy).
  rewrite Rlt_bool_true.
  - intros (_ & H2 & _). exact H2.
  - apply Rle_lt_trans with (Rabs (B2R w)); [|apply abs_B2R_lt_emax].
    apply abs_round_le_generic; try typeclasses eauto; [|exact Hb].
    apply generic_format_abs. apply generic_format_B2R.
Qed.

Lemma fsub_same_sign_finite :
  forall a b : fl, is_finite a = true -> is_finite b = true ->
  (0 < B2R a /\ 0 < B2R b) \/ (B2R a < 0 /\ B2R b < 0) -> is_finite (fsub b a) = true.
Proof.
  intros a b Fa Fb Hs.
  destruct (Rle_dec (Rabs (B2R a)) (Rabs (B2R b))) as [L|L].
  - apply (fsub_finite_bounded b a b Fb Fa Fb).
    destruct Hs as [[P1 P2]|[N1 N2]].
    + rewrite (Rabs_pos_eq (B2R a)), (Rabs_pos_eq (B2R b)) in L by lra.
      rewrite (Rabs_pos_eq (B2R b)) by lra. apply Rabs_le. lra.
    + rewrite (Rabs_left (B2R a)), (Rabs_left (B2R b)) in L by lra.
      rewrite (Rabs_left (B2R b)) by lra. apply Rabs_le. lra.
  - apply (fsub_finite_bounded b a a Fb Fa Fa).
    destruct Hs as [[P1 P2]|[N1 N2]].
    + rewrite (Rabs_pos_eq (B2R a)), (Rabs_pos_eq (B2R b)) in L by lra.
      rewrite (Rabs_pos_eq (B2R a)) by lra. apply Rabs_le. lra.
    + rewrite (Rabs_left (B2R a)), (Rabs_left (B2R b)) in L by lra.
      rewrite (Rabs_left (B2R a)) by lra. apply Rabs_le. lra.
Qed.

(* 1 - t for a finite t never overflows when the format has at least two binades above prec
   (true for every IEEE format: emax - prec = 104, 971, 16320): the rounded value is at most 1 away
   from 1 - t, because -t itself is a value of the format *)
Hypothesis Hemax : (prec + 2 <= emax)%Z.

Lemma fsub_one_finite : forall t : fl, is_finite t = true -> is_finite (fsub one t) = true.
Proof.
  intros t Ft. destruct isv_one as [F1 R1].
  generalize (Bminus_correct prec emax Hp Hpe mode_NE one t F1 Ft).
  rewrite Rlt_bool_true.
  - intros (_ & H2 & _). exact H2.
  - rewrite R1. set (x := 1 - B2R t). cbn [round_mode].
    destruct (round_N_pt radix2 fexp (fun z => negb (Z.even z)) x) as [_ HN].
    specialize (HN (- B2R t)). 
    assert (Hf : format (- B2R t)) by (apply generic_format_opp, generic_format_B2R).
    specialize (HN Hf). fold (ZnearestE) in HN.
    replace (- B2R t - x) with (Ropp 1) in HN by (unfold x; ring). rewrite Rabs_Ropp, Rabs_R1 in HN.
    generalize (abs_B2R_le_emax_minus_prec prec emax Hp t). intros Ht.
    assert (H4 : 4 <= bpow radix2 (emax - prec)).
    { change 4 with (bpow radix2 2). apply bpow_le. lia. }
    set (y := round radix2 fexp ZnearestE x) in *.
    assert (Rabs y <= Rabs x + 1).
    { replace y with (x + (y - x)) by ring. eapply Rle_trans; [apply Rabs_triang|]. lra. }
    assert (Rabs x <= 1 + Rabs (B2R t)).
    { unfold x. eapply Rle_trans; [apply Rabs_triang|]. rewrite Rabs_R1, Rabs_Ropp. lra. }
    lra.
Qed.

(** * the theorem *)
Theorem e_lerp_exact_cases : forall (a b t v : fl),
  spec_lerp_exact prec emax Hp Hpe a b t = Some v ->
  Beqb (e_lerp prec emax Hp Hpe a b t) v = true.
Proof.
  intros a b t v. unfold spec_lerp_exact.
  destruct (is_finite a) eqn:Fa; [|discriminate]. destruct (is_finite b) eqn:Fb; [|discriminate].
  cbn [andb].
  assert (Va := isv_self a Fa). assert (Vb := isv_self b Fb).
  (* it is enough to produce the numerical value of v *)
  assert (Hgoal : forall r : fl, is_finite v = true -> isv r (B2R v) -> Beqb r v = true).
  { intros r Fv [Fr Rr]. rewrite Beqb_correct by assumption. apply Req_bool_true. exact Rr. }
  (* the two comparisons that select the first formula *)
  set (c1 := (fle prec emax a zero && fge prec emax b zero) || (fge prec emax a zero && fle prec emax b zero)).
  assert (Hc1 : c1 = (Rle_bool (B2R a) 0 && Rle_bool 0 (B2R b)) || (Rle_bool 0 (B2R a) && Rle_bool (B2R b) 0)).
  { unfold c1, fle, fge. destruct isv_zero as [Fz Rz].
    rewrite !Bleb_correct by assumption. rewrite Rz. reflexivity. }
  assert (Hsame : c1 = false -> (0 < B2R a /\ 0 < B2R b) \/ (B2R a < 0 /\ B2R b < 0)).
  { rewrite Hc1. intros H.
    destruct (Rle_bool_spec (B2R a) 0), (Rle_bool_spec 0 (B2R b)), (Rle_bool_spec 0 (B2R a)), (Rle_bool_spec (B2R b) 0);
      try discriminate H; lra. }
  assert (Hzero : c1 = true -> B2R a = B2R b -> B2R a = 0).
  { rewrite Hc1. intros H E.
    destruct (Rle_bool_spec (B2R a) 0), (Rle_bool_spec 0 (B2R b)), (Rle_bool_spec 0 (B2R a)), (Rle_bool_spec (B2R b) 0);
      try discriminate H; lra. }
  unfold e_lerp. fold c1.
  destruct (Beqb t (B754_zero false)) eqn:T0.
  - (* t == 0 *)
    intros Hv. injection Hv as <-. apply Hgoal; [exact Fa|].
    assert (Vt : isv t 0).
    { destruct t as [st|st| |st mt et Ht]; try discriminate T0; try (exfalso; destruct st; discriminate T0).
      split; reflexivity. }
    destruct c1 eqn:C1.
    + apply fadd_zero_l; [apply (fmul_zero_l t b _ Vt Vb)|].
      apply fmul_1_l; [|exact Va]. apply fsub_zero_r; [exact isv_one|exact Vt].
    + destruct (Hsame eq_refl) as [Hs|Hs];
      (assert (Fd : is_finite (fsub b a) = true) by (apply fsub_same_sign_finite; [exact Fa|exact Fb|tauto]));
      (assert (Vx : isv (fadd a (fmul t (fsub b a))) (B2R a))
         by (apply fadd_zero_r; [exact Va|apply (fmul_zero_l t _ _ Vt (isv_self _ Fd))]));
      destruct Vt as [Ft Rt]; destruct isv_one as [F1 R1]; destruct Vx as [Fx Rx];
      unfold feq, fgt, flt; rewrite (Beqb_correct _ _ t one Ft F1), Rt, R1;
      rewrite Req_bool_false by lra;
      rewrite (Bltb_correct _ _ one t F1 Ft), (Bltb_correct _ _ a b Fa Fb), R1, Rt;
      rewrite (Rlt_bool_false 1 0) by lra;
      rewrite (Bltb_correct _ _ b _ Fb Fx), (Bltb_correct _ _ _ b Fx Fb), Rx;
      destruct (Rlt_bool_spec (B2R a) (B2R b)) as [L|L]; cbn [Bool.eqb];
      try (split; assumption);
      destruct (Rlt_bool_spec (B2R b) (B2R a)) as [L'|L']; try (split; assumption);
      (split; [exact Fb|lra]).
  - destruct (Beqb t (binary_normalize prec emax Hp Hpe mode_NE 1 0 false)) eqn:T1.
    + (* t == 1 *)
      intros Hv. injection Hv as <-. apply Hgoal; [exact Fb|].
      change (binary_normalize prec emax Hp Hpe mode_NE 1 0 false) with one in T1.
      destruct isv_one as [F1 R1].
      assert (Vt : isv t 1).
      { assert (Ft : is_finite t = true).
        { destruct t as [st|st| |st mt et Ht]; try reflexivity; exfalso.
          - revert T1. destruct (one_correct prec emax Hp Hpe Hprec2) as (_ & O2 & _).
            destruct one; try discriminate O2; destruct st; try destruct s; cbn; discriminate.
          - destruct one; discriminate T1. }
        split; [exact Ft|]. rewrite (Beqb_correct _ _ t one Ft F1), R1 in T1.
        destruct (Req_bool_spec (B2R t) 1); [assumption|discriminate]. }
      destruct c1 eqn:C1.
      * apply fadd_zero_r; [apply fmul_1_l; assumption|].
        apply (fmul_zero_l _ a _ (fsub_eq one t 1 isv_one Vt) Va).
      * unfold feq. rewrite T1. exact Vb.
    + (* finite t, a == b *)
      destruct (is_finite t) eqn:Ft; [|discriminate]. cbn [andb].
      destruct (Beqb a b) eqn:Eab; [|discriminate].
      intros Hv. injection Hv as <-. apply Hgoal; [exact Fa|].
      assert (Eq : B2R a = B2R b).
      { rewrite (Beqb_correct _ _ a b Fa Fb) in Eab. destruct (Req_bool_spec (B2R a) (B2R b)); [assumption|discriminate]. }
      assert (Vt := isv_self t Ft).
      destruct c1 eqn:C1.
      * assert (Z0 := Hzero eq_refl Eq).
        assert (Va0 : isv a 0) by (split; [exact Fa|exact Z0]).
        assert (Vb0 : isv b 0) by (split; [exact Fb|rewrite <- Eq; exact Z0]).
        rewrite Z0. apply fadd_zero_l; [apply (fmul_zero_r t b _ Vt Vb0)|].
        apply (fmul_zero_r _ a _ (isv_self _ (fsub_one_finite t Ft)) Va0).
      * assert (Vd : isv (fsub b a) 0) by (apply (fsub_eq b a (B2R a)); [split; [exact Fb|symmetry; exact Eq]|exact Va]).
        assert (Vx : isv (fadd a (fmul t (fsub b a))) (B2R a)).
        { apply fadd_zero_r; [exact Va|apply (fmul_zero_r t _ _ Vt Vd)]. }
        assert (Vb' : isv b (B2R a)) by (split; [exact Fb|symmetry; exact Eq]).
        destruct (feq prec emax t one); [exact Vb'|].
        destruct (Bool.eqb _ _); [destruct (flt prec emax b _)|destruct (flt prec emax _ b)]; assumption.
Qed.

End Fmt.
