(* C16 — proofs: the library-written rint / lrint fall-backs (etl) and gcem's round agree with
   the IEEE/ISO C specification (Flocq's Bnearbyint) on EVERY input, for every binary format
   with 2 <= prec <= 64, in particular binary32, binary64 and the x87 extended format
   (gcem round adds floor(|x|) + 1 in the floating-point type since commit 1802224; before that
   it went through long long and needed prec <= 63).
   g_round calls gcem's floor kernel: that step uses ProofsFloor.g_floor_exact. *)
From Coq Require Import ZArith Bool Lia Lra Psatz Reals.
From Flocq Require Import Core BinarySingleNaN.
From Tetl Require Import Lib.Base C16.Model C16.Spec.
From Tetl Require C16.ProofsFloor C16.ProofsBasic.
Local Open Scope Z_scope.

(** * Part 1: integers and reals *)

Lemma rem2_even : forall z, (Z.rem z 2 =? 0) = Z.even z.
Proof.
  intros z. destruct (Z.even z) eqn:E.
  - apply Z.even_spec in E. destruct E as [k ->]. apply Z.eqb_eq.
    rewrite Z.mul_comm. apply Z.rem_mul. lia.
  - apply Z.eqb_neq. intros H.
    assert (E' : Z.even z = true).
    { apply Z.even_spec. exists (Z.quot z 2). generalize (Z.quot_rem' z 2). lia. }
    congruence.
Qed.

Local Open Scope R_scope.

(* the fractional part left by a truncation *)
Lemma trunc_frac_nonneg : forall r, 0 <= r -> 0 <= r - IZR (Ztrunc r) < 1.
Proof.
  intros r Hr. rewrite Ztrunc_floor by exact Hr.
  generalize (Zfloor_lb r) (Zfloor_ub r). lra.
Qed.

Lemma trunc_frac_nonpos : forall r, r <= 0 -> -1 < r - IZR (Ztrunc r) <= 0.
Proof.
  intros r Hr. rewrite Ztrunc_ceil by exact Hr.
  generalize (Zceil_ub r) (Zceil_lb r). lra.
Qed.

Lemma Zceil_floor_frac : forall r, r - IZR (Zfloor r) <> 0 -> Zceil r = (Zfloor r + 1)%Z.
Proof. intros r H. apply Zceil_floor_neq. lra. Qed.

Lemma Zfloor_ceil_frac : forall r, r - IZR (Zceil r) <> 0 -> Zfloor r = (Zceil r - 1)%Z.
Proof.
  intros r H. destruct (Req_dec (IZR (Zfloor r)) r) as [E|E].
  - exfalso. apply H. unfold Zceil. rewrite <- E at 2. rewrite <- opp_IZR, Zfloor_IZR.
    rewrite opp_IZR, opp_IZR. lra.
  - rewrite (Zceil_floor_neq r E). lia.
Qed.

(* round to nearest even, written like rint_fallback *)
Definition rint_Z (r : R) : Z :=
  let z := Ztrunc r in
  let f := r - IZR z in
  let odd := negb (Z.even z) in
  if Rlt_bool (/2) f || (Req_bool f (/2) && odd) then (z + 1)%Z
  else if Rlt_bool f (-/2) || (Req_bool f (-/2) && odd) then (z - 1)%Z
  else z.

Lemma rint_Z_correct : forall r, ZnearestE r = rint_Z r.
Proof.
  intros r. unfold rint_Z.
  destruct (Rle_dec 0 r) as [Hr|Hr].
  - generalize (trunc_frac_nonneg r Hr). rewrite Ztrunc_floor by exact Hr.
    set (z := Zfloor r). intros Hf. unfold Znearest. fold z.
    case Rcompare_spec; intros Hc.
    + rewrite Rlt_bool_false by lra. rewrite Req_bool_false by lra.
      rewrite Rlt_bool_false by lra. rewrite Req_bool_false by lra. reflexivity.
    + rewrite Rlt_bool_false by lra. rewrite Req_bool_true by lra.
      rewrite Rlt_bool_false by lra. rewrite Req_bool_false by lra.
      rewrite Zceil_floor_frac by (fold z; lra). fold z.
      cbn [orb andb]. destruct (Z.even z); reflexivity.
    + rewrite Rlt_bool_true by lra. rewrite Zceil_floor_frac by (fold z; lra). reflexivity.
  - assert (Hr' : r <= 0) by lra.
    generalize (trunc_frac_nonpos r Hr'). rewrite Ztrunc_ceil by exact Hr'.
    set (z := Zceil r). intros Hf.
    rewrite Rlt_bool_false by lra. rewrite (Req_bool_false _ (/2)) by lra. cbn [orb andb].
    destruct (Req_dec (r - IZR z) 0) as [E0|E0].
    + rewrite Rlt_bool_false by lra. rewrite Req_bool_false by lra. cbn [orb andb].
      replace r with (IZR z) by lra. apply Znearest_imp.
      rewrite Rminus_eq_0, Rabs_R0. lra.
    + unfold Znearest. rewrite (Zfloor_ceil_frac r E0). fold z.
      rewrite minus_IZR.
      case Rcompare_spec; intros Hc.
      * rewrite Rlt_bool_true by lra. reflexivity.
      * rewrite Rlt_bool_false by lra. rewrite Req_bool_true by lra. cbn [orb andb].
        replace (z - 1)%Z with (Z.pred z) by lia. rewrite Z.even_pred, <- Z.negb_even.
        destruct (Z.even z); reflexivity.
      * rewrite Rlt_bool_false by lra. rewrite Req_bool_false by lra. reflexivity.
Qed.

(* round half away from zero on a positive argument, written like gcem's find_whole *)
Definition round_Z (r : R) : Z :=
  let z := Zfloor r in
  if Rle_bool (/2) (r - IZR z) then (z + 1)%Z else z.

Lemma round_Z_correct : forall r, 0 <= r -> ZnearestA r = round_Z r.
Proof.
  intros r Hr. unfold round_Z, Znearest.
  generalize (Zfloor_lb r) (Zfloor_ub r). set (z := Zfloor r). intros H1 H2.
  assert (Hz : (0 <= z)%Z). { apply Zfloor_lub. exact Hr. }
  case Rcompare_spec; intros Hc.
  - rewrite Rle_bool_false by lra. reflexivity.
  - rewrite Rle_bool_true by lra. rewrite Zceil_floor_frac by (fold z; lra). fold z.
    replace (0 <=? z)%Z with true by (symmetry; apply Z.leb_le; exact Hz). reflexivity.
  - rewrite Rle_bool_true by lra. rewrite Zceil_floor_frac by (fold z; lra). reflexivity.
Qed.

Lemma ZnearestA_opp : forall r, ZnearestA (- r) = (- ZnearestA r)%Z.
Proof.
  intros r. apply eq_IZR. rewrite opp_IZR, <- !(round_FIX_IZR ZnearestA).
  apply round_NA_opp.
Qed.

(* |r - trunc r| <= |r| *)
Lemma trunc_frac_abs : forall r, Rabs (r - IZR (Ztrunc r)) <= Rabs r.
Proof.
  intros r. destruct (Rle_dec 0 r) as [Hr|Hr].
  - generalize (trunc_frac_nonneg r Hr). intros H.
    assert (0 <= IZR (Ztrunc r)).
    { rewrite Ztrunc_floor by exact Hr. apply IZR_le. apply Zfloor_lub. exact Hr. }
    rewrite !Rabs_pos_eq by lra. lra.
  - assert (Hr' : r <= 0) by lra. generalize (trunc_frac_nonpos r Hr'). intros H.
    assert (IZR (Ztrunc r) <= 0).
    { rewrite Ztrunc_ceil by exact Hr'. apply IZR_le. apply Zceil_glb. exact Hr'. }
    rewrite !Rabs_left1 by lra. lra.
Qed.

(* the fractional part of a floating-point number is a floating-point number *)
Lemma format_trunc_frac :
  forall (fexp : Z -> Z) {Vf : Valid_exp fexp} {Mf : Monotone_exp fexp} (r : R),
  generic_format radix2 fexp r -> generic_format radix2 fexp (r - IZR (Ztrunc r)).
Proof.
  intros fexp Vf Mf r Hr.
  set (e := cexp radix2 fexp r). set (m := Ztrunc (scaled_mantissa radix2 fexp r)).
  assert (Er : r = F2R (Float radix2 m e)) by exact Hr.
  destruct (Z_le_gt_dec 0 e) as [He|He].
  - assert (Ei : r = IZR (m * 2 ^ e)).
    { rewrite Er at 1. unfold F2R. cbn [Fnum Fexp]. rewrite mult_IZR.
      rewrite (IZR_Zpower radix2) by exact He. reflexivity. }
    rewrite Ei at 2. rewrite Ztrunc_IZR, <- Ei, Rminus_eq_0. apply generic_format_0.
  - set (z := Ztrunc r).
    assert (Ed : r - IZR z = F2R (Float radix2 (m - z * 2 ^ (- e)) e)).
    { rewrite Er at 1. unfold F2R. cbn [Fnum Fexp]. rewrite minus_IZR, mult_IZR.
      rewrite (IZR_Zpower radix2) by lia. rewrite Rmult_minus_distr_r, Rmult_assoc.
      rewrite <- bpow_plus. replace (- e + e)%Z with 0%Z by lia. cbn [bpow]. ring. }
    rewrite Ed. apply generic_format_F2R. intros Hm. rewrite <- Ed.
    unfold cexp. apply Mf. apply mag_le_abs.
    + rewrite Ed. apply F2R_neq_0. exact Hm.
    + apply trunc_frac_abs.
Qed.

Lemma Znearest_sign :
  forall choice r, Znearest choice r <> 0%Z ->
  Rlt_bool (IZR (Znearest choice r)) 0 = Rlt_bool r 0 /\ r <> 0.
Proof.
  intros choice r Hk.
  destruct (Rlt_bool_spec r 0) as [Hr|Hr].
  - assert (H : (Znearest choice r <= 0)%Z).
    { rewrite <- (Zrnd_IZR (Znearest choice) 0). apply Zrnd_le; [apply valid_rnd_N | lra]. }
    split; [|lra]. apply Rlt_bool_true. apply IZR_lt. lia.
  - assert (H : (0 <= Znearest choice r)%Z).
    { rewrite <- (Zrnd_IZR (Znearest choice) 0). apply Zrnd_le; [apply valid_rnd_N | lra]. }
    split.
    + apply Rlt_bool_false. apply IZR_le. lia.
    + intros ->. apply Hk. apply (Zrnd_IZR (Znearest choice) 0).
Qed.

(* |r| < 2^p: the truncation and both neighbours stay within [-2^p, 2^p] *)
Lemma Ztrunc_bound :
  forall r (L : Z), - IZR L < r < IZR L -> (- L < Ztrunc r < L)%Z.
Proof.
  intros r L H. destruct (Rle_dec 0 r) as [Hr|Hr].
  - rewrite Ztrunc_floor by exact Hr. generalize (Zfloor_lb r) (Zfloor_lub 0 r Hr). intros H1 H2.
    split; [|apply lt_IZR; lra]. assert (0 < L)%Z by (apply lt_IZR; lra). lia.
  - assert (Hr' : r <= 0) by lra. rewrite Ztrunc_ceil by exact Hr'.
    generalize (Zceil_ub r) (Zceil_glb 0 r Hr'). intros H1 H2.
    split; [apply lt_IZR; rewrite opp_IZR; lra|]. assert (0 < L)%Z by (apply lt_IZR; lra). lia.
Qed.

(** * Part 2: the floating-point operations of the model, when they are exact *)
Section Fmt.
Variables prec emax : Z.
Context (Hp : Prec_gt_0 prec) (Hpe : Prec_lt_emax prec emax).
Hypothesis Hprec2 : (2 <= prec)%Z.

Notation fl := (binary_float prec emax).
Notation emin := (SpecFloat.emin prec emax).
Notation fexp := (SpecFloat.fexp prec emax).
Notation format := (generic_format radix2 fexp).
Notation ofZ := (of_Z prec emax Hp Hpe).
Notation half := (f_half prec emax Hp Hpe).
Notation one := (f_one prec emax Hp Hpe).
Notation zero := (f_zero prec emax Hp Hpe).
Notation eps := (f_eps prec emax Hp Hpe).
Notation limit := (fdiv prec emax Hp Hpe one eps).
Notation fadd := (Model.fadd prec emax Hp Hpe).
Notation fsub := (Model.fsub prec emax Hp Hpe).
Notation fmul := (Model.fmul prec emax Hp Hpe).

Let Hpe' : (prec < emax)%Z := Hpe.
Let Hp' : (0 < prec)%Z := Hp.

Lemma emin_le : (emin <= 2 - 2 * prec)%Z.
Proof. unfold SpecFloat.emin. lia. Qed.

Lemma bpow_prec_emax : bpow radix2 prec <= bpow radix2 emax.
Proof. apply bpow_le. lia. Qed.

Lemma format_IZR : forall n, (Z.abs n < 2 ^ prec)%Z -> format (IZR n).
Proof.
  intros n Hn. apply generic_format_FLT. apply FLT_spec with (f := Float radix2 n 0).
  - unfold F2R. cbn [Fnum Fexp bpow]. ring.
  - exact Hn.
  - cbn [Fexp]. generalize emin_le. lia.
Qed.

Lemma format_bpow : forall e, (emin <= e)%Z -> format (bpow radix2 e).
Proof.
  intros e He. apply generic_format_FLT_bpow; [exact Hp | exact He].
Qed.

Lemma finite_not_nan : forall x : fl, is_finite x = true -> is_nan x = false.
Proof. intros [s|s| |s m e H]; cbn; congruence. Qed.

Lemma Bsign_finite :
  forall x : fl, is_finite x = true -> B2R x <> 0 -> Bsign x = Rlt_bool (B2R x) 0.
Proof.
  intros [s|s| |s m e H] Fx Nx; try discriminate.
  - exfalso. apply Nx. reflexivity.
  - cbn [B2R Bsign]. destruct s; cbn [cond_Zopp].
    + symmetry. apply Rlt_bool_true. apply F2R_lt_0. reflexivity.
    + symmetry. apply Rlt_bool_false. apply F2R_ge_0. cbn. lia.
Qed.

(* T(m 2^e) when that is a value of the format *)
Lemma normalize_exact :
  forall m e, let v := F2R (Float radix2 m e) in
  format v -> Rabs v < bpow radix2 emax ->
  let y := binary_normalize prec emax Hp Hpe mode_NE m e false in
  B2R y = v /\ is_finite y = true /\ Bsign y = Rlt_bool v 0.
Proof.
  intros m e v Hv Hb y.
  generalize (binary_normalize_correct prec emax Hp Hpe mode_NE m e false).
  fold v. fold y. cbv zeta.
  rewrite round_generic by (try apply valid_rnd_round_mode; exact Hv).
  rewrite Rlt_bool_true by exact Hb.
  intros (H1 & H2 & H3). split; [exact H1|]. split; [exact H2|].
  rewrite H3. case Rcompare_spec; intros Hc.
  - symmetry. apply Rlt_bool_true. exact Hc.
  - symmetry. apply Rlt_bool_false. lra.
  - symmetry. apply Rlt_bool_false. lra.
Qed.

Lemma IZR_bound : forall n, (Z.abs n < 2 ^ prec)%Z -> Rabs (IZR n) < bpow radix2 emax.
Proof.
  intros n Hn. apply Rlt_le_trans with (2 := bpow_prec_emax).
  rewrite <- abs_IZR. rewrite <- (IZR_Zpower radix2) by lia. apply IZR_lt. exact Hn.
Qed.

Lemma of_Z_correct :
  forall n, (Z.abs n < 2 ^ prec)%Z ->
  B2R (ofZ n) = IZR n /\ is_finite (ofZ n) = true /\ Bsign (ofZ n) = Rlt_bool (IZR n) 0.
Proof.
  intros n Hn.
  assert (E : F2R (Float radix2 n 0) = IZR n).
  { unfold F2R. cbn [Fnum Fexp bpow]. ring. }
  generalize (normalize_exact n 0). cbv zeta. rewrite E.
  intros H. apply H; [apply format_IZR; exact Hn | apply IZR_bound; exact Hn].
Qed.

Lemma pow2_correct :
  forall e, (emin <= e < emax)%Z ->
  B2R (pow2 prec emax Hp Hpe e) = bpow radix2 e /\ is_finite (pow2 prec emax Hp Hpe e) = true /\
  Bsign (pow2 prec emax Hp Hpe e) = false.
Proof.
  intros e He. unfold pow2.
  assert (E : F2R (Float radix2 1 e) = bpow radix2 e).
  { unfold F2R. cbn [Fnum Fexp]. ring. }
  generalize (normalize_exact 1 e). cbv zeta. rewrite E. intros H.
  destruct H as (H1 & H2 & H3).
  - apply format_bpow. lia.
  - rewrite Rabs_pos_eq by apply bpow_ge_0. apply bpow_lt. lia.
  - split; [exact H1|]. split; [exact H2|]. rewrite H3. apply Rlt_bool_false. apply bpow_ge_0.
Qed.

Lemma pow2_prec_pos : (0 < 2 ^ prec)%Z.
Proof. apply Z.pow_pos_nonneg; lia. Qed.

Lemma one_correct : B2R one = 1 /\ is_finite one = true /\ Bsign one = false.
Proof.
  unfold f_one. destruct (of_Z_correct 1) as (H1 & H2 & H3).
  { change (Z.abs 1) with 1%Z. apply Z.pow_gt_1; lia. }
  split; [exact H1|]. split; [exact H2|]. rewrite H3. apply Rlt_bool_false. lra.
Qed.

Lemma zero_eq : zero = B754_zero false.
Proof. reflexivity. Qed.

Lemma half_correct : B2R half = /2 /\ is_finite half = true /\ Bsign half = false.
Proof.
  unfold f_half. destruct (pow2_correct (-1)) as (H1 & H2 & H3).
  { generalize emin_le. lia. }
  split; [|split; assumption]. rewrite H1. reflexivity.
Qed.

Lemma eps_correct : B2R eps = bpow radix2 (1 - prec) /\ is_finite eps = true /\ Bsign eps = false.
Proof.
  unfold f_eps. apply pow2_correct. unfold SpecFloat.emin. lia.
Qed.

Lemma limit_correct :
  B2R limit = bpow radix2 (prec - 1) /\ is_finite limit = true /\ Bsign limit = false.
Proof.
  destruct one_correct as (O1 & O2 & O3). destruct eps_correct as (E1 & E2 & E3).
  assert (Ne : B2R eps <> 0).
  { rewrite E1. apply Rgt_not_eq. apply bpow_gt_0. }
  generalize (Bdiv_correct prec emax Hp Hpe mode_NE one eps Ne).
  assert (Eq : B2R one / B2R eps = bpow radix2 (prec - 1)).
  { rewrite O1, E1. unfold Rdiv. rewrite <- bpow_opp, Rmult_1_l. f_equal. lia. }
  rewrite Eq.
  rewrite round_generic by (try apply valid_rnd_round_mode; apply format_bpow;
                            generalize emin_le; lia).
  rewrite Rlt_bool_true by (rewrite Rabs_pos_eq by apply bpow_ge_0; apply bpow_lt; lia).
  unfold fdiv. intros (H1 & H2 & H3). split; [exact H1|].
  assert (F : is_finite (Bdiv mode_NE one eps) = true) by (rewrite H2; exact O2).
  split; [exact F|]. rewrite H3 by (apply finite_not_nan; exact F). rewrite O3, E3. reflexivity.
Qed.

Lemma limit_shape : exists m e H, limit = B754_finite false m e H.
Proof.
  destruct limit_correct as (L1 & L2 & L3).
  destruct limit as [s|s| |s m e H]; try discriminate.
  - exfalso. cbn in L1. generalize (bpow_gt_0 radix2 (prec - 1)). lra.
  - cbn in L3. subst s. exists m, e, H. reflexivity.
Qed.

(* exact sums and differences *)
Lemma fadd_exact :
  forall x y : fl, is_finite x = true -> is_finite y = true ->
  let v := B2R x + B2R y in
  format v -> Rabs v < bpow radix2 emax ->
  B2R (fadd x y) = v /\ is_finite (fadd x y) = true /\
  (v <> 0 -> Bsign (fadd x y) = Rlt_bool v 0).
Proof.
  intros x y Fx Fy v Hv Hb.
  generalize (Bplus_correct prec emax Hp Hpe mode_NE x y Fx Fy). fold v.
  rewrite round_generic by (try apply valid_rnd_round_mode; exact Hv).
  rewrite Rlt_bool_true by exact Hb. unfold Model.fadd.
  intros (H1 & H2 & H3). split; [exact H1|]. split; [exact H2|].
  intros Nv. rewrite H3. case Rcompare_spec; intros Hc.
  - symmetry. apply Rlt_bool_true. exact Hc.
  - contradiction.
  - symmetry. apply Rlt_bool_false. lra.
Qed.

Lemma fsub_exact :
  forall x y : fl, is_finite x = true -> is_finite y = true ->
  let v := B2R x - B2R y in
  format v -> Rabs v < bpow radix2 emax ->
  B2R (fsub x y) = v /\ is_finite (fsub x y) = true /\
  (v <> 0 -> Bsign (fsub x y) = Rlt_bool v 0).
Proof.
  intros x y Fx Fy v Hv Hb.
  generalize (Bminus_correct prec emax Hp Hpe mode_NE x y Fx Fy). fold v.
  rewrite round_generic by (try apply valid_rnd_round_mode; exact Hv).
  rewrite Rlt_bool_true by exact Hb. unfold Model.fsub.
  intros (H1 & H2 & H3). split; [exact H1|]. split; [exact H2|].
  intros Nv. rewrite H3. case Rcompare_spec; intros Hc.
  - symmetry. apply Rlt_bool_true. exact Hc.
  - contradiction.
  - symmetry. apply Rlt_bool_false. lra.
Qed.

(* conversion to a 64-bit integer *)
Lemma Btrunc_Ztrunc : forall x : fl, Btrunc x = Ztrunc (B2R x).
Proof.
  intros x. apply eq_IZR. rewrite (Btrunc_correct prec emax Hpe). apply round_FIX_IZR.
Qed.

Lemma to_sint_finite :
  forall w (x : fl), is_finite x = true ->
  to_sint prec emax w x = if in_s w (Btrunc x) then Ok (Btrunc x) else UB SignedOverflow.
Proof. intros w [s|s| |s m e H] Fx; try discriminate; reflexivity. Qed.

(* a value of magnitude >= 2^(prec-1) is an integer: nearbyint is the identity *)
Lemma nearbyint_big :
  forall md (x : fl), is_finite x = true -> bpow radix2 (prec - 1) <= Rabs (B2R x) ->
  Bnearbyint md x = x.
Proof.
  intros md x Fx Hx.
  destruct (Bnearbyint_correct prec emax Hpe md x) as (N1 & N2 & N3).
  apply B2R_Bsign_inj.
  - rewrite N2. exact Fx.
  - exact Fx.
  - rewrite N1. apply round_generic; [apply valid_rnd_round_mode|].
    apply generic_inclusion_ge with (fexp1 := fexp) (e1 := (prec - 1)%Z).
    + intros e He. unfold FIX_exp, SpecFloat.fexp. lia.
    + exact Hx.
    + apply generic_format_B2R.
  - apply N3. apply finite_not_nan. rewrite N2. exact Fx.
Qed.

Lemma nearbyint_unique :
  forall md (x y : fl), is_finite x = true -> is_finite y = true ->
  B2R y = IZR (round_mode md (B2R x)) -> Bsign y = Bsign x -> y = Bnearbyint md x.
Proof.
  intros md x y Fx Fy Hy Hs.
  destruct (Bnearbyint_correct prec emax Hpe md x) as (N1 & N2 & N3).
  apply B2R_Bsign_inj.
  - exact Fy.
  - rewrite N2. exact Fx.
  - rewrite N1, round_FIX_IZR. exact Hy.
  - rewrite N3 by (apply finite_not_nan; rewrite N2; exact Fx). exact Hs.
Qed.

(** * Part 3: rint_fallback *)

(* copysign(y, x) when y is the nearest integer of x *)
Lemma copysign_nearest :
  forall (y x : fl), is_finite y = true -> is_finite x = true ->
  B2R y = IZR (ZnearestE (B2R x)) ->
  e_copysign_fb prec emax y x = Bnearbyint mode_NE x.
Proof.
  intros y x Fy Fx Hy. unfold e_copysign_fb.
  destruct (Bool.eqb (Bsign y) (Bsign x)) eqn:Es; cbn [negb].
  - apply nearbyint_unique; [exact Fx | exact Fy | exact Hy | apply eqb_prop; exact Es].
  - unfold fneg.
    assert (K0 : ZnearestE (B2R x) = 0%Z).
    { destruct (Z.eq_dec (ZnearestE (B2R x)) 0) as [E|E]; [exact E|exfalso].
      destruct (Znearest_sign _ _ E) as (S1 & S2).
      assert (Ny : B2R y <> 0). { rewrite Hy. intros H. apply eq_IZR in H. contradiction. }
      rewrite (Bsign_finite y Fy Ny), (Bsign_finite x Fx S2), Hy, S1 in Es.
      rewrite eqb_reflx in Es. discriminate. }
    apply nearbyint_unique.
    + exact Fx.
    + rewrite is_finite_Bopp. exact Fy.
    + rewrite B2R_Bopp, Hy, K0. cbn [round_mode]. rewrite K0. lra.
    + rewrite Bsign_Bopp by (apply finite_not_nan; exact Fy).
      destruct (Bsign y), (Bsign x); cbn in Es |- *; congruence.
Qed.

Section Rint.
Hypothesis Hprec64 : (prec <= 64)%Z.

Lemma pow_prec_double : (2 ^ prec = 2 * 2 ^ (prec - 1))%Z.
Proof. rewrite <- Z.pow_succ_r by lia. f_equal. lia. Qed.

Lemma pow_prec1_le : (2 ^ (prec - 1) <= 2 ^ (64 - 1))%Z.
Proof. apply Z.pow_le_mono_r; lia. Qed.

Lemma bpow_prec1 : bpow radix2 (prec - 1) = IZR (2 ^ (prec - 1)).
Proof. rewrite (IZR_Zpower radix2) by lia. reflexivity. Qed.

(* |x| < 2^(prec-1): the conversion to long long is defined *)
Lemma to_sint_small :
  forall x : fl, is_finite x = true ->
  - bpow radix2 (prec - 1) < B2R x < bpow radix2 (prec - 1) ->
  to_sint prec emax 64 x = Ok (Ztrunc (B2R x)) /\
  (- 2 ^ (prec - 1) < Ztrunc (B2R x) < 2 ^ (prec - 1))%Z.
Proof.
  intros x Fx Hx. rewrite bpow_prec1 in Hx. apply Ztrunc_bound in Hx.
  split; [|exact Hx].
  rewrite to_sint_finite by exact Fx. rewrite Btrunc_Ztrunc.
  replace (in_s 64 (Ztrunc (B2R x))) with true; [reflexivity|].
  symmetry. unfold in_s. generalize pow_prec1_le. intros HL.
  apply andb_true_intro. split; [apply Z.leb_le | apply Z.ltb_lt]; lia.
Qed.

Lemma e_rint_fb_finite :
  forall x : fl, is_finite x = true ->
  e_rint_fb prec emax Hp Hpe x = Ok (Bnearbyint mode_NE x).
Proof.
  intros x Fx. unfold e_rint_fb. cbv zeta.
  destruct limit_correct as (L1 & L2 & L3).
  destruct half_correct as (Hh1 & Hh2 & _).
  destruct one_correct as (O1 & O2 & _).
  assert (L2' : is_finite (Bopp limit) = true) by (rewrite is_finite_Bopp; exact L2).
  assert (Hh2' : is_finite (Bopp half) = true) by (rewrite is_finite_Bopp; exact Hh2).
  unfold fgt, flt, fneg, feq.
  rewrite (Bltb_correct _ _ (Bopp limit) x L2' Fx), (Bltb_correct _ _ x limit Fx L2).
  rewrite B2R_Bopp, L1. set (r := B2R x).
  destruct (Rlt_bool_spec (- bpow radix2 (prec - 1)) r) as [Hlo|Hlo];
    [destruct (Rlt_bool_spec r (bpow radix2 (prec - 1))) as [Hhi|Hhi]|]; cbn [andb negb].
  2: { f_equal. symmetry. apply nearbyint_big; [exact Fx|]. fold r.
       rewrite Rabs_pos_eq; [exact Hhi|]. generalize (bpow_ge_0 radix2 (prec - 1)). lra. }
  2: { f_equal. symmetry. apply nearbyint_big; [exact Fx|]. fold r.
       rewrite Rabs_left1; [lra|]. generalize (bpow_ge_0 radix2 (prec - 1)). lra. }
  destruct (to_sint_small x Fx (conj Hlo Hhi)) as (-> & Hz). fold r in Hz |- *.
  cbn [rbind]. set (z := Ztrunc r) in *.
  generalize pow_prec_double. intros Epow.
  destruct (of_Z_correct z) as (R1 & R2 & _); [lia|].
  destruct (fsub_exact x (ofZ z) Fx R2) as (D1 & D2 & _).
  { rewrite R1. apply format_trunc_frac; try typeclasses eauto. apply generic_format_B2R. }
  { rewrite R1. apply Rle_lt_trans with (1 := trunc_frac_abs r). apply abs_B2R_lt_emax. }
  set (frac := fsub x (ofZ z)) in *.
  rewrite (Bltb_correct _ _ half frac Hh2 D2), (Beqb_correct _ _ frac half D2 Hh2).
  rewrite (Bltb_correct _ _ frac (Bopp half) D2 Hh2'), (Beqb_correct _ _ frac (Bopp half) D2 Hh2').
  rewrite B2R_Bopp, Hh1, D1, R1. fold r. rewrite rem2_even.
  f_equal. apply copysign_nearest; [|exact Fx|].
  - destruct (_ || _); [|destruct (_ || _)].
    + apply fadd_exact; [exact R2|exact O2| |]; rewrite R1, O1, <- plus_IZR.
      * apply format_IZR. lia.
      * apply IZR_bound. lia.
    + apply fsub_exact; [exact R2|exact O2| |]; rewrite R1, O1, <- minus_IZR.
      * apply format_IZR. lia.
      * apply IZR_bound. lia.
    + exact R2.
  - fold r. rewrite rint_Z_correct. unfold rint_Z. fold z.
    destruct (_ || _); [|destruct (_ || _)].
    + destruct (fadd_exact (ofZ z) one R2 O2) as (A1 & _); [| |rewrite A1, R1, O1, <- plus_IZR; reflexivity];
        rewrite R1, O1, <- plus_IZR.
      * apply format_IZR. lia.
      * apply IZR_bound. lia.
    + destruct (fsub_exact (ofZ z) one R2 O2) as (A1 & _); [| |rewrite A1, R1, O1, <- minus_IZR; reflexivity];
        rewrite R1, O1, <- minus_IZR.
      * apply format_IZR. lia.
      * apply IZR_bound. lia.
    + exact R1.
Qed.

Theorem e_rint_fb_exact :
  forall x : fl, e_rint_fb prec emax Hp Hpe x = Ok (spec_rint prec emax Hpe x).
Proof.
  intros x. unfold spec_rint.
  destruct (is_finite x) eqn:Fx; [apply e_rint_fb_finite; exact Fx|].
  destruct limit_shape as (lm & le & lH & EL).
  unfold e_rint_fb. cbv zeta. rewrite EL.
  destruct x as [s|s| |s m e H]; try discriminate.
  - destruct s; reflexivity.
  - reflexivity.
Qed.

Theorem e_lrint_fb_exact :
  forall (x : fl) z, spec_lrint prec emax Hpe 64 x = Some z -> e_lrint_fb prec emax Hp Hpe x = Ok z.
Proof.
  intros x z Hs. unfold e_lrint_fb. rewrite e_rint_fb_exact. cbn [rbind]. unfold spec_rint.
  assert (Fx : is_finite x = true).
  { destruct x; try discriminate; reflexivity. }
  assert (Hs' : (if in_s 64 (Btrunc (Bnearbyint mode_NE x)) then Some (Btrunc (Bnearbyint mode_NE x)) else None) = Some z).
  { destruct x; try discriminate; exact Hs. }
  rewrite to_sint_finite.
  - destruct (in_s 64 (Btrunc (Bnearbyint mode_NE x))); [|discriminate]. congruence.
  - destruct (Bnearbyint_correct prec emax Hpe mode_NE x) as (_ & N2 & _). rewrite N2. exact Fx.
Qed.

(* ... and the conversion is undefined exactly when C leaves lrint unspecified (NaN, infinity,
   rounded value outside long long): the fall-back has no other undefined case *)
Theorem e_lrint_fb_char :
  forall x : fl, e_lrint_fb prec emax Hp Hpe x =
    match spec_lrint prec emax Hpe 64 x with Some z => Ok z | None => UB SignedOverflow end.
Proof.
  intros x. unfold e_lrint_fb. rewrite e_rint_fb_exact. cbn [rbind]. unfold spec_rint, spec_lrint.
  destruct (Bnearbyint_correct prec emax Hpe mode_NE x) as (_ & N2 & _).
  destruct x as [s|s| |s m e H].
  - cbn. reflexivity.
  - reflexivity.
  - reflexivity.
  - set (y := Bnearbyint mode_NE (B754_finite s m e H)) in *. unfold to_sint.
    destruct y as [s'|s'| |s' m' e' H']; try discriminate N2;
      destruct (in_s 64 _); reflexivity.
Qed.

End Rint.

(** * Part 4: gcem round *)

Lemma fin_is_nan : forall x : fl, is_finite x = true -> g_is_nan prec emax x = false.
Proof.
  intros x Fx. unfold g_is_nan, fne. rewrite Beqb_refl, (finite_not_nan x Fx). reflexivity.
Qed.

Lemma fin_is_finite : forall x : fl, is_finite x = true -> g_is_finite prec emax x = true.
Proof.
  intros x Fx. unfold g_is_finite. rewrite (fin_is_nan x Fx).
  destruct x as [s|s| |s m e H]; try discriminate; destruct s; reflexivity.
Qed.

Lemma zero_correct : B2R zero = 0 /\ is_finite zero = true.
Proof. split; reflexivity. Qed.

Lemma fin_eq0 : forall x : fl, is_finite x = true -> feq prec emax x zero = Req_bool (B2R x) 0.
Proof. intros x Fx. unfold feq. rewrite Beqb_correct by (exact Fx || reflexivity). reflexivity. Qed.

Lemma fin_lt0 : forall x : fl, is_finite x = true -> flt prec emax x zero = Rlt_bool (B2R x) 0.
Proof. intros x Fx. unfold flt. rewrite Bltb_correct by (exact Fx || reflexivity). reflexivity. Qed.

Lemma fin_gt0 : forall x : fl, is_finite x = true -> fgt prec emax x zero = Rlt_bool 0 (B2R x).
Proof. intros x Fx. unfold fgt. rewrite Bltb_correct by (exact Fx || reflexivity). reflexivity. Qed.

Lemma g_abs_correct :
  forall x : fl, is_finite x = true ->
  B2R (g_abs prec emax Hp Hpe x) = Rabs (B2R x) /\ is_finite (g_abs prec emax Hp Hpe x) = true.
Proof.
  intros x Fx. unfold g_abs. rewrite (fin_eq0 x Fx), (fin_lt0 x Fx).
  destruct (Req_bool_spec (B2R x) 0) as [E|E].
  - rewrite E, Rabs_R0. split; reflexivity.
  - destruct (Rlt_bool_spec (B2R x) 0) as [L|L].
    + unfold fneg. rewrite B2R_Bopp, is_finite_Bopp. rewrite Rabs_left by exact L. split; [reflexivity|exact Fx].
    + rewrite Rabs_pos_eq by exact L. split; [reflexivity|exact Fx].
Qed.

Lemma g_sgn_correct :
  forall x : fl, is_finite x = true ->
  g_sgn prec emax Hp Hpe x =
  if Rlt_bool 0 (B2R x) then 1%Z else if Rlt_bool (B2R x) 0 then (-1)%Z else 0%Z.
Proof. intros x Fx. unfold g_sgn. rewrite (fin_gt0 x Fx), (fin_lt0 x Fx). reflexivity. Qed.

Lemma fmul_exact :
  forall x y : fl, is_finite x = true -> is_finite y = true ->
  let v := B2R x * B2R y in
  format v -> Rabs v < bpow radix2 emax ->
  B2R (fmul x y) = v /\ is_finite (fmul x y) = true /\
  Bsign (fmul x y) = xorb (Bsign x) (Bsign y).
Proof.
  intros x y Fx Fy v Hv Hb.
  generalize (Bmult_correct prec emax Hp Hpe mode_NE x y). fold v.
  rewrite round_generic by (try apply valid_rnd_round_mode; exact Hv).
  rewrite Rlt_bool_true by exact Hb. unfold Model.fmul.
  intros (H1 & H2 & H3). rewrite Fx, Fy in H2. split; [exact H1|]. split; [exact H2|].
  apply H3. apply finite_not_nan. exact H2.
Qed.

Section Round.
Hypothesis Hprec64' : (prec <= 64)%Z.

Lemma Bsign_g_abs : forall x : fl, is_finite x = true -> Bsign (g_abs prec emax Hp Hpe x) = false.
Proof.
  intros x Fx. rewrite (ProofsBasic.g_abs_exact prec emax Hp Hpe x). unfold spec_fabs.
  destruct x as [s|s| |s m e H]; try discriminate; reflexivity.
Qed.

(* round_int on a positive argument below 2^(prec-1): floor(a) or floor(a) + 1, computed in T *)
Lemma g_round_int_pos :
  forall a : fl, is_finite a = true -> Bsign a = false -> 0 < B2R a < bpow radix2 (prec - 1) ->
  exists v : fl, g_round_int prec emax Hp Hpe a = Ok v /\ B2R v = IZR (round_Z (B2R a)) /\
    is_finite v = true /\ Bsign v = false /\ (0 <= round_Z (B2R a) <= 2 ^ (prec - 1))%Z.
Proof.
  intros a Fa Sa Ha. set (r := B2R a) in *.
  assert (Hprec : (2 <= prec <= 64)%Z) by lia.
  generalize pow_prec_double. intros Epow.
  destruct half_correct as (Hh1 & Hh2 & _).
  (* the floor *)
  set (zf := Zfloor r).
  assert (Hzf : (0 <= zf < 2 ^ (prec - 1))%Z).
  { split; [apply Zfloor_lub; lra|]. apply lt_IZR. rewrite <- bpow_prec1.
    generalize (Zfloor_lb r). fold zf. lra. }
  assert (Hfr : 0 <= r - IZR zf < 1).
  { generalize (Zfloor_lb r) (Zfloor_ub r). fold zf. lra. }
  assert (Hk : (0 <= round_Z r <= 2 ^ (prec - 1))%Z).
  { unfold round_Z. fold zf. destruct (Rle_bool _ _); lia. }
  unfold g_round_int. rewrite (ProofsFloor.g_floor_exact prec emax Hp Hpe Hprec). unfold spec_floor.
  cbn [rbind].
  destruct (Bnearbyint_correct prec emax Hpe mode_DN a) as (F1 & F2 & F3).
  rewrite round_FIX_IZR in F1. cbn [round_mode] in F1. fold r zf in F1. rewrite Fa in F2.
  set (f := Bnearbyint mode_DN a) in *.
  assert (Sf : Bsign f = false).
  { rewrite F3 by (apply finite_not_nan; exact F2). exact Sa. }
  (* the fractional part *)
  destruct (fsub_exact a f Fa F2) as (D1 & D2 & _).
  { rewrite F1. fold r. unfold zf. rewrite <- Ztrunc_floor by lra.
    apply format_trunc_frac; try typeclasses eauto. apply generic_format_B2R. }
  { rewrite F1. fold r. rewrite Rabs_pos_eq by lra. apply Rlt_le_trans with 1; [lra|].
    apply (bpow_le radix2 0). lia. }
  rewrite F1 in D1. fold r in D1.
  destruct (g_abs_correct (fsub a f) D2) as (G1 & G2).
  rewrite D1, Rabs_pos_eq in G1 by lra.
  unfold fge. rewrite (Bleb_correct _ _ half _ Hh2 G2), Hh1, G1.
  unfold round_Z. fold zf.
  destruct (Rle_bool (/2) (r - IZR zf)).
  - rewrite (g_sgn_correct a Fa). fold r. rewrite Rlt_bool_true by lra.
    destruct one_correct as (O1 & O2 & _). change (ofZ 1) with one.
    destruct (fadd_exact f one F2 O2) as (A1 & A2 & A3).
    { rewrite F1, O1, <- plus_IZR. apply format_IZR. lia. }
    { rewrite F1, O1, <- plus_IZR. apply IZR_bound. lia. }
    exists (fadd f one). split; [reflexivity|]. split; [rewrite A1, F1, O1, <- plus_IZR; reflexivity|].
    split; [exact A2|]. split; [|lia].
    rewrite A3; rewrite F1, O1, <- plus_IZR.
    + apply Rlt_bool_false. apply IZR_le. lia.
    + apply not_0_IZR. lia.
  - exists f. split; [reflexivity|]. split; [exact F1|]. split; [exact F2|]. split; [exact Sf|lia].
Qed.

Lemma g_round_finite :
  forall x : fl, is_finite x = true ->
  g_round prec emax Hp Hpe x = Ok (Bnearbyint mode_NA x).
Proof.
  intros x Fx. unfold g_round.
  rewrite (fin_is_nan x Fx), (fin_is_finite x Fx), (fin_eq0 x Fx). cbn [negb].
  set (r := B2R x).
  generalize pow_prec_double. intros Epow.
  destruct (Req_bool_spec r 0) as [E0|N0].
  { f_equal. apply nearbyint_unique; [exact Fx|exact Fx| |reflexivity].
    fold r. rewrite E0. cbn [round_mode]. rewrite (Zrnd_IZR ZnearestA 0). reflexivity. }
  destruct limit_correct as (L1 & L2 & _).
  destruct (g_abs_correct x Fx) as (A1 & A2). fold r in A1.
  unfold fge, g_limit. rewrite (Bleb_correct _ _ limit _ L2 A2), L1, A1.
  destruct (Rle_bool_spec (bpow radix2 (prec - 1)) (Rabs r)) as [Hbig|Hsmall].
  { f_equal. symmetry. apply nearbyint_big; [exact Fx|exact Hbig]. }
  set (a := g_abs prec emax Hp Hpe x) in *.
  assert (Ha : 0 < B2R a < bpow radix2 (prec - 1)).
  { rewrite A1. split; [apply Rabs_pos_lt; exact N0|exact Hsmall]. }
  destruct (g_round_int_pos a A2 (Bsign_g_abs x Fx) Ha) as (v & W & K1 & K2 & K3 & Hk). rewrite A1 in K1, Hk.
  rewrite W. cbn [rbind]. set (k := round_Z (Rabs r)) in *.
  rewrite (g_sgn_correct x Fx). fold r.
  assert (Sx : Bsign x = Rlt_bool r 0) by (apply Bsign_finite; [exact Fx|exact N0]).
  f_equal. apply nearbyint_unique; [exact Fx| | |]; cbn [round_mode]; fold r.
  - destruct (Rlt_bool 0 r); [|destruct (Rlt_bool r 0)].
    all: match goal with |- is_finite (fmul (ofZ ?s) _) = true =>
           destruct (of_Z_correct s) as (S1 & S2 & _); [cbn; lia|];
           apply (fmul_exact (ofZ s) v S2 K2); rewrite S1, K1, <- mult_IZR;
           [apply format_IZR|apply IZR_bound]; lia end.
  - destruct (Rlt_bool_spec 0 r) as [Pr|Pr]; [|destruct (Rlt_bool_spec r 0) as [Nr|Nr]; [|lra]].
    + destruct (of_Z_correct 1) as (S1 & S2 & _); [cbn; lia|].
      destruct (fmul_exact (ofZ 1) v S2 K2) as (M1 & _);
        [rewrite S1, K1, <- mult_IZR; apply format_IZR; lia
        |rewrite S1, K1, <- mult_IZR; apply IZR_bound; lia|].
      rewrite M1, S1, K1, Rmult_1_l. f_equal. rewrite round_Z_correct by lra.
      unfold k. rewrite Rabs_pos_eq by lra. reflexivity.
    + destruct (of_Z_correct (-1)) as (S1 & S2 & _); [cbn; lia|].
      destruct (fmul_exact (ofZ (-1)) v S2 K2) as (M1 & _);
        [rewrite S1, K1, <- mult_IZR; apply format_IZR; lia
        |rewrite S1, K1, <- mult_IZR; apply IZR_bound; lia|].
      rewrite M1, S1, K1, <- mult_IZR. f_equal.
      replace r with (- Rabs r) by (rewrite Rabs_left by exact Nr; lra).
      rewrite ZnearestA_opp, round_Z_correct by apply Rabs_pos.
      fold k. lia.
  - rewrite Sx.
    destruct (Rlt_bool_spec 0 r) as [Pr|Pr]; [|destruct (Rlt_bool_spec r 0) as [Nr|Nr]; [|lra]].
    + destruct (of_Z_correct 1) as (S1 & S2 & S3); [cbn; lia|].
      destruct (fmul_exact (ofZ 1) v S2 K2) as (_ & _ & M3);
        [rewrite S1, K1, <- mult_IZR; apply format_IZR; lia
        |rewrite S1, K1, <- mult_IZR; apply IZR_bound; lia|].
      rewrite M3, S3, K3. rewrite !Rlt_bool_false by lra. reflexivity.
    + destruct (of_Z_correct (-1)) as (S1 & S2 & S3); [cbn; lia|].
      destruct (fmul_exact (ofZ (-1)) v S2 K2) as (_ & _ & M3);
        [rewrite S1, K1, <- mult_IZR; apply format_IZR; lia
        |rewrite S1, K1, <- mult_IZR; apply IZR_bound; lia|].
      rewrite M3, S3, K3. rewrite Rlt_bool_true by lra. reflexivity.
Qed.

Theorem g_round_exact :
  forall x : fl, g_round prec emax Hp Hpe x = Ok (spec_round prec emax Hpe x).
Proof.
  intros x. unfold spec_round.
  destruct (is_finite x) eqn:Fx; [apply g_round_finite; exact Fx|].
  destruct x as [s|s| |s m e H]; try discriminate.
  - destruct s; reflexivity.
  - reflexivity.
Qed.

End Round.
End Fmt.

(** * the generic statements (hypotheses: 2 <= prec <= 64) *)

(** * binary32 and binary64 *)
Theorem e_rint_fb_exact_b32 :
  forall x : b32, e_rint_fb 24 128 p32 pe32 x = Ok (spec_rint 24 128 pe32 x).
Proof. apply e_rint_fb_exact; lia. Qed.

Theorem e_rint_fb_exact_b64 :
  forall x : b64, e_rint_fb 53 1024 p64 pe64 x = Ok (spec_rint 53 1024 pe64 x).
Proof. apply e_rint_fb_exact; lia. Qed.

Theorem e_lrint_fb_exact_b32 :
  forall (x : b32) z, spec_lrint 24 128 pe32 64 x = Some z -> e_lrint_fb 24 128 p32 pe32 x = Ok z.
Proof. apply e_lrint_fb_exact; lia. Qed.

Theorem e_lrint_fb_exact_b64 :
  forall (x : b64) z, spec_lrint 53 1024 pe64 64 x = Some z -> e_lrint_fb 53 1024 p64 pe64 x = Ok z.
Proof. apply e_lrint_fb_exact; lia. Qed.

Theorem g_round_exact_b32 :
  forall x : b32, g_round 24 128 p32 pe32 x = Ok (spec_round 24 128 pe32 x).
Proof. apply g_round_exact; lia. Qed.

Theorem g_round_exact_b64 :
  forall x : b64, g_round 53 1024 p64 pe64 x = Ok (spec_round 53 1024 pe64 x).
Proof. apply g_round_exact; lia. Qed.

(* x87 extended (prec = 64) *)
Theorem g_round_exact_b80 :
  forall x : b80, g_round 64 16384 p80 pe80 x = Ok (spec_round 64 16384 pe80 x).
Proof. apply g_round_exact; lia. Qed.

Theorem e_rint_fb_exact_b80 :
  forall x : b80, e_rint_fb 64 16384 p80 pe80 x = Ok (spec_rint 64 16384 pe80 x).
Proof. apply e_rint_fb_exact; lia. Qed.

Theorem e_lrint_fb_char_formats :
  (forall x : b32, e_lrint_fb 24 128 p32 pe32 x =
     match spec_lrint 24 128 pe32 64 x with Some z => Ok z | None => UB SignedOverflow end) /\
  (forall x : b64, e_lrint_fb 53 1024 p64 pe64 x =
     match spec_lrint 53 1024 pe64 64 x with Some z => Ok z | None => UB SignedOverflow end) /\
  (forall x : b80, e_lrint_fb 64 16384 p80 pe80 x =
     match spec_lrint 64 16384 pe80 64 x with Some z => Ok z | None => UB SignedOverflow end).
Proof. repeat split; apply e_lrint_fb_char; lia. Qed.

Theorem e_lrint_fb_exact_b80 :
  forall (x : b80) z, spec_lrint 64 16384 pe80 64 x = Some z -> e_lrint_fb 64 16384 p80 pe80 x = Ok z.
Proof. apply e_lrint_fb_exact; lia. Qed.

