(* C16 — cmath exact set, part 2: the rounding kernels and nextafter.  These proofs go through
   Flocq's real-number semantics (B2R, Bnearbyint_correct, Bsucc_correct), so they depend on the
   axioms the Coq standard library declares for the classical real numbers
   (ClassicalDedekindReals.sig_forall_dec, sig_not_dec, FunctionalExtensionality.
   functional_extensionality_dep, Classical_Prop.classic) and on nothing else.
   b32 = binary32, b64 = binary64, b80 = x87 extended (the long double of the target: every long
   double call of floor/ceil/trunc/round runs the gcem kernel, also at run time).
   Statements: for EVERY value x of the format (zeros of both signs, subnormals, infinities, the
   NaN), the library-written kernel returns [Ok] (the conversion to long long inside it is never
   undefined) of exactly the IEEE-754 roundToIntegral result / nextUp / nextDown. *)
From Coq Require Import ZArith Bool.
From Flocq Require Import Core BinarySingleNaN.
From Tetl Require Import Lib.Base C16.Model C16.Spec C16.ProofsFloor C16.ProofsRound C16.ProofsNext C16.ProofsLerp C16.ProofsMidpoint C16.ProofsFmod.
Local Open Scope Z_scope.

(* gcem floor / ceil / trunc (after e1bfd70, 9f69bd4, 8aa460f): constant evaluation of
   etl::floor/ceil/trunc for float and double; every call for long double.  For every format with
   2 <= prec <= 64 (the bound is the width of long long; binary32, binary64, x87 extended) *)
Theorem C16_gcem_floor_ceil_trunc_exact :
  (forall prec emax (Hp : Prec_gt_0 prec) (Hpe : Prec_lt_emax prec emax),
   2 <= prec <= 64 -> forall x : binary_float prec emax,
   g_floor prec emax Hp Hpe x = Ok (spec_floor prec emax Hpe x) /\
   g_ceil prec emax Hp Hpe x = Ok (spec_ceil prec emax Hpe x) /\
   g_trunc prec emax Hp Hpe x = Ok (spec_trunc prec emax Hpe x)) /\
  (* ... spelled out for the three formats of the target *)
  (forall x : b32, g_floor 24 128 p32 pe32 x = Ok (spec_floor 24 128 pe32 x) /\
                   g_ceil 24 128 p32 pe32 x = Ok (spec_ceil 24 128 pe32 x) /\
                   g_trunc 24 128 p32 pe32 x = Ok (spec_trunc 24 128 pe32 x)) /\
  (forall x : b64, g_floor 53 1024 p64 pe64 x = Ok (spec_floor 53 1024 pe64 x) /\
                   g_ceil 53 1024 p64 pe64 x = Ok (spec_ceil 53 1024 pe64 x) /\
                   g_trunc 53 1024 p64 pe64 x = Ok (spec_trunc 53 1024 pe64 x)) /\
  (forall x : b80, g_floor 64 16384 p80 pe80 x = Ok (spec_floor 64 16384 pe80 x) /\
                   g_ceil 64 16384 p80 pe80 x = Ok (spec_ceil 64 16384 pe80 x) /\
                   g_trunc 64 16384 p80 pe80 x = Ok (spec_trunc 64 16384 pe80 x)).
Proof.
  exact (conj (fun prec emax Hp Hpe H x => conj (g_floor_exact prec emax Hp Hpe H x) (conj (g_ceil_exact prec emax Hp Hpe H x)
                                                                                       (g_trunc_exact prec emax Hp Hpe H x)))
        (conj (fun x => conj (g_floor_exact_b32 x) (conj (g_ceil_exact_b32 x) (g_trunc_exact_b32 x)))
        (conj (fun x => conj (g_floor_exact_b64 x) (conj (g_ceil_exact_b64 x) (g_trunc_exact_b64 x)))
              (fun x => conj (g_floor_exact_b80 x) (conj (g_ceil_exact_b80 x) (g_trunc_exact_b80 x)))))).
Qed.
Print Assumptions C16_gcem_floor_ceil_trunc_exact.

(* gcem round (halfway cases away from zero; after 1802224 floor(|x|) + 1 is added in the
   floating-point type): every format with 2 <= prec <= 64, spelled out for the three formats *)
Theorem C16_gcem_round_exact :
  (forall prec emax (Hp : Prec_gt_0 prec) (Hpe : Prec_lt_emax prec emax), 2 <= prec -> prec <= 64 ->
     forall x : binary_float prec emax, g_round prec emax Hp Hpe x = Ok (spec_round prec emax Hpe x)) /\
  (forall x : b32, g_round 24 128 p32 pe32 x = Ok (spec_round 24 128 pe32 x)) /\
  (forall x : b64, g_round 53 1024 p64 pe64 x = Ok (spec_round 53 1024 pe64 x)) /\
  (forall x : b80, g_round 64 16384 p80 pe80 x = Ok (spec_round 64 16384 pe80 x)).
Proof. exact (conj g_round_exact (conj g_round_exact_b32 (conj g_round_exact_b64 g_round_exact_b80))). Qed.
Print Assumptions C16_gcem_round_exact.

(* rint_fallback / lrint_fallback (after bd3faba): round to nearest, ties to even; lrint for
   every argument whose rounded value fits long / long long (otherwise C leaves it unspecified) *)
Theorem C16_rint_fallback_exact :
  (forall x : b32, e_rint_fb 24 128 p32 pe32 x = Ok (spec_rint 24 128 pe32 x)) /\
  (forall x : b64, e_rint_fb 53 1024 p64 pe64 x = Ok (spec_rint 53 1024 pe64 x)) /\
  (forall x : b80, e_rint_fb 64 16384 p80 pe80 x = Ok (spec_rint 64 16384 pe80 x)).
Proof. exact (conj e_rint_fb_exact_b32 (conj e_rint_fb_exact_b64 e_rint_fb_exact_b80)). Qed.
Print Assumptions C16_rint_fallback_exact.
Theorem C16_lrint_fallback_exact :
  (forall (x : b32) z, spec_lrint 24 128 pe32 64 x = Some z -> e_lrint_fb 24 128 p32 pe32 x = Ok z) /\
  (forall (x : b64) z, spec_lrint 53 1024 pe64 64 x = Some z -> e_lrint_fb 53 1024 p64 pe64 x = Ok z) /\
  (forall (x : b80) z, spec_lrint 64 16384 pe80 64 x = Some z -> e_lrint_fb 64 16384 p80 pe80 x = Ok z).
Proof. exact (conj e_lrint_fb_exact_b32 (conj e_lrint_fb_exact_b64 e_lrint_fb_exact_b80)). Qed.
Print Assumptions C16_lrint_fallback_exact.
(* ... and the only undefined behaviour of lrint_fallback is the case C leaves unspecified (NaN,
   infinity, rounded value outside the 64-bit range) *)
Theorem C16_lrint_fallback_ub_exactly_unspecified :
  (forall x : b32, e_lrint_fb 24 128 p32 pe32 x =
     match spec_lrint 24 128 pe32 64 x with Some z => Ok z | None => UB SignedOverflow end) /\
  (forall x : b64, e_lrint_fb 53 1024 p64 pe64 x =
     match spec_lrint 53 1024 pe64 64 x with Some z => Ok z | None => UB SignedOverflow end) /\
  (forall x : b80, e_lrint_fb 64 16384 p80 pe80 x =
     match spec_lrint 64 16384 pe80 64 x with Some z => Ok z | None => UB SignedOverflow end).
Proof. exact e_lrint_fb_char_formats. Qed.
Print Assumptions C16_lrint_fallback_ub_exactly_unspecified.

(* nextafter (detail::nextafter after d05c65b): the +-1 step on the uint32 / uint64 bit pattern
   is nextUp / nextDown towards the target for every pair of values: zeros of both signs,
   subnormal/normal and binade boundaries, max -> inf, inf -> max, NaN operands *)
Theorem C16_nextafter_exact :
  (forall x y : b32, nextafter32 x y = spec_nextafter 24 128 p32 pe32 x y) /\
  (forall x y : b64, nextafter64 x y = spec_nextafter 53 1024 p64 pe64 x y).
Proof. exact (conj nextafter32_exact nextafter64_exact). Qed.
Print Assumptions C16_nextafter_exact.

(* non-vacuity of the only hypothesis above: lrint(2.5f) = 2 *)
Example C16_rounding_nonvacuous : spec_lrint 24 128 pe32 64 (dec32 1075838976) = Some 2.
Proof. vm_compute. reflexivity. Qed.

(* lerp ([c.math.lerp]): for finite a, b: lerp(a,b,0) == a, lerp(a,b,1) == b; for finite t and
   a == b: lerp(a,a,t) == a (Spec.spec_lerp_exact lists exactly these cases; == is the C++
   comparison, the sign of a zero result is open).  Every format with 2 <= prec, prec + 2 <= emax. *)
Theorem C16_lerp_exact_cases :
  forall prec emax (Hp : Prec_gt_0 prec) (Hpe : Prec_lt_emax prec emax), 2 <= prec -> prec + 2 <= emax ->
  forall a b t v : binary_float prec emax,
  spec_lerp_exact prec emax Hp Hpe a b t = Some v -> Beqb (e_lerp prec emax Hp Hpe a b t) v = true.
Proof. exact e_lerp_exact_cases. Qed.
Print Assumptions C16_lerp_exact_cases.
(* non-vacuity: lerp(3, 5, 0) has the expectation 3 *)
Example C16_lerp_nonvacuous :
  option_map enc32 (spec_lerp_exact 24 128 p32 pe32 (dec32 1077936128) (dec32 1084227584) (dec32 0)) = Some 1077936128.
Proof. vm_compute. reflexivity. Qed.

(* midpoint(Float, Float) ([numeric.ops.midpoint]: "no overflow occurs"): the result is finite for every pair of finite
   operands, every format with 2 <= prec [first conjunct];
   ... and it is the correctly rounded (a + b) / 2 (round to nearest even, IEEE sign of a zero sum), bit for bit, for EVERY
   pair of finite operands - every format with 2 <= prec, prec + 7 <= 2 emax (binary32: 31 <= 256, binary64: 60 <= 2048,
   x87: 71 <= 32768); "at most one inexact operation" [second conjunct, then spelled out for the three formats] *)
Theorem C16_midpoint_exact :
  (forall prec emax (Hp : Prec_gt_0 prec) (Hpe : Prec_lt_emax prec emax), 2 <= prec ->
   forall a b : binary_float prec emax, is_finite a = true -> is_finite b = true ->
   is_finite (e_midpoint prec emax Hp Hpe a b) = true) /\
  (forall prec emax (Hp : Prec_gt_0 prec) (Hpe : Prec_lt_emax prec emax), 2 <= prec -> prec + 7 <= 2 * emax ->
   forall a b : binary_float prec emax, is_finite a = true -> is_finite b = true ->
   spec_midpoint prec emax Hp Hpe a b = Some (e_midpoint prec emax Hp Hpe a b)) /\
  (forall a b : b32, is_finite a = true -> is_finite b = true ->
     spec_midpoint 24 128 p32 pe32 a b = Some (e_midpoint 24 128 p32 pe32 a b)) /\
  (forall a b : b64, is_finite a = true -> is_finite b = true ->
     spec_midpoint 53 1024 p64 pe64 a b = Some (e_midpoint 53 1024 p64 pe64 a b)) /\
  (forall a b : b80, is_finite a = true -> is_finite b = true ->
     spec_midpoint 64 16384 p80 pe80 a b = Some (e_midpoint 64 16384 p80 pe80 a b)).
Proof.
  split; [exact e_midpoint_finite|]. split; [exact e_midpoint_exact|].
  repeat split; apply e_midpoint_exact; lia.
Qed.
Print Assumptions C16_midpoint_exact.

(* gcem fmod and remainder (exact binary long division since commit 57a95a0; the constant-evaluation
   paths of etl::fmod / etl::remainder): the fuelled model always returns a value (the fuel,
   2 emax + 2 prec + 8 iterations per loop, is proved sufficient: each loop runs at most once per
   binade) and that value is, bit for bit, the C fmod (exact remainder of the truncated quotient) resp.
   the IEC 60559 remainder (quotient rounded to nearest, ties to even): sign of x also for a zero
   result, NaN for NaN operands / infinite x / zero y, x for infinite y.  EVERY pair of values of every
   format with 2 <= prec. *)
Theorem C16_gcem_fmod_remainder_exact :
  forall prec emax (Hp : Prec_gt_0 prec) (Hpe : Prec_lt_emax prec emax), 2 <= prec ->
  forall x y : binary_float prec emax,
  g_fmod prec emax Hp Hpe x y = Ok (spec_fmod prec emax Hp Hpe x y) /\
  g_remainder prec emax Hp Hpe x y = Ok (spec_remainder prec emax Hp Hpe x y).
Proof.
  intros prec emax Hp Hpe H x y.
  exact (conj (g_fmod_total prec emax Hp Hpe H x y) (g_remainder_total prec emax Hp Hpe H x y)).
Qed.
Print Assumptions C16_gcem_fmod_remainder_exact.
