From Tetl Require Import Lib.Base C14.Spec C14.Model.
Require Extraction.
Require Import ExtrOcamlBasic.
Extraction Language OCaml.
Extraction "C06c_model.ml" wire_anchor
  i8 u8 i16 u16 i32 u32 i64 u64 in_ty imin imax common_type
  rotl_m rotr_m set_bit_m reset_bit_m flip_bit_m test_bit_m assign_bit_m
  set_bit_tpl_m assign_bit_tpl_m reset_bit_tpl_m flip_bit_tpl_m test_bit_tpl_m ipow_base_m
  popcount_m popcount_fallback_m countl_zero_m countl_one_m countr_zero_m countr_one_m
  bit_width_m bit_ceil_m bit_floor_m has_single_bit_m byteswap_m byteswap_fallback_m ntoh_m hton_m
  add_sat_m add_sat_fallback_m div_sat_m saturate_cast_m in_range_m midpoint_m gcd_m lcm_m abs_m
  idiv_m ipow_m ipow2_m ilog2_m
  cmp_equal_m cmp_not_equal_m cmp_less_m cmp_greater_m cmp_less_equal_m cmp_greater_equal_m
  popcount_spec countl_zero_spec countl_one_spec countr_zero_spec countr_one_spec bit_width_spec
  bit_floor_spec bit_ceil_spec bit_ceil_dom has_single_bit_spec rotl_spec rotr_spec
  test_bit_spec set_bit_spec reset_bit_spec flip_bit_spec assign_bit_spec byteswap_u_spec byteswap_spec hton_spec
  add_sat_spec div_sat_spec saturate_cast_spec midpoint_spec gcd_spec lcm_spec abs_spec
  idiv_spec ipow_spec ilog2_spec
  cmp_equal_spec cmp_not_equal_spec cmp_less_spec cmp_greater_spec cmp_less_equal_spec cmp_greater_equal_spec
  in_range_spec.
