(* C06, part c — the integer functions of numeric.hpp (gcd, lcm, midpoint, add_sat, div_sat, saturate_cast, abs).
   Their executable model (promotions, the unsigned working type, wrap-around, contract and UB outcomes), their
   specification and their proofs are those of the C14 package (coq/C14: the same functions are anchored in both
   properties); this file re-states, for C06, what is proved there: for every one of the eight integer types (every pair
   of them for gcd / lcm / saturate_cast) and EVERY argument of the documented domain the model returns exactly the
   value [numeric.ops.gcd], [numeric.ops.lcm], [numeric.ops.midpoint], [numeric.sat] prescribe. *)
From Tetl Require Import Lib.Base C14.Spec C14.Model C14.Arith C14.Properties.
Local Open Scope Z_scope.

Theorem C06_numeric_midpoint_gcd_lcm_abs :
  (forall t, WT t -> forall a b, in_ty t a = true -> in_ty t b = true -> midpoint_m t a b = Ok (midpoint_spec a b))
  /\ (forall tm tn m n, WT tm -> WT tn -> in_ty tm m = true -> in_ty tn n = true ->
     (in_ty (common_type tm tn) (Z.gcd m n) = true -> gcd_m tm tn m n = Ok (gcd_spec m n))
     /\ (in_ty (common_type tm tn) (Z.lcm m n) = true -> lcm_m tm tn m n = Ok (lcm_spec m n)))
  /\ (forall t, WT t -> forall x, in_ty t x = true -> in_ty t (Z.abs x) = true -> abs_m t x = Ok (abs_spec x)).
Proof.
  destruct C14_numeric as (Hmid & Hgl & Hrest). repeat split.
  - exact Hmid.
  - apply (proj1 (Hgl tm tn m n H H0 H1 H2)); assumption.
  - apply (proj2 (Hgl tm tn m n H H0 H1 H2)); assumption.
  - intros t Ht. exact (proj1 (Hrest t Ht)).
Qed.

(* add_sat (builtin path and portable fallback), div_sat, saturate_cast, the safe comparisons they are built on *)
Definition C06_numeric_saturation := C14_saturation_cmp.

Definition C06c_all_theorems := (C06_numeric_midpoint_gcd_lcm_abs, C06_numeric_saturation).
Print Assumptions C06c_all_theorems.
