(* C09 model, part 3: the flat_set constructors that TAKE the comparator as an argument,
     flat_set(InputIt first, InputIt last, Compare const& comp)                  : _container{}, _compare(comp), insert(first, last)
     flat_set(sorted_unique_t, InputIt first, InputIt last, Compare const& comp) : _container(first, last), _compare(comp)
   (include/etl/_flat_set/flat_set.hpp).  ModelCmp.v has the stored comparator with these two
   constructors called WITHOUT the last argument (comp = Compare()); here a history may also
   assign a set constructed with an explicit comparator, `s = flat_set(first, last, c)` and
   `s = flat_set(sorted_unique, first, last, c)`: the current set then holds c and every later
   member compares with c, until the next swap / copy assignment / assigning constructor.

   A call with an explicit comparator c is the ModelCmp.v call of the same constructor with
   Compare() := c -- that is literally what the default argument `comp = Compare()` says -- so the
   step functions below only choose the comparator the constructor receives. *)
From Tetl Require Import Lib.Base C06a.Model C09.Ops C09.Model C09.Spec C09.ModelCmp.

Section Ctor.
Context {A : Type}.
Variable lt0 : A -> A -> bool.          (* Compare(): the default-constructed comparator *)

Inductive op2 : Type :=
| Plain (o : op A)                                         (* a call of the common vocabulary *)
| AssignIterCmp (c : A -> A -> bool) (ks : list A)         (* s = flat_set(first, last, c) *)
| AssignSortedIterCmp (c : A -> A -> bool) (ks : list A).  (* s = flat_set(sorted_unique, first, last, c) *)

(* the comparator the constructor of this call receives (only used by the constructors), and the
   call of the common vocabulary it is *)
Definition ctor_cmp (o : op2) : A -> A -> bool :=
  match o with Plain _ => lt0 | AssignIterCmp c _ | AssignSortedIterCmp c _ => c end.
Definition base_op (o : op2) : op A :=
  match o with Plain b => b | AssignIterCmp _ ks => AssignIter ks | AssignSortedIterCmp _ ks => AssignSorted ks end.

Definition fs_step3 (cap : nat) (s : st2 A) (o : op2) : res (st2 A * out A) :=
  fs_step2 (ctor_cmp o) cap s (base_op o).

Fixpoint run3 (cap : nat) (s : st2 A) (ops : list op2) : res (st2 A * list (out A * list A)) :=
  match ops with
  | [] => Ok (s, [])
  | o :: t =>
      do r <- fs_step3 cap s o;
      let ev := (snd r, elems (cur2 (fst r))) in
      if is_contract (snd r) then Ok (fst r, [ev])
      else do r2 <- run3 cap (fst r) t; Ok (fst r2, ev :: snd r2)
  end.

(** std::set, whose constructors take the comparator the same way ([set.cons]:
    set(InputIt first, InputIt last, const Compare& comp = Compare())) *)
Definition s_step3 (cap : nat) (s : st2 A) (o : op2) : option (st2 A * sout A) :=
  s_step2 (ctor_cmp o) cap s (base_op o).

Fixpoint s_run3 (cap : nat) (s : st2 A) (ops : list op2) : option (st2 A * list (sout A * list A)) :=
  match ops with
  | [] => Some (s, [])
  | o :: t =>
      match s_step3 cap s o with
      | None => None
      | Some (s', r) =>
          if fatal FlatSet r then Some (s', [(r, elems (cur2 s'))])
          else match s_run3 cap s' t with
               | None => None
               | Some (s'', rs) => Some (s'', (r, elems (cur2 s')) :: rs)
               end
      end
  end.

End Ctor.

Arguments op2 : clear implicits.
