(* C09 — sets stay sorted and unique and answer like std::set.
   Model: C09/Model.v (etl::static_set, etl::flat_set, etl::flat_multiset member by member, over
   the real searching / rotating / sorting loops of C06a and C06b).  Spec: C09/Spec.v (std::set as
   a strictly ascending list bounded by a capacity).  Every theorem holds for every element type,
   every comparator that is a strict weak order, every capacity and every history. *)
From Tetl Require Import Lib.Base C06a.Model C09.Ops C09.Model C09.Spec C09.Instances C09.ProofsCore C09.ProofsOps
  C09.ProofsRun C09.ProofsExtra C09.ProofsMain.
From Coq Require Import Sorting.Sorted Sorting.Permutation.

(** 1. The invariant, over ALL histories (every call of the vocabulary, valid or not, in any order,
       from the empty sets): the model never runs into undefined behaviour or out of fuel, and after
       every call the set iterates in strictly ascending order of its comparator (hence holds no two
       equivalent keys) and holds at most `cap` elements.  The only precondition is the one the
       containers cannot check: flat_set::replace / the sorted_unique constructor are given a
       container that is sorted and unique. *)
Theorem C09_set_sorted_unique_inv :
  forall (A : Type) (lt : A -> A -> bool), strict_weak lt ->
  forall (k : kind) (cap : nat) (ops : list (op A)), Forall (op_ok lt k) ops ->
  exists s tr, run lt k cap init ops = Ok (s, tr)
    /\ is_set lt (cur s) /\ is_set lt (oth s) /\ length (cur s) <= cap /\ length (oth s) <= cap
    /\ Forall (fun e => is_set lt (snd e) /\ length (snd e) <= cap) tr.
Proof. exact (@main_sorted_unique_inv). Qed.
Print Assumptions C09_set_sorted_unique_inv.

(** 1b. static_set has no such members: no precondition whatsoever. *)
Theorem C09_static_set_sorted_unique_inv :
  forall (A : Type) (lt : A -> A -> bool), strict_weak lt ->
  forall (cap : nat) (ops : list (op A)),
  exists s tr, run lt StaticSet cap init ops = Ok (s, tr)
    /\ is_set lt (cur s) /\ is_set lt (oth s) /\ length (cur s) <= cap /\ length (oth s) <= cap
    /\ Forall (fun e => is_set lt (snd e) /\ length (snd e) <= cap) tr.
Proof. exact (@main_static_set_sorted_unique_inv). Qed.
Print Assumptions C09_static_set_sorted_unique_inv.

(** 1c. One call, from ANY two sets that satisfy the invariant (reachable or not): the model returns
        normally, the invariant holds afterwards, inside the domain the result is the specification's,
        outside it a contract violation is reported and nothing changes. *)
Theorem C09_step_from_any_set :
  forall (A : Type) (lt : A -> A -> bool), strict_weak lt ->
  forall (k : kind) (cap : nat) (s : st A) (o : op A), inv lt cap s -> op_ok lt k o ->
  exists s' r', step lt k cap s o = Ok (s', r') /\ inv lt cap s' /\
    (s_step lt k cap s o = None -> has_member k o = true -> s' = s /\ r' = OContract) /\
    (forall s2 so, s_step lt k cap s o = Some (s2, so) -> s' = s2 /\ r' = present k so).
Proof. exact (@main_step_total). Qed.
Print Assumptions C09_step_from_any_set.

(** 2. Refinement: for every history inside the documented domain of std::set bounded by the
       capacity (s_run = Some ...), the model returns exactly the specification's trace -- per call
       the (iterator, inserted) pair / erased count / returned iterator / extracted container and the
       contents afterwards -- ends in the same two sets, and on the final set every lookup (find,
       count, contains, lower_bound, upper_bound, equal_range) answers like the specification, for
       every key_type key through both overload sets and for every heterogeneous key that is
       consistent with the comparator. *)
Theorem C09_set_refines_std :
  forall (A : Type) (lt : A -> A -> bool), strict_weak lt ->
  forall (k : kind) (cap : nat) (ops : list (op A)) s2 tr2,
  s_run lt k cap init ops = Some (s2, tr2) ->
  run lt k cap init ops = Ok (s2, map (present_ev k) tr2)
  /\ is_set lt (cur s2) /\ is_set lt (oth s2)
  /\ (forall tr x, ask k tr (key_cut lt x) (cur s2) = Ok (s_ask (key_cut lt x) (cur s2)))
  /\ (forall c, cut_ok lt c -> ask k true c (cur s2) = Ok (s_ask c (cur s2))).
Proof. exact (@main_refines_std). Qed.
Print Assumptions C09_set_refines_std.

(** 2a. The same against std::set WITHOUT any capacity (Spec.u_run mentions no capacity and never
        refuses a key): as long as capacity is not exceeded -- no set along the history holds more
        than cap elements and no container handed to the set (assignment from a container, replace)
        holds more than cap elements -- the model returns exactly the unbounded std::set's trace,
        in which no refusal occurs. *)
Theorem C09_set_refines_unbounded_std :
  forall (A : Type) (lt : A -> A -> bool), strict_weak lt ->
  forall (k : kind) (cap : nat) (ops : list (op A)) s2 tr2,
  u_run lt k init ops = Some (s2, tr2) -> Forall (within cap) ops ->
  Forall (fun e => length (snd e) <= cap) tr2 ->
  run lt k cap init ops = Ok (s2, map (present_ev k) tr2)
  /\ Forall (fun e => fst e <> SFull) tr2.
Proof. exact (@main_refines_unbounded_std). Qed.
Print Assumptions C09_set_refines_unbounded_std.

(** 2b. The lookups on any strictly sorted list (not only the reachable ones). *)
Theorem C09_lookup_key_refines_std :
  forall (A : Type) (lt : A -> A -> bool), strict_weak lt ->
  forall (k : kind) (tr : bool) (x : A) (l : list A), is_set lt l ->
  ask k tr (key_cut lt x) l = Ok (s_ask (key_cut lt x) l).
Proof. exact (@main_lookup_key). Qed.
Print Assumptions C09_lookup_key_refines_std.

Theorem C09_lookup_heterogeneous_refines_std :
  forall (A : Type) (lt : A -> A -> bool), strict_weak lt ->
  forall (k : kind) (c : cut A) (l : list A), is_set lt l -> cut_ok lt c ->
  ask k true c l = Ok (s_ask c l).
Proof. exact (@main_lookup_heterogeneous). Qed.
Print Assumptions C09_lookup_heterogeneous_refines_std.

(** 2c. The six relations: for any two contents (no order needed). *)
Theorem C09_relations_refine_std :
  forall (A : Type) (eqb ltk : A -> A -> bool) (k : kind) (l1 l2 : list A),
  relations ltk (set_eq eqb k) l1 l2 = Ok (s_relations eqb ltk l1 l2).
Proof. exact (@relations_ok). Qed.
Print Assumptions C09_relations_refine_std.

(** 3. Outside the domain (a position that cannot be dereferenced, an index pair that is not a
       range, a source range longer than the capacity) an existing member reports a contract
       violation and leaves both sets untouched. *)
Theorem C09_out_of_domain_is_contract_unchanged :
  forall (A : Type) (lt : A -> A -> bool), strict_weak lt ->
  forall (k : kind) (cap : nat) (s : st A) (o : op A),
  inv lt cap s -> op_ok lt k o -> has_member k o = true ->
  s_step lt k cap s o = None -> step lt k cap s o = Ok (s, OContract).
Proof. exact (@main_out_of_domain). Qed.
Print Assumptions C09_out_of_domain_is_contract_unchanged.

(** 4. A new key into a full set: static_set reports (nullptr, false), flat_set's backing
       container reports the violated precondition; the contents are unchanged in both. *)
Theorem C09_insert_full_new_key_fails_unchanged :
  forall (A : Type) (lt : A -> A -> bool), strict_weak lt ->
  forall (cap : nat) (l : list A) (x : A), is_set lt l -> length l = cap ->
  (forall e, In e l -> eqv lt x e = false) ->
  ss_insert lt cap l x = Ok (l, OIns None false) /\ fs_emplace lt cap l x = Ok (l, OContract).
Proof. exact (@main_insert_full_new_key). Qed.
Print Assumptions C09_insert_full_new_key_fails_unchanged.

(** 4b. A key that is already there (equivalent under the comparator) is found, full or not. *)
Theorem C09_insert_present_key_found :
  forall (A : Type) (lt : A -> A -> bool), strict_weak lt ->
  forall (cap : nat) (l : list A) (x e : A), is_set lt l -> In e l -> eqv lt x e = true ->
  exists p, nth_error l p = Some e
    /\ ss_insert lt cap l x = Ok (l, OIns (Some p) false)
    /\ fs_emplace lt cap l x = Ok (l, OIns (Some p) false).
Proof. exact (@main_insert_present_key). Qed.
Print Assumptions C09_insert_present_key_found.

(** 5. flat_multiset built from any container: the same elements in weakly ascending order. *)
Theorem C09_flat_multiset_sorted_perm :
  forall (A : Type) (lt : A -> A -> bool), strict_weak lt ->
  forall (input : list A),
  exists l', fms_construct lt input = Ok l' /\ is_multiset_of lt input l'.
Proof. exact (@main_flat_multiset). Qed.
Print Assumptions C09_flat_multiset_sorted_perm.

(** 5b. ... and iterates exactly like std::multiset built from the same range (each element
        inserted at the upper bound of its equivalents: the stable arrangement). *)
Theorem C09_flat_multiset_is_std_multiset :
  forall (A : Type) (lt : A -> A -> bool), strict_weak lt ->
  forall (input : list A), fms_construct lt input = Ok (s_multiset_of_range lt input).
Proof. exact (@main_flat_multiset_is_std_multiset). Qed.
Print Assumptions C09_flat_multiset_is_std_multiset.

(** 6. About the specification itself (so that Spec.v need not be taken on faith): its insert is
       set insertion -- the result is a set; the key is inserted iff no equivalent element is
       there; the members afterwards are the old ones plus the key iff inserted; the returned
       position holds an element equivalent to the key (the key itself when inserted) -- and a set
       value is determined by its members (the iteration order is not a choice). *)
Theorem C09_spec_insert_is_set_insertion :
  forall (A : Type) (lt : A -> A -> bool), strict_weak lt ->
  forall (x : A) (l : list A), is_set lt l ->
  let l' := fst (s_insert lt x l) in
  let p := fst (snd (s_insert lt x l)) in
  let b := snd (snd (s_insert lt x l)) in
  is_set lt l'
  /\ b = negb (existsb (eqv lt x) l)
  /\ (forall e, In e l' <-> In e l \/ (b = true /\ e = x))
  /\ (exists e, nth_error l' p = Some e /\ eqv lt x e = true /\ (b = true -> e = x)).
Proof. exact (@main_spec_insert_meaning). Qed.
Print Assumptions C09_spec_insert_is_set_insertion.

Theorem C09_spec_set_is_canonical :
  forall (A : Type) (lt : A -> A -> bool), strict_weak lt ->
  forall (l1 l2 : list A), is_set lt l1 -> is_set lt l2 -> (forall e, In e l1 <-> In e l2) -> l1 = l2.
Proof. exact (@main_is_set_canonical). Qed.
Print Assumptions C09_spec_set_is_canonical.

(** Non-vacuity: strict weak orders exist (one with equivalence coarser than equality), the
    domain of theorem 2 contains a history that reaches a full set, a duplicate, a refused new key
    and an erase of an absent key with a successor. *)
Example C09_nonvacuous :
  (* the comparators and heterogeneous keys of the correspondence harness satisfy the hypotheses *)
  (strict_weak cmp_less /\ strict_weak cmp_greater /\ strict_weak cmp_half
   /\ (forall v, cut_ok cmp_less (point_cut v))
   /\ (forall lo hi, (lo <= hi)%Z -> cut_ok cmp_less (band_cut lo hi)))
  /\ strict_weak Z.ltb /\ strict_weak (fun a b => (Z.quot a 2 <? Z.quot b 2)%Z)
  /\ (exists s2 tr2,
        s_run Z.ltb StaticSet 3 init
          [Insert 3%Z; Insert 1%Z; Insert 3%Z; Insert 5%Z; Insert 4%Z; EraseKey 2%Z; ErasePos 0; Swap]
        = Some (s2, tr2) /\ oth s2 = [3%Z; 5%Z] /\ length tr2 = 8)
  /\ (exists s2 tr2,
        s_run Z.ltb FlatSet 2 init [Assign [2%Z; 1%Z]; Extract; Replace [0%Z; 7%Z]; Insert 4%Z; Clear]
        = Some (s2, tr2) /\ cur s2 = [0%Z; 7%Z] /\ length tr2 = 4)
  /\ (exists s2 tr2,   (* the hypotheses of 2a: a history that fills the set exactly *)
        u_run Z.ltb StaticSet init
          [Insert 3%Z; AssignIter [5%Z; 1%Z; 5%Z; 3%Z]; Swap; Insert 2%Z; CopyFrom; EraseKey 2%Z; Insert 3%Z]
        = Some (s2, tr2) /\ cur s2 = [1%Z; 3%Z; 5%Z]
        /\ Forall (within 3) [Insert 3%Z; AssignIter [5%Z; 1%Z; 5%Z; 3%Z]; Swap; Insert 2%Z; CopyFrom; EraseKey 2%Z; Insert 3%Z]
        /\ Forall (fun e => length (snd e) <= 3) tr2).
Proof.
  split; [exact instances_ok|]. split; [exact ltb_strict_weak|]. split; [exact half_strict_weak|]. split; [|split].
  - eexists. eexists. split; [vm_compute; reflexivity|]. split; reflexivity.
  - eexists. eexists. split; [vm_compute; reflexivity|]. split; reflexivity.
  - eexists. eexists. split; [vm_compute; reflexivity|]. split; [reflexivity|]. split.
    + repeat constructor.
    + repeat (constructor; [cbn [snd length]; lia|]). constructor.
Qed.
