(* C09 model: etl::static_set (include/etl/_set/static_set.hpp), etl::flat_set and
   etl::flat_multiset (include/etl/_flat_set), member by member, AFTER the fix: commits listed in
   props/C09/NOTES.md.

   Level: a set is the list of the elements of its backing vector in storage order (the
   observable contents of static_vector / the Container of flat_set) plus the capacity of that
   vector.  The backing vector's own mechanics (slots, stored size, move/destroy) are C01's model;
   here its members appear at their observable level:
     push_back / emplace_back      = l ++ [v]                (TETL_PRECONDITION(!full()))
     insert/emplace(pos, v)        = append, then etl::rotate(pos, old_end, end)   -- C06a.rotate
     erase(first, last)            = firstn first l ++ skipn last l, guarded by the three
                                     assert_iterator_* preconditions
   The searches are the real loops: etl::lower_bound / etl::upper_bound = C06b.bound_loop (the
   halving loop), etl::rotate = C06a.rotate (swap cycles), etl::sort = C06a.gnome_sort,
   etl::remove_if = C06a.remove_if, etl::equal / lexicographical_compare = C06b's models.

   Iterators are positions (nat); end() is the length; nullptr is None.
   A `cut` is a lookup key as the comparator sees it: below e = comp(e, key), above e = comp(key, e).
   key_type keys and heterogeneous keys (transparent comparators) run through the same code with
   different cuts, exactly as the overloads in the headers are textually identical.

   A fired TETL_PRECONDITION is the outcome OContract, returned together with the contents the
   container has at that moment (the harness prints them from inside the handler's landing pad). *)
From Tetl Require Import Lib.Base Lib.Arr C06a.Model C06b.Model C09.Ops.
From Coq Require Import Arith.

Section SetModel.
Context {A : Type}.
Local Notation st := (Ops.st A).
Local Notation op := (Ops.op A).

(** * What a member call returns *)
Inductive out : Type :=
| OIns (pos : option nat) (inserted : bool)  (* pair<iterator, bool>; None = nullptr *)
| OPos (pos : nat)                           (* an iterator *)
| OCount (n : nat)                           (* size_type *)
| OUnit                                      (* void *)
| OElems (l : list A)                        (* a container (extract) *)
| OContract.                                 (* TETL_PRECONDITION fired; the call did not return *)

Definition is_contract (o : out) : bool := match o with OContract => true | _ => false end.

Variable lt : A -> A -> bool.   (* key_compare / _compare *)

Local Notation cut := (Ops.cut A).
Local Notation key_cut := (Ops.key_cut lt).

(* etl::lower_bound(begin(), end(), key, comp), etl::upper_bound(begin(), end(), key, comp) *)
Definition lb_g (c : cut) (l : list A) : res nat :=
  bound_loop (below c) l (S (length l)) 0 (length l).
Definition ub_g (c : cut) (l : list A) : res nat :=
  bound_loop (fun e => negb (above c e)) l (S (length l)) 0 (length l).

(** * static_vector members at the observable level *)
(* erase(first, last): assert_iterator_pair_in_range, then move down + shrink; returns first *)
Definition sv_erase (l : list A) (first last : nat) : option (list A * nat) :=
  if (first <=? length l) && (last <=? length l) && (first <=? last)
  then Some (firstn first l ++ skipn last l, first)
  else None.
(* erase(position): assert_iterator_in_range(position); return erase(position, position + 1) *)
Definition sv_erase_pos (l : list A) (p : nat) : option (list A * nat) :=
  if p <=? length l then sv_erase l p (S p) else None.
(* append v at the end and rotate it to position p (insert / emplace / move_insert of one element,
   and static_set's own push_back + rotate); the caller has checked !full() *)
Definition append_rotate (l : list A) (p : nat) (v : A) : res (list A) :=
  let l1 := l ++ [v] in
  do r <- rotate l1 p (length l) (length l1);
  Ok (fst r).

(** * Lookups shared by both containers:
      pos = lower_bound(key); (pos != end() && !comp(key, *pos)) ? pos : end() *)
Definition find_g (c : cut) (l : list A) : res nat :=
  do p <- lb_g c l;
  Ok (match nth_error l p with
      | Some e => if above c e then length l else p
      | None => length l
      end).
Definition equal_range_g (c : cut) (l : list A) : res (nat * nat) :=
  do a <- lb_g c l; do b <- ub_g c l; Ok (a, b).

(** ** static_set lookups *)
Definition ss_find := find_g.
(* contains: find(key) != end() *)
Definition ss_contains (c : cut) (l : list A) : res bool :=
  do p <- ss_find c l; Ok (negb (p =? length l)).
(* count(key_type const&): contains(key) ? 1 : 0 *)
Definition ss_count (c : cut) (l : list A) : res nat :=
  do b <- ss_contains c l; Ok (if b then 1 else 0).
(* template count(K const&): upper_bound(x) - lower_bound(x) *)
Definition ss_count_t (c : cut) (l : list A) : res nat :=
  do u <- ub_g c l; do p <- lb_g c l; Ok (u - p).

(** ** flat_set lookups *)
Definition fs_find := find_g.
(* count(key_type const&): find(key) == end() ? 0 : 1 *)
Definition fs_count (c : cut) (l : list A) : res nat :=
  do p <- fs_find c l; Ok (if p =? length l then 0 else 1).
(* contains(key_type const&): count(key) == 1 *)
Definition fs_contains (c : cut) (l : list A) : res bool :=
  do n <- fs_count c l; Ok (n =? 1).
(* template count(K const&): distance(lower_bound(key), upper_bound(key)) *)
Definition fs_count_t (c : cut) (l : list A) : res nat :=
  do p <- lb_g c l; do u <- ub_g c l; Ok (u - p).
(* template contains(K const&): find(key) != end() *)
Definition fs_contains_t (c : cut) (l : list A) : res bool :=
  do p <- fs_find c l; Ok (negb (p =? length l)).

(** * static_set modifiers *)
(* insert(value_type&&):
     p = lower_bound(begin, end, value, cmp);
     if (p != end && !cmp(value, *p)) return {p, false};
     if (!full()) { push_back(value); rotate(p, end - 1, end); return {p, true}; }
     return {nullptr, false}; *)
Definition ss_insert (cap : nat) (l : list A) (v : A) : res (list A * out) :=
  do p <- lb_g (key_cut v) l;
  let dup := match nth_error l p with Some e => negb (lt v e) | None => false end in
  if dup then Ok (l, OIns (Some p) false)
  else if negb (length l =? cap) then
    do l' <- append_rotate l p v; Ok (l', OIns (Some p) true)
  else Ok (l, OIns None false).

(* insert(first, last): for (; first != last; ++first) insert( *first); *)
Fixpoint ss_insert_range (cap : nat) (l : list A) (ks : list A) : res (list A) :=
  match ks with
  | [] => Ok l
  | k :: t => do r <- ss_insert cap l k; ss_insert_range cap (fst r) t
  end.

(* static_set(first, last): TETL_PRECONDITION(last - first <= max_size()); insert(first, last) *)
Definition ss_construct (cap : nat) (ks : list A) : res (option (list A)) :=
  if cap <? length ks then Ok None
  else do l <- ss_insert_range cap [] ks; Ok (Some l).

(* erase(key): pos = lower_bound(begin, end, key, cmp);
               if (pos != end && !cmp(key, *pos)) { erase(pos); return 1; } return 0; *)
Definition ss_erase_key (l : list A) (k : A) : res (list A * out) :=
  do p <- lb_g (key_cut k) l;
  match nth_error l p with
  | Some e =>
      if negb (lt k e) then
        match sv_erase_pos l p with
        | Some r => Ok (fst r, OCount 1)
        | None => Ok (l, OContract)
        end
      else Ok (l, OCount 0)
  | None => Ok (l, OCount 0)
  end.

(* erase(pos) = _storage.erase(pos); erase(first, last) = _storage.erase(first, last) *)
Definition set_erase_pos (l : list A) (p : nat) : list A * out :=
  match sv_erase_pos l p with Some r => (fst r, OPos (snd r)) | None => (l, OContract) end.
Definition set_erase_range (l : list A) (a b : nat) : list A * out :=
  match sv_erase l a b with Some r => (fst r, OPos (snd r)) | None => (l, OContract) end.

(** * flat_set modifiers *)
(* emplace(args): key = Key{args}; it = lower_bound(key);
     if (it == end() or _compare(key, *it)) { it = _container.emplace(it, move(key)); return {it, true}; }
     return {it, false};
   _container.emplace (static_vector): TETL_PRECONDITION(!full()) first, then append + rotate,
   returns the position *)
Definition fs_emplace (cap : nat) (l : list A) (v : A) : res (list A * out) :=
  do p <- lb_g (key_cut v) l;
  let fresh := match nth_error l p with Some e => lt v e | None => true end in
  if fresh then
    if length l =? cap then Ok (l, OContract)
    else do l' <- append_rotate l p v; Ok (l', OIns (Some p) true)
  else Ok (l, OIns (Some p) false).

(* insert(const_iterator hint, x) = emplace_hint(hint, x) = emplace(x).first  (the hint is ignored) *)
Definition fs_insert_hint (cap : nat) (l : list A) (hint : nat) (v : A) : res (list A * out) :=
  do r <- fs_emplace cap l v;
  Ok (fst r, match snd r with OIns (Some p) _ => OPos p | o => o end).

(* insert(first, last): while (first != last) { insert( *first); ++first; } *)
Fixpoint fs_insert_range (cap : nat) (l : list A) (ks : list A) : res (list A * out) :=
  match ks with
  | [] => Ok (l, OUnit)
  | k :: t =>
      do r <- fs_emplace cap l k;
      if is_contract (snd r) then Ok (fst r, OContract) else fs_insert_range cap (fst r) t
  end.

(* erase(key): r = equal_range(key); n = distance(r.first, r.second); erase(r.first, r.second); return n *)
Definition fs_erase_key (l : list A) (k : A) : res (list A * out) :=
  do r <- equal_range_g (key_cut k) l;
  match sv_erase l (fst r) (snd r) with
  | Some e => Ok (fst e, OCount (snd r - fst r))
  | None => Ok (l, OContract)
  end.

(* erase_if(c, pred): it = remove_if(begin, end, pred); r = distance(it, end); c.erase(it, end) *)
Definition fs_erase_if (l : list A) (pred : A -> bool) : res (list A * out) :=
  do r <- remove_if pred l;
  match sv_erase (fst r) (snd r) (length (fst r)) with
  | Some e => Ok (fst e, OCount (length (fst r) - snd r))
  | None => Ok (fst r, OContract)
  end.

(** * flat_multiset(KeyContainer cont): _container(move(cont)); etl::sort(begin(), end(), _compare) *)
Definition fms_construct (ks : list A) : res (list A) := gnome_sort lt ks.

(** * Relations (operator== and operator< of the keys, not the set's comparator) *)
Variable eqb : A -> A -> bool.   (* operator== on keys *)
Variable ltk : A -> A -> bool.   (* operator<  on keys *)

(* static_set: lhs.size() == rhs.size() && equal(begin(lhs), end(lhs), begin(rhs)) *)
Definition ss_eq (l1 l2 : list A) : res bool :=
  if length l1 =? length l2 then equal3_m eqb l1 l2 else Ok false.
(* flat_set: etl::equal(lhs.begin(), lhs.end(), rhs.begin(), rhs.end()) with pointer iterators *)
Definition fs_eq (l1 l2 : list A) : res bool := equal4_m true eqb l1 l2.
(* both: lexicographical_compare(begin(lhs), end(lhs), begin(rhs), end(rhs)) *)
Definition set_lt (l1 l2 : list A) : bool := lexicographical_compare_m ltk l1 l2.

(* == != < <= > >=  as the headers derive them *)
Definition relations (eq : list A -> list A -> res bool) (l1 l2 : list A) : res (list bool) :=
  do e <- eq l1 l2;
  Ok [e; negb e; set_lt l1 l2; negb (set_lt l2 l1); set_lt l2 l1; negb (set_lt l1 l2)].

(** * Histories *)
Definition upd (s : st) (r : list A * out) : st * out := ({| cur := fst r; oth := oth s |}, snd r).

(* building the backing container of an argument: Container(first, last) has its own
   precondition distance(first, last) <= capacity() *)
Definition with_container (cap : nat) (s : st) (ks : list A) (f : unit -> res (st * out)) : res (st * out) :=
  if cap <? length ks then Ok (s, OContract) else f tt.

Definition ss_step (cap : nat) (s : st) (o : op) : res (st * out) :=
  match o with
  | Insert k | Emplace k => do r <- ss_insert cap (cur s) k; Ok (upd s r)
  | InsertRange ks => do l <- ss_insert_range cap (cur s) ks; Ok (upd s (l, OUnit))
  | Assign ks =>
      do r <- ss_construct cap ks;
      Ok (match r with Some l => upd s (l, OUnit) | None => (s, OContract) end)
  | EraseKey k => do r <- ss_erase_key (cur s) k; Ok (upd s r)
  | ErasePos p => Ok (upd s (set_erase_pos (cur s) p))
  | EraseRange a b => Ok (upd s (set_erase_range (cur s) a b))
  | Clear => Ok (upd s ([], OUnit))
  | Swap => Ok ({| cur := oth s; oth := cur s |}, OUnit)
  (* static_set(first, last) with forward iterators: no precondition, insert(first, last) *)
  | AssignIter ks => do l <- ss_insert_range cap [] ks; Ok (upd s (l, OUnit))
  (* defaulted copy assignment: the backing vector is copied *)
  | CopyFrom => Ok (upd s (oth s, OUnit))
  | InsertHint _ _ | AssignSorted _ | EraseIf _ | Extract | Replace _ => Ok (s, OUnit)  (* no such member *)
  end.

Definition fs_step (cap : nat) (s : st) (o : op) : res (st * out) :=
  match o with
  | Insert k | Emplace k => do r <- fs_emplace cap (cur s) k; Ok (upd s r)
  | InsertHint h k => do r <- fs_insert_hint cap (cur s) h k; Ok (upd s r)
  | InsertRange ks => do r <- fs_insert_range cap (cur s) ks; Ok (upd s r)
  | Assign ks =>
      with_container cap s ks (fun _ =>
        do r <- fs_insert_range cap [] ks;
        Ok (if is_contract (snd r) then (s, OContract) else upd s r))
  | AssignSorted ks => with_container cap s ks (fun _ => Ok (upd s (ks, OUnit)))
  | Replace ks => with_container cap s ks (fun _ => Ok (upd s (ks, OUnit)))
  | EraseKey k => do r <- fs_erase_key (cur s) k; Ok (upd s r)
  | ErasePos p => Ok (upd s (set_erase_pos (cur s) p))
  | EraseRange a b => Ok (upd s (set_erase_range (cur s) a b))
  | EraseIf pred => do r <- fs_erase_if (cur s) pred; Ok (upd s r)
  | Clear => Ok (upd s ([], OUnit))
  | Swap => Ok ({| cur := oth s; oth := cur s |}, OUnit)
  | Extract => Ok (upd s ([], OElems (cur s)))
  (* flat_set(first, last, comp): _container{}, insert(first, last); a precondition that fires inside
     the constructor of the temporary leaves s as it was *)
  | AssignIter ks =>
      do r <- fs_insert_range cap [] ks;
      Ok (if is_contract (snd r) then (s, OContract) else upd s r)
  | CopyFrom => Ok (upd s (oth s, OUnit))
  end.

Definition step (k : kind) : nat -> st -> op -> res (st * out) :=
  match k with StaticSet => ss_step | FlatSet => fs_step end.

(* a history runs until its end or until a precondition fires (the harness stops there too);
   the trace holds, per executed call, what it returned and the contents of the set after it *)
Fixpoint run (k : kind) (cap : nat) (s : st) (ops : list op) : res (st * list (out * list A)) :=
  match ops with
  | [] => Ok (s, [])
  | o :: t =>
      do r <- step k cap s o;
      let ev := (snd r, cur (fst r)) in
      if is_contract (snd r) then Ok (fst r, [ev])
      else do r2 <- run k cap (fst r) t; Ok (fst r2, ev :: snd r2)
  end.

(** * Everything a lookup key can be asked, on one state *)
(* key_type overloads (tr = false) and the template overloads of a transparent comparator (tr = true) *)
Definition ask (k : kind) (tr : bool) (c : cut) (l : list A) : res answers :=
  do f <- find_g c l;
  do n <- match k, tr with
          | StaticSet, false => ss_count c l | StaticSet, true => ss_count_t c l
          | FlatSet, false => fs_count c l | FlatSet, true => fs_count_t c l
          end;
  do b <- match k, tr with
          | StaticSet, _ => ss_contains c l
          | FlatSet, false => fs_contains c l | FlatSet, true => fs_contains_t c l
          end;
  do lo <- lb_g c l;
  do hi <- ub_g c l;
  do r <- equal_range_g c l;
  Ok {| a_find := f; a_count := n; a_contains := b; a_lower := lo; a_upper := hi; a_range := r |}.

Definition set_eq (k : kind) : list A -> list A -> res bool :=
  match k with StaticSet => ss_eq | FlatSet => fs_eq end.

End SetModel.

Arguments out : clear implicits.
