(* C09, the stored comparator: etl::flat_set keeps its comparator in a member (_compare) that the
   flat_set(Compare const&) constructor sets, the other constructors default-construct, copy
   assignment copies and swap exchanges -- so the two sets of a history can be ordered differently and
   the order of "the current set" changes along the history.  Model: C09/ModelCmp.v (fs_step2/run2 run
   Model.fs_step under the comparator the set holds at that moment); specification: std::set, which
   stores, copies and swaps its comparator the same way (s_step2/s_run2 over Spec.s_step). *)
From Tetl Require Import Lib.Base C06a.Model C09.Ops C09.Model C09.Spec C09.ModelCmp C09.Instances
  C09.ProofsCore C09.ProofsRun C09.ProofsCmp C09.ProofsMain.

(** For every element type, every three strict weak orders (Compare() and the comparators the two
    sets are constructed with), every capacity and every history inside std::set's domain: the model
    returns call by call what std::set returns, both sets end strictly sorted under the comparator
    they hold at the end, within capacity, and every lookup on the current set answers like std::set
    under the comparator it holds. *)
Theorem C09_flat_set_stored_comparator_refines_std :
  forall (A : Type) (lt0 : A -> A -> bool), strict_weak lt0 ->
  forall (lt1 lt2 : A -> A -> bool) (cap : nat) (ops : list (op A)) s2 tr2,
  strict_weak lt1 -> strict_weak lt2 ->
  s_run2 lt0 cap (init2 lt1 lt2) ops = Some (s2, tr2) ->
  run2 lt0 cap (init2 lt1 lt2) ops = Ok (s2, map (present_ev FlatSet) tr2)
  /\ is_set (cmp (cur2 s2)) (elems (cur2 s2)) /\ is_set (cmp (oth2 s2)) (elems (oth2 s2))
  /\ length (elems (cur2 s2)) <= cap /\ length (elems (oth2 s2)) <= cap
  /\ (forall tr x, ask FlatSet tr (key_cut (cmp (cur2 s2)) x) (elems (cur2 s2))
                   = Ok (s_ask (key_cut (cmp (cur2 s2)) x) (elems (cur2 s2)))).
Proof. exact (@stored_comparator_refines_std). Qed.
Print Assumptions C09_flat_set_stored_comparator_refines_std.

(** All histories: whatever is called, valid or not (a call outside its domain fires a precondition and
    ends the history), the model never reaches UB or runs out of fuel and each set is strictly sorted
    under the comparator it holds, within capacity.  The only hypothesis (hist_ok2) is the one the code
    cannot check: replace is handed a container sorted under the set's current comparator and the
    sorted_unique constructor one sorted under Compare(). *)
Theorem C09_flat_set_stored_comparator_sorted_inv :
  forall (A : Type) (lt0 : A -> A -> bool), strict_weak lt0 ->
  forall (lt1 lt2 : A -> A -> bool) (cap : nat) (ops : list (op A)),
  strict_weak lt1 -> strict_weak lt2 -> hist_ok2 lt0 cap (init2 lt1 lt2) ops ->
  exists s tr, run2 lt0 cap (init2 lt1 lt2) ops = Ok (s, tr)
    /\ is_set (cmp (cur2 s)) (elems (cur2 s)) /\ is_set (cmp (oth2 s)) (elems (oth2 s))
    /\ length (elems (cur2 s)) <= cap /\ length (elems (oth2 s)) <= cap
    /\ Forall (fun e => length (snd e) <= cap) tr.
Proof. exact (@stored_comparator_sorted_inv). Qed.
Print Assumptions C09_flat_set_stored_comparator_sorted_inv.

(* an ascending and a descending set are swapped, copied and re-assigned: the current set ends up
   descending, then ascending again after an assignment from a container *)
Example C09_cmp_nonvacuous :
  exists s2 tr2,
    s_run2 cmp_less 3 (init2 cmp_less cmp_greater)
      [Insert 1%Z; Insert 3%Z; Swap; Insert 1%Z; Insert 3%Z; Insert 2%Z; Swap; CopyFrom; EraseKey 3%Z;
       Assign [2%Z; 0%Z]; Insert 1%Z] = Some (s2, tr2)
    /\ elems (cur2 s2) = [0%Z; 1%Z; 2%Z] /\ elems (oth2 s2) = [3%Z; 2%Z; 1%Z] /\ length tr2 = 11.
Proof. eexists. eexists. split; [vm_compute; reflexivity|]. repeat split. Qed.

(* the hypothesis of the invariant theorem is satisfiable with a replace under the descending order
   and a call outside its domain *)
Example C09_cmp_inv_nonvacuous :
  hist_ok2 cmp_less 3 (init2 cmp_less cmp_greater)
    [Swap; Replace [5%Z; 3%Z]; Insert 4%Z; AssignSorted [1%Z; 2%Z]; ErasePos 7].
Proof.
  cbn [hist_ok2 ok2]. split; [exact I|]. vm_compute fs_step2. cbn [fst snd is_contract]. right.
  split; [apply (proj1 (is_set_b_spec _ _)); reflexivity|]. vm_compute fs_step2. cbn [fst snd is_contract]. right.
  split; [exact I|]. vm_compute fs_step2. cbn [fst snd is_contract]. right.
  split; [apply (proj1 (is_set_b_spec _ _)); reflexivity|]. vm_compute fs_step2. cbn [fst snd is_contract]. right.
  split; [exact I|]. vm_compute fs_step2. cbn [fst snd is_contract]. left. reflexivity.
Qed.
