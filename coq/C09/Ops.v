(* C09: the vocabulary of histories, shared by the model and the specification.
   A history addresses one set `cur`; `oth` is a second set of the same type that only takes part
   in swap (and in the relations).  Positions are offsets from begin(). *)
From Tetl Require Import Lib.Base.

Inductive kind := StaticSet | FlatSet.

Section Ops.
Context {A : Type}.

Inductive op : Type :=
| Insert (k : A)                  (* insert(value) *)
| Emplace (k : A)                 (* emplace(args...) *)
| InsertHint (hint : nat) (k : A) (* flat_set only: insert(hint, value) *)
| InsertRange (ks : list A)       (* insert(first, last) *)
| Assign (ks : list A)            (* s = Set(first, last)  /  s = flat_set(Container(first, last)) *)
| AssignSorted (ks : list A)      (* flat_set only: s = flat_set(sorted_unique, Container(first, last)) *)
| EraseKey (k : A)
| ErasePos (p : nat)
| EraseRange (a b : nat)
| EraseIf (pred : A -> bool)      (* flat_set only: erase_if(s, pred) *)
| Clear
| Swap                            (* s.swap(t) *)
| Extract                         (* flat_set only: move(s).extract() *)
| Replace (ks : list A)           (* flat_set only: s.replace(Container(first, last)) *)
| AssignIter (ks : list A)        (* s = Set(first, last) with forward (not random-access) iterators: the
                                     constructors' iterator-range overloads without the distance precondition
                                     (static_set: `if constexpr (RandomAccessIterator)` not taken; flat_set:
                                     flat_set(first, last, comp)) *)
| CopyFrom.                       (* s = t  (copy assignment from the second set) *)

Record st : Type := { cur : list A; oth : list A }.
Definition init : st := {| cur := []; oth := [] |}.

(* A lookup key as the comparator sees it: below e = comp(e, key), above e = comp(key, e).
   A key of key_type k is {| below e := lt e k; above e := lt k e |}; a heterogeneous key of a
   transparent comparator is any other pair of tests ([associative.reqmts]: kl, ku, ke). *)
Record cut : Type := { below : A -> bool; above : A -> bool }.
Definition key_cut (lt : A -> A -> bool) (k : A) : cut :=
  {| below := fun e => lt e k; above := fun e => lt k e |}.

(* everything one key can be asked *)
Record answers : Type := {
  a_find : nat; a_count : nat; a_contains : bool;
  a_lower : nat; a_upper : nat; a_range : nat * nat }.

(* which members exist *)
Definition has_member (k : kind) (o : op) : bool :=
  match k, o with
  | StaticSet, (InsertHint _ _ | AssignSorted _ | EraseIf _ | Extract | Replace _) => false
  | _, _ => true
  end.
End Ops.

Arguments op : clear implicits.
Arguments st : clear implicits.
Arguments cut : clear implicits.
