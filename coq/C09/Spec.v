(* C09 specification: std::set ([set], [associative.reqmts]) as a strictly ascending list under
   the comparator, bounded by a capacity; std::multiset construction as a sorted permutation.
   No searching loops, no rotation, no storage: positions are counted, elements are filtered. *)
From Tetl Require Import Lib.Base C09.Ops.
From Coq Require Import Sorting.Sorted Sorting.Permutation.

Section SetSpec.
Context {A : Type}.
Variable lt : A -> A -> bool.      (* the comparator: a strict weak order *)

(* equivalent keys: neither is less than the other *)
Definition eqv (a b : A) : bool := negb (lt a b) && negb (lt b a).

(* a set value iterates in strictly ascending order (so it holds no two equivalent keys) *)
Definition is_set (l : list A) : Prop := StronglySorted (fun a b => lt a b = true) l.
(* a multiset value iterates in weakly ascending order *)
Definition is_multiset (l : list A) : Prop := StronglySorted (fun a b => lt b a = false) l.

Fixpoint is_set_b (l : list A) : bool :=
  match l with
  | [] => true
  | x :: t => forallb (fun y => lt x y) t && is_set_b t
  end.

(* position of the first element satisfying p; the length (= end()) when there is none *)
Fixpoint index_where (p : A -> bool) (l : list A) : nat :=
  match l with
  | [] => 0
  | x :: t => if p x then 0 else S (index_where p t)
  end.

(** * Lookups, for any key the comparator can be asked about *)
(* the element is equivalent to the key *)
Definition matches (c : cut A) (e : A) : bool := negb (below c e) && negb (above c e).

Definition s_find (c : cut A) (l : list A) : nat := index_where (matches c) l.
Definition s_count (c : cut A) (l : list A) : nat := length (filter (matches c) l).
Definition s_contains (c : cut A) (l : list A) : bool := existsb (matches c) l.
(* first element not less than the key / first element greater than the key *)
Definition s_lower_bound (c : cut A) (l : list A) : nat := index_where (fun e => negb (below c e)) l.
Definition s_upper_bound (c : cut A) (l : list A) : nat := index_where (above c) l.

Definition s_ask (c : cut A) (l : list A) : answers :=
  {| a_find := s_find c l; a_count := s_count c l; a_contains := s_contains c l;
     a_lower := s_lower_bound c l; a_upper := s_upper_bound c l;
     a_range := (s_lower_bound c l, s_upper_bound c l) |}.

(* what a heterogeneous key must satisfy ([associative.reqmts]: the set is partitioned with
   respect to comp(e, key) and !comp(key, e), and comp(e, key) implies !comp(key, e)) --
   stated for all elements at once, so that it holds for every set over the comparator *)
Definition cut_ok (c : cut A) : Prop :=
  (forall a b, lt a b = true -> below c b = true -> below c a = true) /\
  (forall a b, lt a b = true -> above c a = true -> above c b = true) /\
  (forall a, below c a = true -> above c a = false).

(** * Modifiers *)
(* insert: position of the key and whether it was inserted; an equivalent key blocks it *)
Fixpoint s_insert (x : A) (l : list A) : list A * (nat * bool) :=
  match l with
  | [] => ([x], (0, true))
  | y :: t =>
      if lt x y then (x :: l, (0, true))
      else if lt y x then
        let '(t', (i, b)) := s_insert x t in (y :: t', (S i, b))
      else (l, (0, false))
  end.

Definition s_erase_key (x : A) (l : list A) : list A * nat :=
  (filter (fun e => negb (eqv x e)) l, length (filter (eqv x) l)).
(* erase(pos) needs a dereferenceable position; both return the position following the removed ones *)
Definition s_erase_pos (p : nat) (l : list A) : option (list A * nat) :=
  if p <? length l then Some (firstn p l ++ skipn (S p) l, p) else None.
Definition s_erase_range (a b : nat) (l : list A) : option (list A * nat) :=
  if (a <=? b) && (b <=? length l) then Some (firstn a l ++ skipn b l, a) else None.
Definition s_erase_if (pred : A -> bool) (l : list A) : list A * nat :=
  (filter (fun e => negb (pred e)) l, length (filter pred l)).

(** * What a call returns *)
Inductive sout : Type :=
| SIns (pos : nat) (inserted : bool)
| SFull               (* a new key did not fit: failure reported, set unchanged *)
| SPos (pos : nat)
| SCount (n : nat)
| SUnit
| SElems (l : list A).

(* the capacity rule of the property: a new key into a full set fails and changes nothing;
   a key that is already there is found as usual *)
Definition s_insert_bounded (cap : nat) (x : A) (l : list A) : list A * sout :=
  let '(l', (p, b)) := s_insert x l in
  if b && (length l =? cap) then (l, SFull) else (l', SIns p b).

(* for flat_set the failure is fatal (the backing container's precondition), for static_set the
   key is dropped and the call goes on *)
Definition fatal (k : kind) (o : sout) : bool :=
  match k, o with FlatSet, SFull => true | _, _ => false end.

(* insert(first, last): each key in turn *)
Fixpoint s_insert_range (k : kind) (cap : nat) (ks : list A) (l : list A) : list A * sout :=
  match ks with
  | [] => (l, SUnit)
  | x :: t =>
      let '(l', o) := s_insert_bounded cap x l in
      if fatal k o then (l', SFull) else s_insert_range k cap t l'
  end.

Definition updc (s : st A) (r : list A * sout) : st A * sout := ({| cur := fst r; oth := oth s |}, snd r).

(* None = outside the documented domain of the call *)
Definition s_step (k : kind) (cap : nat) (s : st A) (o : op A) : option (st A * sout) :=
  if negb (has_member k o) then None else
  match o with
  | Insert x | Emplace x => Some (updc s (s_insert_bounded cap x (cur s)))
  | InsertHint _ x =>   (* the hint only affects the complexity; the iterator to the key is returned *)
      let r := s_insert_bounded cap x (cur s) in
      Some (updc s (fst r, match snd r with SIns p _ => SPos p | o' => o' end))
  | InsertRange ks => Some (updc s (s_insert_range k cap ks (cur s)))
  | Assign ks =>
      if length ks <=? cap then Some (updc s (fst (s_insert_range k cap ks []), SUnit)) else None
  | AssignSorted ks | Replace ks =>
      if is_set_b ks && (length ks <=? cap) then Some (updc s (ks, SUnit)) else None
  | EraseKey x => let r := s_erase_key x (cur s) in Some (updc s (fst r, SCount (snd r)))
  | ErasePos p =>
      match s_erase_pos p (cur s) with Some r => Some (updc s (fst r, SPos (snd r))) | None => None end
  | EraseRange a b =>
      match s_erase_range a b (cur s) with Some r => Some (updc s (fst r, SPos (snd r))) | None => None end
  | EraseIf pred => let r := s_erase_if pred (cur s) in Some (updc s (fst r, SCount (snd r)))
  | Clear => Some (updc s ([], SUnit))
  | Swap => Some ({| cur := oth s; oth := cur s |}, SUnit)
  | Extract => Some (updc s ([], SElems (cur s)))
  | AssignIter ks =>   (* construction from a range: each key in turn; a key that does not fit ends the
                          domain where the container treats that as fatal *)
      let r := s_insert_range k cap ks [] in
      if fatal k (snd r) then None else Some (updc s (fst r, SUnit))
  | CopyFrom => Some (updc s (oth s, SUnit))
  end.

Fixpoint s_run (k : kind) (cap : nat) (s : st A) (ops : list (op A))
  : option (st A * list (sout * list A)) :=
  match ops with
  | [] => Some (s, [])
  | o :: t =>
      match s_step k cap s o with
      | None => None
      | Some (s', r) =>
          if fatal k r then Some (s', [(r, cur s')])
          else match s_run k cap s' t with
               | None => None
               | Some (s'', rs) => Some (s'', (r, cur s') :: rs)
               end
      end
  end.

(** * std::set with no capacity at all -- what the property compares with "as long as capacity is
      not exceeded".  Nothing here mentions a capacity; SFull never occurs. *)
Definition u_insert_all (ks : list A) (l : list A) : list A :=
  fold_left (fun acc x => fst (s_insert x acc)) ks l.

Definition u_step (k : kind) (s : st A) (o : op A) : option (st A * sout) :=
  if negb (has_member k o) then None else
  match o with
  | Insert x | Emplace x =>
      let r := s_insert x (cur s) in Some (updc s (fst r, SIns (fst (snd r)) (snd (snd r))))
  | InsertHint _ x => let r := s_insert x (cur s) in Some (updc s (fst r, SPos (fst (snd r))))
  | InsertRange ks => Some (updc s (u_insert_all ks (cur s), SUnit))
  | Assign ks | AssignIter ks => Some (updc s (u_insert_all ks [], SUnit))
  | AssignSorted ks | Replace ks => if is_set_b ks then Some (updc s (ks, SUnit)) else None
  | EraseKey x => let r := s_erase_key x (cur s) in Some (updc s (fst r, SCount (snd r)))
  | ErasePos p =>
      match s_erase_pos p (cur s) with Some r => Some (updc s (fst r, SPos (snd r))) | None => None end
  | EraseRange a b =>
      match s_erase_range a b (cur s) with Some r => Some (updc s (fst r, SPos (snd r))) | None => None end
  | EraseIf pred => let r := s_erase_if pred (cur s) in Some (updc s (fst r, SCount (snd r)))
  | Clear => Some (updc s ([], SUnit))
  | Swap => Some ({| cur := oth s; oth := cur s |}, SUnit)
  | Extract => Some (updc s ([], SElems (cur s)))
  | CopyFrom => Some (updc s (oth s, SUnit))
  end.

Fixpoint u_run (k : kind) (s : st A) (ops : list (op A)) : option (st A * list (sout * list A)) :=
  match ops with
  | [] => Some (s, [])
  | o :: t =>
      match u_step k s o with
      | None => None
      | Some (s', r) =>
          match u_run k s' t with
          | None => None
          | Some (s'', rs) => Some (s'', (r, cur s') :: rs)
          end
      end
  end.

(* "capacity is not exceeded": no set along the history holds more than cap elements (stated on
   the trace), and no container handed to the set (the source of an assignment from a container /
   of replace) holds more than cap elements *)
Definition within (cap : nat) (o : op A) : Prop :=
  match o with
  | Assign ks | AssignSorted ks | Replace ks => length ks <= cap
  | _ => True
  end.

(** * Relations: [container.requirements] a == b is equal(...), a < b is lexicographical_compare(...)
      over operator== / operator< of the keys (not the comparator) *)
Variable eqb : A -> A -> bool.
Variable ltk : A -> A -> bool.

Fixpoint s_eq (l1 l2 : list A) : bool :=
  match l1, l2 with
  | [], [] => true
  | x :: t1, y :: t2 => eqb x y && s_eq t1 t2
  | _, _ => false
  end.
Fixpoint s_lex (l1 l2 : list A) : bool :=
  match l1, l2 with
  | _, [] => false
  | [], _ :: _ => true
  | x :: t1, y :: t2 => ltk x y || (negb (ltk y x) && s_lex t1 t2)
  end.
Definition s_relations (l1 l2 : list A) : list bool :=
  [s_eq l1 l2; negb (s_eq l1 l2); s_lex l1 l2; negb (s_lex l2 l1); s_lex l2 l1; negb (s_lex l1 l2)].

(** * flat_multiset(container): the same elements in weakly ascending order *)
Definition is_multiset_of (input result : list A) : Prop := is_multiset result /\ Permutation result input.

(* std::multiset(first, last): each element in turn, inserted at the upper bound of its
   equivalents ([associative.reqmts] insert for equal keys: "inserted at the upper bound of that range") *)
Fixpoint ms_insert (x : A) (l : list A) : list A :=
  match l with
  | [] => [x]
  | y :: t => if lt x y then x :: l else y :: ms_insert x t
  end.
Definition s_multiset_of_range (ks : list A) : list A := fold_left (fun acc x => ms_insert x acc) ks [].

End SetSpec.

Arguments sout : clear implicits.
