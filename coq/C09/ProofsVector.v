(* C09 proofs, part 5: the backing vector.  C09/Model.v uses etl::static_vector at its observable
   level (a list): push_back = append, emplace(pos) = append + rotate, erase(first, last) = cut, each
   guarded by its TETL_PRECONDITIONs.  For element type int (Z) this file proves that these are
   exactly what the slot-level model of static_vector in C01/Model.v (buffer + stored size, wrapping
   size arithmetic, the move loops) computes, contract outcomes included -- by composition with the
   theorems of the C01 package. *)
From Tetl Require Import Lib.Base Lib.Arr C06a.Model.
From Tetl Require C01.Model C01.Spec C01.ProofsBase C01.ProofsInsert C01.ProofsErase.
From Tetl Require Import C09.Ops C09.Model C09.Spec C09.ProofsCore C09.ProofsOps.
From Coq Require Import Arith Lia ZArith.
Ltac Zify.zify_post_hook ::= Z.to_euclidean_division_equations.

Module V := C01.Model.
Module VS := C01.Spec.
Module VB := C01.ProofsBase.

(* the vector v (capacity c) holds exactly the elements l *)
Notation holds := VB.repr.

Lemma of_nat_len (l : list Z) : VS.len l = Z.of_nat (length l).
Proof. reflexivity. Qed.

(* ProofsOps.append_rotate_mid sits in a section over a comparator it does not use *)
Lemma append_rotate_at (l1 l3 : list Z) (x : Z) :
  append_rotate (l1 ++ l3) (length l1) x = Ok (l1 ++ x :: l3).
Proof.
  apply (append_rotate_mid (fun _ _ : Z => false)).
  - intros; reflexivity.
  - intros ? ? ? H; discriminate H.
  - intros; reflexivity.
Qed.

(** erase(first, last) *)
Theorem vector_erase_range c v (l : list Z) a b : VB.cap_ok c -> holds c v l ->
  match sv_erase l a b with
  | Some (l', p) => p = a /\ exists v', V.erase_range v (Z.of_nat a) (Z.of_nat b) = Ok v' /\ holds c v' l'
  | None => V.erase_range v (Z.of_nat a) (Z.of_nat b) = Contract
  end.
Proof.
  intros Hc Hr. unfold sv_erase.
  destruct (Nat.leb_spec a (length l)) as [H1|H1]; cbn [andb].
  - destruct (Nat.leb_spec b (length l)) as [H2|H2]; cbn [andb].
    + destruct (Nat.leb_spec a b) as [H3|H3].
      * split; [reflexivity|].
        pose proof (C01.ProofsErase.erase_range_ok c v l (Z.of_nat a) (Z.of_nat b) Hc Hr) as H.
        unfold VB.okr, VS.del in H. rewrite !Nat2Z.id in H. apply H; [lia|unfold VS.len; lia].
      * apply (C01.ProofsErase.erase_range_contract c v l); [exact Hr|]. right. left. lia.
    + apply (C01.ProofsErase.erase_range_contract c v l); [exact Hr|]. right. right. unfold VS.len. lia.
  - apply (C01.ProofsErase.erase_range_contract c v l); [exact Hr|].
    destruct (Nat.leb_spec b (length l)) as [H2|H2]; [right; left; lia|right; right; unfold VS.len; lia].
Qed.

(** erase(position) *)
Theorem vector_erase_pos c v (l : list Z) p : VB.cap_ok c -> holds c v l ->
  match sv_erase_pos l p with
  | Some (l', q) => q = p /\ exists v', V.erase_at v (Z.of_nat p) = Ok v' /\ holds c v' l'
  | None => V.erase_at v (Z.of_nat p) = Contract
  end.
Proof.
  intros Hc Hr. unfold sv_erase_pos.
  destruct (Nat.leb_spec p (length l)) as [H1|H1].
  - unfold sv_erase. replace (p <=? length l) with true by (symmetry; apply Nat.leb_le; exact H1).
    replace (p <=? S p) with true by (symmetry; apply Nat.leb_le; lia). cbn [andb]. rewrite andb_true_r.
    destruct (Nat.leb_spec (S p) (length l)) as [H2|H2].
    + split; [reflexivity|].
      pose proof (C01.ProofsErase.erase_at_ok c v l (Z.of_nat p) Hc Hr) as H.
      unfold VB.okr, VS.del in H. replace (Z.of_nat p + 1)%Z with (Z.of_nat (S p)) in H by lia.
      rewrite !Nat2Z.id in H. apply H. unfold VS.len. lia.
    + apply (C01.ProofsErase.erase_at_contract c v l); [exact Hr|]. right. unfold VS.len. lia.
  - apply (C01.ProofsErase.erase_at_contract c v l); [exact Hr|]. right. unfold VS.len. lia.
Qed.

(** emplace(position, x) -- what flat_set::emplace calls -- and the capacity precondition *)
Theorem vector_emplace c v (l : list Z) p x : VB.cap_ok c -> holds c v l -> p <= length l ->
  (length l < c ->
     exists l', append_rotate l p x = Ok l' /\ exists v', V.emplace_at v (Z.of_nat p) x = Ok v' /\ holds c v' l')
  /\ (length l = c -> V.emplace_at v (Z.of_nat p) x = Contract).
Proof.
  intros Hc Hr Hp. split.
  - intros Hlt. exists (firstn p l ++ x :: skipn p l). split.
    + pose proof (append_rotate_at (firstn p l) (skipn p l) x) as E.
      rewrite firstn_skipn, firstn_length, Nat.min_l in E by lia. exact E.
    + rewrite C01.ProofsInsert.emplace_at_eq.
      pose proof (C01.ProofsInsert.insert_rv_ok c v l (Z.of_nat p) x Hc Hr) as H.
      unfold VB.okr, VS.ins in H. rewrite !Nat2Z.id in H. cbn [app] in H.
      apply H; unfold VS.len; lia.
  - intros He. rewrite C01.ProofsInsert.emplace_at_eq.
    apply (C01.ProofsInsert.insert_rv_contract c v l); [exact Hr|]. right. right. unfold VS.len. lia.
Qed.

(** push_back(x) -- what static_set::insert calls before it rotates the new element into place *)
Theorem vector_push_back c v (l : list Z) x : VB.cap_ok c -> holds c v l ->
  (length l < c -> exists v', V.push_back v x = Ok v' /\ holds c v' (l ++ [x]))
  /\ (length l = c -> V.push_back v x = Contract).
Proof.
  intros Hc Hr. split.
  - intros Hlt. apply (VB.push_back_ok c v l x Hc Hr). unfold VS.len. lia.
  - intros He. apply (VB.push_back_contract c v l x Hr). unfold VS.len. lia.
Qed.

(** clear(), and the default-constructed vector *)
Theorem vector_empty c : holds c (V.empty_vec c) [].
Proof. apply VB.empty_repr. Qed.

(** all of it, as Properties_vector.v states it *)
Theorem backing_vector_is_static_vector :
  forall (c : nat) (v : C01.Model.vec) (l : list Z),
  C01.ProofsBase.cap_ok c -> C01.ProofsBase.repr c v l ->
  (* erase(first, last) *)
  (forall a b,
     match sv_erase l a b with
     | Some (l', p) => p = a /\ exists v', C01.Model.erase_range v (Z.of_nat a) (Z.of_nat b) = Ok v'
                                           /\ C01.ProofsBase.repr c v' l'
     | None => C01.Model.erase_range v (Z.of_nat a) (Z.of_nat b) = Contract
     end)
  (* erase(position) *)
  /\ (forall p,
     match sv_erase_pos l p with
     | Some (l', q) => q = p /\ exists v', C01.Model.erase_at v (Z.of_nat p) = Ok v' /\ C01.ProofsBase.repr c v' l'
     | None => C01.Model.erase_at v (Z.of_nat p) = Contract
     end)
  (* emplace(position, x): append + rotate; the !full() precondition *)
  /\ (forall p x, p <= length l ->
       (length l < c -> exists l', append_rotate l p x = Ok l'
                        /\ exists v', C01.Model.emplace_at v (Z.of_nat p) x = Ok v' /\ C01.ProofsBase.repr c v' l')
       /\ (length l = c -> C01.Model.emplace_at v (Z.of_nat p) x = Contract))
  (* push_back(x) *)
  /\ (forall x,
       (length l < c -> exists v', C01.Model.push_back v x = Ok v' /\ C01.ProofsBase.repr c v' (l ++ [x]))
       /\ (length l = c -> C01.Model.push_back v x = Contract)).
Proof.
  intros c v l Hc Hr. split; [|split; [|split]].
  - intros a b. exact (vector_erase_range c v l a b Hc Hr).
  - intros p. exact (vector_erase_pos c v l p Hc Hr).
  - intros p x Hp. exact (vector_emplace c v l p x Hc Hr Hp).
  - intros x. exact (vector_push_back c v l x Hc Hr).
Qed.
