(* C09, the constructors that take the comparator: etl::flat_set(first, last, comp) and
   etl::flat_set(sorted_unique, first, last, comp) store the comparator they are handed
   (_compare(comp)); Properties_cmp.v covers the histories in which these constructors are called
   without that argument (comp = Compare()).  Model: C09/ModelCtor.v (op2 = a call of the common
   vocabulary, or the assignment of a set constructed with an explicit comparator; fs_step3/run3);
   specification: std::set, whose iterator-range constructor takes the comparator the same way
   ([set.cons]), s_step3/s_run3. *)
From Tetl Require Import Lib.Base C06a.Model C09.Ops C09.Model C09.Spec C09.ModelCmp C09.ModelCtor C09.Instances C09.InstancesT
  C09.ProofsCore C09.ProofsRun C09.ProofsCmp C09.ProofsCtor C09.ProofsMain.

(** For every element type, every history over the common vocabulary plus the two constructors with
    an explicit comparator, every capacity: if Compare(), the comparators of the two initial sets and
    every comparator handed to a constructor along the history are strict weak orders, then inside
    std::set's domain the model returns call by call what std::set returns, both sets end strictly
    sorted under the comparator they then hold, within capacity, and every lookup on the current set
    answers like std::set under the comparator it holds. *)
Theorem C09_flat_set_comparator_constructors_refine_std :
  forall (A : Type) (lt0 lt1 lt2 : A -> A -> bool) (cap : nat) (ops : list (op2 A)) s2 tr2,
  strict_weak lt1 -> strict_weak lt2 -> cmps_ok lt0 ops ->
  s_run3 lt0 cap (init2 lt1 lt2) ops = Some (s2, tr2) ->
  run3 lt0 cap (init2 lt1 lt2) ops = Ok (s2, map (present_ev FlatSet) tr2)
  /\ is_set (cmp (cur2 s2)) (elems (cur2 s2)) /\ is_set (cmp (oth2 s2)) (elems (oth2 s2))
  /\ length (elems (cur2 s2)) <= cap /\ length (elems (oth2 s2)) <= cap
  /\ (forall tr x, ask FlatSet tr (key_cut (cmp (cur2 s2)) x) (elems (cur2 s2))
                   = Ok (s_ask (key_cut (cmp (cur2 s2)) x) (elems (cur2 s2)))).
Proof. exact (@comparator_constructors_refine_std). Qed.
Print Assumptions C09_flat_set_comparator_constructors_refine_std.

(** All histories (calls outside their domain included: they fire a precondition and end the history):
    never UB / OutOfFuel, each set strictly sorted under the comparator it holds, within capacity.
    hist_ok3 = the precondition the code cannot check: replace is handed a container sorted under the
    set's current comparator, a sorted_unique constructor one sorted under the comparator it receives. *)
Theorem C09_flat_set_comparator_constructors_sorted_inv :
  forall (A : Type) (lt0 lt1 lt2 : A -> A -> bool) (cap : nat) (ops : list (op2 A)),
  strict_weak lt1 -> strict_weak lt2 -> cmps_ok lt0 ops -> hist_ok3 lt0 cap (init2 lt1 lt2) ops ->
  exists s tr, run3 lt0 cap (init2 lt1 lt2) ops = Ok (s, tr)
    /\ is_set (cmp (cur2 s)) (elems (cur2 s)) /\ is_set (cmp (oth2 s)) (elems (oth2 s))
    /\ length (elems (cur2 s)) <= cap /\ length (elems (oth2 s)) <= cap
    /\ Forall (fun e => length (snd e) <= cap) tr.
Proof. exact (@comparator_constructors_sorted_inv). Qed.
Print Assumptions C09_flat_set_comparator_constructors_sorted_inv.

(** Histories that do not use the two constructors are exactly the histories of Properties_cmp.v. *)
Theorem C09_comparator_constructors_extend_stored_comparator :
  forall (A : Type) (lt0 : A -> A -> bool) (cap : nat) (ops : list (op A)) (s : st2 A),
  run3 lt0 cap s (map (@Plain A) ops) = run2 lt0 cap s ops.
Proof. exact (@run3_plain). Qed.
Print Assumptions C09_comparator_constructors_extend_stored_comparator.

(* an ascending set is re-assigned from a range with the DESCENDING comparator, modified, swapped with
   the (descending) partner, re-assigned from a sorted range with the descending comparator while
   Compare() is ascending, and finally from a range without a comparator (ascending again) *)
Example C09_ctor_nonvacuous :
  cmps_ok cmp_less
    [Plain (Insert 1%Z); AssignIterCmp cmp_greater [2%Z; 5%Z; 2%Z; 0%Z]; Plain (Insert 3%Z); Plain Swap;
     AssignSortedIterCmp cmp_greater [4%Z; 1%Z]; Plain (EraseKey 4%Z); Plain (Insert 2%Z); Plain (AssignIter [3%Z; 0%Z])]
  /\ exists s2 tr2,
    s_run3 cmp_less 4 (init2 cmp_less cmp_greater)
      [Plain (Insert 1%Z); AssignIterCmp cmp_greater [2%Z; 5%Z; 2%Z; 0%Z]; Plain (Insert 3%Z); Plain Swap;
       AssignSortedIterCmp cmp_greater [4%Z; 1%Z]; Plain (EraseKey 4%Z); Plain (Insert 2%Z); Plain (AssignIter [3%Z; 0%Z])]
      = Some (s2, tr2)
    /\ elems (cur2 s2) = [0%Z; 3%Z] /\ elems (oth2 s2) = [5%Z; 3%Z; 2%Z; 0%Z] /\ length tr2 = 8
    /\ nth_error (map snd tr2) 6 = Some [2%Z; 1%Z].
Proof.
  destruct instances_ok as (Hl & Hg & _).
  split.
  - repeat (constructor; [first [exact Hl | exact Hg]|]). constructor.
  - eexists. eexists. split; [vm_compute; reflexivity|]. repeat split.
Qed.

(* the hypothesis of the invariant theorem is satisfiable: a sorted_unique constructor with the
   descending comparator is handed a descending container, then a call outside its domain *)
Example C09_ctor_inv_nonvacuous :
  hist_ok3 cmp_less 3 (init2 cmp_less cmp_greater)
    [AssignSortedIterCmp cmp_greater [5%Z; 3%Z]; Plain (Insert 4%Z); Plain (Replace [4%Z; 1%Z]); Plain (ErasePos 7)].
Proof.
  cbn [hist_ok3 ok3 ok2 ctor_cmp base_op]. split; [apply (proj1 (is_set_b_spec _ _)); reflexivity|].
  vm_compute fs_step3. cbn [fst snd is_contract]. right.
  split; [exact I|]. vm_compute fs_step3. cbn [fst snd is_contract]. right.
  split; [apply (proj1 (is_set_b_spec _ _)); reflexivity|]. vm_compute fs_step3. cbn [fst snd is_contract]. right.
  split; [exact I|]. vm_compute fs_step3. cbn [fst snd is_contract]. left. reflexivity.
Qed.

(* (review) the heterogeneous keys of the harness's second transparent comparator, etl::greater<>, satisfy the
   hypothesis of C09_lookup_heterogeneous_refines_std / C09_set_refines_std (cut_ok under the descending order),
   and a lookup through them on a descending set is in the theorems' domain *)
Example C09_tgreater_keys_nonvacuous :
  (forall v, cut_ok cmp_greater (point_cut_g v))
  /\ (forall lo hi, (lo <= hi)%Z -> cut_ok cmp_greater (band_cut_g lo hi))
  /\ ask StaticSet true (band_cut_g 2 3) [5%Z; 3%Z; 2%Z; 0%Z]
     = Ok {| a_find := 1; a_count := 2; a_contains := true; a_lower := 1; a_upper := 3; a_range := (1, 3) |}.
Proof. split; [exact point_cut_g_ok|]. split; [exact band_cut_g_ok|]. vm_compute. reflexivity. Qed.
