(* C09 proofs, element level of the erase members (ModelMove.v) against the list level of Model.v. *)
From Tetl Require Import Lib.Base C06a.Model C06b.Model C09.Ops C09.Model C09.ModelMove C09.SpecMove.
From Tetl Require Lib.Arr C06a.P1_Common C09.Spec C09.ProofsOps.
From Coq Require Import Arith Lia.
Ltac Zify.zify_post_hook ::= Z.to_euclidean_division_equations.

Section MoveProofs.
Context {A : Type}.
Local Notation cell := (ModelMove.cell A).

Lemma put_mid (P : list cell) x R c : put (P ++ x :: R) (length P) c = P ++ c :: R.
Proof. induction P as [|y P IH]; cbn [app length put]; [reflexivity|]. rewrite IH. reflexivity. Qed.

Lemma nth_mid (P : list cell) x R : nth (length P) (P ++ x :: R) (@Moved A) = x.
Proof. rewrite app_nth2 by lia. rewrite Nat.sub_diag. reflexivity. Qed.

Lemma put_length (v : list cell) i c : length (put v i c) = length v.
Proof. revert i; induction v as [|y v IH]; intros [|i]; cbn [put length]; try reflexivity. rewrite IH. reflexivity. Qed.

(* one move assignment across a gap: the cell behind the gap lands on the gap's first cell and is left moved-from *)
Lemma move_assign_gap (P : list cell) h H0 x R :
  move_assign (P ++ (h :: H0) ++ x :: R) (length P) (length P + S (length H0))
  = (P ++ [x]) ++ (H0 ++ [Moved]) ++ R.
Proof.
  unfold move_assign.
  replace (P ++ (h :: H0) ++ x :: R) with ((P ++ h :: H0) ++ x :: R) by (rewrite <- app_assoc; reflexivity).
  replace (length P + S (length H0)) with (length (P ++ h :: H0)) by (rewrite app_length; reflexivity).
  rewrite nth_mid.
  replace ((P ++ h :: H0) ++ x :: R) with (P ++ h :: (H0 ++ x :: R)) by (rewrite <- app_assoc; reflexivity).
  rewrite put_mid.
  replace (P ++ x :: H0 ++ x :: R) with ((P ++ x :: H0) ++ x :: R) by (rewrite <- app_assoc; reflexivity).
  replace (length (P ++ h :: H0)) with (length (P ++ x :: H0)) by (rewrite !app_length; reflexivity).
  rewrite put_mid. rewrite <- !app_assoc. reflexivity.
Qed.

(* the forward move loop over a gap H (at least one cell wide): the cells R behind the gap arrive in front of it,
   one assignment each; what is left in the gap-sized tail is dropped by the caller *)
Lemma move_loop_spec : forall (R P H : list cell) cnt, H <> [] ->
  exists H', length H' = length H /\
    move_loop (length R) (P ++ H ++ R) (length P + length H) (length P) cnt = (P ++ R ++ H', cnt + length R).
Proof.
  induction R as [|x R IH]; intros P H cnt HH.
  - exists H. split; [reflexivity|]. cbn [length move_loop app]. rewrite app_nil_r, Nat.add_0_r. reflexivity.
  - destruct H as [|h H0]; [contradiction|]. cbn [length move_loop].
    assert (E1 : move_assign (P ++ (h :: H0) ++ x :: R) (length P) (length P + S (length H0))
                 = (P ++ [x]) ++ (H0 ++ [Moved]) ++ R).
    { unfold move_assign.
      replace (P ++ (h :: H0) ++ x :: R) with ((P ++ h :: H0) ++ x :: R) by (rewrite <- app_assoc; reflexivity).
      replace (length P + S (length H0)) with (length (P ++ h :: H0)) by (rewrite app_length; reflexivity).
      rewrite nth_mid.
      replace ((P ++ h :: H0) ++ x :: R) with (P ++ h :: (H0 ++ x :: R)) by (rewrite <- app_assoc; reflexivity).
      rewrite put_mid.
      replace (P ++ x :: H0 ++ x :: R) with ((P ++ x :: H0) ++ x :: R) by (rewrite <- app_assoc; reflexivity).
      replace (length (P ++ h :: H0)) with (length (P ++ x :: H0)) by (rewrite !app_length; reflexivity).
      rewrite put_mid. rewrite <- !app_assoc. reflexivity. }
    rewrite E1.
    destruct (IH (P ++ [x]) (H0 ++ [Moved]) (S cnt)) as (H' & L' & E2).
    { intros E. apply (f_equal (@length _)) in E. rewrite app_length in E. cbn in E. lia. }
    exists H'. split.
    + rewrite L', app_length. cbn [length]. lia.
    + replace (S (length P + S (length H0))) with (length (P ++ [x]) + length (H0 ++ [Moved]))
        by (rewrite !app_length; cbn [length]; lia).
      replace (S (length P)) with (length (P ++ [x])) by (rewrite app_length; cbn [length]; lia).
      rewrite E2. rewrite <- !app_assoc. cbn [app]. f_equal. lia.
Qed.

Lemma live_length (l : list A) : length (live l) = length l.
Proof. apply map_length. Qed.

(** static_vector::erase(first, last) on element objects that are all alive = the list-level member of Model.v:
    the same precondition outcomes, the same position, every remaining element alive with its value, and
    exactly one move assignment per element behind the range -- none at all for an empty range *)
Theorem sv_erase_m_live (l : list A) a b :
  sv_erase_m (live l) a b =
  match sv_erase l a b with
  | Some (l', p) => Some (live l', p, if a =? b then 0 else length l - b)
  | None => None
  end.
Proof.
  unfold sv_erase_m, sv_erase. rewrite live_length.
  destruct ((a <=? length l) && (b <=? length l) && (a <=? b)) eqn:C; [|reflexivity].
  apply andb_prop in C. destruct C as [C Hab]. apply andb_prop in C. destruct C as [Ha Hb].
  apply Nat.leb_le in Ha, Hb, Hab.
  destruct (Nat.eqb_spec a b) as [E|NE].
  - subst b. rewrite firstn_skipn. reflexivity.
  - set (P := firstn a l). set (H := firstn (b - a) (skipn a l)). set (R := skipn b l).
    assert (EL : l = P ++ H ++ R).
    { unfold P, H, R. rewrite <- (firstn_skipn a l) at 1. f_equal.
      rewrite <- (firstn_skipn (b - a) (skipn a l)) at 1. f_equal.
      rewrite Lib.Arr.skipn_skipn. f_equal. lia. }
    assert (LP : length P = a) by (unfold P; rewrite firstn_length; lia).
    assert (LH : length H = b - a) by (unfold H; rewrite firstn_length, skipn_length; lia).
    assert (LR : length R = length l - b) by (unfold R; rewrite skipn_length; lia).
    destruct (move_loop_spec (live R) (live P) (live H) 0) as (H' & L' & E).
    { intros E. apply (f_equal (@length _)) in E. rewrite live_length in E. cbn in E. lia. }
    rewrite !live_length in E. rewrite LP, LH in E. replace (a + (b - a)) with b in E by lia.
    assert (ELive : live l = live P ++ live H ++ live R).
    { unfold live. rewrite <- !map_app. f_equal. exact EL. }
    rewrite ELive. rewrite <- LR. rewrite E. cbn [fst snd].
    replace (length l - (b - a)) with (length (live P ++ live R)) by (rewrite app_length, !live_length; lia).
    rewrite app_assoc, firstn_app, firstn_all, Nat.sub_diag. cbn [firstn]. rewrite app_nil_r.
    unfold live. rewrite <- map_app. reflexivity.
Qed.

Theorem sv_erase_pos_m_live (l : list A) p :
  sv_erase_pos_m (live l) p =
  match sv_erase_pos l p with
  | Some (l', q) => Some (live l', q, length l - S p)
  | None => None
  end.
Proof.
  unfold sv_erase_pos_m, sv_erase_pos. rewrite live_length.
  destruct (p <=? length l); [|reflexivity].
  rewrite sv_erase_m_live. destruct (sv_erase l p (S p)) as [[l' q]|]; [|reflexivity].
  destruct (Nat.eqb_spec p (S p)) as [E|_]; [lia|reflexivity].
Qed.

(** an erase of an empty range touches nothing, whatever state the element objects are in *)
Theorem sv_erase_m_empty_range (v : list cell) a : a <= length v -> sv_erase_m v a a = Some (v, a, 0).
Proof.
  intros H. unfold sv_erase_m.
  replace (a <=? length v) with true by (symmetry; apply Nat.leb_le; exact H).
  rewrite Nat.leb_refl, Nat.eqb_refl. reflexivity.
Qed.

(* a list-level erase that does not shrink the vector was the erase of an empty range *)
Lemma sv_erase_same_length (l : list A) a b l' p :
  sv_erase l a b = Some (l', p) -> length l' = length l -> a = b /\ l' = l.
Proof.
  unfold sv_erase. destruct ((a <=? length l) && (b <=? length l) && (a <=? b)) eqn:C; [|discriminate].
  apply andb_prop in C. destruct C as [C Hab]. apply andb_prop in C. destruct C as [Ha Hb].
  apply Nat.leb_le in Ha, Hb, Hab. intros E L. injection E as E1 E2. subst l' p.
  rewrite app_length, firstn_length, skipn_length in L.
  assert (a = b) by lia. subst b. split; [reflexivity|apply firstn_skipn].
Qed.

Lemma sv_erase_pos_shrinks (l : list A) p l' q : sv_erase_pos l p = Some (l', q) -> length l' <> length l.
Proof.
  unfold sv_erase_pos. destruct (p <=? length l); [|discriminate]. intros E L.
  destruct (sv_erase_same_length _ _ _ _ _ E L) as [F _]. lia.
Qed.


(** * etl::remove_if / erase_if on element objects *)
Section RemoveIfM.
Variable p : A -> bool.
Local Notation keep := (filter (fun x => negb (p x))).

(* the invariant of C06a.P1_RemoveIf on K ++ G ++ R, with element objects: K = kept so far (alive), G = the
   non-empty gap (stale or moved-from cells), R = still to be read (alive, never assigned to before it is read) *)
Lemma remove_if_loop_m_decomp : forall (R : list A) fuel (K G : list cell) i m,
  length R < fuel -> G <> [] -> S i = length K + length G ->
  exists G', length G' = length G + length R - length (keep R) /\
    remove_if_loop_m fuel p (K ++ G ++ map (@Live A) R) (length K) i (length K + length G + length R) m
    = Ok ((K ++ map (@Live A) (keep R)) ++ G', length K + length (keep R), m + length (keep R)).
Proof.
  induction R as [|x R IH]; intros fuel K G i m Hf HG Hi.
  - destruct fuel as [|k]; [cbn [length] in Hf; lia|]. cbn [remove_if_loop_m length filter map].
    destruct (Nat.eqb_spec (S i) (length K + length G + 0)) as [E|E]; [|lia].
    exists G. split; [lia|]. rewrite !app_nil_r, !Nat.add_0_r. reflexivity.
  - destruct fuel as [|k]; [cbn [length] in Hf; lia|]. cbn [length] in Hf. cbn [remove_if_loop_m length map].
    destruct (Nat.eqb_spec (S i) (length K + length G + S (length R))) as [E|E]; [lia|].
    assert (Hn : nth (S i) (K ++ G ++ Live x :: map (@Live A) R) (@Moved A) = Live x).
    { replace (K ++ G ++ Live x :: map (@Live A) R) with ((K ++ G) ++ Live x :: map (@Live A) R)
        by (rewrite <- app_assoc; reflexivity).
      replace (S i) with (length (K ++ G)) by (rewrite app_length; lia). apply nth_mid. }
    rewrite Hn. cbn [filter]. destruct (p x) eqn:Ex; cbn [negb].
    + destruct (IH k K (G ++ [Live x]) (S i) m) as (G' & L' & E2).
      { lia. }
      { intros Q. apply (f_equal (@length _)) in Q. rewrite app_length in Q. cbn [length] in Q. lia. }
      { rewrite app_length. cbn [length]. lia. }
      exists G'. split; [rewrite L', app_length; cbn [length]; lia|].
      replace (K ++ G ++ Live x :: map (@Live A) R) with (K ++ (G ++ [Live x]) ++ map (@Live A) R)
        by (rewrite <- !app_assoc; reflexivity).
      replace (length K + length G + S (length R)) with (length K + length (G ++ [Live x]) + length R)
        by (rewrite app_length; cbn [length]; lia).
      exact E2.
    + destruct G as [|g G0]; [contradiction|]. cbn [length] in Hi.
      replace (S i) with (length K + S (length G0)) by lia.
      rewrite move_assign_gap.
      destruct (IH k (K ++ [Live x]) (G0 ++ [Moved]) (length K + S (length G0)) (S m)) as (G' & L' & E2).
      { lia. }
      { intros Q. apply (f_equal (@length _)) in Q. rewrite app_length in Q. cbn [length] in Q. lia. }
      { rewrite !app_length. cbn [length]. lia. }
      exists G'. split; [rewrite L', app_length; cbn [length]; lia|].
      replace (S (length K)) with (length (K ++ [Live x])) by (rewrite app_length; cbn [length]; lia).
      replace (length K + length (g :: G0) + S (length R))
        with (length (K ++ [Live x]) + length (G0 ++ [Moved]) + length R)
        by (rewrite !app_length; cbn [length]; lia).
      rewrite E2. cbn [map length]. rewrite <- !app_assoc. cbn [app]. rewrite app_length. cbn [length].
      f_equal. f_equal; [f_equal|]; lia.
Qed.

(** etl::remove_if on a vector whose elements are alive: the kept elements, alive and in order, in front of the
    returned position; one move assignment per kept element behind the first removed one; NO assignment when
    nothing is removed *)
Theorem remove_if_m_live (l : list A) :
  exists G' m,
    remove_if_m p l = Ok (live (keep l) ++ G', length (keep l), m)
    /\ length G' = length l - length (keep l)
    /\ (length (keep l) = length l -> m = 0).
Proof.
  unfold remove_if_m, live.
  destruct (C06a.P1_Common.find_if_from_spec p l 0) as [(H1 & H2)|(K & g & R & H1 & H2 & H3 & H5)].
  - assert (H2' : keep l = l).
    { apply C06a.P1_Common.filter_all_true. eapply Forall_impl; [|exact H2]. cbn beta. intros a ->. reflexivity. }
    rewrite H1, H2'. cbn [Nat.add]. rewrite Nat.eqb_refl. exists [], 0. rewrite app_nil_r, Nat.sub_diag.
    repeat split.
  - rewrite H2. cbn [Nat.add]. subst l.
    assert (H3' : keep K = K).
    { apply C06a.P1_Common.filter_all_true. eapply Forall_impl; [|exact H3]. cbn beta. intros a ->. reflexivity. }
    rewrite filter_app, H3'. cbn [filter]. rewrite H5. cbn [negb].
    rewrite !app_length. cbn [length].
    destruct (Nat.eqb_spec (length K) (length K + S (length R))) as [E|E]; [lia|].
    destruct (remove_if_loop_m_decomp R (S (length K + S (length R))) (map (@Live A) K) [Live g] (length K) 0)
      as (G' & HG' & Hrun).
    { lia. }
    { discriminate. }
    { rewrite map_length. cbn [length]. lia. }
    cbn [length] in HG'. rewrite map_length in Hrun.
    exists G', (length (keep R)). split; [|split].
    + rewrite map_app. cbn [map].
      cbn [app length] in Hrun.
      replace (length K + 1 + length R) with (length K + S (length R)) in Hrun by lia.
      rewrite Hrun, map_app. reflexivity.
    + pose proof (C06a.P1_Common.filter_length_le (fun x => negb (p x)) R). lia.
    + pose proof (C06a.P1_Common.filter_length_le (fun x => negb (p x)) R). lia.
Qed.

(** erase_if(flat_set&, pred) on a set whose elements are alive: the kept elements, alive, in order; no
    assignment at all when nothing is removed *)
Theorem fs_erase_if_m_live (l : list A) :
  exists m, fs_erase_if_m l p = Ok (Some (live (keep l), m)) /\ (length (keep l) = length l -> m = 0).
Proof.
  destruct (remove_if_m_live l) as (G' & m & E & LG & M0).
  exists m. split; [|exact M0].
  unfold fs_erase_if_m. rewrite E. cbn [rbind fst snd].
  pose proof (C06a.P1_Common.filter_length_le (fun x => negb (p x)) l) as Hle.
  unfold sv_erase_m. rewrite app_length, live_length.
  replace ((length (keep l) <=? length (keep l) + length G')
           && (length (keep l) + length G' <=? length (keep l) + length G')
           && (length (keep l) <=? length (keep l) + length G')) with true
    by (symmetry; rewrite !andb_true_iff, !Nat.leb_le; lia).
  destruct (Nat.eqb_spec (length (keep l)) (length (keep l) + length G')) as [Z|NZ].
  - destruct G' as [|c G'']; [|cbn [length] in Z; lia]. rewrite app_nil_r, Nat.add_0_r. reflexivity.
  - rewrite Nat.sub_diag. cbn [move_loop fst snd].
    replace (length (keep l) + length G' - (length (keep l) + length G' - length (keep l)))
      with (length (live (keep l)) + 0) by (rewrite live_length; lia).
    rewrite firstn_app_2. cbn [firstn]. rewrite app_nil_r, Nat.add_0_r. reflexivity.
Qed.

End RemoveIfM.

Lemma filter_length_lt_of_false (f : A -> bool) (l : list A) x :
  In x l -> f x = false -> length (filter f l) < length l.
Proof.
  induction l as [|y l IH]; intros Hin Hf; [contradiction|]. cbn [filter length].
  pose proof (C06a.P1_Common.filter_length_le f l) as Hle.
  destruct Hin as [->|Hin].
  - rewrite Hf. lia.
  - specialize (IH Hin Hf). destruct (f y); cbn [length]; lia.
Qed.

Variable lt : A -> A -> bool.

(* the erase calls of the history alphabet (erase_if exists for flat_set only) *)
Definition is_erase_call (k : kind) (o : Ops.op A) : bool :=
  match o with
  | EraseKey _ | ErasePos _ | EraseRange _ _ => true
  | EraseIf _ => match k with FlatSet => true | StaticSet => false end
  | _ => false
  end.

(** every erase call of the history alphabet, on a set whose element objects are
    alive: the element level agrees with the history model of Model.v (contract exactly when it reports one,
    afterwards every element alive with the value Model.v computes), and a call that removed nothing performed
    NO move assignment and left the contents as they were *)
Theorem erase_cells_refines (k : kind) (cap : nat) (s s' : Ops.st A) (o : Ops.op A) (r : out A) :
  is_erase_call k o = true ->
  step lt k cap s o = Ok (s', r) ->
  if is_contract r then erase_cells lt k (cur s) o = Ok (Some None)
  else exists m, erase_cells lt k (cur s) o = Ok (Some (Some (live (cur s'), m)))
                 /\ (length (cur s') = length (cur s) -> m = s_erase_nothing_touched /\ cur s' = cur s).
Proof.
  intros Ho Hs. destruct o; try discriminate Ho.
  - (* EraseKey *)
    destruct k; cbn [step ss_step fs_step] in Hs.
    + unfold ss_erase_key in Hs. cbn [erase_cells]. unfold ss_erase_key_m.
      destruct (lb_g (key_cut lt k0) (cur s)) as [p| | |]; cbn [rbind] in Hs |- *; try discriminate Hs.
      destruct (nth_error (cur s) p) as [e|].
      * destruct (negb (lt k0 e)).
        -- rewrite sv_erase_pos_m_live. unfold done.
           destruct (sv_erase_pos (cur s) p) as [[l' q]|] eqn:E; cbn [rbind fst snd] in Hs |- *;
             injection Hs as Hs1 Hs2; subst s' r; cbn [is_contract upd cur fst snd].
           ++ eexists. split; [reflexivity|]. intros L. exfalso. exact (sv_erase_pos_shrinks _ _ _ _ E L).
           ++ reflexivity.
        -- cbn [rbind] in Hs |- *. injection Hs as Hs1 Hs2; subst s' r. cbn [is_contract upd cur fst snd].
           exists 0. split; [reflexivity|]. intros _. split; reflexivity.
      * cbn [rbind] in Hs |- *. injection Hs as Hs1 Hs2; subst s' r. cbn [is_contract upd cur fst snd].
        exists 0. split; [reflexivity|]. intros _. split; reflexivity.
    + unfold fs_erase_key in Hs. cbn [erase_cells]. unfold fs_erase_key_m.
      destruct (equal_range_g (key_cut lt k0) (cur s)) as [[a b]| | |]; cbn [rbind fst snd] in Hs |- *; try discriminate Hs.
      rewrite sv_erase_m_live. unfold done.
      destruct (sv_erase (cur s) a b) as [[l' q]|] eqn:E; cbn [rbind fst snd] in Hs |- *;
        injection Hs as Hs1 Hs2; subst s' r; cbn [is_contract upd cur fst snd].
      * eexists. split; [reflexivity|]. intros L. destruct (sv_erase_same_length _ _ _ _ _ E L) as [F G].
        subst b. rewrite Nat.eqb_refl. split; [reflexivity|exact G].
      * reflexivity.
  - (* ErasePos *)
    assert (Hs2 : Ok (upd s (set_erase_pos (cur s) p)) = Ok (s', r)) by (destruct k; exact Hs). clear Hs.
    cbn [erase_cells]. rewrite sv_erase_pos_m_live. unfold done, set_erase_pos in *.
    destruct (sv_erase_pos (cur s) p) as [[l' q]|] eqn:E; cbn [rbind fst snd] in Hs2 |- *;
      injection Hs2 as Hs1 Hs2; subst s' r; cbn [is_contract upd cur fst snd].
    + eexists. split; [reflexivity|]. intros L. exfalso. exact (sv_erase_pos_shrinks _ _ _ _ E L).
    + reflexivity.
  - (* EraseRange *)
    assert (Hs2 : Ok (upd s (set_erase_range (cur s) a b)) = Ok (s', r)) by (destruct k; exact Hs). clear Hs.
    cbn [erase_cells]. rewrite sv_erase_m_live. unfold done, set_erase_range in *.
    destruct (sv_erase (cur s) a b) as [[l' q]|] eqn:E; cbn [rbind fst snd] in Hs2 |- *;
      injection Hs2 as Hs1 Hs2; subst s' r; cbn [is_contract upd cur fst snd].
    + eexists. split; [reflexivity|]. intros L. destruct (sv_erase_same_length _ _ _ _ _ E L) as [F G].
      subst b. rewrite Nat.eqb_refl. split; [reflexivity|exact G].
    + reflexivity.
  - (* EraseIf: flat_set only *)
    destruct k; [discriminate Ho|]. cbn [step fs_step] in Hs.
    rewrite C09.ProofsOps.fs_erase_if_ok in Hs. cbn [rbind] in Hs. injection Hs as Hs1 Hs2. subst s' r.
    unfold C09.Spec.s_erase_if. cbn [is_contract upd cur fst snd erase_cells].
    destruct (fs_erase_if_m_live pred (cur s)) as (m & E & M0). rewrite E. cbn [rbind].
    exists m. split; [reflexivity|]. intros L. split; [exact (M0 L)|].
    apply C06a.P1_Common.filter_all_true. apply Forall_forall. intros x Hx.
    destruct (negb (pred x)) eqn:Q; [reflexivity|]. exfalso.
    pose proof (filter_length_lt_of_false (fun e => negb (pred e)) _ _ Hx Q). lia.
Qed.

(* what the harness prints *)
Corollary erase_touched_nothing (k : kind) (cap : nat) (s s' : Ops.st A) (o : Ops.op A) (r : out A) :
  is_erase_call k o = true ->
  step lt k cap s o = Ok (s', r) -> is_contract r = false -> length (cur s') = length (cur s) ->
  erase_touched lt k (cur s) o = Ok (Some s_erase_nothing_touched)
  /\ erase_cells lt k (cur s) o = Ok (Some (Some (s_erase_nothing_cells (live (cur s)), s_erase_nothing_touched))).
Proof.
  intros Ho Hs Hc L. pose proof (erase_cells_refines k cap s s' o r Ho Hs) as H. rewrite Hc in H.
  destruct H as (m & E & F). destruct (F L) as [M G]. subst m. unfold erase_touched. rewrite E, G.
  cbn [rbind]. split; reflexivity.
Qed.

End MoveProofs.

(** the guard is needed: without `if (first != last)` the erase of an empty range in the middle of a vector
    self-move-assigns every element behind it *)
Lemma unguarded_clobbers :
  sv_erase_unguarded (live [1; 2; 3]) 1 1 = Some ([Live 1; Moved; Moved], 1, 2).
Proof. reflexivity. Qed.
