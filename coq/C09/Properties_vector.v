(* C09, the backing vector: Model.v treats etl::static_vector at its observable level (a list of
   elements).  For int elements this is justified against the slot-level model of static_vector of
   the C01 package (C01/Model.v: buffer + stored size, wrapping size arithmetic, the real move and
   rotate loops): every vector member the sets call computes, on a vector holding the list l, a
   vector holding exactly the list the C09 model computes, and reports a contract violation exactly
   when the C09 model does. *)
From Tetl Require Import Lib.Base C06a.Model.
From Tetl Require C01.Model C01.ProofsBase.
From Tetl Require Import C09.Ops C09.Model C09.ProofsVector.

Theorem C09_backing_vector_is_static_vector :
  forall (c : nat) (v : C01.Model.vec) (l : list Z),
  C01.ProofsBase.cap_ok c -> C01.ProofsBase.repr c v l ->
  (* erase(first, last) *)
  (forall a b,
     match sv_erase l a b with
     | Some (l', p) => p = a /\ exists v', C01.Model.erase_range v (Z.of_nat a) (Z.of_nat b) = Ok v'
                                           /\ C01.ProofsBase.repr c v' l'
     | None => C01.Model.erase_range v (Z.of_nat a) (Z.of_nat b) = Contract
     end)
  (* erase(position) *)
  /\ (forall p,
     match sv_erase_pos l p with
     | Some (l', q) => q = p /\ exists v', C01.Model.erase_at v (Z.of_nat p) = Ok v' /\ C01.ProofsBase.repr c v' l'
     | None => C01.Model.erase_at v (Z.of_nat p) = Contract
     end)
  (* emplace(position, x): append + rotate; the !full() precondition *)
  /\ (forall p x, p <= length l ->
       (length l < c -> exists l', append_rotate l p x = Ok l'
                        /\ exists v', C01.Model.emplace_at v (Z.of_nat p) x = Ok v' /\ C01.ProofsBase.repr c v' l')
       /\ (length l = c -> C01.Model.emplace_at v (Z.of_nat p) x = Contract))
  (* push_back(x) *)
  /\ (forall x,
       (length l < c -> exists v', C01.Model.push_back v x = Ok v' /\ C01.ProofsBase.repr c v' (l ++ [x]))
       /\ (length l = c -> C01.Model.push_back v x = Contract)).
Proof. exact backing_vector_is_static_vector. Qed.
Print Assumptions C09_backing_vector_is_static_vector.

Example C09_vector_nonvacuous :
  C01.ProofsBase.cap_ok 3 /\ C01.ProofsBase.repr 3 (C01.Model.empty_vec 3) [].
Proof. split; [reflexivity|apply vector_empty]. Qed.
