(* C09 proofs, part 4: (a) std::set without any capacity -- as long as no set along the history holds
   more than cap elements the bounded specification (hence the model) answers exactly like it;
   (b) what the specification's insert means in terms of membership; (c) flat_multiset(container) is
   std::multiset's insertion order. *)
From Tetl Require Import Lib.Base Lib.Arr C06a.Model C06a.Spec C06a.P2_Common C06a.P2_Gnome
  C09.Ops C09.Model C09.Spec C09.ProofsCore C09.ProofsOps C09.ProofsRun.
From Coq Require Import Arith Lia Sorting.Sorted Sorting.Permutation.
Ltac Zify.zify_post_hook ::= Z.to_euclidean_division_equations.

Section Plain.
Context {A : Type}.
Variable lt : A -> A -> bool.
Implicit Types (l : list A) (s : st A) (o : op A).

(** * (a) the unbounded specification; no hypothesis on lt is needed for this part *)
Lemma s_insert_shape x l :
  (snd (snd (s_insert lt x l)) = true /\ length (fst (s_insert lt x l)) = S (length l))
  \/ (snd (snd (s_insert lt x l)) = false /\ fst (s_insert lt x l) = l).
Proof.
  induction l as [|y l IH]; cbn [s_insert]; [left; split; reflexivity|].
  destruct (lt x y); [left; split; reflexivity|].
  destruct (lt y x); [|right; split; reflexivity].
  destruct (s_insert lt x l) as [t' [i b]]. cbn [fst snd length] in *.
  destruct IH as [[Hb Hl]|[Hb Hl]]; [left|right]; split; try assumption; [lia|congruence].
Qed.

Lemma s_insert_grows x l : length l <= length (fst (s_insert lt x l)).
Proof. destruct (s_insert_shape x l) as [[_ H]|[_ H]]; rewrite H; lia. Qed.

Lemma u_insert_all_grows ks : forall l, length l <= length (u_insert_all lt ks l).
Proof.
  induction ks as [|x t IH]; intros l; cbn [u_insert_all fold_left]; [lia|].
  eapply Nat.le_trans; [apply (s_insert_grows x l)|apply IH].
Qed.

(* an insert whose result fits was not refused *)
Lemma s_insert_bounded_fits cap x l : length (fst (s_insert lt x l)) <= cap ->
  s_insert_bounded lt cap x l
  = (fst (s_insert lt x l), SIns (fst (snd (s_insert lt x l))) (snd (snd (s_insert lt x l)))).
Proof.
  intros Hl. unfold s_insert_bounded.
  destruct (s_insert_shape x l) as [[Hb Hn]|[Hb Hn]];
    destruct (s_insert lt x l) as [l' [p b]]; cbn [fst snd] in *; subst b.
  - replace (length l =? cap) with false by (symmetry; apply Nat.eqb_neq; lia). reflexivity.
  - reflexivity.
Qed.

Lemma s_insert_range_fits_u k cap ks : forall l, length (u_insert_all lt ks l) <= cap ->
  s_insert_range lt k cap ks l = (u_insert_all lt ks l, SUnit).
Proof.
  induction ks as [|x t IH]; intros l Hl; cbn [s_insert_range u_insert_all fold_left] in *; [reflexivity|].
  assert (H1 : length (fst (s_insert lt x l)) <= cap).
  { eapply Nat.le_trans; [apply (u_insert_all_grows t)|exact Hl]. }
  rewrite (s_insert_bounded_fits cap x l H1).
  replace (fatal k (SIns _ _)) with false by (destruct k; reflexivity).
  apply IH. exact Hl.
Qed.

Lemma u_step_bounded k cap s o s2 r : u_step lt k s o = Some (s2, r) -> within cap o ->
  length (cur s2) <= cap -> s_step lt k cap s o = Some (s2, r).
Proof.
  unfold u_step, s_step. intros Hu Hw Hl.
  destruct (has_member k o); cbn [negb] in *; [|discriminate].
  destruct o as [x|x|h x|ks|ks|ks|x|p|a b|pred| | | |ks|ks| ]; cbn [within] in Hw; try exact Hu.
  - (* Insert *)
    inversion Hu; subst; clear Hu. cbn [updc cur fst] in Hl. rewrite (s_insert_bounded_fits cap x _ Hl). reflexivity.
  - (* Emplace *)
    inversion Hu; subst; clear Hu. cbn [updc cur fst] in Hl. rewrite (s_insert_bounded_fits cap x _ Hl). reflexivity.
  - (* InsertHint *)
    inversion Hu; subst; clear Hu. cbn [updc cur fst] in Hl. rewrite (s_insert_bounded_fits cap x _ Hl). reflexivity.
  - (* InsertRange *)
    inversion Hu; subst; clear Hu. cbn [updc cur fst] in Hl. rewrite (s_insert_range_fits_u k cap ks _ Hl). reflexivity.
  - (* Assign *)
    inversion Hu; subst; clear Hu. cbn [updc cur fst] in Hl.
    replace (length ks <=? cap) with true by (symmetry; apply Nat.leb_le; exact Hw).
    rewrite (s_insert_range_fits_u k cap ks _ Hl). reflexivity.
  - (* AssignSorted *)
    destruct (is_set_b lt ks); [|discriminate]. cbn [andb].
    replace (length ks <=? cap) with true by (symmetry; apply Nat.leb_le; exact Hw). exact Hu.
  - (* Replace *)
    destruct (is_set_b lt ks); [|discriminate]. cbn [andb].
    replace (length ks <=? cap) with true by (symmetry; apply Nat.leb_le; exact Hw). exact Hu.
  - (* AssignIter *)
    inversion Hu; subst; clear Hu. cbn [updc cur fst] in Hl.
    rewrite (s_insert_range_fits_u k cap ks _ Hl). cbn [snd fst].
    replace (fatal k SUnit) with false by (destruct k; reflexivity). reflexivity.
Qed.

(* nothing is ever refused along an unbounded history *)
Lemma u_step_not_full k s o s2 r : u_step lt k s o = Some (s2, r) -> r <> SFull.
Proof.
  unfold u_step. destruct (has_member k o); cbn [negb]; [|discriminate].
  destruct o; intros H;
    repeat match type of H with
           | context [match ?e with _ => _ end] => destruct e
           | context [if ?e then _ else _] => destruct e
           end;
    inversion H; subst; cbn [updc snd]; try discriminate;
    match goal with |- context [match ?e with _ => _ end] => destruct e; discriminate | _ => idtac end.
Qed.

Lemma u_run_bounded k cap ops : forall s s2 tr2,
  u_run lt k s ops = Some (s2, tr2) -> Forall (within cap) ops ->
  Forall (fun e => length (snd e) <= cap) tr2 ->
  s_run lt k cap s ops = Some (s2, tr2).
Proof.
  induction ops as [|o t IH]; intros s s2 tr2 Hu Hw Hl; cbn [u_run s_run] in *; [exact Hu|].
  destruct (u_step lt k s o) as [[s1 r]|] eqn:Eu; [|discriminate].
  destruct (u_run lt k s1 t) as [[s3 rs]|] eqn:Er; [|discriminate].
  inversion Hu; subst; clear Hu. inversion Hw; subst. inversion Hl; subst. cbn [snd] in *.
  rewrite (u_step_bounded k cap s o s1 r Eu) by assumption.
  assert (Hf : fatal k r = false).
  { pose proof (u_step_not_full k s o s1 r Eu) as Hn. destruct r, k; try reflexivity; contradiction Hn; reflexivity. }
  rewrite Hf. rewrite (IH s1 s2 rs Er) by assumption. reflexivity.
Qed.

(** * (c) the stable arrangement *)
Lemma ms_insert_eq x l : ms_insert lt x l = insert_sorted lt x l.
Proof. induction l as [|y l IH]; cbn [ms_insert insert_sorted]; [reflexivity|]. rewrite IH. reflexivity. Qed.

Lemma s_multiset_of_range_eq ks : s_multiset_of_range lt ks = stable_sort_spec lt ks.
Proof.
  unfold s_multiset_of_range, stable_sort_spec. generalize (@nil A).
  induction ks as [|x t IH]; intros acc; cbn [fold_left]; [reflexivity|]. rewrite ms_insert_eq. apply IH.
Qed.

End Plain.

Section Ordered.
Context {A : Type}.
Variable lt : A -> A -> bool.
Implicit Types (l : list A) (s : st A) (o : op A).

Hypothesis lt_irrefl : forall x, lt x x = false.
Hypothesis lt_trans : forall x y z, lt x y = true -> lt y z = true -> lt x z = true.
Hypothesis lt_incomp : forall x y z,
  lt x y = false -> lt y x = false -> lt y z = false -> lt z y = false -> lt x z = false.

Notation is_set := (is_set lt).

(* the model against std::set without capacity, as long as capacity is not exceeded *)
Theorem refines_unbounded_std k cap ops s2 tr2 :
  u_run lt k init ops = Some (s2, tr2) -> Forall (within cap) ops ->
  Forall (fun e => length (snd e) <= cap) tr2 ->
  run lt k cap init ops = Ok (s2, map (present_ev k) tr2)
  /\ Forall (fun e => fst e <> SFull) tr2.
Proof.
  intros Hu Hw Hl. split.
  - apply (refines_std lt lt_irrefl lt_trans lt_incomp k cap ops s2 tr2).
    apply u_run_bounded; assumption.
  - clear Hw Hl. revert tr2 s2 Hu. generalize (@init A).
    induction ops as [|o t IH]; intros s tr2 s2 Hu; cbn [u_run] in Hu.
    + inversion Hu; subst. constructor.
    + destruct (u_step lt k s o) as [[s1 r]|] eqn:Eu; [|discriminate].
      destruct (u_run lt k s1 t) as [[s3 rs]|] eqn:Er; [|discriminate].
      inversion Hu; subst. constructor; [cbn [fst]; eapply u_step_not_full; exact Eu|eapply IH; exact Er].
Qed.

(** * (b) what the specification's insert means *)
Theorem s_insert_meaning x l : is_set l ->
  let l' := fst (s_insert lt x l) in
  let p := fst (snd (s_insert lt x l)) in
  let b := snd (snd (s_insert lt x l)) in
  is_set l'
  /\ b = negb (existsb (eqv lt x) l)
  /\ (forall e, In e l' <-> In e l \/ (b = true /\ e = x))
  /\ (exists e, nth_error l' p = Some e /\ eqv lt x e = true /\ (b = true -> e = x)).
Proof.
  intros Hs. cbn zeta.
  destruct (insert_cases lt lt_irrefl lt_trans lt_incomp x l Hs)
    as (l1 & l3 & _ & [(E & _ & Hi & Hs')|(e & Hn & He1 & He2 & Hi)]); rewrite Hi; cbn [fst snd].
  - (* new key *)
    subst l. split; [exact Hs'|].
    assert (Hno : existsb (eqv lt x) (l1 ++ l3) = false).
    { destruct (existsb (eqv lt x) (l1 ++ l3)) eqn:Ee; [|reflexivity]. exfalso.
      apply existsb_exists in Ee. destruct Ee as (e & Hin & He). unfold eqv in He.
      apply andb_true_iff in He. destruct He as [He1 He2]. apply negb_true_iff in He1, He2.
      apply is_set_app in Hs'. destruct Hs' as (_ & H3 & H13).
      apply in_app_or in Hin. destruct Hin as [Hin|Hin].
      - rewrite Forall_forall in H13. specialize (H13 e Hin). inversion H13; subst. congruence.
      - apply is_set_cons in H3. destruct H3 as [H3 _]. rewrite Forall_forall in H3. specialize (H3 e Hin). congruence. }
    split; [rewrite Hno; reflexivity|]. split.
    + intros e. rewrite !in_app_iff. cbn [In]. split.
      * intros [H|[H|H]]; [left; left; exact H|right; split; [reflexivity|symmetry; exact H]|left; right; exact H].
      * intros [[H|H]|[_ H]]; [left; exact H|right; right; exact H|right; left; symmetry; exact H].
    + exists x. split; [|split; [|reflexivity]].
      * rewrite nth_error_app2 by lia. rewrite Nat.sub_diag. reflexivity.
      * unfold eqv. rewrite lt_irrefl. reflexivity.
  - (* an equivalent key is there *)
    split; [exact Hs|].
    assert (Hyes : existsb (eqv lt x) l = true).
    { apply existsb_exists. exists e. split; [eapply nth_error_In; exact Hn|]. unfold eqv. rewrite He1, He2. reflexivity. }
    split; [rewrite Hyes; reflexivity|]. split.
    + intros e'. split; [intros H; left; exact H|intros [H|[H _]]; [exact H|discriminate H]].
    + exists e. split; [exact Hn|]. split; [unfold eqv; rewrite He1, He2; reflexivity|discriminate].
Qed.

(* a set is determined by its members: the iteration order is not a choice *)
Theorem is_set_canonical l1 : forall l2, is_set l1 -> is_set l2 -> (forall e, In e l1 <-> In e l2) -> l1 = l2.
Proof.
  assert (asym : forall x y, lt x y = true -> lt y x = false).
  { intros x y H. destruct (lt y x) eqn:E; [|reflexivity].
    pose proof (lt_trans _ _ _ H E) as Hxx. rewrite lt_irrefl in Hxx. discriminate. }
  induction l1 as [|x t1 IH]; intros l2 H1 H2 Hm.
  - destruct l2 as [|y t2]; [reflexivity|]. exfalso. apply (Hm y). left. reflexivity.
  - destruct l2 as [|y t2]; [exfalso; apply (Hm x); left; reflexivity|].
    apply is_set_cons in H1, H2. destruct H1 as [F1 S1]. destruct H2 as [F2 S2].
    rewrite Forall_forall in F1, F2.
    assert (Exy : x = y).
    { destruct (proj1 (Hm x) (or_introl eq_refl)) as [E|Hin]; [symmetry; exact E|].
      destruct (proj2 (Hm y) (or_introl eq_refl)) as [E|Hin']; [exact E|].
      pose proof (F2 x Hin) as Hyx. pose proof (F1 y Hin') as Hxy. cbn beta in Hyx, Hxy. pose proof (asym _ _ Hyx). congruence. }
    subst y. f_equal. apply IH; [exact S1|exact S2|].
    intros e. split; intros Hin.
    + destruct (proj1 (Hm e) (or_intror Hin)) as [E|H]; [|exact H]. subst e.
      pose proof (F1 x Hin) as Hxx. cbn beta in Hxx. rewrite lt_irrefl in Hxx. discriminate.
    + destruct (proj2 (Hm e) (or_intror Hin)) as [E|H]; [|exact H]. subst e.
      pose proof (F2 x Hin) as Hxx. cbn beta in Hxx. rewrite lt_irrefl in Hxx. discriminate.
Qed.

(* flat_multiset(container) iterates exactly like std::multiset built from the same range *)
Theorem flat_multiset_is_std_multiset (input : list A) :
  fms_construct lt input = Ok (s_multiset_of_range lt input).
Proof.
  unfold fms_construct. rewrite s_multiset_of_range_eq.
  apply (gnome_sort_correct lt lt_irrefl lt_trans lt_incomp).
Qed.

End Ordered.
