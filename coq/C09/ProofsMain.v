(* C09: the theorems in the form Properties.v states them: for every element type and every
   comparator that is a strict weak order. *)
From Tetl Require Import Lib.Base C06a.Model C09.Ops C09.Model C09.Spec C09.Instances C09.ProofsCore C09.ProofsOps
  C09.ProofsRun C09.ProofsExtra.
From Coq Require Import Sorting.Sorted Sorting.Permutation.

Section Main.
Context {A : Type}.
Variable lt : A -> A -> bool.
Hypothesis Hswo : strict_weak lt.

Let Hi : forall x, lt x x = false := proj1 Hswo.
Let Ht : forall x y z, lt x y = true -> lt y z = true -> lt x z = true := proj1 (proj2 Hswo).
Let Hc : forall x y z, lt x y = false -> lt y x = false -> lt y z = false -> lt z y = false -> lt x z = false :=
  proj2 (proj2 Hswo).

Lemma main_sorted_unique_inv : forall k cap ops, Forall (op_ok lt k) ops ->
  exists s tr, run lt k cap init ops = Ok (s, tr)
    /\ is_set lt (cur s) /\ is_set lt (oth s) /\ length (cur s) <= cap /\ length (oth s) <= cap
    /\ Forall (fun e => is_set lt (snd e) /\ length (snd e) <= cap) tr.
Proof. exact (sorted_unique_inv lt Hi Ht Hc). Qed.

Lemma main_static_set_sorted_unique_inv : forall cap ops,
  exists s tr, run lt StaticSet cap init ops = Ok (s, tr)
    /\ is_set lt (cur s) /\ is_set lt (oth s) /\ length (cur s) <= cap /\ length (oth s) <= cap
    /\ Forall (fun e => is_set lt (snd e) /\ length (snd e) <= cap) tr.
Proof. exact (static_set_sorted_unique_inv lt Hi Ht Hc). Qed.

Lemma main_refines_std : forall k cap ops s2 tr2, s_run lt k cap init ops = Some (s2, tr2) ->
  run lt k cap init ops = Ok (s2, map (present_ev k) tr2)
  /\ is_set lt (cur s2) /\ is_set lt (oth s2)
  /\ (forall tr x, ask k tr (key_cut lt x) (cur s2) = Ok (s_ask (key_cut lt x) (cur s2)))
  /\ (forall c, cut_ok lt c -> ask k true c (cur s2) = Ok (s_ask c (cur s2))).
Proof. exact (refines_std lt Hi Ht Hc). Qed.

Lemma main_lookup_key : forall k tr x l, is_set lt l ->
  ask k tr (key_cut lt x) l = Ok (s_ask (key_cut lt x) l).
Proof. exact (ask_key lt Hi Ht Hc). Qed.

Lemma main_lookup_heterogeneous : forall k c l, is_set lt l -> cut_ok lt c ->
  ask k true c l = Ok (s_ask c l).
Proof. exact (ask_cut lt Hi Ht Hc). Qed.

Lemma main_out_of_domain : forall k cap s o, inv lt cap s -> op_ok lt k o -> has_member k o = true ->
  s_step lt k cap s o = None -> step lt k cap s o = Ok (s, OContract).
Proof. exact (out_of_domain_is_contract lt Hi Ht Hc). Qed.

Lemma main_insert_full_new_key : forall cap l x, is_set lt l -> length l = cap ->
  (forall e, In e l -> eqv lt x e = false) ->
  ss_insert lt cap l x = Ok (l, OIns None false) /\ fs_emplace lt cap l x = Ok (l, OContract).
Proof. exact (insert_full_new_key lt Hi Ht Hc). Qed.

Lemma main_insert_present_key : forall cap l x e, is_set lt l -> In e l -> eqv lt x e = true ->
  exists p, nth_error l p = Some e
    /\ ss_insert lt cap l x = Ok (l, OIns (Some p) false)
    /\ fs_emplace lt cap l x = Ok (l, OIns (Some p) false).
Proof. exact (insert_present_key lt Hi Ht Hc). Qed.

Lemma main_flat_multiset : forall input,
  exists l', fms_construct lt input = Ok l' /\ is_multiset_of lt input l'.
Proof. exact (flat_multiset_sorted_perm lt Hi Ht Hc). Qed.

(* one call from ANY pair of sets that satisfies the invariant (reachable or not) *)
Lemma main_step_total : forall k cap s o, inv lt cap s -> op_ok lt k o ->
  exists s' r', step lt k cap s o = Ok (s', r') /\ inv lt cap s' /\
    (s_step lt k cap s o = None -> has_member k o = true -> s' = s /\ r' = OContract) /\
    (forall s2 so, s_step lt k cap s o = Some (s2, so) -> s' = s2 /\ r' = present k so).
Proof.
  intros k cap s o Hinv Hok.
  destruct (step_total lt Hi Ht Hc k cap s o Hinv Hok) as (s' & r' & E & Hi' & Hn).
  exists s', r'. split; [exact E|]. split; [exact Hi'|]. split; [exact Hn|].
  intros s2 so Hs. destruct (step_refines lt Hi Ht Hc k cap s o s2 so Hinv Hs) as [E2 _].
  rewrite E in E2. inversion E2; subst. split; reflexivity.
Qed.

Lemma main_refines_unbounded_std : forall k cap ops s2 tr2,
  u_run lt k init ops = Some (s2, tr2) -> Forall (within cap) ops ->
  Forall (fun e => length (snd e) <= cap) tr2 ->
  run lt k cap init ops = Ok (s2, map (present_ev k) tr2)
  /\ Forall (fun e => fst e <> SFull) tr2.
Proof. exact (refines_unbounded_std lt Hi Ht Hc). Qed.

Lemma main_spec_insert_meaning : forall x l, is_set lt l ->
  let l' := fst (s_insert lt x l) in
  let p := fst (snd (s_insert lt x l)) in
  let b := snd (snd (s_insert lt x l)) in
  is_set lt l'
  /\ b = negb (existsb (eqv lt x) l)
  /\ (forall e, In e l' <-> In e l \/ (b = true /\ e = x))
  /\ (exists e, nth_error l' p = Some e /\ eqv lt x e = true /\ (b = true -> e = x)).
Proof. exact (s_insert_meaning lt Hi Ht Hc). Qed.

Lemma main_is_set_canonical : forall l1 l2, is_set lt l1 -> is_set lt l2 ->
  (forall e, In e l1 <-> In e l2) -> l1 = l2.
Proof. exact (is_set_canonical lt Hi Ht). Qed.

Lemma main_flat_multiset_is_std_multiset : forall input,
  fms_construct lt input = Ok (s_multiset_of_range lt input).
Proof. exact (flat_multiset_is_std_multiset lt Hi Ht Hc). Qed.

End Main.

(* the instances used for non-vacuity *)
Local Open Scope Z_scope.
Lemma ltb_strict_weak : strict_weak Z.ltb.
Proof.
  repeat split.
  - intros x. apply Z.ltb_irrefl.
  - intros x y z H1 H2. apply Z.ltb_lt in H1, H2. apply Z.ltb_lt. lia.
  - intros x y z H1 H2 H3 H4. apply Z.ltb_ge in H1, H2, H3, H4. apply Z.ltb_ge. lia.
Qed.

(* a comparator whose equivalence is coarser than equality *)
Lemma half_strict_weak : strict_weak (fun a b => Z.quot a 2 <? Z.quot b 2).
Proof.
  repeat split.
  - intros x. apply Z.ltb_irrefl.
  - intros x y z H1 H2. apply Z.ltb_lt in H1, H2. apply Z.ltb_lt. lia.
  - intros x y z H1 H2 H3 H4. apply Z.ltb_ge in H1, H2, H3, H4. apply Z.ltb_ge. lia.
Qed.

(* the comparators and heterogeneous keys the correspondence harness instantiates satisfy the
   hypotheses of the theorems *)
Lemma cmp_less_strict_weak : strict_weak cmp_less.
Proof. exact ltb_strict_weak. Qed.

Lemma cmp_greater_strict_weak : strict_weak cmp_greater.
Proof.
  unfold cmp_greater. repeat split.
  - intros x. apply Z.ltb_irrefl.
  - intros x y z H1 H2. apply Z.ltb_lt in H1, H2. apply Z.ltb_lt. lia.
  - intros x y z H1 H2 H3 H4. apply Z.ltb_ge in H1, H2, H3, H4. apply Z.ltb_ge. lia.
Qed.

Lemma cmp_half_strict_weak : strict_weak cmp_half.
Proof. exact half_strict_weak. Qed.

Lemma point_cut_ok v : cut_ok cmp_less (point_cut v).
Proof.
  unfold cut_ok, cmp_less, point_cut. cbn [below above]. repeat split.
  - intros a b H1 H2. apply Z.ltb_lt in H1, H2. apply Z.ltb_lt. lia.
  - intros a b H1 H2. apply Z.ltb_lt in H1, H2. apply Z.ltb_lt. lia.
  - intros a H. apply Z.ltb_lt in H. apply Z.ltb_ge. lia.
Qed.

Lemma band_cut_ok lo hi : lo <= hi -> cut_ok cmp_less (band_cut lo hi).
Proof.
  intros Hlh. unfold cut_ok, cmp_less, band_cut. cbn [below above]. repeat split.
  - intros a b H1 H2. apply Z.ltb_lt in H1, H2. apply Z.ltb_lt. lia.
  - intros a b H1 H2. apply Z.ltb_lt in H1, H2. apply Z.ltb_lt. lia.
  - intros a H. apply Z.ltb_lt in H. apply Z.ltb_ge. lia.
Qed.

Lemma instances_ok :
  strict_weak cmp_less /\ strict_weak cmp_greater /\ strict_weak cmp_half
  /\ (forall v, cut_ok cmp_less (point_cut v)) /\ (forall lo hi, lo <= hi -> cut_ok cmp_less (band_cut lo hi)).
Proof.
  split; [exact cmp_less_strict_weak|]. split; [exact cmp_greater_strict_weak|]. split; [exact cmp_half_strict_weak|].
  split; [exact point_cut_ok|exact band_cut_ok].
Qed.
