(* C09 proofs, part 2: every member function of the model against the specification, on a
   strictly sorted list: lookups, insert / emplace (append + rotate), the erase family, relations. *)
From Tetl Require Import Lib.Base Lib.Arr C06a.Model C06a.Spec C06a.RotateProof C06a.P1_RemoveIf
  C06b.Model C09.Ops C09.Model C09.Spec C09.ProofsCore.
From Coq Require Import Arith Lia Sorting.Sorted.
Ltac Zify.zify_post_hook ::= Z.to_euclidean_division_equations.

Section OpsProofs.
Context {A : Type}.
Variable lt : A -> A -> bool.
Implicit Types (l : list A) (c : cut A).

Hypothesis lt_irrefl : forall x, lt x x = false.
Hypothesis lt_trans : forall x y z, lt x y = true -> lt y z = true -> lt x z = true.
Hypothesis lt_incomp : forall x y z,
  lt x y = false -> lt y x = false -> lt y z = false -> lt z y = false -> lt x z = false.

Notation is_set := (is_set lt).
Notation cut_ok := (cut_ok lt).
Notation key_cut := (key_cut lt).
Notation cmp_asym := (ProofsCore.cmp_asym lt lt_irrefl lt_trans).
Notation cut_split := (cut_split lt).
Notation key_cut_ok := (key_cut_ok lt lt_irrefl lt_trans).
Notation key_split_le1 := (key_split_le1 lt lt_irrefl lt_trans lt_incomp).

(* the results of a member call as the containers report them *)
Definition present (k : kind) (o : sout A) : out A :=
  match o with
  | SIns p b => OIns (Some p) b
  | SFull => match k with StaticSet => OIns None false | FlatSet => OContract end
  | SPos p => OPos p
  | SCount n => OCount n
  | SUnit => OUnit
  | SElems l => OElems l
  end.

Lemma present_contract k o : is_contract (present k o) = fatal k o.
Proof. destruct o, k; reflexivity. Qed.

(** * lookups *)
Section Lookups.
Variables (c : cut A) (l l1 lm l3 : list A).
Hypothesis S3 : split3 c l l1 lm l3.

Lemma neq_end : negb (s_find c l =? length l) = s_contains c l.
Proof.
  rewrite (s_find_split _ _ _ _ _ S3), (s_contains_split _ _ _ _ _ S3).
  pose proof (sp_len _ _ _ _ _ S3) as L. clear S3.
  destruct lm as [|y t]; [rewrite Nat.eqb_refl; reflexivity|].
  cbn [length] in L. apply negb_true_iff, Nat.eqb_neq. lia.
Qed.

Lemma ss_contains_ok : ss_contains c l = Ok (s_contains c l).
Proof. unfold ss_contains, ss_find. rewrite (find_split _ _ _ _ _ S3). cbn [rbind]. rewrite neq_end. reflexivity. Qed.

Lemma fs_contains_t_ok : fs_contains_t c l = Ok (s_contains c l).
Proof. unfold fs_contains_t, fs_find. rewrite (find_split _ _ _ _ _ S3). cbn [rbind]. rewrite neq_end. reflexivity. Qed.

Lemma ss_count_t_ok : ss_count_t c l = Ok (s_count c l).
Proof.
  unfold ss_count_t. rewrite (ub_split _ _ _ _ _ S3), (lb_split _ _ _ _ _ S3). cbn [rbind].
  rewrite (s_count_split _ _ _ _ _ S3). f_equal. lia.
Qed.

Lemma fs_count_t_ok : fs_count_t c l = Ok (s_count c l).
Proof.
  unfold fs_count_t. rewrite (ub_split _ _ _ _ _ S3), (lb_split _ _ _ _ _ S3). cbn [rbind].
  rewrite (s_count_split _ _ _ _ _ S3). f_equal. lia.
Qed.

Hypothesis Hle1 : length lm <= 1.

Lemma count_contains : s_count c l = if s_contains c l then 1 else 0.
Proof.
  rewrite (s_count_split _ _ _ _ _ S3), (s_contains_split _ _ _ _ _ S3). clear S3.
  destruct lm as [|y [|z t]]; cbn [length] in *; try reflexivity. lia.
Qed.

Lemma ss_count_ok : ss_count c l = Ok (s_count c l).
Proof. unfold ss_count. rewrite ss_contains_ok. cbn [rbind]. rewrite count_contains. reflexivity. Qed.

Lemma fs_count_ok : fs_count c l = Ok (s_count c l).
Proof.
  unfold fs_count, fs_find. rewrite (find_split _ _ _ _ _ S3). cbn [rbind]. rewrite count_contains.
  rewrite <- neq_end. destruct (s_find c l =? length l); reflexivity.
Qed.

Lemma fs_contains_ok : fs_contains c l = Ok (s_contains c l).
Proof.
  unfold fs_contains. rewrite fs_count_ok. cbn [rbind]. rewrite count_contains.
  destruct (s_contains c l); reflexivity.
Qed.
End Lookups.

Lemma ask_split k tr c l l1 lm l3 : split3 c l l1 lm l3 -> (tr = false -> length lm <= 1) ->
  ask k tr c l = Ok (s_ask c l).
Proof.
  intros S3 Hle. unfold ask, s_ask. rewrite (find_split _ _ _ _ _ S3). cbn [rbind].
  assert (Hn : match k, tr with
               | StaticSet, false => ss_count c l | StaticSet, true => ss_count_t c l
               | FlatSet, false => fs_count c l | FlatSet, true => fs_count_t c l
               end = Ok (s_count c l)).
  { destruct k, tr; first [apply (ss_count_t_ok _ _ _ _ _ S3) | apply (fs_count_t_ok _ _ _ _ _ S3)
                          | apply (ss_count_ok _ _ _ _ _ S3); auto | apply (fs_count_ok _ _ _ _ _ S3); auto]. }
  rewrite Hn. cbn [rbind].
  assert (Hb : match k, tr with
               | StaticSet, _ => ss_contains c l
               | FlatSet, false => fs_contains c l | FlatSet, true => fs_contains_t c l
               end = Ok (s_contains c l)).
  { destruct k, tr; first [apply (ss_contains_ok _ _ _ _ _ S3) | apply (fs_contains_t_ok _ _ _ _ _ S3)
                          | apply (fs_contains_ok _ _ _ _ _ S3); auto]. }
  rewrite Hb. cbn [rbind].
  rewrite (lb_split _ _ _ _ _ S3), (ub_split _ _ _ _ _ S3), (equal_range_split _ _ _ _ _ S3). cbn [rbind].
  rewrite (s_lower_split _ _ _ _ _ S3), (s_upper_split _ _ _ _ _ S3). reflexivity.
Qed.

(* key_type keys, through either overload set *)
Lemma ask_key k tr x l : is_set l -> ask k tr (key_cut x) l = Ok (s_ask (key_cut x) l).
Proof.
  intros Hs. destruct (cut_split _ _ Hs (key_cut_ok x)) as (l1 & lm & l3 & S3).
  apply (ask_split k tr _ _ _ _ _ S3). intros _. apply (key_split_le1 x l l1 lm l3 Hs S3).
Qed.

(* heterogeneous keys, through the template overloads *)
Lemma ask_cut k c l : is_set l -> cut_ok c -> ask k true c l = Ok (s_ask c l).
Proof.
  intros Hs Hc. destruct (cut_split _ _ Hs Hc) as (l1 & lm & l3 & S3).
  apply (ask_split k true _ _ _ _ _ S3). discriminate.
Qed.

(** * insert: append + rotate is insertion at the lower bound *)
Lemma append_rotate_mid l1 l3 v : append_rotate (l1 ++ l3) (length l1) v = Ok (l1 ++ v :: l3).
Proof.
  unfold append_rotate. set (L := (l1 ++ l3) ++ [v]).
  assert (HL : length L = S (length (l1 ++ l3))) by (unfold L; rewrite app_length; cbn [length]; lia).
  rewrite rotate_correct; [|rewrite app_length; lia|lia|lia].
  cbn [rbind fst]. f_equal.
  assert (E1 : firstn (length l1) L = l1).
  { unfold L. rewrite <- app_assoc, firstn_app, Nat.sub_diag, firstn_all. cbn [firstn]. apply app_nil_r. }
  assert (E2 : sub L (length (l1 ++ l3)) (length L) = [v]).
  { rewrite HL. replace (S (length (l1 ++ l3))) with (length (l1 ++ l3) + length [v]) by (cbn [length]; lia).
    unfold L. rewrite <- (app_nil_r [v]) at 1. apply sub_app3. }
  assert (E3 : sub L (length l1) (length (l1 ++ l3)) = l3).
  { unfold L. rewrite <- app_assoc, app_length. apply sub_app3. }
  assert (E4 : skipn (length L) L = []) by apply skipn_all.
  rewrite E1, E2, E3, E4, app_nil_r. reflexivity.
Qed.

Lemma s_insert_new v l1 l3 :
  Forall (fun e => lt e v = true) l1 -> Forall (fun e => lt v e = true) l3 ->
  s_insert lt v (l1 ++ l3) = (l1 ++ v :: l3, (length l1, true)).
Proof.
  intros F1 F3. induction l1 as [|y l1 IH]; cbn [app length].
  - destruct l3 as [|e t]; [reflexivity|]. cbn [s_insert]. inversion F3; subst. rewrite H1. reflexivity.
  - inversion F1; subst. cbn [s_insert]. rewrite (cmp_asym _ _ H1), H1, (IH H2). reflexivity.
Qed.

Lemma s_insert_dup v l1 e l3 :
  Forall (fun y => lt y v = true) l1 -> lt e v = false -> lt v e = false ->
  s_insert lt v (l1 ++ e :: l3) = (l1 ++ e :: l3, (length l1, false)).
Proof.
  intros F1 H2 H3. induction l1 as [|y l1 IH]; cbn [app length].
  - cbn [s_insert]. rewrite H3, H2. reflexivity.
  - inversion F1; subst. cbn [s_insert]. rewrite (cmp_asym _ _ H1), H1, (IH H4). reflexivity.
Qed.

(* what both containers' insert share: the case analysis at the lower bound *)
Lemma insert_cases v l : is_set l ->
  exists l1 l3,
    lb_g (key_cut v) l = Ok (length l1) /\
    ( (l = l1 ++ l3 /\
       match nth_error l (length l1) with Some e => lt v e = true | None => True end /\
       s_insert lt v l = (l1 ++ v :: l3, (length l1, true)) /\ is_set (l1 ++ v :: l3))
      \/
      (exists e, nth_error l (length l1) = Some e /\ lt v e = false /\ lt e v = false /\
                 s_insert lt v l = (l, (length l1, false))) ).
Proof.
  intros Hs. destruct (cut_split _ _ Hs (key_cut_ok v)) as (l1 & lm & l3 & S3).
  pose proof (key_split_le1 v l l1 lm l3 Hs S3) as Hle.
  exists l1, l3. split; [apply (lb_split _ _ _ _ _ S3)|].
  pose proof (nth_lb _ _ _ _ _ S3) as Hn.
  pose proof (sp_eq _ _ _ _ _ S3) as E. pose proof (sp_1 _ _ _ _ _ S3) as F1.
  pose proof (sp_m _ _ _ _ _ S3) as Fm. pose proof (sp_3 _ _ _ _ _ S3) as F3. clear S3.
  assert (F1' : Forall (fun e => lt e v = true) l1).
  { eapply Forall_impl; [|exact F1]. cbn [below above Ops.key_cut]. tauto. }
  assert (F3' : Forall (fun e => lt v e = true) l3).
  { eapply Forall_impl; [|exact F3]. cbn [below above Ops.key_cut]. tauto. }
  destruct lm as [|e [|z t]]; cbn [length] in Hle; [| |lia].
  - left. cbn [app] in E. subst l. repeat split.
    + rewrite Hn. destruct l3 as [|e t]; cbn [hd_error]; [exact I|]. inversion F3'; subst. assumption.
    + apply s_insert_new; assumption.
    + apply is_set_app in Hs. destruct Hs as (H1 & H3 & H13). apply is_set_app. repeat split.
      * exact H1.
      * apply is_set_cons. split; assumption.
      * rewrite Forall_forall in *. intros a Ha. constructor; [apply F1'; exact Ha|apply H13; exact Ha].
  - right. exists e. inversion Fm as [|? ? [He1 He2] _]; subst. cbn [below above Ops.key_cut] in He1, He2.
    repeat split; [exact Hn|exact He2|exact He1|]. cbn [app]. apply s_insert_dup; assumption.
Qed.

Lemma s_insert_length v l : length (fst (s_insert lt v l)) <= S (length l).
Proof.
  induction l as [|y l IH]; cbn [s_insert fst length]; [lia|].
  destruct (lt v y); cbn [fst length]; [lia|]. destruct (lt y v); cbn [fst length]; [|lia].
  destruct (s_insert lt v l) as [t' [i b]]. cbn [fst length] in *. lia.
Qed.

Lemma s_insert_bounded_inv cap v l : is_set l -> length l <= cap ->
  is_set (fst (s_insert_bounded lt cap v l)) /\ length (fst (s_insert_bounded lt cap v l)) <= cap.
Proof.
  intros Hs Hl. unfold s_insert_bounded.
  destruct (insert_cases v l Hs) as (l1 & l3 & _ & [(E & _ & Hi & Hs')|(e & _ & _ & _ & Hi)]); rewrite Hi.
  - cbn [andb]. destruct (Nat.eqb_spec (length l) cap) as [Ec|Ec]; cbn [fst]; [tauto|].
    split; [exact Hs'|]. subst l. rewrite app_length in *. cbn [length]. lia.
  - cbn [andb fst]. tauto.
Qed.

Lemma ss_insert_ok cap v l : is_set l ->
  ss_insert lt cap l v
  = Ok (fst (s_insert_bounded lt cap v l), present StaticSet (snd (s_insert_bounded lt cap v l))).
Proof.
  intros Hs. unfold ss_insert, s_insert_bounded.
  destruct (insert_cases v l Hs) as (l1 & l3 & Hlb & [(E & Hn & Hi & _)|(e & Hn & He & _ & Hi)]);
    rewrite Hlb, Hi; cbn [rbind andb].
  - destruct (nth_error l (length l1)) as [e|]; [rewrite Hn|]; cbn [negb].
    + destruct (length l =? cap); cbn [negb fst snd present]; [reflexivity|].
      rewrite E, append_rotate_mid. reflexivity.
    + destruct (length l =? cap); cbn [negb fst snd present]; [reflexivity|].
      rewrite E, append_rotate_mid. reflexivity.
  - rewrite Hn, He. reflexivity.
Qed.

Lemma fs_emplace_ok cap v l : is_set l ->
  fs_emplace lt cap l v
  = Ok (fst (s_insert_bounded lt cap v l), present FlatSet (snd (s_insert_bounded lt cap v l))).
Proof.
  intros Hs. unfold fs_emplace, s_insert_bounded.
  destruct (insert_cases v l Hs) as (l1 & l3 & Hlb & [(E & Hn & Hi & _)|(e & Hn & He & _ & Hi)]);
    rewrite Hlb, Hi; cbn [rbind andb].
  - destruct (nth_error l (length l1)) as [e|]; [rewrite Hn|].
    + destruct (length l =? cap); cbn [fst snd present]; [reflexivity|].
      rewrite E, append_rotate_mid. reflexivity.
    + destruct (length l =? cap); cbn [fst snd present]; [reflexivity|].
      rewrite E, append_rotate_mid. reflexivity.
  - rewrite Hn, He. reflexivity.
Qed.

(** * range insert *)
Lemma s_insert_range_inv k cap ks : forall l, is_set l -> length l <= cap ->
  is_set (fst (s_insert_range lt k cap ks l)) /\ length (fst (s_insert_range lt k cap ks l)) <= cap.
Proof.
  induction ks as [|x t IH]; intros l Hs Hl; cbn [s_insert_range fst]; [tauto|].
  pose proof (s_insert_bounded_inv cap x l Hs Hl) as [H1 H2].
  destruct (s_insert_bounded lt cap x l) as [l' o]. cbn [fst] in *.
  destruct (fatal k o); cbn [fst]; [tauto|]. apply IH; assumption.
Qed.

Lemma ss_insert_range_ok cap ks : forall l, is_set l -> length l <= cap ->
  ss_insert_range lt cap l ks = Ok (fst (s_insert_range lt StaticSet cap ks l))
  /\ snd (s_insert_range lt StaticSet cap ks l) = SUnit.
Proof.
  induction ks as [|x t IH]; intros l Hs Hl; cbn [ss_insert_range s_insert_range]; [split; reflexivity|].
  rewrite ss_insert_ok by exact Hs. cbn [rbind fst].
  pose proof (s_insert_bounded_inv cap x l Hs Hl) as [H1 H2].
  destruct (s_insert_bounded lt cap x l) as [l' o]. cbn [fst snd] in *.
  replace (fatal StaticSet o) with false by (destruct o; reflexivity). apply IH; assumption.
Qed.

Lemma fs_insert_range_ok cap ks : forall l, is_set l -> length l <= cap ->
  fs_insert_range lt cap l ks
  = Ok (fst (s_insert_range lt FlatSet cap ks l), present FlatSet (snd (s_insert_range lt FlatSet cap ks l))).
Proof.
  induction ks as [|x t IH]; intros l Hs Hl; cbn [fs_insert_range s_insert_range]; [reflexivity|].
  rewrite fs_emplace_ok by exact Hs. cbn [rbind fst snd]. rewrite present_contract.
  pose proof (s_insert_bounded_inv cap x l Hs Hl) as [H1 H2].
  destruct (s_insert_bounded lt cap x l) as [l' o]. cbn [fst snd] in *.
  destruct (fatal FlatSet o) eqn:Ef; [reflexivity|]. apply IH; assumption.
Qed.

(* a range that fits is never refused *)
Lemma s_insert_range_fits k cap ks : forall l, is_set l -> length l + length ks <= cap ->
  snd (s_insert_range lt k cap ks l) = SUnit.
Proof.
  induction ks as [|x t IH]; intros l Hs Hl; cbn [s_insert_range snd]; [reflexivity|].
  cbn [length] in Hl. unfold s_insert_bounded.
  pose proof (s_insert_length x l) as Hlen.
  assert (Hs' : is_set (fst (s_insert lt x l))).
  { destruct (insert_cases x l Hs) as (l1 & l3 & _ & [(_ & _ & Hi & Hs')|(e & _ & _ & _ & Hi)]); rewrite Hi; assumption. }
  destruct (s_insert lt x l) as [l' [p b]]. cbn [fst] in *.
  replace (length l =? cap) with false by (symmetry; apply Nat.eqb_neq; lia).
  rewrite andb_false_r. replace (fatal k (SIns p b)) with false by (destruct k; reflexivity).
  apply IH; [exact Hs'|lia].
Qed.

(** * erase *)
Lemma eqv_matches x e : eqv lt x e = matches (key_cut x) e.
Proof. unfold eqv, matches. cbn [below above Ops.key_cut]. apply andb_comm. Qed.

Lemma erase_key_split x l l1 lm l3 : split3 (key_cut x) l l1 lm l3 ->
  s_erase_key lt x l = (l1 ++ l3, length lm).
Proof.
  intros S3. unfold s_erase_key. f_equal.
  - rewrite (sp_eq _ _ _ _ _ S3), !filter_app.
    rewrite (filter_all _ l1), (filter_none _ lm), (filter_all _ l3); [reflexivity| | |].
    + eapply Forall_impl; [|exact (matches_3 _ _ _ _ _ S3)]. cbn beta. intros e He. rewrite eqv_matches, He. reflexivity.
    + eapply Forall_impl; [|exact (matches_m _ _ _ _ _ S3)]. cbn beta. intros e He. rewrite eqv_matches, He. reflexivity.
    + eapply Forall_impl; [|exact (matches_1 _ _ _ _ _ S3)]. cbn beta. intros e He. rewrite eqv_matches, He. reflexivity.
  - rewrite <- (s_count_split _ _ _ _ _ S3). unfold s_count. f_equal.
    apply filter_ext. intros e. apply eqv_matches.
Qed.

Lemma fs_erase_key_ok x l : is_set l ->
  fs_erase_key lt l x = Ok (fst (s_erase_key lt x l), OCount (snd (s_erase_key lt x l))).
Proof.
  intros Hs. destruct (cut_split _ _ Hs (key_cut_ok x)) as (l1 & lm & l3 & S3).
  unfold fs_erase_key. rewrite (equal_range_split _ _ _ _ _ S3). cbn [rbind fst snd].
  rewrite (sv_erase_split _ _ _ _ _ S3), (erase_key_split _ _ _ _ _ S3). cbn [fst snd]. do 3 f_equal. lia.
Qed.

Lemma ss_erase_key_ok x l : is_set l ->
  ss_erase_key lt l x = Ok (fst (s_erase_key lt x l), OCount (snd (s_erase_key lt x l))).
Proof.
  intros Hs. destruct (cut_split _ _ Hs (key_cut_ok x)) as (l1 & lm & l3 & S3).
  pose proof (key_split_le1 x l l1 lm l3 Hs S3) as Hle.
  unfold ss_erase_key. rewrite (lb_split _ _ _ _ _ S3). cbn [rbind].
  rewrite (nth_lb _ _ _ _ _ S3), (erase_key_split _ _ _ _ _ S3). cbn [fst snd].
  pose proof (sv_erase_split _ _ _ _ _ S3) as He. pose proof (sp_len _ _ _ _ _ S3) as Hlen.
  pose proof (sp_m _ _ _ _ _ S3) as Fm. pose proof (sp_3 _ _ _ _ _ S3) as F3.
  pose proof (sp_eq _ _ _ _ _ S3) as E. clear S3.
  destruct lm as [|e [|z t]]; cbn [length] in *; [| |lia].
  - cbn [app] in E. subst l.
    destruct l3 as [|e t]; cbn [hd_error]; [reflexivity|].
    inversion F3 as [|? ? [_ Ha] _]; subst. cbn [above Ops.key_cut] in Ha. rewrite Ha. reflexivity.
  - clear E. inversion Fm as [|? ? [_ Ha] _]; subst. cbn [above Ops.key_cut] in Ha. rewrite Ha. cbn [negb].
    unfold sv_erase_pos. replace (length l1 <=? length l) with true by (symmetry; apply Nat.leb_le; lia).
    replace (S (length l1)) with (length l1 + 1) by lia. rewrite He. reflexivity.
Qed.

Lemma erase_key_inv x l : is_set l -> is_set (fst (s_erase_key lt x l)) /\ length (fst (s_erase_key lt x l)) <= length l.
Proof.
  intros Hs. unfold s_erase_key. cbn [fst]. split; [apply is_set_filter; exact Hs|].
  induction l as [|y l IH]; cbn [filter length]; [lia|].
  apply is_set_cons in Hs. destruct (negb (eqv lt x y)); cbn [length]; [apply le_n_S|apply le_S]; tauto.
Qed.

Lemma list_3parts l a b : a <= b -> b <= length l -> l = firstn a l ++ sub l a b ++ skipn b l.
Proof.
  intros H1 H2. unfold sub.
  rewrite <- (firstn_skipn a l) at 1. f_equal.
  rewrite <- (firstn_skipn (b - a) (skipn a l)) at 1. f_equal.
  rewrite Arr.skipn_skipn. f_equal. lia.
Qed.

Lemma erase_range_inv l a b : is_set l -> a <= b -> b <= length l ->
  is_set (firstn a l ++ skipn b l) /\ length (firstn a l ++ skipn b l) <= length l.
Proof.
  intros Hs H1 H2. split.
  - rewrite (list_3parts l a b H1 H2) in Hs. eapply is_set_drop_middle. exact Hs.
  - rewrite app_length, firstn_length, skipn_length. lia.
Qed.

Lemma set_erase_range_ok l a b :
  match s_erase_range a b l with
  | Some r => set_erase_range l a b = (fst r, OPos (snd r))
  | None => set_erase_range l a b = (l, OContract)
  end.
Proof.
  unfold s_erase_range, set_erase_range, sv_erase.
  destruct (Nat.leb_spec a b) as [H1|H1]; destruct (Nat.leb_spec b (length l)) as [H2|H2];
    destruct (Nat.leb_spec a (length l)) as [H3|H3]; cbn [andb fst snd]; try reflexivity; lia.
Qed.

Lemma set_erase_pos_ok l p :
  match s_erase_pos p l with
  | Some r => set_erase_pos l p = (fst r, OPos (snd r))
  | None => set_erase_pos l p = (l, OContract)
  end.
Proof.
  unfold s_erase_pos, set_erase_pos, sv_erase_pos, sv_erase.
  destruct (Nat.ltb_spec p (length l)) as [H1|H1]; destruct (Nat.leb_spec p (length l)) as [H2|H2];
    try destruct (Nat.leb_spec (S p) (length l)) as [H3|H3];
    try destruct (Nat.leb_spec p (S p)) as [H4|H4]; cbn [andb fst snd]; try reflexivity; lia.
Qed.

(** * erase_if keeps the invariant *)
Lemma erase_if_inv pred l : is_set l ->
  is_set (fst (s_erase_if pred l)) /\ length (fst (s_erase_if pred l)) <= length l.
Proof.
  intros Hs. unfold s_erase_if. cbn [fst]. split; [apply is_set_filter; exact Hs|].
  clear Hs. induction l as [|y l IH]; cbn [filter length]; [lia|].
  destruct (pred y); cbn [negb length]; lia.
Qed.

End OpsProofs.

(* facts that do not depend on the comparator *)
Section Plain.
Context {A : Type}.
Implicit Types (l : list A).

(** * erase_if *)
Lemma filter_length_compl (p : A -> bool) l :
  length (filter p l) + length (filter (fun e => negb (p e)) l) = length l.
Proof.
  induction l as [|x l IH]; cbn [filter length]; [reflexivity|].
  destruct (p x); cbn [negb length]; lia.
Qed.

Lemma fs_erase_if_ok pred l :
  fs_erase_if l pred = Ok (fst (s_erase_if pred l), OCount (snd (s_erase_if pred l))).
Proof.
  unfold fs_erase_if, s_erase_if. cbn [fst snd].
  destruct (remove_if_correct pred l) as (l' & H1 & H2 & H3). rewrite H1. cbn [rbind fst snd].
  unfold remove_if_spec in *. pose proof (filter_length_compl pred l) as Hc.
  unfold sv_erase.
  replace ((length (filter (fun x => negb (pred x)) l) <=? length l') && (length l' <=? length l')
           && (length (filter (fun x => negb (pred x)) l) <=? length l')) with true
    by (symmetry; rewrite !andb_true_iff, !Nat.leb_le; lia).
  cbn [fst snd]. rewrite H2, skipn_all, app_nil_r. do 3 f_equal. lia.
Qed.

(** * relations *)
Variable eqb : A -> A -> bool.
Variable ltk : A -> A -> bool.

Lemma s_eq_length l1 : forall l2, s_eq eqb l1 l2 = true -> length l1 = length l2.
Proof.
  induction l1 as [|x t1 IH]; intros [|y t2] H; cbn [s_eq] in H; try discriminate; [reflexivity|].
  apply andb_true_iff in H. cbn [length]. f_equal. apply IH. tauto.
Qed.

Lemma equal3_s_eq l1 : forall l2, length l1 = length l2 -> equal3_m eqb l1 l2 = Ok (s_eq eqb l1 l2).
Proof.
  induction l1 as [|x t1 IH]; intros [|y t2] H; cbn [length] in H; try discriminate; [reflexivity|].
  cbn [equal3_m s_eq]. destruct (eqb x y); cbn [negb andb]; [|reflexivity]. apply IH. lia.
Qed.

Lemma ss_eq_ok l1 l2 : ss_eq eqb l1 l2 = Ok (s_eq eqb l1 l2).
Proof.
  unfold ss_eq. destruct (Nat.eqb_spec (length l1) (length l2)) as [E|E]; [apply equal3_s_eq; exact E|].
  destruct (s_eq eqb l1 l2) eqn:Es; [|reflexivity]. apply s_eq_length in Es. contradiction.
Qed.

Lemma fs_eq_ok l1 l2 : fs_eq eqb l1 l2 = Ok (s_eq eqb l1 l2).
Proof.
  unfold fs_eq, equal4_m. destruct (Nat.eqb_spec (length l1) (length l2)) as [E|E]; cbn [negb];
    [apply equal3_s_eq; exact E|].
  destruct (s_eq eqb l1 l2) eqn:Es; [|reflexivity]. apply s_eq_length in Es. contradiction.
Qed.

Lemma set_lt_ok l1 : forall l2, set_lt ltk l1 l2 = s_lex ltk l1 l2.
Proof.
  unfold set_lt. induction l1 as [|x t1 IH]; intros [|y t2]; cbn [lexicographical_compare_m s_lex]; try reflexivity.
  rewrite IH. destruct (ltk x y), (ltk y x); reflexivity.
Qed.

Lemma relations_ok k l1 l2 : relations ltk (set_eq eqb k) l1 l2 = Ok (s_relations eqb ltk l1 l2).
Proof.
  unfold relations, s_relations.
  replace (set_eq eqb k l1 l2) with (Ok (A := bool) (s_eq eqb l1 l2))
    by (destruct k; cbn [set_eq]; [rewrite ss_eq_ok|rewrite fs_eq_ok]; reflexivity).
  cbn [rbind]. rewrite !set_lt_ok. reflexivity.
Qed.

End Plain.
