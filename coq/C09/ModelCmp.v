(* C09 model, part 2: flat_set STORES its comparator (member _compare).  It is set by the
   flat_set(Compare const&) constructor, default-constructed (Compare()) by the container /
   iterator-range / sorted_unique constructors, copied by copy assignment, exchanged by swap
   (swap(_compare, other._compare); swap(_container, other._container)) and returned by
   key_comp() / value_comp(); every member compares with it (etl::ref(_compare)).
   So the two sets of a history may be ordered by DIFFERENT comparators, and which one orders the
   current set changes along the history.  (static_set stores nothing: key_compare{} on demand.)

   A set is (comparator, elements); a call runs fs_step of Model.v under the comparator the set
   holds at that moment.  The specification side (std::set, which stores, copies and swaps its
   comparator the same way: [associative.reqmts] a.swap(b), a = b) is built the same way over
   Spec.s_step. *)
From Tetl Require Import Lib.Base C06a.Model C09.Ops C09.Model C09.Spec.

Section Cmp.
Context {A : Type}.
Variable lt0 : A -> A -> bool.          (* Compare(): the default-constructed comparator *)

Record cset : Type := { cmp : A -> A -> bool; elems : list A }.
Record st2 : Type := { cur2 : cset; oth2 : cset }.

(* s = flat_set(Container(first, last)) / flat_set(first, last) / flat_set(sorted_unique, ...):
   move assignment from a temporary whose comparator is Compare() *)
Definition resets_cmp (o : op A) : bool :=
  match o with Assign _ | AssignIter _ | AssignSorted _ => true | _ => false end.

Definition lone (l : list A) : st A := {| cur := l; oth := [] |}.

Definition fs_step2 (cap : nat) (s : st2) (o : op A) : res (st2 * out A) :=
  match o with
  | Swap => Ok ({| cur2 := oth2 s; oth2 := cur2 s |}, OUnit)
  | CopyFrom => Ok ({| cur2 := oth2 s; oth2 := oth2 s |}, OUnit)
  | _ =>
      if resets_cmp o then
        (* the temporary is built from scratch -- empty, comparator Compare() -- and move-assigned;
           a precondition that fires inside its constructor leaves s as it was *)
        do r <- fs_step lt0 cap (lone []) o;
        Ok (if is_contract (snd r) then (s, OContract)
            else ({| cur2 := {| cmp := lt0; elems := cur (fst r) |}; oth2 := oth2 s |}, snd r))
      else
        do r <- fs_step (cmp (cur2 s)) cap (lone (elems (cur2 s))) o;
        Ok ({| cur2 := {| cmp := cmp (cur2 s); elems := cur (fst r) |}; oth2 := oth2 s |}, snd r)
  end.

Fixpoint run2 (cap : nat) (s : st2) (ops : list (op A)) : res (st2 * list (out A * list A)) :=
  match ops with
  | [] => Ok (s, [])
  | o :: t =>
      do r <- fs_step2 cap s o;
      let ev := (snd r, elems (cur2 (fst r))) in
      if is_contract (snd r) then Ok (fst r, [ev])
      else do r2 <- run2 cap (fst r) t; Ok (fst r2, ev :: snd r2)
  end.

(** std::set with a stored comparator *)
Definition s_step2 (cap : nat) (s : st2) (o : op A) : option (st2 * sout A) :=
  match o with
  | Swap => Some ({| cur2 := oth2 s; oth2 := cur2 s |}, SUnit)
  | CopyFrom => Some ({| cur2 := oth2 s; oth2 := oth2 s |}, SUnit)
  | _ =>
      let c := if resets_cmp o then lt0 else cmp (cur2 s) in
      let l := if resets_cmp o then [] else elems (cur2 s) in
      match s_step c FlatSet cap (lone l) o with
      | None => None
      | Some (s', r) => Some ({| cur2 := {| cmp := c; elems := cur s' |}; oth2 := oth2 s |}, r)
      end
  end.

Fixpoint s_run2 (cap : nat) (s : st2) (ops : list (op A)) : option (st2 * list (sout A * list A)) :=
  match ops with
  | [] => Some (s, [])
  | o :: t =>
      match s_step2 cap s o with
      | None => None
      | Some (s', r) =>
          if fatal FlatSet r then Some (s', [(r, elems (cur2 s'))])
          else match s_run2 cap s' t with
               | None => None
               | Some (s'', rs) => Some (s'', (r, elems (cur2 s')) :: rs)
               end
      end
  end.

Definition init2 (c1 c2 : A -> A -> bool) : st2 :=
  {| cur2 := {| cmp := c1; elems := [] |}; oth2 := {| cmp := c2; elems := [] |} |}.

End Cmp.

Arguments cset : clear implicits.
Arguments st2 : clear implicits.
