From Tetl Require Import Lib.Base C06a.Spec C09.Ops C09.Model C09.Spec C09.ModelCmp C09.ModelCtor C09.Instances C09.InstancesT C09.ModelMove C09.SpecMove.
Require Extraction.
Require Import ExtrOcamlBasic.
Extraction Language OCaml.
Extraction "C09_model.ml" wire_anchor
  init key_cut run ask relations set_eq fms_construct
  s_run s_ask s_relations stable_sort_spec s_multiset_of_range
  run2 s_run2 init2 run3 s_run3 erase_touched s_erase_nothing_touched
  cmp_less cmp_greater cmp_half point_cut band_cut point_cut_g band_cut_g pred_of key_eqb key_ltb.
