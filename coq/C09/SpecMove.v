(* C09, what the standard says about the ELEMENTS when an erase call removes nothing.
   [associative.reqmts]: a.erase(k) "erases all elements in the container with key equivalent to k. Returns the number
   of erased elements"; a.erase(q1, q2) "erases all the elements in the range [q1, q2)".  With no equivalent element /
   an empty range nothing is erased and the call has no other effect: every element is the object it was, with the
   value it had (std::set is node based: erase never assigns to an element at all).  Observable for an instrumented
   key type as: the number of element objects assigned to, copied or moved by such a call. *)
From Tetl Require Import Lib.Base.

Definition s_erase_nothing_touched : nat := 0.

(* the element objects after such a call: the ones before it *)
Definition s_erase_nothing_cells {C : Type} (v : list C) : list C := v.
