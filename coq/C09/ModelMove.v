(* C09, the erase members one level below Model.v: the ELEMENTS of the backing static_vector as objects
   that can be moved from.  Model.v describes static_vector::erase(first, last) by its result on the list
   of values (firstn first l ++ skipn last l); that is the whole story for trivially copyable keys, where
   an assignment `x = move(x)` changes nothing.  For a key type whose move assignment TRANSFERS state
   (std::string beyond its small buffer, any type that resets its moved-from source) the code's
   individual move assignments are observable, so this file mirrors them:

     constexpr auto erase(const_iterator first, const_iterator last) noexcept -> iterator
     {
         assert_iterator_pair_in_range(first, last);
         iterator p = begin() + (first - begin());
         if (first != last) {
             unsafe_destroy(etl::move(p + (last - first), end(), p), end());
             unsafe_set_size(size() - static_cast<size_type>(last - first));
         }
         return p;
     }

   A cell is an element object: Live x (holds the value x) or Moved (a moved-from object: valid, value
   unspecified; the harness's key types show it as an empty string / -777).  A move assignment
   `*d = etl::move( *s)` gives *d the state of *s and then resets *s -- in this order, so when d and s are
   the same object the reset wins (what libstdc++'s std::string does for a heap string, and what the
   harness's tracked key does).  `moves` counts the move assignments performed. *)
From Tetl Require Import Lib.Base C06a.Model C06b.Model C09.Ops C09.Model.
From Coq Require Import Arith.

Section MoveModel.
Context {A : Type}.

Inductive cell : Type :=
| Live (x : A)
| Moved.

(* write one cell (total: the callers stay inside the vector) *)
Fixpoint put (v : list cell) (i : nat) (c : cell) : list cell :=
  match v, i with
  | [], _ => []
  | _ :: t, O => c :: t
  | x :: t, S j => x :: put t j c
  end.

(* *d = etl::move( *s): take, then reset the source *)
Definition move_assign (v : list cell) (d s : nat) : list cell :=
  put (put v d (nth s v Moved)) s Moved.

(* etl::move(first, last, d_first): for (; first != last; ++first, ++d_first) *d_first = etl::move( *first);
   n = last - first; returns the cells and the number of assignments performed *)
Fixpoint move_loop (n : nat) (v : list cell) (s d : nat) (moves : nat) : list cell * nat :=
  match n with
  | O => (v, moves)
  | S n' => move_loop n' (move_assign v d s) (S s) (S d) (S moves)
  end.

(* static_vector::erase(first, last): (cells, returned position, move assignments); None = a precondition fired.
   unsafe_destroy + unsafe_set_size drop the cells past the new end. *)
Definition sv_erase_m (v : list cell) (first last : nat) : option (list cell * nat * nat) :=
  if (first <=? length v) && (last <=? length v) && (first <=? last) then
    if first =? last then Some (v, first, 0)
    else
      let r := move_loop (length v - last) v last first 0 in
      Some (firstn (length v - (last - first)) (fst r), first, snd r)
  else None.

(* static_vector::erase(position): assert_iterator_in_range(position); return erase(position, position + 1) *)
Definition sv_erase_pos_m (v : list cell) (p : nat) : option (list cell * nat * nat) :=
  if p <=? length v then sv_erase_m v p (S p) else None.

(* the same member WITHOUT the `if (first != last)` guard: not the code, kept to show that the guard is what the
   theorems of Properties_move.v rest on (C09_erase_guard_is_needed) *)
Definition sv_erase_unguarded (v : list cell) (first last : nat) : option (list cell * nat * nat) :=
  if (first <=? length v) && (last <=? length v) && (first <=? last) then
    let r := move_loop (length v - last) v last first 0 in
    Some (firstn (length v - (last - first)) (fst r), first, snd r)
  else None.

Variable lt : A -> A -> bool.
Local Notation key_cut := (Ops.key_cut lt).

Definition live (l : list A) : list cell := map Live l.

(* what an erase call does to the element objects of a set whose elements are all alive:
   Some (cells afterwards, move assignments performed); None = a precondition fired *)
Definition done (r : option (list cell * nat * nat)) : res (option (list cell * nat)) :=
  Ok (match r with Some (v, _, m) => Some (v, m) | None => None end).

(* etl::remove_if(first, last, pred) on element objects:
     first = etl::find_if(first, last, pred);
     if (first != last) { for (auto i = first; ++i != last;) { if (not pred( *i)) { *first++ = etl::move( *i); } } }
     return first;
   (cells, returned position, move assignments); the loop mirrors C06a.Model.remove_if_loop with a move assignment
   in place of the copy.  pred applied to a moved-from element would be a read of an unspecified value: UB here. *)
Fixpoint remove_if_loop_m (fuel : nat) (p : A -> bool) (v : list cell) (w i last moves : nat)
  : res (list cell * nat * nat) :=
  match fuel with
  | O => OutOfFuel
  | S k =>
      let i' := S i in
      if i' =? last then Ok (v, w, moves)
      else
        match nth i' v Moved with
        | Live x => if p x then remove_if_loop_m k p v w i' last moves
                    else remove_if_loop_m k p (move_assign v w i') (S w) i' last (S moves)
        | Moved => UB UninitRead
        end
  end.

Definition remove_if_m (p : A -> bool) (l : list A) : res (list cell * nat * nat) :=
  let first := find_if_from p l 0 in
  let last := length l in
  if first =? last then Ok (live l, first, 0) else remove_if_loop_m (S last) p (live l) first first last 0.

(* erase_if(c, pred): it = remove_if(begin, end, pred); r = distance(it, end); c.erase(it, end) *)
Definition fs_erase_if_m (l : list A) (pred : A -> bool) : res (option (list cell * nat)) :=
  do r <- remove_if_m pred l;
  Ok (match sv_erase_m (fst (fst r)) (snd (fst r)) (length (fst (fst r))) with
      | Some (v, _, m) => Some (v, snd r + m)
      | None => None
      end).

(* static_set::erase(key): lower_bound; if (pos != end && !cmp(key, *pos)) { erase(pos); return 1; } return 0; *)
Definition ss_erase_key_m (l : list A) (k : A) : res (option (list cell * nat)) :=
  do p <- lb_g (key_cut k) l;
  match nth_error l p with
  | Some e => if negb (lt k e) then done (sv_erase_pos_m (live l) p) else Ok (Some (live l, 0))
  | None => Ok (Some (live l, 0))
  end.

(* flat_set::erase(key): range = equal_range(key); erase(range.first, range.second) *)
Definition fs_erase_key_m (l : list A) (k : A) : res (option (list cell * nat)) :=
  do r <- equal_range_g (key_cut k) l;
  done (sv_erase_m (live l) (fst r) (snd r)).

(* the erase calls of the history alphabet *)
Definition erase_cells (k : kind) (l : list A) (o : Ops.op A) : res (option (option (list cell * nat))) :=
  match o with
  | EraseKey x =>
      do r <- (match k with StaticSet => ss_erase_key_m l x | FlatSet => fs_erase_key_m l x end); Ok (Some r)
  | ErasePos p => do r <- done (sv_erase_pos_m (live l) p); Ok (Some r)
  | EraseRange a b => do r <- done (sv_erase_m (live l) a b); Ok (Some r)
  | EraseIf pred =>   (* flat_set only: static_set has no erase_if *)
      match k with FlatSet => do r <- fs_erase_if_m l pred; Ok (Some r) | StaticSet => Ok None end
  | _ => Ok None
  end.

(* the number the harness prints after an erase call that removed nothing: how many element objects the call
   assigned to.  None: not one of the calls above, or a precondition fired. *)
Definition erase_touched (k : kind) (l : list A) (o : Ops.op A) : res (option nat) :=
  do r <- erase_cells k l o;
  Ok (match r with Some (Some (_, m)) => Some m | _ => None end).

End MoveModel.

Arguments cell : clear implicits.
