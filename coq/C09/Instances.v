(* C09: the comparators, heterogeneous keys and predicates the correspondence harness instantiates *)
From Tetl Require Import Lib.Base C09.Ops.
Local Open Scope Z_scope.

(* etl::less<int> / etl::less<> *)
Definition cmp_less (a b : Z) : bool := a <? b.
(* etl::greater<int> *)
Definition cmp_greater (a b : Z) : bool := b <? a.
(* struct half_less { a / 2 < b / 2 }: equivalent keys need not be equal (C++ int division truncates) *)
Definition cmp_half (a b : Z) : bool := Z.quot a 2 <? Z.quot b 2.

(* heterogeneous keys of the transparent less<>: a point HK{v} and a band HB{lo, hi} *)
Definition point_cut (v : Z) : cut Z := {| below := fun e => e <? v; above := fun e => v <? e |}.
Definition band_cut (lo hi : Z) : cut Z := {| below := fun e => e <? lo; above := fun e => hi <? e |}.

(* erase_if predicates: t = 0: x % 2 == m;  otherwise: x < m *)
Definition pred_of (t m : Z) : Z -> bool :=
  if t =? 0 then fun x => Z.rem x 2 =? m else fun x => x <? m.

Definition key_eqb (a b : Z) : bool := a =? b.
Definition key_ltb (a b : Z) : bool := a <? b.
