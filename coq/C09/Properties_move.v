(* C09, the erase members at the level of the element OBJECTS (ModelMove.v): for key types whose move assignment
   transfers state the individual move assignments of static_vector::erase(first, last) are observable.
   Every statement is for every element type, every comparator, every capacity and every set contents. *)
From Tetl Require Import Lib.Base C09.Ops C09.Model C09.ModelMove C09.SpecMove C09.ProofsMove C09.Instances.

(* static_vector::erase(first, last) / erase(position) on element objects that are all alive: the precondition
   outcome, the returned position and the values are those of Model.v's list-level member, every remaining
   element is alive, and there is one move assignment per element behind the range -- none for an empty range *)
Theorem C09_vector_erase_element_level :
  forall (A : Type) (l : list A) (a b : nat),
  sv_erase_m (live l) a b =
  match sv_erase l a b with
  | Some (l', p) => Some (live l', p, if Nat.eqb a b then 0 else length l - b)
  | None => None
  end.
Proof. exact @sv_erase_m_live. Qed.
Print Assumptions C09_vector_erase_element_level.

Theorem C09_vector_erase_position_element_level :
  forall (A : Type) (l : list A) (p : nat),
  sv_erase_pos_m (live l) p =
  match sv_erase_pos l p with
  | Some (l', q) => Some (live l', q, length l - S p)
  | None => None
  end.
Proof. exact @sv_erase_pos_m_live. Qed.
Print Assumptions C09_vector_erase_position_element_level.

(* an empty range at any valid position, element objects in ANY state: nothing is assigned, nothing changes *)
Theorem C09_vector_erase_empty_range_is_noop :
  forall (A : Type) (v : list (cell A)) (a : nat), a <= length v -> sv_erase_m v a a = Some (v, a, 0).
Proof. exact @sv_erase_m_empty_range. Qed.
Print Assumptions C09_vector_erase_empty_range_is_noop.

(* etl::remove_if on a vector whose elements are alive (the find_if prefix is skipped, so no element is ever moved
   onto itself): the kept elements, alive and in order, in front of the returned position; no assignment at all
   when nothing is removed.  erase_if(flat_set&, pred) = remove_if + erase of the tail. *)
Theorem C09_remove_if_element_level :
  forall (A : Type) (p : A -> bool) (l : list A),
  exists G' m,
    remove_if_m p l = Ok (live (filter (fun x => negb (p x)) l) ++ G', length (filter (fun x => negb (p x)) l), m)
    /\ length G' = length l - length (filter (fun x => negb (p x)) l)
    /\ (length (filter (fun x => negb (p x)) l) = length l -> m = 0).
Proof. exact @remove_if_m_live. Qed.
Print Assumptions C09_remove_if_element_level.

Theorem C09_erase_if_element_level :
  forall (A : Type) (p : A -> bool) (l : list A),
  exists m, fs_erase_if_m l p = Ok (Some (live (filter (fun x => negb (p x)) l), m))
            /\ (length (filter (fun x => negb (p x)) l) = length l -> m = 0).
Proof. exact @fs_erase_if_m_live. Qed.
Print Assumptions C09_erase_if_element_level.

(* erase(key) / erase(pos) / erase(first, last) of both containers and erase_if(flat_set&, pred) inside a history: the element level reports a
   contract exactly when Model.v's step does; otherwise every element is alive afterwards and holds the value
   Model.v's step computes; and when the call removed nothing (the size did not change) it performed NO move
   assignment and the contents are the ones before the call -- what SpecMove.v says the standard requires *)
Theorem C09_erase_members_element_level :
  forall (A : Type) (lt : A -> A -> bool) (k : kind) (cap : nat) (s s' : st A) (o : op A) (r : out A),
  is_erase_call k o = true ->
  step lt k cap s o = Ok (s', r) ->
  if is_contract r then erase_cells lt k (cur s) o = Ok (Some None)
  else exists m, erase_cells lt k (cur s) o = Ok (Some (Some (live (cur s'), m)))
                 /\ (length (cur s') = length (cur s) -> m = s_erase_nothing_touched /\ cur s' = cur s).
Proof. exact @erase_cells_refines. Qed.
Print Assumptions C09_erase_members_element_level.

Theorem C09_erase_of_nothing_touches_no_element :
  forall (A : Type) (lt : A -> A -> bool) (k : kind) (cap : nat) (s s' : st A) (o : op A) (r : out A),
  is_erase_call k o = true ->
  step lt k cap s o = Ok (s', r) -> is_contract r = false -> length (cur s') = length (cur s) ->
  erase_touched lt k (cur s) o = Ok (Some s_erase_nothing_touched)
  /\ erase_cells lt k (cur s) o = Ok (Some (Some (s_erase_nothing_cells (live (cur s)), s_erase_nothing_touched))).
Proof. exact @erase_touched_nothing. Qed.
Print Assumptions C09_erase_of_nothing_touches_no_element.

(* the theorems above rest on the `if (first != last)` guard of static_vector::erase(first, last): the same member
   without it moves every element behind an empty range onto itself *)
Theorem C09_erase_guard_is_needed :
  exists (l : list Z) (a : nat),
    a <= length l /\ sv_erase_unguarded (live l) a a = Some ([Live 1%Z; Moved; Moved], a, 2)
    /\ sv_erase_m (live l) a a = Some (live l, a, 0).
Proof. exists [1%Z; 2%Z; 3%Z], 1. repeat split. repeat constructor. Qed.
Print Assumptions C09_erase_guard_is_needed.

(* the hypotheses are satisfiable: erase of an absent key that has successors (flat_set: the empty equal_range in
   the middle of the vector), of an empty iterator range at begin / middle / end, and -- for contrast -- a call
   that does remove something (two move assignments) *)
Example C09_move_nonvacuous :
  let s := {| cur := [1%Z; 3%Z; 4%Z]; oth := [] |} in
  step cmp_less FlatSet 3 s (EraseKey 2%Z) = Ok (s, OCount 0)
  /\ erase_touched cmp_less FlatSet (cur s) (EraseKey 2%Z) = Ok (Some 0)
  /\ step cmp_less StaticSet 3 s (EraseKey 2%Z) = Ok (s, OCount 0)
  /\ step cmp_less FlatSet 3 s (EraseRange 0 0) = Ok (s, OPos 0)
  /\ step cmp_less StaticSet 3 s (EraseRange 1 1) = Ok (s, OPos 1)
  /\ step cmp_less FlatSet 3 s (EraseRange 3 3) = Ok (s, OPos 3)
  /\ erase_cells cmp_less FlatSet (cur s) (EraseKey 1%Z) = Ok (Some (Some ([Live 3%Z; Live 4%Z], 2)))
  /\ step cmp_less FlatSet 3 s (EraseIf (pred_of 0 0)) = Ok ({| cur := [1%Z; 3%Z]; oth := [] |}, OCount 1)
  /\ erase_cells cmp_less FlatSet (cur s) (EraseIf (pred_of 0 0)) = Ok (Some (Some ([Live 1%Z; Live 3%Z], 0)))
  /\ erase_cells cmp_less FlatSet (cur s) (EraseIf (pred_of 1 2)) = Ok (Some (Some ([Live 3%Z; Live 4%Z], 2)))
  /\ erase_touched cmp_less FlatSet (cur s) (EraseIf (pred_of 1 0)) = Ok (Some 0).
Proof. repeat split. Qed.
