(* C09 proofs, part 3: one step of a history commutes with the specification and keeps the
   invariant (strictly sorted, within capacity); histories by induction; the theorems as stated
   in Properties.v. *)
From Tetl Require Import Lib.Base Lib.Arr C06a.Model C06a.Spec C06a.P2_Common C06a.P2_Gnome
  C06b.Model C09.Ops C09.Model C09.Spec C09.ProofsCore C09.ProofsOps.
From Coq Require Import Arith Lia Sorting.Sorted Sorting.Permutation.
Ltac Zify.zify_post_hook ::= Z.to_euclidean_division_equations.

(* the comparator requirement of [alg.sorting] / [associative.reqmts]: a strict weak order *)
Definition strict_weak {A : Type} (lt : A -> A -> bool) : Prop :=
  (forall x, lt x x = false) /\
  (forall x y z, lt x y = true -> lt y z = true -> lt x z = true) /\
  (forall x y z, lt x y = false -> lt y x = false -> lt y z = false -> lt z y = false -> lt x z = false).

Section RunProofs.
Context {A : Type}.
Variable lt : A -> A -> bool.
Implicit Types (l : list A) (s : st A) (o : op A).

Hypothesis lt_irrefl : forall x, lt x x = false.
Hypothesis lt_trans : forall x y z, lt x y = true -> lt y z = true -> lt x z = true.
Hypothesis lt_incomp : forall x y z,
  lt x y = false -> lt y x = false -> lt y z = false -> lt z y = false -> lt x z = false.

Notation is_set := (is_set lt).
Notation ss_insert_ok := (ss_insert_ok lt lt_irrefl lt_trans lt_incomp).
Notation fs_emplace_ok := (fs_emplace_ok lt lt_irrefl lt_trans lt_incomp).
Notation s_insert_bounded_inv := (s_insert_bounded_inv lt lt_irrefl lt_trans lt_incomp).
Notation s_insert_range_inv := (s_insert_range_inv lt lt_irrefl lt_trans lt_incomp).
Notation ss_insert_range_ok := (ss_insert_range_ok lt lt_irrefl lt_trans lt_incomp).
Notation fs_insert_range_ok := (fs_insert_range_ok lt lt_irrefl lt_trans lt_incomp).
Notation s_insert_range_fits := (s_insert_range_fits lt lt_irrefl lt_trans lt_incomp).
Notation ss_erase_key_ok := (ss_erase_key_ok lt lt_irrefl lt_trans lt_incomp).
Notation fs_erase_key_ok := (fs_erase_key_ok lt lt_irrefl lt_trans lt_incomp).
Notation erase_key_inv := (erase_key_inv lt lt_irrefl lt_trans lt_incomp).
Notation erase_if_inv := (erase_if_inv lt lt_irrefl lt_trans lt_incomp).
Notation insert_cases := (insert_cases lt lt_irrefl lt_trans lt_incomp).

(* the invariant of both sets of a history *)
Definition inv (cap : nat) (s : st A) : Prop :=
  (is_set (cur s) /\ length (cur s) <= cap) /\ (is_set (oth s) /\ length (oth s) <= cap).

(* the documented precondition that the containers cannot check: replace / sorted_unique take a
   container that is already sorted and unique *)
Definition op_ok (k : kind) (o : op A) : Prop :=
  match k, o with
  | FlatSet, (Replace ks | AssignSorted ks) => is_set ks
  | _, _ => True
  end.

Lemma inv_init cap : inv cap init.
Proof. unfold inv, init. cbn [cur oth length]. repeat split; try apply is_set_nil; lia. Qed.

Lemma inv_upd cap s l : inv cap s -> is_set l -> length l <= cap -> inv cap {| cur := l; oth := oth s |}.
Proof. unfold inv. cbn [cur oth]. tauto. Qed.

Lemma s_erase_pos_inv cap p l r : is_set l -> length l <= cap -> s_erase_pos p l = Some r ->
  is_set (fst r) /\ length (fst r) <= cap.
Proof.
  unfold s_erase_pos. intros Hs Hl H. destruct (Nat.ltb_spec p (length l)) as [Hp|Hp]; [|discriminate].
  inversion H; subst. cbn [fst]. destruct (erase_range_inv lt l p (S p) Hs) as [H1 H2]; [lia|lia|]. split; [exact H1|eapply Nat.le_trans; eassumption].
Qed.

Lemma s_erase_range_inv cap a b l r : is_set l -> length l <= cap -> s_erase_range a b l = Some r ->
  is_set (fst r) /\ length (fst r) <= cap.
Proof.
  unfold s_erase_range. intros Hs Hl H.
  destruct (Nat.leb_spec a b) as [H1|H1]; destruct (Nat.leb_spec b (length l)) as [H2|H2]; cbn [andb] in H; try discriminate.
  inversion H; subst. cbn [fst]. destruct (erase_range_inv lt l a b Hs H1 H2) as [H3 H4]. split; [exact H3|eapply Nat.le_trans; eassumption].
Qed.

(* a range insert reports nothing, or that a key did not fit *)
Lemma s_insert_range_snd k cap ks : forall l,
  snd (s_insert_range lt k cap ks l) = SUnit \/ snd (s_insert_range lt k cap ks l) = SFull.
Proof.
  induction ks as [|x t IH]; intros l; cbn [s_insert_range]; [left; reflexivity|].
  destruct (s_insert_bounded lt cap x l) as [l' o]. destruct (fatal k o); [right; reflexivity|apply IH].
Qed.

(** * one step, inside the domain of the specification *)
Lemma step_refines k cap s o s2 so : inv cap s -> s_step lt k cap s o = Some (s2, so) ->
  step lt k cap s o = Ok (s2, present k so) /\ inv cap s2.
Proof.
  intros Hi Hs. pose proof Hi as [[Hc Hcl] [Ho Hol]].
  unfold s_step in Hs. destruct (has_member k o) eqn:Hm; cbn [negb] in Hs; [|discriminate].
  destruct o as [x|x|h x|ks|ks|ks|x|p|a b|pred| | | |ks|ks| ].
  - (* Insert *)
    inversion Hs; subst; clear Hs. destruct (s_insert_bounded_inv cap x (cur s) Hc Hcl) as [H1 H2].
    split; [|apply inv_upd; assumption].
    destruct k; cbn [step ss_step fs_step]; [rewrite ss_insert_ok by exact Hc|rewrite fs_emplace_ok by exact Hc]; reflexivity.
  - (* Emplace *)
    inversion Hs; subst; clear Hs. destruct (s_insert_bounded_inv cap x (cur s) Hc Hcl) as [H1 H2].
    split; [|apply inv_upd; assumption].
    destruct k; cbn [step ss_step fs_step]; [rewrite ss_insert_ok by exact Hc|rewrite fs_emplace_ok by exact Hc]; reflexivity.
  - (* InsertHint *)
    destruct k; [discriminate|]. inversion Hs; subst; clear Hs.
    destruct (s_insert_bounded_inv cap x (cur s) Hc Hcl) as [H1 H2].
    split; [|apply inv_upd; assumption].
    cbn [step fs_step]. unfold fs_insert_hint. rewrite fs_emplace_ok by exact Hc. cbn [rbind fst snd].
    unfold upd, updc. cbn [fst snd]. do 2 f_equal.
    destruct (snd (s_insert_bounded lt cap x (cur s))); reflexivity.
  - (* InsertRange *)
    inversion Hs; subst; clear Hs. destruct (s_insert_range_inv k cap ks (cur s) Hc Hcl) as [H1 H2].
    split; [|apply inv_upd; assumption].
    destruct k; cbn [step ss_step fs_step].
    + destruct (ss_insert_range_ok cap ks (cur s) Hc Hcl) as [E1 E2]. rewrite E1. cbn [rbind].
      unfold upd, updc. rewrite E2. reflexivity.
    + rewrite fs_insert_range_ok by assumption. reflexivity.
  - (* Assign *)
    destruct (Nat.leb_spec (length ks) cap) as [Hk|Hk]; [|discriminate]. inversion Hs; subst; clear Hs.
    destruct (s_insert_range_inv k cap ks [] (is_set_nil lt) (Nat.le_0_l _)) as [H1 H2].
    split; [|apply inv_upd; assumption].
    assert (Hlt : cap <? length ks = false) by (apply Nat.ltb_ge; exact Hk).
    destruct k; cbn [step ss_step fs_step].
    + unfold ss_construct. rewrite Hlt.
      destruct (ss_insert_range_ok cap ks [] (is_set_nil lt) (Nat.le_0_l _)) as [E1 _]. rewrite E1. reflexivity.
    + unfold with_container. rewrite Hlt. rewrite fs_insert_range_ok by (try apply is_set_nil; cbn [length]; lia).
      cbn [rbind fst snd]. rewrite (s_insert_range_fits FlatSet cap ks []) by (try apply is_set_nil; cbn [length]; lia).
      reflexivity.
  - (* AssignSorted *)
    destruct k; [discriminate|].
    destruct (is_set_b lt ks) eqn:Eb; [|discriminate]. destruct (Nat.leb_spec (length ks) cap) as [Hk|Hk]; [|discriminate].
    inversion Hs; subst; clear Hs. apply is_set_b_spec in Eb.
    split; [|apply inv_upd; assumption].
    cbn [step fs_step]. unfold with_container. replace (cap <? length ks) with false by (symmetry; apply Nat.ltb_ge; exact Hk).
    reflexivity.
  - (* EraseKey *)
    inversion Hs; subst; clear Hs. destruct (erase_key_inv x (cur s) Hc) as [H1 H2].
    split; [|apply inv_upd; [assumption|assumption|eapply Nat.le_trans; [exact H2|exact Hcl]]].
    destruct k; cbn [step ss_step fs_step]; [rewrite ss_erase_key_ok by exact Hc|rewrite fs_erase_key_ok by exact Hc]; reflexivity.
  - (* ErasePos *)
    destruct (s_erase_pos p (cur s)) as [r|] eqn:Er; [|discriminate]. inversion Hs; subst; clear Hs.
    destruct (s_erase_pos_inv cap p (cur s) r Hc Hcl Er) as [H1 H2].
    split; [|apply inv_upd; assumption].
    pose proof (set_erase_pos_ok (cur s) p) as Hp. rewrite Er in Hp.
    destruct k; cbn [step ss_step fs_step]; rewrite Hp; reflexivity.
  - (* EraseRange *)
    destruct (s_erase_range a b (cur s)) as [r|] eqn:Er; [|discriminate]. inversion Hs; subst; clear Hs.
    destruct (s_erase_range_inv cap a b (cur s) r Hc Hcl Er) as [H1 H2].
    split; [|apply inv_upd; assumption].
    pose proof (set_erase_range_ok (cur s) a b) as Hp. rewrite Er in Hp.
    destruct k; cbn [step ss_step fs_step]; rewrite Hp; reflexivity.
  - (* EraseIf *)
    destruct k; [discriminate|]. inversion Hs; subst; clear Hs.
    destruct (erase_if_inv pred (cur s) Hc) as [H1 H2].
    split; [|apply inv_upd; [assumption|assumption|eapply Nat.le_trans; [exact H2|exact Hcl]]].
    cbn [step fs_step]. rewrite fs_erase_if_ok. reflexivity.
  - (* Clear *)
    inversion Hs; subst; clear Hs. split; [destruct k; reflexivity|].
    apply inv_upd; [assumption|apply is_set_nil|cbn [length]; lia].
  - (* Swap *)
    inversion Hs; subst; clear Hs. split; [destruct k; reflexivity|]. unfold inv. cbn [cur oth]. tauto.
  - (* Extract *)
    destruct k; [discriminate|]. inversion Hs; subst; clear Hs. split; [reflexivity|].
    apply inv_upd; [assumption|apply is_set_nil|cbn [length]; lia].
  - (* Replace *)
    destruct k; [discriminate|].
    destruct (is_set_b lt ks) eqn:Eb; [|discriminate]. destruct (Nat.leb_spec (length ks) cap) as [Hk|Hk]; [|discriminate].
    inversion Hs; subst; clear Hs. apply is_set_b_spec in Eb.
    split; [|apply inv_upd; assumption].
    cbn [step fs_step]. unfold with_container. replace (cap <? length ks) with false by (symmetry; apply Nat.ltb_ge; exact Hk).
    reflexivity.
  - (* AssignIter *)
    destruct (s_insert_range_inv k cap ks [] (is_set_nil lt) (Nat.le_0_l _)) as [H1 H2].
    destruct (fatal k (snd (s_insert_range lt k cap ks []))) eqn:Ef; [discriminate|].
    inversion Hs; subst; clear Hs.
    split; [|apply inv_upd; assumption].
    destruct k; cbn [step ss_step fs_step].
    + destruct (ss_insert_range_ok cap ks [] (is_set_nil lt) (Nat.le_0_l _)) as [E1 _]. rewrite E1. reflexivity.
    + rewrite fs_insert_range_ok by (try apply is_set_nil; cbn [length]; lia).
      cbn [rbind fst snd]. rewrite present_contract, Ef.
      destruct (s_insert_range_snd FlatSet cap ks []) as [E|E]; rewrite E in *; [reflexivity|discriminate Ef].
  - (* CopyFrom *)
    inversion Hs; subst; clear Hs. split; [destruct k; reflexivity|]. apply inv_upd; assumption.
Qed.

(** * one step, anywhere: the model never misbehaves, keeps the invariant, and outside the
      specification's domain reports a contract violation with the set untouched *)
Lemma step_total k cap s o : inv cap s -> op_ok k o ->
  exists s' r', step lt k cap s o = Ok (s', r') /\ inv cap s' /\
    (s_step lt k cap s o = None -> has_member k o = true -> s' = s /\ r' = OContract).
Proof.
  intros Hi Hok. destruct (s_step lt k cap s o) as [[s2 so]|] eqn:Es.
  - destruct (step_refines k cap s o s2 so Hi Es) as [H1 H2].
    exists s2, (present k so). split; [exact H1|]. split; [exact H2|]. intros C; discriminate C.
  - destruct (has_member k o) eqn:Hm.
    + (* a member called outside its domain *)
      unfold s_step in Es. rewrite Hm in Es. cbn [negb] in Es.
      destruct o as [x|x|h x|ks|ks|ks|x|p|a b|pred| | | |ks|ks| ]; try discriminate.
      * (* Assign: the range does not fit *)
        destruct (Nat.leb_spec (length ks) cap) as [Hk|Hk]; [discriminate|].
        assert (Hlt : cap <? length ks = true) by (apply Nat.ltb_lt; exact Hk).
        exists s, OContract. split; [|split; [exact Hi|auto]].
        destruct k; cbn [step ss_step fs_step]; [unfold ss_construct|unfold with_container]; rewrite Hlt; reflexivity.
      * (* AssignSorted *)
        destruct k; [discriminate|]. cbn [op_ok] in Hok. apply is_set_b_spec in Hok. rewrite Hok in Es. cbn [andb] in Es.
        destruct (Nat.leb_spec (length ks) cap) as [Hk|Hk]; [discriminate|].
        exists s, OContract. split; [|split; [exact Hi|auto]].
        cbn [step fs_step]. unfold with_container. replace (cap <? length ks) with true by (symmetry; apply Nat.ltb_lt; exact Hk).
        reflexivity.
      * (* ErasePos *)
        destruct (s_erase_pos p (cur s)) as [r|] eqn:Er; [discriminate|].
        pose proof (set_erase_pos_ok (cur s) p) as Hp. rewrite Er in Hp.
        exists s, OContract. split; [|split; [exact Hi|auto]].
        destruct k; cbn [step ss_step fs_step]; rewrite Hp; destruct s; reflexivity.
      * (* EraseRange *)
        destruct (s_erase_range a b (cur s)) as [r|] eqn:Er; [discriminate|].
        pose proof (set_erase_range_ok (cur s) a b) as Hp. rewrite Er in Hp.
        exists s, OContract. split; [|split; [exact Hi|auto]].
        destruct k; cbn [step ss_step fs_step]; rewrite Hp; destruct s; reflexivity.
      * (* Replace *)
        destruct k; [discriminate|]. cbn [op_ok] in Hok. apply is_set_b_spec in Hok. rewrite Hok in Es. cbn [andb] in Es.
        destruct (Nat.leb_spec (length ks) cap) as [Hk|Hk]; [discriminate|].
        exists s, OContract. split; [|split; [exact Hi|auto]].
        cbn [step fs_step]. unfold with_container. replace (cap <? length ks) with true by (symmetry; apply Nat.ltb_lt; exact Hk).
        reflexivity.
      * (* AssignIter: a key did not fit and the container treats that as fatal *)
        destruct (fatal k (snd (s_insert_range lt k cap ks []))) eqn:Ef; [|discriminate].
        destruct k; [destruct (snd (s_insert_range lt StaticSet cap ks [])); discriminate Ef|].
        exists s, OContract. split; [|split; [exact Hi|auto]].
        cbn [step fs_step]. rewrite fs_insert_range_ok by (try apply is_set_nil; cbn [length]; lia).
        cbn [rbind fst snd]. rewrite present_contract, Ef. reflexivity.
    + (* static_set has no such member: the model leaves the set alone *)
      destruct k; [|destruct o; discriminate].
      exists s, OUnit. split; [|split; [exact Hi|discriminate]].
      destruct o; try discriminate; reflexivity.
Qed.

(** * histories *)
Definition ev_ok (cap : nat) (e : out A * list A) : Prop := is_set (snd e) /\ length (snd e) <= cap.

Lemma run_total k cap ops : forall s, inv cap s -> Forall (op_ok k) ops ->
  exists s' tr, run lt k cap s ops = Ok (s', tr) /\ inv cap s' /\ Forall (ev_ok cap) tr.
Proof.
  induction ops as [|o t IH]; intros s Hi Hok.
  - exists s, []. repeat split; [apply Hi|apply Hi|apply Hi|apply Hi|constructor].
  - inversion Hok as [|? ? Ho Ht]; subst.
    destruct (step_total k cap s o Hi Ho) as (s1 & o1 & E1 & Hi1 & _).
    cbn [run]. rewrite E1. cbn [rbind fst snd].
    assert (He : ev_ok cap (o1, cur s1)) by (unfold ev_ok; cbn [snd]; apply Hi1).
    destruct (is_contract o1).
    + exists s1, [(o1, cur s1)]. split; [reflexivity|]. split; [exact Hi1|]. constructor; [exact He|constructor].
    + destruct (IH s1 Hi1 Ht) as (s' & tr & E2 & Hi2 & Htr). rewrite E2. cbn [rbind fst snd].
      exists s', ((o1, cur s1) :: tr). split; [reflexivity|]. split; [exact Hi2|]. constructor; assumption.
Qed.

Definition present_ev (k : kind) (e : sout A * list A) : out A * list A := (present k (fst e), snd e).

Lemma run_refines k cap ops : forall s s2 tr2, inv cap s -> s_run lt k cap s ops = Some (s2, tr2) ->
  run lt k cap s ops = Ok (s2, map (present_ev k) tr2) /\ inv cap s2.
Proof.
  induction ops as [|o t IH]; intros s s2 tr2 Hi Hs; cbn [s_run] in Hs.
  - inversion Hs; subst. split; [reflexivity|exact Hi].
  - destruct (s_step lt k cap s o) as [[s1 so]|] eqn:Es; [|discriminate].
    destruct (step_refines k cap s o s1 so Hi Es) as [E1 Hi1].
    cbn [run]. rewrite E1. cbn [rbind fst snd]. rewrite present_contract.
    destruct (fatal k so).
    + inversion Hs; subst. split; [reflexivity|exact Hi1].
    + destruct (s_run lt k cap s1 t) as [[s3 rs]|] eqn:Er; [|discriminate]. inversion Hs; subst.
      destruct (IH s1 s2 rs Hi1 Er) as [E2 Hi2]. rewrite E2. split; [reflexivity|exact Hi2].
Qed.

(** * the statements of Properties.v *)
Theorem sorted_unique_inv k cap ops : Forall (op_ok k) ops ->
  exists s tr, run lt k cap init ops = Ok (s, tr)
    /\ is_set (cur s) /\ is_set (oth s) /\ length (cur s) <= cap /\ length (oth s) <= cap
    /\ Forall (fun e => is_set (snd e) /\ length (snd e) <= cap) tr.
Proof.
  intros Hok. destruct (run_total k cap ops init (inv_init cap) Hok) as (s & tr & E & [[H1 H2] [H3 H4]] & Htr).
  exists s, tr. repeat split; assumption.
Qed.

(* static_set: no precondition at all *)
Theorem static_set_sorted_unique_inv cap ops :
  exists s tr, run lt StaticSet cap init ops = Ok (s, tr)
    /\ is_set (cur s) /\ is_set (oth s) /\ length (cur s) <= cap /\ length (oth s) <= cap
    /\ Forall (fun e => is_set (snd e) /\ length (snd e) <= cap) tr.
Proof.
  apply sorted_unique_inv. apply Forall_forall. intros o _. destruct o; exact I.
Qed.

Theorem refines_std k cap ops s2 tr2 : s_run lt k cap init ops = Some (s2, tr2) ->
  run lt k cap init ops = Ok (s2, map (present_ev k) tr2)
  /\ is_set (cur s2) /\ is_set (oth s2)
  /\ (forall tr x, ask k tr (key_cut lt x) (cur s2) = Ok (s_ask (key_cut lt x) (cur s2)))
  /\ (forall c, cut_ok lt c -> ask k true c (cur s2) = Ok (s_ask c (cur s2))).
Proof.
  intros Hs. destruct (run_refines k cap ops init s2 tr2 (inv_init cap) Hs) as [E [[H1 _] [H2 _]]].
  repeat split; try assumption.
  - intros tr x. apply (ask_key lt lt_irrefl lt_trans lt_incomp). exact H1.
  - intros c Hc. apply (ask_cut lt lt_irrefl lt_trans lt_incomp). exact H1. exact Hc.
Qed.

Theorem out_of_domain_is_contract k cap s o : inv cap s -> op_ok k o -> has_member k o = true ->
  s_step lt k cap s o = None -> step lt k cap s o = Ok (s, OContract).
Proof.
  intros Hi Hok Hm Hn. destruct (step_total k cap s o Hi Hok) as (s' & o' & E & _ & H).
  destruct (H Hn Hm) as [-> ->]. exact E.
Qed.

Theorem insert_full_new_key cap l x : is_set l -> length l = cap ->
  (forall e, In e l -> eqv lt x e = false) ->
  ss_insert lt cap l x = Ok (l, OIns None false) /\ fs_emplace lt cap l x = Ok (l, OContract).
Proof.
  intros Hs Hl Hnew.
  assert (Hb : s_insert_bounded lt cap x l = (l, SFull)).
  { unfold s_insert_bounded.
    destruct (insert_cases x l Hs) as (l1 & l3 & _ & [(_ & _ & Hi & _)|(e & Hn & He1 & He2 & Hi)]); rewrite Hi.
    - cbn [andb]. rewrite Hl, Nat.eqb_refl. reflexivity.
    - exfalso. apply nth_error_In in Hn. specialize (Hnew e Hn). unfold eqv in Hnew.
      rewrite He1, He2 in Hnew. discriminate. }
  rewrite ss_insert_ok, fs_emplace_ok by exact Hs. rewrite Hb. split; reflexivity.
Qed.

(* a key that is already there is found, full or not, and nothing changes *)
Theorem insert_present_key cap l x e : is_set l -> In e l -> eqv lt x e = true ->
  exists p, nth_error l p = Some e
    /\ ss_insert lt cap l x = Ok (l, OIns (Some p) false)
    /\ fs_emplace lt cap l x = Ok (l, OIns (Some p) false).
Proof.
  intros Hs Hin He. unfold eqv in He. apply andb_true_iff in He. destruct He as [He1 He2].
  apply negb_true_iff in He1, He2.
  destruct (cut_split lt _ _ Hs (key_cut_ok lt lt_irrefl lt_trans x)) as (l1 & lm & l3 & S3).
  pose proof (key_split_le1 lt lt_irrefl lt_trans lt_incomp x l l1 lm l3 Hs S3) as Hle.
  (* e lies in the middle part *)
  assert (Hm : lm = [e]).
  { pose proof (sp_eq _ _ _ _ _ S3) as E. rewrite E in Hin. apply in_app_or in Hin. destruct Hin as [Hin|Hin].
    - pose proof (sp_1 _ _ _ _ _ S3) as F. rewrite Forall_forall in F. destruct (F e Hin) as [Hb _].
      cbn [below Ops.key_cut] in Hb. congruence.
    - apply in_app_or in Hin. destruct Hin as [Hin|Hin].
      + destruct lm as [|y [|z t]]; cbn [length] in Hle; [destruct Hin| |lia].
        destruct Hin as [->|[]]. reflexivity.
      + pose proof (sp_3 _ _ _ _ _ S3) as F. rewrite Forall_forall in F. destruct (F e Hin) as [_ Ha].
        cbn [above Ops.key_cut] in Ha. congruence. }
  subst lm. exists (length l1). pose proof (nth_lb _ _ _ _ _ S3) as Hn.
  assert (Hb : s_insert_bounded lt cap x l = (l, SIns (length l1) false)).
  { unfold s_insert_bounded. rewrite (sp_eq _ _ _ _ _ S3). cbn [app].
    rewrite (s_insert_dup lt lt_irrefl lt_trans x l1 e l3); [reflexivity| |assumption|assumption].
    eapply Forall_impl; [|exact (sp_1 _ _ _ _ _ S3)]. cbn [below Ops.key_cut]. tauto. }
  rewrite ss_insert_ok, fs_emplace_ok by exact Hs. rewrite Hb. repeat split. exact Hn.
Qed.

(** * flat_multiset construction *)
Theorem flat_multiset_sorted_perm (input : list A) :
  exists l', fms_construct lt input = Ok l' /\ is_multiset_of lt input l'.
Proof.
  destruct (gnome_sort_sorts lt lt_irrefl lt_trans lt_incomp input) as (l' & H1 & H2 & H3 & _).
  exists l'. split; [exact H1|]. split; [exact H2|exact H3].
Qed.

End RunProofs.
