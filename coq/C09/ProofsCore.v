(* C09 proofs, part 1: strictly sorted lists under a strict weak order, the three-way split of a
   set by a lookup key, and what the searching loops and the specification's counting functions
   return on such a split.  Everything else (lookups, insert, erase) is read off the split. *)
From Tetl Require Import Lib.Base Lib.Arr C06b.Model C06b.ProofsBound C09.Ops C09.Model C09.Spec.
From Coq Require Import Arith Lia Sorting.Sorted.
Ltac Zify.zify_post_hook ::= Z.to_euclidean_division_equations.

Section Core.
Context {A : Type}.
Variable lt : A -> A -> bool.
Implicit Types (l : list A) (c : cut A).

Hypothesis lt_irrefl : forall x, lt x x = false.
Hypothesis lt_trans : forall x y z, lt x y = true -> lt y z = true -> lt x z = true.
Hypothesis lt_incomp : forall x y z,
  lt x y = false -> lt y x = false -> lt y z = false -> lt z y = false -> lt x z = false.

Notation is_set := (is_set lt).
Notation cut_ok := (cut_ok lt).

Lemma cmp_asym x y : lt x y = true -> lt y x = false.
Proof.
  intros H. destruct (lt y x) eqn:E; [|reflexivity].
  pose proof (lt_trans _ _ _ H E) as C. rewrite lt_irrefl in C. discriminate.
Qed.

(** * strictly sorted lists *)
Lemma is_set_nil : is_set [].
Proof. constructor. Qed.

Lemma is_set_cons x l : is_set (x :: l) <-> Forall (fun y => lt x y = true) l /\ is_set l.
Proof.
  split.
  - intros H. apply StronglySorted_inv in H. tauto.
  - intros [H1 H2]. constructor; assumption.
Qed.

Lemma is_set_app l1 l2 :
  is_set (l1 ++ l2) <->
  is_set l1 /\ is_set l2 /\ Forall (fun a => Forall (fun b => lt a b = true) l2) l1.
Proof.
  induction l1 as [|x l1 IH]; cbn [app].
  - split; [intros H; repeat split; [apply is_set_nil|exact H|constructor]|tauto].
  - rewrite !is_set_cons, IH, Forall_app. split.
    + intros [[H1 H2] (H3 & H4 & H5)]. repeat split; try assumption. constructor; assumption.
    + intros ([H1 H2] & H3 & H4). inversion H4; subst. tauto.
Qed.

Lemma is_set_drop_middle l1 l2 l3 : is_set (l1 ++ l2 ++ l3) -> is_set (l1 ++ l3).
Proof.
  rewrite !is_set_app. intros (H1 & (H2 & H3 & _) & H4). repeat split; try assumption.
  eapply Forall_impl; [|exact H4]. cbn beta. intros a Ha. apply Forall_app in Ha. tauto.
Qed.

Lemma is_set_filter (p : A -> bool) l : is_set l -> is_set (filter p l).
Proof.
  induction l as [|x l IH]; cbn [filter]; [tauto|].
  rewrite is_set_cons. intros [H1 H2]. destruct (p x); [|auto].
  rewrite is_set_cons. split; [|auto].
  apply Forall_forall. intros y Hy. apply filter_In in Hy.
  rewrite Forall_forall in H1. apply H1. tauto.
Qed.

Lemma is_set_b_spec l : is_set_b lt l = true <-> is_set l.
Proof.
  induction l as [|x l IH]; cbn [is_set_b].
  - split; [intros _; apply is_set_nil|reflexivity].
  - rewrite is_set_cons, andb_true_iff, IH, forallb_forall, Forall_forall. tauto.
Qed.

(** * splitting a sorted list by a downward closed test *)
Definition down_closed (test : A -> bool) : Prop :=
  forall a b, lt a b = true -> test b = true -> test a = true.

Lemma sorted_split (test : A -> bool) l : is_set l -> down_closed test ->
  exists l1 l2, l = l1 ++ l2 /\ Forall (fun e => test e = true) l1 /\ Forall (fun e => test e = false) l2.
Proof.
  intros Hs Hd. induction l as [|x l IH].
  - exists [], []. repeat split; constructor.
  - apply is_set_cons in Hs. destruct Hs as [H1 H2]. destruct (test x) eqn:Tx.
    + destruct (IH H2) as (l1 & l2 & -> & F1 & F2). exists (x :: l1), l2. repeat split; [|exact F2].
      constructor; assumption.
    + exists [], (x :: l). repeat split; [constructor|]. constructor; [exact Tx|].
      eapply Forall_impl; [|exact H1]. cbn beta. intros y Hy.
      destruct (test y) eqn:Ty; [|reflexivity]. rewrite (Hd _ _ Hy Ty) in Tx. discriminate.
Qed.

(** * the halving loop and the counting function on a split list *)
Lemma bound_loop_split (test : A -> bool) l1 l2 :
  Forall (fun e => test e = true) l1 -> Forall (fun e => test e = false) l2 ->
  bound_loop test (l1 ++ l2) (S (length (l1 ++ l2))) 0 (length (l1 ++ l2)) = Ok (length l1).
Proof.
  intros F1 F2. apply bound_loop_correct; try lia.
  - intros i x Hx. rewrite Forall_forall in F1, F2. split; intros Hi.
    + rewrite nth_error_app1 in Hx by exact Hi. apply F1. eapply nth_error_In. exact Hx.
    + rewrite nth_error_app2 in Hx by exact Hi. apply F2. eapply nth_error_In. exact Hx.
  - rewrite app_length. lia.
Qed.

Lemma index_where_split (p : A -> bool) l1 l2 :
  Forall (fun e => p e = false) l1 -> match l2 with [] => True | y :: _ => p y = true end ->
  index_where p (l1 ++ l2) = length l1.
Proof.
  intros F1 H2. induction l1 as [|x l1 IH]; cbn [app length index_where].
  - destruct l2 as [|y t]; [reflexivity|]. cbn [index_where]. rewrite H2. reflexivity.
  - inversion F1; subst. rewrite H1. f_equal. apply IH. assumption.
Qed.

Lemma index_where_none (p : A -> bool) l : Forall (fun e => p e = false) l -> index_where p l = length l.
Proof.
  intros F. rewrite <- (app_nil_r l) at 1. apply index_where_split; [exact F|exact I].
Qed.

Lemma filter_none (p : A -> bool) l : Forall (fun e => p e = false) l -> filter p l = [].
Proof.
  induction 1 as [|x l Hx _ IH]; cbn [filter]; [reflexivity|]. rewrite Hx. exact IH.
Qed.

Lemma filter_all (p : A -> bool) l : Forall (fun e => p e = true) l -> filter p l = l.
Proof.
  induction 1 as [|x l Hx _ IH]; cbn [filter]; [reflexivity|]. rewrite Hx, IH. reflexivity.
Qed.

Lemma existsb_none (p : A -> bool) l : Forall (fun e => p e = false) l -> existsb p l = false.
Proof.
  induction 1 as [|x l Hx _ IH]; cbn [existsb]; [reflexivity|]. rewrite Hx, IH. reflexivity.
Qed.

(** * the three-way split of a set by a key: below / equivalent / above *)
Record split3 c l (l1 lm l3 : list A) : Prop := {
  sp_eq : l = l1 ++ lm ++ l3;
  sp_1 : Forall (fun e => below c e = true /\ above c e = false) l1;
  sp_m : Forall (fun e => below c e = false /\ above c e = false) lm;
  sp_3 : Forall (fun e => below c e = false /\ above c e = true) l3 }.

Lemma cut_split c l : is_set l -> cut_ok c -> exists l1 lm l3, split3 c l l1 lm l3.
Proof.
  intros Hs (Hb & Ha & Hba).
  destruct (sorted_split (below c) l Hs Hb) as (l1 & r & -> & F1 & Fr).
  apply is_set_app in Hs. destruct Hs as (_ & Hr & _).
  destruct (sorted_split (fun e => negb (above c e)) r Hr) as (lm & l3 & -> & Fm & F3).
  { intros a b Hab Hnb. destruct (above c a) eqn:E; [|reflexivity].
    rewrite (Ha _ _ Hab E) in Hnb. discriminate. }
  apply Forall_app in Fr. destruct Fr as [Frm Fr3].
  exists l1, lm, l3. split; [reflexivity| | |].
  - eapply Forall_impl; [|exact F1]. cbn beta. intros e He. split; [exact He|apply Hba; exact He].
  - rewrite Forall_forall in *. intros e He. split; [apply Frm; exact He|].
    apply negb_true_iff. apply Fm. exact He.
  - rewrite Forall_forall in *. intros e He. split; [apply Fr3; exact He|].
    apply negb_false_iff. apply F3. exact He.
Qed.


Lemma sp_len c l l1 lm l3 (S3 : split3 c l l1 lm l3) : length l = length l1 + length lm + length l3.
Proof. rewrite (sp_eq _ _ _ _ _ S3), !app_length. lia. Qed.

Lemma lb_split c l l1 lm l3 (S3 : split3 c l l1 lm l3) : lb_g c l = Ok (length l1).
Proof.
  unfold lb_g. rewrite (sp_eq _ _ _ _ _ S3). apply bound_loop_split.
  - eapply Forall_impl; [|exact (sp_1 _ _ _ _ _ S3)]. cbn beta. tauto.
  - apply Forall_app. split; (eapply Forall_impl; [|first [exact (sp_m _ _ _ _ _ S3)|exact (sp_3 _ _ _ _ _ S3)]]);
      cbn beta; tauto.
Qed.

Lemma ub_split c l l1 lm l3 (S3 : split3 c l l1 lm l3) : ub_g c l = Ok (length l1 + length lm).
Proof.
  unfold ub_g. rewrite (sp_eq _ _ _ _ _ S3), app_assoc, <- app_length. apply bound_loop_split.
  - apply Forall_app. split; (eapply Forall_impl; [|first [exact (sp_1 _ _ _ _ _ S3)|exact (sp_m _ _ _ _ _ S3)]]);
      cbn beta; intros e [_ ->]; reflexivity.
  - eapply Forall_impl; [|exact (sp_3 _ _ _ _ _ S3)]. cbn beta. intros e [_ ->]. reflexivity.
Qed.

Lemma s_lower_split c l l1 lm l3 (S3 : split3 c l l1 lm l3) : s_lower_bound c l = length l1.
Proof.
  unfold s_lower_bound. rewrite (sp_eq _ _ _ _ _ S3). apply index_where_split.
  - eapply Forall_impl; [|exact (sp_1 _ _ _ _ _ S3)]. cbn beta. intros e [-> _]. reflexivity.
  - pose proof (sp_m _ _ _ _ _ S3) as Fm. pose proof (sp_3 _ _ _ _ _ S3) as F3.
    destruct lm as [|y t]; cbn [app].
    + destruct l3 as [|y t]; [exact I|]. inversion F3; subst. destruct H1 as [-> _]. reflexivity.
    + inversion Fm; subst. destruct H1 as [-> _]. reflexivity.
Qed.

Lemma s_upper_split c l l1 lm l3 (S3 : split3 c l l1 lm l3) : s_upper_bound c l = length l1 + length lm.
Proof.
  unfold s_upper_bound. rewrite (sp_eq _ _ _ _ _ S3), app_assoc, <- app_length. apply index_where_split.
  - apply Forall_app. split; (eapply Forall_impl; [|first [exact (sp_1 _ _ _ _ _ S3)|exact (sp_m _ _ _ _ _ S3)]]);
      cbn beta; tauto.
  - pose proof (sp_3 _ _ _ _ _ S3) as F3. destruct l3 as [|y t]; [exact I|]. inversion F3; subst. tauto.
Qed.

Lemma matches_1 c l l1 lm l3 (S3 : split3 c l l1 lm l3) : Forall (fun e => matches c e = false) l1.
Proof.
  eapply Forall_impl; [|exact (sp_1 _ _ _ _ _ S3)]. cbn beta. unfold matches. intros e [-> _]. reflexivity.
Qed.
Lemma matches_m c l l1 lm l3 (S3 : split3 c l l1 lm l3) : Forall (fun e => matches c e = true) lm.
Proof.
  eapply Forall_impl; [|exact (sp_m _ _ _ _ _ S3)]. cbn beta. unfold matches. intros e [-> ->]. reflexivity.
Qed.
Lemma matches_3 c l l1 lm l3 (S3 : split3 c l l1 lm l3) : Forall (fun e => matches c e = false) l3.
Proof.
  eapply Forall_impl; [|exact (sp_3 _ _ _ _ _ S3)]. cbn beta. unfold matches. intros e [_ ->].
  apply andb_false_r.
Qed.

Lemma s_find_split c l l1 lm l3 (S3 : split3 c l l1 lm l3) : s_find c l = match lm with [] => length l | _ :: _ => length l1 end.
Proof.
  unfold s_find. destruct lm as [|y t].
  - apply index_where_none. rewrite (sp_eq _ _ _ _ _ S3). cbn [app].
    apply Forall_app. split; [apply (matches_1 _ _ _ _ _ S3)|apply (matches_3 _ _ _ _ _ S3)].
  - rewrite (sp_eq _ _ _ _ _ S3). apply index_where_split; [apply (matches_1 _ _ _ _ _ S3)|].
    cbn [app]. pose proof (matches_m _ _ _ _ _ S3) as M. inversion M; subst. assumption.
Qed.

Lemma s_count_split c l l1 lm l3 (S3 : split3 c l l1 lm l3) : s_count c l = length lm.
Proof.
  unfold s_count. rewrite (sp_eq _ _ _ _ _ S3), !filter_app.
  rewrite (filter_none _ _ (matches_1 _ _ _ _ _ S3)), (filter_none _ _ (matches_3 _ _ _ _ _ S3)), (filter_all _ _ (matches_m _ _ _ _ _ S3)).
  rewrite app_nil_r. reflexivity.
Qed.

Lemma s_contains_split c l l1 lm l3 (S3 : split3 c l l1 lm l3) : s_contains c l = match lm with [] => false | _ :: _ => true end.
Proof.
  unfold s_contains. rewrite (sp_eq _ _ _ _ _ S3), !existsb_app.
  rewrite (existsb_none _ _ (matches_1 _ _ _ _ _ S3)), (existsb_none _ _ (matches_3 _ _ _ _ _ S3)), orb_false_r. cbn [orb].
  pose proof (matches_m _ _ _ _ _ S3) as M. destruct lm as [|y t]; [reflexivity|]. inversion M; subst.
  cbn [existsb]. rewrite H1. reflexivity.
Qed.

(* the element the lower bound points at *)
Lemma nth_lb c l l1 lm l3 (S3 : split3 c l l1 lm l3) : nth_error l (length l1) = match lm with y :: _ => Some y | [] => hd_error l3 end.
Proof.
  rewrite (sp_eq _ _ _ _ _ S3), nth_error_app2, Nat.sub_diag by lia.
  destruct lm as [|y t]; [|reflexivity]. cbn [app]. destruct l3; reflexivity.
Qed.

Lemma find_split c l l1 lm l3 (S3 : split3 c l l1 lm l3) : find_g c l = Ok (s_find c l).
Proof.
  unfold find_g. rewrite (lb_split _ _ _ _ _ S3). cbn [rbind]. rewrite (nth_lb _ _ _ _ _ S3), (s_find_split _ _ _ _ _ S3). f_equal.
  pose proof (sp_m _ _ _ _ _ S3) as Fm. pose proof (sp_3 _ _ _ _ _ S3) as F3.
  destruct lm as [|y t].
  - destruct l3 as [|y t]; cbn [hd_error]; [reflexivity|]. inversion F3; subst. destruct H1 as [_ ->]. reflexivity.
  - inversion Fm; subst. destruct H1 as [_ ->]. reflexivity.
Qed.

Lemma equal_range_split c l l1 lm l3 (S3 : split3 c l l1 lm l3) : equal_range_g c l = Ok (length l1, length l1 + length lm).
Proof. unfold equal_range_g. rewrite (lb_split _ _ _ _ _ S3), (ub_split _ _ _ _ _ S3). reflexivity. Qed.

(* erasing the equivalent elements *)
Lemma sv_erase_split c l l1 lm l3 (S3 : split3 c l l1 lm l3) : sv_erase l (length l1) (length l1 + length lm) = Some (l1 ++ l3, length l1).
Proof.
  unfold sv_erase. rewrite (sp_len _ _ _ _ _ S3).
  replace ((length l1 <=? length l1 + length lm + length l3) && (length l1 + length lm <=? length l1 + length lm + length l3)
           && (length l1 <=? length l1 + length lm)) with true
    by (symmetry; rewrite !andb_true_iff, !Nat.leb_le; lia).
  rewrite (sp_eq _ _ _ _ _ S3). f_equal. f_equal. f_equal.
  - rewrite firstn_app, Nat.sub_diag, firstn_all. cbn [firstn]. apply app_nil_r.
  - rewrite app_assoc, <- app_length, skipn_app, Nat.sub_diag, skipn_all. reflexivity.
Qed.


(** * a key_type key is a cut, and at most one element of a set is equivalent to it *)
Lemma key_cut_ok k : cut_ok (key_cut lt k).
Proof.
  repeat split; cbn [below above key_cut].
  - intros a b H1 H2. eapply lt_trans; eassumption.
  - intros a b H1 H2. eapply lt_trans; eassumption.
  - intros a. apply cmp_asym.
Qed.

Lemma key_split_le1 k l l1 lm l3 : is_set l -> split3 (key_cut lt k) l l1 lm l3 -> length lm <= 1.
Proof.
  intros Hs S3. pose proof (sp_m _ _ _ _ _ S3) as Fm. rewrite (sp_eq _ _ _ _ _ S3) in Hs.
  apply is_set_app in Hs. destruct Hs as (_ & Hs & _). apply is_set_app in Hs. destruct Hs as (Hm & _ & _).
  destruct lm as [|a [|b t]]; cbn [length]; try lia. exfalso.
  apply is_set_cons in Hm. destruct Hm as [Hab _]. inversion Hab; subst.
  inversion Fm as [|? ? [Ha1 Ha2] Fm']; subst. inversion Fm' as [|? ? [Hb1 Hb2] _]; subst.
  cbn [below above key_cut] in *.
  rewrite (lt_incomp a k b) in H1; [discriminate| | | | ]; assumption.
Qed.

End Core.
