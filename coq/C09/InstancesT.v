(* C09: heterogeneous keys of the second transparent comparator of the correspondence harness,
   etl::greater<> (descending order): a point HK{v} and a band HB{lo, hi} as greater<> sees them --
   comp(e, key) = e > key, comp(key, e) = key > e; for the band: e > HB = e > hi, HB > e = lo > e.
   (Added by the review: with less<> as the only transparent comparator a heterogeneous overload that
   hard-codes less<> instead of key_compare cannot be seen.) *)
From Tetl Require Import Lib.Base C09.Ops C09.Spec C09.Instances.
From Coq Require Import Lia.
Local Open Scope Z_scope.

Definition point_cut_g (v : Z) : cut Z := {| below := fun e => v <? e; above := fun e => e <? v |}.
Definition band_cut_g (lo hi : Z) : cut Z := {| below := fun e => hi <? e; above := fun e => e <? lo |}.

(* a point key of key_type value v is the key_type key itself *)
Lemma point_cut_g_is_key v e : below (point_cut_g v) e = below (key_cut cmp_greater v) e
                            /\ above (point_cut_g v) e = above (key_cut cmp_greater v) e.
Proof. split; reflexivity. Qed.

Lemma point_cut_g_ok v : cut_ok cmp_greater (point_cut_g v).
Proof.
  unfold cut_ok, cmp_greater, point_cut_g. cbn [below above]. repeat split.
  - intros a b H1 H2. apply Z.ltb_lt in H1, H2. apply Z.ltb_lt. lia.
  - intros a b H1 H2. apply Z.ltb_lt in H1, H2. apply Z.ltb_lt. lia.
  - intros a H. apply Z.ltb_lt in H. apply Z.ltb_ge. lia.
Qed.

Lemma band_cut_g_ok lo hi : lo <= hi -> cut_ok cmp_greater (band_cut_g lo hi).
Proof.
  intros Hlh. unfold cut_ok, cmp_greater, band_cut_g. cbn [below above]. repeat split.
  - intros a b H1 H2. apply Z.ltb_lt in H1, H2. apply Z.ltb_lt. lia.
  - intros a b H1 H2. apply Z.ltb_lt in H1, H2. apply Z.ltb_lt. lia.
  - intros a H. apply Z.ltb_lt in H. apply Z.ltb_ge. lia.
Qed.
