(* C09 proofs, part 6: flat_set with a stored comparator (ModelCmp.v).  Each set is sorted by the
   comparator it holds at that moment; histories inside std::set's domain return exactly what
   std::set (which stores, copies and swaps its comparator the same way) returns. *)
From Tetl Require Import Lib.Base C06a.Model C09.Ops C09.Model C09.Spec C09.ModelCmp
  C09.ProofsCore C09.ProofsOps C09.ProofsRun.
From Coq Require Import Arith Lia Sorting.Sorted.
Ltac Zify.zify_post_hook ::= Z.to_euclidean_division_equations.

Section CmpProofs.
Context {A : Type}.
Variable lt0 : A -> A -> bool.
Hypothesis H0 : strict_weak lt0.
Implicit Types (s : st2 A) (o : op A).

Definition wf1 (cap : nat) (x : cset A) : Prop :=
  strict_weak (cmp x) /\ is_set (cmp x) (elems x) /\ length (elems x) <= cap.
Definition wf2 (cap : nat) (s : st2 A) : Prop := wf1 cap (cur2 s) /\ wf1 cap (oth2 s).

Definition plain (o : op A) : bool := match o with Swap | CopyFrom => false | _ => true end.

Lemma fs_step2_plain cap s o : plain o = true ->
  fs_step2 lt0 cap s o =
  (if resets_cmp o then
     do r <- fs_step lt0 cap (lone []) o;
     Ok (if is_contract (snd r) then (s, OContract)
         else ({| cur2 := {| cmp := lt0; elems := cur (fst r) |}; oth2 := oth2 s |}, snd r))
   else
     do r <- fs_step (cmp (cur2 s)) cap (lone (elems (cur2 s))) o;
     Ok ({| cur2 := {| cmp := cmp (cur2 s); elems := cur (fst r) |}; oth2 := oth2 s |}, snd r)).
Proof. destruct o; intros H; try discriminate H; reflexivity. Qed.

Lemma s_step2_plain cap s o : plain o = true ->
  s_step2 lt0 cap s o =
  (let c := if resets_cmp o then lt0 else cmp (cur2 s) in
   let l := if resets_cmp o then [] else elems (cur2 s) in
   match s_step c FlatSet cap (lone l) o with
   | None => None
   | Some (s', r) => Some ({| cur2 := {| cmp := c; elems := cur s' |}; oth2 := oth2 s |}, r)
   end).
Proof. destruct o; intros H; try discriminate H; reflexivity. Qed.

(* the constructors never refuse a key inside the domain *)
Lemma resets_not_full (c : A -> A -> bool) cap (t : st A) o t' so :
  s_step c FlatSet cap t o = Some (t', so) -> resets_cmp o = true -> fatal FlatSet so = false.
Proof.
  unfold s_step. destruct o; cbn [resets_cmp]; intros H Hr; try discriminate Hr; cbn [has_member negb] in H.
  - destruct (length ks <=? cap); [|discriminate]. inversion H; subst. reflexivity.
  - destruct (is_set_b c ks && (length ks <=? cap)); [|discriminate]. inversion H; subst. reflexivity.
  - destruct (fatal FlatSet (snd (s_insert_range c FlatSet cap ks []))); [discriminate|]. inversion H; subst. reflexivity.
Qed.

Lemma inv_lone (c : A -> A -> bool) cap l : is_set c l -> length l <= cap -> inv c cap (lone l).
Proof. intros H1 H2. unfold inv, lone. cbn [cur oth length]. repeat split; try assumption; [apply is_set_nil|lia]. Qed.

Lemma step2_refines cap s o s2 so : wf2 cap s -> s_step2 lt0 cap s o = Some (s2, so) ->
  fs_step2 lt0 cap s o = Ok (s2, present FlatSet so) /\ wf2 cap s2.
Proof.
  intros [Hc Ho] Hs. destruct (plain o) eqn:Hp.
  - rewrite s_step2_plain in Hs by exact Hp. rewrite fs_step2_plain by exact Hp. cbn zeta in Hs.
    destruct (resets_cmp o) eqn:Er.
    + (* a freshly constructed set under Compare() *)
      destruct H0 as (Hi & Ht & Hn).
      destruct (s_step lt0 FlatSet cap (lone []) o) as [[t' r]|] eqn:Es; [|discriminate].
      inversion Hs; subst s2 so; clear Hs.
      destruct (step_refines lt0 Hi Ht Hn FlatSet cap (lone []) o t' r
                  (inv_lone lt0 cap [] (is_set_nil lt0) (Nat.le_0_l _)) Es) as [E [[I1 I2] _]].
      cbn [step] in E. rewrite E. cbn [rbind fst snd].
      rewrite present_contract, (resets_not_full lt0 cap (lone []) o t' r Es Er).
      split; [reflexivity|]. split; [|exact Ho]. unfold wf1. cbn [cmp elems]. repeat split; assumption.
    + destruct Hc as (Hsw & H1 & H2). pose proof Hsw as (Hi & Ht & Hn).
      destruct (s_step (cmp (cur2 s)) FlatSet cap (lone (elems (cur2 s))) o) as [[t' r]|] eqn:Es; [|discriminate].
      inversion Hs; subst s2 so; clear Hs.
      destruct (step_refines (cmp (cur2 s)) Hi Ht Hn FlatSet cap (lone (elems (cur2 s))) o t' r
                  (inv_lone _ cap _ H1 H2) Es) as [E [[I1 I2] _]].
      cbn [step] in E. rewrite E. cbn [rbind fst snd].
      split; [reflexivity|]. split; [|exact Ho]. unfold wf1. cbn [cmp elems]. repeat split; assumption.
  - destruct o; try discriminate Hp; cbn [s_step2 fs_step2] in *; inversion Hs; subst; clear Hs;
      (split; [reflexivity|]); unfold wf2; cbn [cur2 oth2]; tauto.
Qed.

Lemma run2_refines cap ops : forall s s2 tr2, wf2 cap s -> s_run2 lt0 cap s ops = Some (s2, tr2) ->
  run2 lt0 cap s ops = Ok (s2, map (present_ev FlatSet) tr2) /\ wf2 cap s2.
Proof.
  induction ops as [|o t IH]; intros s s2 tr2 Hw Hs; cbn [s_run2] in Hs.
  - inversion Hs; subst. split; [reflexivity|exact Hw].
  - destruct (s_step2 lt0 cap s o) as [[s1 so]|] eqn:Es; [|discriminate].
    destruct (step2_refines cap s o s1 so Hw Es) as [E1 Hw1].
    cbn [run2]. rewrite E1. cbn [rbind fst snd]. rewrite present_contract.
    destruct (fatal FlatSet so).
    + inversion Hs; subst. split; [reflexivity|exact Hw1].
    + destruct (s_run2 lt0 cap s1 t) as [[s3 rs]|] eqn:Er; [|discriminate]. inversion Hs; subst.
      destruct (IH s1 s2 rs Hw1 Er) as [E2 Hw2]. rewrite E2. split; [reflexivity|exact Hw2].
Qed.

Theorem stored_comparator_refines_std (lt1 lt2 : A -> A -> bool) cap ops s2 tr2 :
  strict_weak lt1 -> strict_weak lt2 ->
  s_run2 lt0 cap (init2 lt1 lt2) ops = Some (s2, tr2) ->
  run2 lt0 cap (init2 lt1 lt2) ops = Ok (s2, map (present_ev FlatSet) tr2)
  /\ is_set (cmp (cur2 s2)) (elems (cur2 s2)) /\ is_set (cmp (oth2 s2)) (elems (oth2 s2))
  /\ length (elems (cur2 s2)) <= cap /\ length (elems (oth2 s2)) <= cap
  /\ (forall tr x, ask FlatSet tr (key_cut (cmp (cur2 s2)) x) (elems (cur2 s2))
                   = Ok (s_ask (key_cut (cmp (cur2 s2)) x) (elems (cur2 s2)))).
Proof.
  intros Hl1 Hl2 Hs.
  assert (Hw : wf2 cap (init2 lt1 lt2)).
  { unfold wf2, wf1, init2. cbn [cur2 oth2 cmp elems length].
    split; (split; [assumption|split; [apply is_set_nil|lia]]). }
  destruct (run2_refines cap ops _ s2 tr2 Hw Hs) as [E [(Hsw & H1 & H2) (_ & H3 & H4)]].
  repeat split; try assumption.
  intros tr x. destruct Hsw as (Hi & Ht & Hn). apply (ask_key _ Hi Ht Hn). exact H1.
Qed.

(** * all histories: the sets stay sorted under the comparator they hold, whatever is called *)
(* the precondition the code cannot check, at the state the call is made in: replace is handed a
   container sorted under the set's current comparator, the sorted_unique constructor one sorted
   under Compare() *)
Definition ok2 (s : st2 A) (o : op A) : Prop :=
  match o with
  | Replace ks => is_set (cmp (cur2 s)) ks
  | AssignSorted ks => is_set lt0 ks
  | _ => True
  end.

Fixpoint hist_ok2 (cap : nat) (s : st2 A) (ops : list (op A)) : Prop :=
  match ops with
  | [] => True
  | o :: t =>
      ok2 s o /\
      match fs_step2 lt0 cap s o with
      | Ok r => is_contract (snd r) = true \/ hist_ok2 cap (fst r) t
      | _ => True
      end
  end.

Lemma step2_total cap s o : wf2 cap s -> ok2 s o ->
  exists s' r, fs_step2 lt0 cap s o = Ok (s', r) /\ wf2 cap s'.
Proof.
  intros [Hc Ho] Hok. destruct (plain o) eqn:Hp.
  - rewrite fs_step2_plain by exact Hp. destruct (resets_cmp o) eqn:Er.
    + destruct H0 as (Hi & Ht & Hn).
      assert (Hop : op_ok lt0 FlatSet o) by (destruct o; try exact I; try discriminate Er; exact Hok).
      destruct (step_total lt0 Hi Ht Hn FlatSet cap (lone []) o
                  (inv_lone lt0 cap [] (is_set_nil lt0) (Nat.le_0_l _)) Hop) as (t' & r' & E & [[I1 I2] _] & _).
      cbn [step] in E. rewrite E. cbn [rbind fst snd].
      destruct (is_contract r').
      * exists s, OContract. split; [reflexivity|]. split; assumption.
      * eexists. eexists. split; [reflexivity|]. split; [|exact Ho].
        unfold wf1. cbn [cur2 cmp elems]. split; [repeat split; assumption|]. split; assumption.
    + destruct Hc as (Hsw & H1 & H2). pose proof Hsw as (Hi & Ht & Hn).
      assert (Hop : op_ok (cmp (cur2 s)) FlatSet o) by (destruct o; try exact I; try discriminate Er; exact Hok).
      destruct (step_total (cmp (cur2 s)) Hi Ht Hn FlatSet cap (lone (elems (cur2 s))) o
                  (inv_lone _ cap _ H1 H2) Hop) as (t' & r' & E & [[I1 I2] _] & _).
      cbn [step] in E. rewrite E. cbn [rbind fst snd].
      eexists. eexists. split; [reflexivity|]. split; [|exact Ho].
      unfold wf1. cbn [cur2 cmp elems]. split; [exact Hsw|]. split; assumption.
  - destruct o; try discriminate Hp; cbn [fs_step2]; eexists; eexists; (split; [reflexivity|]);
      unfold wf2; cbn [cur2 oth2]; tauto.
Qed.

Theorem stored_comparator_sorted_inv (lt1 lt2 : A -> A -> bool) cap ops :
  strict_weak lt1 -> strict_weak lt2 -> hist_ok2 cap (init2 lt1 lt2) ops ->
  exists s tr, run2 lt0 cap (init2 lt1 lt2) ops = Ok (s, tr)
    /\ is_set (cmp (cur2 s)) (elems (cur2 s)) /\ is_set (cmp (oth2 s)) (elems (oth2 s))
    /\ length (elems (cur2 s)) <= cap /\ length (elems (oth2 s)) <= cap
    /\ Forall (fun e => length (snd e) <= cap) tr.
Proof.
  intros Hl1 Hl2.
  assert (Hw : wf2 cap (init2 lt1 lt2)).
  { unfold wf2, wf1, init2. cbn [cur2 oth2 cmp elems length].
    split; (split; [assumption|split; [apply is_set_nil|lia]]). }
  revert Hw. generalize (init2 lt1 lt2).
  assert (G : forall ops s, wf2 cap s -> hist_ok2 cap s ops ->
            exists s' tr, run2 lt0 cap s ops = Ok (s', tr) /\ wf2 cap s' /\ Forall (fun e => length (snd e) <= cap) tr).
  { clear ops. induction ops as [|o t IH]; intros s Hw Hh.
    - exists s, []. split; [reflexivity|]. split; [exact Hw|constructor].
    - cbn [hist_ok2] in Hh. destruct Hh as [Hok Hrest].
      destruct (step2_total cap s o Hw Hok) as (s1 & r1 & E & Hw1).
      rewrite E in Hrest. cbn [fst snd] in Hrest. cbn [run2]. rewrite E. cbn [rbind fst snd].
      assert (Hl : length (elems (cur2 s1)) <= cap) by apply Hw1.
      destruct (is_contract r1) eqn:Ec.
      + exists s1, [(r1, elems (cur2 s1))]. split; [reflexivity|]. split; [exact Hw1|]. constructor; [exact Hl|constructor].
      + destruct Hrest as [C|Hrest]; [discriminate C|].
        destruct (IH s1 Hw1 Hrest) as (s' & tr & E2 & Hw2 & Htr). rewrite E2. cbn [rbind fst snd].
        exists s', ((r1, elems (cur2 s1)) :: tr). split; [reflexivity|]. split; [exact Hw2|]. constructor; assumption. }
  intros s0 Hw Hh. destruct (G ops s0 Hw Hh) as (s' & tr & E & [(_ & H1 & H2) (_ & H3 & H4)] & Htr).
  exists s', tr. repeat split; assumption.
Qed.

End CmpProofs.
