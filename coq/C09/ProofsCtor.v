(* C09 proofs, part 7: histories that also assign sets constructed with an explicit comparator
   (ModelCtor.v).  Every step is a ModelCmp.v step with Compare() := the comparator handed to the
   constructor, so the step lemmas of ProofsCmp.v apply at that comparator. *)
From Tetl Require Import Lib.Base C06a.Model C09.Ops C09.Model C09.Spec C09.ModelCmp C09.ModelCtor
  C09.ProofsCore C09.ProofsOps C09.ProofsRun C09.ProofsCmp.
From Coq Require Import Arith Lia Sorting.Sorted.
Ltac Zify.zify_post_hook ::= Z.to_euclidean_division_equations.

Section CtorProofs.
Context {A : Type}.
Variable lt0 : A -> A -> bool.
Implicit Types (s : st2 A) (o : op2 A).

(* every comparator a constructor of the history receives (Compare() for the calls without one) is a
   strict weak order *)
Definition cmps_ok (ops : list (op2 A)) : Prop := Forall (fun o => strict_weak (ctor_cmp lt0 o)) ops.

Lemma step3_refines cap s o s2 so : strict_weak (ctor_cmp lt0 o) -> wf2 cap s ->
  s_step3 lt0 cap s o = Some (s2, so) ->
  fs_step3 lt0 cap s o = Ok (s2, present FlatSet so) /\ wf2 cap s2.
Proof. intros Hc Hw Hs. exact (step2_refines (ctor_cmp lt0 o) Hc cap s (base_op o) s2 so Hw Hs). Qed.

Lemma run3_refines cap ops : forall s s2 tr2, cmps_ok ops -> wf2 cap s ->
  s_run3 lt0 cap s ops = Some (s2, tr2) ->
  run3 lt0 cap s ops = Ok (s2, map (present_ev FlatSet) tr2) /\ wf2 cap s2.
Proof.
  induction ops as [|o t IH]; intros s s2 tr2 Hc Hw Hs; cbn [s_run3] in Hs.
  - inversion Hs; subst. split; [reflexivity|exact Hw].
  - inversion Hc as [|o' t' Hco Hct]; subst.
    destruct (s_step3 lt0 cap s o) as [[s1 so]|] eqn:Es; [|discriminate].
    destruct (step3_refines cap s o s1 so Hco Hw Es) as [E1 Hw1].
    cbn [run3]. rewrite E1. cbn [rbind fst snd]. rewrite present_contract.
    destruct (fatal FlatSet so).
    + inversion Hs; subst. split; [reflexivity|exact Hw1].
    + destruct (s_run3 lt0 cap s1 t) as [[s3 rs]|] eqn:Er; [|discriminate]. inversion Hs; subst.
      destruct (IH s1 s2 rs Hct Hw1 Er) as [E2 Hw2]. rewrite E2. split; [reflexivity|exact Hw2].
Qed.

Lemma wf2_init2 (lt1 lt2 : A -> A -> bool) cap : strict_weak lt1 -> strict_weak lt2 -> wf2 cap (init2 lt1 lt2).
Proof.
  intros H1 H2. unfold wf2, wf1, init2. cbn [cur2 oth2 cmp elems length].
  split; (split; [assumption|split; [apply is_set_nil|lia]]).
Qed.

Theorem comparator_constructors_refine_std (lt1 lt2 : A -> A -> bool) cap ops s2 tr2 :
  strict_weak lt1 -> strict_weak lt2 -> cmps_ok ops ->
  s_run3 lt0 cap (init2 lt1 lt2) ops = Some (s2, tr2) ->
  run3 lt0 cap (init2 lt1 lt2) ops = Ok (s2, map (present_ev FlatSet) tr2)
  /\ is_set (cmp (cur2 s2)) (elems (cur2 s2)) /\ is_set (cmp (oth2 s2)) (elems (oth2 s2))
  /\ length (elems (cur2 s2)) <= cap /\ length (elems (oth2 s2)) <= cap
  /\ (forall tr x, ask FlatSet tr (key_cut (cmp (cur2 s2)) x) (elems (cur2 s2))
                   = Ok (s_ask (key_cut (cmp (cur2 s2)) x) (elems (cur2 s2)))).
Proof.
  intros Hl1 Hl2 Hc Hs.
  destruct (run3_refines cap ops _ s2 tr2 Hc (wf2_init2 lt1 lt2 cap Hl1 Hl2) Hs)
    as [E [(Hsw & H1 & H2) (_ & H3 & H4)]].
  repeat split; try assumption.
  intros tr x. destruct Hsw as (Hi & Ht & Hn). apply (ask_key _ Hi Ht Hn). exact H1.
Qed.

(** * all histories *)
(* the precondition the code cannot check: replace gets a container sorted under the set's current
   comparator, a sorted_unique constructor one sorted under the comparator it receives *)
Definition ok3 (s : st2 A) (o : op2 A) : Prop := ok2 (ctor_cmp lt0 o) s (base_op o).

Fixpoint hist_ok3 (cap : nat) (s : st2 A) (ops : list (op2 A)) : Prop :=
  match ops with
  | [] => True
  | o :: t =>
      ok3 s o /\
      match fs_step3 lt0 cap s o with
      | Ok r => is_contract (snd r) = true \/ hist_ok3 cap (fst r) t
      | _ => True
      end
  end.

Lemma step3_total cap s o : strict_weak (ctor_cmp lt0 o) -> wf2 cap s -> ok3 s o ->
  exists s' r, fs_step3 lt0 cap s o = Ok (s', r) /\ wf2 cap s'.
Proof. intros Hc Hw Hok. exact (step2_total (ctor_cmp lt0 o) Hc cap s (base_op o) Hw Hok). Qed.

Theorem comparator_constructors_sorted_inv (lt1 lt2 : A -> A -> bool) cap ops :
  strict_weak lt1 -> strict_weak lt2 -> cmps_ok ops -> hist_ok3 cap (init2 lt1 lt2) ops ->
  exists s tr, run3 lt0 cap (init2 lt1 lt2) ops = Ok (s, tr)
    /\ is_set (cmp (cur2 s)) (elems (cur2 s)) /\ is_set (cmp (oth2 s)) (elems (oth2 s))
    /\ length (elems (cur2 s)) <= cap /\ length (elems (oth2 s)) <= cap
    /\ Forall (fun e => length (snd e) <= cap) tr.
Proof.
  intros Hl1 Hl2.
  pose proof (wf2_init2 lt1 lt2 cap Hl1 Hl2) as Hw.
  revert Hw. generalize (init2 lt1 lt2).
  assert (G : forall ops s, cmps_ok ops -> wf2 cap s -> hist_ok3 cap s ops ->
            exists s' tr, run3 lt0 cap s ops = Ok (s', tr) /\ wf2 cap s' /\ Forall (fun e => length (snd e) <= cap) tr).
  { clear ops. induction ops as [|o t IH]; intros s Hc Hw Hh.
    - exists s, []. split; [reflexivity|]. split; [exact Hw|constructor].
    - inversion Hc as [|o' t' Hco Hct]; subst.
      cbn [hist_ok3] in Hh. destruct Hh as [Hok Hrest].
      destruct (step3_total cap s o Hco Hw Hok) as (s1 & r1 & E & Hw1).
      rewrite E in Hrest. cbn [fst snd] in Hrest. cbn [run3]. rewrite E. cbn [rbind fst snd].
      assert (Hl : length (elems (cur2 s1)) <= cap) by apply Hw1.
      destruct (is_contract r1) eqn:Ec.
      + exists s1, [(r1, elems (cur2 s1))]. split; [reflexivity|]. split; [exact Hw1|]. constructor; [exact Hl|constructor].
      + destruct Hrest as [C|Hrest]; [discriminate C|].
        destruct (IH s1 Hct Hw1 Hrest) as (s' & tr & E2 & Hw2 & Htr). rewrite E2. cbn [rbind fst snd].
        exists s', ((r1, elems (cur2 s1)) :: tr). split; [reflexivity|]. split; [exact Hw2|]. constructor; assumption. }
  intros s0 Hw Hc Hh. destruct (G ops s0 Hc Hw Hh) as (s' & tr & E & [(_ & H1 & H2) (_ & H3 & H4)] & Htr).
  exists s', tr. repeat split; assumption.
Qed.

(* histories without the two constructors are exactly the histories of ModelCmp.v *)
Lemma run3_plain cap ops : forall s, run3 lt0 cap s (map (@Plain A) ops) = run2 lt0 cap s ops.
Proof.
  induction ops as [|o t IH]; intros s; [reflexivity|].
  cbn [map run3 run2]. unfold fs_step3. cbn [ctor_cmp base_op].
  destruct (fs_step2 lt0 cap s o) as [r| | |]; cbn [rbind]; try reflexivity.
  destruct (is_contract (snd r)); [reflexivity|]. rewrite IH. reflexivity.
Qed.

End CtorProofs.
