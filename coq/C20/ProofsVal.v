(* C20 proofs, part (i): pair relations are the lexicographic order (for any asymmetric comparison, in
   particular any strict weak order, and concretely for Z), tuple equality is list equality, swap exchanges,
   index-sequence expansion visits every element once in order (apply, make_from_tuple), tuple_cat is
   concatenation -- all for ANY arity / number of operands. *)
From Tetl Require Import Lib.Base C20.Model C20.Spec.
Local Open Scope Z_scope.

Section Rel.
Context {A : Type}.
Variable lt : A -> A -> bool.
(* the only property of operator< the six relations need: a strict (weak) order is asymmetric *)
Hypothesis lt_asym : forall a b, lt a b = true -> lt b a = false.

Lemma pair_lt_lex : forall l r, pair_lt_m lt l r = true <-> lex_lt lt l r.
Proof.
  intros [a1 a2] [b1 b2]. unfold pair_lt_m, lex_lt, equiv. cbn [fst snd].
  destruct (lt a1 b1) eqn:H1.
  - split; [intros _; left; reflexivity|reflexivity].
  - destruct (lt b1 a1) eqn:H2.
    + split; [discriminate|]. intros [H|[[_ H] _]]; discriminate H.
    + destruct (lt a2 b2) eqn:H3.
      * split; [intros _; right; repeat split; reflexivity|reflexivity].
      * split; [discriminate|]. intros [H|[_ H]]; discriminate H.
Qed.

Lemma pair_gt_lex : forall l r, pair_gt_m lt l r = true <-> lex_lt lt r l.
Proof. intros l r. unfold pair_gt_m. apply pair_lt_lex. Qed.

(* exactly one of  l < r,  r < l,  l ~ r  holds *)
Lemma lex_trichotomy : forall l r,
  (lex_lt lt l r /\ ~ lex_lt lt r l /\ ~ lex_equiv lt l r) \/
  (~ lex_lt lt l r /\ lex_lt lt r l /\ ~ lex_equiv lt l r) \/
  (~ lex_lt lt l r /\ ~ lex_lt lt r l /\ lex_equiv lt l r).
Proof.
  intros [a1 a2] [b1 b2]. unfold lex_lt, lex_equiv, equiv. cbn [fst snd].
  destruct (lt a1 b1) eqn:H1; destruct (lt b1 a1) eqn:H2;
    try (rewrite (lt_asym _ _ H1) in H2; discriminate H2);
    destruct (lt a2 b2) eqn:H3; destruct (lt b2 a2) eqn:H4;
    try (rewrite (lt_asym _ _ H3) in H4; discriminate H4); intuition congruence.
Qed.

Lemma pair_le_lex : forall l r, pair_le_m lt l r = true <-> (lex_lt lt l r \/ lex_equiv lt l r).
Proof.
  intros l r. unfold pair_le_m. rewrite negb_true_iff.
  destruct (pair_lt_m lt r l) eqn:H.
  - apply pair_lt_lex in H. split; [discriminate|]. destruct (lex_trichotomy l r); intuition.
  - assert (Hn : ~ lex_lt lt r l) by (intros Hx; apply pair_lt_lex in Hx; congruence).
    split; [intros _|reflexivity]. destruct (lex_trichotomy l r); intuition.
Qed.

Lemma pair_ge_lex : forall l r, pair_ge_m lt l r = true <-> (lex_lt lt r l \/ lex_equiv lt l r).
Proof.
  intros l r. unfold pair_ge_m. rewrite negb_true_iff.
  destruct (pair_lt_m lt l r) eqn:H.
  - apply pair_lt_lex in H. split; [discriminate|]. destruct (lex_trichotomy l r); intuition.
  - assert (Hn : ~ lex_lt lt l r) by (intros Hx; apply pair_lt_lex in Hx; congruence).
    split; [intros _|reflexivity]. destruct (lex_trichotomy l r); intuition.
Qed.
End Rel.

Section Eq.
Context {A : Type}.
Variable eqb : A -> A -> bool.
Hypothesis eqb_spec : forall a b, eqb a b = true <-> a = b.

Lemma pair_eq_spec : forall l r, pair_eq_m eqb l r = true <-> l = r.
Proof.
  intros [a1 a2] [b1 b2]. unfold pair_eq_m. cbn [fst snd]. rewrite andb_true_iff, !eqb_spec.
  split; [intros [-> ->]; reflexivity|intros H; inversion H; split; reflexivity].
Qed.

Lemma pair_ne_spec : forall l r, pair_ne_m eqb l r = true <-> l <> r.
Proof.
  intros l r. unfold pair_ne_m. rewrite negb_true_iff. destruct (pair_eq_m eqb l r) eqn:H.
  - apply pair_eq_spec in H. split; [discriminate|congruence].
  - split; [|reflexivity]. intros _ Hx. apply pair_eq_spec in Hx. congruence.
Qed.

Variable d : A.

(* tuple == for any arity (including the empty tuple) *)
Lemma tuple_eq_spec : forall l r, length l = length r -> (tuple_eq_m eqb d l r = true <-> l = r).
Proof.
  intros l r Hlen. unfold tuple_eq_m. destruct l as [|x l'].
  - destruct r; [split; reflexivity|discriminate Hlen].
  - change (forallb (fun i => eqb (nth i (x :: l') d) (nth i r d)) (seq 0 (length (x :: l'))) = true <-> x :: l' = r).
    revert Hlen. generalize (x :: l'). clear x l'. intros l Hlen.
    rewrite forallb_forall. split.
    + intros H. apply (nth_ext l r d d Hlen). intros i Hi. apply eqb_spec, H, in_seq. lia.
    + intros -> i _. apply eqb_spec. reflexivity.
Qed.

Lemma tuple_ne_spec : forall l r, length l = length r -> (tuple_ne_m eqb d l r = true <-> l <> r).
Proof.
  intros l r Hlen. unfold tuple_ne_m. rewrite negb_true_iff. destruct (tuple_eq_m eqb d l r) eqn:H.
  - apply (tuple_eq_spec l r Hlen) in H. split; [discriminate|congruence].
  - split; [|reflexivity]. intros _ Hx. apply (tuple_eq_spec l r Hlen) in Hx. congruence.
Qed.
End Eq.

Section Seq.
Context {A : Type}.
Variable d : A.

(* f(get<0>(t), ..., get<N-1>(t)) passes every element exactly once, in order *)
Lemma idx_expand_id : forall t : list A, idx_expand d t = t.
Proof.
  intros t. unfold idx_expand. apply (nth_ext _ _ d d).
  - rewrite map_length, seq_length. reflexivity.
  - intros i Hi. rewrite map_length, seq_length in Hi.
    rewrite (nth_indep _ d (nth (length t) t d)) by (rewrite map_length, seq_length; exact Hi).
    rewrite (map_nth (fun i => nth i t d) (seq 0 (length t)) (length t) i).
    rewrite seq_nth by exact Hi. reflexivity.
Qed.

Lemma apply_spec : forall {R} (f : list A -> R) t, apply_m d f t = f t.
Proof. intros R f t. unfold apply_m. rewrite idx_expand_id. reflexivity. Qed.

Lemma make_from_tuple_spec : forall {R} (ctor : list A -> R) t, make_from_tuple_m d ctor t = ctor t.
Proof. intros R f t. unfold make_from_tuple_m. rewrite idx_expand_id. reflexivity. Qed.

Lemma tuple_swap_spec : forall l r : list A, length l = length r -> tuple_swap_m d l r = (r, l).
Proof.
  intros l r H. unfold tuple_swap_m. f_equal.
  - rewrite H. apply idx_expand_id.
  - apply idx_expand_id.
Qed.

Lemma pair_swap_spec : forall l r : A * A, pair_swap_m l r = (r, l).
Proof. intros [a b] [c e]. reflexivity. Qed.

Lemma pair_assign_spec_val : forall l r : A * A, pair_assign_val_m l r = r.
Proof. intros l [c e]. reflexivity. Qed.

(* tuple_cat: any number of operands, any arities *)
Lemma tuple_cat_go_spec : forall tail result, tuple_cat_go d result tail = result ++ concat tail.
Proof.
  induction tail as [|h tl IH]; intros result; cbn [tuple_cat_go concat].
  - rewrite idx_expand_id, app_nil_r. reflexivity.
  - rewrite IH. unfold concat2_m. rewrite !idx_expand_id, app_assoc. reflexivity.
Qed.

Lemma tuple_cat_is_concat : forall ts : list (list A), tuple_cat_m d ts = tuple_cat_spec ts.
Proof.
  intros [|r tl]; [reflexivity|]. unfold tuple_cat_m, tuple_cat_spec. rewrite tuple_cat_go_spec. reflexivity.
Qed.
End Seq.

(** instances on Z and the executable forms of the specification used by the correspondence run *)
Lemma Zltb_asym : forall a b, (a <? b) = true -> (b <? a) = false.
Proof. intros a b H. apply Z.ltb_lt in H. apply Z.ltb_ge. lia. Qed.

Lemma Z_equiv_eq : forall a b, equiv Z.ltb a b <-> a = b.
Proof. intros a b. unfold equiv. rewrite !Z.ltb_ge. lia. Qed.

Lemma zpair_lt_spec_ok : forall l r, zpair_lt_spec l r = true <-> lex_lt Z.ltb l r.
Proof.
  intros [a1 a2] [b1 b2]. unfold zpair_lt_spec, lex_lt. cbn [fst snd].
  rewrite orb_true_iff, andb_true_iff, Z_equiv_eq, Z.eqb_eq. reflexivity.
Qed.

(* the lexicographic order on pairs of integers, in plain arithmetic *)
Lemma pair_lt_Z : forall a1 a2 b1 b2,
  pair_lt_m Z.ltb (a1, a2) (b1, b2) = true <-> (a1 < b1 \/ (a1 = b1 /\ a2 < b2)).
Proof.
  intros. rewrite (pair_lt_lex Z.ltb). unfold lex_lt. cbn [fst snd]. rewrite Z_equiv_eq, !Z.ltb_lt. reflexivity.
Qed.
Lemma pair_le_Z : forall a1 a2 b1 b2,
  pair_le_m Z.ltb (a1, a2) (b1, b2) = true <-> (a1 < b1 \/ (a1 = b1 /\ a2 <= b2)).
Proof.
  intros. rewrite (pair_le_lex Z.ltb Zltb_asym). unfold lex_lt, lex_equiv. cbn [fst snd].
  rewrite !Z_equiv_eq, !Z.ltb_lt. lia.
Qed.
Lemma pair_gt_Z : forall a1 a2 b1 b2,
  pair_gt_m Z.ltb (a1, a2) (b1, b2) = true <-> (b1 < a1 \/ (a1 = b1 /\ b2 < a2)).
Proof.
  intros. rewrite (pair_gt_lex Z.ltb). unfold lex_lt. cbn [fst snd]. rewrite Z_equiv_eq, !Z.ltb_lt. lia.
Qed.
Lemma pair_ge_Z : forall a1 a2 b1 b2,
  pair_ge_m Z.ltb (a1, a2) (b1, b2) = true <-> (b1 < a1 \/ (a1 = b1 /\ b2 <= a2)).
Proof.
  intros. rewrite (pair_ge_lex Z.ltb Zltb_asym). unfold lex_lt, lex_equiv. cbn [fst snd].
  rewrite !Z_equiv_eq, !Z.ltb_lt. lia.
Qed.

(* model = executable spec on Z, all six relations *)
Lemma bool_iff_eq : forall a b : bool, (a = true <-> b = true) -> a = b.
Proof. intros [|] [|] H; try reflexivity; [symmetry; apply H|apply H]; reflexivity. Qed.

Lemma pair_rel_Z_exec : forall l r,
  pair_eq_m Z.eqb l r = zpair_eq_spec l r /\ pair_lt_m Z.ltb l r = zpair_lt_spec l r /\
  pair_le_m Z.ltb l r = zpair_le_spec l r /\ pair_gt_m Z.ltb l r = zpair_gt_spec l r /\
  pair_ge_m Z.ltb l r = zpair_ge_spec l r.
Proof.
  intros [a1 a2] [b1 b2]. repeat split.
  - apply bool_iff_eq. rewrite pair_lt_Z. unfold zpair_lt_spec. cbn [fst snd].
    rewrite orb_true_iff, andb_true_iff, Z.eqb_eq, !Z.ltb_lt. reflexivity.
  - apply bool_iff_eq. rewrite pair_le_Z. unfold zpair_le_spec, zpair_lt_spec, zpair_eq_spec. cbn [fst snd].
    rewrite !orb_true_iff, !andb_true_iff, !Z.eqb_eq, !Z.ltb_lt. lia.
  - apply bool_iff_eq. rewrite pair_gt_Z. unfold zpair_gt_spec, zpair_lt_spec. cbn [fst snd].
    rewrite orb_true_iff, andb_true_iff, Z.eqb_eq, !Z.ltb_lt. lia.
  - apply bool_iff_eq. rewrite pair_ge_Z. unfold zpair_ge_spec, zpair_lt_spec, zpair_eq_spec. cbn [fst snd].
    rewrite !orb_true_iff, !andb_true_iff, !Z.eqb_eq, !Z.ltb_lt. lia.
Qed.

Lemma tuple_eq_Z_exec : forall l r, length l = length r -> tuple_eq_m Z.eqb 0 l r = zlist_eq_spec l r.
Proof.
  intros l r H. apply bool_iff_eq. rewrite (tuple_eq_spec Z.eqb Z.eqb_eq 0 l r H).
  unfold zlist_eq_spec. destruct (list_eq_dec Z.eq_dec l r); split; congruence.
Qed.

Lemma tuple_init_agrees : forall n, tuple_init_m n = tuple_init_spec n.
Proof.
  intros n. unfold tuple_init_m, tuple_init_spec.
  assert (Hk : Z.rem (Z.abs n) 9 = Z.abs n mod 9) by (apply Z.rem_mod_nonneg; lia).
  assert (Ht : (if 0 <=? n then n else n + 1) = Z.quot (2 * n + 1) 2).
  { destruct (Z.leb_spec 0 n) as [H|H].
    - apply Z.quot_unique with (r := 1); lia.
    - replace (2 * n + 1) with (- (2 * (- n - 1) + 1)) by lia. rewrite Z.quot_opp_l by lia.
      rewrite <- (Z.quot_unique (2 * (- n - 1) + 1) 2 (- n - 1) 1); lia. }
  rewrite Hk, Ht. reflexivity.
Qed.
