(* C20 proofs, part (i) continued: pair's operator< is a strict weak ordering whenever the element comparison is one
   (so that pairs can be used as keys exactly like std::pair), and the equivalence it induces is member-wise equivalence. *)
From Tetl Require Import Lib.Base C20.Model C20.Spec C20.ProofsVal.
Local Open Scope Z_scope.

Section SWO.
Context {A : Type}.
Variable lt : A -> A -> bool.
Hypothesis Hswo : strict_weak lt.

Let irr : forall a, lt a a = false := proj1 Hswo.
Let tra : forall a b c, lt a b = true -> lt b c = true -> lt a c = true := proj1 (proj2 Hswo).
Let inc : forall a b c, equiv lt a b -> equiv lt b c -> equiv lt a c := proj2 (proj2 Hswo).

Lemma swo_asym : forall a b, lt a b = true -> lt b a = false.
Proof.
  intros a b H. destruct (lt b a) eqn:E; [|reflexivity].
  pose proof (tra a b a H E) as C. rewrite irr in C. discriminate C.
Qed.

Lemma equiv_sym : forall a b, equiv lt a b -> equiv lt b a.
Proof. intros a b [H1 H2]. split; assumption. Qed.

Lemma lt_equiv_r : forall a b c, lt a b = true -> equiv lt b c -> lt a c = true.
Proof.
  intros a b c Hab Hbc. destruct (lt a c) eqn:Eac; [reflexivity|].
  destruct (lt c a) eqn:Eca.
  - pose proof (tra c a b Eca Hab) as Hcb. destruct Hbc as [_ Hcb']. congruence.
  - assert (Hac : equiv lt a c) by (split; assumption).
    destruct (inc a c b Hac (equiv_sym _ _ Hbc)) as [Hab' _]. congruence.
Qed.

Lemma equiv_lt_l : forall a b c, equiv lt a b -> lt b c = true -> lt a c = true.
Proof.
  intros a b c Hab Hbc. destruct (lt a c) eqn:Eac; [reflexivity|].
  destruct (lt c a) eqn:Eca.
  - pose proof (tra b c a Hbc Eca) as Hba. destruct Hab as [_ Hba']. congruence.
  - assert (Hca : equiv lt c a) by (split; assumption).
    destruct (inc c a b Hca Hab) as [_ Hbc']. congruence.
Qed.

Lemma lex_lt_irrefl : forall l, ~ lex_lt lt l l.
Proof. intros [a b] [H|[_ H]]; cbn [fst snd] in H; rewrite irr in H; discriminate H. Qed.

Lemma lex_lt_trans : forall l m r, lex_lt lt l m -> lex_lt lt m r -> lex_lt lt l r.
Proof.
  intros [l1 l2] [m1 m2] [r1 r2]. unfold lex_lt. cbn [fst snd].
  intros [H1|[E1 H1]] [H2|[E2 H2]].
  - left. exact (tra _ _ _ H1 H2).
  - left. exact (lt_equiv_r _ _ _ H1 E2).
  - left. exact (equiv_lt_l _ _ _ E1 H2).
  - right. split; [exact (inc _ _ _ E1 E2)|exact (tra _ _ _ H1 H2)].
Qed.

Lemma lex_equiv_trans : forall l m r, lex_equiv lt l m -> lex_equiv lt m r -> lex_equiv lt l r.
Proof.
  intros [l1 l2] [m1 m2] [r1 r2]. unfold lex_equiv. cbn [fst snd].
  intros [E1 F1] [E2 F2]. split; [exact (inc _ _ _ E1 E2)|exact (inc _ _ _ F1 F2)].
Qed.

(* the equivalence induced by pair's operator< ("neither is less") is member-wise equivalence *)
Lemma pair_equiv_memberwise : forall l r, equiv (pair_lt_m lt) l r <-> lex_equiv lt l r.
Proof.
  intros l r. unfold equiv at 1.
  pose proof (pair_lt_lex lt l r) as Hlr. pose proof (pair_lt_lex lt r l) as Hrl.
  pose proof (lex_trichotomy lt swo_asym l r) as T.
  destruct (pair_lt_m lt l r) eqn:E1; destruct (pair_lt_m lt r l) eqn:E2.
  - assert (lex_lt lt l r) by (apply Hlr; reflexivity). assert (lex_lt lt r l) by (apply Hrl; reflexivity).
    split; [intros [X _]; discriminate X|]. intuition.
  - assert (lex_lt lt l r) by (apply Hlr; reflexivity).
    split; [intros [X _]; discriminate X|]. intuition.
  - assert (lex_lt lt r l) by (apply Hrl; reflexivity).
    split; [intros [_ X]; discriminate X|]. intuition.
  - assert (~ lex_lt lt l r) by (intros X; apply Hlr in X; discriminate X).
    assert (~ lex_lt lt r l) by (intros X; apply Hrl in X; discriminate X).
    split; [intros _|intros _; split; reflexivity]. intuition.
Qed.

Theorem pair_lt_strict_weak : strict_weak (pair_lt_m lt).
Proof.
  split; [|split].
  - intros l. destruct (pair_lt_m lt l l) eqn:E; [|reflexivity].
    exfalso. apply (lex_lt_irrefl l). apply pair_lt_lex. exact E.
  - intros l m r H1 H2. apply pair_lt_lex. apply pair_lt_lex in H1. apply pair_lt_lex in H2.
    exact (lex_lt_trans _ _ _ H1 H2).
  - intros l m r H1 H2. apply pair_equiv_memberwise. apply pair_equiv_memberwise in H1.
    apply pair_equiv_memberwise in H2. exact (lex_equiv_trans _ _ _ H1 H2).
Qed.
End SWO.

Lemma Zltb_strict_weak : strict_weak Z.ltb.
Proof.
  split; [|split].
  - intros a. apply Z.ltb_irrefl.
  - intros a b c H1 H2. apply Z.ltb_lt in H1. apply Z.ltb_lt in H2. apply Z.ltb_lt. lia.
  - intros a b c [H1 H2] [H3 H4]. apply Z.ltb_ge in H1, H2, H3, H4. split; apply Z.ltb_ge; lia.
Qed.

(** C++20: relational operators synthesised from operator<=> *)
Section ThreeWay.
Context {A : Type}.
Variable cmp : A -> A -> pord.
Let lt (a b : A) : bool := is_lt (cmp a b).

(* for a total (weak) order -- cmp never unordered, and antisymmetric in the obvious sense -- the C++17 definitions
   pair.hpp implements and the C++20 definitions coincide *)
Lemma pair_rel_cxx20_total :
  (forall a b, cmp a b <> PUnordered) -> (forall a b, cmp b a = pord_flip (cmp a b)) ->
  forall l r,
    pair_lt_m lt l r = is_lt (pair_cmp3_spec cmp l r) /\ pair_le_m lt l r = is_le (pair_cmp3_spec cmp l r) /\
    pair_gt_m lt l r = is_gt (pair_cmp3_spec cmp l r) /\ pair_ge_m lt l r = is_ge (pair_cmp3_spec cmp l r).
Proof.
  intros Htot Hflip [a1 a2] [b1 b2].
  unfold pair_le_m, pair_gt_m, pair_ge_m, pair_lt_m, pair_cmp3_spec, lt. cbn [fst snd].
  rewrite (Hflip a1 b1), (Hflip a2 b2).
  pose proof (Htot a1 b1) as N1. pose proof (Htot a2 b2) as N2.
  destruct (cmp a1 b1); destruct (cmp a2 b2); try (exfalso; apply N1; reflexivity); try (exfalso; apply N2; reflexivity);
    cbn; repeat split; reflexivity.
Qed.
End ThreeWay.

(* ... and for a partial order they do not: known finding KF-C20-pair-relops-partial-order *)
Lemma pair_rel_cxx20_partial_refuted : exists l r : option Z * option Z,
  pair_lt_m (fun a b => is_lt (ocmp a b)) l r <> is_lt (pair_cmp3_spec ocmp l r).
Proof. exists (None, Some 1), (None, Some 2). vm_compute. discriminate. Qed.

Definition Z_cmp3 (a b : Z) : pord := if a <? b then PLess else if b <? a then PGreater else PEquiv.
Lemma Z_cmp3_total : forall a b, Z_cmp3 a b <> PUnordered.
Proof. intros a b. unfold Z_cmp3. destruct (a <? b); [discriminate|]. destruct (b <? a); discriminate. Qed.
Lemma Z_cmp3_flip : forall a b, Z_cmp3 b a = pord_flip (Z_cmp3 a b).
Proof.
  intros a b. unfold Z_cmp3. destruct (Z.ltb_spec a b); destruct (Z.ltb_spec b a); try reflexivity; lia.
Qed.
