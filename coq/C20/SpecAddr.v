(* C20, part (iv), specification: [refwrap.const] "reference_wrapper(U&& u): ... creates a variable r as if by T& r =
   std::forward<U>(u), then constructs a reference_wrapper object that stores a reference to r"; [refwrap.access] get() and the
   conversion return that reference; [refwrap.invoke] calls it; [refwrap.helpers] ref(t) / cref(t) wrap t, ref(reference_wrapper)
   / cref(reference_wrapper) wrap t.get(); P0792 function_ref(F&& f) "initializes bound-entity with addressof(f)"; owning
   wrappers (function / bind_front by value / tuple and pair object elements) hold a COPY; reference elements, bound
   reference_wrappers and forward_as_tuple denote the original object.  A reference IS the object: nothing here mentions what
   the object's operator& answers. *)
From Coq Require Import ZArith List Bool Arith.
From Tetl Require Import C20.ModelAddr.
Import ListNotations.
Local Open Scope Z_scope.

(* member runs on objects, in program order; each call / add yields one result *)
Inductive act := Call (i : nat) (z : Z) | CallConst (i : nat) (z : Z) | Add (i : nat) (z : Z) | Bump (i : nat) (d : Z) | SetV (i : nat) (z : Z).
Fixpoint acts (s : ast) (l : list act) : option (ast * list Z) :=
  match l with
  | [] => Some (s, [])
  | a :: r =>
      match a with
      | Call i z => doa c <-- at_o call_n s i z ;; doa t <-- acts (fst c) r ;; Some (fst t, snd c :: snd t)
      | CallConst i z => doa c <-- at_o call_c s i z ;; doa t <-- acts (fst c) r ;; Some (fst t, snd c :: snd t)
      | Add i z => doa c <-- at_o add_mf s i z ;; doa t <-- acts (fst c) r ;; Some (fst t, snd c :: snd t)
      | Bump i d => doa s1 <-- add_v s i d ;; acts s1 r
      | SetV i z => doa s1 <-- set_v s i z ;; acts s1 r
      end
  end.
(* calls on a private copy of an object: the copy's state evolves, the machine's objects do not *)
Fixpoint copy_calls (f : aobj -> Z -> aobj * Z) (o : aobj) (zs : list Z) : list Z :=
  match zs with [] => [] | z :: r => let (o', res) := f o z in res :: copy_calls f o' r end.

Definition astep_s (s : ast) (o : aop) : option (ast * list Z) :=
  match o with
  | ARef k x | ACtor k x => doa _ <-- slot_ok s k ;; doa _ <-- obj_ok s x ;; Some (put_rw s k x, [])
  | ACopyW k j | ARefW k j => doa _ <-- slot_ok s k ;; doa r <-- get_rw s j ;; Some (put_rw s k r, [])
  | AWrite k z => doa r <-- get_rw s k ;; acts s [SetV r z]
  | AConv k z => doa r <-- get_rw s k ;; doa t <-- acts s [SetV r z] ;; Some (fst t, [zid r])
  | ACall k z => doa r <-- get_rw s k ;; acts s [Call r z]
  | ACref x z => doa o <-- get_o s x ;; doa t <-- acts s [CallConst x z] ;; Some (fst t, zid x :: zid x :: ov o :: snd t)
  | ACrefW k z => doa r <-- get_rw s k ;; doa o <-- get_o s r ;; doa t <-- acts s [CallConst r z] ;; Some (fst t, zid r :: zid r :: ov o :: snd t)
  | AView x z => acts s [Call x z; Call x (z + 1)]
  | ACView x z => acts s [CallConst x z]
  | AViewW k z => doa r <-- get_rw s k ;; acts s [Call r z]
  | AOwn x z =>
      doa o <-- get_o s x ;;
      (* f, then g = copy of f after one call, h = f moved after one call, k = copy of g after its call *)
      match copy_calls call_n o [z; z; z] with
      | [r1; r2; r4] => Some (s, [r1; r2; r2; r4])
      | _ => None
      end
  | AOwnW k z => doa r <-- get_rw s k ;; acts s [Call r z; Call r (z + 1)]
  | AInvRef x z => acts s [Add x z; Bump x 1; Call x z; Add x z]
  | AInvPtr x z => acts s [Add x z; Bump x 1]
  | AInvObj x z => acts s [Add x z; Bump x 1; Call x z]
  | AInvW k z => doa r <-- get_rw s k ;; acts s [Add r z; Bump r 1; Call r z]
  | ABindRef x z => acts s [Call x z; Add x z; Add x z; Add x z]
  | ABindObj x z =>
      doa o <-- get_o s x ;; Some (s, copy_calls call_n o [z; z] ++ copy_calls add_mf o [z; z])
  | ABindW k z => doa r <-- get_rw s k ;; acts s [Call r z; Add r z]
  | ABindArg x z => doa t <-- acts s [SetV x z] ;; Some (fst t, [zid x; -1])
  | ATup x y z => doa _ <-- obj_ok s x ;; doa t <-- acts s [Bump y 1] ;; Some (fst t, [-1; zid y; zid y; zid x; zid y; z])
  | APair x y z => doa _ <-- obj_ok s y ;; doa t <-- acts s [Bump x 2; Bump x z] ;; Some (fst t, [zid x; -1; zid x; zid y])
  | ASwap x y =>
      (* one exchange by the tuples, two by the pairs: the contents end up exchanged once *)
      doa s1 <-- swap_o s x y ;; doa s2 <-- swap_o s1 x y ;; doa s3 <-- swap_o s2 y x ;; Some (s3, [zid x; zid x; zid y])
  | AApply x y z => doa _ <-- obj_ok s y ;; doa t <-- acts s [SetV x z; Call y z] ;; Some (fst t, zid x * 10 + zid y :: snd t)
  end.

Fixpoint arun_s (s : ast) (ops : list aop) : ast * list (option (list Z)) :=
  match ops with
  | [] => (s, [])
  | o :: r =>
      match astep_s s o with
      | Some (s', out) => let (sf, outs) := arun_s s' r in (sf, Some out :: outs)
      | None => let (sf, outs) := arun_s s r in (sf, None :: outs)
      end
  end.

(* what the final dump shows: every bound wrapper refers to an object of the machine *)
Definition referents_in_range (s : ast) : Prop :=
  forall k r, get_rw s k = Some r -> (r < length (aobjs s))%nat.
