(* C20, part (iv): proofs.  The machine that takes addresses with etl::addressof refers, reads, writes and calls exactly as
   the specification says, for EVERY overloaded operator& (`amp`), every state and every script. *)
From Coq Require Import ZArith List Bool Arith Lia.
From Tetl Require Import C20.ModelAddr C20.SpecAddr.
Import ListNotations.
Local Open Scope Z_scope.

Ltac norm := cbv -[Z.add Z.mul Z.of_nat nth_error aupd length Nat.ltb Z.opp].
Ltac split_matches :=
  repeat match goal with
  | |- context [match ?e with _ => _ end] =>
      lazymatch e with
      | context [match _ with _ => _ end] => fail
      | _ => destruct e eqn:?
      end
  end.
(* an index below the length has an element *)
Ltac range_clash :=
  match goal with
  | H1 : (?x <? length ?l)%nat = false, H2 : nth_error ?l ?x = Some _ |- _ =>
      apply Nat.ltb_ge in H1; apply nth_error_None in H1; congruence
  end.

Lemma astep_refines : forall amp s o, astep_m amp s o = astep_s s o.
Proof.
  intros amp s o. destruct o; norm; split_matches; try reflexivity; range_clash.
Qed.

(* a type without an overloaded operator& cannot tell the two ways of taking an address apart *)
Lemma astep_amp_plain : forall s o, astep_amp_m (fun x => x) s o = astep_s s o.
Proof.
  intros s o. destruct o; norm; split_matches; try reflexivity; range_clash.
Qed.

Lemma arun_refines : forall amp ops s, arun_m amp s ops = arun_s s ops.
Proof.
  intros amp ops. induction ops as [|o r IH]; intros s; [reflexivity|].
  unfold arun_m in *. cbn [arun_g arun_s]. fold (astep_m amp s o). rewrite astep_refines.
  destruct (astep_s s o) as [[s' out]|]; rewrite IH; reflexivity.
Qed.

Lemma arun_amp_plain : forall ops s, arun_amp_m (fun x => x) s ops = arun_s s ops.
Proof.
  intros ops. induction ops as [|o r IH]; intros s; [reflexivity|].
  unfold arun_amp_m in *. cbn [arun_g arun_s]. fold (astep_amp_m (fun x => x) s o). rewrite astep_amp_plain.
  destruct (astep_s s o) as [[s' out]|]; rewrite IH; reflexivity.
Qed.

Ltac unf := unfold astep_m, astep_g, ref_unwrap, cref_unwrap, ref_f, cref_f, rw_callee, rw_ctor, rw_get, rw_conv, addressof_m,
  at_o, set_v, add_v, get_rw, get_o, put_o, put_rw, slot_ok, obj_ok, call_n, abind; cbv beta iota; cbn [aobjs arws ov oc fst snd].
(* ---- clause lemmas ------------------------------------------------------------------------------------------- *)
Lemma nth_error_aupd_same : forall A (l : list A) i x, (i < length l)%nat -> nth_error (aupd i x l) i = Some x.
Proof.
  intros A l. induction l as [|y r IH]; intros i x Hi; cbn in Hi; [lia|].
  destruct i as [|j]; cbn; [reflexivity|]. apply IH. lia.
Qed.
Lemma nth_error_aupd_other : forall A (l : list A) i j x, i <> j -> nth_error (aupd i x l) j = nth_error l j.
Proof.
  intros A l. induction l as [|y r IH]; intros i j x Hij; [destruct i; reflexivity|].
  destruct i as [|i']; destruct j as [|j']; cbn; try reflexivity; [congruence|]. apply IH. congruence.
Qed.

(* ref(x), reference_wrapper<T>{x}: the slot refers to x itself, whatever x's operator& answers; copies and the
   unwrapping overload of ref refer to what the source refers to *)
Lemma ref_refers_to_argument : forall amp s k x s' out,
  (astep_m amp s (ARef k x) = Some (s', out) \/ astep_m amp s (ACtor k x) = Some (s', out)) -> get_rw s' k = Some x.
Proof.
  intros amp [objs rws] k x s' out [H|H]; revert H; unf; intros H.
  all: destruct (k <? length rws)%nat eqn:Hk; [|discriminate].
  all: destruct (x <? length objs)%nat; [|discriminate].
  all: injection H as <- _; cbn. all: apply Nat.ltb_lt in Hk; rewrite nth_error_aupd_same by exact Hk; reflexivity.
Qed.
Lemma copy_refers_to_same : forall amp s k j s' out,
  (astep_m amp s (ACopyW k j) = Some (s', out) \/ astep_m amp s (ARefW k j) = Some (s', out)) -> get_rw s' k = get_rw s j.
Proof.
  intros amp [objs rws] k j s' out [H|H]; revert H; unf; intros H.
  all: destruct (k <? length rws)%nat eqn:Hk; [|discriminate].
  all: destruct (nth_error rws j) as [[r|]|] eqn:Hj; try discriminate.
  all: injection H as <- _; cbn. all: apply Nat.ltb_lt in Hk; rewrite nth_error_aupd_same by exact Hk; reflexivity.
Qed.
(* a call through the wrapper runs the referent exactly once with the same argument, returns its result, and touches
   no other object and no wrapper *)
Lemma call_reaches_referent : forall amp s k z s' out,
  astep_m amp s (ACall k z) = Some (s', out) ->
  exists x o, get_rw s k = Some x /\ get_o s x = Some o /\ out = [ov o + z + 1000 * (oc o + 1)] /\
              get_o s' x = Some (mkaobj (ov o) (oc o + 1)) /\ (forall y, y <> x -> get_o s' y = get_o s y) /\ arws s' = arws s.
Proof.
  intros amp [objs rws] k z s' out. unf. intros H.
  destruct (nth_error rws k) as [[x|]|] eqn:Hk; try discriminate.
  destruct (nth_error objs x) as [[v c]|] eqn:Hx; try discriminate.
    injection H as <- <-. exists x, (mkaobj v c).
  assert (Hlt : (x < length objs)%nat) by (apply nth_error_Some; congruence).
  unfold get_rw, get_o; cbn [aobjs arws ov oc]. rewrite ?Hk, ?Hx.
  split; [reflexivity|]. split; [reflexivity|]. split; [reflexivity|].
  split; [apply nth_error_aupd_same; exact Hlt|].
  split; [intros y Hy; apply nth_error_aupd_other; congruence | reflexivity].
Qed.
(* a write through get() changes the referent's value only *)
Lemma write_reaches_referent : forall amp s k z s' out,
  astep_m amp s (AWrite k z) = Some (s', out) ->
  exists x o, get_rw s k = Some x /\ get_o s x = Some o /\ get_o s' x = Some (mkaobj z (oc o)) /\
              (forall y, y <> x -> get_o s' y = get_o s y).
Proof.
  intros amp [objs rws] k z s' out. unf. intros H.
  destruct (nth_error rws k) as [[x|]|] eqn:Hk; try discriminate.
  cbv beta iota in H. destruct (nth_error objs x) as [[v c]|] eqn:Hx; try discriminate.
  cbv beta iota in H; cbn [fst snd ov oc] in H. injection H as <- _. exists x, (mkaobj v c).
  assert (Hlt : (x < length objs)%nat) by (apply nth_error_Some; congruence).
  unfold get_rw, get_o; cbn [aobjs arws ov oc]. rewrite ?Hk, ?Hx.
  split; [reflexivity|]. split; [reflexivity|].
  split; [apply nth_error_aupd_same; exact Hlt|].
  intros y Hy; apply nth_error_aupd_other; congruence.
Qed.

(* the same constructor written with the built-in operator: an object whose operator& answers with another object's
   address makes ref(x) refer to that other object; the write lands there *)
Lemma builtin_amp_differs : exists amp s ops, arun_amp_m amp s ops <> arun_s s ops.
Proof.
  exists (fun _ => 2%nat), (ainit [10; 20; -1] 2), [ARef 0 0; AWrite 0 5]. vm_compute. discriminate.
Qed.
