(* C20 proofs, part (iii) continued: tuple_cat with element types -- the fold over forward_as_tuple accumulates, for ANY
   number of operands of ANY arities, element kinds and operand categories, exactly the references get<k>(forward<Tp>(tp)),
   and the final construction of tuple_cat_result_t initialises every element as [tuple.creation] prescribes. *)
From Tetl Require Import Lib.Base C20.Model C20.Spec C20.ProofsCat C20.ProofsCtor.
Local Open Scope Z_scope.

Definition ecat (e : telem) : Prop := is_cat (fst e).

(* the references one operand contributes (get_spec is total on categories) *)
Definition ref_of_elem (c : ty) (e : telem) : telem :=
  (match get_spec c (fst e) with Some g => g | None => LV end, snd e).
Definition refs_tot (o : toperand) : list telem := map (ref_of_elem (fst o)) (snd o).

Lemma refs_of_tot : forall o, is_cat (fst o) -> refs_of o = Some (refs_tot o) /\ Forall ecat (refs_tot o).
Proof.
  intros [c l] H. unfold refs_of, refs_tot. cbn [fst snd] in *. rewrite (perfect_fwd_id c H). cbn [obind].
  induction l as [|e r [IH1 IH2]]; [split; [reflexivity|constructor]|].
  cbn [map_opt map]. rewrite tuple_get_agrees. unfold ref_of_elem at 1 3.
  destruct (get_spec_total c (fst e) H) as [g Hg]. rewrite Hg. cbn [obind]. rewrite IH1. cbn [obind].
  split; [reflexivity|]. constructor; [exact (get_spec_is_cat _ _ _ Hg)|exact IH2].
Qed.

(* re-reading a tuple of references through an rvalue tuple returns the same references *)
Lemma get_ref_passes_rvalue_tuple : forall g, is_cat g -> get_spec RV g = Some g.
Proof. intros g H; dty g; try discriminate H; reflexivity. Qed.
Lemma refs_tot_of_refs : forall r, Forall ecat r -> refs_tot (RV, r) = r.
Proof.
  unfold refs_tot. cbn [fst snd]. induction r as [|[g v] r IH]; intros H; [reflexivity|].
  inversion H as [|? ? Hg Hr]; subst. unfold ecat in Hg. cbn [fst] in Hg. cbn [map]. unfold ref_of_elem at 1. cbn [fst snd].
  rewrite (get_ref_passes_rvalue_tuple g Hg). rewrite (IH Hr). reflexivity.
Qed.

Lemma Forall_concat : forall {X} (P : X -> Prop) (ls : list (list X)), Forall (Forall P) ls -> Forall P (concat ls).
Proof. intros X P ls H. induction H as [|l ls Hl _ IH]; cbn [concat]; [constructor|]. apply Forall_app. split; assumption. Qed.

(* the fold: the accumulated tuple of references, read at the end, is r followed by the references of the remaining operands *)
Lemma go_refs_acc : forall tail r, Forall (fun o : toperand => is_cat (fst o)) tail -> Forall ecat r ->
  tuple_cat_go_refs (RV, r) tail = Some (r ++ concat (map refs_tot tail)).
Proof.
  induction tail as [|h tl IH]; intros r Ht Hr.
  - cbn [tuple_cat_go_refs map concat]. rewrite app_nil_r.
    destruct (refs_of_tot (RV, r) eq_refl) as [E _]. rewrite E, (refs_tot_of_refs r Hr). reflexivity.
  - inversion Ht as [|? ? Hh Htl]; subst. cbn [tuple_cat_go_refs]. unfold concat2_t.
    destruct (refs_of_tot (RV, r) eq_refl) as [E _]. rewrite E, (refs_tot_of_refs r Hr). cbn [obind].
    destruct (refs_of_tot h Hh) as [Eh Fh]. rewrite Eh. cbn [obind].
    rewrite (IH (r ++ refs_tot h) Htl); [|apply Forall_app; split; assumption].
    cbn [map concat]. rewrite app_assoc. reflexivity.
Qed.

Lemma go_refs_all : forall o tl, Forall (fun o : toperand => is_cat (fst o)) (o :: tl) ->
  tuple_cat_go_refs o tl = Some (concat (map refs_tot (o :: tl))).
Proof.
  intros o tl H. inversion H as [|? ? Ho Htl]; subst. destruct (refs_of_tot o Ho) as [Eo Fo].
  destruct tl as [|h tl'].
  - cbn [tuple_cat_go_refs map concat]. rewrite app_nil_r. exact Eo.
  - inversion Htl as [|? ? Hh Htl']; subst. cbn [tuple_cat_go_refs]. unfold concat2_t. rewrite Eo. cbn [obind].
    destruct (refs_of_tot h Hh) as [Eh Fh]. rewrite Eh. cbn [obind].
    rewrite (go_refs_acc tl' (refs_tot o ++ refs_tot h) Htl'); [|apply Forall_app; split; assumption].
    cbn [map concat]. rewrite app_assoc. reflexivity.
Qed.

(* the final construction, operand by operand *)
Lemma map2_opt_app : forall {X Y Z} (f : X -> Y -> option Z) k1 g1 k2 g2, length k1 = length g1 ->
  map2_opt f (k1 ++ k2) (g1 ++ g2) = (do a <- map2_opt f k1 g1; do b <- map2_opt f k2 g2; Some (a ++ b)).
Proof.
  intros X Y Z f. induction k1 as [|k k1 IH]; intros g1 k2 g2 HL.
  - destruct g1; [|discriminate HL]. cbn [app map2_opt obind]. destruct (map2_opt f k2 g2); reflexivity.
  - destruct g1 as [|g g1]; [discriminate HL|]. cbn [app map2_opt]. destruct (f k g); [|reflexivity]. cbn [obind].
    rewrite (IH g1 k2 g2) by (cbn [length] in HL; congruence).
    destruct (map2_opt f k1 g1); [|reflexivity]. cbn [obind]. destruct (map2_opt f k2 g2); reflexivity.
Qed.

Lemma cat_final_operand : forall c l, is_cat c ->
  cat_final (elem_kinds (c, l)) (refs_tot (c, l)) = map_opt (cat_elem_spec c) l.
Proof.
  intros c l H. unfold cat_final, elem_kinds, refs_tot. cbn [fst snd]. induction l as [|e r IH]; [reflexivity|].
  cbn [map map2_opt map_opt]. unfold ref_of_elem at 1, cat_elem_spec at 1. cbn [fst snd].
  destruct (get_spec_total c (fst e) H) as [g Hg]. rewrite Hg. cbn [obind].
  rewrite (tuple_ctor_agrees (fst e) g (get_spec_is_cat _ _ _ Hg)).
  destruct (init_spec (fst e) g); [|reflexivity]. cbn [obind]. rewrite IH. reflexivity.
Qed.

Lemma cat_final_all : forall ts, Forall (fun o : toperand => is_cat (fst o)) ts ->
  cat_final (tuple_cat_result_m ts) (concat (map refs_tot ts)) = tuple_cat_t_spec ts.
Proof.
  unfold tuple_cat_t_spec, tuple_cat_result_m. induction ts as [|[c l] ts IH]; intros H; [reflexivity|].
  inversion H as [|? ? Hc Hts]; subst. cbn [fst] in Hc. cbn [map concat map_opt fst snd].
  unfold cat_final in *. rewrite map2_opt_app by (unfold elem_kinds, refs_tot; cbn [fst snd]; rewrite !map_length; reflexivity).
  fold (cat_final (elem_kinds (c, l)) (refs_tot (c, l))). rewrite (cat_final_operand c l Hc).
  destruct (map_opt (cat_elem_spec c) l); [|reflexivity]. cbn [obind]. rewrite (IH Hts).
  destruct (map_opt (fun o : toperand => map_opt (cat_elem_spec (fst o)) (snd o)) ts); reflexivity.
Qed.

Theorem tuple_cat_t_agrees : forall ts, Forall (fun o : toperand => is_cat (fst o)) ts ->
  tuple_cat_t_m ts = tuple_cat_t_spec ts.
Proof.
  intros ts H. destruct ts as [|o tl]; [reflexivity|].
  unfold tuple_cat_t_m. rewrite (go_refs_all o tl H). cbn [obind]. exact (cat_final_all (o :: tl) H).
Qed.

(* the result type *)
Lemma tuple_cat_result_agrees : forall ts, tuple_cat_result_m ts = tuple_cat_result_spec ts.
Proof. reflexivity. Qed.
Lemma cat_result_kind_agrees : forall k, cat_result_kind_m k = cat_result_kind_spec k.
Proof. reflexivity. Qed.
Lemma cat_single_nested_agrees : forall n, cat_single_nested_arity_m n = cat_single_nested_arity_spec n.
Proof. reflexivity. Qed.
Lemma tuple_element_kind_agrees : forall k, tuple_element_kind_m k = tuple_element_kind_spec k.
Proof. reflexivity. Qed.
(* an object element of an lvalue operand is copied, of a non-const rvalue operand moved; a T& element is passed on as the
   same reference from every operand category; a T&& element of an lvalue operand makes the call ill-formed *)
Lemma tuple_cat_examples :
  tuple_cat_t_m [(LV, [(mkty false RNone, 1)]); (RV, [(mkty false RNone, 2); (mkty false RL, 3)])]
    = Some [(1, Constructed false); (2, Constructed true); (3, Aliased)]
  /\ tuple_cat_t_m [(CLV, [(mkty false RL, 1)])] = Some [(1, Aliased)]
  /\ tuple_cat_t_m [(LV, [(mkty false RR, 1)])] = None
  /\ tuple_cat_t_m [(RV, [(mkty false RR, 1)])] = Some [(1, Aliased)].
Proof. vm_compute. repeat split; reflexivity. Qed.
