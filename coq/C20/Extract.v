From Tetl Require Import Lib.Base C20.Model C20.Spec.
Require Extraction.
Require Import ExtrOcamlBasic.
Extraction Language OCaml.
Extraction "C20_model.ml" wire_anchor
  tuple_get_m pair_get_m forward_m forward_like_m invoke_pmf_m invoke_pmd_m invoke_fo_m ipf_call_m fref_call_m
  refwrap_call_m notfn_call_m bindfront_call_m apply_cats_m apply_pair_cats_m mft_cats_m pair_assign_m
  pair_eq_m pair_ne_m pair_lt_m pair_le_m pair_gt_m pair_ge_m pair_swap_m pair_assign_val_m
  idx_expand tuple_eq_m tuple_ne_m tuple_swap_m apply_m make_from_tuple_m tuple_cat_m tuple_cat_t_m
  cat_result_kind_m cat_single_nested_arity_m
  run_m init_state destroy_all live_m swap_unchecked_m
  pair_traits_m tuple_traits_m refwrap_ops_m fref_ops_m notfn_static_m ret_decltype_auto
  void_ret_m make_pair_member_m void_ret_spec make_pair_member_spec
  tuple_structured_binding_m get_by_type_m tuple_structured_binding_spec get_by_type_spec
  pair_traits_spec tuple_traits_spec refwrap_ops_spec fref_ops_spec notfn_static_spec
  get_spec forward_spec forward_like_spec invoke_pmf_spec invoke_pmd_spec invoke_fo_spec ipf_call_spec
  fref_call_spec refwrap_call_spec notfn_call_spec bindfront_call_spec apply_cats_spec get_all_spec pair_assign_spec
  cat_result_kind_spec cat_single_nested_arity_spec tuple_cat_t_spec tuple_cat_spec
  zpair_eq_spec zpair_lt_spec zpair_le_spec zpair_gt_spec zpair_ge_spec zlist_eq_spec
  run_s init_astate.
