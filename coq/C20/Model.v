(* C20 model: executable mirror of
     include/etl/_utility/{pair,forward,forward_like}.hpp
     include/etl/_tuple/{tuple,apply,tuple_cat,make_from_tuple}.hpp
     include/etl/_functional/{invoke,inplace_function,function_ref,reference_wrapper,bind_front,not_fn}.hpp
   Three parts:
   (i)   pair / tuple as lists of values: relations, equality, swap, index-sequence expansion
         (apply, make_from_tuple), tuple_cat's fold over forward_as_tuple;
   (ii)  inplace_function as a state machine over (vtable pointer, storage cell) pairs, every operation
         written as the sequence of vtable thunk calls the header performs, on a memory with aliasing;
   (iii) value-category calculus: the library's CHOICES (return types, etl::move / etl::forward /
         static_cast / plain use) evaluated with the language's reference-collapsing and binding rules.
         Overload resolution and template deduction themselves are the C++ language and are not modelled. *)
From Tetl Require Import Lib.Base.
Local Open Scope Z_scope.

Notation "'do' x <- a ; b" := (obind a (fun x => b)) (at level 200, x name, a at level 100, b at level 200).

(* ================================================================================================ *)
(** * (iii) types, expressions and their value categories *)

Inductive refk := RNone | RL | RR.
Record ty := mkty { cst : bool; rf : refk }.   (* [const] A [& | &&] over one fixed object type A *)

(* an expression's category is written as the reference type decltype((e)):  A& = lvalue, A&& = xvalue;
   a non-reference type stands for a prvalue *)
Definition LV := mkty false RL.
Definition CLV := mkty true RL.
Definition RV := mkty false RR.
Definition CRV := mkty true RR.

Definition is_lref (t : ty) : bool := match rf t with RL => true | _ => false end.
Definition is_ref (t : ty) : bool := match rf t with RNone => false | _ => true end.

(* language rules on types *)
Definition add_const (t : ty) : ty := match rf t with RNone => mkty true RNone | _ => t end. (* const on a reference type is ignored *)
Definition add_lref (t : ty) : ty := mkty (cst t) RL.                                         (* T&  : X& & -> X&, X&& & -> X& *)
Definition add_rref (t : ty) : ty := match rf t with RNone => mkty (cst t) RR | _ => t end.   (* T&& : X& && -> X&, X&& && -> X&& *)
Definition remove_ref (t : ty) : ty := mkty (cst t) RNone.

(* language rules on expressions *)
(* m, a data member declared with type T, named through an lvalue object expression (this->m, p.m with p a
   named parameter): always an lvalue; the object's constness reaches non-reference members only *)
Definition member_lv (objconst : bool) (T : ty) : ty :=
  match rf T with RNone => mkty (cst T || objconst) RL | _ => mkty (cst T) RL end.
(* static_cast<U>(e), U a reference type: has U's category; must not drop const; an lvalue reference target
   needs an lvalue operand unless it is const *)
Definition static_cast_ref (U e : ty) : option ty :=
  if is_ref U && (cst U || negb (cst e)) && (negb (is_lref U) || is_lref e || cst U) then Some U else None.
(* etl::move(e) : remove_reference_t<E>&& *)
Definition move_e (e : ty) : ty := mkty (cst e) RR.
(* etl::as_const(lvalue) *)
Definition as_const_e (e : ty) : ty := mkty true RL.
(* etl::forward<T>(e): overload 1 takes remove_reference_t<T>&, overload 2 remove_reference_t<T>&& and
   static_asserts that T is not an lvalue reference; both return static_cast<T&&>(param) *)
Definition forward_e (T e : ty) : option ty :=
  if cst T || negb (cst e) then
    (if is_lref e then Some (add_rref T) else if is_lref T then None else Some (add_rref T))
  else None.
(* return e;  in a function whose declared return type is the reference type R *)
Definition binds (R e : ty) : bool :=
  match rf R with
  | RL => if cst R then true else is_lref e && negb (cst e)
  | RR => negb (is_lref e) && (cst R || negb (cst e))
  | RNone => true
  end.
Definition ret_as (R e : ty) : option ty := if binds R e then Some R else None.
(* deduced return types *)
(* -> auto&: deduced like U& of a function template ([dcl.spec.auto]): an lvalue keeps its type; from a CONST rvalue U is
   deduced as const A and the const lvalue reference binds to it; a non-const rvalue is ill-formed *)
Definition ret_auto_lref (e : ty) : option ty :=
  if is_lref e then Some e else if cst e then Some (mkty true RL) else None.
Definition ret_auto_fwd (e : ty) : option ty := Some (if is_ref e then e else mkty (cst e) RR). (* -> auto&& *)
Definition ret_decltype_auto (e : ty) : option ty := Some e.                                     (* -> decltype(auto), e a call *)

(* template <typename T> f(T&& x): the T deduced from an argument of category c, the named parameter x, and
   the three things a library can do with x *)
Definition deduce_fwd (c : ty) : ty := if is_lref c then mkty (cst c) RL else mkty (cst c) RNone.
Definition named (c : ty) : ty := mkty (cst c) RL.
Definition perfect_fwd (c : ty) : option ty := forward_e (deduce_fwd c) (named c). (* etl::forward<T>(x) *)

(** ** tuple: detail::tuple_leaf<I,T>::get_impl, tuple::get_impl, get<I>(tuple) *)
Definition leaf_get_m (q T : ty) : option ty :=
  match rf q, cst q with
  | RL, false => ret_as (add_lref T) (member_lv false T)                       (* & -> T& { return _value; } *)
  | RL, true => ret_as (add_lref (add_const T)) (member_lv true T)              (* const& -> T const& { return _value; } *)
  | RR, false => do e <- static_cast_ref (add_rref T) (member_lv false T);      (* && -> T&& { return static_cast<T&&>(_value); } *)
                 ret_as (add_rref T) e
  | RR, true => do e <- static_cast_ref (add_rref (add_const T)) (member_lv true T); (* const&& -> T const&& *)
                ret_as (add_rref (add_const T)) e
  | RNone, _ => None
  end.
(* the two outer layers only forward the call; their return types are auto& (&), decltype(auto) (const&, const&&)
   and auto&& (&&) *)
Definition wrap_ret (q e : ty) : option ty :=
  match rf q, cst q with
  | RL, false => ret_auto_lref e
  | RR, false => ret_auto_fwd e
  | _, _ => ret_decltype_auto e
  end.
Definition tuple_get_m (q T : ty) : option ty :=
  do a <- leaf_get_m q T; do b <- wrap_ret q a; wrap_ret q b.

(** ** pair: get<I>(pair) *)
Definition pair_get_m (q T : ty) : option ty :=
  match rf q, cst q with
  | RL, false => ret_as (add_lref T) (member_lv false T)                   (* -> tuple_element_t&       { return p.first; } *)
  | RL, true => ret_as (add_lref (add_const T)) (member_lv true T)          (* -> tuple_element_t const& { return p.first; } *)
  | RR, false => do e <- forward_e (add_rref T) (member_lv false T);        (* -> tuple_element_t&&  { return etl::forward<T1&&>(p.first); } *)
                 ret_as (add_rref T) e
  | RR, true => do e <- forward_e (add_rref (add_const T)) (member_lv true T); (* -> ... const&& { return etl::forward<T1 const&&>(p.first); } *)
                ret_as (add_rref (add_const T)) e
  | RNone, _ => None
  end.

(** ** forward, forward_like *)
(* forward.hpp, overload by overload:
     forward(remove_reference_t<T>&  param) -> T&& { return static_cast<T&&>(param); }
     forward(remove_reference_t<T>&& param) -> T&& { static_assert(not is_lvalue_reference_v<T>); return static_cast<T&&>(param); } *)
Definition forward_body (T P : ty) : option ty :=
  do r <- static_cast_ref (add_rref T) (named P); ret_as (add_rref T) r.
Definition forward_ovl1 (T e : ty) : option ty :=
  let P := mkty (cst T) RL in
  if binds P e then forward_body T P else None.
Definition forward_ovl2 (T e : ty) : option ty :=
  let P := mkty (cst T) RR in
  if binds P e then (if is_lref T then None (* static_assert *) else forward_body T P) else None.
(* language ([over.ics.rank]): an rvalue argument prefers the rvalue-reference parameter whenever it can bind to it; an
   lvalue argument can only bind to the first overload *)
Definition picks_rref_overload (X e : ty) : bool := negb (is_lref e) && binds (mkty (cst X) RR) e.   (* f(X&) vs f(X&&) *)
Definition forward_m (T e : ty) : option ty :=
  if picks_rref_overload T e then forward_ovl2 T e else forward_ovl1 T e.

Definition forward_like_m (T U : ty) : option ty :=
  let x := named U in                       (* U&& x *)
  let adding := cst T in                    (* is_const_v<remove_reference_t<T>> *)
  let e := if is_lref (add_rref T)          (* is_lvalue_reference_v<T&&> *)
           then (if adding then as_const_e x else mkty (cst U) RL (* static_cast<U&>(x) *))
           else (if adding then move_e (as_const_e x) else move_e x) in
  ret_auto_fwd e.

(** ** invoke *)
Inductive pmfq := QNone | QConst | QL | QCL | QR | QCR.            (* cv/ref qualifier of the member function *)
Inductive receiver :=
| RcvObj (c : ty)          (* an object of the class, passed with category c *)
| RcvDerived (c : ty)      (* an object of a derived class *)
| RcvRefWrap (k : bool)    (* reference_wrapper<X> (k = false) / reference_wrapper<X const> *)
| RcvPtr (k : bool).       (* X* / X const* *)

(* detail::invoke_memptr: the object expression the member pointer is applied to *)
Definition memptr_obj_m (r : receiver) : option ty :=
  match r with
  | RcvObj c | RcvDerived c => perfect_fwd c    (* is_base_of: etl::forward<T1>(t1) *)
  | RcvRefWrap k => Some (mkty k RL)            (* t1.get() *)
  | RcvPtr k => Some (mkty k RL)                (* *etl::forward<T1>(t1) *)
  end.
(* language: (obj.*pmf)(args) is well-formed iff the implicit object parameter binds to obj *)
Definition pmf_callable (q : pmfq) (obj : ty) : bool :=
  match q with
  | QNone => negb (cst obj)
  | QConst => true
  | QL => is_lref obj && negb (cst obj)
  | QCL => true
  | QR => negb (is_lref obj) && negb (cst obj)
  | QCR => negb (is_lref obj)
  end.
Definition invoke_pmf_m (q : pmfq) (r : receiver) : bool :=
  match memptr_obj_m r with Some o => pmf_callable q o | None => false end.
(* language: obj.*pmd is an lvalue for an lvalue obj, an xvalue otherwise, const like obj *)
Definition invoke_pmd_m (r : receiver) : option ty :=
  do o <- memptr_obj_m r; Some (mkty (cst o) (if is_lref o then RL else RR)).
(* function objects: etl::forward<F>(f)(etl::forward<Args>(args)...) *)
Definition invoke_fo_m (f : ty) (args : list ty) : option (ty * list ty) :=
  do f' <- perfect_fwd f;
  do args' <- (fix go (l : list ty) : option (list ty) :=
                 match l with [] => Some [] | a :: r => do a' <- perfect_fwd a; do r' <- go r; Some (a' :: r') end) args;
  Some (f', args').

(** ** signatures R(Args...): parameter passing in inplace_function / function_ref *)
(* can a parameter declared with type P be initialised from an argument of category a?  (A is copyable) *)
Definition param_accepts (P a : ty) : bool := match rf P with RNone => true | _ => binds P a end.
(* inplace_function::operator()(Args... args) const:  _vtable->invoke_ptr(&_storage, etl::forward<Args>(args)...);
   the thunk takes Args&&... and calls ( *static_cast<C* >(p))(static_cast<Args&&>(args)...) *)
Definition ipf_call_m (P a : ty) : option (ty * ty) :=
  if param_accepts P a then
    do x <- forward_e P (named P);
    do y <- static_cast_ref (add_rref P) (named x);
    Some (LV, y)
  else None.
(* function_ref(F&& f) stores addressof(f) and a thunk that calls invoke_r<R>( *static_cast<add_pointer_t<F>>(obj),
   etl::forward<Args>(args)...); operator()(Args... args) const passes etl::forward<Args>(args)... to the thunk,
   whose parameters are again Args... *)
Definition fref_call_m (fc P a : ty) : option (ty * ty) :=
  if param_accepts P a then
    do x <- forward_e P (named P);
    if param_accepts P x then
      do y <- forward_e P (named P);
      do y' <- perfect_fwd y;                       (* invoke_r forwards once more *)
      do f <- perfect_fwd (mkty (cst fc) RL);       (* *func, func : remove_reference_t<F>* *)
      Some (f, y')
    else None
  else None.
(* function_ref(F&& f) requires is_invocable_r_v<R, remove_reference_t<F>&, Args...> (after a fix: commit; it used to ask for
   F&&): the constraint asks exactly what the thunk does -- call *func, an lvalue of remove_reference_t<F>, const like the
   argument.  q = the cv-ref qualifier of the callable's only operator() *)
Definition fref_ctor_wf_m (q : pmfq) (a : ty) : bool :=
  match perfect_fwd (mkty (cst a) RL) with Some o => pmf_callable q o | None => false end.
(* the constraint before the repair: is_invocable_r_v<R, F&&, Args...>, the callable with the category of the ARGUMENT *)
Definition fref_ctor_wf_old_m (q : pmfq) (a : ty) : bool :=
  match perfect_fwd a with Some o => pmf_callable q o | None => false end.
(* reference_wrapper<T>::operator()(Args&&... args) const: invoke(get(), etl::forward<Args>(args)...) *)
Definition refwrap_call_m (tconst : bool) (a : ty) : option (ty * ty) :=
  do r <- invoke_fo_m (mkty tconst RL) [a];
  match snd r with [a'] => Some (fst r, a') | _ => None end.

(** ** not_fn: the four call operators of not_fn_t *)
Definition notfn_call_m (w a : ty) : option (ty * ty) :=
  let f := match rf w, cst w with
           | RL, false => Some (mkty false RL)       (* &       : etl::invoke(f, ...)             *)
           | RL, true => Some (mkty true RL)         (* const&  : etl::invoke(f, ...)             *)
           | RR, false => Some (move_e (mkty false RL)) (* &&   : etl::invoke(etl::move(f), ...)  *)
           | RR, true => Some (move_e (mkty true RL))   (* const&& *)
           | RNone, _ => None
           end in
  do f0 <- f;
  do r <- invoke_fo_m f0 [a];
  match snd r with [a'] => Some (fst r, a') | _ => None end.

(** ** bind_front: bind_front_t's four call operators -> bind_front_caller -> apply -> invoke *)
(* bound arguments are stored as decay_t<BoundArgs> in a tuple (element kind T); returns the categories the
   callable, the bound argument (if any) and the call argument arrive with *)
Definition bindfront_call_m (w : ty) (bound : bool) (a : ty) : option (ty * option ty * ty) :=
  let fexpr := match rf w, cst w with                (* first argument of bind_front_caller *)
               | RL, c => Some (mkty c RL)           (* _func                *)
               | RR, c => Some (move_e (mkty c RL))  (* etl::move(_func)     *)
               | RNone, _ => None
               end in
  do f0 <- fexpr;
  do f1 <- perfect_fwd f0;                           (* etl::forward<Func>(func) inside the lambda *)
  do a1 <- perfect_fwd a;                            (* operator() forwards callArgs to bind_front_caller *)
  do a2 <- perfect_fwd a1;                           (* ... which forwards them into invoke *)
  do b <- (if bound then
             do g <- tuple_get_m w (mkty false RNone);   (* apply: get<I>(etl::forward<BoundArgsTuple>(t)) *)
             do g' <- perfect_fwd g;                     (* etl::forward<BoundArgs>(boundArgs) *)
             Some (Some g')
           else Some None);
  do r <- invoke_fo_m f1 (match b with Some g => [g; a2] | None => [a2] end);
  match b, snd r with
  | Some _, [g'; a'] => Some (fst r, Some g', a')
  | None, [a'] => Some (fst r, None, a')
  | _, _ => None
  end.

(** ** apply / make_from_tuple: get<I>(etl::forward<Tuple>(t))... *)
Fixpoint map_opt {A B} (f : A -> option B) (l : list A) : option (list B) :=
  match l with [] => Some [] | a :: r => do b <- f a; do r' <- map_opt f r; Some (b :: r') end.
Definition apply_cats_m (fc tc : ty) (kinds : list ty) : option (ty * list ty) :=
  do tc' <- perfect_fwd tc;
  do gs <- map_opt (tuple_get_m tc') kinds;
  invoke_fo_m fc gs.
Definition apply_pair_cats_m (tc : ty) (kinds : list ty) : option (list ty) :=
  do tc' <- perfect_fwd tc; map_opt (pair_get_m tc') kinds.
Definition mft_cats_m (tc : ty) (kinds : list ty) : option (list ty) :=
  do tc' <- perfect_fwd tc; map_opt (tuple_get_m tc') kinds.      (* T(get<I>(etl::forward<Tuple>(t))...) *)

(** ** pair assignment: which assignment each member receives (true = move-assigned) *)
(* dk / sk: declared member type of destination / source; sc: category of the source pair *)
Definition ty_eqb (a b : ty) : bool :=
  Bool.eqb (cst a) (cst b) && match rf a, rf b with RNone, RNone | RL, RL | RR, RR => true | _, _ => false end.
Definition pair_assign_m (dk sk sc : ty) : option bool :=
  let src_member := member_lv (cst sc) sk in           (* p.first, p a named reference parameter *)
  if is_lref sc || cst sc then
    Some false   (* operator=(pair const&), operator=(pair<U1,U2> const&):  first = p.first *)
  else
    (* operator=(pair&&): first = etl::forward<first_type>(p.first);
       operator=(pair<U1,U2>&&): first = etl::forward<U1>(p.first) *)
    do e <- forward_e (if ty_eqb dk sk then dk else sk) src_member;
    Some (negb (is_lref e) && negb (cst e)).

(* ================================================================================================ *)
(** * (i) pair and tuple as values *)

Section Values.
Context {A : Type}.
Variable lt : A -> A -> bool.
Variable eqb : A -> A -> bool.

(* pair.hpp: operator== and operator< as written; the other four as written in terms of operator< *)
Definition pair_eq_m (l r : A * A) : bool := eqb (fst l) (fst r) && eqb (snd l) (snd r).
Definition pair_lt_m (l r : A * A) : bool :=
  if lt (fst l) (fst r) then true
  else if lt (fst r) (fst l) then false
  else if lt (snd l) (snd r) then true
  else false.
Definition pair_le_m (l r : A * A) : bool := negb (pair_lt_m r l).
Definition pair_gt_m (l r : A * A) : bool := pair_lt_m r l.
Definition pair_ge_m (l r : A * A) : bool := negb (pair_lt_m l r).
Definition pair_ne_m (l r : A * A) : bool := negb (pair_eq_m l r).   (* rewritten candidate of operator== *)

(* pair::swap: swap(first, other.first); swap(second, other.second) *)
Definition pair_swap_m (l r : A * A) : (A * A) * (A * A) :=
  let '(a1, b1) := (fst r, fst l) in
  let '(a2, b2) := (snd r, snd l) in
  ((a1, a2), (b1, b2)).
(* member-wise assignment: first = p.first; second = p.second *)
Definition pair_assign_val_m (l r : A * A) : A * A := (fst r, snd r).

Variable d : A.  (* filler for out-of-range reads; never observed *)

(* index_sequence expansion  f(get<0>(t), ..., get<N-1>(t))  with N = tuple_size *)
Definition idx_expand (t : list A) : list A := map (fun i => nth i t d) (seq 0 (length t)).

(* operator==(tuple, tuple): ((get<Is>(lhs) == get<Is>(rhs)) and ...) over index_sequence_for<Ts...>;
   sizeof...(Ts) == 0 returns true *)
Definition tuple_eq_m (l r : list A) : bool :=
  match length l with
  | O => true
  | _ => forallb (fun i => eqb (nth i l d) (nth i r d)) (seq 0 (length l))
  end.
Definition tuple_ne_m (l r : list A) : bool := negb (tuple_eq_m l r).

(* tuple_impl::swap: (tuple_leaf<Idx>::swap_impl(index_v<Idx>, other.get_impl(index_v<Idx>)), ...) *)
Definition tuple_swap_m (l r : list A) : list A * list A :=
  (map (fun i => nth i r d) (seq 0 (length l)), map (fun i => nth i l d) (seq 0 (length l))).

(* apply(f, t) = invoke(f, get<I>(t)...);  make_from_tuple<T>(t) = T(get<I>(t)...) *)
Definition apply_m {R} (f : list A -> R) (t : list A) : R := f (idx_expand t).
Definition make_from_tuple_m {R} (ctor : list A -> R) (t : list A) : R := ctor (idx_expand t).

(* detail::tuple_cat: concat(t1, t2, idx1, idx2) = forward_as_tuple(get<I1>(t1)..., get<I2>(t2)...);
   operator()(result, head, tail...) = ( *this)(concat(result, head), tail...);
   operator()(result) = tuple{get<Is>(result)...};  operator()() = tuple<>{} *)
Definition concat2_m (t1 t2 : list A) : list A := idx_expand t1 ++ idx_expand t2.
Fixpoint tuple_cat_go (result : list A) (tail : list (list A)) : list A :=
  match tail with
  | [] => idx_expand result
  | h :: tl => tuple_cat_go (concat2_m result h) tl
  end.
Definition tuple_cat_m (ts : list (list A)) : list A :=
  match ts with [] => [] | r :: tl => tuple_cat_go r tl end.
End Values.

(* tuple_cat with element types: see the end of this file (it uses the constructor model) *)

(* ================================================================================================ *)
(** * (ii) inplace_function as a state machine *)

Inductive cell := Dead | Live (id cnt : Z).          (* the target object living in a storage *)
Inductive wref := WI (i : nat) | WParam.             (* wrapper objects: the user's wrappers and the by-value parameter / temporary *)
Inductive cref := CW (w : wref) | CTmp.              (* storages: one per wrapper, plus swap's local storage_t *)
Inductive lerr := UseDead | OverLive | TypeConfusion | Leak.
Inductive out (X : Type) := Good (x : X) | Bad (e : lerr).
Arguments Good {X} x.
Arguments Bad {X} e.
Definition obind' {X Y} (r : out X) (f : X -> out Y) : out Y := match r with Good x => f x | Bad e => Bad e end.
Notation "'run' x <- a ; b" := (obind' a (fun x => b)) (at level 200, x name, a at level 100, b at level 200).

Definition wref_eqb (a b : wref) : bool :=
  match a, b with WI i, WI j => Nat.eqb i j | WParam, WParam => true | _, _ => false end.
Definition cref_eqb (a b : cref) : bool :=
  match a, b with CW x, CW y => wref_eqb x y | CTmp, CTmp => true | _, _ => false end.

Record state := mkst {
  cells : cref -> cell;           (* contents of every storage *)
  vts : wref -> option Z;         (* _vtable: None = &empty_vtable, Some id = vtable of target type id *)
  calls : list (Z * Z)            (* callee-side log, newest first: (target id, argument) *)
}.
Definition set_cell (s : state) (r : cref) (c : cell) : state :=
  mkst (fun r' => if cref_eqb r' r then c else cells s r') (vts s) (calls s).
Definition set_vt (s : state) (w : wref) (v : option Z) : state :=
  mkst (cells s) (fun w' => if wref_eqb w' w then v else vts s w') (calls s).

(* the captured state of target id after one more call (stateless targets have none) *)
Definition bump (stateless : list Z) (id cnt : Z) : Z :=
  if existsb (Z.eqb id) stateless then cnt else cnt + 1.
Definition call_result (id cnt arg : Z) : Z := id * 1000000 + cnt * 1000 + arg.

(** vtable thunks (inplace_func_vtable).  v = the vtable they are called through. *)
(* copy_ptr(dst, src):  ::new (dst) C{ *static_cast<C* >(src)} *)
Definition copy_thunk (v : option Z) (dst src : cref) (s : state) : out state :=
  match v with
  | None => Good s
  | Some id =>
    match cells s src with
    | Dead => Bad UseDead
    | Live i c =>
      if negb (i =? id) then Bad TypeConfusion else
      match cells s dst with
      | Live _ _ => Bad OverLive
      | Dead => Good (set_cell s dst (Live i c))
      end
    end
  end.
(* relocate_ptr(dst, src):  ::new (dst) C{move( *src)};  src->~C() *)
Definition relocate_thunk (v : option Z) (dst src : cref) (s : state) : out state :=
  match v with
  | None => Good s
  | Some id =>
    match cells s src with
    | Dead => Bad UseDead
    | Live i c =>
      if negb (i =? id) then Bad TypeConfusion else
      match cells s dst with
      | Live _ _ => Bad OverLive
      | Dead => Good (set_cell (set_cell s dst (Live i c)) src Dead)
      end
    end
  end.
(* destructor_ptr(p):  p->~C() *)
Definition destroy_thunk (v : option Z) (p : cref) (s : state) : out state :=
  match v with
  | None => Good s
  | Some id =>
    match cells s p with
    | Dead => Bad UseDead
    | Live i _ => if negb (i =? id) then Bad TypeConfusion else Good (set_cell s p Dead)
    end
  end.
(* invoke_ptr(p, args):  ( *static_cast<C* >(p))(args);  the empty vtable raises bad_function_call *)
Definition invoke_thunk (stateless : list Z) (v : option Z) (p : cref) (arg : Z) (s : state) : out (state * option Z) :=
  match v with
  | None => Good (s, None)
  | Some id =>
    match cells s p with
    | Dead => Bad UseDead
    | Live i c =>
      if negb (i =? id) then Bad TypeConfusion else
      let c' := bump stateless i c in
      Good (mkst (cells (set_cell s p (Live i c'))) (vts s) ((i, arg) :: calls s), Some (call_result i c' arg))
    end
  end.

(** member functions of inplace_function *)
(* inplace_function(T&& closure):  _vtable = &vt<C>;  ::new (&_storage) C{forward<T>(closure)} *)
Definition closure_ctor (w : wref) (id : Z) (s : state) : out state :=
  let s := set_vt s w (Some id) in
  match cells s (CW w) with Live _ _ => Bad OverLive | Dead => Good (set_cell s (CW w) (Live id 0)) end.
(* inplace_function(T&& closure) with a null function pointer / null member pointer: _vtable = &empty_vtable; return;
   nothing is constructed in the storage *)
Definition null_target_ctor (w : wref) (s : state) : out state :=
  match cells s (CW w) with Live _ _ => Bad OverLive | Dead => Good (set_vt s w None) end.
(* inplace_function() / inplace_function(nullptr_t) *)
Definition null_ctor (w : wref) (s : state) : out state :=
  match cells s (CW w) with Live _ _ => Bad OverLive | Dead => Good (set_vt s w None) end.
(* inplace_function(inplace_function const& other) : _vtable{other._vtable} { _vtable->copy_ptr(&_storage, &other._storage); } *)
Definition copy_ctor (w other : wref) (s : state) : out state :=
  let v := vts s other in
  copy_thunk v (CW w) (CW other) (set_vt s w v).
(* inplace_function(inplace_function&& other) : _vtable{exchange(other._vtable, &empty)} { _vtable->relocate_ptr(...); } *)
Definition move_ctor (w other : wref) (s : state) : out state :=
  let v := vts s other in
  relocate_thunk v (CW w) (CW other) (set_vt (set_vt s other None) w v).
(* the private constructor  inplace_function(vtable_ptr_t vtable, process_ptr_t process, storage_ptr_t storage)
     : _vtable{vtable} { process(addressof(_storage), storage); }
   through which both converting constructors (from an inplace_function of another capacity / alignment) go; [process] is
   the copy or relocate thunk taken from the SOURCE's vtable before the body runs *)
Definition private_ctor (w : wref) (v : option Z) (process : option Z -> cref -> cref -> state -> out state)
    (storage : cref) (s : state) : out state :=
  process v (CW w) storage (set_vt s w v).
(* template <size_t Cap, size_t Align> inplace_function(inplace_function<R(Args...), Cap, Align> const& other)
     : inplace_function{other._vtable, other._vtable->copy_ptr, addressof(other._storage)} *)
Definition conv_copy_ctor (w other : wref) (s : state) : out state :=
  private_ctor w (vts s other) copy_thunk (CW other) s.
(* template <size_t Cap, size_t Align> inplace_function(inplace_function<R(Args...), Cap, Align>&& other)
     : inplace_function{other._vtable, other._vtable->relocate_ptr, addressof(other._storage)}
     { other._vtable = addressof(empty_vtable); }      -- the source is emptied AFTER the relocation *)
Definition conv_move_ctor (w other : wref) (s : state) : out state :=
  run s <- private_ctor w (vts s other) relocate_thunk (CW other) s;
  Good (set_vt s other None).
(* ~inplace_function() *)
Definition dtor (w : wref) (s : state) : out state := destroy_thunk (vts s w) (CW w) s.
(* end of life of a temporary wrapper / raw storage: whatever still lives in it is leaked *)
Definition end_of_storage (r : cref) (s : state) : out state :=
  match cells s r with Live _ _ => Bad Leak | Dead => Good s end.
(* operator=(nullptr_t) *)
Definition assign_null (w : wref) (s : state) : out state :=
  run s <- destroy_thunk (vts s w) (CW w) s; Good (set_vt s w None).
(* operator=(inplace_function other), other = WParam already constructed by the caller; then other is destroyed *)
Definition assign_body (w : wref) (s : state) : out state :=
  run s <- destroy_thunk (vts s w) (CW w) s;
  let v := vts s WParam in
  let s := set_vt (set_vt s WParam None) w v in
  run s <- relocate_thunk v (CW w) (CW WParam) s;
  run s <- dtor WParam s;
  end_of_storage (CW WParam) s.
(* swap(inplace_function& other) *)
Definition swap_body (w other : wref) (s : state) : out state :=
  run s <- relocate_thunk (vts s w) CTmp (CW w) s;
  run s <- relocate_thunk (vts s other) (CW w) (CW other) s;
  run s <- relocate_thunk (vts s w) (CW other) CTmp s;
  let v1 := vts s w in
  let v2 := vts s other in
  end_of_storage CTmp (set_vt (set_vt s w v2) other v1).
Definition swap_m (w other : wref) (s : state) : out state :=
  if wref_eqb w other then Good s           (* if (this == addressof(other)) return; *)
  else swap_body w other s.
(* operator()(Args...) const *)
Definition call_m (stateless : list Z) (w : wref) (arg : Z) (s : state) : out (state * option Z) :=
  invoke_thunk stateless (vts s w) (CW w) arg s.
(* explicit operator bool *)
Definition bool_m (w : wref) (s : state) : bool := match vts s w with None => false | Some _ => true end.

(** histories *)
Inductive op :=
| OAssignTarget (w : nat) (t : Z)    (* w = Target{t}            *)
| OCopyAssign (w v : nat)            (* w = v                    *)
| OMoveAssign (w v : nat)            (* w = move(v)              *)
| OCopyCtor (w v : nat)              (* w.~F(); new (&w) F(v)        -- skipped when w = v *)
| OMoveCtor (w v : nat)              (* w.~F(); new (&w) F(move(v))  -- skipped when w = v *)
| OReset (w : nat)                   (* w = nullptr              *)
| OSwap (w v : nat)                  (* w.swap(v), swap(w, v)    *)
| OCall (w : nat) (arg : Z)          (* w(arg)                   *)
| OBool (w : nat)                    (* bool(w)                  *)
| OConvCopy (w : nat) (t : Z)        (* Small tmp{Target{t}}; w.~F(); new (&w) F(tmp)       *)
| OConvMove (w : nat) (t : Z)        (* Small tmp{Target{t}}; w.~F(); new (&w) F(move(tmp)) *)
| OCtorTarget (w : nat) (t : Z)      (* w.~F(); new (&w) F(target) *)
| OCtorNull (w : nat)                (* w.~F(); new (&w) F(nullptr) / F() *)
| OAssignNullFn (w : nat)            (* w = (R( * )(Args...)) nullptr    -- a null function pointer is not a target *)
| OCtorNullFn (w : nat)              (* w.~F(); new (&w) F((R( * )(Args...)) nullptr) *)
(* v a PERSISTENT wrapper of another (smaller) capacity: the converting constructors, w <> v by typing *)
| OConvCopyCtorW (w v : nat)         (* w.~F(); new (&w) F(v)          -- F(inplace_function<Sig, Cap, Align> const&) *)
| OConvMoveCtorW (w v : nat)         (* w.~F(); new (&w) F(move(v))    -- F(inplace_function<Sig, Cap, Align>&&)      *)
| OConvCopyAssign (w v : nat)        (* w = v        -- the by-value parameter is built by the converting copy constructor *)
| OConvMoveAssign (w v : nat).       (* w = move(v)  -- ... by the converting move constructor *)

Inductive tok := TAck | TCall (r : Z) | TEmpty | TBool (b : bool) | TSkip.

Definition in_range (n : nat) (o : op) : bool :=
  match o with
  | OAssignTarget w _ | OReset w | OCall w _ | OBool w | OConvCopy w _ | OConvMove w _ | OCtorTarget w _ | OCtorNull w
  | OAssignNullFn w | OCtorNullFn w =>
      Nat.ltb w n
  | OCopyAssign w v | OMoveAssign w v | OCopyCtor w v | OMoveCtor w v | OSwap w v => Nat.ltb w n && Nat.ltb v n
  | OConvCopyCtorW w v | OConvMoveCtorW w v | OConvCopyAssign w v | OConvMoveAssign w v =>
      Nat.ltb w n && Nat.ltb v n && negb (Nat.eqb w v)     (* objects of different types are different objects *)
  end.

Definition step_m (stateless : list Z) (n : nat) (s : state) (o : op) : out (state * tok) :=
  if negb (in_range n o) then Good (s, TSkip) else
  match o with
  | OAssignTarget w t =>
      run s <- closure_ctor WParam t s; run s <- assign_body (WI w) s; Good (s, TAck)
  | OCopyAssign w v =>
      run s <- copy_ctor WParam (WI v) s; run s <- assign_body (WI w) s; Good (s, TAck)
  | OMoveAssign w v =>
      run s <- move_ctor WParam (WI v) s; run s <- assign_body (WI w) s; Good (s, TAck)
  | OCopyCtor w v =>
      if Nat.eqb w v then Good (s, TAck) else
      run s <- dtor (WI w) s; run s <- copy_ctor (WI w) (WI v) s; Good (s, TAck)
  | OMoveCtor w v =>
      if Nat.eqb w v then Good (s, TAck) else
      run s <- dtor (WI w) s; run s <- move_ctor (WI w) (WI v) s; Good (s, TAck)
  | OReset w => run s <- assign_null (WI w) s; Good (s, TAck)
  | OSwap w v => run s <- swap_m (WI w) (WI v) s; Good (s, TAck)
  | OCall w arg =>
      run r <- call_m stateless (WI w) arg s;
      Good (fst r, match snd r with Some x => TCall x | None => TEmpty end)
  | OBool w => Good (s, TBool (bool_m (WI w) s))
  | OConvCopy w t =>
      run s <- closure_ctor WParam t s;
      run s <- dtor (WI w) s;
      run s <- conv_copy_ctor (WI w) WParam s;
      run s <- dtor WParam s;
      run s <- end_of_storage (CW WParam) s;
      Good (set_vt s WParam None, TAck)
  | OConvMove w t =>
      run s <- closure_ctor WParam t s;
      run s <- dtor (WI w) s;
      run s <- conv_move_ctor (WI w) WParam s;
      run s <- dtor WParam s;
      run s <- end_of_storage (CW WParam) s;
      Good (s, TAck)
  | OCtorTarget w t => run s <- dtor (WI w) s; run s <- closure_ctor (WI w) t s; Good (s, TAck)
  | OCtorNull w => run s <- dtor (WI w) s; run s <- null_ctor (WI w) s; Good (s, TAck)
  | OAssignNullFn w =>
      run s <- null_target_ctor WParam s; run s <- assign_body (WI w) s; Good (s, TAck)
  | OCtorNullFn w => run s <- dtor (WI w) s; run s <- null_target_ctor (WI w) s; Good (s, TAck)
  | OConvCopyCtorW w v => run s <- dtor (WI w) s; run s <- conv_copy_ctor (WI w) (WI v) s; Good (s, TAck)
  | OConvMoveCtorW w v => run s <- dtor (WI w) s; run s <- conv_move_ctor (WI w) (WI v) s; Good (s, TAck)
  | OConvCopyAssign w v => run s <- conv_copy_ctor WParam (WI v) s; run s <- assign_body (WI w) s; Good (s, TAck)
  | OConvMoveAssign w v => run s <- conv_move_ctor WParam (WI v) s; run s <- assign_body (WI w) s; Good (s, TAck)
  end.

(* what the harness observes after every step *)
Definition mask_m (n : nat) (s : state) : list bool := map (fun i => bool_m (WI i) s) (seq 0 n).
Definition cell_tracked (tracked : list Z) (c : cell) : nat :=
  match c with Live i _ => if existsb (Z.eqb i) tracked then 1%nat else 0%nat | Dead => 0%nat end.
Definition live_m (tracked : list Z) (n : nat) (s : state) : nat :=
  (fold_right (fun i acc => cell_tracked tracked (cells s (CW (WI i))) + acc) 0 (seq 0 n)
   + cell_tracked tracked (cells s (CW WParam)) + cell_tracked tracked (cells s CTmp))%nat.

Definition obs := (tok * list bool * nat)%type.

Fixpoint run_m (stateless tracked : list Z) (n : nat) (s : state) (ops : list op) : out (state * list obs) :=
  match ops with
  | [] => Good (s, [])
  | o :: rest =>
    run r <- step_m stateless n s o;
    let s' := fst r in
    run r' <- run_m stateless tracked n s' rest;
    Good (fst r', (snd r, mask_m n s', live_m tracked n s') :: snd r')
  end.

(* all wrappers default-constructed *)
Definition init_state : state := mkst (fun _ => Dead) (fun _ => None) [].
(* destroy wrappers n-1 .. 0 *)
Fixpoint destroy_all (n : nat) (s : state) : out state :=
  match n with O => Good s | S k => run s <- dtor (WI k) s; destroy_all k s end.
Definition any_live (n : nat) (s : state) : bool :=
  existsb (fun i => match cells s (CW (WI i)) with Live _ _ => true | Dead => false end) (seq 0 n)
  || match cells s (CW WParam) with Live _ _ => true | Dead => false end
  || match cells s CTmp with Live _ _ => true | Dead => false end.

(* the swap of the pinned snapshot, without the self check: documents the defect that was repaired *)
Definition swap_unchecked_m (w other : wref) (s : state) : out state := swap_body w other s.

(* ================================================================================================ *)
(** * construction / assignment of pair and tuple over element types *)
Inductive elem := EInt | EConstInt | ELRef | EConstLRef | ERRef | EMoveOnly | ECopyOnly.
(* language facts about one element type T: is_default_constructible, is_copy_constructible, "an xvalue of T
   initialises a T without selecting a deleted constructor", is_copy_assignable, is_move_assignable *)
Record etraits := mket { e_dc : bool; e_cc : bool; e_mv : bool; e_ca : bool; e_ma : bool }.
Definition elem_traits (e : elem) : etraits :=
  match e with
  | EInt => mket true true true true true
  | EConstInt => mket true true true false false
  | ELRef => mket false true true true true
  | EConstLRef => mket false true true false false
  | ERRef => mket false false true true true
  | EMoveOnly => mket true false true false true
  | ECopyOnly => mket true true false true false
  end.
(* pair.hpp: pair() requires both default constructible; pair(pair const&) = default; pair(pair&&) = default (a
   defaulted move constructor that is defined as deleted is ignored and the copy constructor is used);
   operator=(pair const&) requires both copy assignable; operator=(pair&&) requires both move assignable, otherwise
   the copy assignment binds the rvalue *)
Definition pair_traits_m (a b : elem) : list bool :=
  let x := elem_traits a in let y := elem_traits b in
  [ e_dc x && e_dc y;
    e_cc x && e_cc y;
    (e_mv x && e_mv y) || (e_cc x && e_cc y);
    e_ca x && e_ca y;
    (e_ma x && e_ma y) || (e_ca x && e_ca y) ].
(* tuple.hpp: tuple() requires all default constructible; tuple(tuple const&) = default *)
Definition tuple_traits_m (es : list elem) : list bool :=
  [ forallb (fun e => e_dc (elem_traits e)) es; forallb (fun e => e_cc (elem_traits e)) es ].

(** * small value-level behaviours *)
(* reference_wrapper: r refers to a; r.get() += 1; copy = r; r = r2 rebinds r to b (a is not assigned);
   r + copy through the implicit conversions: (sum, a, b) *)
Definition refwrap_ops_m (a b : Z) : Z * Z * Z := let a' := a + 1 in (b + a', a', b).
(* function_ref: views of plus_one and of a lambda adding a captured variable that is changed from 10 to 20 before
   the calls; copies and rebinding view the same callable *)
Definition fref_ops_m (v : Z) : list Z := [v + 1; v + 20; v + 20; v + 20; v + 20; v + 1].
(* not_fn<is_neg>()(v) *)
Definition notfn_static_m (v : Z) : bool := negb (v <? 0).

(* copies and moves of the wrappers themselves (op wrapcopy): bind_front_t / not_fn_t have implicit copy / move constructors
   that copy / move the stored callable (with its state) and the bound arguments; a callable bound through reference_wrapper is
   shared.  The callable counts its calls from x; results are count * 1000 + bound * 10 + call argument:
   g = bind_front(Acc{x}, y); g(1); h = g; h(2); g(3); k = move(g); k(4);  not_fn(Acc{x}) copied and moved, called with y
   (Acc(a) const = a < x);  s = bind_front(ref(acc), y); s2 = s; s(1); s2(2): acc counted both calls *)
Definition wrapcopy_m (x y : Z) : list Z * list bool * Z :=
  ([ (x + 1) * 1000 + y * 10 + 1; (x + 2) * 1000 + y * 10 + 2; (x + 2) * 1000 + y * 10 + 3; (x + 3) * 1000 + y * 10 + 4 ],
   [ negb (y <? x); negb (y <? x) ], x + 2).
(* member pointers as targets (op ipfmem): inplace_function<i64(MX const&, i64)> f = &MX::get calls (obj.*pmf)(1) = obj.v + 1 through
   invoke_r / invoke_memptr; inplace_function<i64(MX const&)> g = &MX::m reads the member (7).  A NULL member pointer takes the
   is_member_pointer_v branch of inplace_function(T&&): no target (the emptiness bits are computed from the state machine:
   OCtorNullFn / OAssignNullFn) *)
Definition memptr_target_m (x : Z) : Z * Z := (x + 1, 7).
(* a void signature: the thunk calls invoke_r<void>, which discards the result; three calls with x, x+1, x+2
   accumulate in the captured counter *)
Definition void_ret_m (x : Z) : Z := x + (x + 1) + (x + 2).
(* make_pair(T1&&, T2&&) -> pair<unwrap_ref_decay_t<T1>, unwrap_ref_decay_t<T2>>: the member type for an argument
   that is (wrapped = Some k) a reference_wrapper<X> (k = false) / reference_wrapper<X const> (k = true), or any
   other argument (None) *)
Definition make_pair_member_m (wrapped : option bool) : ty :=
  match wrapped with Some k => mkty k RL | None => mkty false RNone end.

(* known findings (missing pieces of the tuple protocol, visible only at compile time):
   tuple.hpp keeps its storage private and does not specialise std::tuple_size / std::tuple_element, so a
   structured binding of an etl::tuple is ill-formed (pair decomposes through its public members);
   get<T>(pair) / get<T>(tuple) are declared as friends of tuple but never defined *)
Definition tuple_structured_binding_m : bool := false.
(* tuple.hpp has no constructor from tuple<UTypes...> const& / && or from pair<U1, U2> const& / && *)
Definition tuple_converting_ctor_m : bool := false.
Definition get_by_type_m (is_pair : bool) : bool := false.

(* ================================================================================================ *)
(** * element transfer on construction: pair / tuple constructors, make_pair, make_tuple, forward_as_tuple *)
(* what happens to one element: a new object is copy- (false) or move- (true) constructed from the argument's object,
   or the element is a reference bound to the argument's object *)
Inductive built := Constructed (moved : bool) | Aliased.
(* language: direct-initialisation of a member declared with kind K from an expression of category e.  An object of a
   type with both constructors is move-constructed from a non-const rvalue and copy-constructed otherwise
   ([over.match.best]); a reference member binds ([dcl.init.ref]) or the initialisation is ill-formed *)
Definition init_elem (K e : ty) : option built :=
  match rf K with
  | RNone => Some (Constructed (negb (is_lref e) && negb (cst e)))
  | _ => if binds K e then Some Aliased else None
  end.
(* the parameter type [T const&] for a member type T of kind K (reference collapsing; const on a reference is ignored) *)
Definition cref_param (K : ty) : ty := add_lref (add_const K).
Definition first_some {X} (a b : option X) : option X := match a with Some x => Some x | None => b end.

(** ** pair.hpp constructors *)
(* pair(T1 const& t1, T2 const& t2) requires is_copy_constructible_v<T1> : first(t1) *)
Definition pair_ctor_cref_m (K a : ty) : option built :=
  let P := cref_param K in
  if binds P a then init_elem K (named P) else None.
(* template pair(U1&& x, U2&& y) requires is_constructible_v<T1, U1&&> : first(etl::forward<U1>(x)) *)
Definition pair_ctor_fwd_m (K a : ty) : option built :=
  do e <- perfect_fwd a; init_elem K e.
(* language ([over.match.best]): both take the argument by reference binding with an identity conversion; the non-template
   constructor wins only the tie, i.e. for a const lvalue argument; otherwise the forwarding template is the better match *)
Definition picks_cref_over_template (a : ty) : bool := is_lref a && cst a.        (* f(T const&) vs template f(U&&), both viable *)
Definition pair_ctor_m (K a : ty) : option built :=
  if picks_cref_over_template a then first_some (pair_ctor_cref_m K a) (pair_ctor_fwd_m K a)
  else first_some (pair_ctor_fwd_m K a) (pair_ctor_cref_m K a).
(* pair(pair<U1,U2> const& p) requires is_constructible_v<T1, U1 const&> : first(p.first) *)
Definition pair_conv_copy_m (dk sk : ty) : option built := init_elem dk (member_lv true sk).
(* pair(pair<U1,U2>&& p) requires is_constructible_v<T1, U1&&> : first(etl::forward<U1>(p.first)) *)
Definition pair_conv_move_m (dk sk : ty) : option built :=
  do e <- forward_e sk (member_lv false sk); init_elem dk e.
(* language: a non-const rvalue source prefers the && overload when its constraint holds; everything else can only bind
   to the const& overload *)
Definition picks_rref_template (sc : ty) : bool := negb (is_lref sc) && negb (cst sc).   (* template f(W<U> const&) vs f(W<U>&&) *)
Definition pair_conv_ctor_m (dk sk sc : ty) : option built :=
  if picks_rref_template sc then first_some (pair_conv_move_m dk sk) (pair_conv_copy_m dk sk)
  else pair_conv_copy_m dk sk.
(* make_pair(T1&& t, T2&& u) -> pair<unwrap_ref_decay_t<T1>, ...> { return {etl::forward<T1>(t), etl::forward<T2>(u)}; } *)
Definition make_pair_transfer_m (a : ty) : option built :=
  do e <- perfect_fwd a; pair_ctor_m (mkty false RNone) e.

(** ** tuple.hpp constructors *)
(* tuple(Args&&... args) : _impl{etl::forward<Args>(args)...}
   -> tuple_impl(Args&&... args) : tuple_leaf<Idx,Ts>{etl::forward<Args>(args)}...
   -> tuple_leaf(Args&&... args) : _value{etl::forward<Args>(args)...} *)
Definition tuple_ctor_fwd_m (K a : ty) : option built :=
  do e1 <- perfect_fwd a; do e2 <- perfect_fwd e1; do e3 <- perfect_fwd e2; init_elem K e3.
(* tuple(Ts const&... args) requires is_copy_constructible_v<Ts> : _impl(args...)
   -> tuple_impl(Ts const&... args) : tuple_leaf<Idx,Ts>(args)...
   -> tuple_leaf(Args&&... args) [Args = Ts const&] : _value{etl::forward<Args>(args)...} *)
Definition tuple_ctor_cref_m (K a : ty) : option built :=
  let P := cref_param K in
  if binds P a && binds P (named P) then
    do c <- init_elem K (named P);                 (* requires is_copy_constructible_v<Ts> *)
    do e <- perfect_fwd (named P); init_elem K e
  else None.
Definition tuple_ctor_m (K a : ty) : option built :=
  if picks_cref_over_template a then first_some (tuple_ctor_cref_m K a) (tuple_ctor_fwd_m K a)
  else first_some (tuple_ctor_fwd_m K a) (tuple_ctor_cref_m K a).
(* all elements: both constructors require sizeof...(Ts) == sizeof...(Args) *)
Fixpoint tuple_ctor_all_m (Ks args : list ty) : option (list built) :=
  match Ks, args with
  | [], [] => Some []
  | K :: Ks', a :: args' => do r <- tuple_ctor_m K a; do rs <- tuple_ctor_all_m Ks' args'; Some (r :: rs)
  | _, _ => None
  end.
(* make_tuple(Args&&... args) { return tuple<unwrap_decay_t<Args>...>(etl::forward<Args>(args)...); } *)
Definition make_tuple_transfer_m (a : ty) : option built :=
  do e <- perfect_fwd a; tuple_ctor_m (mkty false RNone) e.
(* forward_as_tuple(Args&&... args) -> tuple<Args&&...> { return tuple<Args&&...>{etl::forward<Args>(args)...}; } *)
Definition forward_as_tuple_m (a : ty) : option (ty * built) :=
  let K := add_rref (deduce_fwd a) in
  do e <- perfect_fwd a; do r <- tuple_ctor_m K e; Some (K, r).

(* ================================================================================================ *)
(** * the call wrappers with any number of arguments *)
Fixpoint map2_opt {X Y Z : Type} (f : X -> Y -> option Z) (l1 : list X) (l2 : list Y) : option (list Z) :=
  match l1, l2 with
  | [], [] => Some []
  | a :: r1, b :: r2 => do c <- f a b; do r <- map2_opt f r1 r2; Some (c :: r)
  | _, _ => None
  end.
(* the stored callable / bound-argument tuple as named inside the four cv-ref qualified call operators:
   _func (& , const&) or etl::move(_func) (&&, const&&) *)
Definition stored_as (w : ty) : option ty :=
  match rf w with
  | RL => Some (mkty (cst w) RL)
  | RR => Some (move_e (mkty (cst w) RL))
  | RNone => None
  end.
(* not_fn_t::operator()(Args&&... args) cv-ref  { return not etl::invoke(f | etl::move(f), etl::forward<Args>(args)...); } *)
Definition notfn_call_all_m (w : ty) (args : list ty) : option (ty * list ty) :=
  do f0 <- stored_as w;
  do a1 <- map_opt perfect_fwd args;
  invoke_fo_m f0 a1.
(* reference_wrapper<T>::operator()(Args&&... args) const { return invoke(get(), etl::forward<Args>(args)...); } *)
Definition refwrap_call_all_m (tconst : bool) (args : list ty) : option (ty * list ty) :=
  do a1 <- map_opt perfect_fwd args;
  invoke_fo_m (mkty tconst RL) a1.
(* bind_front_t::operator()(CallArgs&&...) cv-ref -> bind_front_caller(_func | move(_func), _boundArgs | move(_boundArgs),
   forward<CallArgs>(callArgs)...) -> apply(lambda, forward<BoundArgsTuple>(t)) -> invoke(lambda, get<I>(forward<Tuple>(t))...)
   -> lambda(BoundArgs&&... boundArgs) -> invoke(forward<Func>(func), forward<BoundArgs>(boundArgs)..., forward<CallArgs>(callArgs)...);
   the nbound bound arguments are stored as decay_t<BoundArgs> in a tuple *)
Definition bindfront_call_all_m (w : ty) (nbound : nat) (args : list ty) : option (ty * list ty) :=
  do f0 <- stored_as w;
  do f1 <- perfect_fwd f0;
  do a1 <- map_opt perfect_fwd args;          (* operator() -> bind_front_caller *)
  do a2 <- map_opt perfect_fwd a1;            (* lambda -> invoke *)
  do t0 <- stored_as w;
  do t1 <- perfect_fwd t0;                    (* bind_front_caller -> apply *)
  do t2 <- perfect_fwd t1;                    (* apply: get<I>(etl::forward<Tuple>(t)) *)
  do bs <- map_opt (fun _ : nat => do g <- tuple_get_m t2 (mkty false RNone);
                                   do g1 <- perfect_fwd g;       (* apply -> invoke -> lambda *)
                                   perfect_fwd g1)               (* lambda: etl::forward<BoundArgs>(boundArgs) *)
                   (seq 0 nbound);
  invoke_fo_m f1 (bs ++ a2).
(* inplace_function<R(Args...)>::operator() / function_ref<R(Args...)>::operator(): one parameter per argument *)
Definition ipf_call_all_m (Ps args : list ty) : option (ty * list ty) :=
  do ys <- map2_opt (fun P a => do r <- ipf_call_m P a; Some (snd r)) Ps args;
  Some (LV, ys).
Definition fref_call_all_m (fc : ty) (Ps args : list ty) : option (ty * list ty) :=
  do ys <- map2_opt (fun P a => do r <- fref_call_m fc P a; Some (snd r)) Ps args;
  do f <- perfect_fwd (mkty (cst fc) RL);
  Some (f, ys).

(* ================================================================================================ *)
(** * the way back: how the wrappers return the callable's result *)
(* r is the callable's declared return type (rf = RNone: a prvalue of type [const] A).  Language: the call expression has
   type and category r; [ret_as R e] is "return e;" in a function declared to return R; decltype(auto) keeps r.
   invoke_result_t<F, Args...> is decltype of the INVOKE expression, i.e. r. *)
(* invoke(F&& f, Args&&... args) -> invoke_result_t<F, Args...> { return etl::forward<F>(f)(etl::forward<Args>(args)...); } *)
Definition invoke_ret_m (r : ty) : option ty := ret_as r r.
(* detail::invoke_memptr(...) -> decltype(auto) { return (obj.*f)(args...); } called from invoke *)
Definition invoke_memptr_ret_m (r : ty) : option ty := do e <- ret_decltype_auto r; ret_as r e.
(* apply(F&&, Tuple&&) -> decltype(auto) { return [&]<size_t... I>(index_sequence<I...>) -> decltype(auto) { return etl::invoke(...); }(...); } *)
Definition apply_ret_m (r : ty) : option ty :=
  do e0 <- invoke_ret_m r; do e1 <- ret_decltype_auto e0; ret_decltype_auto e1.
(* reference_wrapper::operator()(Args&&...) const -> invoke_result_t<T&, Args...> { return invoke(get(), ...); } *)
Definition refwrap_ret_m (r : ty) : option ty := do e0 <- invoke_ret_m r; ret_as r e0.
(* bind_front_t::operator() -> invoke_result_t<Func cv-ref, BoundArgs cv-ref..., CallArgs...> { return bind_front_caller(...); }
   bind_front_caller(...) -> decltype(auto) { return etl::apply(lambda, tuple); }
   lambda(BoundArgs&&...) -> decltype(auto) { return etl::invoke(func, boundArgs..., callArgs...); }   (called by apply through invoke) *)
Definition bindfront_ret_m (r : ty) : option ty :=
  do e0 <- invoke_ret_m r;            (* the innermost invoke of the target *)
  do e1 <- ret_decltype_auto e0;      (* lambda *)
  do e2 <- apply_ret_m e1;            (* apply(lambda, tuple) *)
  do e3 <- ret_decltype_auto e2;      (* bind_front_caller *)
  ret_as r e3.                        (* operator() *)
(* invoke_r<R>(F&&, Args&&...) -> R { return etl::invoke(...); }   requires is_invocable_r_v<R, F, Args...> *)
Definition invoke_r_ret_m (R r : ty) : option ty := do e0 <- invoke_ret_m r; ret_as R e0.
(* inplace_function<R(Args...)>: thunk [](storage_ptr_t, Args&&...) -> R { return etl::invoke_r<R>(...); };
   operator()(Args...) const -> R { return _vtable->invoke_ptr(...); } *)
Definition ipf_ret_m (R r : ty) : option ty :=
  do e0 <- invoke_r_ret_m R r; do e1 <- ret_as R e0; ret_as R e1.
(* function_ref<R(Args...)>: thunk +[](void*, Args...) -> R { return etl::invoke_r<R>( *func, ...); };
   operator()(Args...) const -> R { return _callable(_obj, ...); } *)
Definition fref_ret_m (R r : ty) : option ty :=
  do e0 <- invoke_r_ret_m R r; do e1 <- ret_as R e0; ret_as R e1.

(* ================================================================================================ *)
(** * tuple_cat with element types *)
(* An operand is (category of the operand expression, elements); an element is (declared type, value). *)
Definition telem := (ty * Z)%type.
Definition toperand := (ty * list telem)%type.
(* forward_as_tuple(get<I>(etl::forward<T>(t))...): the new element type is the reference type returned by get *)
Definition refs_of (o : toperand) : option (list telem) :=
  do c <- perfect_fwd (fst o);
  map_opt (fun e : telem => do g <- tuple_get_m c (fst e); Some (g, snd e)) (snd o).
Definition concat2_t (r h : toperand) : option toperand :=
  do a <- refs_of r; do b <- refs_of h; Some (RV, a ++ b).   (* the temporary tuple of references is a prvalue *)
(* run<Ret>(result, head, tail...) = run<Ret>(concat(result, head), tail...);  run<Ret>(result) reads
   get<Is>(etl::forward<Result>(result))... *)
Fixpoint tuple_cat_go_refs (result : toperand) (tail : list toperand) : option (list telem) :=
  match tail with
  | [] => refs_of result
  | h :: tl => do r <- concat2_t result h; tuple_cat_go_refs r tl
  end.
(* detail::tuple_cat_result_t<Tuples...>: tuple<tuple_element_t<I, remove_cvref_t<Tuple>>...> of every operand, joined *)
Definition elem_kinds (o : toperand) : list ty := map fst (snd o).
Definition tuple_cat_result_m (ts : list toperand) : list ty := concat (map elem_kinds ts).
(* Ret(get<Is>(etl::forward<Result>(result))...): element i of declared type Ret_i is initialised by tuple's
   constructor from the i-th reference *)
Definition cat_final (Ks : list ty) (g : list telem) : option (list (Z * built)) :=
  map2_opt (fun K (e : telem) => do b <- tuple_ctor_m K (fst e); Some (snd e, b)) Ks g.
Definition tuple_cat_t_m (ts : list toperand) : option (list (Z * built)) :=
  match ts with
  | [] => Some []                                      (* run<Ret>() = Ret() *)
  | r :: tl => do g <- tuple_cat_go_refs r tl; cat_final (tuple_cat_result_m ts) g
  end.
(* the result element type for an operand element declared with kind k, and the arity of tuple_cat(tuple<tuple<...>>) *)
Definition cat_result_kind_m (k : ty) : ty := match tuple_cat_result_m [(LV, [(k, 0)])] with [r] => r | _ => k end.
Definition cat_single_nested_arity_m (inner_arity : nat) : nat := length (tuple_cat_result_m [(LV, [(mkty false RNone, 0)])]).
(* tuple_element_t<I, tuple<Ts...>>: tuple_leaf<I, T>::get_type returns type_identity<T> *)
Definition tuple_element_kind_m (k : ty) : ty := k.

(* ================================================================================================ *)
(** * reference_wrapper: which arguments can be wrapped *)
(* reference_wrapper<T>(U&& u): participates iff detail::FUN<T>(declval<U>()) is well-formed, with the overload set
     FUN(T& t) noexcept -> T&;   void FUN(T&&) = delete;
   language ([over.ics.rank]): an rvalue prefers the (deleted) rvalue-reference overload whenever it can bind to it *)
Definition refwrap_ctor_wf_m (tconst : bool) (a : ty) : bool :=
  binds (mkty tconst RL) a && negb (binds (mkty tconst RR) a).
(* ref(T& t) [T deduced: X, or X const for a const argument],  ref(reference_wrapper<T>),  void ref(T const&&) = delete *)
Definition ref_wf_m (a : ty) : bool :=
  binds (mkty (cst a) RL) a && negb (binds (mkty true RR) a).
(* cref(T const& t),  cref(reference_wrapper<T>),  void cref(T const&&) = delete *)
Definition cref_wf_m (a : ty) : bool :=
  binds (mkty true RL) a && negb (binds (mkty true RR) a).

(* reference_wrapper around std::function<i64(i64)> adding one, and around a callable taking a std::string of |x| mod 7
   characters: etl::invoke is called qualified, so these calls are not ambiguous with std::invoke (values only) *)
Definition refwrap_std_m (x : Z) : Z * Z := (x + 1, Z.rem (Z.abs x) 7).

(* ================================================================================================ *)
(** * is_swappable_v<pair<T1, T2>> *)
(* language / [swappable.requirements]: is_swappable_v<T> of one element type *)
Definition elem_swappable (e : elem) : bool :=
  match e with EInt | ELRef | ERRef | EMoveOnly => true | EConstInt | EConstLRef | ECopyOnly => false end.
(* pair.hpp: swap(pair<T1,T2>&, pair<T1,T2>&) requires(is_swappable_v<T1> and is_swappable_v<T2>); when it does not
   participate only the generic swap template remains, which needs a move-constructible and move-assignable pair *)
Definition pair_swappable_m (a b : elem) : bool :=
  (elem_swappable a && elem_swappable b)
  || (nth 2 (pair_traits_m a b) false && nth 4 (pair_traits_m a b) false).

(** * is_swappable_v<tuple<Ts...>> *)
(* tuple.hpp: swap(tuple<Ts...>&, tuple<Ts...>&) requires((is_swappable_v<Ts> and ...)) { lhs.swap(rhs); } (added by a fix:
   commit; before it only the generic swap existed).  When it does not participate the generic swap template remains, which
   needs the defaulted member-wise assignment of tuple_leaf<I, T>: deleted for a const or reference element *)
Definition leaf_assignable (e : elem) : bool :=
  match e with EInt | EMoveOnly | ECopyOnly => true | EConstInt | ELRef | EConstLRef | ERRef => false end.
Definition tuple_swappable_m (es : list elem) : bool := forallb elem_swappable es || forallb leaf_assignable es.
(* non-member swap on tuples of references exchanges the REFERENTS (value script of op tswapref): (a, b, c, d) -> (c, d, a, b),
   by the member and by the non-member swap: twice = identity *)
Definition tuple_swap_refs_m (a b c d : Z) : list Z := [c; d; a; b; a; b; c; d].

(* function_ref and function pointers (op frefptr): function_ref(F* f) stores the pointer value, so (1) a later change of the
   pointer object is not seen: f(v) = v + 1; (2) a function_ref made from a pointer temporary still calls the function after
   the temporary is gone: v + 1; (3) assignment from a function re-binds: v + 1; (4) from a function pointer (to plus_two):
   v + 2.  Assignment from a callable (lvalue or rvalue) is deleted in the derived classes; from a function pointer and from a
   function_ref it is well-formed; the same for the noexcept signature *)
Definition fref_ptr_m (v : Z) : list Z * list bool :=
  ([v + 1; v + 1; v + 1; v + 2], [false; false; true; true; false; true]).

(* ================================================================================================ *)
(** * copies and moves of one tracked element on its way through the wrappers (op xfer) *)
(* 10 per copy construction, 1 per move construction *)
Definition cm (b : option built) : Z :=
  match b with Some (Constructed false) => 10 | Some (Constructed true) => 1 | _ => 0 end.
Definition VK : ty := mkty false RNone.
(* construction of the call wrappers: how the callable and the bound arguments get INTO the wrapper (op wctor)
   bind_front(Func&& func, BoundArgs&&... boundArgs)
     { return bind_front_t<decay_t<Func>, decay_t<BoundArgs>...>{forward<Func>(func), forward<BoundArgs>(boundArgs)...}; }
   bind_front_t(F&& f, BA&&... ba) : _func(forward<F>(f)), _boundArgs(forward<BA>(ba)...)   -- tuple<BoundArgs...>'s constructors *)
Definition bindfront_ctor_m (fc : ty) (bound : list ty) : option (built * list built) :=
  do f1 <- perfect_fwd fc; do f2 <- perfect_fwd f1; do bf <- init_elem VK f2;
  do bs <- map_opt (fun a => do a1 <- perfect_fwd a; do a2 <- perfect_fwd a1; tuple_ctor_m VK a2) bound;
  Some (bf, bs).
(* not_fn(F&& f) -> not_fn_t<decay_t<F>> { return {forward<F>(f)}; }   -- aggregate initialisation of the member f *)
Definition notfn_ctor_m (fc : ty) : option built := do f1 <- perfect_fwd fc; init_elem VK f1.
(* the category the single bound argument of bind_front arrives with at the target, for a wrapper of category w *)
Definition bound_arrives (w : ty) : ty :=
  match bindfront_call_all_m w 1 [] with Some (_, b :: _) => b | _ => LV end.
(* the category get<0> delivers to the callable of apply / make_from_tuple for a tuple operand of category c *)
Definition applied_arrives (c : ty) : ty :=
  match apply_cats_m LV c [VK] with Some (_, g :: _) => g | _ => LV end.
Definition xfer_m : list Z :=
  [ (* bind_front(show, x)(0): the bound argument is stored by tuple's constructor from an lvalue; show takes it by reference *)
    cm (tuple_ctor_m VK LV);
    (* bind_front(show, move(x))(0) *)
    cm (tuple_ctor_m VK RV);
    (* g = bind_front(take, Tr{1}): stored from the materialised temporary; g(0): take's by-value parameter is initialised
       from the bound argument as it arrives from an lvalue wrapper; move(g)(0): from an rvalue wrapper *)
    cm (tuple_ctor_m VK RV) + cm (init_elem VK (bound_arrives LV));
    cm (tuple_ctor_m VK RV) + cm (init_elem VK (bound_arrives RV));
    (* the callable itself: bind_front(f) / bind_front(F{...}): _func(etl::forward<F>(f)) *)
    cm (do e <- perfect_fwd LV; init_elem VK e);
    cm (do e <- perfect_fwd RV; init_elem VK e);
    (* inplace_function(T&& closure): ::new (&_storage) C{etl::forward<T>(closure)} *)
    cm (do e <- perfect_fwd LV; init_elem VK e);
    cm (do e <- perfect_fwd RV; init_elem VK e);
    (* make_tuple(Tr{1}, 2) *)
    cm (make_tuple_transfer_m RV);
    (* make_from_tuple<F>(tuple<Tr>{Tr{1}}): the tuple element is constructed from the temporary, then F's member from
       get<0>(tuple&&) *)
    cm (tuple_ctor_m VK RV) + cm (init_elem VK (applied_arrives RV));
    (* apply(take, tuple<Tr, int>{Tr{1}, 0}): likewise, into take's by-value parameter *)
    cm (tuple_ctor_m VK RV) + cm (init_elem VK (applied_arrives RV)) ].

(* tuple_leaf(Args&&... args) : _value(etl::forward<Args>(args)...) -- direct-NON-list-initialisation (op tinit):
   a std::vector<int> element built from the integer k = |n| mod 9 has k elements (list-initialisation would give one
   element); a long element built from the double n + 0.5 is the truncated value; pair does the same *)
Definition tuple_init_m (n : Z) : list Z :=
  let k := Z.rem (Z.abs n) 9 in
  let tr := if 0 <=? n then n else n + 1 in     (* trunc (n + 0.5) for an integer n: n for n >= 0, n + 1 for n < 0 *)
  [k; k; tr; k; tr].
