(* C20 — property theorems, part (vi): the conditionally explicit constructors of pair and tuple (default, element-wise
   const&, element-wise forwarding, converting copy / move) are explicit exactly when the standard says so: when SOME
   element conversion is explicit-only; they take part exactly when EVERY element is constructible.  Elements are described by
   their conversion kinds (absent / explicit-only / implicit) per source expression; pairs, and tuples of any arity. *)
From Coq Require Import List Bool.
From Tetl Require Import C20.ModelExpl C20.SpecExpl C20.ProofsExpl.
Import ListNotations.

(* every site (constructor x category of the source expression), every list of elements *)
Theorem C20_conditionally_explicit_constructors : forall s es, xsite_m s es = xsite_s s es.
Proof. exact xsite_refines. Qed.
Print Assumptions C20_conditionally_explicit_constructors.

(* constructor by constructor *)
Theorem C20_pair_constructors_explicit_iff_any_element_explicit : forall a b,
  pair_default_ctor_m a b = ctor_spec [a; b] /\ pair_cref_ctor_m a b = ctor_spec [a; b] /\
  pair_fwd_ctor_m a b = ctor_spec [a; b] /\ pair_conv_copy_ctor_m a b = ctor_spec [a; b] /\
  pair_conv_move_ctor_m a b = ctor_spec [a; b].
Proof.
  intros a b. repeat split;
    [apply pair_default_spec|apply pair_cref_spec|apply pair_fwd_spec|apply pair_conv_copy_spec|apply pair_conv_move_spec].
Qed.
Print Assumptions C20_pair_constructors_explicit_iff_any_element_explicit.
Theorem C20_tuple_constructors_explicit_iff_any_element_explicit : forall es,
  tuple_default_ctor_m es = ctor_spec es /\
  (es <> [] -> tuple_cref_ctor_m es = ctor_spec es /\ tuple_fwd_ctor_m es = ctor_spec es).
Proof.
  intro es. split; [apply tuple_default_spec|]. intro H. split; [apply tuple_cref_spec|apply tuple_fwd_spec]; exact H.
Qed.
Print Assumptions C20_tuple_constructors_explicit_iff_any_element_explicit.

(* clauses: the implicit conversion exists iff every element converts implicitly; the constructor exists iff every element is
   constructible; direct-initialisation does not look at the explicit-specifier *)
Theorem C20_implicit_iff_every_element_implicit : forall es, es <> [] ->
  tuple_fwd_ctor_m es = VImplicit <-> Forall (fun c => c = CImpl) es.
Proof. intros es H. rewrite (tuple_fwd_spec es H). apply implicit_iff_all. Qed.
Print Assumptions C20_implicit_iff_every_element_implicit.
Theorem C20_pair_converting_copy_implicit_iff_both_implicit : forall a b,
  pair_conv_copy_ctor_m a b = VImplicit <-> a = CImpl /\ b = CImpl.
Proof.
  intros a b. rewrite pair_conv_copy_spec. rewrite implicit_iff_all. split.
  - intro H. inversion H as [|x l Ha Hl]; subst. inversion Hl as [|y l' Hb Hn]; subst. split; reflexivity.
  - intros [Ha Hb]. subst. repeat constructor.
Qed.
Print Assumptions C20_pair_converting_copy_implicit_iff_both_implicit.
Theorem C20_constructor_participates_iff_every_element_constructible : forall es, es <> [] ->
  tuple_fwd_ctor_m es <> VNone <-> Forall (fun c => c <> CNone) es.
Proof. intros es H. rewrite (tuple_fwd_spec es H). apply exists_iff_not_none. Qed.
Print Assumptions C20_constructor_participates_iff_every_element_constructible.
Theorem C20_one_explicit_element_suffices : forall l r, Forall (fun c => c <> CNone) (l ++ r) ->
  tuple_fwd_ctor_m (l ++ CExpl :: r) = VExplicit.
Proof.
  intros l r H. rewrite tuple_fwd_spec; [apply one_explicit_suffices; exact H|]. destruct l; discriminate.
Qed.
Print Assumptions C20_one_explicit_element_suffices.
Theorem C20_static_facts_of_a_constructor : forall es, es <> [] ->
  xfacts (tuple_fwd_ctor_m es) = (forallb constructible es, forallb convertible es).
Proof.
  intros es H. rewrite (tuple_fwd_spec es H). rewrite <- direct_ignores_explicit, <- implicit_fact.
  destruct (xfacts (ctor_spec es)); reflexivity.
Qed.
Print Assumptions C20_static_facts_of_a_constructor.
Theorem C20_explicitness_independent_of_element_order : forall es, es <> [] ->
  tuple_fwd_ctor_m (rev es) = tuple_fwd_ctor_m es.
Proof.
  intros es H. rewrite !tuple_fwd_spec; [apply ctor_spec_rev|exact H|].
  intro E. apply H. rewrite <- (rev_involutive es), E. reflexivity.
Qed.
Print Assumptions C20_explicitness_independent_of_element_order.

(* the element tests joined by `and` instead of `or`: refuted, and wrong exactly for one explicit-only next to one implicit
   element conversion (so no pair whose elements convert alike - all the 261 tests use - can tell the difference) *)
Theorem C20_explicit_test_needs_disjunction : exists a b, pair_ctor_conjunction_m a b <> ctor_spec [a; b].
Proof. exists CExpl, CImpl. discriminate. Qed.
Print Assumptions C20_explicit_test_needs_disjunction.
Theorem C20_conjunction_wrong_only_for_mixed_elements : forall a b,
  pair_ctor_conjunction_m a b <> ctor_spec [a; b] <-> (a = CExpl /\ b = CImpl) \/ (a = CImpl /\ b = CExpl).
Proof. exact conjunction_differs_iff. Qed.
Print Assumptions C20_conjunction_wrong_only_for_mixed_elements.

(* the call wrappers' constructors and conversion functions (no conditional explicit-specifier: constant scripts, the content
   is the harness comparison of op explw with libstdc++) *)
Theorem C20_wrapper_constructors_implicit_as_specified :
  wrapper_ctors_m = wrapper_ctors_spec /\ wrapper_ctors_etl_m = wrapper_ctors_etl_spec.
Proof. split; reflexivity. Qed.
Print Assumptions C20_wrapper_constructors_implicit_as_specified.

(* the whole case function of op expl *)
Theorem C20_explicitness_cases : forall site es, expl_case_m site es = expl_case_s site es.
Proof. exact case_refines. Qed.
Print Assumptions C20_explicitness_cases.

(* non-vacuity: pair<Expl, int> from pair<int, int> const& is constructible and NOT implicitly convertible; a 3-tuple with the
   explicit-only element in the middle likewise; all-implicit elements convert implicitly *)
Example C20_explicit_nonvacuous :
  let i := {| q_def := CImpl; q_self := CImpl; q_cref := CImpl; q_rref := CImpl |} in
  let e := {| q_def := CNone; q_self := CImpl; q_cref := CExpl; q_rref := CExpl |} in
  expl_case_m 4 [e; i] = Some (true, false) /\ expl_case_m 10 [i; e; i] = Some (true, false) /\
  expl_case_m 6 [i; i] = Some (true, true) /\ expl_case_m 0 [e; i] = Some (false, false).
Proof. vm_compute. repeat split. Qed.
