(* C20 — model, part (vi) (fix-miss round 5): the CONDITIONAL explicit-specifier of the constructors of pair and tuple.

   Every constructor of pair.hpp / tuple.hpp that converts elements carries
       requires(<every element is constructible from its source>)  explicit(<some test over is_convertible_v>)
   What the rest of the model says about these constructors (which element is copied, moved, bound) is independent of the
   explicit-specifier: it decides only WHETHER the constructor may be used by copy-initialisation / copy-list-initialisation /
   implicit conversion (passing a pair<U1, U2> where a pair<T1, T2> is expected, `return {a, b};`, `p = {x, y}` ...).

   Vocabulary: the conversion of ONE element from one source expression is `CNone` (is_constructible_v false), `CExpl`
   (constructible, not implicitly convertible: an explicit constructor only) or `CImpl` (is_convertible_v true).  A
   constructor is `VNone` (does not participate), `VExplicit` or `VImplicit`.  The functions below are the headers' formulas,
   connective by connective (the header text is quoted above each). *)
From Coq Require Import List Bool.
Import ListNotations.

Inductive conv := CNone | CExpl | CImpl.
Inductive verdict := VNone | VExplicit | VImplicit.

(* is_constructible_v<T, From> / is_convertible_v<From, T> of one element *)
Definition constructible (c : conv) : bool := match c with CNone => false | _ => true end.
Definition convertible (c : conv) : bool := match c with CImpl => true | _ => false end.

Definition xctor (participates explicit : bool) : verdict :=
  if participates then (if explicit then VExplicit else VImplicit) else VNone.

(** * pair.hpp *)
(* explicit(not is_implicit_default_constructible_v<T1> || not is_implicit_default_constructible_v<T2>) constexpr pair()
       requires(is_default_constructible_v<T1> and is_default_constructible_v<T2>) *)
Definition pair_default_ctor_m (a b : conv) : verdict :=
  xctor (constructible a && constructible b) (negb (convertible a) || negb (convertible b)).
(* explicit(not is_convertible_v<T1 const&, T1> or not is_convertible_v<T2 const&, T2>) constexpr pair(T1 const& t1, T2 const& t2)
       requires(is_copy_constructible_v<T1> and is_copy_constructible_v<T2>) *)
Definition pair_cref_ctor_m (a b : conv) : verdict :=
  xctor (constructible a && constructible b) (negb (convertible a) || negb (convertible b)).
(* template <typename U1 = T1, typename U2 = T2> requires(is_constructible_v<T1, U1&&> and is_constructible_v<T2, U2&&>)
   explicit(not is_convertible_v<U1&&, T1> || not is_convertible_v<U2&&, T2>) constexpr pair(U1&& x, U2&& y) *)
Definition pair_fwd_ctor_m (a b : conv) : verdict :=
  xctor (constructible a && constructible b) (negb (convertible a) || negb (convertible b)).
(* template <typename U1, typename U2> requires(is_constructible_v<T1, U1 const&> and is_constructible_v<T2, U2 const&>)
   explicit(not is_convertible_v<U1 const&, T1> or not is_convertible_v<U2 const&, T2>) constexpr pair(pair<U1, U2> const& p) *)
Definition pair_conv_copy_ctor_m (a b : conv) : verdict :=
  xctor (constructible a && constructible b) (negb (convertible a) || negb (convertible b)).
(* template <typename U1, typename U2> requires(is_constructible_v<T1, U1&&> and is_constructible_v<T2, U2&&>)
   explicit(not is_convertible_v<U1&&, T1> || not is_convertible_v<U2&&, T2>) constexpr pair(pair<U1, U2>&& p) *)
Definition pair_conv_move_ctor_m (a b : conv) : verdict :=
  xctor (constructible a && constructible b) (negb (convertible a) || negb (convertible b)).

(* the same constructor with the two element tests joined by `and` (the change this part was written to catch) *)
Definition pair_ctor_conjunction_m (a b : conv) : verdict :=
  xctor (constructible a && constructible b) (negb (convertible a) && negb (convertible b)).

(** * tuple.hpp (tuple and tuple_impl carry the same three declarations; tuple<> is a separate specialisation with an
      implicit defaulted default constructor) *)
(* explicit(not(is_implicit_default_constructible_v<Ts> && ...)) constexpr tuple() requires((is_default_constructible_v<Ts> and ...)) *)
Definition tuple_default_ctor_m (es : list conv) : verdict :=
  match es with
  | [] => VImplicit
  | _ => xctor (forallb constructible es) (negb (forallb convertible es))
  end.
(* explicit(not(is_convertible_v<Ts const&, Ts> && ...)) constexpr tuple(Ts const&... args)
       requires((is_copy_constructible_v<Ts> && ...) && (sizeof...(Ts) > 0)) *)
Definition xnonempty (es : list conv) : bool := match es with [] => false | _ => true end.
Definition tuple_cref_ctor_m (es : list conv) : verdict :=
  xctor (forallb constructible es && xnonempty es) (negb (forallb convertible es)).
(* template <typename... Args>
       requires((is_constructible_v<Ts, Args&&> && ...) && (sizeof...(Ts) > 0) && (sizeof...(Ts) == sizeof...(Args)))
   explicit(!(is_convertible_v<Args&&, Ts> && ...)) constexpr tuple(Args&&... args) *)
Definition tuple_fwd_ctor_m (es : list conv) : verdict :=
  xctor (forallb constructible es && xnonempty es) (negb (forallb convertible es)).

(** * what a program can ask: sites *)
(* one element = destination type T with source type U: the four conversions the constructors ask about *)
Record edesc := { q_def : conv;    (* T() / T{} : is_default_constructible_v, is_implicit_default_constructible_v *)
                  q_self : conv;   (* T const& -> T *)
                  q_cref : conv;   (* U const& -> T *)
                  q_rref : conv }. (* U&& -> T *)

(* the source expression handed to the pair / tuple *)
Inductive xsite :=
| SPDefault                 (* pair<T1, T2>() *)
| SPCref                    (* pair<T1, T2>(t1, t2), const lvalues of the element types *)
| SPFwdR | SPFwdC           (* pair<T1, T2>(u1, u2): rvalues / const lvalues of the source types *)
| SPConv (cst rv : bool)    (* pair<T1, T2>(p), p a (const?) lvalue / rvalue pair<U1, U2> *)
| STDefault | STCref | STFwdR | STFwdC.

(* which of the two converting constructors a pair<U1, U2> expression of the given category selects: only a non-const rvalue
   binds to pair<U1, U2>&& (U1, U2 deduced); everything else binds to pair<U1, U2> const& (language rule, compared with the
   compiler through sites 4..7 of op expl) *)
Definition conv_uses_move (cst rv : bool) : bool := rv && negb cst.

(* language rule ([over.match.ctor], [over.match.copy]): when two constructors accept the source expression, direct-
   initialisation is well-formed if one of them participates, copy-initialisation if one of them participates and is not
   explicit (explicit constructors are no candidates there); with both usable the better match is taken, which changes
   neither fact.  An rvalue pair<U1, U2> is accepted by pair(pair<U1, U2>&&) and by pair(pair<U1, U2> const&) *)
Definition vmax (a b : verdict) : verdict :=
  match a, b with
  | VImplicit, _ | _, VImplicit => VImplicit
  | VExplicit, _ | _, VExplicit => VExplicit
  | VNone, VNone => VNone
  end.

Definition xsite_m (s : xsite) (es : list edesc) : option verdict :=
  let two f q := match es with [a; b] => Some (f (q a) (q b)) | _ => None end in
  match s with
  | SPDefault => two pair_default_ctor_m q_def
  | SPCref => two pair_cref_ctor_m q_self
  | SPFwdR => two pair_fwd_ctor_m q_rref
  | SPFwdC => two pair_fwd_ctor_m q_cref
  | SPConv c r =>
      if conv_uses_move c r then
        match two pair_conv_move_ctor_m q_rref, two pair_conv_copy_ctor_m q_cref with
        | Some mv, Some cp => Some (vmax mv cp)
        | _, _ => None
        end
      else two pair_conv_copy_ctor_m q_cref
  | STDefault => Some (tuple_default_ctor_m (map q_def es))
  | STCref => match es with [] => None | _ => Some (tuple_cref_ctor_m (map q_self es)) end
  | STFwdR => match es with [] => None | _ => Some (tuple_fwd_ctor_m (map q_rref es)) end
  | STFwdC => match es with [] => None | _ => Some (tuple_fwd_ctor_m (map q_cref es)) end
  end.

(* the two static xfacts: direct-initialisation is well-formed / copy-(list-)initialisation is well-formed *)
Definition xfacts (v : verdict) : bool * bool :=
  match v with VNone => (false, false) | VExplicit => (true, false) | VImplicit => (true, true) end.

Definition xsite_of_code (n : nat) : option xsite :=
  match n with
  | 0 => Some SPDefault | 1 => Some SPCref | 2 => Some SPFwdR | 3 => Some SPFwdC
  | 4 => Some (SPConv true false) | 5 => Some (SPConv false false) | 6 => Some (SPConv false true) | 7 => Some (SPConv true true)
  | 8 => Some STDefault | 9 => Some STCref | 10 => Some STFwdR | 11 => Some STFwdC
  | _ => None
  end.

Definition expl_case_m (site : nat) (es : list edesc) : option (bool * bool) :=
  match xsite_of_code site with
  | Some s => option_map xfacts (xsite_m s es)
  | None => None
  end.

(** * the call wrappers: constructors without an explicit-specifier (op explw) *)
(* inplace_function.hpp: inplace_function(T&& closure) (requires the closure to be invocable as R(Args...)), inplace_function(),
   inplace_function(nullptr_t), the two converting constructors from another capacity - none is explicit; `explicit constexpr
   operator bool`.  reference_wrapper.hpp: `template <U> constexpr reference_wrapper(U&& u)` (participates when FUN<T>(declval<U>())
   is well-formed: lvalues of a compatible type only), `constexpr operator T&() const` - not explicit.  function_ref.hpp:
   function_ref(F&&), function_ref(F* f) - not explicit.  One verdict per question of the harness, in its order:
   function <- callable rvalue, callable lvalue, nullptr, function pointer, a member pointer that is not callable with the
   signature; function(); bool <- function rvalue / lvalue; reference_wrapper<int> <- int&, int&&, int const&;
   reference_wrapper<int const> <- int const&, int&, reference_wrapper<int>; reference_wrapper<int> <- reference_wrapper<int const>;
   int& <- reference_wrapper<int>; int const& <- reference_wrapper<int const>; int& <- reference_wrapper<int const> *)
Definition wrapper_ctors_m : list verdict :=
  [VImplicit; VImplicit; VImplicit; VImplicit; VNone; VImplicit; VExplicit; VExplicit;
   VImplicit; VNone; VNone; VImplicit; VImplicit; VImplicit; VNone; VImplicit; VImplicit; VNone].
(* etl only: function_ref <- callable lvalue, callable rvalue, function pointer, const callable lvalue;
   inplace_function<Sig, 32> <- inplace_function<Sig, 16> rvalue / const lvalue *)
Definition wrapper_ctors_etl_m : list verdict := [VImplicit; VImplicit; VImplicit; VImplicit; VImplicit; VImplicit].
