(* C20, part (v), specification: which initialisation the standard prescribes where the library constructs a user type.

   [tuple.apply]/4      make_from_tuple: "return T(get<I>(std::forward<Tuple>(t))...);"
   [tuple.cnstr], [pairs.pair]   "initializes each element with std::forward<UTypes>(u)" / "first with std::forward<U1>(x)"
   [pairs.spec]         make_pair: "pair<V1, V2>(std::forward<T1>(x), std::forward<T2>(y))"
   [tuple.creation]     make_tuple / tuple_cat: a tuple constructed "with" the forwarded elements
   [func.wrap.func.con] "direct-non-list-initialized with std::forward<F>(f)"; the copy holds "a copy of the target"
   [func.bind.partial], [func.not.fn]   state entities "direct-non-list-initialized" from the forwarded arguments
   [func.require]       INVOKE<R>: the result "implicitly converted to R"

   So: direct-NON-list-initialisation everywhere except the return conversion.  An object is direct-non-list-initialised
   by the best ORDINARY constructor for the parenthesised arguments; an initializer_list constructor is never selected,
   narrowing conversions are allowed, explicit constructors take part.  An implicit conversion uses the converting
   (non-explicit) constructors only. *)
From Coq Require Import ZArith List Bool.
From Tetl Require Import C20.ModelInit.
Import ListNotations.
Local Open Scope Z_scope.

Inductive init_kind := DirectNonList | Implicit.

Definition site_spec (s : site) : list init_kind :=
  match s with
  | SInvokeR | SIpfRet | SFrefRet => [Implicit]
  | STupleCat | SIpfCopy | SIpfMove | SIpfConvCopy | SIpfConvMove | SIpfAssign => [DirectNonList; DirectNonList]
  | _ => [DirectNonList]
  end.

(* overload resolution ([over.match.ctor] / [over.match.copy]) over the ordinary constructors *)
Definition init_spec_k (k : init_kind) (c : cls) (args : list aty) : outcome :=
  let cands := ord_cands c args in
  let cands := match k with DirectNonList => cands | Implicit => filter (fun x => negb (cexpl x)) cands end in
  match k, args with
  | Implicit, ([] | _ :: _ :: _) => Ill NoViable
  | _, _ => match pick cands with inl x => out_of (who x) | inr r => Ill r end
  end.

(* the object: built by the selected constructor from the arguments; every later step holds a COPY of it *)
Definition spec_rehop (k : init_kind) (c : cls) (x : obj) : option obj :=
  match init_spec_k k c [ASelf] with CopyCtor => Some x | _ => None end.
Fixpoint spec_rehops (c : cls) (ks : list init_kind) (x : obj) : option obj :=
  match ks with [] => Some x | k :: r => match spec_rehop k c x with Some y => spec_rehops c r y | None => None end end.

Definition site_s (s : site) (c : cls) (args : list aty) (vals : list Z) : outcome * option obj :=
  match site_spec s with
  | [] => (Ill NoViable, None)
  | k :: r => let o := init_spec_k k c args in
              (o, match first_obj c o vals with Some x => spec_rehops c r x | None => None end)
  end.
Definition site_self_s (s : site) (c : cls) (x : obj) : outcome * option obj :=
  match site_spec s with
  | [] => (Ill NoViable, None)
  | k :: _ => (init_spec_k k c [ASelf], spec_rehops c (site_spec s) x)
  end.

Definition init_case_s (k sc : nat) (a b : Z) : ires :=
  match site_of_code k, scen_cls sc with
  | Some s, Some c =>
      if applicable s sc then
        let r := match scen_args sc with
                 | [ASelf] => site_self_s s c (mkobj 0 1 a 0)
                 | args => site_s s c args (scen_vals sc a b)
                 end in
        match r with
        | (Ill w, _) => IIll w
        | (_, Some x) => IOk x
        | (_, None) => IIll NoViable
        end
      else ISkip
  | _, _ => ISkip
  end.

(* the documented domain: [func.not.fn] requires the callable to be Cpp17MoveConstructible (`T u = rv` valid), i.e. not_fn is
   specified only for classes without an explicit copy / move constructor *)
Definition init_in_domain (k sc : nat) : bool :=
  match site_of_code k, scen_cls sc with
  | Some SNotFn, Some c => negb (copy_explicit c)
  | _, _ => true
  end.

(* is the call well-formed at all (compile-only probes) *)
Definition wf_of (r : ires) : option bool := match r with ISkip => None | IIll _ => Some false | IOk _ => Some true end.
