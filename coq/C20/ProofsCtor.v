(* C20 proofs, part (iii) continued: which constructor of pair / tuple copies, moves or aliases which element.
   Finite type domain (6 kinds x 4 categories) by exhaustive case analysis; tuples of ANY arity by induction. *)
From Tetl Require Import Lib.Base C20.Model C20.Spec C20.ProofsCat.
Local Open Scope Z_scope.

(** pair(T1 const&, T2 const&) / pair(U1&&, U2&&) *)
Lemma pair_ctor_agrees : forall K a, is_cat a -> pair_ctor_m K a = init_spec K a.
Proof. intros K a H; dty a; try discriminate H; dty K; reflexivity. Qed.

(* the forwarding template alone already realises the specification ... *)
Lemma pair_ctor_fwd_agrees : forall K a, is_cat a -> pair_ctor_fwd_m K a = init_spec K a.
Proof. intros K a H; dty a; try discriminate H; dty K; reflexivity. Qed.
(* ... and wherever the non-template constructor could be selected instead (lvalue arguments) it does the same *)
Lemma pair_ctor_paths_agree : forall K a r, is_cat a -> is_lref a = true ->
  pair_ctor_cref_m K a = Some r -> pair_ctor_fwd_m K a = Some r.
Proof. intros K a r H L; dty a; try discriminate H; try discriminate L; dty K; intro E; try discriminate E; exact E. Qed.
(* for an rvalue argument the choice matters: the const& constructor would copy *)
Lemma pair_ctor_cref_copies_rvalue : pair_ctor_cref_m (mkty false RNone) RV = Some (Constructed false)
  /\ pair_ctor_fwd_m (mkty false RNone) RV = Some (Constructed true).
Proof. split; reflexivity. Qed.

(** converting constructors *)
Lemma pair_conv_ctor_agrees : forall dk sk sc, is_cat sc -> pair_conv_ctor_m dk sk sc = pair_conv_spec dk sk sc.
Proof. intros dk sk sc H; dty sc; try discriminate H; dty sk; dty dk; reflexivity. Qed.

Lemma make_pair_transfer_agrees : forall a, is_cat a -> make_pair_transfer_m a = make_value_spec a.
Proof. intros a H; dty a; try discriminate H; reflexivity. Qed.

(** tuple(Ts const&...) / tuple(Args&&...) *)
Lemma tuple_ctor_agrees : forall K a, is_cat a -> tuple_ctor_m K a = init_spec K a.
Proof. intros K a H; dty a; try discriminate H; dty K; reflexivity. Qed.
Lemma tuple_ctor_fwd_agrees : forall K a, is_cat a -> tuple_ctor_fwd_m K a = init_spec K a.
Proof. intros K a H; dty a; try discriminate H; dty K; reflexivity. Qed.
Lemma tuple_ctor_paths_agree : forall K a r, is_cat a -> is_lref a = true ->
  tuple_ctor_cref_m K a = Some r -> tuple_ctor_fwd_m K a = Some r.
Proof. intros K a r H L; dty a; try discriminate H; try discriminate L; dty K; intro E; try discriminate E; exact E. Qed.

Lemma tuple_ctor_all_agrees : forall Ks args, Forall is_cat args ->
  tuple_ctor_all_m Ks args = tuple_ctor_all_spec Ks args.
Proof.
  induction Ks as [|K Ks IH]; intros args HF.
  - destruct args; reflexivity.
  - destruct args as [|a args]; [reflexivity|].
    inversion HF as [|x l Ha Hl]; subst.
    cbn [tuple_ctor_all_m tuple_ctor_all_spec]. rewrite (tuple_ctor_agrees K a Ha), (IH args Hl).
    destruct (init_spec K a); [|reflexivity]. cbn [obind]. destruct (tuple_ctor_all_spec Ks args); reflexivity.
Qed.

(* every element is produced exactly once and in order: the result has one entry per element *)
Lemma tuple_ctor_all_length : forall Ks args rs, tuple_ctor_all_spec Ks args = Some rs ->
  length rs = length Ks /\ length rs = length args.
Proof.
  induction Ks as [|K Ks IH]; intros args rs H.
  - destruct args; [|discriminate H]. inversion H; subst. split; reflexivity.
  - destruct args as [|a args]; [discriminate H|]. cbn [tuple_ctor_all_spec] in H.
    destruct (init_spec K a); [|discriminate H]. destruct (tuple_ctor_all_spec Ks args) eqn:E; [|discriminate H].
    inversion H; subst. destruct (IH args l E) as [H1 H2]. cbn [length]. split; congruence.
Qed.

Lemma make_tuple_transfer_agrees : forall a, is_cat a -> make_tuple_transfer_m a = make_value_spec a.
Proof. intros a H; dty a; try discriminate H; reflexivity. Qed.
Lemma forward_as_tuple_agrees : forall a, is_cat a -> forward_as_tuple_m a = forward_as_tuple_spec a.
Proof. intros a H; dty a; try discriminate H; reflexivity. Qed.

(** construction of bind_front / not_fn wrappers: any number of bound arguments *)
Lemma init_elem_VK : forall a, is_cat a -> init_elem VK a = init_spec (mkty false RNone) a.
Proof. intros a H; dty a; try discriminate H; reflexivity. Qed.
Lemma bindfront_ctor_agrees : forall fc bound, is_cat fc -> Forall is_cat bound ->
  bindfront_ctor_m fc bound = wrapper_ctor_spec fc bound.
Proof.
  intros fc bound Hf Hb. unfold bindfront_ctor_m, wrapper_ctor_spec.
  rewrite (perfect_fwd_id fc Hf). cbn [obind]. rewrite (perfect_fwd_id fc Hf). cbn [obind].
  rewrite (init_elem_VK fc Hf). destruct (init_spec (mkty false RNone) fc) as [bf|]; [|reflexivity]. cbn [obind].
  assert (E : map_opt (fun a => do a1 <- perfect_fwd a; do a2 <- perfect_fwd a1; tuple_ctor_m VK a2) bound
              = map_opt (init_spec (mkty false RNone)) bound).
  { induction Hb as [|a l Ha Hl IH]; [reflexivity|]. cbn [map_opt].
    rewrite (perfect_fwd_id a Ha). cbn [obind]. rewrite (perfect_fwd_id a Ha). cbn [obind].
    unfold VK at 1. rewrite (tuple_ctor_agrees _ a Ha). rewrite IH. reflexivity. }
  rewrite E. reflexivity.
Qed.
Lemma notfn_ctor_agrees : forall fc, is_cat fc -> notfn_ctor_m fc = init_spec (mkty false RNone) fc.
Proof. intros fc H. unfold notfn_ctor_m. rewrite (perfect_fwd_id fc H). cbn [obind]. apply init_elem_VK. exact H. Qed.
