(* C20 proofs, part (iii) continued: the call wrappers with ANY number of (bound and call) arguments. *)
From Tetl Require Import Lib.Base C20.Model C20.Spec C20.ProofsCat.
Local Open Scope Z_scope.

Lemma map_opt_fwd_id : forall args, Forall is_cat args -> map_opt perfect_fwd args = Some args.
Proof.
  induction args as [|a r IH]; intros H; [reflexivity|].
  inversion H as [|x l Ha Hr]; subst. cbn [map_opt]. rewrite (perfect_fwd_id a Ha). cbn [obind].
  rewrite (IH Hr). reflexivity.
Qed.

Lemma stored_as_cat : forall w, is_cat w -> stored_as w = Some w.
Proof. intros w H; dty w; try discriminate H; reflexivity. Qed.
Lemma stored_as_none : forall w, rf w = RNone -> stored_as w = None.
Proof. intros w H; dty w; try discriminate H; reflexivity. Qed.

Lemma notfn_call_all_agrees : forall w args, Forall is_cat args ->
  notfn_call_all_m w args = wrapper_call_all_spec w 0 args.
Proof.
  intros w args H. unfold notfn_call_all_m, wrapper_call_all_spec. cbn [repeat app].
  destruct (rf w) eqn:E.
  - rewrite (stored_as_none w E). reflexivity.
  - assert (Hw : is_cat w) by (dty w; try discriminate E; reflexivity).
    rewrite (stored_as_cat w Hw). cbn [obind]. rewrite (map_opt_fwd_id args H). cbn [obind].
    rewrite (invoke_fo_agrees w args Hw H). reflexivity.
  - assert (Hw : is_cat w) by (dty w; try discriminate E; reflexivity).
    rewrite (stored_as_cat w Hw). cbn [obind]. rewrite (map_opt_fwd_id args H). cbn [obind].
    rewrite (invoke_fo_agrees w args Hw H). reflexivity.
Qed.

Lemma refwrap_call_all_agrees : forall k args, Forall is_cat args ->
  refwrap_call_all_m k args = refwrap_call_all_spec k args.
Proof.
  intros k args H. unfold refwrap_call_all_m, refwrap_call_all_spec. rewrite (map_opt_fwd_id args H). cbn [obind].
  rewrite (invoke_fo_agrees (mkty k RL) args); [destruct k; reflexivity|destruct k; reflexivity|exact H].
Qed.

(* every bound argument arrives with the wrapper's category *)
Lemma map_opt_const : forall {X} (F : nat -> option X) x, (forall i, F i = Some x) ->
  forall n s, map_opt F (seq s n) = Some (repeat x n).
Proof.
  intros X F x HF. induction n as [|n IH]; intros s; [reflexivity|].
  cbn [seq map_opt repeat]. rewrite (HF s). cbn [obind]. rewrite (IH (S s)). reflexivity.
Qed.
Lemma bound_args_cats : forall w n, is_cat w ->
  map_opt (fun _ : nat => do g <- tuple_get_m w (mkty false RNone); do g1 <- perfect_fwd g; perfect_fwd g1) (seq 0 n)
  = Some (repeat w n).
Proof.
  intros w n H. apply map_opt_const. intros _. dty w; try discriminate H; reflexivity.
Qed.

Lemma Forall_repeat : forall {X} (P : X -> Prop) x n, P x -> Forall P (repeat x n).
Proof. intros X P x n H. induction n; cbn [repeat]; constructor; assumption. Qed.

Lemma bindfront_call_all_agrees : forall w n args, Forall is_cat args ->
  bindfront_call_all_m w n args = wrapper_call_all_spec w n args.
Proof.
  intros w n args H. unfold bindfront_call_all_m, wrapper_call_all_spec.
  destruct (rf w) eqn:E.
  - rewrite (stored_as_none w E). reflexivity.
  - assert (Hw : is_cat w) by (dty w; try discriminate E; reflexivity).
    repeat (first [rewrite (stored_as_cat w Hw) | rewrite (perfect_fwd_id w Hw) | rewrite (map_opt_fwd_id args H)
                  | rewrite (bound_args_cats w n Hw)]; cbn [obind]).
    apply invoke_fo_agrees; [exact Hw|]. apply Forall_app. split; [apply Forall_repeat; exact Hw|exact H].
  - assert (Hw : is_cat w) by (dty w; try discriminate E; reflexivity).
    repeat (first [rewrite (stored_as_cat w Hw) | rewrite (perfect_fwd_id w Hw) | rewrite (map_opt_fwd_id args H)
                  | rewrite (bound_args_cats w n Hw)]; cbn [obind]).
    apply invoke_fo_agrees; [exact Hw|]. apply Forall_app. split; [apply Forall_repeat; exact Hw|exact H].
Qed.

(* the list versions restricted to one bound / one call argument are the single-argument tables *)
Lemma bindfront_call_all_single : forall w (b : bool) a, is_cat a ->
  bindfront_call_all_m w (if b then 1 else 0)%nat [a] =
  match bindfront_call_m w b a with
  | Some (f, Some g, x) => Some (f, [g; x])
  | Some (f, None, x) => Some (f, [x])
  | None => None
  end.
Proof. intros w b a H; dty a; try discriminate H; dty w; destruct b; reflexivity. Qed.

Lemma sig_args_agree : forall (F : ty -> ty -> option (ty * ty)) (f : ty),
  (forall P a, is_cat a -> F P a = if sig_accepts_spec P a then Some (f, sig_forward_spec P) else None) ->
  forall Ps args, Forall is_cat args ->
  map2_opt (fun P a => do r <- F P a; Some (snd r)) Ps args = sig_args_spec Ps args.
Proof.
  intros F f HF. induction Ps as [|P Ps IH]; intros args H.
  - destruct args; reflexivity.
  - destruct args as [|a args]; [reflexivity|]. inversion H as [|x l Ha Hr]; subst.
    cbn [map2_opt sig_args_spec]. rewrite (HF P a Ha). destruct (sig_accepts_spec P a); [|reflexivity].
    cbn [obind snd]. rewrite (IH args Hr). destruct (sig_args_spec Ps args); reflexivity.
Qed.

Lemma ipf_call_all_agrees : forall Ps args, Forall is_cat args -> ipf_call_all_m Ps args = ipf_call_all_spec Ps args.
Proof.
  intros Ps args H. unfold ipf_call_all_m, ipf_call_all_spec.
  rewrite (sig_args_agree ipf_call_m LV); [destruct (sig_args_spec Ps args); reflexivity| |exact H].
  intros P a Ha. rewrite (ipf_call_agrees P a Ha). reflexivity.
Qed.

Lemma fref_call_all_agrees : forall fc Ps args, is_cat fc -> Forall is_cat args ->
  fref_call_all_m fc Ps args = fref_call_all_spec fc Ps args.
Proof.
  intros fc Ps args Hf H. unfold fref_call_all_m, fref_call_all_spec.
  rewrite (sig_args_agree (fref_call_m fc) (if cst fc then CLV else LV)); [| |exact H].
  - destruct (sig_args_spec Ps args); [|reflexivity]. cbn [obind]. dty fc; try discriminate Hf; reflexivity.
  - intros P a Ha. rewrite (fref_call_agrees fc P a Hf Ha). reflexivity.
Qed.

(** the way back *)
Lemma invoke_ret_agrees : forall r, invoke_ret_m r = transparent_ret_spec r.
Proof. intros r; dty r; reflexivity. Qed.
Lemma invoke_memptr_ret_agrees : forall r, invoke_memptr_ret_m r = transparent_ret_spec r.
Proof. intros r; dty r; reflexivity. Qed.
Lemma apply_ret_agrees : forall r, apply_ret_m r = transparent_ret_spec r.
Proof. intros r; dty r; reflexivity. Qed.
Lemma refwrap_ret_agrees : forall r, refwrap_ret_m r = transparent_ret_spec r.
Proof. intros r; dty r; reflexivity. Qed.
Lemma bindfront_ret_agrees : forall r, bindfront_ret_m r = transparent_ret_spec r.
Proof. intros r; dty r; reflexivity. Qed.
Lemma ipf_ret_agrees : forall R r, ipf_ret_m R r = sig_ret_spec R r.
Proof. intros R r; dty R; dty r; reflexivity. Qed.
Lemma fref_ret_agrees : forall R r, fref_ret_m R r = sig_ret_spec R r.
Proof. intros R r; dty R; dty r; reflexivity. Qed.

(** reference_wrapper construction / ref / cref: lvalues only *)
Lemma refwrap_wf_agrees : forall a, is_cat a ->
  (forall k, refwrap_ctor_wf_m k a = refwrap_ctor_wf_spec k a) /\ ref_wf_m a = ref_wf_spec a /\ cref_wf_m a = cref_wf_spec a.
Proof. intros a H; dty a; try discriminate H; (split; [intros [|]; reflexivity|split; reflexivity]). Qed.

Lemma refwrap_std_agrees : forall x, refwrap_std_m x = refwrap_std_spec x.
Proof. intros x. unfold refwrap_std_m, refwrap_std_spec. f_equal. apply Z.rem_mod_nonneg; lia. Qed.

Lemma fref_ptr_agrees : forall v, fref_ptr_m v = fref_ptr_spec v.
Proof. reflexivity. Qed.

Lemma xfer_agrees : xfer_m = xfer_spec.
Proof. vm_compute. reflexivity. Qed.
