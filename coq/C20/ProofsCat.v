(* C20 proofs, part (iii): the value-category calculus of the model agrees with the standard's tables.
   The domains are finite (4 expression categories x 6 element kinds x ...): the sweeps are kernel-checked case
   analyses over the whole domain, which is quantified in the statements.  apply / make_from_tuple /
   invoke argument lists / tuple_cat are for ANY arity (induction). *)
From Tetl Require Import Lib.Base C20.Model C20.Spec.
Local Open Scope Z_scope.

Ltac dty t := destruct t as [[|] [| |]].

(* a value category is a reference type (lvalue / xvalue); prvalues are materialised before they reach a
   forwarding reference *)
Definition is_cat (c : ty) : Prop := is_ref c = true.

Lemma perfect_fwd_id : forall c, is_cat c -> perfect_fwd c = Some c.
Proof. intros c H; dty c; try discriminate H; reflexivity. Qed.

(** [tuple.elem]: all 4 tuple categories x 6 element kinds (and nothing for a non-category) *)
Lemma tuple_get_agrees : forall q T, tuple_get_m q T = get_spec q T.
Proof. intros q T; dty q; dty T; reflexivity. Qed.

(** [pair.astuple] *)
Lemma pair_get_agrees : forall q T, pair_get_m q T = get_spec q T.
Proof. intros q T; dty q; dty T; reflexivity. Qed.

(** [forward] *)
Lemma forward_agrees : forall T e, forward_m T e = forward_spec T e.
Proof. intros T e; dty T; dty e; reflexivity. Qed.

(* the rule [forward_e] used inside every other model function is what the two overloads of forward.hpp compute *)
Lemma forward_overloads_eq : forall T e, is_cat e -> forward_m T e = forward_e T e.
Proof. intros T e H; dty e; try discriminate H; dty T; reflexivity. Qed.

Lemma forward_like_agrees : forall T U, forward_like_m T U = forward_like_spec T U.
Proof. intros T U; dty T; dty U; reflexivity. Qed.

(** [func.require] INVOKE *)
Definition wf_recv (r : receiver) : Prop :=
  match r with RcvObj c | RcvDerived c => is_cat c | _ => True end.

Lemma invoke_pmf_agrees : forall q r, wf_recv r -> invoke_pmf_m q r = invoke_pmf_spec q r.
Proof.
  intros q r H; destruct r as [c|c|k|k]; cbn [wf_recv] in H;
    try (dty c; try discriminate H); try destruct k; destruct q; reflexivity.
Qed.

Lemma invoke_pmd_agrees : forall r, wf_recv r -> invoke_pmd_m r = invoke_pmd_spec r.
Proof.
  intros r H; destruct r as [c|c|k|k]; cbn [wf_recv] in H;
    try (dty c; try discriminate H); try destruct k; reflexivity.
Qed.

Lemma fwd_all : forall args, Forall is_cat args ->
  (fix go (l : list ty) : option (list ty) :=
     match l with [] => Some [] | a :: r => do a' <- perfect_fwd a; do r' <- go r; Some (a' :: r') end) args = Some args.
Proof.
  induction args as [|a r IH]; intros H; [reflexivity|].
  inversion H as [|? ? Ha Hr]; subst.
  rewrite (perfect_fwd_id a Ha). cbn [obind]. rewrite (IH Hr). reflexivity.
Qed.

(* any number of arguments *)
Lemma invoke_fo_agrees : forall f args, is_cat f -> Forall is_cat args ->
  invoke_fo_m f args = invoke_fo_spec f args.
Proof.
  intros f args Hf Ha. unfold invoke_fo_m, invoke_fo_spec.
  rewrite (perfect_fwd_id f Hf). cbn [obind]. rewrite (fwd_all args Ha). reflexivity.
Qed.

(** call wrappers *)
Lemma ipf_call_agrees : forall P a, is_cat a -> ipf_call_m P a = ipf_call_spec P a.
Proof. intros P a H; dty P; dty a; try discriminate H; reflexivity. Qed.

Lemma fref_call_agrees : forall fc P a, is_cat fc -> is_cat a -> fref_call_m fc P a = fref_call_spec fc P a.
Proof. intros fc P a H1 H2; dty fc; try discriminate H1; dty P; dty a; try discriminate H2; reflexivity. Qed.

Lemma refwrap_call_agrees : forall k a, is_cat a -> refwrap_call_m k a = refwrap_call_spec k a.
Proof. intros k a H; destruct k; dty a; try discriminate H; reflexivity. Qed.

Lemma notfn_call_agrees : forall w a, is_cat a -> notfn_call_m w a = notfn_call_spec w a.
Proof. intros w a H; dty w; dty a; try discriminate H; reflexivity. Qed.

Lemma bindfront_call_agrees : forall w b a, is_cat a -> bindfront_call_m w b a = bindfront_call_spec w b a.
Proof. intros w b a H; dty w; destruct b; dty a; try discriminate H; reflexivity. Qed.

(** apply / make_from_tuple: any arity, any element kinds *)
Lemma map_opt_ext : forall {A B} (f g : A -> option B) l, (forall a, f a = g a) -> map_opt f l = map_opt g l.
Proof. intros A B f g l H; induction l as [|a r IH]; cbn [map_opt]; [reflexivity|]. rewrite H, IH. reflexivity. Qed.

Lemma get_spec_is_cat : forall q T g, get_spec q T = Some g -> is_cat g.
Proof. intros q T g; dty q; dty T; cbn; intros H; inversion H; reflexivity. Qed.

Lemma map_opt_get_cats : forall tc kinds gs, map_opt (get_spec tc) kinds = Some gs -> Forall is_cat gs.
Proof.
  intros tc kinds; induction kinds as [|k r IH]; intros gs H; cbn [map_opt] in H.
  - inversion H. constructor.
  - destruct (get_spec tc k) as [g|] eqn:Hg; [|discriminate H]. cbn [obind] in H.
    destruct (map_opt (get_spec tc) r) as [r'|] eqn:Hr; [|discriminate H]. cbn [obind] in H.
    inversion H; subst. constructor; [exact (get_spec_is_cat _ _ _ Hg)|exact (IH _ eq_refl)].
Qed.

Lemma apply_cats_agrees : forall fc tc kinds, is_cat fc -> is_cat tc ->
  apply_cats_m fc tc kinds = apply_cats_spec fc tc kinds.
Proof.
  intros fc tc kinds Hf Ht. unfold apply_cats_m, apply_cats_spec, get_all_spec.
  rewrite (perfect_fwd_id tc Ht). cbn [obind].
  rewrite (map_opt_ext (tuple_get_m tc) (get_spec tc) kinds (tuple_get_agrees tc)).
  destruct (map_opt (get_spec tc) kinds) as [gs|] eqn:Hg; [|reflexivity]. cbn [obind].
  rewrite (invoke_fo_agrees fc gs Hf (map_opt_get_cats _ _ _ Hg)). reflexivity.
Qed.

Lemma mft_cats_agrees : forall tc kinds, is_cat tc -> mft_cats_m tc kinds = get_all_spec tc kinds.
Proof.
  intros tc kinds Ht. unfold mft_cats_m, get_all_spec. rewrite (perfect_fwd_id tc Ht). cbn [obind].
  apply map_opt_ext, tuple_get_agrees.
Qed.

Lemma apply_pair_cats_agrees : forall tc kinds, is_cat tc -> apply_pair_cats_m tc kinds = get_all_spec tc kinds.
Proof.
  intros tc kinds Ht. unfold apply_pair_cats_m, get_all_spec. rewrite (perfect_fwd_id tc Ht). cbn [obind].
  apply map_opt_ext, pair_get_agrees.
Qed.

(* every element is delivered (get is defined on every category x kind) *)
Lemma get_spec_total : forall q T, is_cat q -> exists g, get_spec q T = Some g.
Proof. intros q T H; dty q; try discriminate H; dty T; eexists; reflexivity. Qed.

(** pair assignment: members of kind T / T& (const members are not assignable) *)
Lemma pair_assign_agrees : forall dk sk sc, is_cat sc ->
  pair_assign_m dk sk sc = pair_assign_spec dk sk sc.
Proof.
  intros dk sk sc H3; dty dk; dty sk; dty sc; try discriminate H3; reflexivity.
Qed.

(** construction / assignment matrix: the header's requires-clauses are the standard's constraints, for all 7 x 7
    element type combinations (pair) and for tuples of any arity *)
Lemma pair_traits_agree : forall a b : elem, pair_traits_m a b = pair_traits_spec a b.
Proof. intros a b; destruct a; destruct b; reflexivity. Qed.
Lemma tuple_traits_agree : forall es : list elem, tuple_traits_m es = tuple_traits_spec es.
Proof. reflexivity. Qed.

Lemma refwrap_ops_agree : forall a b, refwrap_ops_m a b = refwrap_ops_spec a b.
Proof. intros a b. unfold refwrap_ops_m, refwrap_ops_spec. f_equal. f_equal. lia. Qed.
Lemma fref_ops_agree : forall v, fref_ops_m v = fref_ops_spec v.
Proof. reflexivity. Qed.
Lemma notfn_static_agree : forall v, notfn_static_m v = notfn_static_spec v.
Proof. intros v. unfold notfn_static_m, notfn_static_spec. destruct (Z.ltb_spec v 0); destruct (Z.leb_spec 0 v); try reflexivity; lia. Qed.

Lemma void_ret_agree : forall x, void_ret_m x = void_ret_spec x.
Proof. intros x. unfold void_ret_m, void_ret_spec. lia. Qed.
Lemma make_pair_member_agree : forall w, make_pair_member_m w = make_pair_member_spec w.
Proof. intros [[|]|]; reflexivity. Qed.

Lemma tuple_structured_binding_refuted : tuple_structured_binding_m <> tuple_structured_binding_spec.
Proof. discriminate. Qed.
Lemma tuple_converting_ctor_refuted : tuple_converting_ctor_m <> tuple_converting_ctor_spec.
Proof. discriminate. Qed.
Lemma get_by_type_refuted : exists p, get_by_type_m p <> get_by_type_spec p.
Proof. exists true. discriminate. Qed.

Lemma fref_ctor_wf_agrees : forall q a, fref_ctor_wf_m q a = fref_ctor_wf_spec q a.
Proof. intros q a; dty a; destruct q; reflexivity. Qed.
(* the constraint before the repair promised an rvalue callable with only operator()&& and refused an rvalue with only operator()& *)
Lemma fref_ctor_wf_old_refuted :
  fref_ctor_wf_old_m QR RV = true /\ fref_ctor_wf_spec QR RV = false /\ fref_ctor_wf_old_m QL RV = false /\ fref_ctor_wf_spec QL RV = true.
Proof. repeat split; reflexivity. Qed.

Lemma memptr_target_agrees : forall x, memptr_target_m x = memptr_target_spec x.
Proof. intros x. unfold memptr_target_m, memptr_target_spec. f_equal. lia. Qed.
Lemma wrapcopy_agrees : forall x y, wrapcopy_m x y = wrapcopy_spec x y.
Proof.
  intros x y. unfold wrapcopy_m, wrapcopy_spec.
  replace (negb (y <? x)) with (x <=? y) by (destruct (Z.ltb_spec y x); destruct (Z.leb_spec x y); try reflexivity; lia).
  replace ((x + 1) * 1000 + y * 10 + 1) with (1000 * x + 10 * y + 1001) by lia.
  replace ((x + 2) * 1000 + y * 10 + 2) with (1000 * x + 10 * y + 2002) by lia.
  replace ((x + 2) * 1000 + y * 10 + 3) with (1000 * x + 10 * y + 2003) by lia.
  replace ((x + 3) * 1000 + y * 10 + 4) with (1000 * x + 10 * y + 3004) by lia.
  reflexivity.
Qed.

Lemma tuple_swappable_agrees : forall es, ~ In ECopyOnly es -> tuple_swappable_m es = tuple_swappable_spec es.
Proof.
  intros es H. unfold tuple_swappable_m, tuple_swappable_spec.
  destruct (forallb elem_swappable es) eqn:E; [reflexivity|]. cbn [orb].
  induction es as [|e es IH]; [discriminate E|]. cbn [forallb] in *.
  destruct e; cbn [elem_swappable leaf_assignable andb] in *; try reflexivity;
    try (apply IH; [intros Hin; apply H; right; exact Hin | exact E]).
  exfalso. apply H. left. reflexivity.
Qed.
Lemma tuple_swap_refs_agrees : forall a b c d, tuple_swap_refs_m a b c d = tuple_swap_refs_spec a b c d.
Proof. reflexivity. Qed.
(* before the repair only the generic swap existed: tuples with reference elements were not swappable *)
Lemma tuple_swappable_needed_overload : forallb leaf_assignable [ELRef] = false /\ tuple_swappable_spec [ELRef] = true.
Proof. split; reflexivity. Qed.

Lemma pair_swappable_agrees : forall a b, a <> ECopyOnly -> b <> ECopyOnly -> pair_swappable_m a b = pair_swappable_spec a b.
Proof. intros a b Ha Hb; destruct a; destruct b; try reflexivity; exfalso; first [apply Ha; reflexivity | apply Hb; reflexivity]. Qed.
