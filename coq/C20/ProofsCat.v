(* C20 proofs, part (iii): the value-category calculus of the model agrees with the standard's tables.
   The domains are finite (4 expression categories x 6 element kinds x ...): the sweeps are kernel-checked case
   analyses over the whole domain, which is quantified in the statements.  apply / make_from_tuple /
   invoke argument lists / tuple_cat are for ANY arity (induction). *)
From Tetl Require Import Lib.Base C20.Model C20.Spec.
Local Open Scope Z_scope.

Ltac dty t := destruct t as [[|] [| |]].

(* a value category is a reference type (lvalue / xvalue); prvalues are materialised before they reach a
   forwarding reference *)
Definition is_cat (c : ty) : Prop := is_ref c = true.

Lemma perfect_fwd_id : forall c, is_cat c -> perfect_fwd c = Some c.
Proof. intros c H; dty c; try discriminate H; reflexivity. Qed.

(** [tuple.elem]: all 4 tuple categories x 6 element kinds (and nothing for a non-category) *)
Lemma tuple_get_agrees : forall q T, tuple_get_m q T = get_spec q T.
Proof. intros q T; dty q; dty T; reflexivity. Qed.

(** [pair.astuple] *)
Lemma pair_get_agrees : forall q T, pair_get_m q T = get_spec q T.
Proof. intros q T; dty q; dty T; reflexivity. Qed.

(** [forward] *)
Lemma forward_agrees : forall T e, forward_m T e = forward_spec T e.
Proof. intros T e; dty T; dty e; reflexivity. Qed.

Lemma forward_like_agrees : forall T U, forward_like_m T U = forward_like_spec T U.
Proof. intros T U; dty T; dty U; reflexivity. Qed.

(** [func.require] INVOKE *)
Definition wf_recv (r : receiver) : Prop :=
  match r with RcvObj c | RcvDerived c => is_cat c | _ => True end.

Lemma invoke_pmf_agrees : forall q r, wf_recv r -> invoke_pmf_m q r = invoke_pmf_spec q r.
Proof.
  intros q r H; destruct r as [c|c|k|k]; cbn [wf_recv] in H;
    try (dty c; try discriminate H); try destruct k; destruct q; reflexivity.
Qed.

Lemma invoke_pmd_agrees : forall r, wf_recv r -> invoke_pmd_m r = invoke_pmd_spec r.
Proof.
  intros r H; destruct r as [c|c|k|k]; cbn [wf_recv] in H;
    try (dty c; try discriminate H); try destruct k; reflexivity.
Qed.

Lemma fwd_all : forall args, Forall is_cat args ->
  (fix go (l : list ty) : option (list ty) :=
     match l with [] => Some [] | a :: r => do a' <- perfect_fwd a; do r' <- go r; Some (a' :: r') end) args = Some args.
Proof.
  induction args as [|a r IH]; intros H; [reflexivity|].
  inversion H as [|? ? Ha Hr]; subst.
  rewrite (perfect_fwd_id a Ha). cbn [obind]. rewrite (IH Hr). reflexivity.
Qed.

(* any number of arguments *)
Lemma invoke_fo_agrees : forall f args, is_cat f -> Forall is_cat args ->
  invoke_fo_m f args = invoke_fo_spec f args.
Proof.
  intros f args Hf Ha. unfold invoke_fo_m, invoke_fo_spec.
  rewrite (perfect_fwd_id f Hf). cbn [obind]. rewrite (fwd_all args Ha). reflexivity.
Qed.

(** call wrappers *)
Lemma ipf_call_agrees : forall P a, is_cat a -> ipf_call_m P a = ipf_call_spec P a.
Proof. intros P a H; dty P; dty a; try discriminate H; reflexivity. Qed.

Lemma fref_call_agrees : forall fc P a, is_cat fc -> is_cat a -> fref_call_m fc P a = fref_call_spec fc P a.
Proof. intros fc P a H1 H2; dty fc; try discriminate H1; dty P; dty a; try discriminate H2; reflexivity. Qed.

Lemma refwrap_call_agrees : forall k a, is_cat a -> refwrap_call_m k a = refwrap_call_spec k a.
Proof. intros k a H; destruct k; dty a; try discriminate H; reflexivity. Qed.

Lemma notfn_call_agrees : forall w a, is_cat a -> notfn_call_m w a = notfn_call_spec w a.
Proof. intros w a H; dty w; dty a; try discriminate H; reflexivity. Qed.

Lemma bindfront_call_agrees : forall w b a, is_cat a -> bindfront_call_m w b a = bindfront_call_spec w b a.
Proof. intros w b a H; dty w; destruct b; dty a; try discriminate H; reflexivity. Qed.

(** apply / make_from_tuple: any arity, any element kinds *)
Lemma map_opt_ext : forall {A B} (f g : A -> option B) l, (forall a, f a = g a) -> map_opt f l = map_opt g l.
Proof. intros A B f g l H; induction l as [|a r IH]; cbn [map_opt]; [reflexivity|]. rewrite H, IH. reflexivity. Qed.

Lemma get_spec_is_cat : forall q T g, get_spec q T = Some g -> is_cat g.
Proof. intros q T g; dty q; dty T; cbn; intros H; inversion H; reflexivity. Qed.

Lemma map_opt_get_cats : forall tc kinds gs, map_opt (get_spec tc) kinds = Some gs -> Forall is_cat gs.
Proof.
  intros tc kinds; induction kinds as [|k r IH]; intros gs H; cbn [map_opt] in H.
  - inversion H. constructor.
  - destruct (get_spec tc k) as [g|] eqn:Hg; [|discriminate H]. cbn [obind] in H.
    destruct (map_opt (get_spec tc) r) as [r'|] eqn:Hr; [|discriminate H]. cbn [obind] in H.
    inversion H; subst. constructor; [exact (get_spec_is_cat _ _ _ Hg)|exact (IH _ eq_refl)].
Qed.

Lemma apply_cats_agrees : forall fc tc kinds, is_cat fc -> is_cat tc ->
  apply_cats_m fc tc kinds = apply_cats_spec fc tc kinds.
Proof.
  intros fc tc kinds Hf Ht. unfold apply_cats_m, apply_cats_spec, get_all_spec.
  rewrite (perfect_fwd_id tc Ht). cbn [obind].
  rewrite (map_opt_ext (tuple_get_m tc) (get_spec tc) kinds (tuple_get_agrees tc)).
  destruct (map_opt (get_spec tc) kinds) as [gs|] eqn:Hg; [|reflexivity]. cbn [obind].
  rewrite (invoke_fo_agrees fc gs Hf (map_opt_get_cats _ _ _ Hg)). reflexivity.
Qed.

Lemma mft_cats_agrees : forall tc kinds, is_cat tc -> mft_cats_m tc kinds = get_all_spec tc kinds.
Proof.
  intros tc kinds Ht. unfold mft_cats_m, get_all_spec. rewrite (perfect_fwd_id tc Ht). cbn [obind].
  apply map_opt_ext, tuple_get_agrees.
Qed.

Lemma apply_pair_cats_agrees : forall tc kinds, is_cat tc -> apply_pair_cats_m tc kinds = get_all_spec tc kinds.
Proof.
  intros tc kinds Ht. unfold apply_pair_cats_m, get_all_spec. rewrite (perfect_fwd_id tc Ht). cbn [obind].
  apply map_opt_ext, pair_get_agrees.
Qed.

(* every element is delivered (get is defined on every category x kind) *)
Lemma get_spec_total : forall q T, is_cat q -> exists g, get_spec q T = Some g.
Proof. intros q T H; dty q; try discriminate H; dty T; eexists; reflexivity. Qed.

(** pair assignment: members of kind T / T& (const members are not assignable) *)
Definition assignable_kind (k : ty) : Prop := cst k = false /\ rf k <> RR.

Lemma pair_assign_agrees : forall dk sk sc, assignable_kind dk -> assignable_kind sk -> is_cat sc ->
  pair_assign_m dk sk sc = pair_assign_spec dk sk sc.
Proof.
  intros dk sk sc [H1 H1'] [H2 H2'] H3; dty dk; try discriminate H1; try (exfalso; apply H1'; reflexivity);
    dty sk; try discriminate H2; try (exfalso; apply H2'; reflexivity); dty sc; try discriminate H3; reflexivity.
Qed.

(** tuple_cat with element types: any number of operands, any arities, any element kinds *)
Lemma get_ref_passes_rvalue_tuple : forall g, is_cat g -> get_spec RV g = Some g.
Proof. intros g H; dty g; try discriminate H; reflexivity. Qed.

Definition refs_spec (o : toperand) : option (list telem) :=
  map_opt (fun e : telem => do g <- get_spec (fst o) (fst e); Some (g, snd e)) (snd o).

Lemma refs_of_eq : forall o, is_cat (fst o) -> refs_of o = refs_spec o.
Proof.
  intros [c l] H. unfold refs_of, refs_spec. cbn [fst snd] in *. rewrite (perfect_fwd_id c H). cbn [obind].
  apply map_opt_ext. intros e. rewrite tuple_get_agrees. reflexivity.
Qed.

Lemma refs_spec_total : forall c l, is_cat c -> exists r, refs_spec (c, l) = Some r /\ Forall (fun e => is_cat (fst e)) r
  /\ map snd r = map snd l
  /\ map (fun e : telem => Some (snd e, moved_from (fst e))) r
     = map (fun e : telem => do g <- get_spec c (fst e); Some (snd e, moved_from g)) l.
Proof.
  intros c l Hc. unfold refs_spec. cbn [fst snd]. induction l as [|e r IH].
  - exists []. cbn. repeat split; constructor.
  - destruct IH as [r' [Hr [Hf [Hv Hm]]]]. destruct (get_spec_total c (fst e) Hc) as [g Hg].
    exists ((g, snd e) :: r'). cbn [map_opt]. rewrite Hg. cbn [obind]. rewrite Hr. cbn [obind].
    repeat split.
    + constructor; [exact (get_spec_is_cat _ _ _ Hg)|exact Hf].
    + cbn [map fst snd]. rewrite Hv. reflexivity.
    + cbn [map fst snd]. rewrite Hg. cbn [obind]. rewrite Hm. reflexivity.
Qed.

(* re-reading a tuple of references through an rvalue tuple returns the same references *)
Lemma refs_spec_of_refs : forall r, Forall (fun e : telem => is_cat (fst e)) r -> refs_spec (RV, r) = Some r.
Proof.
  unfold refs_spec. cbn [fst snd]. induction r as [|[g v] r IH]; intros H; [reflexivity|].
  inversion H as [|? ? Hg Hr]; subst. cbn [map_opt fst snd]. cbn [fst] in Hg.
  rewrite (get_ref_passes_rvalue_tuple g Hg). cbn [obind]. rewrite (IH Hr). reflexivity.
Qed.

Definition final_of (r : list telem) : list (Z * bool) :=
  map (fun e : telem => (snd e, negb (is_lref (fst e)) && negb (cst (fst e)))) r.

Lemma moved_from_eq : forall g, is_cat g -> negb (is_lref g) && negb (cst g) = moved_from g.
Proof. intros g H; dty g; try discriminate H; reflexivity. Qed.

Lemma map_opt_some : forall {A} (l : list A), map_opt (fun x => x) (map Some l) = Some l.
Proof. induction l as [|a r IH]; cbn; [reflexivity|]. rewrite IH. reflexivity. Qed.

Lemma map_opt_map_some : forall {A B} (f : A -> B) (l : list A),
  map_opt (fun x => x) (map (fun e => Some (f e)) l) = Some (map f l).
Proof. induction l as [|a r IH]; cbn; [reflexivity|]. rewrite IH. reflexivity. Qed.

Lemma map_opt_app : forall {A} (l1 l2 : list (option A)) r1 r2,
  map_opt (fun x => x) l1 = Some r1 -> map_opt (fun x => x) l2 = Some r2 ->
  map_opt (fun x => x) (l1 ++ l2) = Some (r1 ++ r2).
Proof.
  induction l1 as [|a l1 IH]; intros l2 r1 r2 H1 H2; cbn [map_opt app] in *.
  - inversion H1. exact H2.
  - destruct a as [a|]; [|discriminate H1]. cbn [obind] in *.
    destruct (map_opt (fun x => x) l1) as [r|] eqn:Hr; [|discriminate H1]. cbn [obind] in H1. inversion H1; subst.
    rewrite (IH l2 r r2 eq_refl H2). reflexivity.
Qed.

Definition spec_part (o : toperand) : list (option (Z * bool)) :=
  map (fun e : telem => do g <- get_spec (fst o) (fst e); Some (snd e, moved_from g)) (snd o).

(* generalised: the accumulated result is a tuple of references whose final reading equals what the standard
   prescribes for the operands consumed so far *)
Lemma tuple_cat_go_t_spec : forall tail r acc,
  Forall (fun o : toperand => is_cat (fst o)) tail ->
  Forall (fun e : telem => is_cat (fst e)) r ->
  map_opt (fun x => x) (map (fun e : telem => Some (snd e, moved_from (fst e))) r) = Some acc ->
  exists rest, map_opt (fun x => x) (concat (map spec_part tail)) = Some rest
            /\ tuple_cat_go_t (RV, r) tail = Some (acc ++ rest).
Proof.
  induction tail as [|h tl IH]; intros r acc Ht Hr Hacc.
  - exists []. split; [reflexivity|]. cbn [tuple_cat_go_t].
    rewrite (refs_of_eq (RV, r) eq_refl), (refs_spec_of_refs r Hr). cbn [obind]. rewrite app_nil_r.
    rewrite map_opt_map_some in Hacc. inversion Hacc; subst. unfold final_of. f_equal. apply map_ext_in. intros e He.
    rewrite Forall_forall in Hr. rewrite (moved_from_eq _ (Hr e He)). reflexivity.
  - inversion Ht as [|? ? Hh Htl]; subst. destruct h as [c l]. cbn [fst] in Hh.
    destruct (refs_spec_total c l Hh) as [rh [Hrh [Hfh [_ Hmh]]]].
    cbn [tuple_cat_go_t]. unfold concat2_t.
    rewrite (refs_of_eq (RV, r) eq_refl), (refs_spec_of_refs r Hr). cbn [obind].
    rewrite (refs_of_eq (c, l) Hh), Hrh. cbn [obind].
    assert (Hr' : Forall (fun e : telem => is_cat (fst e)) (r ++ rh)) by (apply Forall_app; split; assumption).
    assert (Hacc' : map_opt (fun x => x) (map (fun e : telem => Some (snd e, moved_from (fst e))) (r ++ rh))
                    = Some (acc ++ map (fun e : telem => (snd e, moved_from (fst e))) rh)).
    { rewrite map_app. apply map_opt_app; [exact Hacc|]. apply map_opt_map_some. }
    destruct (IH (r ++ rh) _ Htl Hr' Hacc') as [rest [Hrest Hgo]].
    exists (map (fun e : telem => (snd e, moved_from (fst e))) rh ++ rest). split.
    + cbn [map concat]. apply map_opt_app; [|exact Hrest].
      unfold spec_part. cbn [fst snd]. rewrite <- Hmh. apply map_opt_map_some.
    + rewrite Hgo. rewrite app_assoc. reflexivity.
Qed.

Lemma tuple_cat_t_agrees : forall ts, Forall (fun o : toperand => is_cat (fst o)) ts ->
  tuple_cat_t_m ts = tuple_cat_t_spec ts.
Proof.
  intros ts H. destruct ts as [|[c l] tl]; [reflexivity|].
  inversion H as [|? ? Hc Htl]; subst. cbn [fst] in Hc.
  unfold tuple_cat_t_m, tuple_cat_t_spec. fold spec_part.
  destruct (refs_spec_total c l Hc) as [r [Hr [Hf [_ Hm]]]].
  (* the first operand is read once more than the others would need: fold it into the generalised lemma *)
  destruct tl as [|h tl'].
  - cbn [tuple_cat_go_t map concat]. rewrite app_nil_r.
    rewrite (refs_of_eq (c, l) Hc), Hr. cbn [obind]. change (map (fun e : telem => do g <- get_spec (fst (c, l)) (fst e); Some (snd e, moved_from g)) (snd (c, l))) with (spec_part (c, l)).
    unfold spec_part. cbn [fst snd]. rewrite <- Hm. rewrite map_opt_map_some. f_equal.
    apply map_ext_in. intros e He. rewrite Forall_forall in Hf. rewrite (moved_from_eq _ (Hf e He)). reflexivity.
  - inversion Htl as [|? ? Hh Htl']; subst. destruct h as [c2 l2]. cbn [fst] in Hh.
    destruct (refs_spec_total c2 l2 Hh) as [r2 [Hr2 [Hf2 [_ Hm2]]]].
    cbn [tuple_cat_go_t]. unfold concat2_t.
    rewrite (refs_of_eq (c, l) Hc), Hr. cbn [obind]. rewrite (refs_of_eq (c2, l2) Hh), Hr2. cbn [obind].
    assert (Hr' : Forall (fun e : telem => is_cat (fst e)) (r ++ r2)) by (apply Forall_app; split; assumption).
    assert (Hacc : map_opt (fun x => x) (map (fun e : telem => Some (snd e, moved_from (fst e))) (r ++ r2))
                   = Some (map (fun e : telem => (snd e, moved_from (fst e))) (r ++ r2))).
    { apply map_opt_map_some. }
    destruct (tuple_cat_go_t_spec tl' (r ++ r2) _ Htl' Hr' Hacc) as [rest [Hrest Hgo]].
    rewrite Hgo. symmetry.
    change (map (fun o : toperand => map (fun e : telem => do g <- get_spec (fst o) (fst e); Some (snd e, moved_from g)) (snd o)))
      with (map spec_part).
    cbn [map concat]. rewrite app_assoc. apply map_opt_app; [|exact Hrest].
    rewrite map_app. unfold spec_part. cbn [fst snd]. rewrite <- Hm, <- Hm2.
    rewrite <- map_app. rewrite map_opt_map_some. rewrite map_app. reflexivity.
Qed.

(** known finding KF-C20-tuple_cat-ctad: class template argument deduction loses the declared element types *)
Lemma cat_result_kind_refuted : exists k, cat_result_kind_m k <> cat_result_kind_spec k.
Proof. exists (mkty false RL). discriminate. Qed.
(* outside the defect region (elements declared as plain objects) the result type is right *)
Lemma cat_result_kind_plain : forall k, k = mkty false RNone -> cat_result_kind_m k = cat_result_kind_spec k.
Proof. intros k ->. reflexivity. Qed.
Lemma cat_single_nested_refuted : exists n, cat_single_nested_arity_m n <> cat_single_nested_arity_spec n.
Proof. exists 2%nat. discriminate. Qed.

(** construction / assignment matrix: the header's requires-clauses are the standard's constraints, for all 7 x 7
    element type combinations (pair) and for tuples of any arity *)
Lemma pair_traits_agree : forall a b : elem, pair_traits_m a b = pair_traits_spec a b.
Proof. intros a b; destruct a; destruct b; reflexivity. Qed.
Lemma tuple_traits_agree : forall es : list elem, tuple_traits_m es = tuple_traits_spec es.
Proof. reflexivity. Qed.

Lemma refwrap_ops_agree : forall a b, refwrap_ops_m a b = refwrap_ops_spec a b.
Proof. intros a b. unfold refwrap_ops_m, refwrap_ops_spec. f_equal. f_equal. lia. Qed.
Lemma fref_ops_agree : forall v, fref_ops_m v = fref_ops_spec v.
Proof. reflexivity. Qed.
Lemma notfn_static_agree : forall v, notfn_static_m v = notfn_static_spec v.
Proof. intros v. unfold notfn_static_m, notfn_static_spec. destruct (Z.ltb_spec v 0); destruct (Z.leb_spec 0 v); try reflexivity; lia. Qed.

Lemma void_ret_agree : forall x, void_ret_m x = void_ret_spec x.
Proof. intros x. unfold void_ret_m, void_ret_spec. lia. Qed.
Lemma make_pair_member_agree : forall w, make_pair_member_m w = make_pair_member_spec w.
Proof. intros [[|]|]; reflexivity. Qed.

Lemma tuple_structured_binding_refuted : tuple_structured_binding_m <> tuple_structured_binding_spec.
Proof. discriminate. Qed.
Lemma get_by_type_refuted : exists p, get_by_type_m p <> get_by_type_spec p.
Proof. exists true. discriminate. Qed.
