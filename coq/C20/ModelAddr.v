(* C20, part (iv): WHICH OBJECT a wrapper refers to, for an object type that overloads unary operator&.

   Objects are identified by their index; `amp x` is the object whose address the (possibly overloaded) expression `&x`
   yields (amp x = x for every type without an overloaded operator&).  The library takes the address of a user object in
   two places of the anchored headers:
     reference_wrapper(U&& u) : _ptr(addressof(detail::FUN<T>(etl::forward<U>(u))))        reference_wrapper.hpp
     function_ref(F&& f)      : _obj(... etl::addressof(f) ...)                            function_ref.hpp
   (inplace_function only ever takes the address of its own aligned storage; tuple / pair / bind_front hold objects or
   references and never take an address).  etl::addressof is __builtin_addressof: it ignores the overload.  Everything
   below is parametric in HOW the library takes an address (`addr`), so that the code as it is (`addressof_m`) and the same
   code written with the built-in operator (`builtin_amp`, the repaired-against defect) are both expressible.

   The machine: objects o[0..n-1] with a value and a count of the calls they received, reference_wrapper slots rw[0..m-1]
   (unbound, or holding the pointer the constructor stored), and a script of operations that make wrappers and read,
   write and call THROUGH them (harness op `amp`, props/C20/c20_addr.inc, same operation codes). *)
From Coq Require Import ZArith List Bool Arith.
Import ListNotations.
Local Open Scope Z_scope.

Record aobj := mkaobj { ov : Z; oc : Z }.
Record ast := mkast { aobjs : list aobj; arws : list (option nat) }.

(* the two ways to take an address *)
Definition builtin_amp (amp : nat -> nat) (x : nat) : nat := amp x.      (* the expression &x: overload resolution finds operator& *)
Definition addressof_m (amp : nat -> nat) (x : nat) : nat := x.          (* __builtin_addressof(x) *)

Definition abind {A B} (a : option A) (f : A -> option B) : option B := match a with Some x => f x | None => None end.
Notation "'doa' x <-- a ;; b" := (abind a (fun x => b)) (at level 200, x name, a at level 100, b at level 200, right associativity).

Fixpoint aupd {A} (i : nat) (x : A) (l : list A) : list A :=
  match l, i with
  | [], _ => []
  | _ :: r, O => x :: r
  | y :: r, S j => y :: aupd j x r
  end.

Definition get_o (s : ast) (i : nat) : option aobj := nth_error (aobjs s) i.
Definition put_o (s : ast) (i : nat) (o : aobj) : ast := mkast (aupd i o (aobjs s)) (arws s).
Definition obj_ok (s : ast) (i : nat) : option unit := if (i <? length (aobjs s))%nat then Some tt else None.
Definition slot_ok (s : ast) (k : nat) : option unit := if (k <? length (arws s))%nat then Some tt else None.
Definition get_rw (s : ast) (k : nat) : option nat :=
  match nth_error (arws s) k with Some (Some r) => Some r | _ => None end.
Definition put_rw (s : ast) (k : nat) (r : nat) : ast := mkast (aobjs s) (aupd k (Some r) (arws s)).

(* the element type of the harness (struct Amp): operator()(z) and operator()(z) const count the call and return
   value + z + 1000 * calls (+ 100000 for the const overload); add(z) const likewise with 2 * z *)
Definition call_n (o : aobj) (z : Z) : aobj * Z := let c := oc o + 1 in (mkaobj (ov o) c, ov o + z + 1000 * c).
Definition call_c (o : aobj) (z : Z) : aobj * Z := let c := oc o + 1 in (mkaobj (ov o) c, ov o + z + 1000 * c + 100000).
Definition add_mf (o : aobj) (z : Z) : aobj * Z := let c := oc o + 1 in (mkaobj (ov o) c, ov o + 2 * z + 1000 * c).

(* run a member on the object with index i *)
Definition at_o (f : aobj -> Z -> aobj * Z) (s : ast) (i : nat) (z : Z) : option (ast * Z) :=
  doa o <-- get_o s i ;; let (o', r) := f o z in Some (put_o s i o', r).
Definition set_v (s : ast) (i : nat) (z : Z) : option ast := doa o <-- get_o s i ;; Some (put_o s i (mkaobj z (oc o))).
Definition add_v (s : ast) (i : nat) (d : Z) : option ast := doa o <-- get_o s i ;; Some (put_o s i (mkaobj (ov o + d) (oc o))).
(* generic swap of two Amp objects: tmp(move(a)); a = move(b); b = move(tmp) -- value and call count change places *)
Definition swap_o (s : ast) (i j : nat) : option ast :=
  doa a <-- get_o s i ;; doa b <-- get_o s j ;; Some (put_o (put_o s i b) j a).
Definition zid (i : nat) : Z := Z.of_nat i.

(* the operations of the script; p / q = wrapper slot or object index as the comment says *)
Inductive aop :=
| ARef (k x : nat)              (* rw[k] = ref(o[x]) *)
| ACtor (k x : nat)             (* rw[k] = reference_wrapper<T>{o[x]} *)
| ACopyW (k j : nat)            (* rw[k] = rw[j]: defaulted copy constructor / assignment *)
| ARefW (k j : nat)             (* rw[k] = ref(rw[j]): the unwrapping overload *)
| AWrite (k : nat) (z : Z)      (* rw[k].get().v = z *)
| AConv (k : nat) (z : Z)       (* T& r = rw[k]; r.v = z *)
| ACall (k : nat) (z : Z)       (* rw[k](z) *)
| ACref (x : nat) (z : Z)       (* c = cref(o[x]): c.get(), conversion, c(z) *)
| ACrefW (k : nat) (z : Z)      (* c = cref(rw[k]) *)
| AView (x : nat) (z : Z)       (* function_ref f{o[x]}; f(z); g = f; g(z + 1) *)
| ACView (x : nat) (z : Z)      (* function_ref f{as_const(o[x])}; f(z) *)
| AViewW (k : nat) (z : Z)      (* function_ref f{rw[k]}; f(z) *)
| AOwn (x : nat) (z : Z)        (* inplace_function f{o[x]}: owns a copy; f(z); g{f}; g(z); h{move(f)}; h(z); k = g; k(z) *)
| AOwnW (k : nat) (z : Z)       (* inplace_function f{rw[k]}; f(z); g{f}; g(z + 1) *)
| AInvRef (x : nat) (z : Z)     (* invoke(&T::add, ref(o[x]), z); invoke(&T::v, ref(o[x])) += 1; invoke(ref(o[x]), z); invoke(&T::add, cref(o[x]), z) *)
| AInvPtr (x : nat) (z : Z)     (* invoke(&T::add, p, z); invoke(&T::v, p) += 1 with p = the address of o[x] *)
| AInvObj (x : nat) (z : Z)     (* invoke(&T::add, o[x], z); invoke(&T::v, o[x]) += 1; invoke(o[x], z) *)
| AInvW (k : nat) (z : Z)       (* the same three with rw[k] *)
| ABindRef (x : nat) (z : Z)    (* bind_front(ref(o[x]))(z); b2 = bind_front(&T::add, ref(o[x])); b2(z); bind_front(&T::add, p)(z); copy of b2 (z) *)
| ABindObj (x : nat) (z : Z)    (* b = bind_front(o[x]); b(z); b(z); b2 = bind_front(&T::add, o[x]); b2(z); copy of b2 (z): all on copies *)
| ABindW (k : nat) (z : Z)      (* bind_front(rw[k])(z); bind_front(&T::add, rw[k])(z) *)
| ABindArg (x : nat) (z : Z)    (* bind_front(poke, ref(o[x]))(z); bind_front(poke, o[x])(z + 1) with poke(T& a, z) { a.v = z; return who(a); } *)
| ATup (x y : nat) (z : Z)      (* tuple<T, T&>{o[x], o[y]}, its copy, forward_as_tuple(o[x], as_const(o[y])) *)
| APair (x y : nat) (z : Z)     (* pair<T&, T>{o[x], o[y]}; make_pair(ref(o[x]), cref(o[y])) *)
| ASwap (x y : nat)             (* swap of tuple<T&>{o[x]} / {o[y]}; pair<T&, T&>{o[x], o[y]}.swap({o[y], o[x]}) *)
| AApply (x y : nat) (z : Z).   (* apply(lambda(T& a, T const& b), forward_as_tuple(o[x], as_const(o[y]))); apply(o[y], make_tuple(z)) *)

Section Machine.
  (* how the library takes the address of a user object, and what the object's operator& answers *)
  Variable addr : (nat -> nat) -> nat -> nat.
  Variable amp : nat -> nat.

  (* reference_wrapper.hpp *)
  Definition rw_ctor (x : nat) : nat := addr amp x.          (* _ptr(addr(FUN<T>(forward<U>(u)))): FUN returns its argument *)
  Definition rw_get (p : nat) : nat := p.                    (* get(): *_ptr *)
  Definition rw_conv (p : nat) : nat := p.                   (* operator T&(): *_ptr *)
  Definition rw_callee (p : nat) : nat := rw_get p.          (* operator(): invoke(get(), args...) *)
  Definition ref_f (x : nat) : nat := rw_ctor x.             (* ref(T& t): reference_wrapper<T>(t) *)
  Definition ref_unwrap (p : nat) : nat := ref_f (rw_get p). (* ref(reference_wrapper<T> t): ref(t.get()) *)
  Definition cref_f (x : nat) : nat := rw_ctor x.            (* cref(T const& t): reference_wrapper<T const>(t) *)
  Definition cref_unwrap (p : nat) : nat := cref_f (rw_get p).
  (* function_ref.hpp *)
  Definition fr_ctor (x : nat) : nat := addr amp x.          (* _obj(addr(f)) *)
  Definition fr_callee (p : nat) : nat := p.                 (* the thunk: *reinterpret_cast<F*>(obj) *)
  (* invoke.hpp, detail::invoke_memptr: reference_wrapper receiver t1.get(), pointer receiver *t1, object receiver t1 *)
  Definition inv_rcv_refwrap (p : nat) : nat := rw_get p.

  Definition astep_g (s : ast) (o : aop) : option (ast * list Z) :=
    match o with
    | ARef k x => doa _ <-- slot_ok s k ;; doa _ <-- obj_ok s x ;; Some (put_rw s k (ref_f x), [])
    | ACtor k x => doa _ <-- slot_ok s k ;; doa _ <-- obj_ok s x ;; Some (put_rw s k (rw_ctor x), [])
    | ACopyW k j => doa _ <-- slot_ok s k ;; doa r <-- get_rw s j ;; Some (put_rw s k r, [])
    | ARefW k j => doa _ <-- slot_ok s k ;; doa r <-- get_rw s j ;; Some (put_rw s k (ref_unwrap r), [])
    | AWrite k z => doa r <-- get_rw s k ;; doa s1 <-- set_v s (rw_get r) z ;; Some (s1, [])
    | AConv k z => doa r <-- get_rw s k ;; doa s1 <-- set_v s (rw_conv r) z ;; Some (s1, [zid (rw_conv r)])
    | ACall k z => doa r <-- get_rw s k ;; doa c <-- at_o call_n s (rw_callee r) z ;; Some (fst c, [snd c])
    | ACref x z =>
        doa _ <-- obj_ok s x ;; let c := cref_f x in
        doa o <-- get_o s (rw_get c) ;; doa r <-- at_o call_c s (rw_callee c) z ;;
        Some (fst r, [zid (rw_get c); zid (rw_conv c); ov o; snd r])
    | ACrefW k z =>
        doa w <-- get_rw s k ;; let c := cref_unwrap w in
        doa o <-- get_o s (rw_get c) ;; doa r <-- at_o call_c s (rw_callee c) z ;;
        Some (fst r, [zid (rw_get c); zid (rw_conv c); ov o; snd r])
    | AView x z =>
        doa _ <-- obj_ok s x ;; let f := fr_ctor x in
        doa r1 <-- at_o call_n s (fr_callee f) z ;; doa r2 <-- at_o call_n (fst r1) (fr_callee f) (z + 1) ;;
        Some (fst r2, [snd r1; snd r2])
    | ACView x z =>
        doa _ <-- obj_ok s x ;; let f := fr_ctor x in doa r1 <-- at_o call_c s (fr_callee f) z ;; Some (fst r1, [snd r1])
    | AViewW k z =>
        (* the viewed callable is the wrapper object itself (no overloaded operator&); its operator() calls the referent *)
        doa w <-- get_rw s k ;; doa r1 <-- at_o call_n s (rw_callee w) z ;; Some (fst r1, [snd r1])
    | AOwn x z =>
        doa o <-- get_o s x ;;
        let (f1, r1) := call_n o z in          (* f holds a copy of o[x] *)
        let (g1, r2) := call_n f1 z in         (* g{f}: a copy of f's target as it is now *)
        let (h1, r3) := call_n f1 z in         (* h{move(f)}: f's target relocated *)
        let (k1, r4) := call_n g1 z in         (* k = g *)
        Some (s, [r1; r2; r3; r4])
    | AOwnW k z =>
        doa w <-- get_rw s k ;; doa r1 <-- at_o call_n s (rw_callee w) z ;; doa r2 <-- at_o call_n (fst r1) (rw_callee w) (z + 1) ;;
        Some (fst r2, [snd r1; snd r2])
    | AInvRef x z =>
        doa _ <-- obj_ok s x ;;
        doa r1 <-- at_o add_mf s (inv_rcv_refwrap (ref_f x)) z ;;
        doa s2 <-- add_v (fst r1) (inv_rcv_refwrap (ref_f x)) 1 ;;
        doa r2 <-- at_o call_n s2 (rw_callee (ref_f x)) z ;;
        doa r3 <-- at_o add_mf (fst r2) (inv_rcv_refwrap (cref_f x)) z ;;
        Some (fst r3, [snd r1; snd r2; snd r3])
    | AInvPtr x z =>
        doa r1 <-- at_o add_mf s x z ;; doa s2 <-- add_v (fst r1) x 1 ;; Some (s2, [snd r1])
    | AInvObj x z =>
        doa r1 <-- at_o add_mf s x z ;; doa s2 <-- add_v (fst r1) x 1 ;; doa r2 <-- at_o call_n s2 x z ;; Some (fst r2, [snd r1; snd r2])
    | AInvW k z =>
        doa w <-- get_rw s k ;;
        doa r1 <-- at_o add_mf s (inv_rcv_refwrap w) z ;; doa s2 <-- add_v (fst r1) (inv_rcv_refwrap w) 1 ;;
        doa r2 <-- at_o call_n s2 (rw_callee w) z ;; Some (fst r2, [snd r1; snd r2])
    | ABindRef x z =>
        doa _ <-- obj_ok s x ;;
        doa r1 <-- at_o call_n s (rw_callee (ref_f x)) z ;;
        let b2 := ref_f x in
        doa r2 <-- at_o add_mf (fst r1) (inv_rcv_refwrap b2) z ;;
        doa r3 <-- at_o add_mf (fst r2) x z ;;
        doa r4 <-- at_o add_mf (fst r3) (inv_rcv_refwrap b2) z ;;
        Some (fst r4, [snd r1; snd r2; snd r3; snd r4])
    | ABindObj x z =>
        doa o <-- get_o s x ;;
        let (b1, r1) := call_n o z in let (b1', r2) := call_n b1 z in
        let (c1, r3) := add_mf o z in let (c1', r4) := add_mf c1 z in
        Some (s, [r1; r2; r3; r4])
    | ABindW k z =>
        doa w <-- get_rw s k ;;
        doa r1 <-- at_o call_n s (rw_callee w) z ;; doa r2 <-- at_o add_mf (fst r1) (inv_rcv_refwrap w) z ;;
        Some (fst r2, [snd r1; snd r2])
    | ABindArg x z =>
        doa _ <-- obj_ok s x ;; let a := rw_conv (ref_f x) in
        doa s1 <-- set_v s a z ;; Some (s1, [zid a; -1])
    | ATup x y z =>
        doa _ <-- obj_ok s x ;; doa s1 <-- add_v s y 1 ;; Some (s1, [-1; zid y; zid y; zid x; zid y; z])
    | APair x y z =>
        doa _ <-- obj_ok s y ;; doa s1 <-- add_v s x 2 ;;
        let m1 := rw_conv (ref_f x) in let m2 := rw_conv (cref_f y) in
        doa s2 <-- add_v s1 m1 z ;; Some (s2, [zid x; -1; zid m1; zid m2])
    | ASwap x y =>
        doa s1 <-- swap_o s x y ;; doa s2 <-- swap_o s1 x y ;; doa s3 <-- swap_o s2 y x ;; Some (s3, [zid x; zid x; zid y])
    | AApply x y z =>
        doa _ <-- obj_ok s y ;; doa s1 <-- set_v s x z ;; doa r <-- at_o call_n s1 y z ;;
        Some (fst r, [zid x * 10 + zid y; snd r])
    end.

  (* a skipped operation (index out of range, slot not bound) leaves the state alone and is reported as None *)
  Fixpoint arun_g (s : ast) (ops : list aop) : ast * list (option (list Z)) :=
    match ops with
    | [] => (s, [])
    | o :: r =>
        match astep_g s o with
        | Some (s', out) => let (sf, outs) := arun_g s' r in (sf, Some out :: outs)
        | None => let (sf, outs) := arun_g s r in (sf, None :: outs)
        end
    end.
End Machine.

(* the code as it is: etl::addressof *)
Definition astep_m := astep_g addressof_m.
Definition arun_m := arun_g addressof_m.
(* the same code with the built-in operator in both places (NOT what the headers do: see C20_addressof_is_needed) *)
Definition astep_amp_m := astep_g builtin_amp.
Definition arun_amp_m := arun_g builtin_amp.

Definition ainit (vals : list Z) (nslots : nat) : ast := mkast (map (fun v => mkaobj v 0) vals) (repeat (@None nat) nslots).
