(* C20, part (v): proofs about the initialisation forms (ModelInit.v) against SpecInit.v *)
From Coq Require Import ZArith List Bool Arith Lia.
From Tetl Require Import C20.ModelInit C20.SpecInit.
Import ListNotations.
Local Open Scope Z_scope.

(** * the candidates *)
Lemma ranks_length : forall c args ps rs, ranks c args ps = Some rs -> length ps = length args.
Proof.
  intros c args. induction args as [| a ar IH]; intros ps rs H; destruct ps as [| p pr]; simpl in H; try discriminate.
  - reflexivity.
  - destruct (conv c a p); try discriminate. destruct (ranks c ar pr) eqn:E; try discriminate.
    simpl. f_equal. eapply IH. exact E.
Qed.

Lemma ord_cands_from_sound : forall c ks i args x, In x (ord_cands_from c i ks args) ->
  exists j e ps rs, who x = CO (i + j) /\ nth_error ks j = Some (Ord e ps) /\ ranks c args ps = Some rs /\ cexpl x = e /\ crk x = rs.
Proof.
  intros c ks. induction ks as [| k kr IH]; intros i args x H; simpl in H.
  - contradiction.
  - destruct k as [e ps | el].
    + destruct (ranks c args ps) eqn:E.
      * destruct H as [H | H].
        -- subst x. exists 0%nat, e, ps, l. simpl. rewrite Nat.add_0_r. auto.
        -- destruct (IH _ _ _ H) as (j & e' & ps' & rs & A & B & C & D & F).
           exists (S j), e', ps', rs. rewrite <- Nat.add_succ_comm. auto.
      * destruct (IH _ _ _ H) as (j & e' & ps' & rs & A & B & C & D & F).
        exists (S j), e', ps', rs. rewrite <- Nat.add_succ_comm. auto.
    + destruct (IH _ _ _ H) as (j & e' & ps' & rs & A & B & C & D & F).
      exists (S j), e', ps', rs. rewrite <- Nat.add_succ_comm. auto.
Qed.

Lemma il_cands_from_sound : forall c ks i args x, In x (il_cands_from c i ks args) ->
  exists j e, who x = CO (i + j) /\ nth_error ks j = Some (IL e) /\ cexpl x = false.
Proof.
  intros c ks. induction ks as [| k kr IH]; intros i args x H; simpl in H.
  - contradiction.
  - destruct k as [e ps | el].
    + destruct (IH _ _ _ H) as (j & e' & A & B & C). exists (S j), e'. rewrite <- Nat.add_succ_comm. auto.
    + destruct (ranks c args (map (fun _ => el) args)) eqn:E.
      * destruct (existsb (fun a => aty_eqb a ASelf) args && aty_eqb el ASelf && copy_explicit c).
        -- destruct (IH _ _ _ H) as (j & e' & A & B & C). exists (S j), e'. rewrite <- Nat.add_succ_comm. auto.
        -- destruct H as [H | H].
           ++ subst x. exists 0%nat, el. simpl. rewrite Nat.add_0_r. auto.
           ++ destruct (IH _ _ _ H) as (j & e' & A & B & C). exists (S j), e'. rewrite <- Nat.add_succ_comm. auto.
      * destruct (IH _ _ _ H) as (j & e' & A & B & C). exists (S j), e'. rewrite <- Nat.add_succ_comm. auto.
Qed.

Lemma pick_in : forall l x, pick l = inl x -> In x l.
Proof.
  intros l x H. unfold pick in H. destruct l as [| y r]; try discriminate.
  destruct (filter (fun x0 => beats_all x0 (y :: r)) (y :: r)) as [| z zr] eqn:E; try discriminate.
  inversion H; subst z. assert (I : In x (x :: zr)) by (left; reflexivity). rewrite <- E in I.
  apply filter_In in I. tauto.
Qed.

Lemma in_ord_cands : forall c args x, In x (ord_cands c args) ->
  (exists j e ps rs, who x = CO j /\ nth_error (ctors c) j = Some (Ord e ps) /\ ranks c args ps = Some rs /\ cexpl x = e)
  \/ (who x = CC /\ args = [ASelf] /\ cexpl x = copy_explicit c).
Proof.
  intros c args x H. unfold ord_cands in H. apply in_app_or in H. destruct H as [H | H].
  - left. destruct (ord_cands_from_sound _ _ _ _ _ H) as (j & e & ps & rs & A & B & C & D & _).
    exists j, e, ps, rs. simpl in A. auto.
  - right. destruct args as [| a ar]; simpl in H; try contradiction.
    destruct a; simpl in H; try contradiction. destruct ar; simpl in H; try contradiction.
    destruct H as [H | []]. subst x. simpl. auto.
Qed.

(** * direct-non-list-initialisation never selects an initializer_list constructor; list-initialisation does whenever
      one is viable *)
Lemma paren_never_list : forall c args i, resolve Paren c args = Picked i ->
  exists e ps, nth_error (ctors c) i = Some (Ord e ps) /\ length ps = length args.
Proof.
  intros c args i H. unfold resolve in H. destruct (pick (ord_cands c args)) as [x | r] eqn:P; try discriminate.
  apply pick_in in P. destruct (in_ord_cands _ _ _ P) as [(j & e & ps & rs & A & B & C & _) | (A & _)].
  - rewrite A in H. simpl in H. inversion H; subst j. exists e, ps. split; auto. eapply ranks_length; eauto.
  - rewrite A in H. discriminate.
Qed.

Lemma copyinit_never_list_nor_explicit : forall c args i, resolve CopyInit c args = Picked i ->
  exists ps, nth_error (ctors c) i = Some (Ord false ps) /\ length ps = length args.
Proof.
  intros c args i H. unfold resolve in H. destruct args as [| a [| a2 ar]]; try discriminate.
  destruct (pick (filter (fun x => negb (cexpl x)) (ord_cands c [a]))) as [x | r] eqn:P; try discriminate.
  apply pick_in in P. apply filter_In in P. destruct P as [P Q].
  destruct (in_ord_cands _ _ _ P) as [(j & e & ps & rs & A & B & C & D) | (A & _)].
  - rewrite A in H. simpl in H. inversion H; subst j. rewrite D in Q. destruct e; try discriminate.
    exists ps. split; auto. eapply ranks_length; eauto.
  - rewrite A in H. discriminate.
Qed.

Lemma brace_prefers_list : forall c args i, args <> [] -> il_cands c args <> [] -> resolve Brace c args = Picked i ->
  exists e, nth_error (ctors c) i = Some (IL e).
Proof.
  intros c args i NE V H. unfold resolve in H.
  assert (P1 : match args with [] => if has_default c then [] else il_cands c args | _ :: _ => il_cands c args end = il_cands c args)
    by (destruct args; [contradiction | reflexivity]).
  rewrite P1 in H. destruct (il_cands c args) as [| y r] eqn:E; [contradiction |].
  destruct (pick (y :: r)) as [x | w] eqn:P; try discriminate.
  apply pick_in in P. rewrite <- E in P. unfold il_cands in P.
  destruct (il_cands_from_sound _ _ _ _ _ P) as (j & e & A & B & C). simpl in A.
  destruct (any_narrowing args (params_of c (who x) args)); try discriminate.
  rewrite C in H. simpl in H. rewrite A in H. simpl in H. inversion H; subst j. exists e. exact B.
Qed.

(* without a viable initializer_list constructor and without narrowing, braces and parentheses select the same constructor *)
Lemma brace_eq_paren : forall c args i, il_cands c args = [] -> resolve Paren c args = Picked i ->
  any_narrowing args (params_of c (CO i) args) = false -> resolve Brace c args = Picked i.
Proof.
  intros c args i V H N. unfold resolve in *.
  assert (P1 : match args with [] => if has_default c then [] else il_cands c args | _ :: _ => il_cands c args end = [])
    by (destruct args; [destruct (has_default c); auto | auto]).
  rewrite P1. destruct (pick (ord_cands c args)) as [x | r]; try discriminate.
  destruct (who x) eqn:W; simpl in H; try discriminate. inversion H; subst i0. rewrite N. rewrite andb_false_r. reflexivity.
Qed.
Lemma brace_eq_paren_copy : forall c, il_cands c [ASelf] = [] -> resolve Paren c [ASelf] = CopyCtor ->
  resolve Brace c [ASelf] = CopyCtor.
Proof.
  intros c V H. unfold resolve in *. rewrite V.
  destruct (pick (ord_cands c [ASelf])) as [x | r]; try discriminate.
  destruct (who x) eqn:W; simpl in H; try discriminate. simpl. rewrite andb_false_r. reflexivity.
Qed.

Lemma il_cands_from_none : forall c ks i args, (forall k, In k ks -> match k with IL _ => False | _ => True end) ->
  il_cands_from c i ks args = [].
Proof.
  intros c ks. induction ks as [| k kr IH]; intros i args H; simpl; auto.
  destruct k as [e ps | el].
  - apply IH. intros k Hk. apply H. right. exact Hk.
  - exfalso. apply (H (IL el)). left. reflexivity.
Qed.
Lemma no_list_ctor_brace_eq_paren : forall c args i,
  (forall k, In k (ctors c) -> match k with IL _ => False | _ => True end) ->
  resolve Paren c args = Picked i -> any_narrowing args (params_of c (CO i) args) = false -> resolve Brace c args = Picked i.
Proof. intros c args i H. apply brace_eq_paren. unfold il_cands. apply il_cands_from_none. exact H. Qed.

(** * library classes with a forwarding constructor template: braces are harmless *)
Lemma aty_eqb_refl : forall a, aty_eqb a a = true. Proof. destruct a; reflexivity. Qed.
Lemma conv_refl : forall c a, conv c a a = Some 0%nat. Proof. intros c a. unfold conv. rewrite aty_eqb_refl. reflexivity. Qed.
Lemma ranks_refl : forall c args, ranks c args args = Some (map (fun _ => 0%nat) args).
Proof. intros c args. induction args as [| a r IH]; simpl; auto. rewrite conv_refl, IH. reflexivity. Qed.
Lemma any_narrowing_refl : forall args, any_narrowing args args = false.
Proof.
  induction args as [| a r IH]; simpl; auto. unfold any_narrowing in *. simpl. rewrite IH.
  unfold narrowing. simpl. rewrite aty_eqb_refl. simpl. rewrite andb_false_r. reflexivity.
Qed.
Lemma fwd_cls_transparent : forall args, args <> [ASelf] ->
  resolve Brace (fwd_cls args) args = Picked 0 /\ resolve Paren (fwd_cls args) args = Picked 0.
Proof.
  intros args NS.
  assert (OC : ord_cands (fwd_cls args) args = [mkcand (CO 0) true (map (fun _ => 0%nat) args)]).
  { unfold ord_cands, fwd_cls. simpl. rewrite ranks_refl. simpl.
    destruct args as [| a ar]; auto. destruct a; auto. destruct ar; auto. contradiction NS; reflexivity. }
  assert (PK : pick (ord_cands (fwd_cls args) args) = inl (mkcand (CO 0) true (map (fun _ => 0%nat) args))).
  { rewrite OC. unfold pick. simpl. reflexivity. }
  split.
  - unfold resolve.
    assert (P1 : match args with [] => if has_default (fwd_cls args) then [] else il_cands (fwd_cls args) args
                 | _ :: _ => il_cands (fwd_cls args) args end = []).
    { destruct args; unfold il_cands; simpl; auto. }
    rewrite P1, PK. simpl. rewrite any_narrowing_refl. reflexivity.
  - unfold resolve. rewrite PK. reflexivity.
Qed.

(** * every site initialises as the standard prescribes *)
Definition no_explicit (c : cls) : Prop :=
  copy_explicit c = false /\ forall k, In k (ctors c) -> match k with Ord true _ => False | _ => True end.

Lemma filter_all_id : forall (A : Type) (f : A -> bool) (l : list A), (forall x, In x l -> f x = true) -> filter f l = l.
Proof.
  intros A f l. induction l as [| y r IH]; intros H; simpl; auto.
  rewrite (H y (or_introl eq_refl)). f_equal. apply IH. intros x Hx. apply H. right. exact Hx.
Qed.
Lemma filter_nonexplicit_id : forall c args, no_explicit c ->
  filter (fun x => negb (cexpl x)) (ord_cands c args) = ord_cands c args.
Proof.
  intros c args [CE NE]. apply filter_all_id. intros x H.
  destruct (in_ord_cands _ _ _ H) as [(j & e & ps & rs & A & B & C & D) | (A & B & D)].
  - rewrite D. apply nth_error_In in B. specialize (NE _ B). destruct e; [contradiction | reflexivity].
  - rewrite D, CE. reflexivity.
Qed.

Lemma resolve_paren_spec : forall c args, resolve Paren c args = init_spec_k DirectNonList c args.
Proof. intros. unfold resolve, init_spec_k. reflexivity. Qed.
Lemma resolve_copyinit_spec : forall c args, resolve CopyInit c args = init_spec_k Implicit c args.
Proof. intros. unfold resolve, init_spec_k. destruct args as [| a [| a2 ar]]; reflexivity. Qed.
Lemma resolve_copyinit_direct : forall c, no_explicit c -> resolve CopyInit c [ASelf] = init_spec_k DirectNonList c [ASelf].
Proof. intros c NE. unfold resolve, init_spec_k. rewrite filter_nonexplicit_id by exact NE. reflexivity. Qed.

Lemma rehop_paren_spec : forall c x, rehop c Paren x = spec_rehop DirectNonList c x \/ (exists i, resolve Paren c [ASelf] = Picked i).
Proof.
  intros c x. unfold rehop, spec_rehop. rewrite <- resolve_paren_spec.
  destruct (resolve Paren c [ASelf]) eqn:E; auto. right. exists i. reflexivity.
Qed.
(* a parenthesised construction from the object itself that selects constructor i selects an ORDINARY one: never a re-wrap *)
Lemma rehop_paren_exact : forall c x, rehop c Paren x = spec_rehop DirectNonList c x.
Proof.
  intros c x. unfold rehop, spec_rehop. rewrite <- resolve_paren_spec.
  destruct (resolve Paren c [ASelf]) eqn:E; auto.
  destruct (paren_never_list _ _ _ E) as (e & ps & A & _). rewrite A. reflexivity.
Qed.
Lemma rehops_paren_spec : forall c n x, rehops c (repeat Paren n) x = spec_rehops c (repeat DirectNonList n) x.
Proof.
  intros c n. induction n as [| n IH]; intros x; simpl; auto.
  rewrite rehop_paren_exact. destruct (spec_rehop DirectNonList c x); auto.
Qed.

Definition site_in_domain (s : site) (c : cls) : Prop := s = SNotFn -> no_explicit c.

Lemma site_refines : forall s c args vals, site_in_domain s c -> (s = SNotFn -> args = [ASelf]) ->
  site_m s c args vals = site_s s c args vals.
Proof.
  intros s c args vals D A. unfold site_m, site_s, run_forms.
  destruct s; simpl site_forms; simpl site_spec; cbv iota beta;
    try (rewrite resolve_paren_spec; try reflexivity);
    try (rewrite resolve_copyinit_spec; reflexivity).
  all: try (destruct (first_obj c (init_spec_k DirectNonList c args) vals); auto;
            change [Paren] with (repeat Paren 1); change [DirectNonList] with (repeat DirectNonList 1);
            rewrite rehops_paren_spec; reflexivity).
  (* SNotFn *)
  rewrite (A eq_refl). rewrite resolve_copyinit_direct by (apply D; reflexivity). reflexivity.
Qed.

Lemma site_self_refines : forall s c x, site_in_domain s c -> site_self_m s c x = site_self_s s c x.
Proof.
  intros s c x D. unfold site_self_m, site_self_s, run_forms_self.
  destruct s; simpl site_forms; simpl site_spec; cbv iota beta.
  all: try (rewrite resolve_paren_spec; f_equal;
            first [ apply (rehops_paren_spec c 1) | apply (rehops_paren_spec c 2) ]).
  - (* SNotFn *)
    rewrite resolve_copyinit_direct by (apply D; reflexivity). f_equal.
    simpl. unfold rehop, spec_rehop. rewrite resolve_copyinit_direct by (apply D; reflexivity).
    destruct (init_spec_k DirectNonList c [ASelf]) eqn:E; auto.
    rewrite <- resolve_paren_spec in E. destruct (paren_never_list _ _ _ E) as (e & ps & A & _). rewrite A. reflexivity.
  - (* SInvokeR *) rewrite resolve_copyinit_spec. f_equal. simpl. unfold rehop, spec_rehop. rewrite resolve_copyinit_spec.
    destruct (init_spec_k Implicit c [ASelf]) eqn:E; auto.
    rewrite <- resolve_copyinit_spec in E. destruct (copyinit_never_list_nor_explicit _ _ _ E) as (ps & A & _). rewrite A. reflexivity.
  - rewrite resolve_copyinit_spec. f_equal. simpl. unfold rehop, spec_rehop. rewrite resolve_copyinit_spec.
    destruct (init_spec_k Implicit c [ASelf]) eqn:E; auto.
    rewrite <- resolve_copyinit_spec in E. destruct (copyinit_never_list_nor_explicit _ _ _ E) as (ps & A & _). rewrite A. reflexivity.
  - rewrite resolve_copyinit_spec. f_equal. simpl. unfold rehop, spec_rehop. rewrite resolve_copyinit_spec.
    destruct (init_spec_k Implicit c [ASelf]) eqn:E; auto.
    rewrite <- resolve_copyinit_spec in E. destruct (copyinit_never_list_nor_explicit _ _ _ E) as (ps & A & _). rewrite A. reflexivity.
Qed.

(** * copies never re-wrap; the braces that were there did *)
Lemma paren_copies_keep : forall c n x, resolve Paren c [ASelf] = CopyCtor -> rehops c (repeat Paren n) x = Some x.
Proof.
  intros c n x H. induction n as [| n IH]; simpl; auto. unfold rehop. rewrite H. exact IH.
Qed.
Lemma tree_braces_rewrap : forall n x,
  rehops tree_cls (repeat Brace n) x = Some (mkobj (if (n =? 0)%nat then ohow x else 1) (if (n =? 0)%nat then osize x else 1) (ofront x) (odepth x + Z.of_nat n)).
Proof.
  induction n as [| n IH]; intros x.
  - simpl. destruct x; simpl. rewrite Z.add_0_r. reflexivity.
  - change (repeat Brace (S n)) with (Brace :: repeat Brace n). simpl rehops.
    change (rehop tree_cls Brace x) with (Some (mkobj 1 1 (ofront x) (odepth x + 1))).
    rewrite IH. simpl ofront. simpl odepth. simpl ohow. simpl osize.
    replace (odepth x + 1 + Z.of_nat n) with (odepth x + Z.of_nat (S n)) by lia.
    destruct n; reflexivity.
Qed.

(** * witnesses *)
Lemma brace_differs : resolve Paren buf_cls [ASize; ASize] = Picked 0 /\ resolve Brace buf_cls [ASize; ASize] = Picked 1.
Proof. split; reflexivity. Qed.
Lemma brace_narrowing : resolve Paren trunc_cls [ADbl] = Picked 0 /\ resolve Brace trunc_cls [ADbl] = Ill Narrowing
  /\ resolve Paren buf_cls [ALong; ALong] = Picked 0 /\ resolve Brace buf_cls [ALong; ALong] = Ill Narrowing.
Proof. repeat split; reflexivity. Qed.
Lemma copylist_explicit : resolve Paren expl_cls [ASelf] = CopyCtor /\ resolve CopyList expl_cls [ASelf] = Ill ExplicitChosen
  /\ resolve CopyInit expl_cls [ASelf] = Ill NoViable.
Proof. repeat split; reflexivity. Qed.
Lemma harness_classes_copy : forall c, In c [buf_cls; plain_cls; conv_cls; tree_cls; trunc_cls; wide_cls; expl_cls; mixed_cls] ->
  resolve Paren c [ASelf] = CopyCtor.
Proof. intros c H. simpl in H. repeat (destruct H as [H | H]; [subst c; reflexivity |]). contradiction. Qed.
