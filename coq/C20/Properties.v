(* C20 — pair, tuple and callable wrappers forward values and calls faithfully.
   Property theorems only: each is closed by [exact] of a lemma proved in Proofs*.v, followed by Print Assumptions.
   Model.v mirrors the headers (after the fix: commits recorded in known_findings.json), Spec.v is the standard.
   (i) values: any arity / any number of operands; (ii) inplace_function: all histories, any number of wrappers
   and targets; (iii) value categories: the quantified types ty = {const?} x {none, &, &&} ARE the whole finite
   domain (4 expression categories, 6 element / parameter kinds), argument lists and tuples of any length. *)
From Tetl Require Import Lib.Base C20.Model C20.Spec C20.ProofsVal C20.ProofsCat C20.ProofsFn C20.ProofsCtor C20.ProofsTcat.
Local Open Scope Z_scope.

(** (i) pair relations = lexicographic order *)
(* operator< as the header writes it, for ANY comparison function *)
Theorem C20_pair_lt_lexicographic : forall (A : Type) (lt : A -> A -> bool) l r,
  pair_lt_m lt l r = true <-> lex_lt lt l r.
Proof. exact (@pair_lt_lex). Qed.
Print Assumptions C20_pair_lt_lexicographic.

Theorem C20_pair_gt_lexicographic : forall (A : Type) (lt : A -> A -> bool) l r,
  pair_gt_m lt l r = true <-> lex_lt lt r l.
Proof. exact (@pair_gt_lex). Qed.
Print Assumptions C20_pair_gt_lexicographic.

(* <= and >= are derived as !(r < l), !(l < r): correct for every asymmetric operator< (every strict weak order) *)
Theorem C20_pair_le_lexicographic : forall (A : Type) (lt : A -> A -> bool),
  (forall a b, lt a b = true -> lt b a = false) ->
  forall l r, pair_le_m lt l r = true <-> (lex_lt lt l r \/ lex_equiv lt l r).
Proof. exact (@pair_le_lex). Qed.
Print Assumptions C20_pair_le_lexicographic.

Theorem C20_pair_ge_lexicographic : forall (A : Type) (lt : A -> A -> bool),
  (forall a b, lt a b = true -> lt b a = false) ->
  forall l r, pair_ge_m lt l r = true <-> (lex_lt lt r l \/ lex_equiv lt l r).
Proof. exact (@pair_ge_lex). Qed.
Print Assumptions C20_pair_ge_lexicographic.

Theorem C20_pair_trichotomy : forall (A : Type) (lt : A -> A -> bool),
  (forall a b, lt a b = true -> lt b a = false) ->
  forall l r,
  (lex_lt lt l r /\ ~ lex_lt lt r l /\ ~ lex_equiv lt l r) \/
  (~ lex_lt lt l r /\ lex_lt lt r l /\ ~ lex_equiv lt l r) \/
  (~ lex_lt lt l r /\ ~ lex_lt lt r l /\ lex_equiv lt l r).
Proof. exact (@lex_trichotomy). Qed.
Print Assumptions C20_pair_trichotomy.

(* on integers, in plain arithmetic *)
Theorem C20_pair_lt_Z : forall a1 a2 b1 b2,
  pair_lt_m Z.ltb (a1, a2) (b1, b2) = true <-> (a1 < b1 \/ (a1 = b1 /\ a2 < b2)).
Proof. exact pair_lt_Z. Qed.
Print Assumptions C20_pair_lt_Z.
Theorem C20_pair_le_Z : forall a1 a2 b1 b2,
  pair_le_m Z.ltb (a1, a2) (b1, b2) = true <-> (a1 < b1 \/ (a1 = b1 /\ a2 <= b2)).
Proof. exact pair_le_Z. Qed.
Print Assumptions C20_pair_le_Z.
Theorem C20_pair_gt_Z : forall a1 a2 b1 b2,
  pair_gt_m Z.ltb (a1, a2) (b1, b2) = true <-> (b1 < a1 \/ (a1 = b1 /\ b2 < a2)).
Proof. exact pair_gt_Z. Qed.
Print Assumptions C20_pair_gt_Z.
Theorem C20_pair_ge_Z : forall a1 a2 b1 b2,
  pair_ge_m Z.ltb (a1, a2) (b1, b2) = true <-> (b1 < a1 \/ (a1 = b1 /\ b2 <= a2)).
Proof. exact pair_ge_Z. Qed.
Print Assumptions C20_pair_ge_Z.

Theorem C20_pair_eq : forall (A : Type) (eqb : A -> A -> bool), (forall a b, eqb a b = true <-> a = b) ->
  forall l r, pair_eq_m eqb l r = true <-> l = r.
Proof. exact (@pair_eq_spec). Qed.
Print Assumptions C20_pair_eq.
Theorem C20_pair_ne : forall (A : Type) (eqb : A -> A -> bool), (forall a b, eqb a b = true <-> a = b) ->
  forall l r, pair_ne_m eqb l r = true <-> l <> r.
Proof. exact (@pair_ne_spec). Qed.
Print Assumptions C20_pair_ne.

(* the executable forms of the specification used as spec leg of the correspondence run *)
Theorem C20_pair_relations_exec : forall l r,
  pair_eq_m Z.eqb l r = zpair_eq_spec l r /\ pair_lt_m Z.ltb l r = zpair_lt_spec l r /\
  pair_le_m Z.ltb l r = zpair_le_spec l r /\ pair_gt_m Z.ltb l r = zpair_gt_spec l r /\
  pair_ge_m Z.ltb l r = zpair_ge_spec l r.
Proof. exact pair_rel_Z_exec. Qed.
Print Assumptions C20_pair_relations_exec.

Theorem C20_pair_swap : forall (A : Type) (l r : A * A), pair_swap_m l r = (r, l).
Proof. exact (@pair_swap_spec). Qed.
Print Assumptions C20_pair_swap.
Theorem C20_pair_assign : forall (A : Type) (l r : A * A), pair_assign_val_m l r = r.
Proof. exact (@pair_assign_spec_val). Qed.
Print Assumptions C20_pair_assign.

(** (i) tuples of any arity *)
Theorem C20_tuple_eq : forall (A : Type) (eqb : A -> A -> bool), (forall a b, eqb a b = true <-> a = b) ->
  forall (d : A) l r, length l = length r -> (tuple_eq_m eqb d l r = true <-> l = r).
Proof. exact (@tuple_eq_spec). Qed.
Print Assumptions C20_tuple_eq.
Theorem C20_tuple_ne : forall (A : Type) (eqb : A -> A -> bool), (forall a b, eqb a b = true <-> a = b) ->
  forall (d : A) l r, length l = length r -> (tuple_ne_m eqb d l r = true <-> l <> r).
Proof. exact (@tuple_ne_spec). Qed.
Print Assumptions C20_tuple_ne.
Theorem C20_tuple_eq_exec : forall l r, length l = length r -> tuple_eq_m Z.eqb 0 l r = zlist_eq_spec l r.
Proof. exact tuple_eq_Z_exec. Qed.
Print Assumptions C20_tuple_eq_exec.
Theorem C20_tuple_swap : forall (A : Type) (d : A) (l r : list A), length l = length r -> tuple_swap_m d l r = (r, l).
Proof. exact (@tuple_swap_spec). Qed.
Print Assumptions C20_tuple_swap.
(* the index-sequence expansion get<0>(t), ..., get<N-1>(t) is the element list: each once, in order *)
Theorem C20_index_expansion : forall (A : Type) (d : A) (t : list A), idx_expand d t = t.
Proof. exact (@idx_expand_id). Qed.
Print Assumptions C20_index_expansion.
Theorem C20_apply : forall (A : Type) (d : A) (R : Type) (f : list A -> R) t, apply_m d f t = f t.
Proof. exact (@apply_spec). Qed.
Print Assumptions C20_apply.
Theorem C20_make_from_tuple : forall (A : Type) (d : A) (R : Type) (ctor : list A -> R) t, make_from_tuple_m d ctor t = ctor t.
Proof. exact (@make_from_tuple_spec). Qed.
Print Assumptions C20_make_from_tuple.
(* any number of operands of any arity *)
Theorem C20_tuple_cat : forall (A : Type) (d : A) (ts : list (list A)), tuple_cat_m d ts = tuple_cat_spec ts.
Proof. exact (@tuple_cat_is_concat). Qed.
Print Assumptions C20_tuple_cat.

(* tuple / pair elements are direct-non-list-initialised (value script of op tinit; after the fix of tuple_leaf) *)
Theorem C20_tuple_elements_direct_initialised : forall n, tuple_init_m n = tuple_init_spec n.
Proof. exact tuple_init_agrees. Qed.
Print Assumptions C20_tuple_elements_direct_initialised.

(** (ii) inplace_function: all histories *)
Theorem C20_ipf_refines : forall stateless tracked n ops s a, inv s -> rel s a ->
  exists s', run_m stateless tracked n s ops = Good (s', snd (run_s stateless tracked n a ops)) /\ inv s' /\
             rel s' (fst (run_s stateless tracked n a ops)).
Proof. exact run_refines. Qed.
Print Assumptions C20_ipf_refines.

Theorem C20_ipf_history_refines : forall stateless tracked n ops,
  exists s', run_m stateless tracked n init_state ops = Good (s', snd (run_s stateless tracked n init_astate ops))
             /\ inv s' /\ rel s' (fst (run_s stateless tracked n init_astate ops)).
Proof. exact ipf_history_refines. Qed.
Print Assumptions C20_ipf_history_refines.

Theorem C20_ipf_no_leak : forall stateless tracked n ops,
  exists s' s'', run_m stateless tracked n init_state ops = Good (s', snd (run_s stateless tracked n init_astate ops))
                 /\ destroy_all n s' = Good s'' /\ live_m tracked n s'' = O /\ calls s'' = calls s'.
Proof. exact ipf_no_leak. Qed.
Print Assumptions C20_ipf_no_leak.

(* ... and not only no TRACKED target (the harness' counter, [live_m tracked] is 0 for an empty [tracked] whatever happens): no
   storage at all -- wrapper, by-value parameter, swap's temporary -- holds an object after the wrappers are destroyed *)
Theorem C20_ipf_nothing_alive_after_destruction : forall stateless tracked n ops,
  exists s' s'', run_m stateless tracked n init_state ops = Good (s', snd (run_s stateless tracked n init_astate ops))
                 /\ destroy_all n s' = Good s'' /\ any_live n s'' = false.
Proof. exact ipf_nothing_alive. Qed.
Print Assumptions C20_ipf_nothing_alive_after_destruction.

Theorem C20_call_exactly_once : forall stateless n s w arg, inv s -> (w < n)%nat ->
  match abs_slot s w with
  | None => step_m stateless n s (OCall w arg) = Good (s, TEmpty)
  | Some (id, c) =>
      exists s', step_m stateless n s (OCall w arg) = Good (s', TCall (call_result id (bump stateless id c) arg))
                 /\ calls s' = (id, arg) :: calls s
                 /\ abs_slot s' w = Some (id, bump stateless id c)
                 /\ (forall i, i <> w -> abs_slot s' i = abs_slot s i)
  end.
Proof. exact call_exactly_once. Qed.
Print Assumptions C20_call_exactly_once.

Theorem C20_copy_duplicates : forall stateless n s w v, inv s -> (w < n)%nat -> (v < n)%nat ->
  exists s', step_m stateless n s (OCopyAssign w v) = Good (s', TAck) /\ inv s' /\
             abs_slot s' w = abs_slot s v /\ abs_slot s' v = abs_slot s v /\
             (forall i, i <> w -> abs_slot s' i = abs_slot s i).
Proof. exact copy_duplicates. Qed.
Print Assumptions C20_copy_duplicates.

Theorem C20_move_transfers : forall stateless n s w v, inv s -> (w < n)%nat -> (v < n)%nat ->
  exists s', step_m stateless n s (OMoveAssign w v) = Good (s', TAck) /\ inv s' /\
             abs_slot s' w = abs_slot s v /\ (w <> v -> abs_slot s' v = None) /\
             (forall i, i <> w -> i <> v -> abs_slot s' i = abs_slot s i).
Proof. exact move_transfers. Qed.
Print Assumptions C20_move_transfers.

(* the converting constructors inplace_function(inplace_function<Sig, Cap, Align> const& / &&) (through the private
   vtable / process / storage constructor), with a PERSISTENT source wrapper of another capacity, as constructor and as the
   by-value parameter of operator=: copy duplicates, move transfers and empties the source *)
Theorem C20_converting_copy_duplicates : forall stateless n s w v, inv s -> (w < n)%nat -> (v < n)%nat -> w <> v ->
  forall o, o = OConvCopyCtorW w v \/ o = OConvCopyAssign w v ->
  exists s', step_m stateless n s o = Good (s', TAck) /\ inv s' /\
             abs_slot s' w = abs_slot s v /\ abs_slot s' v = abs_slot s v /\
             (forall i, i <> w -> abs_slot s' i = abs_slot s i).
Proof. exact conv_copy_duplicates. Qed.
Print Assumptions C20_converting_copy_duplicates.
Theorem C20_converting_move_transfers : forall stateless n s w v, inv s -> (w < n)%nat -> (v < n)%nat -> w <> v ->
  forall o, o = OConvMoveCtorW w v \/ o = OConvMoveAssign w v ->
  exists s', step_m stateless n s o = Good (s', TAck) /\ inv s' /\
             abs_slot s' w = abs_slot s v /\ abs_slot s' v = None /\
             (forall i, i <> w -> i <> v -> abs_slot s' i = abs_slot s i).
Proof. exact conv_move_transfers. Qed.
Print Assumptions C20_converting_move_transfers.

Theorem C20_swap_exchanges : forall stateless n s w v, inv s -> (w < n)%nat -> (v < n)%nat ->
  exists s', step_m stateless n s (OSwap w v) = Good (s', TAck) /\ inv s' /\
             abs_slot s' w = abs_slot s v /\ abs_slot s' v = abs_slot s w /\
             (forall i, i <> w -> i <> v -> abs_slot s' i = abs_slot s i).
Proof. exact swap_exchanges. Qed.
Print Assumptions C20_swap_exchanges.

Theorem C20_reset_empties : forall stateless n s w, inv s -> (w < n)%nat ->
  exists s', step_m stateless n s (OReset w) = Good (s', TAck) /\ inv s' /\ abs_slot s' w = None /\
             (forall i, i <> w -> abs_slot s' i = abs_slot s i).
Proof. exact reset_empties. Qed.
Print Assumptions C20_reset_empties.

(* [func.wrap.func.con]: a null function pointer or null member pointer is not a target (after the fix) *)
Theorem C20_null_function_pointer_is_empty : forall stateless n s w, inv s -> (w < n)%nat ->
  (exists s', step_m stateless n s (OAssignNullFn w) = Good (s', TAck) /\ inv s' /\ abs_slot s' w = None /\
              (forall i, i <> w -> abs_slot s' i = abs_slot s i)) /\
  (exists s', step_m stateless n s (OCtorNullFn w) = Good (s', TAck) /\ inv s' /\ abs_slot s' w = None /\
              (forall i, i <> w -> abs_slot s' i = abs_slot s i)).
Proof. exact null_fn_empties. Qed.
Print Assumptions C20_null_function_pointer_is_empty.

Theorem C20_bool_reports_empty : forall stateless n s w, inv s -> (w < n)%nat ->
  step_m stateless n s (OBool w) = Good (s, TBool (match abs_slot s w with None => false | Some _ => true end)).
Proof. exact bool_reports_empty. Qed.
Print Assumptions C20_bool_reports_empty.

(* the repaired defect (Appendix A row 38): swap without the self check *)
Theorem C20_swap_self_check_needed : forall s w id c,
  vts s w = Some id -> cells s (CW w) = Live id c -> cells s CTmp = Dead ->
  swap_unchecked_m w w s = Bad UseDead.
Proof. exact swap_without_self_check_uses_dead_object. Qed.
Print Assumptions C20_swap_self_check_needed.

(** (iii) value-category tables: model (the header's choices) = standard *)
Theorem C20_tuple_get_table : forall q T : ty, tuple_get_m q T = get_spec q T.
Proof. exact tuple_get_agrees. Qed.
Print Assumptions C20_tuple_get_table.
Theorem C20_pair_get_table : forall q T : ty, pair_get_m q T = get_spec q T.
Proof. exact pair_get_agrees. Qed.
Print Assumptions C20_pair_get_table.
Theorem C20_forward_table : forall T e : ty, forward_m T e = forward_spec T e.
Proof. exact forward_agrees. Qed.
Print Assumptions C20_forward_table.
Theorem C20_forward_like_table : forall T U : ty, forward_like_m T U = forward_like_spec T U.
Proof. exact forward_like_agrees. Qed.
Print Assumptions C20_forward_like_table.
Theorem C20_invoke_pmf_table : forall q r, wf_recv r -> invoke_pmf_m q r = invoke_pmf_spec q r.
Proof. exact invoke_pmf_agrees. Qed.
Print Assumptions C20_invoke_pmf_table.
Theorem C20_invoke_pmd_table : forall r, wf_recv r -> invoke_pmd_m r = invoke_pmd_spec r.
Proof. exact invoke_pmd_agrees. Qed.
Print Assumptions C20_invoke_pmd_table.
(* any number of arguments *)
Theorem C20_invoke_function_object : forall f args, is_cat f -> Forall is_cat args ->
  invoke_fo_m f args = invoke_fo_spec f args.
Proof. exact invoke_fo_agrees. Qed.
Print Assumptions C20_invoke_function_object.
Theorem C20_inplace_function_call_table : forall P a, is_cat a -> ipf_call_m P a = ipf_call_spec P a.
Proof. exact ipf_call_agrees. Qed.
Print Assumptions C20_inplace_function_call_table.
Theorem C20_function_ref_call_table : forall fc P a, is_cat fc -> is_cat a -> fref_call_m fc P a = fref_call_spec fc P a.
Proof. exact fref_call_agrees. Qed.
Print Assumptions C20_function_ref_call_table.
(* which callables a function_ref can be constructed from (after the fix of the constraint): exactly those that can be called
   as an lvalue, as P0792 says -- 6 qualifiers of operator() x 4 argument categories *)
Theorem C20_function_ref_constructible_table : forall q a, fref_ctor_wf_m q a = fref_ctor_wf_spec q a.
Proof. exact fref_ctor_wf_agrees. Qed.
Print Assumptions C20_function_ref_constructible_table.
Theorem C20_reference_wrapper_call_table : forall k a, is_cat a -> refwrap_call_m k a = refwrap_call_spec k a.
Proof. exact refwrap_call_agrees. Qed.
Print Assumptions C20_reference_wrapper_call_table.
Theorem C20_not_fn_call_table : forall w a, is_cat a -> notfn_call_m w a = notfn_call_spec w a.
Proof. exact notfn_call_agrees. Qed.
Print Assumptions C20_not_fn_call_table.
Theorem C20_bind_front_call_table : forall w b a, is_cat a -> bindfront_call_m w b a = bindfront_call_spec w b a.
Proof. exact bindfront_call_agrees. Qed.
Print Assumptions C20_bind_front_call_table.
(* tuples of any arity and any element kinds *)
Theorem C20_apply_categories : forall fc tc kinds, is_cat fc -> is_cat tc ->
  apply_cats_m fc tc kinds = apply_cats_spec fc tc kinds.
Proof. exact apply_cats_agrees. Qed.
Print Assumptions C20_apply_categories.
Theorem C20_make_from_tuple_categories : forall tc kinds, is_cat tc -> mft_cats_m tc kinds = get_all_spec tc kinds.
Proof. exact mft_cats_agrees. Qed.
Print Assumptions C20_make_from_tuple_categories.
Theorem C20_apply_pair_categories : forall tc kinds, is_cat tc -> apply_pair_cats_m tc kinds = get_all_spec tc kinds.
Proof. exact apply_pair_cats_agrees. Qed.
Print Assumptions C20_apply_pair_categories.
(* every destination / source member kind (incl. const and reference source members of the converting overloads) and every
   category of the source pair; which combinations are well-formed at all is the constraint matrix below *)
Theorem C20_pair_assign_table : forall dk sk sc, is_cat sc ->
  pair_assign_m dk sk sc = pair_assign_spec dk sk sc.
Proof. exact pair_assign_agrees. Qed.
Print Assumptions C20_pair_assign_table.
(* tuple_cat: any number of operands, any arities, any element kinds, any operand categories: the fold over
   forward_as_tuple followed by the construction of tuple_cat_result_t copies, moves or re-binds every element exactly as
   [tuple.creation] prescribes (and is ill-formed exactly when one element cannot be initialised) *)
Theorem C20_tuple_cat_transfer : forall ts, Forall (fun o : toperand => is_cat (fst o)) ts ->
  tuple_cat_t_m ts = tuple_cat_t_spec ts.
Proof. exact tuple_cat_t_agrees. Qed.
Print Assumptions C20_tuple_cat_transfer.
(* the result TYPE: the declared element types of all operands in order (references and const kept; a nested tuple
   stays one element) -- the code after the fix of the CTAD-built result *)
Theorem C20_tuple_cat_result_type : forall ts, tuple_cat_result_m ts = tuple_cat_result_spec ts.
Proof. exact tuple_cat_result_agrees. Qed.
Print Assumptions C20_tuple_cat_result_type.
Theorem C20_tuple_cat_result_kind : forall k, cat_result_kind_m k = cat_result_kind_spec k.
Proof. exact cat_result_kind_agrees. Qed.
Print Assumptions C20_tuple_cat_result_kind.
Theorem C20_tuple_cat_nested : forall n, cat_single_nested_arity_m n = cat_single_nested_arity_spec n.
Proof. exact cat_single_nested_agrees. Qed.
Print Assumptions C20_tuple_cat_nested.
(* tuple_element_t<I, tuple<Ts...>> keeps cv-qualifiers and references (after the fix of get_type) *)
Theorem C20_tuple_element_kind : forall k, tuple_element_kind_m k = tuple_element_kind_spec k.
Proof. exact tuple_element_kind_agrees. Qed.
Print Assumptions C20_tuple_element_kind.

(* construction / assignment over element types {int, const int, int&, const int&, int&&, move-only, copy-only} *)
Theorem C20_pair_construct_assign_matrix : forall a b : elem, pair_traits_m a b = pair_traits_spec a b.
Proof. exact pair_traits_agree. Qed.
Print Assumptions C20_pair_construct_assign_matrix.
(* is_swappable_v<pair<T1,T2>> (after the fix that constrains the non-member swap) *)
Theorem C20_pair_swappable : forall a b, a <> ECopyOnly -> b <> ECopyOnly -> pair_swappable_m a b = pair_swappable_spec a b.
Proof. exact pair_swappable_agrees. Qed.
Print Assumptions C20_pair_swappable.
(* is_swappable_v<tuple<Ts...>> (after the fix that added the constrained non-member swap) and what it does to reference elements *)
Theorem C20_tuple_swappable : forall es, ~ In ECopyOnly es -> tuple_swappable_m es = tuple_swappable_spec es.
Proof. exact tuple_swappable_agrees. Qed.
Print Assumptions C20_tuple_swappable.
Theorem C20_tuple_swap_reference_elements : forall a b c d, tuple_swap_refs_m a b c d = tuple_swap_refs_spec a b c d.
Proof. exact tuple_swap_refs_agrees. Qed.
Print Assumptions C20_tuple_swap_reference_elements.
Theorem C20_tuple_construct_matrix : forall es : list elem, tuple_traits_m es = tuple_traits_spec es.
Proof. exact tuple_traits_agree. Qed.
Print Assumptions C20_tuple_construct_matrix.
Theorem C20_reference_wrapper_value : forall a b, refwrap_ops_m a b = refwrap_ops_spec a b.
Proof. exact refwrap_ops_agree. Qed.
Print Assumptions C20_reference_wrapper_value.
Theorem C20_not_fn_static : forall v, notfn_static_m v = notfn_static_spec v.
Proof. exact notfn_static_agree. Qed.
Print Assumptions C20_not_fn_static.

(* copying / moving bind_front and not_fn wrappers (value script of op wrapcopy; the content is the harness comparison) *)
Theorem C20_wrapper_copies_hold_equivalent_targets : forall x y, wrapcopy_m x y = wrapcopy_spec x y.
Proof. exact wrapcopy_agrees. Qed.
Print Assumptions C20_wrapper_copies_hold_equivalent_targets.

Theorem C20_member_pointer_targets : forall x, memptr_target_m x = memptr_target_spec x.
Proof. exact memptr_target_agrees. Qed.
Print Assumptions C20_member_pointer_targets.

Theorem C20_make_pair_member_types : forall w, make_pair_member_m w = make_pair_member_spec w.
Proof. exact make_pair_member_agree. Qed.
Print Assumptions C20_make_pair_member_types.

(* known findings KF-C20-tuple-structured-binding / KF-C20-get-by-type: missing pieces of the tuple protocol *)
Theorem C20_tuple_structured_binding_refuted : tuple_structured_binding_m <> tuple_structured_binding_spec.
Proof. exact tuple_structured_binding_refuted. Qed.
Print Assumptions C20_tuple_structured_binding_refuted.
(* known finding KF-C20-tuple-converting-construction: no construction from tuple<UTypes...> / pair<U1, U2> *)
Theorem C20_tuple_converting_ctor_refuted : tuple_converting_ctor_m <> tuple_converting_ctor_spec.
Proof. exact tuple_converting_ctor_refuted. Qed.
Print Assumptions C20_tuple_converting_ctor_refuted.
Theorem C20_get_by_type_refuted : exists p, get_by_type_m p <> get_by_type_spec p.
Proof. exact get_by_type_refuted. Qed.
Print Assumptions C20_get_by_type_refuted.

(* non-vacuity: the hypotheses are satisfiable and the objects are not degenerate *)
Example C20_nonvacuous :
  (forall a b, Z.ltb a b = true -> Z.ltb b a = false)
  /\ (pair_lt_m Z.ltb (1, 5) (1, 7) = true /\ pair_le_m Z.ltb (1, 7) (1, 7) = true /\ pair_ge_m Z.ltb (1, 5) (1, 7) = false
      /\ tuple_eq_m Z.eqb 0 [1; 2; 3] [1; 2; 4] = false /\ tuple_eq_m Z.eqb 0 [] [] = true
      /\ tuple_cat_m 0 [[1; 2]; []; [3]] = [1; 2; 3]).
Proof. split; [exact Zltb_asym|]. vm_compute. repeat split; reflexivity. Qed.

Example C20_nonvacuous_ipf :
  inv init_state /\ rel init_state init_astate
  /\ (exists s' obs, run_m [] [] 2 init_state [OAssignTarget 0 7; OCopyAssign 1 0; OCall 1 5; OSwap 0 0; OMoveAssign 0 1; OCall 1 6; OCall 0 9]
                       = Good (s', obs)
                     /\ map (fun o => fst (fst o)) obs = [TAck; TAck; TCall 7001005; TAck; TAck; TEmpty; TCall 7002009])
  /\ (exists s' obs, run_m [] [] 2 init_state [OAssignTarget 1 7; OConvCopyCtorW 0 1; OCall 1 5; OCall 0 5; OConvMoveAssign 0 1; OCall 1 6; OCall 0 9;
                                                OConvMoveCtorW 0 0]
                       = Good (s', obs)
                     /\ map (fun o => fst (fst o)) obs = [TAck; TAck; TCall 7001005; TCall 7001005; TAck; TEmpty; TCall 7002009; TSkip]).
Proof.
  split; [exact init_inv|]. split; [exact init_rel|]. split; eexists; eexists; split; vm_compute; reflexivity.
Qed.

Example C20_nonvacuous_cat :
  is_cat LV /\ wf_recv (RcvObj RV)
  /\ (tuple_get_m RV (mkty false RL) = Some LV /\ tuple_get_m CLV (mkty false RL) = Some LV
      /\ tuple_cat_t_m [(LV, [(mkty false RNone, 1)]); (RV, [(mkty false RNone, 2); (mkty false RL, 3)])]
         = Some [(1, Constructed false); (2, Constructed true); (3, Aliased)]
      /\ tuple_cat_t_m [(LV, [(mkty false RR, 1)])] = None
      /\ pair_assign_m (mkty false RNone) (mkty false RNone) RV = Some true
      /\ pair_assign_m (mkty false RNone) (mkty true RNone) RV = Some false
      /\ pair_assign_m (mkty false RNone) (mkty false RNone) CRV = Some false).
Proof.
  split; [reflexivity|]. split; [reflexivity|].
  vm_compute. repeat split; reflexivity.
Qed.
