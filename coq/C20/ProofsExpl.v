(* C20 — proofs, part (vi): the explicit-specifiers of pair.hpp / tuple.hpp say what [pairs.pair] / [tuple.cnstr] say *)
From Coq Require Import List Bool Arith.
From Tetl Require Import C20.ModelExpl C20.SpecExpl.
Import ListNotations.

Lemma absent_constructible : forall es, existsb absent es = negb (forallb constructible es).
Proof.
  induction es as [|c es IH]; [reflexivity|].
  cbn [existsb forallb]. rewrite IH. destruct c; cbn; destruct (forallb constructible es); reflexivity.
Qed.

(* with every element constructible, "some element explicit-only" = "not every element implicitly convertible" *)
Lemma explicit_convertible : forall es, forallb constructible es = true ->
  existsb explicit_only es = negb (forallb convertible es).
Proof.
  induction es as [|c es IH]; [reflexivity|].
  cbn [existsb forallb]. intro H. apply andb_true_iff in H. destruct H as [Hc Hes].
  rewrite (IH Hes). destruct c; cbn in *; try discriminate; destruct (forallb convertible es); reflexivity.
Qed.

Lemma fold_ctor_spec : forall es, xctor (forallb constructible es) (negb (forallb convertible es)) = ctor_spec es.
Proof.
  intro es. unfold ctor_spec, xctor. rewrite absent_constructible.
  destruct (forallb constructible es) eqn:E; cbn [negb]; [|reflexivity].
  rewrite (explicit_convertible es E). reflexivity.
Qed.

Lemma pair_formula : forall a b,
  xctor (constructible a && constructible b) (negb (convertible a) || negb (convertible b)) = ctor_spec [a; b].
Proof. intros a b. destruct a, b; reflexivity. Qed.

Lemma pair_default_spec : forall a b, pair_default_ctor_m a b = ctor_spec [a; b].
Proof. exact pair_formula. Qed.
Lemma pair_cref_spec : forall a b, pair_cref_ctor_m a b = ctor_spec [a; b].
Proof. exact pair_formula. Qed.
Lemma pair_fwd_spec : forall a b, pair_fwd_ctor_m a b = ctor_spec [a; b].
Proof. exact pair_formula. Qed.
Lemma pair_conv_copy_spec : forall a b, pair_conv_copy_ctor_m a b = ctor_spec [a; b].
Proof. exact pair_formula. Qed.
Lemma pair_conv_move_spec : forall a b, pair_conv_move_ctor_m a b = ctor_spec [a; b].
Proof. exact pair_formula. Qed.

Lemma tuple_default_spec : forall es, tuple_default_ctor_m es = ctor_spec es.
Proof. intro es. destruct es as [|c es]; [reflexivity|]. unfold tuple_default_ctor_m. apply fold_ctor_spec. Qed.
Lemma tuple_cref_spec : forall es, es <> [] -> tuple_cref_ctor_m es = ctor_spec es.
Proof.
  intros es H. unfold tuple_cref_ctor_m. destruct es as [|c es]; [contradiction|].
  cbn [xnonempty]. rewrite andb_true_r. apply fold_ctor_spec.
Qed.
Lemma tuple_fwd_spec : forall es, es <> [] -> tuple_fwd_ctor_m es = ctor_spec es.
Proof. exact tuple_cref_spec. Qed.

Lemma xsite_refines : forall s es, xsite_m s es = xsite_s s es.
Proof.
  intros s es. unfold xsite_s.
  destruct s as [ | | | |c r| | | | ]; cbn [xsite_m xarity_ok query_spec].
  1-4: destruct es as [|a [|b [|x es]]]; cbn [length Nat.eqb map]; try reflexivity; rewrite <- pair_formula; reflexivity.
  - unfold conv_uses_move. destruct c, r; cbn [andb negb];
      (destruct es as [|a [|b [|x es]]]; cbn [length Nat.eqb map]; try reflexivity; rewrite <- !pair_formula; reflexivity).
  - rewrite tuple_default_spec. reflexivity.
  - destruct es as [|a es]; [reflexivity|]. cbn [length Nat.eqb negb]. rewrite tuple_cref_spec; [reflexivity|discriminate].
  - destruct es as [|a es]; [reflexivity|]. cbn [length Nat.eqb negb]. rewrite tuple_fwd_spec; [reflexivity|discriminate].
  - destruct es as [|a es]; [reflexivity|]. cbn [length Nat.eqb negb]. rewrite tuple_fwd_spec; [reflexivity|discriminate].
Qed.

Lemma case_refines : forall site es, expl_case_m site es = expl_case_s site es.
Proof. intros site es. unfold expl_case_m, expl_case_s. destruct (xsite_of_code site); [rewrite xsite_refines|]; reflexivity. Qed.

(* clauses of the specification *)
Lemma implicit_iff_all : forall es, ctor_spec es = VImplicit <-> Forall (fun c => c = CImpl) es.
Proof.
  induction es as [|c es IH].
  - split; [constructor|reflexivity].
  - split.
    + intro H. unfold ctor_spec in *. cbn [existsb] in H.
      destruct c; cbn in H; try discriminate;
        [destruct (existsb absent es); discriminate|].
      constructor; [reflexivity|]. apply IH. exact H.
    + intro H. inversion H as [|c' es' Hc Hes]; subst. apply IH in Hes.
      unfold ctor_spec in *. cbn [existsb absent explicit_only orb]. exact Hes.
Qed.

Lemma exists_iff_not_none : forall es, ctor_spec es <> VNone <-> Forall (fun c => c <> CNone) es.
Proof.
  intro es. unfold ctor_spec. rewrite absent_constructible.
  split.
  - intro H. apply Forall_forall. intros c Hin.
    destruct (forallb constructible es) eqn:E; [|exfalso; apply H; reflexivity].
    rewrite forallb_forall in E. specialize (E c Hin). destruct c; [discriminate|discriminate|discriminate].
  - intro H. assert (E : forallb constructible es = true).
    { apply forallb_forall. intros c Hin. rewrite Forall_forall in H. specialize (H c Hin). destruct c; [contradiction|reflexivity|reflexivity]. }
    rewrite E. cbn [negb]. destruct (existsb explicit_only es); discriminate.
Qed.

(* one explicit-only element conversion, at any position, makes the constructor explicit *)
Lemma one_explicit_suffices : forall l r, Forall (fun c => c <> CNone) (l ++ r) -> ctor_spec (l ++ CExpl :: r) = VExplicit.
Proof.
  intros l r H. unfold ctor_spec.
  assert (A : existsb absent (l ++ CExpl :: r) = false).
  { rewrite existsb_app. cbn [existsb absent orb]. rewrite <- existsb_app.
    rewrite absent_constructible. apply negb_false_iff. apply forallb_forall. intros c Hin.
    rewrite Forall_forall in H. specialize (H c Hin). destruct c; [contradiction|reflexivity|reflexivity]. }
  rewrite A. rewrite existsb_app. cbn [existsb explicit_only]. rewrite orb_true_r. reflexivity.
Qed.

(* direct-initialisation does not look at the explicit-specifier *)
Lemma direct_ignores_explicit : forall es, fst (xfacts (ctor_spec es)) = forallb constructible es.
Proof.
  intro es. unfold ctor_spec. rewrite absent_constructible.
  destruct (forallb constructible es); cbn [negb]; [destruct (existsb explicit_only es)|]; reflexivity.
Qed.
Lemma implicit_fact : forall es, snd (xfacts (ctor_spec es)) = forallb convertible es.
Proof.
  induction es as [|c es IH]; [reflexivity|].
  unfold ctor_spec in *. cbn [existsb forallb].
  destruct c; cbn [absent explicit_only convertible orb andb].
  - reflexivity.
  - destruct (existsb absent es); reflexivity.
  - exact IH.
Qed.

(* the position of the elements does not matter *)
Lemma ctor_spec_rev : forall es, ctor_spec (rev es) = ctor_spec es.
Proof.
  intro es. unfold ctor_spec.
  assert (R : forall f, existsb f (rev es) = existsb f es).
  { intro f. induction es as [|c es IH]; [reflexivity|]. cbn [rev]. rewrite existsb_app. cbn [existsb]. rewrite IH.
    rewrite orb_false_r. apply orb_comm. }
  rewrite !R. reflexivity.
Qed.

(* the test with `and`: wrong exactly when ONE of the two element conversions is explicit-only and the other implicit *)
Lemma conjunction_differs_iff : forall a b,
  pair_ctor_conjunction_m a b <> ctor_spec [a; b] <-> (a = CExpl /\ b = CImpl) \/ (a = CImpl /\ b = CExpl).
Proof.
  intros a b. split.
  - intro H. destruct a, b; try (exfalso; apply H; reflexivity); [left|right]; split; reflexivity.
  - intros [[Ha Hb]|[Ha Hb]]; subst; discriminate.
Qed.
