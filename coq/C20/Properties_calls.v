(* C20 — property theorems, continued: the call wrappers deliver the target, ANY number of bound arguments and ANY
   number of call arguments exactly once each, in order, with the value categories the standard prescribes. *)
From Tetl Require Import Lib.Base C20.Model C20.Spec C20.ProofsCat C20.ProofsCalls.
Local Open Scope Z_scope.

Theorem C20_not_fn_call_any_arity : forall w args, Forall is_cat args ->
  notfn_call_all_m w args = wrapper_call_all_spec w 0 args.
Proof. exact notfn_call_all_agrees. Qed.
Print Assumptions C20_not_fn_call_any_arity.
Theorem C20_bind_front_call_any_arity : forall w nbound args, Forall is_cat args ->
  bindfront_call_all_m w nbound args = wrapper_call_all_spec w nbound args.
Proof. exact bindfront_call_all_agrees. Qed.
Print Assumptions C20_bind_front_call_any_arity.
Theorem C20_reference_wrapper_call_any_arity : forall k args, Forall is_cat args ->
  refwrap_call_all_m k args = refwrap_call_all_spec k args.
Proof. exact refwrap_call_all_agrees. Qed.
Print Assumptions C20_reference_wrapper_call_any_arity.
Theorem C20_inplace_function_call_any_arity : forall Ps args, Forall is_cat args ->
  ipf_call_all_m Ps args = ipf_call_all_spec Ps args.
Proof. exact ipf_call_all_agrees. Qed.
Print Assumptions C20_inplace_function_call_any_arity.
Theorem C20_function_ref_call_any_arity : forall fc Ps args, is_cat fc -> Forall is_cat args ->
  fref_call_all_m fc Ps args = fref_call_all_spec fc Ps args.
Proof. exact fref_call_all_agrees. Qed.
Print Assumptions C20_function_ref_call_any_arity.

(* results come back unchanged: for every declared result type of the callable (A, const A, A&, const A&, A&&, const A&&) the
   call expression of invoke (function objects and member pointers), apply, reference_wrapper and bind_front has exactly that
   type and category; inplace_function<R(Args...)> and function_ref<R(Args...)> return R and exist exactly when the result
   converts to R *)
Theorem C20_results_returned_unchanged : forall r,
  invoke_ret_m r = transparent_ret_spec r /\ invoke_memptr_ret_m r = transparent_ret_spec r /\
  apply_ret_m r = transparent_ret_spec r /\ refwrap_ret_m r = transparent_ret_spec r /\
  bindfront_ret_m r = transparent_ret_spec r.
Proof.
  exact (fun r => conj (invoke_ret_agrees r) (conj (invoke_memptr_ret_agrees r) (conj (apply_ret_agrees r)
                    (conj (refwrap_ret_agrees r) (bindfront_ret_agrees r))))).
Qed.
Print Assumptions C20_results_returned_unchanged.
Theorem C20_signature_wrappers_return : forall R r,
  ipf_ret_m R r = sig_ret_spec R r /\ fref_ret_m R r = sig_ret_spec R r.
Proof. exact (fun R r => conj (ipf_ret_agrees R r) (fref_ret_agrees R r)). Qed.
Print Assumptions C20_signature_wrappers_return.

(* reference_wrapper<T>(x), ref(x), cref(x) accept exactly the lvalues (of matching constness): a temporary is never wrapped *)
Theorem C20_reference_wrapper_wraps_lvalues_only : forall a, is_cat a ->
  (forall k, refwrap_ctor_wf_m k a = refwrap_ctor_wf_spec k a) /\ ref_wf_m a = ref_wf_spec a /\ cref_wf_m a = cref_wf_spec a.
Proof. exact refwrap_wf_agrees. Qed.
Print Assumptions C20_reference_wrapper_wraps_lvalues_only.

(* value script of op refwrapstd (wrappers around / over std types; the content is that the harness compiles: qualified
   etl::invoke / etl::exchange) *)
Theorem C20_wrappers_over_std_types_values : forall x, refwrap_std_m x = refwrap_std_spec x.
Proof. exact refwrap_std_agrees. Qed.
Print Assumptions C20_wrappers_over_std_types_values.

(* function_ref over function pointers and its assignment set (value / well-formedness script of op frefptr; model and spec
   are the same transcription of [func.wrap.ref]: the content is the comparison with the compiled header) *)
Theorem C20_function_ref_pointers_and_assignment : forall v, fref_ptr_m v = fref_ptr_spec v.
Proof. exact fref_ptr_agrees. Qed.
Print Assumptions C20_function_ref_pointers_and_assignment.

(* how often a tracked element is copied / moved on its way through bind_front (bound argument and callable),
   inplace_function, make_tuple, make_from_tuple and apply: computed from the model functions of the previous theorems
   (tuple_ctor_m, bindfront_call_all_m, apply_cats_m, init_elem) for eleven concrete expressions = the standard's counts *)
Theorem C20_copy_move_counts : xfer_m = xfer_spec.
Proof. exact xfer_agrees. Qed.
Print Assumptions C20_copy_move_counts.

Example C20_nonvacuous_calls :
  Forall is_cat [LV; CRV]
  /\ bindfront_call_all_m RV 2 [LV; CRV] = Some (RV, [RV; RV; LV; CRV])
  /\ ipf_call_all_m [mkty false RNone; mkty true RL] [LV; RV] = Some (LV, [RV; CLV])
  /\ ipf_call_all_m [mkty false RL] [RV] = None
  /\ ipf_call_all_m [mkty false RL] [] = None.
Proof. split; [repeat constructor|]. vm_compute. repeat split; reflexivity. Qed.
