(* C20 — property theorems, continued: element transfer on construction (pair / tuple constructors, make_pair,
   make_tuple, forward_as_tuple) and the overload-level model of etl::forward.
   Each theorem is closed by [exact] of a lemma of ProofsCtor.v, followed by Print Assumptions. *)
From Tetl Require Import Lib.Base C20.Model C20.Spec C20.ProofsCat C20.ProofsCtor.
Local Open Scope Z_scope.

(* pair<T1,T2>(x, y): for every member kind (T, const T, T&, const T&, T&&, const T&&) and every argument category the
   member is copy-constructed, move-constructed, bound as a reference or the constructor does not participate exactly as
   [pairs.pair] says (first initialised with std::forward<U1>(x)) *)
Theorem C20_pair_ctor_transfer : forall K a, is_cat a -> pair_ctor_m K a = init_spec K a.
Proof. exact pair_ctor_agrees. Qed.
Print Assumptions C20_pair_ctor_transfer.
(* the result does not depend on which of pair(T1 const&, T2 const&) / pair(U1&&, U2&&) overload resolution picks,
   wherever it has a choice (lvalue arguments); the forwarding template alone realises the specification *)
Theorem C20_pair_ctor_overloads_agree :
  (forall K a, is_cat a -> pair_ctor_fwd_m K a = init_spec K a) /\
  (forall K a r, is_cat a -> is_lref a = true -> pair_ctor_cref_m K a = Some r -> pair_ctor_fwd_m K a = Some r).
Proof. exact (conj pair_ctor_fwd_agrees pair_ctor_paths_agree). Qed.
Print Assumptions C20_pair_ctor_overloads_agree.
(* pair<T1,T2>(pair<U1,U2> const&) / (pair<U1,U2>&&): all destination kinds x source kinds x source categories *)
Theorem C20_pair_converting_ctor_transfer : forall dk sk sc, is_cat sc ->
  pair_conv_ctor_m dk sk sc = pair_conv_spec dk sk sc.
Proof. exact pair_conv_ctor_agrees. Qed.
Print Assumptions C20_pair_converting_ctor_transfer.
(* tuple<Ts...>(args...): any arity, any element kinds, any argument categories, through the three forwarding layers
   tuple -> tuple_impl -> tuple_leaf *)
Theorem C20_tuple_ctor_transfer : forall Ks args, Forall is_cat args ->
  tuple_ctor_all_m Ks args = tuple_ctor_all_spec Ks args.
Proof. exact tuple_ctor_all_agrees. Qed.
Print Assumptions C20_tuple_ctor_transfer.
Theorem C20_tuple_ctor_overloads_agree :
  (forall K a, is_cat a -> tuple_ctor_fwd_m K a = init_spec K a) /\
  (forall K a r, is_cat a -> is_lref a = true -> tuple_ctor_cref_m K a = Some r -> tuple_ctor_fwd_m K a = Some r).
Proof. exact (conj tuple_ctor_fwd_agrees tuple_ctor_paths_agree). Qed.
Print Assumptions C20_tuple_ctor_overloads_agree.
Theorem C20_tuple_ctor_one_result_per_element : forall Ks args rs, tuple_ctor_all_spec Ks args = Some rs ->
  length rs = length Ks /\ length rs = length args.
Proof. exact tuple_ctor_all_length. Qed.
Print Assumptions C20_tuple_ctor_one_result_per_element.
Theorem C20_make_pair_transfer : forall a, is_cat a -> make_pair_transfer_m a = make_value_spec a.
Proof. exact make_pair_transfer_agrees. Qed.
Print Assumptions C20_make_pair_transfer.
Theorem C20_make_tuple_transfer : forall a, is_cat a -> make_tuple_transfer_m a = make_value_spec a.
Proof. exact make_tuple_transfer_agrees. Qed.
Print Assumptions C20_make_tuple_transfer.
Theorem C20_forward_as_tuple_aliases : forall a, is_cat a -> forward_as_tuple_m a = forward_as_tuple_spec a.
Proof. exact forward_as_tuple_agrees. Qed.
Print Assumptions C20_forward_as_tuple_aliases.

(* construction of the call wrappers: bind_front(f, args...) for ANY number of bound arguments and not_fn(f) copy the callable
   and every bound argument from an lvalue / const argument and move them from a non-const rvalue, once each *)
Theorem C20_wrapper_construction_transfer : forall fc bound, is_cat fc -> Forall is_cat bound ->
  bindfront_ctor_m fc bound = wrapper_ctor_spec fc bound /\ notfn_ctor_m fc = init_spec (mkty false RNone) fc.
Proof. exact (fun fc bound Hf Hb => conj (bindfront_ctor_agrees fc bound Hf Hb) (notfn_ctor_agrees fc Hf)). Qed.
Print Assumptions C20_wrapper_construction_transfer.

(* etl::forward overload by overload (parameter binding, static_assert, static_cast<T&&>, declared return type) computes
   the rule [forward_e] that every other model function uses for etl::forward<T>(x) *)
Theorem C20_forward_overloads : forall T e, is_cat e -> forward_m T e = forward_e T e.
Proof. exact forward_overloads_eq. Qed.
Print Assumptions C20_forward_overloads.

Example C20_nonvacuous_ctor :
  is_cat RV /\ Forall is_cat [LV; RV; CRV]
  /\ tuple_ctor_all_m [mkty false RNone; mkty false RNone; mkty true RL] [LV; RV; CRV]
     = Some [Constructed false; Constructed true; Aliased]
  /\ pair_ctor_m (mkty false RL) RV = None
  /\ pair_conv_ctor_m (mkty false RL) (mkty false RR) RV = Some Aliased
  /\ pair_ctor_cref_m (mkty false RNone) RV = Some (Constructed false).
Proof.
  split; [reflexivity|]. split; [repeat constructor|]. vm_compute. repeat split; reflexivity.
Qed.
