(* C20 proofs, part (ii): the inplace_function state machine (vtable pointer + storage cell per wrapper, every
   member function a sequence of vtable thunk calls on a memory with aliasing) refines the abstract owning call
   wrapper of Spec.v, for ALL histories, any number of wrappers and any target ids: it never touches a dead
   object, never constructs over a live one, never leaks, and its observations equal the specification's. *)
From Tetl Require Import Lib.Base C20.Model C20.Spec.
Local Open Scope Z_scope.

(** invariant and abstraction *)
Definition winv (s : state) (w : wref) : Prop :=
  match vts s w, cells s (CW w) with
  | None, Dead => True
  | Some id, Live i _ => i = id
  | _, _ => False
  end.
Definition inv (s : state) : Prop :=
  (forall i, winv s (WI i)) /\ vts s WParam = None /\ cells s (CW WParam) = Dead /\ cells s CTmp = Dead.

Definition abs_slot (s : state) (i : nat) : aslot :=
  match vts s (WI i), cells s (CW (WI i)) with
  | Some _, Live id c => Some (id, c)
  | _, _ => None
  end.
Definition rel (s : state) (a : astate) : Prop := (forall i, abs_slot s i = slots a i) /\ calls s = acalls a.

Lemma winv_cases : forall s w, winv s w ->
  (vts s w = None /\ cells s (CW w) = Dead) \/ (exists id c, vts s w = Some id /\ cells s (CW w) = Live id c).
Proof.
  intros s w H. unfold winv in H. destruct (vts s w) as [id|]; destruct (cells s (CW w)) as [|i c]; try contradiction.
  - right. exists id, c. subst. split; reflexivity.
  - left. split; reflexivity.
Qed.

Lemma abs_of_empty : forall s i, vts s (WI i) = None -> abs_slot s i = None.
Proof. intros s i H. unfold abs_slot. rewrite H. reflexivity. Qed.
Lemma abs_of_live : forall s i id c, vts s (WI i) = Some id -> cells s (CW (WI i)) = Live id c -> abs_slot s i = Some (id, c).
Proof. intros s i id c H1 H2. unfold abs_slot. rewrite H1, H2. reflexivity. Qed.

Ltac red_state :=
  cbn [cells vts calls set_cell set_vt wref_eqb cref_eqb obind' fst snd negb andb orb
       slots acalls aset].

(* evaluate the model on a state whose relevant components are known *)
Ltac ev_with tac := repeat progress (red_state; tac; rewrite ?Nat.eqb_refl, ?Z.eqb_refl).

(* facts about one wrapper i in the final state, by cases on i against the wrappers touched *)
Ltac split_idx i w :=
  destruct (Nat.eqb_spec i w) as [->|?].


Definition step_ok (stateless : list Z) (n : nat) (s : state) (a : astate) (o : op) : Prop :=
  exists s', step_m stateless n s o = Good (s', snd (step_s stateless n a o)) /\ inv s' /\
             rel s' (fst (step_s stateless n a o)).

(* after the model has been evaluated to a concrete update of s: the invariant and the abstraction, pointwise *)
Ltac pointwise Hi Ha w v facts :=
  intros i; unfold winv, abs_slot; red_state;
  destruct (Nat.eqb_spec i v) as [Hiv|Hiv]; destruct (Nat.eqb_spec i w) as [Hiw|Hiw];
  try (exfalso; congruence); try subst i; rewrite <- ?Ha; unfold abs_slot; facts;
  try reflexivity; try exact I; try (specialize (Hi i); unfold winv in Hi; exact Hi).

Ltac close Hi Ha Hc Hpv Hpc Ht w v facts :=
  eexists; split; [reflexivity|];
  split; [ split; [pointwise Hi Ha w v facts | red_state; facts; repeat split; first [assumption | reflexivity]]
         | split; [pointwise Hi Ha w v facts | red_state; rewrite ?Hc; reflexivity] ].

Ltac unfold_ops :=
  unfold step_ok, step_m, step_s; unfold assign_body, assign_null, swap_m; unfold swap_body;
  unfold closure_ctor, null_ctor, null_target_ctor, copy_ctor, move_ctor, conv_copy_ctor, conv_move_ctor, private_ctor,
         dtor, call_m, bool_m, end_of_storage;
  unfold copy_thunk, relocate_thunk, destroy_thunk, invoke_thunk.

Lemma step_swap_ok : forall stateless n s a w v, inv s -> rel s a -> in_range n (OSwap w v) = true ->
  step_ok stateless n s a (OSwap w v).
Proof.
  intros stateless n s a w v [Hi [Hpv [Hpc Ht]]] [Ha Hc] Hr.
  unfold_ops. rewrite Hr. cbn [negb wref_eqb].
  destruct (Nat.eqb_spec w v) as [Heq|Hwv].
  - subst v. exists s. red_state. split; [reflexivity|]. split; [repeat split; assumption|]. split; [|exact Hc].
    intros i. red_state. destruct (Nat.eqb_spec i w) as [->|?]; apply Ha.
  - assert (Hwv' : Nat.eqb w v = false) by (apply Nat.eqb_neq; exact Hwv).
    assert (Hvw' : Nat.eqb v w = false) by (apply Nat.eqb_neq; congruence).
    destruct (winv_cases s (WI w) (Hi w)) as [[Hv1 Hc1]|[id1 [c1 [Hv1 Hc1]]]];
    destruct (winv_cases s (WI v) (Hi v)) as [[Hv2 Hc2]|[id2 [c2 [Hv2 Hc2]]]];
    ev_with ltac:(rewrite ?Hv1, ?Hc1, ?Hv2, ?Hc2, ?Ht, ?Hpv, ?Hpc, ?Hwv', ?Hvw');
    close Hi Ha Hc Hpv Hpc Ht w v ltac:(rewrite ?Hv1, ?Hc1, ?Hv2, ?Hc2, ?Ht, ?Hpv, ?Hpc, ?Hwv', ?Hvw', ?Nat.eqb_refl).
Qed.

(* operations on one wrapper *)
Ltac one_wrapper Hi Ha Hc Hpv Hpc Ht w :=
  let Hv1 := fresh "Hv1" in let Hc1 := fresh "Hc1" in let id1 := fresh "id" in let c1 := fresh "c" in
  destruct (winv_cases _ (WI w) (Hi w)) as [[Hv1 Hc1]|[id1 [c1 [Hv1 Hc1]]]];
  rewrite <- ?(Ha w); unfold abs_slot;
  ev_with ltac:(rewrite ?Hv1, ?Hc1, ?Ht, ?Hpv, ?Hpc);
  close Hi Ha Hc Hpv Hpc Ht w w ltac:(rewrite ?Hv1, ?Hc1, ?Ht, ?Hpv, ?Hpc, ?Nat.eqb_refl).

Lemma step_assign_target_ok : forall stateless n s a w t, inv s -> rel s a -> in_range n (OAssignTarget w t) = true ->
  step_ok stateless n s a (OAssignTarget w t).
Proof.
  intros stateless n s a w t [Hi [Hpv [Hpc Ht]]] [Ha Hc] Hr. unfold_ops. rewrite Hr. cbn [negb].
  one_wrapper Hi Ha Hc Hpv Hpc Ht w.
Qed.

Lemma step_reset_ok : forall stateless n s a w, inv s -> rel s a -> in_range n (OReset w) = true ->
  step_ok stateless n s a (OReset w).
Proof.
  intros stateless n s a w [Hi [Hpv [Hpc Ht]]] [Ha Hc] Hr. unfold_ops. rewrite Hr. cbn [negb].
  one_wrapper Hi Ha Hc Hpv Hpc Ht w.
Qed.

Lemma step_call_ok : forall stateless n s a w arg, inv s -> rel s a -> in_range n (OCall w arg) = true ->
  step_ok stateless n s a (OCall w arg).
Proof.
  intros stateless n s a w arg [Hi [Hpv [Hpc Ht]]] [Ha Hc] Hr. unfold_ops. rewrite Hr. cbn [negb].
  one_wrapper Hi Ha Hc Hpv Hpc Ht w.
Qed.

Lemma step_bool_ok : forall stateless n s a w, inv s -> rel s a -> in_range n (OBool w) = true ->
  step_ok stateless n s a (OBool w).
Proof.
  intros stateless n s a w [Hi [Hpv [Hpc Ht]]] [Ha Hc] Hr. unfold_ops. rewrite Hr. cbn [negb].
  one_wrapper Hi Ha Hc Hpv Hpc Ht w.
Qed.

Lemma step_conv_copy_ok : forall stateless n s a w t, inv s -> rel s a -> in_range n (OConvCopy w t) = true ->
  step_ok stateless n s a (OConvCopy w t).
Proof.
  intros stateless n s a w t [Hi [Hpv [Hpc Ht]]] [Ha Hc] Hr. unfold_ops. rewrite Hr. cbn [negb].
  one_wrapper Hi Ha Hc Hpv Hpc Ht w.
Qed.

Lemma step_conv_move_ok : forall stateless n s a w t, inv s -> rel s a -> in_range n (OConvMove w t) = true ->
  step_ok stateless n s a (OConvMove w t).
Proof.
  intros stateless n s a w t [Hi [Hpv [Hpc Ht]]] [Ha Hc] Hr. unfold_ops. rewrite Hr. cbn [negb].
  one_wrapper Hi Ha Hc Hpv Hpc Ht w.
Qed.

Lemma step_ctor_target_ok : forall stateless n s a w t, inv s -> rel s a -> in_range n (OCtorTarget w t) = true ->
  step_ok stateless n s a (OCtorTarget w t).
Proof.
  intros stateless n s a w t [Hi [Hpv [Hpc Ht]]] [Ha Hc] Hr. unfold_ops. rewrite Hr. cbn [negb].
  one_wrapper Hi Ha Hc Hpv Hpc Ht w.
Qed.

Lemma step_ctor_null_ok : forall stateless n s a w, inv s -> rel s a -> in_range n (OCtorNull w) = true ->
  step_ok stateless n s a (OCtorNull w).
Proof.
  intros stateless n s a w [Hi [Hpv [Hpc Ht]]] [Ha Hc] Hr. unfold_ops. rewrite Hr. cbn [negb].
  one_wrapper Hi Ha Hc Hpv Hpc Ht w.
Qed.

(* operations on two wrappers: the aliased case (w = v) and the four combinations of empty / holding *)
Ltac two_wrappers Hi Ha Hc Hpv Hpc Ht w v :=
  let Hwv := fresh "Hwv" in let Hwv' := fresh "Hwv'" in let Hvw' := fresh "Hvw'" in
  destruct (Nat.eqb_spec w v) as [Hwv|Hwv];
  [ subst v; one_wrapper Hi Ha Hc Hpv Hpc Ht w
  | assert (Hwv' : Nat.eqb w v = false) by (apply Nat.eqb_neq; exact Hwv);
    assert (Hvw' : Nat.eqb v w = false) by (apply Nat.eqb_neq; congruence);
    let Hv1 := fresh "Hv1" in let Hc1 := fresh "Hc1" in let id1 := fresh "id" in let c1 := fresh "c" in
    let Hv2 := fresh "Hv2" in let Hc2 := fresh "Hc2" in let id2 := fresh "id" in let c2 := fresh "c" in
    destruct (winv_cases _ (WI w) (Hi w)) as [[Hv1 Hc1]|[id1 [c1 [Hv1 Hc1]]]];
    destruct (winv_cases _ (WI v) (Hi v)) as [[Hv2 Hc2]|[id2 [c2 [Hv2 Hc2]]]];
    rewrite <- ?(Ha w), <- ?(Ha v); unfold abs_slot;
    ev_with ltac:(rewrite ?Hv1, ?Hc1, ?Hv2, ?Hc2, ?Ht, ?Hpv, ?Hpc, ?Hwv', ?Hvw');
    close Hi Ha Hc Hpv Hpc Ht w v ltac:(rewrite ?Hv1, ?Hc1, ?Hv2, ?Hc2, ?Ht, ?Hpv, ?Hpc, ?Hwv', ?Hvw', ?Nat.eqb_refl) ].

Lemma step_copy_assign_ok : forall stateless n s a w v, inv s -> rel s a -> in_range n (OCopyAssign w v) = true ->
  step_ok stateless n s a (OCopyAssign w v).
Proof.
  intros stateless n s a w v [Hi [Hpv [Hpc Ht]]] [Ha Hc] Hr. unfold_ops. rewrite Hr. cbn [negb].
  two_wrappers Hi Ha Hc Hpv Hpc Ht w v.
Qed.

Lemma step_move_assign_ok : forall stateless n s a w v, inv s -> rel s a -> in_range n (OMoveAssign w v) = true ->
  step_ok stateless n s a (OMoveAssign w v).
Proof.
  intros stateless n s a w v [Hi [Hpv [Hpc Ht]]] [Ha Hc] Hr. unfold_ops. rewrite Hr. cbn [negb].
  two_wrappers Hi Ha Hc Hpv Hpc Ht w v.
Qed.

Lemma step_copy_ctor_ok : forall stateless n s a w v, inv s -> rel s a -> in_range n (OCopyCtor w v) = true ->
  step_ok stateless n s a (OCopyCtor w v).
Proof.
  intros stateless n s a w v [Hi [Hpv [Hpc Ht]]] [Ha Hc] Hr. unfold_ops. rewrite Hr. cbn [negb].
  two_wrappers Hi Ha Hc Hpv Hpc Ht w v.
Qed.

Lemma step_move_ctor_ok : forall stateless n s a w v, inv s -> rel s a -> in_range n (OMoveCtor w v) = true ->
  step_ok stateless n s a (OMoveCtor w v).
Proof.
  intros stateless n s a w v [Hi [Hpv [Hpc Ht]]] [Ha Hc] Hr. unfold_ops. rewrite Hr. cbn [negb].
  two_wrappers Hi Ha Hc Hpv Hpc Ht w v.
Qed.

Lemma step_assign_null_fn_ok : forall stateless n s a w, inv s -> rel s a -> in_range n (OAssignNullFn w) = true ->
  step_ok stateless n s a (OAssignNullFn w).
Proof.
  intros stateless n s a w [Hi [Hpv [Hpc Ht]]] [Ha Hc] Hr. unfold_ops. rewrite Hr. cbn [negb].
  one_wrapper Hi Ha Hc Hpv Hpc Ht w.
Qed.

Lemma step_ctor_null_fn_ok : forall stateless n s a w, inv s -> rel s a -> in_range n (OCtorNullFn w) = true ->
  step_ok stateless n s a (OCtorNullFn w).
Proof.
  intros stateless n s a w [Hi [Hpv [Hpc Ht]]] [Ha Hc] Hr. unfold_ops. rewrite Hr. cbn [negb].
  one_wrapper Hi Ha Hc Hpv Hpc Ht w.
Qed.

(* the converting constructors with a persistent source of another capacity: w <> v is part of in_range *)
Ltac two_distinct Hi Ha Hc Hpv Hpc Ht Hr w v :=
  let Hwv := fresh "Hwv" in let Hwv' := fresh "Hwv'" in let Hvw' := fresh "Hvw'" in
  assert (Hwv' : Nat.eqb w v = false)
    by (cbn [in_range] in Hr; apply andb_true_iff in Hr; destruct Hr as [_ Hr]; apply negb_true_iff in Hr; exact Hr);
  assert (Hwv : w <> v) by (apply Nat.eqb_neq; exact Hwv');
  assert (Hvw' : Nat.eqb v w = false) by (apply Nat.eqb_neq; congruence);
  let Hv1 := fresh "Hv1" in let Hc1 := fresh "Hc1" in let id1 := fresh "id" in let c1 := fresh "c" in
  let Hv2 := fresh "Hv2" in let Hc2 := fresh "Hc2" in let id2 := fresh "id" in let c2 := fresh "c" in
  destruct (winv_cases _ (WI w) (Hi w)) as [[Hv1 Hc1]|[id1 [c1 [Hv1 Hc1]]]];
  destruct (winv_cases _ (WI v) (Hi v)) as [[Hv2 Hc2]|[id2 [c2 [Hv2 Hc2]]]];
  rewrite <- ?(Ha w), <- ?(Ha v); unfold abs_slot;
  ev_with ltac:(rewrite ?Hv1, ?Hc1, ?Hv2, ?Hc2, ?Ht, ?Hpv, ?Hpc, ?Hwv', ?Hvw');
  close Hi Ha Hc Hpv Hpc Ht w v ltac:(rewrite ?Hv1, ?Hc1, ?Hv2, ?Hc2, ?Ht, ?Hpv, ?Hpc, ?Hwv', ?Hvw', ?Nat.eqb_refl).

Lemma step_conv_copy_ctor_w_ok : forall stateless n s a w v, inv s -> rel s a -> in_range n (OConvCopyCtorW w v) = true ->
  step_ok stateless n s a (OConvCopyCtorW w v).
Proof.
  intros stateless n s a w v [Hi [Hpv [Hpc Ht]]] [Ha Hc] Hr. unfold_ops. rewrite Hr. cbn [negb].
  two_distinct Hi Ha Hc Hpv Hpc Ht Hr w v.
Qed.
Lemma step_conv_move_ctor_w_ok : forall stateless n s a w v, inv s -> rel s a -> in_range n (OConvMoveCtorW w v) = true ->
  step_ok stateless n s a (OConvMoveCtorW w v).
Proof.
  intros stateless n s a w v [Hi [Hpv [Hpc Ht]]] [Ha Hc] Hr. unfold_ops. rewrite Hr. cbn [negb].
  two_distinct Hi Ha Hc Hpv Hpc Ht Hr w v.
Qed.
Lemma step_conv_copy_assign_ok : forall stateless n s a w v, inv s -> rel s a -> in_range n (OConvCopyAssign w v) = true ->
  step_ok stateless n s a (OConvCopyAssign w v).
Proof.
  intros stateless n s a w v [Hi [Hpv [Hpc Ht]]] [Ha Hc] Hr. unfold_ops. rewrite Hr. cbn [negb].
  two_distinct Hi Ha Hc Hpv Hpc Ht Hr w v.
Qed.
Lemma step_conv_move_assign_ok : forall stateless n s a w v, inv s -> rel s a -> in_range n (OConvMoveAssign w v) = true ->
  step_ok stateless n s a (OConvMoveAssign w v).
Proof.
  intros stateless n s a w v [Hi [Hpv [Hpc Ht]]] [Ha Hc] Hr. unfold_ops. rewrite Hr. cbn [negb].
  two_distinct Hi Ha Hc Hpv Hpc Ht Hr w v.
Qed.

(** one step, any operation (out-of-range wrapper indices are skipped on both sides) *)
Lemma step_refines : forall stateless n s a o, inv s -> rel s a -> step_ok stateless n s a o.
Proof.
  intros stateless n s a o Hinv Hrel.
  destruct (in_range n o) eqn:Hr.
  - destruct o.
    + apply step_assign_target_ok; assumption.
    + apply step_copy_assign_ok; assumption.
    + apply step_move_assign_ok; assumption.
    + apply step_copy_ctor_ok; assumption.
    + apply step_move_ctor_ok; assumption.
    + apply step_reset_ok; assumption.
    + apply step_swap_ok; assumption.
    + apply step_call_ok; assumption.
    + apply step_bool_ok; assumption.
    + apply step_conv_copy_ok; assumption.
    + apply step_conv_move_ok; assumption.
    + apply step_ctor_target_ok; assumption.
    + apply step_ctor_null_ok; assumption.
    + apply step_assign_null_fn_ok; assumption.
    + apply step_ctor_null_fn_ok; assumption.
    + apply step_conv_copy_ctor_w_ok; assumption.
    + apply step_conv_move_ctor_w_ok; assumption.
    + apply step_conv_copy_assign_ok; assumption.
    + apply step_conv_move_assign_ok; assumption.
  - exists s. unfold step_m, step_s. rewrite Hr. cbn [negb fst snd]. repeat split; try apply Hinv; apply Hrel.
Qed.

(** what the harness observes after a step is a function of the abstract state *)
Lemma mask_abs : forall n s a, inv s -> rel s a -> mask_m n s = amask n a.
Proof.
  intros n s a [Hi _] [Ha _]. unfold mask_m, amask. apply map_ext. intros i. rewrite <- (Ha i).
  unfold bool_m, abs_slot. destruct (winv_cases s (WI i) (Hi i)) as [[Hv Hc]|[id [c [Hv Hc]]]]; rewrite Hv, ?Hc; reflexivity.
Qed.

Lemma live_abs : forall tracked n s a, inv s -> rel s a -> live_m tracked n s = alive tracked n a.
Proof.
  intros tracked n s a [Hi [_ [Hpc Ht]]] [Ha _]. unfold live_m, alive. rewrite Hpc, Ht. cbn [cell_tracked].
  rewrite !Nat.add_0_r. induction (seq 0 n) as [|i l IH]; cbn [fold_right]; [reflexivity|]. rewrite IH. f_equal.
  rewrite <- (Ha i). unfold abs_slot.
  destruct (winv_cases s (WI i) (Hi i)) as [[Hv Hc]|[id [c [Hv Hc]]]]; rewrite Hv, Hc; reflexivity.
Qed.

(** all histories *)
Theorem run_refines : forall stateless tracked n ops s a, inv s -> rel s a ->
  exists s', run_m stateless tracked n s ops = Good (s', snd (run_s stateless tracked n a ops)) /\ inv s' /\
             rel s' (fst (run_s stateless tracked n a ops)).
Proof.
  intros stateless tracked n ops. induction ops as [|o rest IH]; intros s a Hinv Hrel.
  - exists s. cbn. repeat split; try apply Hinv; apply Hrel.
  - destruct (step_refines stateless n s a o Hinv Hrel) as [s1 [Hstep [Hinv1 Hrel1]]].
    destruct (IH s1 _ Hinv1 Hrel1) as [s2 [Hrun [Hinv2 Hrel2]]].
    exists s2. cbn [run_m run_s]. rewrite Hstep. cbn [obind' fst snd]. rewrite Hrun. cbn [obind' fst snd].
    rewrite (mask_abs n s1 _ Hinv1 Hrel1), (live_abs tracked n s1 _ Hinv1 Hrel1).
    repeat split; try apply Hinv2; apply Hrel2.
Qed.

Lemma init_inv : inv init_state.
Proof. split; [intros i; exact I|]. repeat split. Qed.
Lemma init_rel : rel init_state init_astate.
Proof. split; [intros i|]; reflexivity. Qed.

(* from default-constructed wrappers, every history runs without touching a dead object, constructing over a
   live one, confusing target types or leaking, and is observationally equal to the specification *)
Theorem ipf_history_refines : forall stateless tracked n ops,
  exists s', run_m stateless tracked n init_state ops = Good (s', snd (run_s stateless tracked n init_astate ops))
             /\ inv s' /\ rel s' (fst (run_s stateless tracked n init_astate ops)).
Proof. intros. apply run_refines; [exact init_inv|exact init_rel]. Qed.

(** destruction of the wrappers releases every target *)
Lemma destroy_all_ok : forall k s, (forall i, (i < k)%nat -> winv s (WI i)) ->
  exists s', destroy_all k s = Good s' /\
             (forall i, (i < k)%nat -> cells s' (CW (WI i)) = Dead) /\
             (forall r, (forall i, (i < k)%nat -> r <> CW (WI i)) -> cells s' r = cells s r) /\
             calls s' = calls s.
Proof.
  induction k as [|k IH]; intros s Hw.
  - exists s. cbn. repeat split; intros; try lia; reflexivity.
  - cbn [destroy_all]. unfold dtor, destroy_thunk.
    destruct (winv_cases s (WI k) (Hw k (Nat.lt_succ_diag_r k))) as [[Hv Hc]|[id [c [Hv Hc]]]];
      rewrite Hv, ?Hc, ?Z.eqb_refl; cbn [negb obind'].
    + destruct (IH s (fun i Hi => Hw i (Nat.lt_lt_succ_r _ _ Hi))) as [s' [Hd [Hlt [Hfr Hcalls]]]].
      exists s'. repeat split; try assumption.
      * intros i Hik. destruct (Nat.eq_dec i k) as [->|Hne]; [|apply Hlt; lia].
        rewrite Hfr; [exact Hc|]. intros j Hj Hx. inversion Hx. lia.
      * intros r Hr. apply Hfr. intros i Hi. apply Hr. lia.
    + set (s1 := set_cell s (CW (WI k)) Dead).
      assert (Hw1 : forall i, (i < k)%nat -> winv s1 (WI i)).
      { intros i Hik. subst s1. unfold winv. red_state.
        destruct (Nat.eqb_spec i k) as [->|Hne]; [lia|]. specialize (Hw i (Nat.lt_lt_succ_r _ _ Hik)). exact Hw. }
      destruct (IH s1 Hw1) as [s' [Hd [Hlt [Hfr Hcalls]]]].
      exists s'. repeat split; try assumption.
      * intros i Hik. destruct (Nat.eq_dec i k) as [->|Hne]; [|apply Hlt; lia].
        rewrite Hfr; [subst s1; red_state; rewrite Nat.eqb_refl; reflexivity|]. intros j Hj Hx. inversion Hx. lia.
      * intros r Hr. rewrite Hfr; [|intros i Hi; apply Hr; lia]. subst s1. red_state.
        destruct (cref_eqb r (CW (WI k))) eqn:He; [|reflexivity].
        exfalso. apply (Hr k (Nat.lt_succ_diag_r k)). destruct r as [[j|]|]; cbn in He; try discriminate He.
        apply Nat.eqb_eq in He. subst. reflexivity.
Qed.

Lemma live_zero : forall tracked n s,
  (forall i, (i < n)%nat -> cells s (CW (WI i)) = Dead) -> cells s (CW WParam) = Dead -> cells s CTmp = Dead ->
  live_m tracked n s = O.
Proof.
  intros tracked n s Hw Hp Ht. unfold live_m. rewrite Hp, Ht. cbn [cell_tracked]. rewrite !Nat.add_0_r.
  assert (H : forall l, (forall i, In i l -> (i < n)%nat) ->
              fold_right (fun i acc => (cell_tracked tracked (cells s (CW (WI i))) + acc)%nat) O l = O).
  { induction l as [|i l IH]; intros Hl; cbn [fold_right]; [reflexivity|].
    rewrite (Hw i (Hl i (or_introl eq_refl))), IH; [reflexivity|]. intros j Hj. apply Hl. right. exact Hj. }
  apply H. intros i Hi. apply in_seq in Hi. lia.
Qed.

(* a whole life: default-construct n wrappers, run any history, destroy the wrappers: nothing is left alive *)
Theorem ipf_no_leak : forall stateless tracked n ops,
  exists s' s'', run_m stateless tracked n init_state ops = Good (s', snd (run_s stateless tracked n init_astate ops))
                 /\ destroy_all n s' = Good s'' /\ live_m tracked n s'' = O /\ calls s'' = calls s'.
Proof.
  intros stateless tracked n ops.
  destruct (ipf_history_refines stateless tracked n ops) as [s' [Hrun [[Hi [Hpv [Hpc Ht]]] Hrel]]].
  destruct (destroy_all_ok n s' (fun i _ => Hi i)) as [s'' [Hd [Hdead [Hfr Hcalls]]]].
  exists s', s''. repeat split; try assumption.
  apply live_zero; [exact Hdead| |]; rewrite Hfr; try assumption; intros i _ Hx; discriminate Hx.
Qed.

(* the same without the [tracked] filter of the harness' live counter: NO storage holds an object afterwards *)
Lemma any_live_false : forall n s,
  (forall i, (i < n)%nat -> cells s (CW (WI i)) = Dead) -> cells s (CW WParam) = Dead -> cells s CTmp = Dead ->
  any_live n s = false.
Proof.
  intros n s Hw Hp Ht. unfold any_live. rewrite Hp, Ht, !orb_false_r.
  assert (H : forall l, (forall i, In i l -> (i < n)%nat) ->
              existsb (fun i => match cells s (CW (WI i)) with Live _ _ => true | Dead => false end) l = false).
  { induction l as [|i l IH]; intros Hl; cbn [existsb]; [reflexivity|].
    rewrite (Hw i (Hl i (or_introl eq_refl))), IH; [reflexivity|]. intros j Hj. apply Hl. right. exact Hj. }
  apply H. intros i Hi. apply in_seq in Hi. lia.
Qed.
Theorem ipf_nothing_alive : forall stateless tracked n ops,
  exists s' s'', run_m stateless tracked n init_state ops = Good (s', snd (run_s stateless tracked n init_astate ops))
                 /\ destroy_all n s' = Good s'' /\ any_live n s'' = false.
Proof.
  intros stateless tracked n ops.
  destruct (ipf_history_refines stateless tracked n ops) as [s' [Hrun [[Hi [Hpv [Hpc Ht]]] Hrel]]].
  destruct (destroy_all_ok n s' (fun i _ => Hi i)) as [s'' [Hd [Hdead [Hfr Hcalls]]]].
  exists s', s''. repeat split; try assumption.
  apply any_live_false; [exact Hdead| |]; rewrite Hfr; try assumption; intros i _ Hx; discriminate Hx.
Qed.

(** the informal clauses of the property, on the model, from any reachable (invariant) state *)
Definition abs_of (s : state) : astate := mkas (abs_slot s) (calls s).
Lemma rel_abs_of : forall s, rel s (abs_of s).
Proof. intros s. split; [intros i|]; reflexivity. Qed.

(* empty never calls; a non-empty wrapper invokes exactly the held target, exactly once, with the same argument,
   and returns its result *)
Theorem call_exactly_once : forall stateless n s w arg, inv s -> (w < n)%nat ->
  match abs_slot s w with
  | None => step_m stateless n s (OCall w arg) = Good (s, TEmpty)
  | Some (id, c) =>
      exists s', step_m stateless n s (OCall w arg) = Good (s', TCall (call_result id (bump stateless id c) arg))
                 /\ calls s' = (id, arg) :: calls s
                 /\ abs_slot s' w = Some (id, bump stateless id c)
                 /\ (forall i, i <> w -> abs_slot s' i = abs_slot s i)
  end.
Proof.
  intros stateless n s w arg Hinv Hw.
  assert (Hr : in_range n (OCall w arg) = true) by (cbn; apply Nat.ltb_lt; exact Hw).
  destruct Hinv as [Hi Hrest]. unfold step_m. rewrite Hr. cbn [negb]. unfold call_m, invoke_thunk, abs_slot.
  destruct (winv_cases s (WI w) (Hi w)) as [[Hv Hc]|[id [c [Hv Hc]]]]; rewrite Hv, ?Hc, ?Z.eqb_refl; cbn [negb obind' fst snd].
  - reflexivity.
  - eexists. split; [reflexivity|]. red_state. rewrite Nat.eqb_refl, Hv. repeat split.
    intros i Hne. destruct (Nat.eqb_spec i w) as [->|_]; [congruence|reflexivity].
Qed.

Lemma step_on_abs : forall stateless n s o, inv s ->
  exists s', step_m stateless n s o = Good (s', snd (step_s stateless n (abs_of s) o)) /\ inv s' /\
             (forall i, abs_slot s' i = slots (fst (step_s stateless n (abs_of s) o)) i).
Proof.
  intros stateless n s o Hinv. destruct (step_refines stateless n s (abs_of s) o Hinv (rel_abs_of s)) as [s' [H1 [H2 [H3 _]]]].
  exists s'. split; [exact H1|]. split; [exact H2|exact H3].
Qed.

(* copy duplicates: both wrappers hold the source's target and state afterwards, nothing else changes *)
Theorem copy_duplicates : forall stateless n s w v, inv s -> (w < n)%nat -> (v < n)%nat ->
  exists s', step_m stateless n s (OCopyAssign w v) = Good (s', TAck) /\ inv s' /\
             abs_slot s' w = abs_slot s v /\ abs_slot s' v = abs_slot s v /\
             (forall i, i <> w -> abs_slot s' i = abs_slot s i).
Proof.
  intros stateless n s w v Hinv Hw Hv.
  destruct (step_on_abs stateless n s (OCopyAssign w v) Hinv) as [s' [H1 [H2 H3]]].
  unfold step_s in *. assert (Hr : in_range n (OCopyAssign w v) = true) by (cbn [in_range]; apply andb_true_iff; split; apply Nat.ltb_lt; assumption).
  rewrite Hr in *. cbn [negb fst snd] in *. exists s'. split; [exact H1|]. split; [exact H2|]. repeat split.
  - rewrite H3. red_state. rewrite Nat.eqb_refl. reflexivity.
  - rewrite H3. red_state. destruct (Nat.eqb_spec v w) as [->|_]; reflexivity.
  - intros i Hne. rewrite H3. red_state. destruct (Nat.eqb_spec i w) as [->|_]; [congruence|reflexivity].
Qed.

(* move transfers: the destination holds the source's target and state, the source is empty (w <> v);
   a self move assignment keeps the target *)
Theorem move_transfers : forall stateless n s w v, inv s -> (w < n)%nat -> (v < n)%nat ->
  exists s', step_m stateless n s (OMoveAssign w v) = Good (s', TAck) /\ inv s' /\
             abs_slot s' w = abs_slot s v /\ (w <> v -> abs_slot s' v = None) /\
             (forall i, i <> w -> i <> v -> abs_slot s' i = abs_slot s i).
Proof.
  intros stateless n s w v Hinv Hw Hv.
  destruct (step_on_abs stateless n s (OMoveAssign w v) Hinv) as [s' [H1 [H2 H3]]].
  unfold step_s in *. assert (Hr : in_range n (OMoveAssign w v) = true) by (cbn [in_range]; apply andb_true_iff; split; apply Nat.ltb_lt; assumption).
  rewrite Hr in *. cbn [negb] in *. exists s'.
  destruct (Nat.eqb_spec w v) as [->|Hwv]; cbn [fst snd] in *; (split; [exact H1|]); (split; [exact H2|]); repeat split.
  - rewrite H3. reflexivity.
  - intros Hx. congruence.
  - intros i _ _. rewrite H3. reflexivity.
  - rewrite H3. red_state. destruct (Nat.eqb_spec w v) as [->|_]; [congruence|]. rewrite Nat.eqb_refl. reflexivity.
  - intros _. rewrite H3. red_state. rewrite Nat.eqb_refl. reflexivity.
  - intros i H4 H5. rewrite H3. red_state.
    destruct (Nat.eqb_spec i v) as [->|_]; [congruence|]. destruct (Nat.eqb_spec i w) as [->|_]; [congruence|reflexivity].
Qed.

(* swap exchanges (and a self swap changes nothing) *)
Theorem swap_exchanges : forall stateless n s w v, inv s -> (w < n)%nat -> (v < n)%nat ->
  exists s', step_m stateless n s (OSwap w v) = Good (s', TAck) /\ inv s' /\
             abs_slot s' w = abs_slot s v /\ abs_slot s' v = abs_slot s w /\
             (forall i, i <> w -> i <> v -> abs_slot s' i = abs_slot s i).
Proof.
  intros stateless n s w v Hinv Hw Hv.
  destruct (step_on_abs stateless n s (OSwap w v) Hinv) as [s' [H1 [H2 H3]]].
  unfold step_s in *. assert (Hr : in_range n (OSwap w v) = true) by (cbn [in_range]; apply andb_true_iff; split; apply Nat.ltb_lt; assumption).
  rewrite Hr in *. cbn [negb fst snd] in *. exists s'. split; [exact H1|]. split; [exact H2|]. repeat split.
  - rewrite H3. red_state. destruct (Nat.eqb_spec w v) as [->|_]; [reflexivity|]. rewrite Nat.eqb_refl. reflexivity.
  - rewrite H3. red_state. rewrite Nat.eqb_refl. reflexivity.
  - intros i H4 H5. rewrite H3. red_state.
    destruct (Nat.eqb_spec i v) as [->|_]; [congruence|]. destruct (Nat.eqb_spec i w) as [->|_]; [congruence|reflexivity].
Qed.

(* the converting constructors (source = a persistent wrapper of another capacity, necessarily another object) behave like
   the plain ones: copy duplicates, move transfers and empties the source -- as constructor and through operator= *)
Lemma conv_in_range : forall n w v, (w < n)%nat -> (v < n)%nat -> w <> v ->
  (Nat.ltb w n && Nat.ltb v n && negb (Nat.eqb w v))%bool = true.
Proof.
  intros n w v Hw Hv Hne. apply andb_true_iff; split; [apply andb_true_iff; split; apply Nat.ltb_lt; assumption|].
  apply negb_true_iff. apply Nat.eqb_neq. exact Hne.
Qed.

Theorem conv_copy_duplicates : forall stateless n s w v, inv s -> (w < n)%nat -> (v < n)%nat -> w <> v ->
  forall o, o = OConvCopyCtorW w v \/ o = OConvCopyAssign w v ->
  exists s', step_m stateless n s o = Good (s', TAck) /\ inv s' /\
             abs_slot s' w = abs_slot s v /\ abs_slot s' v = abs_slot s v /\
             (forall i, i <> w -> abs_slot s' i = abs_slot s i).
Proof.
  intros stateless n s w v Hinv Hw Hv Hne o Ho.
  destruct (step_on_abs stateless n s o Hinv) as [s' [H1 [H2 H3]]].
  assert (Hr : in_range n o = true) by (destruct Ho as [-> | ->]; cbn [in_range]; apply conv_in_range; assumption).
  assert (Hvw : Nat.eqb v w = false) by (apply Nat.eqb_neq; congruence).
  unfold step_s in *. rewrite Hr in *. cbn [negb] in *.
  exists s'. split; [|split; [exact H2|]].
  - rewrite H1. destruct Ho as [-> | ->]; reflexivity.
  - assert (H3' : forall i, abs_slot s' i = slots (aset (abs_of s) w (slots (abs_of s) v)) i)
      by (intros i; rewrite H3; destruct Ho as [-> | ->]; reflexivity).
    repeat split.
    + rewrite H3'. red_state. rewrite Nat.eqb_refl. reflexivity.
    + rewrite H3'. red_state. rewrite Hvw. reflexivity.
    + intros i Hi. rewrite H3'. red_state. destruct (Nat.eqb_spec i w) as [->|_]; [congruence|reflexivity].
Qed.

Theorem conv_move_transfers : forall stateless n s w v, inv s -> (w < n)%nat -> (v < n)%nat -> w <> v ->
  forall o, o = OConvMoveCtorW w v \/ o = OConvMoveAssign w v ->
  exists s', step_m stateless n s o = Good (s', TAck) /\ inv s' /\
             abs_slot s' w = abs_slot s v /\ abs_slot s' v = None /\
             (forall i, i <> w -> i <> v -> abs_slot s' i = abs_slot s i).
Proof.
  intros stateless n s w v Hinv Hw Hv Hne o Ho.
  destruct (step_on_abs stateless n s o Hinv) as [s' [H1 [H2 H3]]].
  assert (Hr : in_range n o = true) by (destruct Ho as [-> | ->]; cbn [in_range]; apply conv_in_range; assumption).
  assert (Hwv : Nat.eqb w v = false) by (apply Nat.eqb_neq; exact Hne).
  unfold step_s in *. rewrite Hr in *. cbn [negb] in *.
  exists s'. split; [|split; [exact H2|]].
  - rewrite H1. destruct Ho as [-> | ->]; rewrite Hwv; reflexivity.
  - assert (H3' : forall i, abs_slot s' i = slots (aset (aset (abs_of s) w (slots (abs_of s) v)) v None) i)
      by (intros i; rewrite H3; destruct Ho as [-> | ->]; rewrite Hwv; reflexivity).
    repeat split.
    + rewrite H3'. red_state. rewrite Hwv, Nat.eqb_refl. reflexivity.
    + rewrite H3'. red_state. rewrite Nat.eqb_refl. reflexivity.
    + intros i Hi Hi'. rewrite H3'. red_state.
      destruct (Nat.eqb_spec i v) as [->|_]; [congruence|]. destruct (Nat.eqb_spec i w) as [->|_]; [congruence|reflexivity].
Qed.

(* reset empties *)
Theorem reset_empties : forall stateless n s w, inv s -> (w < n)%nat ->
  exists s', step_m stateless n s (OReset w) = Good (s', TAck) /\ inv s' /\ abs_slot s' w = None /\
             (forall i, i <> w -> abs_slot s' i = abs_slot s i).
Proof.
  intros stateless n s w Hinv Hw.
  destruct (step_on_abs stateless n s (OReset w) Hinv) as [s' [H1 [H2 H3]]].
  unfold step_s in *. assert (Hr : in_range n (OReset w) = true) by (cbn; apply Nat.ltb_lt; exact Hw).
  rewrite Hr in *. cbn [negb fst snd] in *. exists s'. split; [exact H1|]. split; [exact H2|]. repeat split.
  - rewrite H3. red_state. rewrite Nat.eqb_refl. reflexivity.
  - intros i Hne. rewrite H3. red_state. destruct (Nat.eqb_spec i w) as [->|_]; [congruence|reflexivity].
Qed.

(* a null function pointer / null member pointer is no target: assigning or constructing from it empties the wrapper *)
Theorem null_fn_empties : forall stateless n s w, inv s -> (w < n)%nat ->
  (exists s', step_m stateless n s (OAssignNullFn w) = Good (s', TAck) /\ inv s' /\ abs_slot s' w = None /\
              (forall i, i <> w -> abs_slot s' i = abs_slot s i)) /\
  (exists s', step_m stateless n s (OCtorNullFn w) = Good (s', TAck) /\ inv s' /\ abs_slot s' w = None /\
              (forall i, i <> w -> abs_slot s' i = abs_slot s i)).
Proof.
  intros stateless n s w Hinv Hw. split.
  - destruct (step_on_abs stateless n s (OAssignNullFn w) Hinv) as [s' [H1 [H2 H3]]].
    unfold step_s in *. assert (Hr : in_range n (OAssignNullFn w) = true) by (cbn; apply Nat.ltb_lt; exact Hw).
    rewrite Hr in *. cbn [negb fst snd] in *. exists s'. split; [exact H1|]. split; [exact H2|]. repeat split.
    + rewrite H3. red_state. rewrite Nat.eqb_refl. reflexivity.
    + intros i Hne. rewrite H3. red_state. destruct (Nat.eqb_spec i w) as [->|_]; [congruence|reflexivity].
  - destruct (step_on_abs stateless n s (OCtorNullFn w) Hinv) as [s' [H1 [H2 H3]]].
    unfold step_s in *. assert (Hr : in_range n (OCtorNullFn w) = true) by (cbn; apply Nat.ltb_lt; exact Hw).
    rewrite Hr in *. cbn [negb fst snd] in *. exists s'. split; [exact H1|]. split; [exact H2|]. repeat split.
    + rewrite H3. red_state. rewrite Nat.eqb_refl. reflexivity.
    + intros i Hne. rewrite H3. red_state. destruct (Nat.eqb_spec i w) as [->|_]; [congruence|reflexivity].
Qed.

(* operator bool reports exactly emptiness *)
Theorem bool_reports_empty : forall stateless n s w, inv s -> (w < n)%nat ->
  step_m stateless n s (OBool w) = Good (s, TBool (match abs_slot s w with None => false | Some _ => true end)).
Proof.
  intros stateless n s w [Hi _] Hw. unfold step_m.
  assert (Hr : in_range n (OBool w) = true) by (cbn; apply Nat.ltb_lt; exact Hw). rewrite Hr. cbn [negb].
  unfold bool_m, abs_slot. destruct (winv_cases s (WI w) (Hi w)) as [[Hv Hc]|[id [c [Hv Hc]]]]; rewrite Hv, ?Hc; reflexivity.
Qed.

(** the defect that was repaired: without the self check, swapping a non-empty wrapper with itself move-constructs
    the target from its own destroyed storage *)
Lemma swap_without_self_check_uses_dead_object : forall s w id c,
  vts s w = Some id -> cells s (CW w) = Live id c -> cells s CTmp = Dead ->
  swap_unchecked_m w w s = Bad UseDead.
Proof.
  intros s w id c Hv Hc Ht. unfold swap_unchecked_m, swap_body, relocate_thunk. rewrite Hv, Hc, Z.eqb_refl, Ht. cbn [negb obind'].
  red_state. assert (He : wref_eqb w w = true) by (destruct w; cbn; [apply Nat.eqb_refl|reflexivity]).
  rewrite Hv. red_state. rewrite He. reflexivity.
Qed.
