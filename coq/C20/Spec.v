(* C20 specification: what the C++ standard says, written independently of the library code.
   (i)   [pairs.spec] lexicographic order and member-wise equality, [tuple.rel] equality, [tuple.swap],
         [tuple.apply] / [tuple.creation]: the elements in order, each exactly once;
   (ii)  the abstract behaviour of a copyable owning call wrapper ([func.wrap.func]): a wrapper is empty or holds
         one target with its captured state;
   (iii) the value-category tables of [tuple.elem], [pair.astuple], [forward], [func.require] (INVOKE),
         [func.bind.front], [func.not.fn], [refwrap.invoke], [func.wrap.func.inv], P0792 (function_ref),
         written out entry by entry. *)
From Tetl Require Import Lib.Base C20.Model.
Local Open Scope Z_scope.

(* ================================================================================================ *)
(** * (iii) tables *)

(* [tuple.elem] get<I>(t): TE& / const TE& / TE&& / const TE&& for t : tuple&, const tuple&, tuple&&,
   const tuple&&, TE the declared element type.  Rows: element kinds A, const A, A&, const A&, A&&, const A&&. *)
Definition get_spec (q T : ty) : option ty :=
  match rf q, cst q, rf T, cst T with
  | RL, false, RNone, false => Some LV
  | RL, false, RNone, true => Some CLV
  | RL, false, RL, false => Some LV
  | RL, false, RL, true => Some CLV
  | RL, false, RR, false => Some LV
  | RL, false, RR, true => Some CLV
  | RL, true, RNone, false => Some CLV
  | RL, true, RNone, true => Some CLV
  | RL, true, RL, false => Some LV
  | RL, true, RL, true => Some CLV
  | RL, true, RR, false => Some LV
  | RL, true, RR, true => Some CLV
  | RR, false, RNone, false => Some RV
  | RR, false, RNone, true => Some CRV
  | RR, false, RL, false => Some LV
  | RR, false, RL, true => Some CLV
  | RR, false, RR, false => Some RV
  | RR, false, RR, true => Some CRV
  | RR, true, RNone, false => Some CRV
  | RR, true, RNone, true => Some CRV
  | RR, true, RL, false => Some LV
  | RR, true, RL, true => Some CLV
  | RR, true, RR, false => Some RV
  | RR, true, RR, true => Some CRV
  | RNone, _, _, _ => None
  end.

(* [forward]: forward<T>(t) returns static_cast<T&&>(t); ill-formed when const would be dropped or an rvalue
   would be forwarded as an lvalue *)
Definition forward_spec (T e : ty) : option ty :=
  if cst e && negb (cst T) then None
  else if negb (is_lref e) && is_lref T then None
  else Some (mkty (cst T) (match rf T with RL => RL | _ => RR end)).

(* [forward] forward_like<T>(x): OVERRIDE_REF(T&&, COPY_CONST(remove_reference_t<T>, remove_reference_t<U>)) *)
Definition forward_like_spec (T U : ty) : option ty :=
  Some (mkty (cst T || cst U) (match rf T with RL => RL | _ => RR end)).

(* [func.require] INVOKE(f, t1, ...): the object expression for a member pointer *)
Definition INVOKE_obj_spec (r : receiver) : option ty :=
  match r with
  | RcvObj c => Some c                                      (* (t1.*f)  when is_base_of_v<T, remove_cvref_t<decltype(t1)>> *)
  | RcvDerived c => Some c
  | RcvRefWrap false => Some LV | RcvRefWrap true => Some CLV  (* (t1.get().*f) *)
  | RcvPtr false => Some LV | RcvPtr true => Some CLV          (* (( *t1) .* f) *)
  end.
(* [over.match.funcs]/[class.mfct.non.static]: which object expressions a member function accepts *)
Definition pmf_accepts_spec (q : pmfq) (o : ty) : bool :=
  match q, rf o, cst o with
  | QNone, RL, false => true | QNone, RR, false => true
  | QConst, RL, _ => true | QConst, RR, _ => true
  | QL, RL, false => true
  | QCL, RL, _ => true | QCL, RR, _ => true
  | QR, RR, false => true
  | QCR, RR, _ => true
  | _, _, _ => false
  end.
Definition invoke_pmf_spec (q : pmfq) (r : receiver) : bool :=
  match INVOKE_obj_spec r with Some o => pmf_accepts_spec q o | None => false end.
Definition invoke_pmd_spec (r : receiver) : option ty := INVOKE_obj_spec r.
(* INVOKE(f, args...) for a function object: f and every argument arrive exactly as passed *)
Definition invoke_fo_spec (f : ty) (args : list ty) : option (ty * list ty) := Some (f, args).

(* [func.wrap.func.inv] / P0792: INVOKE<R>(f, std::forward<ArgTypes>(args)...), f an lvalue of the target *)
Definition sig_forward_spec (P : ty) : ty :=
  match rf P, cst P with
  | RNone, false => RV | RNone, true => CRV
  | RL, false => LV | RL, true => CLV
  | RR, false => RV | RR, true => CRV
  end.
Definition sig_accepts_spec (P a : ty) : bool :=
  match rf P, cst P, rf a, cst a with
  | RNone, _, _, _ => true
  | RL, false, RL, false => true
  | RL, true, _, _ => true
  | RR, false, RR, false => true
  | RR, true, RR, _ => true
  | _, _, _, _ => false
  end.
Definition ipf_call_spec (P a : ty) : option (ty * ty) :=
  if sig_accepts_spec P a then Some (LV, sig_forward_spec P) else None.
Definition fref_call_spec (fc P a : ty) : option (ty * ty) :=
  if sig_accepts_spec P a then Some ((if cst fc then CLV else LV), sig_forward_spec P) else None.
(* [refwrap.invoke]: INVOKE(get(), std::forward<ArgTypes>(args)...) *)
Definition refwrap_call_spec (tconst : bool) (a : ty) : option (ty * ty) :=
  Some ((if tconst then CLV else LV), a).
(* [func.not.fn], [func.bind.front]: perfect forwarding call wrappers ([func.require]/4): the state entities
   (target, bound arguments of type decay_t<Args>) are delivered as lvalues for an lvalue wrapper, xvalues for an
   rvalue wrapper, const when the wrapper is const; the call arguments are forwarded *)
Definition notfn_call_spec (w a : ty) : option (ty * ty) :=
  match rf w with RNone => None | _ => Some (w, a) end.
Definition bindfront_call_spec (w : ty) (bound : bool) (a : ty) : option (ty * option ty * ty) :=
  match rf w with RNone => None | _ => Some (w, (if bound then Some w else None), a) end.

(* [tuple.apply]: INVOKE(std::forward<F>(f), get<I>(std::forward<Tuple>(t))...) and T(get<I>(std::forward<Tuple>(t))...) *)
Definition get_all_spec (tc : ty) (kinds : list ty) : option (list ty) := map_opt (get_spec tc) kinds.
Definition apply_cats_spec (fc tc : ty) (kinds : list ty) : option (ty * list ty) :=
  do gs <- get_all_spec tc kinds; Some (fc, gs).

(* [pairs.pair] assignment: copy overloads assign p.first; move overloads assign std::forward<U1>(p.first):
   the member is move-assigned exactly when the source pair is a non-const rvalue and the source member is not a
   reference *)
Definition pair_assign_spec (dk sk sc : ty) : option bool :=
  match rf sc, cst sc, rf sk with
  | RR, false, RNone => Some true
  | _, _, _ => Some false
  end.

(* [tuple.creation] tuple_cat: element i of the result has the declared type of the corresponding operand
   element and is initialised with get<k>(std::forward<T>(tp)) *)
Definition cat_result_kind_spec (k : ty) : ty := k.
Definition cat_single_nested_arity_spec (inner_arity : nat) : nat := 1%nat.
Definition moved_from (c : ty) : bool :=
  match rf c, cst c with RR, false => true | _, _ => false end.
Definition tuple_cat_t_spec (ts : list toperand) : option (list (Z * bool)) :=
  map_opt (fun x => x)
    (concat (map (fun o : toperand =>
                    map (fun e : telem => do g <- get_spec (fst o) (fst e); Some (snd e, moved_from g)) (snd o)) ts)).

(* ================================================================================================ *)
(** * (i) values *)
Section Values.
Context {A : Type}.
Variable lt : A -> A -> bool.

(* equivalence induced by a strict order: neither is less *)
Definition equiv (a b : A) : Prop := lt a b = false /\ lt b a = false.
(* [pairs.spec] / lexicographical comparison on (first, second) *)
Definition lex_lt (l r : A * A) : Prop :=
  lt (fst l) (fst r) = true \/ (equiv (fst l) (fst r) /\ lt (snd l) (snd r) = true).
Definition lex_equiv (l r : A * A) : Prop := equiv (fst l) (fst r) /\ equiv (snd l) (snd r).
End Values.

(* tuple_cat on values: the concatenation of the operands *)
Definition tuple_cat_spec {A} (ts : list (list A)) : list A := concat ts.

(* ================================================================================================ *)
(** * (ii) an owning, copyable call wrapper *)
(* a wrapper is empty or holds a target id with its captured state (here: a call counter) *)
Definition aslot := option (Z * Z).
Record astate := mkas { slots : nat -> aslot; acalls : list (Z * Z) }.
Definition aset (a : astate) (i : nat) (x : aslot) : astate :=
  mkas (fun j => if Nat.eqb j i then x else slots a j) (acalls a).

Definition step_s (stateless : list Z) (n : nat) (a : astate) (o : op) : astate * tok :=
  if negb (in_range n o) then (a, TSkip) else
  match o with
  | OAssignTarget w t | OConvCopy w t | OConvMove w t | OCtorTarget w t =>
      (aset a w (Some (t, 0)), TAck)                       (* the wrapper holds a fresh copy of the target *)
  | OCopyAssign w v | OCopyCtor w v =>
      (aset a w (slots a v), TAck)                         (* copy duplicates: v keeps its target *)
  | OMoveAssign w v | OMoveCtor w v =>
      if Nat.eqb w v then (a, TAck)
      else (aset (aset a w (slots a v)) v None, TAck)      (* move transfers: the source becomes empty *)
  | OReset w | OCtorNull w => (aset a w None, TAck)
  | OSwap w v => (aset (aset a w (slots a v)) v (slots a w), TAck)   (* swap exchanges *)
  | OCall w arg =>
      match slots a w with
      | None => (a, TEmpty)                                (* empty never calls *)
      | Some (id, c) =>
          let c' := bump stateless id c in                 (* the held target runs exactly once, with arg *)
          (mkas (slots (aset a w (Some (id, c')))) ((id, arg) :: acalls a), TCall (call_result id c' arg))
      end
  | OBool w => (a, TBool (match slots a w with None => false | Some _ => true end))
  end.

Definition amask (n : nat) (a : astate) : list bool :=
  map (fun i => match slots a i with None => false | Some _ => true end) (seq 0 n).
Definition alive (tracked : list Z) (n : nat) (a : astate) : nat :=
  fold_right (fun i acc => (match slots a i with
                            | Some (id, _) => if existsb (Z.eqb id) tracked then 1 else 0
                            | None => 0 end + acc)%nat) 0%nat (seq 0 n).

Fixpoint run_s (stateless tracked : list Z) (n : nat) (a : astate) (ops : list op) : astate * list obs :=
  match ops with
  | [] => (a, [])
  | o :: rest =>
    let r := step_s stateless n a o in
    let r' := run_s stateless tracked n (fst r) rest in
    (fst r', (snd r, amask n (fst r), alive tracked n (fst r)) :: snd r')
  end.

Definition init_astate : astate := mkas (fun _ => None) [].

(* ================================================================================================ *)
(** * executable forms of the value specifications on Z (used by the correspondence run; proved equal to the
      relational forms in Proofs) *)
Definition zpair_eq_spec (l r : Z * Z) : bool := (fst l =? fst r) && (snd l =? snd r).
Definition zpair_lt_spec (l r : Z * Z) : bool := (fst l <? fst r) || ((fst l =? fst r) && (snd l <? snd r)).
Definition zpair_le_spec (l r : Z * Z) : bool := zpair_lt_spec l r || zpair_eq_spec l r.
Definition zpair_gt_spec (l r : Z * Z) : bool := zpair_lt_spec r l.
Definition zpair_ge_spec (l r : Z * Z) : bool := zpair_lt_spec r l || zpair_eq_spec l r.
Definition zlist_eq_spec (l r : list Z) : bool := if list_eq_dec Z.eq_dec l r then true else false.

(* ================================================================================================ *)
(** * [pairs.pair] / [tuple.cnstr] constraints over the element facts *)
Definition pair_traits_spec (a b : elem) : list bool :=
  let x := elem_traits a in let y := elem_traits b in
  [ (* default constructor: Constraints is_default_constructible_v<T1> && is_default_constructible_v<T2> *)
    e_dc x && e_dc y;
    (* pair(const pair&) = default *)
    e_cc x && e_cc y;
    (* pair(pair&&) = default; movable also through the copy constructor *)
    (e_mv x && e_mv y) || (e_cc x && e_cc y);
    (* operator=(const pair&): deleted unless is_copy_assignable_v<T1> && is_copy_assignable_v<T2> *)
    e_ca x && e_ca y;
    (* operator=(pair&&): Constraints is_move_assignable_v<T1> && is_move_assignable_v<T2>; an rvalue is
       otherwise assigned through operator=(const pair&) *)
    (e_ma x && e_ma y) || (e_ca x && e_ca y) ].
Definition tuple_traits_spec (es : list elem) : list bool :=
  [ forallb (fun e => e_dc (elem_traits e)) es; forallb (fun e => e_cc (elem_traits e)) es ].

Definition refwrap_ops_spec (a b : Z) : Z * Z * Z := (a + b + 1, a + 1, b).
Definition fref_ops_spec (v : Z) : list Z := [v + 1; v + 20; v + 20; v + 20; v + 20; v + 1].
Definition notfn_static_spec (v : Z) : bool := 0 <=? v.

Definition void_ret_spec (x : Z) : Z := 3 * x + 3.
(* [pairs.spec] make_pair: unwrap_ref_decay_t: reference_wrapper<X> -> X&, everything else decays *)
Definition make_pair_member_spec (wrapped : option bool) : ty :=
  match wrapped with Some false => mkty false RL | Some true => mkty true RL | None => mkty false RNone end.

(* [dcl.struct.bind] + [tuple.helper]: std::tuple supports structured bindings; [tuple.elem] / [pair.astuple]: get<T> *)
Definition tuple_structured_binding_spec : bool := true.
Definition get_by_type_spec (is_pair : bool) : bool := true.

(* ================================================================================================ *)
(** * [pairs.pair], [tuple.cnstr], [tuple.creation]: element transfer on construction *)
(* "initializes first with std::forward<U1>(x)": an object element is move-constructed from a non-const rvalue and
   copy-constructed from everything else; a reference element binds to the argument's object when [dcl.init.ref] allows
   it, otherwise the constructor does not participate (Constraints: is_constructible_v<T1, U1>) *)
Definition init_spec (K a : ty) : option built :=
  match rf K, cst K, rf a, cst a with
  | RNone, _, RR, false => Some (Constructed true)
  | RNone, _, _, _ => Some (Constructed false)
  | RL, false, RL, false => Some Aliased
  | RL, false, _, _ => None
  | RL, true, _, _ => Some Aliased
  | RR, false, RR, false => Some Aliased
  | RR, true, RR, _ => Some Aliased
  | RR, _, _, _ => None
  end.
(* [pairs.pair] converting constructors.  pair(const pair<U1,U2>& p): Constraints is_constructible_v<T1, const U1&>,
   initialises first with p.first (type const U1&: a const lvalue for an object member, the referenced object as a
   non-const-added lvalue for a reference member).  pair(pair<U1,U2>&& p): Constraints is_constructible_v<T1, U1>,
   initialises first with std::forward<U1>(p.first) (U1&&: an xvalue for object and rvalue-reference members, an lvalue
   for lvalue-reference members).  A non-const rvalue source selects the second when it participates. *)
Definition conv_copy_expr (sk : ty) : ty := match rf sk with RNone => mkty true RL | _ => mkty (cst sk) RL end.
Definition conv_move_expr (sk : ty) : ty := match rf sk with RL => mkty (cst sk) RL | _ => mkty (cst sk) RR end.
Definition pair_conv_spec (dk sk sc : ty) : option built :=
  match rf sc, cst sc with
  | RR, false =>
      match init_spec dk (conv_move_expr sk) with
      | Some r => Some r
      | None => init_spec dk (conv_copy_expr sk)
      end
  | _, _ => init_spec dk (conv_copy_expr sk)
  end.
(* [tuple.cnstr]: tuple(const Types&...) / tuple(UTypes&&...): element i is initialised with std::forward<Ui>(ui);
   Constraints sizeof...(Types) == sizeof...(UTypes) *)
Fixpoint tuple_ctor_all_spec (Ks args : list ty) : option (list built) :=
  match Ks, args with
  | [], [] => Some []
  | K :: Ks', a :: args' =>
      match init_spec K a, tuple_ctor_all_spec Ks' args' with
      | Some r, Some rs => Some (r :: rs)
      | _, _ => None
      end
  | _, _ => None
  end.
(* [pairs.spec] make_pair / [tuple.creation] make_tuple: an object element of the decayed type, initialised with
   std::forward<T>(t);  forward_as_tuple: tuple<TTypes&&...>, every element a reference to the argument *)
Definition make_value_spec (a : ty) : option built := init_spec (mkty false RNone) a.
Definition forward_as_tuple_spec (a : ty) : option (ty * built) :=
  match rf a with
  | RL => Some (mkty (cst a) RL, Aliased)
  | RR => Some (mkty (cst a) RR, Aliased)
  | RNone => None
  end.
