(* C20 specification: what the C++ standard says, written independently of the library code.
   (i)   [pairs.spec] lexicographic order and member-wise equality, [tuple.rel] equality, [tuple.swap],
         [tuple.apply] / [tuple.creation]: the elements in order, each exactly once;
   (ii)  the abstract behaviour of a copyable owning call wrapper ([func.wrap.func]): a wrapper is empty or holds
         one target with its captured state;
   (iii) the value-category tables of [tuple.elem], [pair.astuple], [forward], [func.require] (INVOKE),
         [func.bind.front], [func.not.fn], [refwrap.invoke], [func.wrap.func.inv], P0792 (function_ref),
         written out entry by entry. *)
From Tetl Require Import Lib.Base C20.Model.
Local Open Scope Z_scope.

(* ================================================================================================ *)
(** * (iii) tables *)

(* [tuple.elem] get<I>(t): TE& / const TE& / TE&& / const TE&& for t : tuple&, const tuple&, tuple&&,
   const tuple&&, TE the declared element type.  Rows: element kinds A, const A, A&, const A&, A&&, const A&&. *)
Definition get_spec (q T : ty) : option ty :=
  match rf q, cst q, rf T, cst T with
  | RL, false, RNone, false => Some LV
  | RL, false, RNone, true => Some CLV
  | RL, false, RL, false => Some LV
  | RL, false, RL, true => Some CLV
  | RL, false, RR, false => Some LV
  | RL, false, RR, true => Some CLV
  | RL, true, RNone, false => Some CLV
  | RL, true, RNone, true => Some CLV
  | RL, true, RL, false => Some LV
  | RL, true, RL, true => Some CLV
  | RL, true, RR, false => Some LV
  | RL, true, RR, true => Some CLV
  | RR, false, RNone, false => Some RV
  | RR, false, RNone, true => Some CRV
  | RR, false, RL, false => Some LV
  | RR, false, RL, true => Some CLV
  | RR, false, RR, false => Some RV
  | RR, false, RR, true => Some CRV
  | RR, true, RNone, false => Some CRV
  | RR, true, RNone, true => Some CRV
  | RR, true, RL, false => Some LV
  | RR, true, RL, true => Some CLV
  | RR, true, RR, false => Some RV
  | RR, true, RR, true => Some CRV
  | RNone, _, _, _ => None
  end.

(* [forward]: forward<T>(t) returns static_cast<T&&>(t); ill-formed when const would be dropped or an rvalue
   would be forwarded as an lvalue *)
Definition forward_spec (T e : ty) : option ty :=
  if cst e && negb (cst T) then None
  else if negb (is_lref e) && is_lref T then None
  else Some (mkty (cst T) (match rf T with RL => RL | _ => RR end)).

(* [forward] forward_like<T>(x): OVERRIDE_REF(T&&, COPY_CONST(remove_reference_t<T>, remove_reference_t<U>)) *)
Definition forward_like_spec (T U : ty) : option ty :=
  Some (mkty (cst T || cst U) (match rf T with RL => RL | _ => RR end)).

(* [func.require] INVOKE(f, t1, ...): the object expression for a member pointer *)
Definition INVOKE_obj_spec (r : receiver) : option ty :=
  match r with
  | RcvObj c => Some c                                      (* (t1.*f)  when is_base_of_v<T, remove_cvref_t<decltype(t1)>> *)
  | RcvDerived c => Some c
  | RcvRefWrap false => Some LV | RcvRefWrap true => Some CLV  (* (t1.get().*f) *)
  | RcvPtr false => Some LV | RcvPtr true => Some CLV          (* (( *t1) .* f) *)
  end.
(* [over.match.funcs]/[class.mfct.non.static]: which object expressions a member function accepts *)
Definition pmf_accepts_spec (q : pmfq) (o : ty) : bool :=
  match q, rf o, cst o with
  | QNone, RL, false => true | QNone, RR, false => true
  | QConst, RL, _ => true | QConst, RR, _ => true
  | QL, RL, false => true
  | QCL, RL, _ => true | QCL, RR, _ => true
  | QR, RR, false => true
  | QCR, RR, _ => true
  | _, _, _ => false
  end.
Definition invoke_pmf_spec (q : pmfq) (r : receiver) : bool :=
  match INVOKE_obj_spec r with Some o => pmf_accepts_spec q o | None => false end.
Definition invoke_pmd_spec (r : receiver) : option ty := INVOKE_obj_spec r.
(* INVOKE(f, args...) for a function object: f and every argument arrive exactly as passed *)
Definition invoke_fo_spec (f : ty) (args : list ty) : option (ty * list ty) := Some (f, args).

(* [func.wrap.func.inv] / P0792: INVOKE<R>(f, std::forward<ArgTypes>(args)...), f an lvalue of the target *)
Definition sig_forward_spec (P : ty) : ty :=
  match rf P, cst P with
  | RNone, false => RV | RNone, true => CRV
  | RL, false => LV | RL, true => CLV
  | RR, false => RV | RR, true => CRV
  end.
Definition sig_accepts_spec (P a : ty) : bool :=
  match rf P, cst P, rf a, cst a with
  | RNone, _, _, _ => true
  | RL, false, RL, false => true
  | RL, true, _, _ => true
  | RR, false, RR, false => true
  | RR, true, RR, _ => true
  | _, _, _, _ => false
  end.
Definition ipf_call_spec (P a : ty) : option (ty * ty) :=
  if sig_accepts_spec P a then Some (LV, sig_forward_spec P) else None.
Definition fref_call_spec (fc P a : ty) : option (ty * ty) :=
  if sig_accepts_spec P a then Some ((if cst fc then CLV else LV), sig_forward_spec P) else None.
(* P0792 [func.wrap.ref.ctor] function_ref(F&& f): Constraints is-invocable-using<cv T&>, T = remove_reference_t<F> (cv of the
   signature: none here): the callable is always called as an lvalue *)
Definition fref_ctor_wf_spec (q : pmfq) (a : ty) : bool := pmf_accepts_spec q (mkty (cst a) RL).
(* [refwrap.invoke]: INVOKE(get(), std::forward<ArgTypes>(args)...) *)
Definition refwrap_call_spec (tconst : bool) (a : ty) : option (ty * ty) :=
  Some ((if tconst then CLV else LV), a).
(* [func.not.fn], [func.bind.front]: perfect forwarding call wrappers ([func.require]/4): the state entities
   (target, bound arguments of type decay_t<Args>) are delivered as lvalues for an lvalue wrapper, xvalues for an
   rvalue wrapper, const when the wrapper is const; the call arguments are forwarded *)
Definition notfn_call_spec (w a : ty) : option (ty * ty) :=
  match rf w with RNone => None | _ => Some (w, a) end.
Definition bindfront_call_spec (w : ty) (bound : bool) (a : ty) : option (ty * option ty * ty) :=
  match rf w with RNone => None | _ => Some (w, (if bound then Some w else None), a) end.

(* [tuple.apply]: INVOKE(std::forward<F>(f), get<I>(std::forward<Tuple>(t))...) and T(get<I>(std::forward<Tuple>(t))...) *)
Definition get_all_spec (tc : ty) (kinds : list ty) : option (list ty) := map_opt (get_spec tc) kinds.
Definition apply_cats_spec (fc tc : ty) (kinds : list ty) : option (ty * list ty) :=
  do gs <- get_all_spec tc kinds; Some (fc, gs).

(* [pairs.pair] assignment: the copy overloads (const pair&, const pair<U1,U2>&) assign p.first; the move overloads
   (pair&&, pair<U1,U2>&&) assign std::forward<U1>(p.first), an expression of type U1&&: the member is move-assigned
   exactly when the source pair is a non-const rvalue and U1&& is an rvalue reference to non-const, i.e. the source
   member is neither const nor an lvalue reference (a const rvalue pair can only bind to the copy overloads) *)
Definition pair_assign_spec (dk sk sc : ty) : option bool :=
  match rf sc, cst sc, rf sk, cst sk with
  | RR, false, RNone, false => Some true
  | RR, false, RR, false => Some true
  | _, _, _, _ => Some false
  end.

(* [tuple.creation] tuple_cat: the result is tuple<CTypes...>, CTypes the element types of all operands in order
   (see the end of this file for how the elements are initialised) *)
Definition cat_result_kind_spec (k : ty) : ty := k.
Definition cat_single_nested_arity_spec (inner_arity : nat) : nat := 1%nat.
Definition moved_from (c : ty) : bool :=
  match rf c, cst c with RR, false => true | _, _ => false end.
(* [tuple.helper] tuple_element_t<I, tuple<Types...>> is Types_I, cv-qualifiers and references included *)
Definition tuple_element_kind_spec (k : ty) : ty := k.

(* ================================================================================================ *)
(** * (i) values *)
Section Values.
Context {A : Type}.
Variable lt : A -> A -> bool.

(* equivalence induced by a strict order: neither is less *)
Definition equiv (a b : A) : Prop := lt a b = false /\ lt b a = false.
(* [pairs.spec] / lexicographical comparison on (first, second) *)
Definition lex_lt (l r : A * A) : Prop :=
  lt (fst l) (fst r) = true \/ (equiv (fst l) (fst r) /\ lt (snd l) (snd r) = true).
Definition lex_equiv (l r : A * A) : Prop := equiv (fst l) (fst r) /\ equiv (snd l) (snd r).
End Values.

(* [alg.sorting]/4: a strict weak ordering: irreflexive, transitive, and incomparability is transitive *)
Definition strict_weak {A : Type} (lt : A -> A -> bool) : Prop :=
  (forall a, lt a a = false) /\
  (forall a b c, lt a b = true -> lt b c = true -> lt a c = true) /\
  (forall a b c, equiv lt a b -> equiv lt b c -> equiv lt a c).

(* [pairs.spec] in C++20: the relational operators are synthesised from
     operator<=>: if (auto c = synth-three-way(x.first, y.first); c != 0) return c; return synth-three-way(x.second, y.second);
   x < y iff (x <=> y) < 0, x <= y iff (x <=> y) <= 0, ...  With a partial ordering (floating-point NaN) the result can be
   unordered, and then all four relations are false. *)
Inductive pord := PLess | PEquiv | PGreater | PUnordered.
Definition pord_flip (c : pord) : pord := match c with PLess => PGreater | PGreater => PLess | c => c end.
Definition pair_cmp3_spec {A : Type} (cmp : A -> A -> pord) (l r : A * A) : pord :=
  match cmp (fst l) (fst r) with PEquiv => cmp (snd l) (snd r) | c => c end.
Definition is_lt (c : pord) : bool := match c with PLess => true | _ => false end.
Definition is_le (c : pord) : bool := match c with PLess | PEquiv => true | _ => false end.
Definition is_gt (c : pord) : bool := match c with PGreater => true | _ => false end.
Definition is_ge (c : pord) : bool := match c with PGreater | PEquiv => true | _ => false end.
(* doubles with NaN, abstractly: None is NaN *)
Definition ocmp (a b : option Z) : pord :=
  match a, b with
  | Some x, Some y => if x <? y then PLess else if y <? x then PGreater else PEquiv
  | _, _ => PUnordered
  end.

(* tuple_cat on values: the concatenation of the operands *)
Definition tuple_cat_spec {A} (ts : list (list A)) : list A := concat ts.

(* ================================================================================================ *)
(** * (ii) an owning, copyable call wrapper *)
(* a wrapper is empty or holds a target id with its captured state (here: a call counter) *)
Definition aslot := option (Z * Z).
Record astate := mkas { slots : nat -> aslot; acalls : list (Z * Z) }.
Definition aset (a : astate) (i : nat) (x : aslot) : astate :=
  mkas (fun j => if Nat.eqb j i then x else slots a j) (acalls a).

Definition step_s (stateless : list Z) (n : nat) (a : astate) (o : op) : astate * tok :=
  if negb (in_range n o) then (a, TSkip) else
  match o with
  | OAssignTarget w t | OConvCopy w t | OConvMove w t | OCtorTarget w t =>
      (aset a w (Some (t, 0)), TAck)                       (* the wrapper holds a fresh copy of the target *)
  | OCopyAssign w v | OCopyCtor w v | OConvCopyAssign w v | OConvCopyCtorW w v =>
      (aset a w (slots a v), TAck)                         (* copy duplicates: v keeps its target *)
  | OMoveAssign w v | OMoveCtor w v | OConvMoveAssign w v | OConvMoveCtorW w v =>
      if Nat.eqb w v then (a, TAck)
      else (aset (aset a w (slots a v)) v None, TAck)      (* move transfers: the source becomes empty *)
  | OReset w | OCtorNull w | OAssignNullFn w | OCtorNullFn w =>
      (aset a w None, TAck)                               (* nullptr, and a null function / member pointer, is no target *)
  | OSwap w v => (aset (aset a w (slots a v)) v (slots a w), TAck)   (* swap exchanges *)
  | OCall w arg =>
      match slots a w with
      | None => (a, TEmpty)                                (* empty never calls *)
      | Some (id, c) =>
          let c' := bump stateless id c in                 (* the held target runs exactly once, with arg *)
          (mkas (slots (aset a w (Some (id, c')))) ((id, arg) :: acalls a), TCall (call_result id c' arg))
      end
  | OBool w => (a, TBool (match slots a w with None => false | Some _ => true end))
  end.

Definition amask (n : nat) (a : astate) : list bool :=
  map (fun i => match slots a i with None => false | Some _ => true end) (seq 0 n).
Definition alive (tracked : list Z) (n : nat) (a : astate) : nat :=
  fold_right (fun i acc => (match slots a i with
                            | Some (id, _) => if existsb (Z.eqb id) tracked then 1 else 0
                            | None => 0 end + acc)%nat) 0%nat (seq 0 n).

Fixpoint run_s (stateless tracked : list Z) (n : nat) (a : astate) (ops : list op) : astate * list obs :=
  match ops with
  | [] => (a, [])
  | o :: rest =>
    let r := step_s stateless n a o in
    let r' := run_s stateless tracked n (fst r) rest in
    (fst r', (snd r, amask n (fst r), alive tracked n (fst r)) :: snd r')
  end.

Definition init_astate : astate := mkas (fun _ => None) [].

(* ================================================================================================ *)
(** * executable forms of the value specifications on Z (used by the correspondence run; proved equal to the
      relational forms in Proofs) *)
Definition zpair_eq_spec (l r : Z * Z) : bool := (fst l =? fst r) && (snd l =? snd r).
Definition zpair_lt_spec (l r : Z * Z) : bool := (fst l <? fst r) || ((fst l =? fst r) && (snd l <? snd r)).
Definition zpair_le_spec (l r : Z * Z) : bool := zpair_lt_spec l r || zpair_eq_spec l r.
Definition zpair_gt_spec (l r : Z * Z) : bool := zpair_lt_spec r l.
Definition zpair_ge_spec (l r : Z * Z) : bool := zpair_lt_spec r l || zpair_eq_spec l r.
Definition zlist_eq_spec (l r : list Z) : bool := if list_eq_dec Z.eq_dec l r then true else false.

(* ================================================================================================ *)
(** * [pairs.pair] / [tuple.cnstr] constraints over the element facts *)
Definition pair_traits_spec (a b : elem) : list bool :=
  let x := elem_traits a in let y := elem_traits b in
  [ (* default constructor: Constraints is_default_constructible_v<T1> && is_default_constructible_v<T2> *)
    e_dc x && e_dc y;
    (* pair(const pair&) = default *)
    e_cc x && e_cc y;
    (* pair(pair&&) = default; movable also through the copy constructor *)
    (e_mv x && e_mv y) || (e_cc x && e_cc y);
    (* operator=(const pair&): deleted unless is_copy_assignable_v<T1> && is_copy_assignable_v<T2> *)
    e_ca x && e_ca y;
    (* operator=(pair&&): Constraints is_move_assignable_v<T1> && is_move_assignable_v<T2>; an rvalue is
       otherwise assigned through operator=(const pair&) *)
    (e_ma x && e_ma y) || (e_ca x && e_ca y) ].
Definition tuple_traits_spec (es : list elem) : list bool :=
  [ forallb (fun e => e_dc (elem_traits e)) es; forallb (fun e => e_cc (elem_traits e)) es ].

Definition refwrap_ops_spec (a b : Z) : Z * Z * Z := (a + b + 1, a + 1, b).
Definition fref_ops_spec (v : Z) : list Z := [v + 1; v + 20; v + 20; v + 20; v + 20; v + 1].
Definition notfn_static_spec (v : Z) : bool := 0 <=? v.

(* [func.bind.partial] / [func.not.fn]: the call wrappers are copy- / move-constructible when their state entities are; a copy
   holds its own copy of the target object and of the bound arguments, a moved-to wrapper holds the moved state; a
   reference_wrapper state entity refers to the same object in all copies *)
Definition wrapcopy_spec (x y : Z) : list Z * list bool * Z :=
  ([ 1000 * x + 10 * y + 1001; 1000 * x + 10 * y + 2002; 1000 * x + 10 * y + 2003; 1000 * x + 10 * y + 3004 ],
   [ x <=? y; x <=? y ], x + 2).
(* [func.wrap.func.inv] INVOKE<R>(f, args...) with f a pointer to member: (obj.*f)(1), obj.*f *)
Definition memptr_target_spec (x : Z) : Z * Z := (1 + x, 7).
Definition void_ret_spec (x : Z) : Z := 3 * x + 3.
(* [pairs.spec] make_pair: unwrap_ref_decay_t: reference_wrapper<X> -> X&, everything else decays *)
Definition make_pair_member_spec (wrapped : option bool) : ty :=
  match wrapped with Some false => mkty false RL | Some true => mkty true RL | None => mkty false RNone end.

(* [dcl.struct.bind] + [tuple.helper]: std::tuple supports structured bindings; [tuple.elem] / [pair.astuple]: get<T> *)
Definition tuple_structured_binding_spec : bool := true.
(* [tuple.cnstr]: tuple(const tuple<UTypes...>&), tuple(tuple<UTypes...>&&), tuple(const pair<U1, U2>&), tuple(pair<U1, U2>&&) *)
Definition tuple_converting_ctor_spec : bool := true.
Definition get_by_type_spec (is_pair : bool) : bool := true.

(* ================================================================================================ *)
(** * [pairs.pair], [tuple.cnstr], [tuple.creation]: element transfer on construction *)
(* "initializes first with std::forward<U1>(x)": an object element is move-constructed from a non-const rvalue and
   copy-constructed from everything else; a reference element binds to the argument's object when [dcl.init.ref] allows
   it, otherwise the constructor does not participate (Constraints: is_constructible_v<T1, U1>) *)
Definition init_spec (K a : ty) : option built :=
  match rf K, cst K, rf a, cst a with
  | RNone, _, RR, false => Some (Constructed true)
  | RNone, _, _, _ => Some (Constructed false)
  | RL, false, RL, false => Some Aliased
  | RL, false, _, _ => None
  | RL, true, _, _ => Some Aliased
  | RR, false, RR, false => Some Aliased
  | RR, true, RR, _ => Some Aliased
  | RR, _, _, _ => None
  end.
(* [pairs.pair] converting constructors.  pair(const pair<U1,U2>& p): Constraints is_constructible_v<T1, const U1&>,
   initialises first with p.first (type const U1&: a const lvalue for an object member, the referenced object as a
   non-const-added lvalue for a reference member).  pair(pair<U1,U2>&& p): Constraints is_constructible_v<T1, U1>,
   initialises first with std::forward<U1>(p.first) (U1&&: an xvalue for object and rvalue-reference members, an lvalue
   for lvalue-reference members).  A non-const rvalue source selects the second when it participates. *)
Definition conv_copy_expr (sk : ty) : ty := match rf sk with RNone => mkty true RL | _ => mkty (cst sk) RL end.
Definition conv_move_expr (sk : ty) : ty := match rf sk with RL => mkty (cst sk) RL | _ => mkty (cst sk) RR end.
Definition pair_conv_spec (dk sk sc : ty) : option built :=
  match rf sc, cst sc with
  | RR, false =>
      match init_spec dk (conv_move_expr sk) with
      | Some r => Some r
      | None => init_spec dk (conv_copy_expr sk)
      end
  | _, _ => init_spec dk (conv_copy_expr sk)
  end.
(* [tuple.cnstr]: tuple(const Types&...) / tuple(UTypes&&...): element i is initialised with std::forward<Ui>(ui);
   Constraints sizeof...(Types) == sizeof...(UTypes) *)
Fixpoint tuple_ctor_all_spec (Ks args : list ty) : option (list built) :=
  match Ks, args with
  | [], [] => Some []
  | K :: Ks', a :: args' =>
      match init_spec K a, tuple_ctor_all_spec Ks' args' with
      | Some r, Some rs => Some (r :: rs)
      | _, _ => None
      end
  | _, _ => None
  end.
(* [pairs.spec] make_pair / [tuple.creation] make_tuple: an object element of the decayed type, initialised with
   std::forward<T>(t);  forward_as_tuple: tuple<TTypes&&...>, every element a reference to the argument *)
Definition make_value_spec (a : ty) : option built := init_spec (mkty false RNone) a.
Definition forward_as_tuple_spec (a : ty) : option (ty * built) :=
  match rf a with
  | RL => Some (mkty (cst a) RL, Aliased)
  | RR => Some (mkty (cst a) RR, Aliased)
  | RNone => None
  end.

(* ================================================================================================ *)
(** * the call wrappers with any number of arguments *)
(* [func.require]/4 perfect forwarding call wrappers (not_fn, bind_front): the target and the bound arguments (decay
   copies) are delivered with the wrapper's own category, the call arguments exactly as passed, bound arguments first *)
Definition wrapper_call_all_spec (w : ty) (nbound : nat) (args : list ty) : option (ty * list ty) :=
  match rf w with RNone => None | _ => Some (w, repeat w nbound ++ args) end.
(* [refwrap.invoke] *)
Definition refwrap_call_all_spec (tconst : bool) (args : list ty) : option (ty * list ty) :=
  Some ((if tconst then CLV else LV), args).
(* [func.wrap.func.inv] / P0792: every argument initialises the parameter of the signature and is forwarded as
   std::forward<ArgTypes>(args); the number of arguments is the number of parameters *)
Fixpoint sig_args_spec (Ps args : list ty) : option (list ty) :=
  match Ps, args with
  | [], [] => Some []
  | P :: Ps', a :: args' =>
      if sig_accepts_spec P a then
        match sig_args_spec Ps' args' with Some r => Some (sig_forward_spec P :: r) | None => None end
      else None
  | _, _ => None
  end.
Definition ipf_call_all_spec (Ps args : list ty) : option (ty * list ty) :=
  match sig_args_spec Ps args with Some ys => Some (LV, ys) | None => None end.
Definition fref_call_all_spec (fc : ty) (Ps args : list ty) : option (ty * list ty) :=
  match sig_args_spec Ps args with Some ys => Some ((if cst fc then CLV else LV), ys) | None => None end.

(* ================================================================================================ *)
(** * results come back unchanged *)
(* [func.invoke] invoke returns INVOKE(...) as invoke_result_t; [tuple.apply] apply returns decltype(auto); [refwrap.invoke],
   [func.bind.front] ([func.require]/4: "returns the result of the call to the target"): type and category of the result
   are those of the call expression *)
Definition transparent_ret_spec (r : ty) : option ty := Some r.
(* [func.wrap.func.inv] / P0792: INVOKE<R>: the result implicitly converted to R; the wrapper can be constructed only if
   that conversion exists ([conv], [dcl.init.ref], one object type A): an object R from anything; A& from a non-const
   lvalue; const A& from anything; A&& from a non-const rvalue; const A&& from any rvalue *)
Definition ret_convertible_spec (R r : ty) : bool :=
  match rf R, cst R, rf r, cst r with
  | RNone, _, _, _ => true
  | RL, false, RL, false => true
  | RL, true, _, _ => true
  | RR, false, RL, _ => false
  | RR, false, _, false => true
  | RR, true, RL, _ => false
  | RR, true, _, _ => true
  | _, _, _, _ => false
  end.
Definition sig_ret_spec (R r : ty) : option ty := if ret_convertible_spec R r then Some R else None.

(* ================================================================================================ *)
(** * [tuple.creation] tuple_cat with element types *)
(* the result type: the element types of all operands, in order *)
Definition tuple_cat_result_spec (ts : list toperand) : list ty := concat (map (fun o : toperand => map fst (snd o)) ts).
(* element k of operand tp of declared type T is initialised with get<k>(std::forward<Tp>(tp)): an object element is
   copied or moved, a reference element is bound; the call is ill-formed when one element cannot be initialised *)
Definition cat_elem_spec (c : ty) (e : telem) : option (Z * built) :=
  do g <- get_spec c (fst e); do b <- init_spec (fst e) g; Some (snd e, b).
Definition tuple_cat_t_spec (ts : list toperand) : option (list (Z * built)) :=
  do parts <- map_opt (fun o : toperand => map_opt (cat_elem_spec (fst o)) (snd o)) ts;
  Some (concat parts).

(* ================================================================================================ *)
(** * [refwrap.const], [refwrap.helpers]: only lvalues can be wrapped *)
(* reference_wrapper<T>(U&&): T& must bind to the argument and the argument must not be an rvalue;
   ref(T&), ref(const T&&) = delete, cref(const T&), cref(const T&&) = delete *)
Definition refwrap_ctor_wf_spec (tconst : bool) (a : ty) : bool :=
  match rf a, cst a with
  | RL, false => true
  | RL, true => tconst
  | _, _ => false
  end.
Definition ref_wf_spec (a : ty) : bool := match rf a with RL => true | _ => false end.
Definition cref_wf_spec (a : ty) : bool := match rf a with RL => true | _ => false end.

Definition refwrap_std_spec (x : Z) : Z * Z := (x + 1, Z.abs x mod 7).

(* [pairs.spec] swap(pair&, pair&): Constraints is_swappable_v<T1> && is_swappable_v<T2>.  (For a copy-only member, whose
   move operations are deleted, libstdc++ additionally deletes the overload while the standard's wording lets the generic
   std::swap copy: that combination is left out of the comparison.) *)
Definition pair_swappable_spec (a b : elem) : bool := elem_swappable a && elem_swappable b.

(* [tuple.special] swap(tuple&, tuple&): Constraints is_swappable_v<T> for every element type; calls x.swap(y), which swaps
   element by element -- reference elements exchange the values they refer to *)
Definition tuple_swappable_spec (es : list elem) : bool := forallb elem_swappable es.
Definition tuple_swap_refs_spec (a b c d : Z) : list Z := [c; d; a; b; a; b; c; d].

(* [func.wrap.ref.ctor]: function_ref(F* f) with is_function_v<F> initialises bound-entity with f (the pointer itself);
   [func.wrap.ref.class]: operator=(T) is deleted unless T is function_ref or a pointer *)
Definition fref_ptr_spec (v : Z) : list Z * list bool :=
  ([v + 1; v + 1; v + 1; v + 2], [false; false; true; true; false; true]).

(* [func.bind.partial]: the call wrapper's target object is direct-non-list-initialised with std::forward<F>(f), every bound
   argument object (of type decay_t) with std::forward<Args>(args); [func.not.fn]: the same for the target of not_fn: copied
   from an lvalue or const argument, moved from a non-const rvalue *)
Definition wrapper_ctor_spec (fc : ty) (bound : list ty) : option (built * list built) :=
  do bf <- init_spec (mkty false RNone) fc; do bs <- map_opt (init_spec (mkty false RNone)) bound; Some (bf, bs).
(* copies (x10) and moves (x1) of the tracked element prescribed by [func.bind.partial] (bound arguments are decay-copied once,
   delivered as lvalues / xvalues), [func.wrap.func.con] (the target is direct-initialised with std::forward<F>(f)),
   [tuple.creation], [tuple.apply] for the eleven expressions of op xfer *)
Definition xfer_spec : list Z := [10; 1; 11; 2; 10; 1; 10; 1; 1; 2; 2].

(* [tuple.cnstr]/[pairs.pair]: each element is initialised with std::forward<U>(u), i.e. T(u): vector<int>(k) has k elements,
   long(n + 0.5) truncates towards zero *)
Definition tuple_init_spec (n : Z) : list Z :=
  let k := Z.abs n mod 9 in
  let tr := Z.quot (2 * n + 1) 2 in
  [k; k; tr; k; tr].
