(* C20 — specification, part (vi): which constructors of pair / tuple are explicit.

   [pairs.pair], [tuple.cnstr] (C++20): every element-converting constructor has
     Constraints: is_constructible_v<Ti, source_i> is true for every i (and the arities agree);
     Remarks:     the expression inside explicit is true exactly when is_convertible_v<source_i, Ti> is false for SOME i.
   So: the constructor exists when every element can be constructed, and it is a converting (implicit) constructor when every
   element conversion is implicit - one explicit-only element conversion makes the whole constructor explicit.  Nothing here
   mentions how a header spells the test. *)
From Coq Require Import List Bool.
From Tetl Require Import C20.ModelExpl.
Import ListNotations.

Definition explicit_only (c : conv) : bool := match c with CExpl => true | _ => false end.
Definition absent (c : conv) : bool := match c with CNone => true | _ => false end.

Definition ctor_spec (es : list conv) : verdict :=
  if existsb absent es then VNone
  else if existsb explicit_only es then VExplicit
  else VImplicit.

(* the source expression each constructor converts element i from *)
Definition query_spec (s : xsite) : edesc -> conv :=
  match s with
  | SPDefault | STDefault => q_def          (* value-initialisation of each element *)
  | SPCref | STCref => q_self               (* (const T1&, const T2&) / (const Types&...): copy of each element *)
  | SPFwdR | STFwdR => q_rref               (* (U1&&, U2&&) / (UTypes&&...) from rvalues: std::forward<Ui>(u_i) *)
  | SPFwdC | STFwdC => q_cref               (* the same constructors, Ui deduced as const lvalue references *)
  | SPConv cst rv => if rv && negb cst then q_rref   (* pair(pair<U1, U2>&& p): std::forward<Ui>(p.first / second) *)
                     else q_cref                     (* pair(const pair<U1, U2>& p): every other pair expression binds here *)
  end.

(* pairs have two elements; tuple(const Types&...) and tuple(UTypes&&...) need sizeof...(Types) >= 1 *)
Definition xarity_ok (s : xsite) (n : nat) : bool :=
  match s with
  | STDefault => true
  | STCref | STFwdR | STFwdC => negb (Nat.eqb n 0)
  | _ => Nat.eqb n 2
  end.

(* an rvalue pair<U1, U2> may be converted by pair(pair<U1, U2>&&) or, binding to the const reference, by
   pair(const pair<U1, U2>&): the conversion exists / is implicit when it does through one of the two *)
Definition xsite_s (s : xsite) (es : list edesc) : option verdict :=
  if xarity_ok s (length es) then
    Some (match s with
          | SPConv false true => vmax (ctor_spec (map q_rref es)) (ctor_spec (map q_cref es))
          | _ => ctor_spec (map (query_spec s) es)
          end)
  else None.

Definition expl_case_s (site : nat) (es : list edesc) : option (bool * bool) :=
  match xsite_of_code site with
  | Some s => option_map xfacts (xsite_s s es)
  | None => None
  end.

(* [func.wrap.func.con]: function() / function(nullptr_t) / template<class F> function(F&&) (Constraints: F callable for the
   signature) are not explicit, [func.wrap.func.cap] `explicit operator bool`; [refwrap.const] reference_wrapper(U&&) is not
   explicit and participates when FUN(declval<U>()) is well-formed, [refwrap.access] `operator T&` is not explicit; P0792
   [func.wrap.ref.ctor] function_ref(F* f), function_ref(F&&) are not explicit.  Same order as ModelExpl.wrapper_ctors_m *)
Definition wrapper_ctors_spec : list verdict :=
  [VImplicit; VImplicit; VImplicit; VImplicit; VNone; VImplicit; VExplicit; VExplicit;
   VImplicit; VNone; VNone; VImplicit; VImplicit; VImplicit; VNone; VImplicit; VImplicit; VNone].
Definition wrapper_ctors_etl_spec : list verdict := [VImplicit; VImplicit; VImplicit; VImplicit; VImplicit; VImplicit].
