(* C20 — property theorems, part (v): the FORM of initialisation wherever the library constructs a user type from forwarded
   arguments (make_from_tuple, tuple / pair element initialisation, make_pair, make_tuple, tuple_cat, the storage and the
   copy / relocate thunks of inplace_function, bind_front, not_fn, the return conversion of invoke_r).  Classes are described
   by their constructor lists (any number of ordinary, explicit and initializer_list constructors over long / size_t /
   double / the class itself); `resolve` is the language's choice of constructor for T(args), T{args}, = {args}, = arg. *)
From Coq Require Import ZArith List Bool.
From Tetl Require Import C20.Model C20.ProofsVal C20.ModelInit C20.SpecInit C20.ProofsInit.
Import ListNotations.
Local Open Scope Z_scope.

(* every site, every class, every argument list: the constructor selected and the object built are the ones the standard
   prescribes (direct-non-list-initialisation; implicit conversion for INVOKE<R>).  Domain: not_fn requires its callable
   to be Cpp17MoveConstructible ([func.not.fn]), i.e. no explicit copy / move constructor *)
Theorem C20_sites_initialise_as_specified : forall s c args vals,
  (s = SNotFn -> no_explicit c /\ args = [ASelf]) -> site_m s c args vals = site_s s c args vals.
Proof. intros s c args vals H. apply site_refines; intro E; apply (H E). Qed.
Print Assumptions C20_sites_initialise_as_specified.
Theorem C20_copy_sites_initialise_as_specified : forall s c x,
  (s = SNotFn -> no_explicit c) -> site_self_m s c x = site_self_s s c x.
Proof. exact site_self_refines. Qed.
Print Assumptions C20_copy_sites_initialise_as_specified.

(* clauses *)
Theorem C20_parentheses_never_select_a_list_constructor : forall c args i, resolve Paren c args = Picked i ->
  exists e ps, nth_error (ctors c) i = Some (Ord e ps) /\ length ps = length args.
Proof. exact paren_never_list. Qed.
Print Assumptions C20_parentheses_never_select_a_list_constructor.
Theorem C20_return_conversion_uses_converting_constructors_only : forall c args i, resolve CopyInit c args = Picked i ->
  exists ps, nth_error (ctors c) i = Some (Ord false ps) /\ length ps = length args.
Proof. exact copyinit_never_list_nor_explicit. Qed.
Print Assumptions C20_return_conversion_uses_converting_constructors_only.
Theorem C20_braces_select_a_viable_list_constructor : forall c args i, args <> [] -> il_cands c args <> [] ->
  resolve Brace c args = Picked i -> exists e, nth_error (ctors c) i = Some (IL e).
Proof. exact brace_prefers_list. Qed.
Print Assumptions C20_braces_select_a_viable_list_constructor.

(* make_from_tuple<T>(t) = T(get<0>(t), ..., get<N-1>(t)) over the index expansion of part (i): T direct-non-list-
   initialised from the elements, for every arity *)
Theorem C20_make_from_tuple_direct_initialises : forall d c elems,
  mft_init_m (idx_expand d) c elems = init_spec_k DirectNonList c elems.
Proof. intros d c elems. unfold mft_init_m. rewrite idx_expand_id. apply resolve_paren_spec. Qed.
Print Assumptions C20_make_from_tuple_direct_initialises.

(* why no class without an initializer_list constructor (and no narrowing) can tell braces from parentheses - the 261
   tests and the element types of parts (i)-(iv) - and why the braces around the library's own forwarding classes
   (tuple_impl, tuple_leaf, bind_front_t: one constructor template whose parameters are deduced) are harmless *)
Theorem C20_braces_unobservable_without_list_constructor : forall c args i,
  (forall k, In k (ctors c) -> match k with IL _ => False | _ => True end) ->
  resolve Paren c args = Picked i -> any_narrowing args (params_of c (CO i) args) = false -> resolve Brace c args = Picked i.
Proof. exact no_list_ctor_brace_eq_paren. Qed.
Print Assumptions C20_braces_unobservable_without_list_constructor.
Theorem C20_library_forwarding_layers_transparent : forall args, args <> [ASelf] ->
  resolve Brace (fwd_cls args) args = Picked 0 /\ resolve Paren (fwd_cls args) args = Picked 0.
Proof. exact fwd_cls_transparent. Qed.
Print Assumptions C20_library_forwarding_layers_transparent.

(* and why the form matters: a (count, value) class with a list constructor is built differently; a narrowing
   conversion is rejected; copy-list-initialisation rejects an explicit copy constructor (make_pair before 171f50d) *)
Theorem C20_braces_would_differ :
  resolve Paren buf_cls [ASize; ASize] = Picked 0 /\ resolve Brace buf_cls [ASize; ASize] = Picked 1.
Proof. exact brace_differs. Qed.
Print Assumptions C20_braces_would_differ.
Theorem C20_braces_would_reject_narrowing :
  resolve Paren trunc_cls [ADbl] = Picked 0 /\ resolve Brace trunc_cls [ADbl] = Ill Narrowing
  /\ resolve Paren buf_cls [ALong; ALong] = Picked 0 /\ resolve Brace buf_cls [ALong; ALong] = Ill Narrowing.
Proof. exact brace_narrowing. Qed.
Print Assumptions C20_braces_would_reject_narrowing.
Theorem C20_copy_list_initialisation_rejects_explicit_copy :
  resolve Paren expl_cls [ASelf] = CopyCtor /\ resolve CopyList expl_cls [ASelf] = Ill ExplicitChosen
  /\ resolve CopyInit expl_cls [ASelf] = Ill NoViable.
Proof. exact copylist_explicit. Qed.
Print Assumptions C20_copy_list_initialisation_rejects_explicit_copy.

(* inplace_function: any number of copies / moves / conversions of the wrapper hold the callable that was passed in
   (every class whose parenthesised copy is the copy constructor: all classes of the harness); the braces that stood in the
   three places before 66f49be wrapped a callable with an initializer_list<Self> constructor once more per step *)
Theorem C20_wrapper_copies_hold_the_same_object : forall c n x,
  resolve Paren c [ASelf] = CopyCtor -> rehops c (repeat Paren n) x = Some x.
Proof. exact paren_copies_keep. Qed.
Print Assumptions C20_wrapper_copies_hold_the_same_object.
Theorem C20_inplace_function_braces_rewrapped_refuted : forall n x,
  exists y, rehops tree_cls (repeat Brace n) x = Some y /\ odepth y = odepth x + Z.of_nat n.
Proof. intros n x. eexists. split. apply tree_braces_rewrap. reflexivity. Qed.
Print Assumptions C20_inplace_function_braces_rewrapped_refuted.

(* non-vacuity: the sites really construct (no Ill, no skip) for the classes of the harness *)
Example C20_init_nonvacuous :
  init_case_m 0 0 3 7 = IOk (mkobj 0 3 7 0) /\ init_case_s 0 0 3 7 = IOk (mkobj 0 3 7 0)
  /\ init_case_m 15 5 3 7 = IOk (mkobj 0 1 3 0) /\ init_case_gen site_forms_old 15 5 3 7 = IOk (mkobj 1 1 3 2)
  /\ init_case_m 23 3 5 0 = IOk (mkobj 0 1 5 0) /\ init_case_m 22 5 4 0 = init_case_s 22 5 4 0
  /\ no_explicit tree_cls.
Proof. repeat split; try reflexivity. simpl. intros k [H | [H | []]]; subst k; exact I. Qed.
