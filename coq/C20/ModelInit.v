(* C20, part (v): WHICH CONSTRUCTOR builds a user type when the library constructs it from forwarded arguments.

   The anchored headers construct an object of a USER type in these places (the "sites"):
     make_from_tuple.hpp   return T(get<I>(etl::forward<Tuple>(t))...);                                      parentheses
     tuple.hpp             tuple_leaf(Args&&... args) : _value(etl::forward<Args>(args)...)                  parentheses
     pair.hpp              first(t1) / first(etl::forward<U1>(x)) / first(p.first) / first(etl::forward<U1>(p.first))
     pair.hpp              make_pair: return pair<V1, V2>(etl::forward<T1>(t), etl::forward<T2>(u));   (fix 171f50d; was return {..})
     tuple_cat.hpp         return Ret(get<Is>(etl::forward<Result>(result))...);                             parentheses
     inplace_function.hpp  ::new (&_storage) C(etl::forward<T>(closure)); copy_ptr: ::new (dst) C( *src);
                           relocate_ptr: ::new (dst) C(etl::move( *src));                  (fix 66f49be; all three were C{...})
     bind_front.hpp        _func(etl::forward<F>(f)), _boundArgs(etl::forward<BA>(ba)...) -> tuple -> tuple_leaf
     not_fn.hpp            return {etl::forward<F>(f)};   aggregate: the member f is COPY-initialised from the expression
     invoke_r.hpp          return etl::invoke(...);       the result is COPY-initialised (implicit conversion to R); reached
                           through the invoke thunks of inplace_function and function_ref
   and they brace-initialise LIBRARY classes whose constructor is a forwarding template (tuple.hpp: _impl{...},
   tuple_leaf<Idx, Ts>{...}; bind_front.hpp: bind_front_t<...>{...}).

   The form of the initialiser decides which constructor runs ([dcl.init], [over.match.list]): T{a, b} tries the
   initializer_list constructors first and rejects narrowing, T(a, b) never considers them.  The language rule is
   transcribed below (`resolve`) for classes described by their constructor list; it is asked of the compiler for every
   class of the harness (op `init`, props/C20/c20_init.inc, and the compile-only probes props/C20/wf_probes.py).  *)
From Coq Require Import ZArith List Bool Arith Lia.
Import ListNotations.
Local Open Scope Z_scope.

(** * classes, initialiser forms, overload resolution *)
(* argument / parameter types: long, size_t, double, the class itself (by reference in a parameter, by value as element) *)
Inductive aty := ALong | ASize | ADbl | ASelf.
Definition aty_eqb (a b : aty) : bool :=
  match a, b with ALong, ALong | ASize, ASize | ADbl, ADbl | ASelf, ASelf => true | _, _ => false end.
Definition is_arith (a : aty) : bool := match a with ASelf => false | _ => true end.

(* an ordinary constructor T(p1, ..., pn) (explicit or not), or T(std::initializer_list<elem>) *)
Inductive ctor := Ord (expl : bool) (ps : list aty) | IL (elem : aty).
(* copy_explicit: the copy / move constructors are declared explicit *)
Record cls := mkcls { ctors : list ctor; copy_explicit : bool }.

Inductive form :=
  | Paren      (* T(args...)            direct-non-list-initialisation *)
  | Brace      (* T{args...}            direct-list-initialisation *)
  | CopyList   (* T x = {args...}; return {args...};   copy-list-initialisation *)
  | CopyInit.  (* T x = arg; return arg; an aggregate member initialised from an expression   copy-initialisation *)

Inductive reason := NoViable | Ambiguous | Narrowing | ExplicitChosen.
Inductive outcome := Picked (i : nat) | CopyCtor | Ill (why : reason).

(* does the class convert implicitly from an arithmetic type (a non-explicit one-parameter constructor)? *)
Definition converts_from_arith (c : cls) : bool :=
  existsb (fun k => match k with Ord false [p] => is_arith p | _ => false end) (ctors c).

(* implicit conversion sequence from an argument of type `from` to a parameter / element of type `to`: its rank
   (0 exact, 1 standard conversion, 2 user-defined conversion), None = none.  No conversion FUNCTIONS in the model. *)
Definition conv (c : cls) (from to : aty) : option nat :=
  if aty_eqb from to then Some 0%nat
  else if is_arith from && is_arith to then Some 1%nat
  else if is_arith from && negb (is_arith to) && converts_from_arith c then Some 2%nat
  else None.
(* [dcl.init.list]/7 for a NON-constant source (a forwarded argument never is a constant expression): every conversion
   between two different types among long / size_t / double is narrowing *)
Definition narrowing (from to : aty) : bool := is_arith from && is_arith to && negb (aty_eqb from to).

Fixpoint ranks (c : cls) (args ps : list aty) : option (list nat) :=
  match args, ps with
  | [], [] => Some []
  | a :: ar, p :: pr =>
      match conv c a p, ranks c ar pr with Some r, Some rs => Some (r :: rs) | _, _ => None end
  | _, _ => None
  end.
Definition any_narrowing (args ps : list aty) : bool :=
  existsb (fun ap => narrowing (fst ap) (snd ap)) (combine args ps).

(* a candidate: which constructor (CC = the implicit copy / move constructor), explicit?, the ranks of its arguments *)
Inductive cid := CO (i : nat) | CC.
Record cand := mkcand { who : cid; cexpl : bool; crk : list nat }.

Fixpoint ord_cands_from (c : cls) (i : nat) (ks : list ctor) (args : list aty) : list cand :=
  match ks with
  | [] => []
  | Ord e ps :: r =>
      match ranks c args ps with
      | Some rs => mkcand (CO i) e rs :: ord_cands_from c (S i) r args
      | None => ord_cands_from c (S i) r args
      end
  | IL _ :: r => ord_cands_from c (S i) r args       (* an initializer_list parameter takes no parenthesised argument *)
  end.
Definition ord_cands (c : cls) (args : list aty) : list cand :=
  ord_cands_from c 0 (ctors c) args
  ++ match args with [ASelf] => [mkcand CC (copy_explicit c) [0%nat]] | _ => [] end.

Fixpoint max_rank (l : list nat) : nat := match l with [] => 0%nat | x :: r => Nat.max x (max_rank r) end.
(* [over.ics.list]: the conversion to initializer_list<X> is the worst conversion of any element; the elements are
   copy-initialised, so an element of the class type itself needs a non-explicit copy constructor *)
Fixpoint il_cands_from (c : cls) (i : nat) (ks : list ctor) (args : list aty) : list cand :=
  match ks with
  | [] => []
  | IL e :: r =>
      match ranks c args (map (fun _ => e) args) with
      | Some rs =>
          if existsb (fun a => aty_eqb a ASelf) args && aty_eqb e ASelf && copy_explicit c
          then il_cands_from c (S i) r args
          else mkcand (CO i) false [max_rank rs] :: il_cands_from c (S i) r args
      | None => il_cands_from c (S i) r args
      end
  | Ord _ _ :: r => il_cands_from c (S i) r args
  end.
Definition il_cands (c : cls) (args : list aty) : list cand := il_cands_from c 0 (ctors c) args.

(* [over.match.best]: x is at least as good as y in every argument and better in one *)
Fixpoint all_le (x y : list nat) : bool :=
  match x, y with a :: xr, b :: yr => (a <=? b)%nat && all_le xr yr | _, _ => true end.
Fixpoint some_lt (x y : list nat) : bool :=
  match x, y with a :: xr, b :: yr => (a <? b)%nat || some_lt xr yr | _, _ => false end.
Definition better (x y : cand) : bool := all_le (crk x) (crk y) && some_lt (crk x) (crk y).
Definition cid_eqb (a b : cid) : bool :=
  match a, b with CO i, CO j => (i =? j)%nat | CC, CC => true | _, _ => false end.
Definition beats_all (x : cand) (l : list cand) : bool :=
  forallb (fun y => cid_eqb (who x) (who y) || better x y) l.
Definition pick (l : list cand) : cand + reason :=
  match l with
  | [] => inr NoViable
  | _ => match filter (fun x => beats_all x l) l with x :: _ => inl x | [] => inr Ambiguous end
  end.

Definition params_of (c : cls) (w : cid) (args : list aty) : list aty :=
  match w with
  | CC => [ASelf]
  | CO i => match nth_error (ctors c) i with
            | Some (Ord _ ps) => ps
            | Some (IL e) => map (fun _ => e) args
            | None => []
            end
  end.
Definition out_of (w : cid) : outcome := match w with CO i => Picked i | CC => CopyCtor end.

Definition has_default (c : cls) : bool :=
  existsb (fun k => match k with Ord _ [] => true | _ => false end) (ctors c).

Definition resolve (f : form) (c : cls) (args : list aty) : outcome :=
  match f with
  | Paren => match pick (ord_cands c args) with inl x => out_of (who x) | inr r => Ill r end
  | CopyInit =>
      (* explicit constructors are not candidates ([over.match.copy]) *)
      match args with
      | [_] => match pick (filter (fun x => negb (cexpl x)) (ord_cands c args)) with
               | inl x => out_of (who x) | inr r => Ill r end
      | _ => Ill NoViable
      end
  | Brace | CopyList =>
      let phase1 := match args with [] => if has_default c then [] else il_cands c args | _ => il_cands c args end in
      let l := match phase1 with [] => ord_cands c args | _ => phase1 end in
      match pick l with
      | inr r => Ill r
      | inl x =>
          if any_narrowing args (params_of c (who x) args) then Ill Narrowing
          else if cexpl x && match f with CopyList => true | _ => false end then Ill ExplicitChosen
          else out_of (who x)
      end
  end.

(** * what the constructed object looks like *)
(* every class of the harness records: the index of the constructor that built it, a size and a front value (ordinary
   (count, value): size = count, front = value; ordinary (x): size 1, front x; list: number of elements, first element),
   and how many times it was re-wrapped by an initializer_list<Self> constructor (depth) *)
Record obj := mkobj { ohow : Z; osize : Z; ofront : Z; odepth : Z }.

Definition first_obj (c : cls) (o : outcome) (vals : list Z) : option obj :=
  match o with
  | Picked i =>
      match nth_error (ctors c) i, vals with
      | Some (Ord _ [_; _]), [a; b] => Some (mkobj (Z.of_nat i) a b 0)
      | Some (Ord _ [_]), [a] => Some (mkobj (Z.of_nat i) 1 a 0)
      | Some (IL e), a :: _ => Some (mkobj (Z.of_nat i) (Z.of_nat (length vals)) a (if aty_eqb e ASelf then 1 else 0))
      | _, _ => None
      end
  | _ => None
  end.
(* a further construction of the class from the object itself (copy, move, or a list constructor taking it as element) *)
Definition rehop (c : cls) (f : form) (x : obj) : option obj :=
  match resolve f c [ASelf] with
  | CopyCtor => Some x
  | Picked i => match nth_error (ctors c) i with
                | Some (IL ASelf) => Some (mkobj (Z.of_nat i) 1 (ofront x) (odepth x + 1))
                | _ => None
                end
  | Ill _ => None
  end.
Fixpoint rehops (c : cls) (fs : list form) (x : obj) : option obj :=
  match fs with [] => Some x | f :: r => match rehop c f x with Some y => rehops c r y | None => None end end.

(** * the sites *)
Inductive site :=
  | SMftL | SMftR | SMftC | SMftPair | SMftArray                  (* make_from_tuple<T>(tuple& / tuple&& / tuple const& / pair / array) *)
  | STupleFwd | STupleCref | SPairFwd | SPairCref | SPairConvC | SPairConvM
  | SMakePair | SMakeTuple | STupleCat
  | SIpfCtor | SIpfCopy | SIpfMove | SIpfConvCopy | SIpfConvMove | SIpfAssign
  | SBindFn | SBindArg | SNotFn
  | SInvokeR | SIpfRet | SFrefRet.

(* the forms of the constructions of the user type the library performs at the site, in program order, as the headers
   write them (see the table at the top); the first one receives the caller's arguments, later ones the object itself *)
Definition site_forms (s : site) : list form :=
  match s with
  | SMftL | SMftR | SMftC | SMftPair | SMftArray => [Paren]
  | STupleFwd | STupleCref | SPairFwd | SPairCref | SPairConvC | SPairConvM => [Paren]
  | SMakePair | SMakeTuple => [Paren]
  | STupleCat => [Paren; Paren]                 (* the operand tuple<T>(T const&) built by the caller, then Ret(get<Is>(...)...) *)
  | SIpfCtor => [Paren]
  | SIpfCopy | SIpfMove | SIpfConvCopy | SIpfConvMove => [Paren; Paren]     (* inplace_function(T&&), then the copy / relocate thunk *)
  | SIpfAssign => [Paren; Paren]                (* the by-value parameter of operator= from the callable, relocated into *this *)
  | SBindFn | SBindArg => [Paren]
  | SNotFn => [CopyInit]
  | SInvokeR | SIpfRet | SFrefRet => [CopyInit]
  end.
(* the same code before the repairs 66f49be / 171f50d (for the refutation theorems) *)
Definition site_forms_old (s : site) : list form :=
  match s with
  | SIpfCtor => [Brace]
  | SIpfCopy | SIpfMove | SIpfConvCopy | SIpfConvMove | SIpfAssign => [Brace; Brace]
  | _ => site_forms s
  end.

Definition run_forms (fs : list form) (c : cls) (args : list aty) (vals : list Z) : outcome * option obj :=
  match fs with
  | [] => (Ill NoViable, None)
  | f :: r =>
      let o := resolve f c args in
      (o, match first_obj c o vals with Some x => rehops c r x | None => None end)
  end.
(* for an argument that already IS an object of the class (copy sites): every construction is a re-hop *)
Definition run_forms_self (fs : list form) (c : cls) (x : obj) : outcome * option obj :=
  match fs with
  | [] => (Ill NoViable, None)
  | f :: _ => (resolve f c [ASelf], rehops c fs x)
  end.

Definition site_m (s : site) (c : cls) (args : list aty) (vals : list Z) : outcome * option obj :=
  run_forms (site_forms s) c args vals.
Definition site_self_m (s : site) (c : cls) (x : obj) : outcome * option obj :=
  run_forms_self (site_forms s) c x.

(* library classes whose only constructor is a forwarding template (tuple_impl, tuple_leaf, bind_front_t): the parameter
   types are DEDUCED, i.e. they are the argument types *)
Definition fwd_cls (args : list aty) : cls := mkcls [Ord true args] false.

(* make_from_tuple over the index expansion of Model.v part (i): T(get<0>(t), ..., get<N-1>(t)) *)
Definition mft_init_m (expand : list aty -> list aty) (c : cls) (elems : list aty) : outcome := resolve Paren c (expand elems).

(** * the classes and argument lists of the harness (props/C20/c20_init.inc), by scenario code *)
Definition buf_cls := mkcls [Ord false [ASize; ASize]; IL ASize] false.      (* Buf, std::vector<size_t> *)
Definition plain_cls := mkcls [Ord false [ALong; ALong]] false.
Definition conv_cls := mkcls [Ord false [ALong]; IL ALong] false.
Definition tree_cls := mkcls [Ord false [ALong]; IL ASelf] false.
Definition trunc_cls := mkcls [Ord false [ALong]] false.
Definition wide_cls := mkcls [Ord false [ASize; ASize]; IL ALong] false.
Definition expl_cls := mkcls [Ord false []] true.
Definition mixed_cls := mkcls [Ord false [ALong; ADbl]; IL ADbl] false.

Definition scen_cls (sc : nat) : option cls :=
  match sc with
  | 0 | 1 | 7 => Some buf_cls | 2 => Some plain_cls | 3 => Some conv_cls | 4 | 5 => Some tree_cls
  | 6 => Some trunc_cls | 8 => Some wide_cls | 9 => Some expl_cls | 10 => Some mixed_cls | _ => None
  end%nat.
Definition scen_args (sc : nat) : list aty :=
  match sc with
  | 0 | 1 | 8 => [ASize; ASize] | 2 | 7 => [ALong; ALong] | 3 | 4 => [ALong] | 5 | 9 => [ASelf] | 6 => [ADbl]
  | 10 => [ALong; ADbl] | _ => []
  end%nat.
(* the harness reduces a count to [0, 9) and a value to [0, 1000) for the size_t classes *)
Definition norm_count (a : Z) : Z := Z.abs a mod 9.
Definition norm_val (b : Z) : Z := Z.abs b mod 1000.
Definition scen_vals (sc : nat) (a b : Z) : list Z :=
  match length (scen_args sc), sc with
  | 2%nat, (0 | 1 | 8)%nat => [norm_count a; norm_val b]
  | 2%nat, _ => [a; b]
  | _, _ => [a]
  end.

Definition site_of_code (k : nat) : option site :=
  nth_error [SMftL; SMftR; SMftC; SMftPair; SMftArray; STupleFwd; STupleCref; SPairFwd; SPairCref; SPairConvC; SPairConvM;
             SMakePair; SMakeTuple; STupleCat; SIpfCtor; SIpfCopy; SIpfMove; SIpfConvCopy; SIpfConvMove; SIpfAssign;
             SBindFn; SBindArg; SNotFn; SInvokeR; SIpfRet; SFrefRet] k.

(* which (site, scenario) combinations exist as code (the others are `skip` in every leg) *)
Definition site_takes_two (s : site) : bool :=
  match s with SMftL | SMftR | SMftC | SMftPair | SMftArray => true | _ => false end.
Definition site_takes_self (s : site) : bool :=           (* sites that copy / move an existing object of the class *)
  match s with
  | STupleCref | SPairCref | SMakePair | SMakeTuple | STupleCat | SIpfCtor | SIpfCopy | SIpfMove | SIpfConvCopy | SIpfConvMove
  | SIpfAssign | SBindFn | SBindArg | SNotFn | SMftL | SMftR | SMftC | STupleFwd | SPairFwd => true
  | _ => false
  end.
Definition site_takes_one (s : site) : bool :=            (* sites that build the class from ONE argument of another type *)
  match s with
  | SMftL | SMftR | SMftC | STupleFwd | SPairFwd | SPairConvC | SPairConvM | SInvokeR | SIpfRet | SFrefRet => true
  | _ => false
  end.
Definition applicable (s : site) (sc : nat) : bool :=
  match length (scen_args sc), scen_args sc with
  | 2%nat, _ => site_takes_two s
  | 1%nat, [ASelf] => site_takes_self s
  | 1%nat, _ => site_takes_one s
  | _, _ => false
  end.

Inductive ires := ISkip | IIll (why : reason) | IOk (x : obj).
Definition init_case_gen (forms : site -> list form) (k sc : nat) (a b : Z) : ires :=
  match site_of_code k, scen_cls sc with
  | Some s, Some c =>
      if applicable s sc then
        let r := match scen_args sc with
                 | [ASelf] => run_forms_self (forms s) c (mkobj 0 1 a 0)       (* the argument is Tree(a) / E() *)
                 | args => run_forms (forms s) c args (scen_vals sc a b)
                 end in
        match r with
        | (Ill w, _) => IIll w
        | (_, Some x) => IOk x
        | (_, None) => IIll NoViable
        end
      else ISkip
  | _, _ => ISkip
  end.
Definition init_case_m := init_case_gen site_forms.

(** * the language rule itself, form by form (op `initlang <form> <scenario> <a> <b>`: the compiler is the reference) *)
Definition form_of_code (k : nat) : option form := nth_error [Paren; Brace; CopyList; CopyInit] k.
Definition lang_case_m (fk sc : nat) (a b : Z) : ires :=
  match form_of_code fk, scen_cls sc with
  | Some f, Some c =>
      match scen_args sc with
      | [] => ISkip
      | [ASelf] =>
          match resolve f c [ASelf] with
          | Ill w => IIll w
          | _ => match rehop c f (mkobj 0 1 a 0) with Some x => IOk x | None => IIll NoViable end
          end
      | args =>
          match f, args with
          | CopyInit, _ :: _ :: _ => ISkip
          | _, _ =>
              match resolve f c args with
              | Ill w => IIll w
              | o => match first_obj c o (scen_vals sc a b) with Some x => IOk x | None => IIll NoViable end
              end
          end
      end
  | _, _ => ISkip
  end.
