(* C20 — property theorems, continued: pair's operator< is a strict weak ordering whenever the element comparison is
   one (any element type, any comparison), and the equivalence it induces is member-wise equivalence. *)
From Tetl Require Import Lib.Base C20.Model C20.Spec C20.ProofsVal C20.ProofsOrder.
Local Open Scope Z_scope.

Theorem C20_pair_lt_strict_weak_order : forall (A : Type) (lt : A -> A -> bool),
  strict_weak lt -> strict_weak (pair_lt_m lt).
Proof. exact (@pair_lt_strict_weak). Qed.
Print Assumptions C20_pair_lt_strict_weak_order.

Theorem C20_pair_equivalence_memberwise : forall (A : Type) (lt : A -> A -> bool), strict_weak lt ->
  forall l r, equiv (pair_lt_m lt) l r <-> lex_equiv lt l r.
Proof. exact (@pair_equiv_memberwise). Qed.
Print Assumptions C20_pair_equivalence_memberwise.

(* C++20 synthesises pair's relational operators from operator<=>; pair.hpp implements the C++17 definitions.  For every
   total three-way comparison (never unordered, antisymmetric) the two coincide ... *)
Theorem C20_pair_relations_cxx20_total_order : forall (A : Type) (cmp : A -> A -> pord),
  (forall a b, cmp a b <> PUnordered) -> (forall a b, cmp b a = pord_flip (cmp a b)) ->
  forall l r,
    pair_lt_m (fun a b => is_lt (cmp a b)) l r = is_lt (pair_cmp3_spec cmp l r) /\
    pair_le_m (fun a b => is_lt (cmp a b)) l r = is_le (pair_cmp3_spec cmp l r) /\
    pair_gt_m (fun a b => is_lt (cmp a b)) l r = is_gt (pair_cmp3_spec cmp l r) /\
    pair_ge_m (fun a b => is_lt (cmp a b)) l r = is_ge (pair_cmp3_spec cmp l r).
Proof. exact (@pair_rel_cxx20_total). Qed.
Print Assumptions C20_pair_relations_cxx20_total_order.
(* ... for a partial order (floating-point NaN; None below) they do not: known finding KF-C20-pair-relops-partial-order *)
Theorem C20_pair_relations_partial_order_refuted : exists l r : option Z * option Z,
  pair_lt_m (fun a b => is_lt (ocmp a b)) l r <> is_lt (pair_cmp3_spec ocmp l r).
Proof. exact pair_rel_cxx20_partial_refuted. Qed.
Print Assumptions C20_pair_relations_partial_order_refuted.

(* the hypothesis is satisfiable: integers under < *)
Example C20_nonvacuous_order : strict_weak Z.ltb /\ pair_lt_m Z.ltb (1, 2) (1, 3) = true /\ pair_lt_m Z.ltb (1, 3) (1, 2) = false
  /\ (forall a b, Z_cmp3 a b <> PUnordered) /\ (forall a b, Z_cmp3 b a = pord_flip (Z_cmp3 a b)).
Proof.
  split; [exact Zltb_strict_weak|]. split; [reflexivity|]. split; [reflexivity|]. split; [exact Z_cmp3_total|exact Z_cmp3_flip].
Qed.
