(* C20 — property theorems, part (iv): object identity through reference_wrapper / ref / cref / function_ref / owning
   wrappers / invoke / bind_front / tuple / pair for an object type with an OVERLOADED unary operator& (`amp x` = the object
   whose address `&x` yields).  The specification (SpecAddr.v) never mentions amp: a reference is the object. *)
From Coq Require Import ZArith List.
From Tetl Require Import C20.ModelAddr C20.SpecAddr C20.ProofsAddr.
Import ListNotations.
Local Open Scope Z_scope.

(* every script, every state (any number of objects and wrapper slots), every operator&: the library as written (both
   address-taking sites use etl::addressof) behaves as the standard says *)
Theorem C20_identity_under_overloaded_addressof : forall amp ops s, arun_m amp s ops = arun_s s ops.
Proof. exact arun_refines. Qed.
Print Assumptions C20_identity_under_overloaded_addressof.

(* clauses: ref(x) / reference_wrapper<T>{x} refer to x; copies and ref(reference_wrapper) refer to what the source refers
   to; a call / a write through the wrapper reaches that object once and no other *)
Theorem C20_ref_refers_to_its_argument : forall amp s k x s' out,
  (astep_m amp s (ARef k x) = Some (s', out) \/ astep_m amp s (ACtor k x) = Some (s', out)) -> get_rw s' k = Some x.
Proof. exact ref_refers_to_argument. Qed.
Print Assumptions C20_ref_refers_to_its_argument.
Theorem C20_wrapper_copy_refers_to_same_object : forall amp s k j s' out,
  (astep_m amp s (ACopyW k j) = Some (s', out) \/ astep_m amp s (ARefW k j) = Some (s', out)) -> get_rw s' k = get_rw s j.
Proof. exact copy_refers_to_same. Qed.
Print Assumptions C20_wrapper_copy_refers_to_same_object.
Theorem C20_wrapper_call_reaches_referent_once : forall amp s k z s' out,
  astep_m amp s (ACall k z) = Some (s', out) ->
  exists x o, get_rw s k = Some x /\ get_o s x = Some o /\ out = [ov o + z + 1000 * (oc o + 1)] /\
              get_o s' x = Some (mkaobj (ov o) (oc o + 1)) /\ (forall y, y <> x -> get_o s' y = get_o s y) /\ arws s' = arws s.
Proof. exact call_reaches_referent. Qed.
Print Assumptions C20_wrapper_call_reaches_referent_once.
Theorem C20_wrapper_write_reaches_referent : forall amp s k z s' out,
  astep_m amp s (AWrite k z) = Some (s', out) ->
  exists x o, get_rw s k = Some x /\ get_o s x = Some o /\ get_o s' x = Some (mkaobj z (oc o)) /\
              (forall y, y <> x -> get_o s' y = get_o s y).
Proof. exact write_reaches_referent. Qed.
Print Assumptions C20_wrapper_write_reaches_referent.

(* why etl::addressof is needed, and why no type without an overloaded operator& can tell: the same code with the built-in
   operator (`_ptr(&FUN<T>(...))`, `_obj(&f)`) agrees with the specification for amp = identity on every script, and
   disagrees for some operator& *)
Theorem C20_builtin_operator_unobservable_without_overload : forall ops s, arun_amp_m (fun x => x) s ops = arun_s s ops.
Proof. exact arun_amp_plain. Qed.
Print Assumptions C20_builtin_operator_unobservable_without_overload.
Theorem C20_addressof_is_needed : exists amp s ops, arun_amp_m amp s ops <> arun_s s ops.
Proof. exact builtin_amp_differs. Qed.
Print Assumptions C20_addressof_is_needed.

(* non-vacuity: a script in which every operation kind runs (none is skipped) on objects whose operator& all answer with
   object 2 *)
Example C20_addr_nonvacuous :
  let ops := [ARef 0 0; ACtor 1 1; ACopyW 0 1; ARefW 1 0; AWrite 0 7; AConv 1 8; ACall 0 9; ACref 0 1; ACrefW 0 2; AView 1 3;
              ACView 2 4; AViewW 0 5; AOwn 1 6; AOwnW 1 7; AInvRef 0 8; AInvPtr 1 9; AInvObj 2 1; AInvW 0 2; ABindRef 1 3;
              ABindObj 2 4; ABindW 1 5; ABindArg 0 6; ATup 0 1 7; APair 1 2 8; ASwap 0 2; AApply 2 1 9] in
  forallb (fun o => match o with Some _ => true | None => false end) (snd (arun_m (fun _ => 2%nat) (ainit [10; 20; -1] 2) ops)) = true.
Proof. vm_compute. reflexivity. Qed.
