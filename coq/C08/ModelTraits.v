(* C08 model, part 3: etl::char_traits (include/etl/_string/char_traits.hpp, detail::char_traits_base) as
   operations of their own - move, copy, assign(s, n, c), compare, find, length, eq, lt, assign(c, d),
   to_char_type, to_int_type, eq_int_type, eof, not_eof - as the code is AFTER the fix commits
   f246a8c (move copies backwards when dest points into (source, source + count)) and
   6bff3c6 (char_traits<char>::to_int_type converts through unsigned char).

   The pointer-taking members that WRITE work on one address space: a buffer (list of characters)
   and offsets into it (two unrelated arrays are two disjoint ranges of the buffer).  Every access is
   checked: a read or write outside the buffer is UB OutOfBounds.  compare / find / length are the
   functions [traits_compare] / [traits_find] / [strlen_m] of Model.v.  No proofs in this file. *)
From Tetl Require Import Lib.Base C08.Model.
Local Open Scope Z_scope.

(** * checked buffer *)
Definition rdn (l : list Z) (i : nat) : res Z :=
  match nth_error l i with Some x => Ok x | None => UB OutOfBounds end.
Definition upd (l : list Z) (i : nat) (v : Z) : list Z := firstn i l ++ v :: skipn (S i) l.
Definition wrn (l : list Z) (i : nat) (v : Z) : res (list Z) :=
  if (i <? length l)%nat then Ok (upd l i v) else UB OutOfBounds.

(* for (i = 0; i < count; ++i) dest[i] = source[i];   (k = characters still to copy) *)
Fixpoint copy_fwd (l : list Z) (d s k : nat) : res (list Z) :=
  match k with
  | O => Ok l
  | S k' => do x <- rdn l s; do l' <- wrn l d x; copy_fwd l' (S d) (S s) k'
  end.
(* for (i = count; i != 0; --i) dest[i - 1] = source[i - 1]; *)
Fixpoint copy_bwd (l : list Z) (d s k : nat) : res (list Z) :=
  match k with
  | O => Ok l
  | S k' => do x <- rdn l (s + k')%nat; do l' <- wrn l (d + k')%nat x; copy_bwd l' d s k'
  end.

(* for (i = 1; i < count; ++i) if (dest == source + i) { backward = true; break; } *)
Definition points_into_tail (d s count : nat) : bool :=
  existsb (fun i => (d =? s + i)%nat) (seq 1 (count - 1)).

(* Traits::move(dest, source, count): the buffer afterwards (the return value is dest) *)
Definition tr_move_m (l : list Z) (d s count : nat) : res (list Z) :=
  if points_into_tail d s count then copy_bwd l d s count else copy_fwd l d s count.
(* Traits::copy(dest, source, count): for (i...) assign(dest[i], source[i]) *)
Definition tr_copy_m (l : list Z) (d s count : nat) : res (list Z) := copy_fwd l d s count.
(* Traits::assign(str, count, token): for (i...) assign(str[i], token) *)
Fixpoint tr_fill_m (l : list Z) (d k : nat) (c : Z) : res (list Z) :=
  match k with
  | O => Ok l
  | S k' => do l' <- wrn l d c; tr_fill_m l' (S d) k' c
  end.

(** * character-level members *)
Definition tr_eq_m (a b : Z) : bool := a =? b.
Definition tr_lt_m := lt_tr.
(* assign(char_type& a, char_type const& b): a = b *)
Definition tr_assign_m (a b : Z) : Z := b.

(** * int_type members.  int_type is int (char), wint_t = unsigned int (wchar_t), unsigned (char8_t),
      uint_least16_t (char16_t), uint_least32_t (char32_t); values are the values of those types *)
Definition two32 : Z := 4294967296.
Definition eof_m (ck : charkind) : Z :=
  match ck with CChar => -1 | CChar16 => 65535 | _ => 4294967295 end.
(* static_cast<int_type>(c), for char through unsigned char *)
Definition to_int_type_m (ck : charkind) (c : Z) : Z :=
  match ck with
  | CChar => c mod 256
  | CWchar => c mod two32
  | _ => c
  end.
(* static_cast<char_type>(i): modular conversion to the character type *)
Definition to_char_type_m (ck : charkind) (i : Z) : Z :=
  match ck with
  | CChar => (i + 128) mod 256 - 128
  | CWchar => (i + 2147483648) mod two32 - 2147483648
  | CChar8 => i mod 256
  | CChar16 => i mod 65536
  | CChar32 => i mod two32
  end.
(* the four ifs of eq_int_type, as written *)
Definition eq_int_type_m (ck : charkind) (a b : Z) : bool :=
  if a =? b then true
  else if (a =? eof_m ck) && (b =? eof_m ck) then true
  else if (a =? eof_m ck) || (b =? eof_m ck) then false
  else false.
(* !eq_int_type(c, eof()) ? c : 0 *)
Definition not_eof_m (ck : charkind) (c : Z) : Z := if negb (eq_int_type_m ck c (eof_m ck)) then c else 0.
