(* C08: the six search families of [string.view.find] on sparse strings (closed forms of Spec.v's find_s ... on the
   strings of SpecBig.v).  They walk the same index range as Spec.v's definitions (from pos to the end / from
   min(pos, size) down to 0), so they are executed only where that range is short: a huge haystack searched from a
   position near its end, or backwards from a small position. *)
From Tetl Require Import Lib.Base C08.Model C08.Spec C08.ModelBig C08.SpecBig.
Local Open Scope Z_scope.

(* n occurs in h at position i *)
Definition occurs_sp (h n : bview) (i : Z) : bool :=
  (i + blen n <=? blen h) && eq_sp (mkbview (bbuf h) (boff h + i) (blen n)) n (blen n).

Definition find_sp (h n : bview) (pos : Z) : Z :=
  or_s_npos (first_idx (occurs_sp h n) pos (Z.to_nat (blen h + 1 - pos))).
Definition rfind_sp (h n : bview) (pos : Z) : Z :=
  or_s_npos (last_idx (occurs_sp h n) (Z.to_nat (Z.min pos (blen h) + 1))).
Definition find_first_of_sp (h n : bview) (pos : Z) : Z :=
  or_s_npos (first_idx (fun i => mem (bget h i) (chars_sp n)) pos (Z.to_nat (blen h - pos))).
Definition find_first_not_of_sp (h n : bview) (pos : Z) : Z :=
  or_s_npos (first_idx (fun i => negb (mem (bget h i) (chars_sp n))) pos (Z.to_nat (blen h - pos))).
Definition find_last_of_sp (h n : bview) (pos : Z) : Z :=
  or_s_npos (last_idx (fun i => mem (bget h i) (chars_sp n)) (Z.to_nat (Z.min (pos + 1) (blen h)))).
Definition find_last_not_of_sp (h n : bview) (pos : Z) : Z :=
  or_s_npos (last_idx (fun i => negb (mem (bget h i) (chars_sp n))) (Z.to_nat (Z.min (pos + 1) (blen h)))).
