(* C08: the Char const* overloads.  basic_string_view(s) measures the C string with
   Traits::length (strlen); basic_string_view(s, count) takes the first count characters. *)
From Tetl Require Import Lib.Base C08.Model C08.Spec C08.Core C08.ProofsFind C08.ProofsCmp C08.ProofsRfind.
From Coq Require Import ZifyBool.
Local Open Scope Z_scope.
Ltac Zify.zify_post_hook ::= Z.to_euclidean_division_equations.

(* the array holds a C string: it contains a zero character *)
Definition cstr_ok (a : view) : Prop :=
  view_ok a /\ exists z, 0 <= z < vlen a /\ zth (vchars a) z = 0.

(* an unbounded scan (condition always true) that meets a hit at z *)
Lemma for_up_hit {A} (body : Z -> res (option A)) (p : Z -> bool) (g : Z -> A) z :
  z < 18446744073709551615 ->
  p z = true ->
  forall fuel lo, 0 <= lo <= z ->
  (forall i, lo <= i < z -> p i = false) ->
  (forall i, lo <= i <= z -> body i = Ok (if p i then Some (g i) else None)) ->
  (Z.to_nat (z - lo) < fuel)%nat ->
  for_up fuel (fun _ => true) body lo = Ok (Some (g z)).
Proof.
  intros Hz Hpz. induction fuel as [|f IH]; intros lo Hlo Hno Hb Hf; [lia|].
  cbn [for_up]. rewrite Hb by lia. cbn [rbind].
  destruct (Z.eq_dec lo z) as [->|Hne].
  - rewrite Hpz. reflexivity.
  - rewrite Hno by lia. rewrite sz_small by lia. apply IH; try lia.
    + intros i Hi. apply Hno. lia.
    + intros i Hi. apply Hb. lia.
Qed.

(* the least zero of a list that has one *)
Lemma least_zero (l : list Z) : (exists z, 0 <= z < len l /\ zth l z = 0) ->
  exists z, 0 <= z < len l /\ zth l z = 0 /\ forall i, 0 <= i < z -> zth l i <> 0.
Proof.
  intros (z0 & Hz0 & Hz).
  destruct (first_idx (fun i => zth l i =? 0) 0 (Z.to_nat (len l))) as [z|] eqn:E.
  - apply first_idx_some in E as (E1 & E2 & E3). exists z. repeat split; try lia.
    intros i Hi. specialize (E3 i). cbv beta in E3. lia.
  - rewrite first_idx_none in E. specialize (E z0). cbv beta in E. lia.
Qed.

Lemma cstr_s_firstn : forall (l : list Z) z, 0 <= z < len l -> zth l z = 0 ->
  (forall i, 0 <= i < z -> zth l i <> 0) -> cstr_s l = firstn (Z.to_nat z) l.
Proof.
  induction l as [|x l IH]; intros z Hz Hzero Hno.
  - change (len []) with 0 in Hz. lia.
  - cbn [cstr_s]. destruct (Z.eq_dec z 0) as [->|Hne].
    + rewrite zth_cons_0 in Hzero. subst x. reflexivity.
    + assert (Hx : x <> 0). { specialize (Hno 0). rewrite zth_cons_0 in Hno. apply Hno. lia. }
      replace (x =? 0) with false by lia.
      replace (Z.to_nat z) with (S (Z.to_nat (z - 1))) by lia. cbn [firstn]. f_equal.
      rewrite len_cons in Hz. apply IH; try lia.
      * replace z with (z - 1 + 1) in Hzero by lia. rewrite zth_cons_S in Hzero by lia. exact Hzero.
      * intros i Hi. specialize (Hno (i + 1)). rewrite zth_cons_S in Hno by lia. apply Hno. lia.
Qed.

Lemma cstr_view_spec a : cstr_ok a ->
  exists n, cstr_view a = Ok n /\ view_ok n /\ vchars n = cstr_s (vchars a).
Proof.
  intros (Ha & Hz). pose proof Ha as (A0 & A1 & A2). pose proof (len_vchars a Ha) as LA.
  rewrite <- LA in Hz. destruct (least_zero _ Hz) as (z & Hz1 & Hz2 & Hz3). rewrite LA in Hz1.
  unfold cstr_view, strlen_m.
  rewrite (for_up_hit _ (fun i => zth (vchars a) i =? 0) (fun i => i) z); try (unfold fuel_of; lia).
  - cbn [rbind]. eexists. split; [reflexivity|].
    destruct (subview a 0 z Ha) as (Hok & Hch); try lia.
    rewrite Z.add_0_r in *. split; [exact Hok|]. rewrite Hch, sub_0.
    symmetry. apply cstr_s_firstn; try lia; try exact Hz3.
  - intros i Hi. rewrite rd_ok by (assumption || lia). reflexivity.
Qed.

Lemma ptr_view_spec a count : view_ok a -> 0 <= count <= vlen a ->
  view_ok (ptr_view a count) /\ vchars (ptr_view a count) = sub (vchars a) 0 count.
Proof.
  intros Ha Hc. destruct (subview a 0 count Ha) as (Hok & Hch); try lia.
  rewrite Z.add_0_r in *. split; assumption.
Qed.

(* every (Char const* s, ...) overload is the view overload applied to the C string's view *)
Lemma with_cstr_spec {A} a (f : view -> res A) : cstr_ok a ->
  exists n, with_cstr a f = f n /\ view_ok n /\ vchars n = cstr_s (vchars a).
Proof.
  intros Ha. destruct (cstr_view_spec a Ha) as (n & Hn & Hok & Hch).
  exists n. unfold with_cstr. rewrite Hn. cbn [rbind]. split; [reflexivity|split; assumption].
Qed.

Ltac cstr_overload lem :=
  match goal with
  | Ha : cstr_ok ?a |- context [with_cstr ?a ?f] =>
    let n := fresh "n" in let E := fresh "E" in let Hok := fresh "Hok" in let Hch := fresh "Hch" in
    destruct (with_cstr_spec a f Ha) as (n & E & Hok & Hch); rewrite E, <- Hch; apply lem; assumption
  end.

Lemma find_p_correct h a pos : view_ok h -> cstr_ok a -> pos_ok pos ->
  find_p_m h a pos = Ok (find_s (vchars h) (cstr_s (vchars a)) pos).
Proof. intros Hh Ha Hp. unfold find_p_m. cstr_overload find_correct. Qed.

Lemma rfind_p_correct h a pos : view_ok h -> cstr_ok a -> pos_ok pos ->
  rfind_p_m h a pos = Ok (rfind_s (vchars h) (cstr_s (vchars a)) pos).
Proof. intros Hh Ha Hp. unfold rfind_p_m. cstr_overload rfind_correct. Qed.

Lemma find_first_of_p_correct h a pos : view_ok h -> cstr_ok a -> pos_ok pos ->
  find_first_of_p_m h a pos = Ok (find_first_of_s (vchars h) (cstr_s (vchars a)) pos).
Proof. intros Hh Ha Hp. unfold find_first_of_p_m. cstr_overload find_first_of_correct. Qed.

Lemma find_first_not_of_p_correct h a pos : view_ok h -> cstr_ok a -> pos_ok pos ->
  find_first_not_of_p_m h a pos = Ok (find_first_not_of_s (vchars h) (cstr_s (vchars a)) pos).
Proof. intros Hh Ha Hp. unfold find_first_not_of_p_m. cstr_overload find_first_not_of_correct. Qed.

Lemma find_last_of_p_correct h a pos : view_ok h -> cstr_ok a -> pos_ok pos ->
  find_last_of_p_m h a pos = Ok (find_last_of_s (vchars h) (cstr_s (vchars a)) pos).
Proof. intros Hh Ha Hp. unfold find_last_of_p_m. cstr_overload find_last_of_correct. Qed.

Lemma find_last_not_of_p_correct h a pos : view_ok h -> cstr_ok a -> pos_ok pos ->
  find_last_not_of_p_m h a pos = Ok (find_last_not_of_s (vchars h) (cstr_s (vchars a)) pos).
Proof. intros Hh Ha Hp. unfold find_last_not_of_p_m. cstr_overload find_last_not_of_correct. Qed.

Lemma contains_p_correct h a : view_ok h -> cstr_ok a ->
  contains_p_m h a = Ok (contains_s (vchars h) (cstr_s (vchars a))).
Proof. intros Hh Ha. unfold contains_p_m. cstr_overload contains_correct. Qed.

Lemma compare_p_correct ck h a : view_ok h -> cstr_ok a ->
  compare_p_m ck h a = Ok (compare_s (ct_of ck) (vchars h) (cstr_s (vchars a))).
Proof. intros Hh Ha. unfold compare_p_m. cstr_overload compare_correct. Qed.

(* (s, pos, count) overloads, count within the array *)
Lemma find_pc_correct h a pos count : view_ok h -> view_ok a -> pos_ok pos -> 0 <= count <= vlen a ->
  find_pc_m h a pos count = Ok (find_s (vchars h) (sub (vchars a) 0 count) pos).
Proof.
  intros Hh Ha Hp Hc. destruct (ptr_view_spec a count Ha Hc) as (Hok & Hch).
  unfold find_pc_m. rewrite <- Hch. apply find_correct; assumption.
Qed.

Lemma rfind_pc_correct h a pos count : view_ok h -> view_ok a -> pos_ok pos -> 0 <= count <= vlen a ->
  rfind_pc_m h a pos count = Ok (rfind_s (vchars h) (sub (vchars a) 0 count) pos).
Proof.
  intros Hh Ha Hp Hc. destruct (ptr_view_spec a count Ha Hc) as (Hok & Hch).
  unfold rfind_pc_m. rewrite <- Hch. apply rfind_correct; assumption.
Qed.

Lemma find_first_of_pc_correct h a pos count : view_ok h -> view_ok a -> pos_ok pos -> 0 <= count <= vlen a ->
  find_first_of_pc_m h a pos count = Ok (find_first_of_s (vchars h) (sub (vchars a) 0 count) pos).
Proof.
  intros Hh Ha Hp Hc. destruct (ptr_view_spec a count Ha Hc) as (Hok & Hch).
  unfold find_first_of_pc_m. rewrite <- Hch. apply find_first_of_correct; assumption.
Qed.

Lemma find_first_not_of_pc_correct h a pos count : view_ok h -> view_ok a -> pos_ok pos -> 0 <= count <= vlen a ->
  find_first_not_of_pc_m h a pos count = Ok (find_first_not_of_s (vchars h) (sub (vchars a) 0 count) pos).
Proof.
  intros Hh Ha Hp Hc. destruct (ptr_view_spec a count Ha Hc) as (Hok & Hch).
  unfold find_first_not_of_pc_m. rewrite <- Hch. apply find_first_not_of_correct; assumption.
Qed.

Lemma find_last_of_pc_correct h a pos count : view_ok h -> view_ok a -> pos_ok pos -> 0 <= count <= vlen a ->
  find_last_of_pc_m h a pos count = Ok (find_last_of_s (vchars h) (sub (vchars a) 0 count) pos).
Proof.
  intros Hh Ha Hp Hc. destruct (ptr_view_spec a count Ha Hc) as (Hok & Hch).
  unfold find_last_of_pc_m. rewrite <- Hch. apply find_last_of_correct; assumption.
Qed.

Lemma find_last_not_of_pc_correct h a pos count : view_ok h -> view_ok a -> pos_ok pos -> 0 <= count <= vlen a ->
  find_last_not_of_pc_m h a pos count = Ok (find_last_not_of_s (vchars h) (sub (vchars a) 0 count) pos).
Proof.
  intros Hh Ha Hp Hc. destruct (ptr_view_spec a count Ha Hc) as (Hok & Hch).
  unfold find_last_not_of_pc_m. rewrite <- Hch. apply find_last_not_of_correct; assumption.
Qed.

(** * starts_with / ends_with / compare with a C string *)
Lemma chars_ok_cstr t : forall l, chars_ok t l -> chars_ok t (cstr_s l).
Proof.
  induction l as [|x l IH]; intros Hl; cbn [cstr_s]; [exact Hl|].
  inversion Hl; subst. destruct (x =? 0); constructor; [assumption|]. apply IH. assumption.
Qed.

Lemma starts_with_p_correct ck h a : view_ok h -> cstr_ok a ->
  chars_ok (ct_of ck) (vchars h) -> chars_ok (ct_of ck) (vchars a) ->
  starts_with_p_m ck h a = Ok (starts_with_s (vchars h) (cstr_s (vchars a))).
Proof.
  intros Hh Ha Ch Ca. unfold starts_with_p_m.
  destruct (with_cstr_spec a (fun n => starts_with_m ck h n) Ha) as (n & E & Hok & Hch).
  rewrite E, <- Hch. apply starts_with_correct; try assumption. rewrite Hch. apply chars_ok_cstr. exact Ca.
Qed.

Lemma ends_with_p_correct ck h a : view_ok h -> cstr_ok a ->
  chars_ok (ct_of ck) (vchars h) -> chars_ok (ct_of ck) (vchars a) ->
  ends_with_p_m ck h a = Ok (ends_with_s (vchars h) (cstr_s (vchars a))).
Proof.
  intros Hh Ha Ch Ca. unfold ends_with_p_m.
  destruct (with_cstr_spec a (fun n => ends_with_m ck h n) Ha) as (n & E & Hok & Hch).
  rewrite E, <- Hch. apply ends_with_correct; try assumption. rewrite Hch. apply chars_ok_cstr. exact Ca.
Qed.

Lemma compare3_p_correct ck h pos1 count1 a : view_ok h -> cstr_ok a -> pos_ok pos1 -> pos_ok count1 ->
  res_opt (compare3_p_m ck h pos1 count1 a) (compare3_s (ct_of ck) (vchars h) pos1 count1 (cstr_s (vchars a))).
Proof.
  intros Hh Ha Hp Hc. unfold compare3_p_m, compare3_s.
  pose proof (substr_correct h pos1 count1 Hh Hp Hc) as HS.
  destruct (substr_m h pos1 count1) as [s| | |], (substr_s (vchars h) pos1 count1) as [l|];
    cbn [view_res] in HS; try contradiction; cbn [rbind res_opt]; [|exact I].
  destruct HS as (Hok & Hch & _).
  destruct (with_cstr_spec a (fun n => compare_m ck s n) Ha) as (n & E & Hokn & Hchn).
  rewrite E, compare_correct by assumption. cbn [res_opt]. rewrite Hch, Hchn. reflexivity.
Qed.

Lemma compare4_p_correct ck h pos1 count1 a count2 :
  view_ok h -> view_ok a -> pos_ok pos1 -> pos_ok count1 -> 0 <= count2 <= vlen a ->
  res_opt (compare4_p_m ck h pos1 count1 a count2)
          (compare3_s (ct_of ck) (vchars h) pos1 count1 (sub (vchars a) 0 count2)).
Proof.
  intros Hh Ha Hp Hc Hc2. unfold compare4_p_m, compare3_s.
  pose proof (substr_correct h pos1 count1 Hh Hp Hc) as HS.
  destruct (substr_m h pos1 count1) as [s| | |], (substr_s (vchars h) pos1 count1) as [l|];
    cbn [view_res] in HS; try contradiction; cbn [rbind res_opt]; [|exact I].
  destruct HS as (Hok & Hch & _). destruct (ptr_view_spec a count2 Ha Hc2) as (Hokp & Hchp).
  rewrite compare_correct by assumption. cbn [res_opt]. rewrite Hch, Hchp. reflexivity.
Qed.
