(* C08 specification: std::basic_string_view per [string.view.ops], [string.view.find],
   [string.view.comparison], [char.traits.specializations], on plain lists of character values.
   Nothing here mentions buffers, offsets, loops of the implementation or size_t wrap-around:
   positions and counts are mathematical integers (callers pass values in [0, 2^64);
   npos = 2^64 - 1 is only the "not found" return value / "until the end" argument). *)
From Coq Require Import ZArith List Bool.
Import ListNotations.
Local Open Scope Z_scope.

Definition s_npos : Z := 18446744073709551615.
Definition len (l : list Z) : Z := Z.of_nat (length l).
Definition zth (l : list Z) (i : Z) : Z := nth (Z.to_nat i) l 0.
(* the substring [i, i+n) (shorter if the string ends first) *)
Definition sub (l : list Z) (i n : Z) : list Z := firstn (Z.to_nat n) (skipn (Z.to_nat i) l).

(** least / greatest index satisfying a decidable predicate *)
(* least i in [lo, lo+cnt) with p i *)
Fixpoint first_idx (p : Z -> bool) (lo : Z) (cnt : nat) : option Z :=
  match cnt with
  | O => None
  | S k => if p lo then Some lo else first_idx p (lo + 1) k
  end.
(* greatest i in [0, cnt) with p i *)
Fixpoint last_idx (p : Z -> bool) (cnt : nat) : option Z :=
  match cnt with
  | O => None
  | S k => if p (Z.of_nat k) then Some (Z.of_nat k) else last_idx p k
  end.
Definition or_s_npos (r : option Z) : Z := match r with Some i => i | None => s_npos end.

(** character order: char_traits<char>::lt compares as unsigned char
    ([char.traits.specializations.char]); every other character type uses its built-in <.
    Values are the values of the C++ type (negative for a negative signed char / wchar_t). *)
Inductive chartype := TChar | TWchar | TChar8 | TChar16 | TChar32.
Definition char_lt (t : chartype) (a b : Z) : bool :=
  match t with
  | TChar => (a mod 256) <? (b mod 256)
  | _ => a <? b
  end.

(** [string.view.find] *)
Fixpoint is_prefix (n l : list Z) : bool :=
  match n, l with
  | [], _ => true
  | x :: n', y :: l' => (x =? y) && is_prefix n' l'
  | _ :: _, [] => false
  end.
(* n occurs in h at position i:  i + |n| <= |h|  and  h[i, i+|n|) = n *)
Definition occurs (h n : list Z) (i : Z) : bool := (i <=? len h) && is_prefix n (skipn (Z.to_nat i) h).
Definition mem (c : Z) (l : list Z) : bool := existsb (fun x => x =? c) l.

(* find: the lowest xpos with pos <= xpos, xpos + |n| <= |h| and h[xpos+I] = n[I] for all I; else npos *)
Definition find_s (h n : list Z) (pos : Z) : Z :=
  or_s_npos (first_idx (occurs h n) pos (Z.to_nat (len h + 1 - pos))).
(* rfind: the highest xpos with xpos <= pos, xpos + |n| <= |h| and a match; else npos *)
Definition rfind_s (h n : list Z) (pos : Z) : Z :=
  or_s_npos (last_idx (occurs h n) (Z.to_nat (Z.min pos (len h) + 1))).
(* find_first_of: the lowest xpos with pos <= xpos < |h| and h[xpos] in n *)
Definition find_first_of_s (h n : list Z) (pos : Z) : Z :=
  or_s_npos (first_idx (fun i => mem (zth h i) n) pos (Z.to_nat (len h - pos))).
Definition find_first_not_of_s (h n : list Z) (pos : Z) : Z :=
  or_s_npos (first_idx (fun i => negb (mem (zth h i) n)) pos (Z.to_nat (len h - pos))).
(* find_last_of: the highest xpos with xpos <= pos, xpos < |h| and h[xpos] in n *)
Definition find_last_of_s (h n : list Z) (pos : Z) : Z :=
  or_s_npos (last_idx (fun i => mem (zth h i) n) (Z.to_nat (Z.min (pos + 1) (len h)))).
Definition find_last_not_of_s (h n : list Z) (pos : Z) : Z :=
  or_s_npos (last_idx (fun i => negb (mem (zth h i) n)) (Z.to_nat (Z.min (pos + 1) (len h)))).
Definition contains_s (h n : list Z) : bool := negb (find_s h n 0 =? s_npos).

(** [string.view.ops] *)
(* substr(pos, n): requires pos <= size (otherwise out_of_range: None); rlen = min(n, size - pos) *)
Definition substr_s (h : list Z) (pos n : Z) : option (list Z) :=
  if pos <=? len h then Some (sub h pos (Z.min n (len h - pos))) else None.
(* copy returns rlen and writes the same characters *)
Definition copy_s (h : list Z) (n pos : Z) : option (Z * list Z) :=
  if pos <=? len h then Some (Z.min n (len h - pos), sub h pos (Z.min n (len h - pos))) else None.
(* remove_prefix(n) / remove_suffix(n): precondition n <= size *)
Definition remove_prefix_s (h : list Z) (n : Z) : option (list Z) :=
  if n <=? len h then Some (skipn (Z.to_nat n) h) else None.
Definition remove_suffix_s (h : list Z) (n : Z) : option (list Z) :=
  if n <=? len h then Some (firstn (Z.to_nat (len h - n)) h) else None.

(* compare: Traits::compare on the common length (first differing character decides by lt),
   then the shorter string is smaller; result normalised to its sign *)
Fixpoint compare_s (t : chartype) (a b : list Z) : Z :=
  match a, b with
  | [], [] => 0
  | [], _ :: _ => -1
  | _ :: _, [] => 1
  | x :: a', y :: b' => if char_lt t x y then -1 else if char_lt t y x then 1 else compare_s t a' b'
  end.
Definition compare3_s t (a : list Z) (pos1 n1 : Z) (b : list Z) : option Z :=
  match substr_s a pos1 n1 with Some s => Some (compare_s t s b) | None => None end.
Definition compare5_s t (a : list Z) (pos1 n1 : Z) (b : list Z) (pos2 n2 : Z) : option Z :=
  match substr_s a pos1 n1, substr_s b pos2 n2 with
  | Some s, Some u => Some (compare_s t s u)
  | _, _ => None
  end.

Definition starts_with_s (h n : list Z) : bool := is_prefix n h.
Definition ends_with_s (h n : list Z) : bool :=
  (len n <=? len h) && is_prefix n (skipn (Z.to_nat (len h - len n)) h).

(* [string.view.comparison]: every relational operator is defined through compare *)
Definition rel_s (t : chartype) (a b : list Z) : list bool :=
  let c := compare_s t a b in
  [c =? 0; negb (c =? 0); c <? 0; c <=? 0; c >? 0; c >=? 0].

(* the C string stored in a zero-terminated array: the characters before the first zero *)
Fixpoint cstr_s (a : list Z) : list Z :=
  match a with
  | [] => []
  | x :: r => if x =? 0 then [] else x :: cstr_s r
  end.
